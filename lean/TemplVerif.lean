import TemplVerif.Base.Bytes
