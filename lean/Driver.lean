import TemplVerif.Drive.Common
import TemplVerif.Drive.C17
import TemplVerif.Drive.C04
import TemplVerif.Drive.C01
import TemplVerif.Drive.C03
import TemplVerif.Drive.C05
import TemplVerif.Drive.C20
import TemplVerif.Drive.C19
import TemplVerif.Drive.C18
import TemplVerif.Drive.C11
import TemplVerif.Drive.C0809
import TemplVerif.Drive.C0607
import TemplVerif.Drive.C10
import TemplVerif.Drive.C13
import TemplVerif.Drive.C12
import TemplVerif.Drive.C16
import TemplVerif.Drive.C14
import TemplVerif.Drive.C15
import TemplVerif.Drive.C02
import Std.Data.HashMap
open TemplVerif TemplVerif.Drive

def dispatch (ws : List String) : Verdict :=
  match ws with
  | "C17" :: rest => C17.handle rest
  | "C04" :: rest => C04.handle rest
  | "C01" :: rest => C01.handle rest
  | "C03" :: rest => C03.handle rest
  | "C05" :: rest => C05.handle rest
  | "C20" :: rest => C20.handle rest
  | "C19" :: rest => C19.handle rest
  | "C18" :: rest => C18.handle rest
  | "C11" :: "conc" :: rest => C14.handle ("conc" :: rest)
  | "C11" :: rest => C11.handle rest
  | "C10" :: "conc" :: rest => C14.handle ("conc" :: rest)     -- the concurrent phase shared with C14
  | "C10" :: rest => C10.handle rest
  | "C13" :: rest => C13.handle rest
  | "C12" :: rest => C12.handle rest
  | "C16" :: rest => C16.handle rest
  | "C14" :: rest => C14.handle rest
  | "C15" :: rest => C15.handle rest
  | "C02" :: rest => C02.handle rest
  | "C06" :: rest => C0607.handleC06 rest
  | "C07" :: rest => C0607.handleC07 rest
  | "C08" :: rest => C0809.handleC08 rest
  | "C09" :: rest => C0809.handleC09 rest
  | _ => .badOp

structure Stats where
  total : Nat := 0
  ok : Nat := 0
  mismatch : Nat := 0
  predfail : Nat := 0
  bad : Nat := 0
  skipped : Nat := 0
  nontrivial : Nat := 0
  tags : Std.HashMap String Nat := {}

partial def loop (h : IO.FS.Stream) (out : IO.FS.Stream) (st : Stats) (n : Nat) : IO Stats := do
  let line ← h.getLine
  if line.isEmpty then return st
  let l := (line.dropEndWhile (fun c => c == '\n' || c == '\r')).toString
  if l.isEmpty then loop h out st (n + 1) else
  let v := dispatch (l.splitOn " ")
  let mut st := { st with total := st.total + 1 }
  if v.bad then
    out.putStrLn s!"{n} bad-op"
    st := { st with bad := st.bad + 1 }
  else if v.skipped then
    st := { st with skipped := st.skipped + 1 }
  else
    if v.nontrivial then st := { st with nontrivial := st.nontrivial + 1 }
    match v.mismatch with
    | some d => out.putStrLn s!"{n} mismatch sig={v.sig} {d}"; st := { st with mismatch := st.mismatch + 1 }
    | none => pure ()
    match v.predfail with
    | some d => out.putStrLn s!"{n} predfail sig={v.sig} {d}"; st := { st with predfail := st.predfail + 1 }
    | none => pure ()
    if v.mismatch.isNone && v.predfail.isNone then st := { st with ok := st.ok + 1 }
  let mut tg := st.tags
  for t in v.tags do
    tg := tg.insert t (tg.getD t 0 + 1)
  loop h out { st with tags := tg } (n + 1)

def main : IO Unit := do
  let stdin ← IO.getStdin
  let stdout ← IO.getStdout
  let st ← loop stdin stdout {} 1
  let tagStr := String.intercalate " " (st.tags.toList.map fun (k, v) => s!"tag:{k}={v}")
  stdout.putStrLn s!"SUMMARY total={st.total} ok={st.ok} mismatch={st.mismatch} predfail={st.predfail} bad={st.bad} skipped={st.skipped} nontrivial={st.nontrivial} {tagStr}"
