/-
Bytes: Go strings are byte sequences, so every string in every model is a `List UInt8`.
Hex encoding is the wire format of the line protocol between the Go harness and `tvdriver`.
-/
namespace TemplVerif

abbrev Bytes := List UInt8

namespace Bytes

def ofString (s : String) : Bytes := s.toUTF8.toList

def hexDigit (n : UInt8) : Char :=
  if n < 10 then Char.ofNat (48 + n.toNat) else Char.ofNat (87 + n.toNat)

def toHex (b : Bytes) : String :=
  if b.isEmpty then "-" else
  String.ofList (b.flatMap fun x => [hexDigit (x / 16), hexDigit (x % 16)])

def hexVal (c : Char) : Option UInt8 :=
  if '0' ≤ c ∧ c ≤ '9' then some (c.toNat - 48).toUInt8
  else if 'a' ≤ c ∧ c ≤ 'f' then some (c.toNat - 87).toUInt8
  else if 'A' ≤ c ∧ c ≤ 'F' then some (c.toNat - 55).toUInt8
  else none

def ofHexChars : List Char → Option Bytes
  | [] => some []
  | [_] => none
  | a :: b :: rest => do
    let x ← hexVal a
    let y ← hexVal b
    let r ← ofHexChars rest
    pure ((x * 16 + y) :: r)

def ofHex (s : String) : Option Bytes :=
  if s == "-" then some [] else ofHexChars s.toList

/-- Number of (possibly overlapping) occurrences of `pat` in `s`. -/
def countInfix (pat : Bytes) : Bytes → Nat
  | [] => if pat.isEmpty then 1 else 0
  | b :: rest => (if List.isPrefixOf pat (b :: rest) then 1 else 0) + countInfix pat rest

def hasInfix (pat s : Bytes) : Bool := countInfix pat s > 0

end Bytes

/-- `strings.Join(lines, "\n")`. -/
def joinLF : List Bytes → Bytes
  | [] => []
  | [l] => l
  | l :: ls => l ++ 10 :: joinLF ls

/-- `strings.Split(s, "\n")`: always at least one line. -/
def splitLF : Bytes → List Bytes
  | [] => [[]]
  | b :: rest =>
    if b = 10 then [] :: splitLF rest
    else match splitLF rest with
      | [] => [[b]]          -- unreachable: splitLF never returns []
      | l :: ls => (b :: l) :: ls

end TemplVerif
