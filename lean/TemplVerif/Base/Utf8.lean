import TemplVerif.Base.Bytes
/-
Go's utf8.DecodeRune, transcribed: invalid, overlong and surrogate encodings yield (RuneError, 1).
-/
namespace TemplVerif.Utf8

def runeError : Nat := 0xFFFD

def isCont (b : UInt8) : Bool := 0x80 ≤ b && b ≤ 0xBF

/-- `utf8.DecodeRune`: (rune, width); width 0 only for empty input. -/
def decodeRune : Bytes → Nat × Nat
  | [] => (runeError, 0)
  | b0 :: rest =>
    if b0 < 0x80 then (b0.toNat, 1)
    else if b0 < 0xC2 then (runeError, 1)
    else if b0 < 0xE0 then
      match rest with
      | b1 :: _ => if isCont b1 then ((b0.toNat - 0xC0) * 64 + (b1.toNat - 0x80), 2) else (runeError, 1)
      | _ => (runeError, 1)
    else if b0 < 0xF0 then
      match rest with
      | b1 :: b2 :: _ =>
        let lo : UInt8 := if b0 == 0xE0 then 0xA0 else 0x80
        let hi : UInt8 := if b0 == 0xED then 0x9F else 0xBF
        if lo ≤ b1 && b1 ≤ hi && isCont b2 then
          ((b0.toNat - 0xE0) * 4096 + (b1.toNat - 0x80) * 64 + (b2.toNat - 0x80), 3)
        else (runeError, 1)
      | _ => (runeError, 1)
    else if b0 < 0xF5 then
      match rest with
      | b1 :: b2 :: b3 :: _ =>
        let lo : UInt8 := if b0 == 0xF0 then 0x90 else 0x80
        let hi : UInt8 := if b0 == 0xF4 then 0x8F else 0xBF
        if lo ≤ b1 && b1 ≤ hi && isCont b2 && isCont b3 then
          ((b0.toNat - 0xF0) * 262144 + (b1.toNat - 0x80) * 4096 + (b2.toNat - 0x80) * 64 + (b3.toNat - 0x80), 4)
        else (runeError, 1)
      | _ => (runeError, 1)
    else (runeError, 1)

/-- The runes of a byte string as Go's `for _, r := range s` yields them (fuel = length bound). -/
def runesAux : Nat → Bytes → List Nat
  | 0, _ => []
  | _, [] => []
  | fuel + 1, s@(_ :: _) =>
    let (r, w) := decodeRune s
    r :: runesAux fuel (s.drop (max w 1))

def runes (s : Bytes) : List Nat := runesAux s.length s

/-- `utf8.AppendRune` for scalar values (used by specs that re-encode). -/
def encodeRune (r : Nat) : Bytes :=
  if r < 0x80 then [r.toUInt8]
  else if r < 0x800 then [(0xC0 + r / 64).toUInt8, (0x80 + r % 64).toUInt8]
  else if r < 0x10000 then [(0xE0 + r / 4096).toUInt8, (0x80 + r / 64 % 64).toUInt8, (0x80 + r % 64).toUInt8]
  else [(0xF0 + r / 262144).toUInt8, (0x80 + r / 4096 % 64).toUInt8, (0x80 + r / 64 % 64).toUInt8, (0x80 + r % 64).toUInt8]

end TemplVerif.Utf8
