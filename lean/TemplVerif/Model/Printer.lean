import TemplVerif.Model.Sem
/-
C09 — model of the formatter's printer (parser/v2/types.go: writeNodes, Element.Write and the Write methods of the
other nodes and of the attributes) for the FRAGMENT of templates in which every Go expression is a single gofmt-stable
line without comments and constant attribute values need no re-escaping (`inFragment`); script/raw elements and
`{{ }}` blocks are outside the fragment. On the fragment the model prints byte for byte what `templ fmt` prints
(checked on every run against the real formatter on the real parser's trees).
-/
namespace TemplVerif.Printer
open TemplVerif TemplVerif.Ast TemplVerif.Sem

def tabs (n : Nat) : Bytes := List.replicate n 9
def nl : Bytes := [10]

def Trail.bytes : Trail → Bytes
  | .none => []
  | .horiz => [32]
  | .vert => [10]

/-- WhitespaceTrailer: Element, Text, StringExpression, GoCode. -/
def isTrailer : Node → Bool
  | .element .. => true
  | .text .. => true
  | .strExpr .. => true
  | .goCode .. => true
  | _ => false

def ownTrail : Node → Trail
  | .element _ _ _ t _ _ => t
  | .text _ t => t
  | .strExpr _ t => t
  | .goCode _ t _ => t
  | _ => .vert

def hasCond : Attrs → Bool
  | .nil => false
  | .cons (.cond ..) _ => true
  | .cons _ as => hasCond as

def eqFold (a b : Bytes) : Bool :=
  let lower := fun (c : UInt8) => if 65 ≤ c && c ≤ 90 then c + 32 else c
  a.map lower == b.map lower

/-- shouldAlwaysBreakAfter: <br>, <hr> -/
def alwaysBreak : Node → Bool
  | .element n .. => eqFold n [98, 114] || eqFold n [104, 114]
  | _ => false

mutual
/-- Element.indentsChildren (false for every other node) -/
def indentsChildren : Node → Bool
  | .element _ _ cs _ _ ic => !cs.allWs && (ic || requireOwnLine cs)
  | _ => false
/-- Element.spansLines / GoCode.spansLines -/
def spansLines : Node → Bool
  | .element n as cs t ia ic => ia || hasCond as || (!cs.allWs && (ic || requireOwnLine cs))
  | .goCode _ _ m => m
  | _ => false
/-- hasChildrenRequiringOwnLine -/
def requireOwnLine : Nodes → Bool
  | .nil => false
  | .cons c rest => (!c.isWs && (!isTrailer c || spansLines c)) || requireOwnLine rest
end

/-- isBlockNode -/
def isBlockNode : Node → Bool
  | .ifE .. => true
  | .switchE .. => true
  | .forE .. => true
  | .call .. => true
  | .templEl .. => true
  | .element n as cs t ia ic => isBlock n || indentsChildren (.element n as cs t ia ic)
  | _ => false

def nextIsBlock : Nodes → Bool
  | .nil => false
  | .cons m _ => isBlockNode m

/-- the separator writeNodes puts after a node: its own trailing space, or a line break -/
def sepAfter (indent : Bool) (n : Node) (rest : Nodes) : Trail :=
  if indent && (nextIsBlock rest || rest.isNil || alwaysBreak n) then .vert else ownTrail n

def exprBraces (e : Bytes) : Bytes := [123, 32] ++ (if isBlank e then [] else e) ++ [32, 125]   -- `{ e }`

mutual
def printAttr (level : Nat) : Attr → Bytes
  | .boolConst n => tabs level ++ n
  | .const n v single => tabs level ++ n ++ [61] ++ (if single then [39] else [34]) ++ v ++ (if single then [39] else [34])
  | .boolExpr n e => tabs level ++ n ++ [63, 61, 123, 32] ++ e ++ [32, 125]          -- name?={ e }
  | .expr n e => tabs level ++ n ++ [61, 123, 32] ++ e ++ [32, 125]                  -- name={ e }
  | .spread e => tabs level ++ [123, 32] ++ e ++ [46, 46, 46, 32, 125]               -- { e... }
  | .cond e thn els =>
    tabs level ++ [105, 102, 32] ++ e ++ [32, 123, 10] ++ printAttrLines (level + 1) thn ++ tabs level ++ [125] ++
      (match els with
       | .nil => []
       | _ => [32, 101, 108, 115, 101, 32, 123, 10] ++ printAttrLines (level + 1) els ++ tabs level ++ [125])
/-- the attributes of a conditional attribute's branch, one per line -/
def printAttrLines (level : Nat) : Attrs → Bytes
  | .nil => []
  | .cons a as => printAttr level a ++ nl ++ printAttrLines level as
end

/-- the attributes of an element: each on its own line (indented) or each preceded by a blank -/
def printAttrs (indentAttrs : Bool) (level : Nat) : Attrs → Bytes
  | .nil => []
  | .cons a as =>
    (if indentAttrs then nl ++ printAttr (level + 1) a else [32] ++ printAttr 0 a) ++ printAttrs indentAttrs level as

def kwIf : Bytes := [105, 102, 32]
def kwFor : Bytes := [102, 111, 114, 32]
def kwSwitch : Bytes := [115, 119, 105, 116, 99, 104, 32]
def openBrace : Bytes := [32, 123, 10]                           -- " {\n"
def elseIfKw : Bytes := [125, 32, 101, 108, 115, 101, 32, 105, 102, 32]   -- "} else if "
def elseKw : Bytes := [125, 32, 101, 108, 115, 101, 32, 123, 10]          -- "} else {\n"

mutual
/-- Node.Write(w, level) -/
def printNode : Node → Nat → Bytes
  | .doctype v, level => tabs level ++ [60, 33, 68, 79, 67, 84, 89, 80, 69, 32] ++ v ++ [62]
  | .element n as cs t ia ic, level =>
    let iaEff := ia || hasCond as
    let closeIndent := if iaEff then level else 0
    tabs level ++ [60] ++ n ++ printAttrs iaEff level as ++ (if iaEff then nl else []) ++
      (if !cs.allWs then
         if ic || requireOwnLine cs then
           tabs closeIndent ++ [62, 10] ++ printNodes (level + 1) true (level + 1) cs ++ tabs level ++ [60, 47] ++ n ++ [62]
         else tabs closeIndent ++ [62] ++ printNodes 0 false 0 cs ++ [60, 47] ++ n ++ [62]
       else if isVoid n then tabs closeIndent ++ [47, 62]
       else tabs closeIndent ++ [62, 60, 47] ++ n ++ [62])
  | .htmlComment c, level => tabs level ++ [60, 33, 45, 45] ++ c ++ [45, 45, 62]
  | .children, level => tabs level ++ [123, 32, 99, 104, 105, 108, 100, 114, 101, 110, 46, 46, 46, 32, 125]
  | .raw _ _ _, _ => []                       -- outside the fragment
  | .script _ _, _ => []                      -- outside the fragment
  | .forE e b, level => tabs level ++ kwFor ++ e ++ openBrace ++ printNodes (level + 1) true (level + 1) b ++ tabs level ++ [125]
  | .call e, level => tabs level ++ [64] ++ e
  | .templEl e b, level =>
    tabs level ++ [64] ++ e ++
      (match b with
       | .nil => []
       | _ => openBrace ++ printNodes (level + 1) true (level + 1) b ++ tabs level ++ [125])
  | .ifE e thn elifs els, level =>
    tabs level ++ kwIf ++ e ++ openBrace ++ printNodes (level + 1) true (level + 1) thn ++ printElifs elifs level ++
      (match els with
       | .nil => []
       | _ => tabs level ++ elseKw ++ printNodes (level + 1) true (level + 1) els) ++ tabs level ++ [125]
  | .switchE e cs, level => tabs level ++ kwSwitch ++ e ++ openBrace ++ printCases cs (level + 1) ++ tabs level ++ [125]
  | .strExpr e _, level => tabs level ++ exprBraces e
  | .goCode _ _ _, _ => []                    -- outside the fragment
  | .ws _, _ => []
  | .text v _, level => tabs level ++ v
  | .goComment c m, level => tabs level ++ (if m then [47, 42] ++ c ++ [42, 47] else [47, 47] ++ c)
/-- writeNodes(w, start, nodes, indent): `level` is the indentation of the node about to be written (0 on a line that has
    already begun). -/
def printNodes (start : Nat) (indent : Bool) (level : Nat) : Nodes → Bytes
  | .nil => []
  | .cons n rest =>
    if n.isWs then printNodes start indent level rest
    else
      let tr := sepAfter indent n rest
      printNode n level ++ Trail.bytes tr ++ printNodes start indent (match tr with | .vert => start | _ => 0) rest
def printElifs : ElseIfs → Nat → Bytes
  | .nil, _ => []
  | .cons e thn rest, level => tabs level ++ elseIfKw ++ e ++ openBrace ++ printNodes (level + 1) true (level + 1) thn ++ printElifs rest level
def printCases : Cases → Nat → Bytes
  | .nil, _ => []
  | .cons e b rest, level => tabs level ++ e ++ nl ++ printNodes (level + 1) true (level + 1) b ++ printCases rest level
end

/-- The body of `templ name(…) {` … `}` as the formatter writes it. -/
def body (b : Nodes) : Bytes := printNodes 1 true 1 b

/-! ### The fragment -/

def plainExpr (e : Bytes) : Bool :=
  !e.isEmpty && !e.contains 10 && !e.contains 13 && !Bytes.hasInfix [47, 47] e && !Bytes.hasInfix [47, 42] e &&
    e.head? != some 32 && e.getLast? != some 32 && e.head? != some 9 && e.getLast? != some 9

def plainValue (v : Bytes) : Bool := !v.contains 38 && !v.contains 34 && !v.contains 39 && !v.contains 10 && !v.contains 13

mutual
def attrInFragment : Attr → Bool
  | .boolConst _ => true
  | .const _ v _ => plainValue v
  | .boolExpr _ e => plainExpr e
  | .expr _ e => plainExpr e
  | .spread e => plainExpr e
  | .cond e thn els => plainExpr e && attrsInFragment thn && attrsInFragment els
def attrsInFragment : Attrs → Bool
  | .nil => true
  | .cons a as => attrInFragment a && attrsInFragment as
end

mutual
def nodeInFragment : Node → Bool
  | .doctype _ => true
  | .element _ as cs _ _ _ => attrsInFragment as && nodesInFragment cs
  | .htmlComment c => !c.contains 10
  | .children => true
  | .raw .. => false
  | .script .. => false
  | .forE e b => plainExpr e && nodesInFragment b
  | .call e => plainExpr e
  | .templEl e b => plainExpr e && nodesInFragment b
  | .ifE e thn elifs els => plainExpr e && nodesInFragment thn && elifsInFragment elifs && nodesInFragment els
  | .switchE e cs => plainExpr e && casesInFragment cs
  | .strExpr e _ => plainExpr e
  | .goCode .. => false
  | .ws _ => true
  | .text _ _ => true
  | .goComment c _ => !c.contains 10
def nodesInFragment : Nodes → Bool
  | .nil => true
  | .cons n ns => nodeInFragment n && nodesInFragment ns
def elifsInFragment : ElseIfs → Bool
  | .nil => true
  | .cons e thn rest => plainExpr e && nodesInFragment thn && elifsInFragment rest
def casesInFragment : Cases → Bool
  | .nil => true
  | .cons e b rest => plainExpr e && nodesInFragment b && casesInFragment rest
end

end TemplVerif.Printer
