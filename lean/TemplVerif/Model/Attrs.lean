import TemplVerif.Model.Html
/-
Model of the runtime HTML sinks that take strings without going through the generator:
templ.RenderAttributes (spread attributes) and the opening tag written by JSONScriptElement.Render.
-/
namespace TemplVerif.Attrs
open TemplVerif TemplVerif.Html

/-- The dynamic types `RenderAttributes` switches on. -/
inductive AttrVal
  | str (v : Bytes)
  | strPtr (v : Option Bytes)
  | bool (b : Bool)
  | boolPtr (b : Option Bool)
  | kvStrBool (k : Bytes) (b : Bool)
  | kvBoolBool (k b : Bool)
  | fn (b : Bool)
  | other
deriving Repr, DecidableEq

def valued (key v : Bytes) : Bytes := [32] ++ escape key ++ [61, 34] ++ escape v ++ [34]
def bare (key : Bytes) : Bytes := [32] ++ escape key

def renderAttr (key : Bytes) : AttrVal → Bytes
  | .str v => valued key v
  | .strPtr (some v) => valued key v
  | .strPtr none => []
  | .bool true => bare key
  | .bool false => []
  | .boolPtr (some true) => bare key
  | .boolPtr _ => []
  | .kvStrBool k true => valued key k
  | .kvStrBool _ false => []
  | .kvBoolBool true true => bare key
  | .kvBoolBool _ _ => []
  | .fn true => bare key
  | .fn false => []
  | .other => []

/-- Bytewise lexicographic `<` (Go string comparison, `sort.Strings`). -/
def bytesLt : Bytes → Bytes → Bool
  | [], [] => false
  | [], _ :: _ => true
  | _ :: _, [] => false
  | a :: as, b :: bs => a < b || (a == b && bytesLt as bs)

def insertSorted (x : Bytes × AttrVal) : List (Bytes × AttrVal) → List (Bytes × AttrVal)
  | [] => [x]
  | y :: ys => if bytesLt x.1 y.1 then x :: y :: ys else y :: insertSorted x ys

def sortByKey (l : List (Bytes × AttrVal)) : List (Bytes × AttrVal) := l.foldr insertSorted []

/-- `RenderAttributes`: keys in sorted order. -/
def renderAttributes (attrs : List (Bytes × AttrVal)) : Bytes :=
  (sortByKey attrs).flatMap fun kv => renderAttr kv.1 kv.2

/-- Everything `JSONScriptElement.Render` writes before the JSON body. -/
def jsonScriptOpen (id type nonce : Bytes) : Bytes :=
  [60, 115, 99, 114, 105, 112, 116]                                            -- <script
  ++ (if id.isEmpty then [] else [32, 105, 100, 61, 34] ++ escape id ++ [34])             --  id="…"
  ++ (if type.isEmpty then [] else [32, 116, 121, 112, 101, 61, 34] ++ escape type ++ [34])     --  type="…"
  ++ (if nonce.isEmpty then [] else [32, 110, 111, 110, 99, 101, 61, 34] ++ escape nonce ++ [34]) --  nonce="…"
  ++ [62]

end TemplVerif.Attrs
