import TemplVerif.Model.Sem
/-
C02 — what a template denotes: a direct, one-pass reading of the tree (no intermediate program), the specification
the generated code is compared with.

  * static markup in source order; void elements are not closed; Go comments contribute nothing;
  * an expression's value appears at its place, escaped for its context; it is evaluated when — and only when —
    control flow reaches it;
  * if / else-if / else, for and switch follow the Go values; a component call renders the component, which renders the
    call's block wherever (and as often as) it renders its children; `{ children... }` is the block the template itself was given;
  * boolean, conditional and spread attributes are present exactly when their conditions hold;
  * script handlers (`on*={…}`) and class expressions are announced in front of their element (RenderScriptItems /
    RenderCSSItems) — for the attributes that are REACHED (conditions of conditional attributes are pure);
  * whitespace: a node's trailing space becomes one space exactly when the node and its successor are inline content
    (text, string expressions, non-block elements, control flow); an explicit whitespace node inside a control-flow body
    (not at its ends) is one space; nothing else is ever written between nodes.
-/
namespace TemplVerif.Denote
open TemplVerif TemplVerif.Ast TemplVerif.Sem

/-! Which hoisted expressions are reached (conditions looked at without evaluation marks). With `strict := false`
the conditions are ignored: that is what the generator does today (every class / script-handler expression of the
element is announced, reached or not). -/
mutual
def reachedClasses (strict : Bool) (env : Env) : Attrs → List Bytes
  | .nil => []
  | .cons a as => reachedClassesOne strict env a ++ reachedClasses strict env as
def reachedClassesOne (strict : Bool) (env : Env) : Attr → List Bytes
  | .expr name e => if Html.escape name == Generated.cssAttrName then [e] else []
  | .cond c thn els =>
    if strict then
      match peek env c with
      | some (.bool true) => reachedClasses strict env thn
      | some (.bool false) => reachedClasses strict env els
      | _ => []
    else reachedClasses strict env thn ++ reachedClasses strict env els
  | _ => []
end

mutual
def reachedScripts (strict : Bool) (env : Env) : Attrs → List Bytes
  | .nil => []
  | .cons a as => reachedScriptsOne strict env a ++ reachedScripts strict env as
def reachedScriptsOne (strict : Bool) (env : Env) : Attr → List Bytes
  | .expr name e => if isScriptAttr (Html.escape name) then [e] else []
  | .cond c thn els =>
    if strict then
      match peek env c with
      | some (.bool true) => reachedScripts strict env thn
      | some (.bool false) => reachedScripts strict env els
      | _ => []
    else reachedScripts strict env thn ++ reachedScripts strict env els
  | _ => []
end

def announceClasses (env : Env) : List Bytes → St → St
  | [], st => st
  | e :: es, st =>
    if st.err then st else
    match eval env e st with
    | (some (.classes _), st) => announceClasses env es st
    | (some _, st) => st.stick
    | (none, st) => st

def announceScripts (env : Env) (es : List Bytes) (st : St) : St :=
  if st.err || es.isEmpty then st else
  let (items, st) := evalScripts env es st
  if st.err then st else emitScripts items st

mutual
def attrs (css : Bool) (el : Bytes) : Attrs → Env → St → St
  | .nil, _, st => st
  | .cons a as, env, st => attrs css el as env (attr css el a env st)
def attr (css : Bool) (el : Bytes) : Attr → Env → St → St
  | .boolConst name, _, st => if st.err then st else st.write (sp ++ Html.escape name)
  | .const name value _, _, st => if st.err then st else st.write (sp ++ Html.escape name ++ eqDq ++ Html.escape value ++ dq)
  | .boolExpr name e, env, st =>
    if st.err then st else
    match eval env e st with
    | (some (.bool true), st) => st.write (sp ++ Html.escape name)
    | (some (.bool false), st) => st
    | (some _, st) => st.stick
    | (none, st) => st
  | .expr name e, env, st =>
    if st.err then st else
    let st := st.write (sp ++ Html.escape name ++ eqDq)
    let st :=
      if css && Html.escape name == Generated.cssAttrName then
        (match peek env e with
         | some (.classes c) => st.write (Html.escape c)
         | _ => st.stick)
      else if (Sem.eqFold el aName && Sem.eqFold name hrefName) || (Sem.eqFold el formName && Sem.eqFold name actionName) then writeEscaped env e st
      else if isScriptAttr name then
        (match eval env e st with
         | (some (.script _ _ call), st) => st.write call
         | (some _, st) => st.stick
         | (none, st) => st)
      else writeEscaped env e st
    if st.err then st else st.write dq
  | .spread e, env, st =>
    if st.err then st else
    match eval env e st with
    | (some (.rawOut s false), st) => st.write s
    | (some (.rawOut _ true), st) => st.fail
    | (some _, st) => st.stick
    | (none, st) => st
  | .cond c thn els, env, st =>
    if st.err then st else
    match eval env c st with
    | (some (.bool true), st) => attrs css el thn env st
    | (some (.bool false), st) => attrs css el els env st
    | (some _, st) => st.stick
    | (none, st) => st
end

def openTag (strict : Bool) (css : Bool) (name : Bytes) (as : Attrs) (env : Env) (st : St) : St :=
  if st.err then st else
  match as with
  | .nil => st.write (lt ++ Html.escape name ++ gt)
  | _ =>
    let st := if css then announceClasses env (reachedClasses strict env as) st else st
    let st := announceScripts env (reachedScripts strict env as) st
    if st.err then st else
    let st := attrs css name as env (st.write (lt ++ Html.escape name))
    if st.err then st else st.write gt

def scriptParts : List ScriptPart → Env → St → St
  | [], _, st => st
  | .js v :: rest, env, st => scriptParts rest env (if st.err then st else st.write v)
  | .go e inside trail :: rest, env, st =>
    if st.err then st else
    match eval env e st with
    | (some (.jsVal o i false), st) => scriptParts rest env (st.write ((if inside then i else o) ++ trail))
    | (some (.jsVal _ _ true), st) => st.fail
    | (some _, st) => st.stick
    | (none, st) => st

def caseTexts : Cases → List Bytes
  | .nil => []
  | .cons c _ rest => c :: caseTexts rest

/-- one space after `cur` exactly when it is inline content with a trailing space and its successor is inline content -/
def space (cur : Node) (next : Bool) (st : St) : St :=
  if st.err then st else
  if Node.inline cur && next && Node.trail cur != .none then st.write sp else st

mutual
def node (strict : Bool) : Node → Bool → Env → St → St
  | .doctype v, _, _, st => if st.err then st else st.write (doctypeOpen ++ v ++ gt)
  | .element name as children t ia ic, next, env, st =>
    let st := openTag strict true name as env st
    let st := if isVoid name && children.isNil then st
              else
                let st := nodes strict true true children false env st
                if st.err then st else st.write (ltSlash ++ Html.escape name ++ gt)
    space (.element name as children t ia ic) next st
  | .htmlComment c, _, _, st => if st.err then st else st.write (commentOpen ++ c ++ commentClose)
  | .children, _, env, st =>
    if st.err then st else
    match peek env childrenKey with
    | some (.rawOut s false) => st.write s
    | some (.rawOut _ true) => st.fail
    | _ => st.stick
  | .raw name as contents, _, env, st =>
    let st := openTag strict false name as env st
    if st.err then st else st.write (contents ++ ltSlash ++ Html.escape name ++ gt)
  | .script as parts, _, env, st =>
    let st := openTag strict false scriptOpen.tail as env st
    let st := scriptParts parts env st
    if st.err then st else st.write scriptClose
  | .forE e body, next, env, st =>
    if st.err then st else
    match eval env e st with
    | (some (.iters bs), st) => iterate bs (fun env st => nodes strict false true body next env st) env st
    | (some _, st) => st.stick
    | (none, st) => st
  | .call e, _, env, st =>
    if st.err then st else
    match eval env e st with
    | (some (.comp segs false), st) => renderSegs (fun st => st) segs st
    | (some (.comp _ true), st) => st.fail
    | (some _, st) => st.stick
    | (none, st) => st
  | .templEl e body, _, env, st =>
    if st.err then st else
    match eval env e st with
    | (some (.comp segs false), st) => renderSegs (fun st => nodes strict false true body false env st) segs st
    | (some (.comp _ true), st) => st.fail
    | (some _, st) => st.stick
    | (none, st) => st
  | .ifE e thn elifs els, next, env, st =>
    if st.err then st else
    match eval env e st with
    | (some (.bool true), st) => nodes strict false true thn next env st
    | (some (.bool false), st) =>
      (match elseIfs strict elifs next env st with
       | (true, st) => st
       | (false, st) => nodes strict false true els next env st)
    | (some _, st) => st.stick
    | (none, st) => st
  | .switchE e cs, next, env, st =>
    if st.err then st else
    match eval env e st with
    | (some (.str v false), st) =>
      (match caseIndex env v (caseTexts cs) with
       | some i => case strict cs i next env st
       | none => st)
    | (some _, st) => st.stick
    | (none, st) => st
  | .strExpr e t, next, env, st =>
    let st := if isBlank e then st else writeEscaped env e st
    space (.strExpr e t) next st
  | .goCode e _ _, _, env, st =>
    if st.err || isBlank e then st else
    match eval env e st with
    | (some .unit, st) => st
    | (some _, st) => st.stick
    | (none, st) => st
  | .ws v, _, _, st => if st.err || v.isEmpty then st else st.write sp
  | .text v t, next, _, st => space (.text v t) next (if st.err then st else st.write v)
  | .goComment _ _, _, _, st => st
/-- A node list: whitespace nodes are dropped everywhere (`all`: element and template bodies) or at both ends only
    (control-flow and block bodies); `next` = the list is followed by inline content. -/
def nodes (strict : Bool) (all : Bool) (atStart : Bool) : Nodes → Bool → Env → St → St
  | .nil, _, _, st => st
  | .cons n rest, next, env, st =>
    if n.isWs && (all || atStart || rest.allWs) then nodes strict all atStart rest next env st
    else
      let nx := if all then (match rest.firstNonWs with | some m => Node.inline m | none => next)
                else if rest.allWs then next else optInline rest.head?
      nodes strict all false rest next env (node strict n nx env st)
def elseIfs (strict : Bool) : ElseIfs → Bool → Env → St → Bool × St
  | .nil, _, _, st => (false, st)
  | .cons e thn rest, next, env, st =>
    match eval env e st with
    | (some (.bool true), st) => (true, nodes strict false true thn next env st)
    | (some (.bool false), st) => elseIfs strict rest next env st
    | (some _, st) => (true, st.stick)
    | (none, st) => (true, st)
def case (strict : Bool) : Cases → Nat → Bool → Env → St → St
  | .nil, _, _, _, st => st
  | .cons _ body _, 0, next, env, st => nodes strict false true body next env st
  | .cons _ _ rest, i + 1, next, env, st => case strict rest i next env st
end

/-- The document (and evaluation trace) the template body denotes in the environment. -/
def run (body : Nodes) (env : Env) : St := nodes true true true body false env {}

/-- The same reading, except that class / script-handler expressions below conditional attributes are announced
    (and evaluated) whether or not they are reached — today's generator. -/
def runHoistAll (body : Nodes) (env : Env) : St := nodes false true true body false env {}

/-! `hoistFree`: no class / script-handler expression attribute below a conditional attribute (where the generator's
hoisting evaluates it although it may not be reached). -/
mutual
def condHoistFree : Attrs → Bool
  | .nil => true
  | .cons a as => condHoistFreeOne a && condHoistFree as
def condHoistFreeOne : Attr → Bool
  | .cond _ thn els => noHoisted thn && noHoisted els
  | _ => true
def noHoisted : Attrs → Bool
  | .nil => true
  | .cons a as => noHoistedOne a && noHoisted as
def noHoistedOne : Attr → Bool
  | .expr name _ => !(Html.escape name == Generated.cssAttrName) && !isScriptAttr (Html.escape name)
  | .cond _ thn els => noHoisted thn && noHoisted els
  | _ => true
end

mutual
def Node.hoistFree : Node → Bool
  | .element _ as children _ _ _ => condHoistFree as && Nodes.hoistFree children
  | .raw _ as _ => condHoistFree as
  | .script as _ => condHoistFree as
  | .forE _ body => Nodes.hoistFree body
  | .templEl _ body => Nodes.hoistFree body
  | .ifE _ thn elifs els => Nodes.hoistFree thn && ElseIfs.hoistFree elifs && Nodes.hoistFree els
  | .switchE _ cs => Cases.hoistFree cs
  | _ => true
def Nodes.hoistFree : Nodes → Bool
  | .nil => true
  | .cons n ns => Node.hoistFree n && Nodes.hoistFree ns
def ElseIfs.hoistFree : ElseIfs → Bool
  | .nil => true
  | .cons _ thn rest => Nodes.hoistFree thn && ElseIfs.hoistFree rest
def Cases.hoistFree : Cases → Bool
  | .nil => true
  | .cons _ body rest => Nodes.hoistFree body && Cases.hoistFree rest
end

end TemplVerif.Denote
