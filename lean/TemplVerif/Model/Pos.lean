import TemplVerif.Base.Utf8
/-
C06 / C07 — positions. `positionAt` transcribes a-h/parse's `Input.PositionAt` (newline table + sort.Search);
`advance` is how generator.RangeWriter.write and parser.SourceMap.Add move a position over text.
-/
namespace TemplVerif.Pos
open TemplVerif

structure Pos where
  index : Nat
  line : Nat
  col : Nat
deriving DecidableEq, Repr

/-- Indices of the LF bytes of `s` (`NewInput`'s `newLines`), offset by `base`. -/
def newLinesFrom (base : Nat) : Bytes → List Nat
  | [] => []
  | b :: rest => if b = 10 then base :: newLinesFrom (base + 1) rest else newLinesFrom (base + 1) rest

def newLines (s : Bytes) : List Nat := newLinesFrom 0 s

/-- `sort.Search(len(nl), func(k) { index <= nl[k] })`: the first k with index ≤ nl[k], else len. -/
def searchLine (nl : List Nat) (index : Nat) : Nat :=
  match nl with
  | [] => 0
  | x :: rest => if index ≤ x then 0 else 1 + searchLine rest index

/-- `Input.PositionAt(index)` -/
def positionAt (s : Bytes) (index : Nat) : Pos :=
  let nl := newLines s
  let lineIndex := searchLine nl index
  let previousLineEnd := if lineIndex > 0 then nl.getD (lineIndex - 1) 0 + 1 else 0
  { index := index, line := lineIndex, col := index - previousLineEnd }

/-- Specification: the line is the number of LF bytes before the index, the column the distance from the
    start of that line (a byte index holding LF belongs to the line it ends). -/
def lineOf (s : Bytes) (i : Nat) : Nat := (s.take i).count 10
def lineStart (s : Bytes) (i : Nat) : Nat :=
  -- one past the last LF among the first i bytes
  match ((s.take i).reverse.idxOf? 10) with
  | some k => i - k
  | none => 0

/-- Move a position over the bytes of `v` (UTF-8 width per rune, LF resets the column). Since widths add up to
    the byte count, this is byte-wise: each byte advances index and column, LF moves to the next line. -/
def advance (p : Pos) : Bytes → Pos
  | [] => p
  | b :: rest =>
    if b = 10 then advance { index := p.index + 1, line := p.line + 1, col := 0 } rest
    else advance { index := p.index + 1, line := p.line, col := p.col + 1 } rest

/-- C06's executable predicate: a recorded expression range is faithful to the source. -/
def rangeFaithful (src value : Bytes) (from_ to : Pos) : Bool :=
  decide (from_.index ≤ to.index) && decide (to.index ≤ src.length) &&
  decide (positionAt src from_.index = from_) && decide (positionAt src to.index = to) &&
  List.isPrefixOf value (src.drop from_.index)

/-- Clamping as `goexpression` extractors do it: never past the end, start never after end. -/
def clamp (start stop len : Nat) : Nat × Nat :=
  let e := min stop len
  (min start e, e)

end TemplVerif.Pos
