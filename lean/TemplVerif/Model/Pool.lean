import TemplVerif.Model.Buf
/-
C14 — concurrent renders sharing the buffer pool. Each goroutine takes some buffer out of the pool (any one that
is there, or a new one), renders into it while owning it exclusively, and puts it back. A schedule is any
interleaving of these two steps of any number of goroutines, with any choice of which pooled buffer is handed out.
-/
namespace TemplVerif.Pool
open TemplVerif TemplVerif.Buf

structure Thread where
  ops : List ROp
  writer : Under                       -- the goroutine's own writer (possibly failing)
  holding : Option BW := none          -- the buffer it took from the pool
  result : Option (Under × RErr) := none

structure World where
  cap : Nat
  pool : List BW                       -- idle buffers, in whatever state earlier renders left them
  threads : List Thread

inductive Act
  | get (t : Nat) (i : Nat)            -- goroutine t takes pool[i] (a fresh buffer if there is none)
  | renderPut (t : Nat)                -- goroutine t renders and returns its buffer to the pool

def step (w : World) : Act → World
  | .get t i =>
    match w.threads[t]? with
    | none => w
    | some th =>
      if th.holding.isSome || th.result.isSome then w
      else
        let b := (w.pool[i]?).getD { cap := w.cap }
        { w with pool := w.pool.eraseIdx i, threads := w.threads.set t { th with holding := some b } }
  | .renderPut t =>
    match w.threads[t]? with
    | none => w
    | some th =>
      match th.holding with
      | none => w
      | some b =>
        let (b', e) := render false th.ops b th.writer
        { w with pool := b' :: w.pool, threads := w.threads.set t { th with holding := none, result := some (b'.u, e) } }

def run (w : World) (acts : List Act) : World := acts.foldl step w

/-- What the goroutine gets when it renders alone with a brand-new buffer. -/
def alone (cap : Nat) (th : Thread) : Under × RErr :=
  let (b, e) := render false th.ops { cap := cap } th.writer
  (b.u, e)

/-- Every idle or held buffer has the pool's capacity. -/
def WellFormed (w : World) : Prop :=
  (∀ b ∈ w.pool, b.cap = w.cap) ∧ (∀ th ∈ w.threads, ∀ b, th.holding = some b → b.cap = w.cap) ∧
  (∀ th ∈ w.threads, ∀ r, th.result = some r → r = alone w.cap th)

end TemplVerif.Pool
