import TemplVerif.Model.Doc
/-
C17 — the server's store of open documents (DocumentContents): a map from URI to document, under one mutex. URIs are
compared as they are (byte for byte): two files whose names differ in letter case are two documents.
-/
namespace TemplVerif.Docs
open TemplVerif TemplVerif.Doc

/-- association list, first entry for a key wins; `set` replaces or prepends -/
abbrev Store := List (Bytes × Doc)

def lookup (s : Store) (u : Bytes) : Option Doc := (s.find? (·.1 == u)).map (·.2)

def put (s : Store) (u : Bytes) (d : Doc) : Store := (u, d) :: s.filter (·.1 != u)

def remove (s : Store) (u : Bytes) : Store := s.filter (·.1 != u)

/-- what an editor sends -/
inductive Msg
  | didOpen (u : Bytes) (text : Bytes)
  | didChange (u : Bytes) (changes : List Change)      -- one notification: the changes in the order given
  | didClose (u : Bytes)

def applyAll (d : Doc) : List Change → Doc
  | [] => d
  | (r, txt) :: cs => applyAll (Doc.apply d r txt) cs

def step (s : Store) : Msg → Store
  | .didOpen u t => put s u (ofText t)
  | .didChange u cs => match lookup s u with
    | some d => put s u (applyAll d cs)
    | none => s                                   -- "document not found": nothing changes
  | .didClose u => remove s u

def run (s : Store) (ms : List Msg) : Store := ms.foldl step s

/-- the messages of a session that concern one document -/
def Msg.uri : Msg → Bytes
  | .didOpen u _ => u
  | .didChange u _ => u
  | .didClose u => u

end TemplVerif.Docs
