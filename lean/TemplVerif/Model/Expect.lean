import TemplVerif.Model.Denote
import TemplVerif.Spec.HtmlTok
/-
C01, composition — what the template AUTHOR wrote, read as a token stream.

`Denote` says which bytes a template body produces. `Expect` reads the same tree in the same environment and says
which tokens an HTML5 tokenizer is supposed to see: exactly the tags and attributes of the template, in order, with
every interpolated string VERBATIM (not escaped, not decoded) inside the text run or the attribute value where the
author put it. There is no escaping and no tokenizer in this file: the theorem `tokenize (Denote …).out = Expect.tokens …`
(Proofs/Compose.lean, Props/C01.lean) is what connects the two.

The reading covers the markup fragment `nodesOK`: elements (not the raw-text elements script/style/textarea/title/…),
constant, boolean, expression, class and conditional attributes, text, string expressions, if / for / switch, Go code
and comments. Outside it (spread attributes, script handlers, raw elements, component calls, comments, doctype) the
per-sink theorems of Props/C01, C03, C05, C13 apply instead.
-/
namespace TemplVerif.Expect
open TemplVerif TemplVerif.Ast TemplVerif.Sem TemplVerif.HtmlTok

/-- Token stream under construction. -/
structure T where
  toks : List Token := []                 -- finished tokens, most recent first
  text : Bytes := []                      -- the current text run, as characters
  attrs : List (Bytes × Bytes) := []      -- attributes of the tag being written, in order
  deriving Repr, DecidableEq

def T.flush (t : T) : T :=
  if t.text.isEmpty then t else { t with toks := Token.text t.text :: t.toks, text := [] }
def T.addText (t : T) (s : Bytes) : T := { t with text := t.text ++ s }
def T.addAttr (t : T) (name value : Bytes) : T := { t with attrs := t.attrs ++ [(name, value)] }
def T.endTag (t : T) (name : Bytes) : T := { t.flush with toks := Token.endTag name :: t.flush.toks }

mutual
def attrs : Attrs → Env → T → T
  | .nil, _, t => t
  | .cons a as, env, t => attrs as env (attr a env t)
def attr : Attr → Env → T → T
  | .boolConst name, _, t => t.addAttr name []
  | .const name value _, _, t => t.addAttr name value
  | .boolExpr name e, env, t =>
    match peek env e with
    | some (.bool true) => t.addAttr name []
    | _ => t
  | .expr name e, env, t =>
    if name == Generated.cssAttrName then
      (match peek env e with
       | some (.classes c) => t.addAttr name c
       | _ => t)
    else
      (match peek env e with
       | some (.str v _) => t.addAttr name v          -- the string, verbatim, is the whole value
       | _ => t)
  | .spread _, _, t => t
  | .cond c thn els, env, t =>
    match peek env c with
    | some (.bool true) => attrs thn env t
    | some (.bool false) => attrs els env t
    | _ => t
end

def openTag (name : Bytes) (as : Attrs) (env : Env) (t : T) : T :=
  let t := attrs as env { t.flush with attrs := [] }
  { t with toks := Token.startTag name t.attrs false :: t.toks, attrs := [] }

def iterate (bs : List (List (Bytes × Bytes))) (f : Env → T → T) (env : Env) (t : T) : T :=
  bs.foldl (fun t b => f (bind b env) t) t

def space (cur : Node) (next : Bool) (t : T) : T :=
  if Node.inline cur && next && Node.trail cur != .none then t.addText sp else t

mutual
def node : Node → Bool → Env → T → T
  | .element name as children tr ia ic, next, env, t =>
    let t := openTag name as env t
    let t := if isVoid name && children.isNil then t
             else (nodes true true children false env t).endTag name
    space (.element name as children tr ia ic) next t
  | .forE e body, next, env, t =>
    (match peek env e with
     | some (.iters bs) => iterate bs (fun env t => nodes false true body next env t) env t
     | _ => t)
  | .ifE e thn elifs els, next, env, t =>
    (match peek env e with
     | some (.bool true) => nodes false true thn next env t
     | some (.bool false) =>
       (match elseIfs elifs next env t with
        | (true, t) => t
        | (false, t) => nodes false true els next env t)
     | _ => t)
  | .switchE e cs, next, env, t =>
    (match peek env e with
     | some (.str v _) =>
       (match caseIndex env v (Denote.caseTexts cs) with
        | some i => case cs i next env t
        | none => t)
     | _ => t)
  | .strExpr e tr, next, env, t =>
    let t := if isBlank e then t else
      (match peek env e with
       | some (.str v _) => t.addText v                -- the string, verbatim, inside the current text run
       | _ => t)
    space (.strExpr e tr) next t
  | .ws v, _, _, t => if v.isEmpty then t else t.addText sp
  | .text v tr, next, _, t => space (.text v tr) next (t.addText (Html.decodeRefs v))
  | _, _, _, t => t
def nodes (all : Bool) (atStart : Bool) : Nodes → Bool → Env → T → T
  | .nil, _, _, t => t
  | .cons n rest, next, env, t =>
    if n.isWs && (all || atStart || rest.allWs) then nodes all atStart rest next env t
    else
      let nx := if all then (match rest.firstNonWs with | some m => Node.inline m | none => next)
                else if rest.allWs then next else optInline rest.head?
      nodes all false rest next env (node n nx env t)
def elseIfs : ElseIfs → Bool → Env → T → Bool × T
  | .nil, _, _, t => (false, t)
  | .cons e thn rest, next, env, t =>
    match peek env e with
    | some (.bool true) => (true, nodes false true thn next env t)
    | some (.bool false) => elseIfs rest next env t
    | _ => (true, t)
def case : Cases → Nat → Bool → Env → T → T
  | .nil, _, _, _, t => t
  | .cons _ body _, 0, next, env, t => nodes false true body next env t
  | .cons _ _ rest, i + 1, next, env, t => case rest i next env t
end

/-- The tokens the author wrote, for a template body in an environment. -/
def tokens (body : Nodes) (env : Env) : List Token := (nodes true true body false env {}).flush.toks.reverse

/-! The markup fragment. -/

/-- lower-case letters, digits, `-` `:` `_` `.` `@` -/
def nameByte (b : UInt8) : Bool :=
  (97 ≤ b && b ≤ 122) || (48 ≤ b && b ≤ 57) || b == 45 || b == 58 || b == 95 || b == 46 || b == 64
def nameOK (n : Bytes) : Bool := !n.isEmpty && n.all nameByte
/-- an element name: starts with a letter, and is not one whose content is raw text for the tokenizer -/
def tagOK : Bytes → Bool
  | [] => false
  | b :: rest => (97 ≤ b && b ≤ 122) && rest.all nameByte
                 && !(rcdataNames.contains (b :: rest)) && !(rawtextNames.contains (b :: rest))

/-- bytes that can continue a character reference: letters, digits, `#` -/
def refByte (b : UInt8) : Bool := (97 ≤ b && b ≤ 122) || (65 ≤ b && b ≤ 90) || (48 ≤ b && b ≤ 57) || b == 35
/-- is the end of the text inside a (possible) character reference: `&` followed only by reference bytes? -/
def openRef : Bool → Bytes → Bool
  | o, [] => o
  | o, b :: rest => openRef (if b == 38 then true else if refByte b then o else false) rest
/-- static text: no `<`, and it does not stop in the middle of a character reference (`&`, `&l`, `&amp` …): the
    string that follows would complete it. -/
def textOK (v : Bytes) : Bool := v.all (· != 60) && !openRef false v

mutual
def attrOK : Attr → Bool
  | .boolConst name => nameOK name
  | .const name _ _ => nameOK name
  | .boolExpr name _ => nameOK name
  | .expr name _ => nameOK name && !isScriptAttr name
  | .spread _ => false
  | .cond _ thn els => attrsOK thn && attrsOK els
def attrsOK : Attrs → Bool
  | .nil => true
  | .cons a as => attrOK a && attrsOK as
end

mutual
def nodeOK : Node → Bool
  | .element name as children _ _ _ => tagOK name && attrsOK as && nodesOK children
  | .forE _ body => nodesOK body
  | .ifE _ thn elifs els => nodesOK thn && elseIfsOK elifs && nodesOK els
  | .switchE _ cs => casesOK cs
  | .strExpr _ _ => true
  | .goCode _ _ _ => true
  | .ws _ => true
  | .text v _ => textOK v
  | .goComment _ _ => true
  | _ => false
def nodesOK : Nodes → Bool
  | .nil => true
  | .cons n ns => nodeOK n && nodesOK ns
def elseIfsOK : ElseIfs → Bool
  | .nil => true
  | .cons _ thn rest => nodesOK thn && elseIfsOK rest
def casesOK : Cases → Bool
  | .nil => true
  | .cons _ body rest => nodesOK body && casesOK rest
end

end TemplVerif.Expect
