import TemplVerif.Base.Bytes
/-
C17 — model of cmd/templ/lspcmd/proxy/documentcontents.go (`Document`).
A document is the list of its lines (`strings.Split(s, "\n")`), never empty.
Each Go method that mutates `d.Lines` becomes a function returning the new line list.
-/
namespace TemplVerif.Doc

abbrev Doc := List Bytes

structure Pos where
  line : Nat
  char : Nat
deriving Repr, DecidableEq

structure Rng where
  start : Pos
  stop : Pos
deriving Repr, DecidableEq

def line (d : Doc) (i : Nat) : Bytes := d.getD i []
def lineLen (d : Doc) (i : Nat) : Nat := (line d i).length

/-- `normalize`, one end point: a line past the end becomes the end of the last line,
    a character past the line end becomes the line end. -/
def normPos (d : Doc) (p : Pos) : Pos :=
  let p1 : Pos := if p.line ≥ d.length then ⟨d.length - 1, lineLen d (d.length - 1)⟩ else p
  if p1.char > lineLen d p1.line then ⟨p1.line, lineLen d p1.line⟩ else p1

def normalize (d : Doc) (r : Rng) : Rng := ⟨normPos d r.start, normPos d r.stop⟩

/-- `isWholeDocument` for a non-nil (already normalised) range. -/
def isWhole (d : Doc) (r : Rng) : Bool :=
  if r.start.line != 0 || r.start.char != 0 then false
  else r.stop.line == d.length - 1 && r.stop.char == lineLen d (d.length - 1)

def isEmptyRange (r : Rng) : Bool := r.stop.line == r.start.line && r.start.char == r.stop.char

/-- `DeleteLines(i, j)`. -/
def deleteLines (d : Doc) (i j : Nat) : Doc := d.take i ++ d.drop j

/-- `Delete(fromLine, fromCol, toLine, toCol)`. -/
def delete (d : Doc) (fl fc tl tc : Nat) : Doc :=
  let pre := (line d fl).take fc
  let suf := (line d tl).drop tc
  (deleteLines d fl tl).set fl (pre ++ suf)

/-- `InsertLines(i, withLines)`. -/
def insertLines (d : Doc) (i : Nat) (ls : List Bytes) : Doc := d.take i ++ ls ++ d.drop i

def setLast (ls : List Bytes) (f : Bytes → Bytes) : List Bytes :=
  match ls.getLast? with
  | none => ls
  | some l => ls.dropLast ++ [f l]

/-- `Insert(line, col, lines)`; `lines` is a `strings.Split` result, hence non-empty. -/
def insert (d : Doc) (l c : Nat) (ls : List Bytes) : Doc :=
  let pre := (line d l).take c
  let suf := (line d l).drop c
  match ls with
  | [] => d
  | l0 :: rest =>
    let first := pre ++ l0
    let d1 := d.set l first
    let d2 := if rest.isEmpty then d1 else insertLines d1 (l + 1) rest
    -- d.Lines[line+len(lines)-1] = lines[len(lines)-1] + suffix  (lines[0] already carries the prefix)
    let lastLine := (first :: rest).getLast?.getD []
    d2.set (l + rest.length) (lastLine ++ suf)

/-- `Overwrite(fromLine, fromCol, toLine, toCol, lines)`. -/
def overwrite (d : Doc) (fl fc tl tc : Nat) (ls : List Bytes) : Doc :=
  let suf := (line d tl).drop tc
  let toLen := lineLen d tl
  let d1 := delete d fl fc tl toLen
  insert d1 fl fc (setLast ls (· ++ suf))

/-- `Apply(r, with)`. `none` is the nil range (full replace). -/
def apply (d : Doc) (r : Option Rng) (txt : Bytes) : Doc :=
  let withLines := splitLF txt
  match r with
  | none => withLines
  | some r0 =>
    let r := normalize d r0
    if isWhole d r then withLines
    else if isEmptyRange r && !txt.isEmpty then insert d r.start.line r.start.char withLines
    else if !isEmptyRange r && txt.isEmpty then delete d r.start.line r.start.char r.stop.line r.stop.char
    else if !isEmptyRange r && !txt.isEmpty then
      overwrite d r.start.line r.start.char r.stop.line r.stop.char withLines
    else d

def text (d : Doc) : Bytes := joinLF d
def ofText (t : Bytes) : Doc := splitLF t

/-! ## Specification: the editor's buffer is a byte string and an edit is a splice. -/

/-- Byte offset of a (normalised) position. -/
def offset : Doc → Pos → Nat
  | [], _ => 0
  | l :: ls, ⟨0, c⟩ => c
  | l :: ls, ⟨n + 1, c⟩ => l.length + 1 + offset ls ⟨n, c⟩

def Pos.le (a b : Pos) : Bool := a.line < b.line || (a.line == b.line && a.char ≤ b.char)

/-- What the editor does with a content change. Positions beyond a line or the document are clamped. -/
def Editor.apply (t : Bytes) (r : Option Rng) (txt : Bytes) : Bytes :=
  match r with
  | none => txt
  | some r0 =>
    let d := splitLF t
    let r := normalize d r0
    t.take (offset d r.start) ++ txt ++ t.drop (offset d r.stop)

/-- A change an LSP client can send: start not after end (after clamping). -/
def ordered (d : Doc) (r : Option Rng) : Bool :=
  match r with
  | none => true
  | some r0 => let r := normalize d r0; Pos.le r.start r.stop

/-- What `strings.Split(s, "\n")` produces: at least one line, no line contains LF. -/
def WellFormed (d : Doc) : Prop := d ≠ [] ∧ ∀ l ∈ d, (10 : UInt8) ∉ l

/-- A content change: optional range and replacement text. -/
abbrev Change := Option Rng × Bytes

/-- Every change of the history is ordered with respect to the editor's buffer at that moment. -/
def allOrdered : Bytes → List Change → Bool
  | _, [] => true
  | t, (r, txt) :: cs => ordered (ofText t) r && allOrdered (Editor.apply t r txt) cs

end TemplVerif.Doc
