import TemplVerif.Model.Ast
import TemplVerif.Model.Html
import TemplVerif.Generated.Elements
/-
C02 — the semantic domain shared by the model of the generated code (Gen.lean) and the denotation (Denote.lean).

A Go expression is identified by its text. What it evaluates to is supplied by the environment (in the
correspondence run: computed by the harness's oracle functions and the real runtime); evaluating it appends the
expression's observable evaluation marks (`keys`) to the trace. The per-value behaviour of the runtime (escaping
C01, script data C03, URLs C04, CSS C05, registries C12) is modelled elsewhere; here the values are what those
functions returned, and the subject is WHERE and WHEN the generated code uses them.
-/
namespace TemplVerif.Sem
open TemplVerif TemplVerif.Ast

inductive Val
  | str (s : Bytes) (err : Bool)                 -- string / (string, error) / sanitised style / SafeURL: written HTML-escaped
  | bool (b : Bool)
  | iters (bs : List (List (Bytes × Bytes)))     -- one binding set (expression text ↦ string value) per iteration
  | caseLits (ls : List Bytes)                   -- `case "a", "b":` — the values the case matches
  | caseDefault                                  -- `default:`
  | comp (segs : List Bytes) (err : Bool)        -- a component: its children are rendered between consecutive segments
  | rawOut (s : Bytes) (err : Bool)              -- written as is (RenderAttributes, the children passed to the template)
  | script (name fn call : Bytes)                -- templ.ComponentScript
  | classes (cls : Bytes)                        -- templ.CSSClasses(..).String() of a class expression without CSS components
  | jsVal (outside inside : Bytes) (err : Bool)  -- runtime.ScriptContentOutside/InsideStringLiteral results
  | unit
  deriving Repr, Inhabited

structure Entry where
  keys : List Bytes
  val : Val
  deriving Repr, Inhabited

abbrev Env := List (Bytes × Entry)

structure St where
  out : Bytes := []
  trace : List Bytes := []
  scripts : List Bytes := []     -- script functions already emitted in this render
  err : Bool := false
  stuck : Bool := false          -- an expression without a value, or of the wrong kind (outside the model)
  deriving Repr, Inhabited, DecidableEq

def St.write (st : St) (s : Bytes) : St := { st with out := st.out ++ s }
def St.fail (st : St) : St := { st with err := true }
def St.stick (st : St) : St := { st with err := true, stuck := true }

/-- Evaluate the expression with text `e`: its marks go to the trace. -/
def eval (env : Env) (e : Bytes) (st : St) : Option Val × St :=
  match env.lookup e with
  | none => (none, st.stick)
  | some en => (some en.val, { st with trace := st.trace ++ en.keys })

/-- Look at the value an earlier evaluation produced (no marks). -/
def peek (env : Env) (e : Bytes) : Option Val := (env.lookup e).map (·.val)

/-- Go's switch: the first case listing the value, else the default case (wherever it stands). -/
def caseIndex (env : Env) (v : Bytes) (cases : List Bytes) : Option Nat :=
  let hit := cases.findIdx? fun c => match peek env c with
    | some (.caseLits ls) => ls.contains v
    | _ => false
  match hit with
  | some i => some i
  | none => cases.findIdx? fun c => match peek env c with
    | some .caseDefault => true
    | _ => false

def bind (b : List (Bytes × Bytes)) (env : Env) : Env :=
  b.map (fun kv => (kv.1, { keys := [], val := .str kv.2 false })) ++ env

/-- Run `f` once per iteration with the iteration's bindings. -/
def iterate (bs : List (List (Bytes × Bytes))) (f : Env → St → St) (env : Env) (st : St) : St :=
  bs.foldl (fun st b => f (bind b env) st) st

/-- A component writes its segments; between consecutive segments it renders its children. -/
def renderSegs (children : St → St) : List Bytes → St → St
  | [], st => st
  | [s], st => if st.err then st else st.write s
  | s :: rest, st => if st.err then st else renderSegs children rest (children (st.write s))

/-- JoinStringErrs / SanitizeStyleAttributeValues / SafeURL, then EscapeString. -/
def writeEscaped (env : Env) (e : Bytes) (st : St) : St :=
  if st.err then st else
  match eval env e st with
  | (some (.str v false), st) => st.write (Html.escape v)
  | (some (.str _ true), st) => st.fail
  | (some _, st) => st.stick
  | (none, st) => st

/-- RenderScriptItems over already-evaluated scripts. -/
def emitScripts (items : List (Bytes × Bytes)) (st : St) : St :=
  let fresh := items.foldl (fun (acc : List Bytes × Bytes) it =>
    if acc.1.contains it.1 then acc else (acc.1 ++ [it.1], acc.2 ++ it.2)) (st.scripts, [])
  if fresh.2.isEmpty then { st with scripts := fresh.1 }
  else { st with scripts := fresh.1, out := st.out ++ [60, 115, 99, 114, 105, 112, 116, 62] ++ fresh.2 ++ [60, 47, 115, 99, 114, 105, 112, 116, 62] }

/-- Evaluate script expressions left to right. -/
def evalScripts (env : Env) : List Bytes → St → List (Bytes × Bytes) × St
  | [], st => ([], st)
  | e :: es, st =>
    if st.err then ([], st) else
    match eval env e st with
    | (some (.script name fn _), st) => let (r, st) := evalScripts env es st; ((name, fn) :: r, st)
    | (some _, st) => ([], st.stick)
    | (none, st) => ([], st)

def isVoid (name : Bytes) : Bool := Generated.voidElements.contains name
def isBlock (name : Bytes) : Bool := Generated.blockElements.contains name

def isScriptAttr (name : Bytes) : Bool := Generated.scriptAttrPrefixes.any (fun p => p.isPrefixOf name)

/-- isInlineOrText -/
def Node.inline : Node → Bool
  | .ifE .. => true
  | .switchE .. => true
  | .forE .. => true
  | .element name .. => !isBlock name
  | .text .. => true
  | .strExpr .. => true
  | _ => false

def optInline : Option Node → Bool
  | none => false
  | some n => Node.inline n

/-- the trailing space of a WhitespaceTrailer that takes part in rendering (elements, text, string expressions) -/
def Node.trail : Node → Trail
  | .element _ _ _ t _ _ => t
  | .text _ t => t
  | .strExpr _ t => t
  | _ => .none

def lt : Bytes := [60]
def gt : Bytes := [62]
def ltSlash : Bytes := [60, 47]
def sp : Bytes := [32]
def eqDq : Bytes := [61, 34]
def dq : Bytes := [34]
def commentOpen : Bytes := [60, 33, 45, 45]
def commentClose : Bytes := [45, 45, 62]
def doctypeOpen : Bytes := [60, 33, 100, 111, 99, 116, 121, 112, 101, 32]
def scriptOpen : Bytes := [60, 115, 99, 114, 105, 112, 116]
def scriptClose : Bytes := [60, 47, 115, 99, 114, 105, 112, 116, 62]
def childrenKey : Bytes := [99, 104, 105, 108, 100, 114, 101, 110, 46, 46, 46]   -- "children..."
def aName : Bytes := [97]
def hrefName : Bytes := [104, 114, 101, 102]
def formName : Bytes := [102, 111, 114, 109]
def actionName : Bytes := [97, 99, 116, 105, 111, 110]
def styleName : Bytes := [115, 116, 121, 108, 101]

/-- strings.EqualFold on ASCII names -/
def eqFold (a b : Bytes) : Bool :=
  let lower := fun (c : UInt8) => if 65 ≤ c && c ≤ 90 then c + 32 else c
  a.map lower == b.map lower

def isBlank (e : Bytes) : Bool := e.all fun b => b == 32 || b == 9 || b == 10 || b == 13 || b == 11 || b == 12

end TemplVerif.Sem
