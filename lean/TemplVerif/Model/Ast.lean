import TemplVerif.Base.Bytes
/-
The template AST of parser/v2/types.go (what a template body consists of), as plain mutual inductives with their own
list types (so that functions and proofs are ordinary mutual structural recursion). Source ranges are not part of
the meaning (C07 is about them); layout flags are carried because the formatter (C08/C09) reads them.
-/
namespace TemplVerif.Ast
open TemplVerif

inductive Trail | none | horiz | vert
  deriving DecidableEq, Repr, Inhabited

mutual
inductive Attr
  | boolConst (name : Bytes)
  | const (name value : Bytes) (single : Bool)
  | boolExpr (name expr : Bytes)
  | expr (name expr : Bytes)
  | spread (expr : Bytes)
  | cond (expr : Bytes) (thn els : Attrs)
inductive Attrs
  | nil
  | cons (a : Attr) (as : Attrs)
end

inductive ScriptPart
  | js (v : Bytes)
  | go (expr : Bytes) (inside : Bool) (trail : Bytes)
  deriving DecidableEq, Repr

mutual
inductive Node
  | doctype (v : Bytes)
  | element (name : Bytes) (attrs : Attrs) (children : Nodes) (trail : Trail) (indentAttrs indentChildren : Bool)
  | htmlComment (c : Bytes)
  | children
  | raw (name : Bytes) (attrs : Attrs) (contents : Bytes)
  | script (attrs : Attrs) (parts : List ScriptPart)
  | forE (expr : Bytes) (body : Nodes)
  | call (expr : Bytes)
  | templEl (expr : Bytes) (body : Nodes)
  | ifE (expr : Bytes) (thn : Nodes) (elifs : ElseIfs) (els : Nodes)
  | switchE (expr : Bytes) (cases : Cases)
  | strExpr (expr : Bytes) (trail : Trail)
  | goCode (expr : Bytes) (trail : Trail) (multiline : Bool)
  | ws (v : Bytes)
  | text (v : Bytes) (trail : Trail)
  | goComment (c : Bytes) (multiline : Bool)
inductive Nodes
  | nil
  | cons (n : Node) (ns : Nodes)
inductive ElseIfs
  | nil
  | cons (expr : Bytes) (thn : Nodes) (rest : ElseIfs)
inductive Cases
  | nil
  | cons (expr : Bytes) (body : Nodes) (rest : Cases)
end

deriving instance DecidableEq for Attr, Attrs
deriving instance DecidableEq for Node, Nodes, ElseIfs, Cases

def Attrs.ofList : List Attr → Attrs
  | [] => .nil
  | a :: as => .cons a (Attrs.ofList as)

def Nodes.ofList : List Node → Nodes
  | [] => .nil
  | a :: as => .cons a (Nodes.ofList as)

def Nodes.isNil : Nodes → Bool
  | .nil => true
  | _ => false

def Node.isWs : Node → Bool
  | .ws _ => true
  | _ => false

/-- every node of the list is a Whitespace node -/
def Nodes.allWs : Nodes → Bool
  | .nil => true
  | .cons n ns => n.isWs && ns.allWs

/-- first node that is not a Whitespace node -/
def Nodes.firstNonWs : Nodes → Option Node
  | .nil => none
  | .cons n ns => if n.isWs then ns.firstNonWs else some n

def Nodes.head? : Nodes → Option Node
  | .nil => none
  | .cons n _ => some n

end TemplVerif.Ast
