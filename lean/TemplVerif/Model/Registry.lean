import TemplVerif.Base.Bytes
/-
C12 — model of the per-context registries (runtime.go: contextValue.ss / onceHandles; scripttemplate.go:
RenderScriptItems, ComponentScript.Render; runtime.go: RenderCSSItems + renderCSSItemsToBuilder, CSSMiddleware;
once.go). Output is a list of events, which is what the property speaks about; the harness parses the real
rendered bytes into the same events.
-/
namespace TemplVerif.Registry

/-- What appears in the document, in order. -/
inductive Event
  | scriptDef (names : List Nat)      -- one <script> element holding the function definitions of these scripts
  | scriptCall (name : Nat)           -- an inline <script>call</script> or an on* attribute call
  | styleDef (ids : List Nat)         -- one <style> element holding the rules of these classes
  | className (id : Nat)              -- a class name in a class attribute
  | onceContent (h : Nat)             -- the content of a once handle
deriving DecidableEq, Repr

/-- The containers `renderCSSItemsToBuilder` and `cssProcessor.Add` switch on. -/
inductive ClassItem
  | comp (id : Nat)                              -- ComponentCSSClass
  | kvComp (id : Nat) (on : Bool)                -- KeyValue[ComponentCSSClass, bool]
  | kvIface (id : Nat) (on : Bool)               -- KeyValue[CSSClass, bool] holding a ComponentCSSClass
  | classes (items : List ClassItem)             -- templ.CSSClasses
  | slice (ids : List Nat)                       -- []CSSClass of ComponentCSSClass
  | kvSlice (id : Nat) (on : Bool) (id2 : Nat)   -- []KeyValue[CSSClass, bool] of two entries, the second enabled
  | fn (id : Nat)                                -- func() CSSClass
  | const (name : Nat)                           -- string / ConstantCSSClass: a name only, no rule
deriving Repr

structure Ctx where
  scripts : List Nat := []      -- "script_" + name entries of ss
  classes : List Nat := []      -- "class_" + id entries of ss
  onces : List Nat := []
deriving DecidableEq, Repr

inductive Use
  | scriptComponent (name : Nat) (hasCall : Bool)      -- @script(args) rendered as a component
  | scriptAttrs (names : List Nat)                     -- an element whose on* attributes reference these scripts
  | classAttr (items : List ClassItem)                 -- an element whose class expression holds these items
  | once (h : Nat)                                     -- @handle.Once() { content } (or WithComponent)
deriving Repr

/-- `RenderScriptItems`: definitions of the not-yet-rendered scripts, in order, in ONE script element. -/
def renderScriptItems (c : Ctx) (names : List Nat) : Ctx × List Event :=
  let (c', fresh) := names.foldl (fun (acc : Ctx × List Nat) n =>
    if acc.1.scripts.contains n then acc else ({ acc.1 with scripts := acc.1.scripts ++ [n] }, acc.2 ++ [n])) (c, [])
  (c', if fresh.isEmpty then [] else [.scriptDef fresh])

/-- The ComponentCSSClass case: append the rule unless the id is already registered. -/
def cssComp (id : Nat) (acc : Ctx × List Nat) : Ctx × List Nat :=
  if acc.1.classes.contains id then acc else ({ acc.1 with classes := acc.1.classes ++ [id] }, acc.2 ++ [id])

mutual
  /-- `renderCSSItemsToBuilder`: ids whose rule is appended, in order. -/
  def cssItem : ClassItem → Ctx × List Nat → Ctx × List Nat
    | .comp id, acc => cssComp id acc
    | .kvComp id on, acc => if on then cssComp id acc else acc
    | .kvIface id on, acc => if on then cssComp id acc else acc
    | .classes items, acc => cssItems items acc
    | .slice ids, acc => ids.foldl (fun a id => cssComp id a) acc
    | .kvSlice id on id2, acc => let acc1 := if on then cssComp id acc else acc; cssComp id2 acc1
    | .fn id, acc => cssComp id acc
    | .const _, acc => acc
  def cssItems : List ClassItem → Ctx × List Nat → Ctx × List Nat
    | [], acc => acc
    | i :: rest, acc => cssItems rest (cssItem i acc)
end

/-- `RenderCSSItems` -/
def renderCSSItems (c : Ctx) (items : List ClassItem) : Ctx × List Event :=
  let (c', ids) := cssItems items (c, [])
  (c', if ids.isEmpty then [] else [.styleDef ids])

mutual
  /-- `cssProcessor`: the class names an attribute shows (enabled, first occurrence, in order). -/
  def namesOf : ClassItem → List (Nat × Bool)
    | .comp id => [(id, true)]
    | .kvComp id on => [(id, on)]
    | .kvIface id on => [(id, on)]
    | .classes items => namesOfList items
    | .slice ids => ids.map (·, true)
    | .kvSlice id on id2 => [(id, on), (id2, true)]
    | .fn id => [(id, true)]
    | .const n => [(1000 + n, true)]
  def namesOfList : List ClassItem → List (Nat × Bool)
    | [] => []
    | i :: rest => namesOf i ++ namesOfList rest
end

/-- `cssProcessor.String`: the LAST value set for a name decides whether it is enabled; names in first-added order. -/
def classNames (items : List ClassItem) : List Nat :=
  let all := namesOfList items
  let enabled := fun (n : Nat) => ((all.reverse.find? (·.1 == n)).map (·.2)).getD false
  ((all.map (·.1)).eraseDups).filter enabled

def step (c : Ctx) : Use → Ctx × List Event
  | .scriptComponent n hasCall =>
    let (c', ev) := renderScriptItems c [n]
    (c', ev ++ (if hasCall then [.scriptCall n] else []))
  | .scriptAttrs names =>
    -- hoisted before the element's open tag; then the attribute calls
    let (c', ev) := renderScriptItems c names
    (c', ev ++ names.map .scriptCall)
  | .classAttr items =>
    let (c', ev) := renderCSSItems c items
    (c', ev ++ (classNames items).map .className)
  | .once h => if c.onces.contains h then (c, []) else ({ c with onces := c.onces ++ [h] }, [.onceContent h])

def run (c : Ctx) : List Use → Ctx × List Event
  | [] => (c, [])
  | u :: rest =>
    let (c1, e1) := step c u
    let (c2, e2) := run c1 rest
    (c2, e1 ++ e2)

/-- A context as the CSS middleware prepares it: the registered classes count as already rendered. -/
def middlewareCtx (registered : List Nat) : Ctx := { classes := registered }

def defsOfScript (n : Nat) (es : List Event) : Nat :=
  (es.filter fun e => match e with | .scriptDef ns => ns.contains n | _ => false).length
def defsOfClass (id : Nat) (es : List Event) : Nat :=
  (es.filter fun e => match e with | .styleDef ids => ids.contains id | _ => false).length
def oncesOf (h : Nat) (es : List Event) : Nat :=
  (es.filter fun e => e == .onceContent h).length

end TemplVerif.Registry
