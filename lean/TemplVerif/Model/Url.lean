import TemplVerif.Base.Utf8
import TemplVerif.Generated.Url
/-
C04 — model of templ.URL (url.go) and the specification of how a browser extracts a URL's scheme.
-/
namespace TemplVerif.Url

/-- `strings.IndexByte(s, c)` (what `strings.IndexRune` / `ContainsRune` do for an ASCII rune). -/
def indexOf (c : UInt8) : Bytes → Option Nat
  | [] => none
  | b :: rest => if b = c then some 0 else (indexOf c rest).map (· + 1)

def asciiLower (b : UInt8) : UInt8 := if 65 ≤ b && b ≤ 90 then b + 32 else b
def asciiUpper (b : UInt8) : UInt8 := if 97 ≤ b && b ≤ 122 then b - 32 else b

/-- Does rune `r` equal ASCII byte `c` under Unicode simple case folding? (Go's `strings.EqualFold`,
    specialised to an ASCII right-hand side: besides ASCII case, U+017F folds to `s` and U+212A to `k`.) -/
def runeFoldsTo (r : Nat) (c : UInt8) : Bool :=
  r == c.toNat || r == (asciiUpper c).toNat || r == (asciiLower c).toNat ||
  (asciiLower c == 115 && r == 0x17F) || (asciiLower c == 107 && r == 0x212A)

/-- `strings.EqualFold(s, t)` for an ASCII `t`. -/
def equalFoldAux : Nat → Bytes → Bytes → Bool
  | _, [], [] => true
  | _, [], _ :: _ => false
  | _, _ :: _, [] => false
  | 0, _, _ => false
  | fuel + 1, s@(_ :: _), c :: t =>
    let (r, w) := Utf8.decodeRune s
    runeFoldsTo r c && equalFoldAux fuel (s.drop (max w 1)) t

def equalFold (s t : Bytes) : Bool := equalFoldAux s.length s t

/-- `templ.URL`. -/
def sanitize (s : Bytes) : Bytes :=
  match indexOf 58 s with
  | none => s
  | some i =>
    let protocol := s.take i
    if (indexOf 47 protocol).isSome then s
    else if Generated.urlSchemes.any (equalFold protocol) then s
    else Generated.failedURL

end TemplVerif.Url

/-! ## Specification: WHATWG URL "basic URL parser", the part that decides the scheme.
Written from the standard, independent of the code and of `Generated.*`. -/
namespace TemplVerif.Whatwg

def isC0OrSpace (b : UInt8) : Bool := b ≤ 0x20
def isTabOrNewline (b : UInt8) : Bool := b == 9 || b == 10 || b == 13
def isAlpha (b : UInt8) : Bool := (65 ≤ b && b ≤ 90) || (97 ≤ b && b ≤ 122)
def isSchemeChar (b : UInt8) : Bool := isAlpha b || (48 ≤ b && b ≤ 57) || b == 43 || b == 45 || b == 46
def lower (b : UInt8) : UInt8 := if 65 ≤ b && b ≤ 90 then b + 32 else b

/-- Step 1–3 of the basic URL parser: strip leading and trailing C0 control or space, remove all
    ASCII tab or newline. -/
def preprocess (s : Bytes) : Bytes :=
  let s1 := s.dropWhile isC0OrSpace
  let s2 := (s1.reverse.dropWhile isC0OrSpace).reverse
  s2.filter (fun b => !isTabOrNewline b)

/-- Scheme state: consume scheme characters; `:` ends the scheme. -/
def schemeState (acc : Bytes) : Bytes → Option Bytes
  | [] => none
  | b :: rest =>
    if isSchemeChar b then schemeState (acc ++ [lower b]) rest
    else if b == 58 then some acc
    else none

/-- The scheme a browser resolves the (absolute) URL with; `none` = relative reference
    (no scheme: resolved against the base URL). -/
def scheme (s : Bytes) : Option Bytes :=
  match preprocess s with
  | [] => none
  | b :: rest => if isAlpha b then schemeState [lower b] rest else none

/-- http, https, mailto, tel, ftp, ftps — from the property statement. -/
def allowedSchemes : List Bytes :=
  [[104, 116, 116, 112], [104, 116, 116, 112, 115], [109, 97, 105, 108, 116, 111],
   [116, 101, 108], [102, 116, 112], [102, 116, 112, 115]]

/-- "about:invalid#TemplFailedSanitizationURL" — from the property statement ("the fixed failure URL"). -/
def failedURL : Bytes :=
  [97, 98, 111, 117, 116, 58, 105, 110, 118, 97, 108, 105, 100, 35, 84, 101, 109, 112, 108, 70, 97, 105,
   108, 101, 100, 83, 97, 110, 105, 116, 105, 122, 97, 116, 105, 111, 110, 85, 82, 76]

/-- The property's predicate on an (input, output) pair of the sanitiser. -/
def okPair (s out : Bytes) : Bool :=
  if out == s then
    (match scheme s with
     | none => true
     | some sc => allowedSchemes.contains sc) || s == failedURL
  else out == failedURL

end TemplVerif.Whatwg
