import TemplVerif.Model.Sem
/-
C02 — model of the generator (generator/generator.go: writeNodes, writeNode and the per-node / per-attribute writers)
and of what the Go code it emits does when it runs.

`gen` is the traversal: it produces the sequence of generated statements (`Frag`), one constructor per kind of
statement the generator emits; consecutive `lit`s are what the range writer coalesces into one WriteString call.
`exec` is the meaning of those statements. The tie to the real generator is behavioural: the harness compiles the real
generated code, runs it, and compares bytes, error and evaluation trace with `exec (gen ast)` on the same tree and values.
-/
namespace TemplVerif.Gen
open TemplVerif TemplVerif.Ast TemplVerif.Sem

mutual
inductive Frag
  | lit (s : Bytes)                              -- templruntime.WriteString(buf, n, "…")
  | escaped (e : Bytes)                          -- v, err = JoinStringErrs(e) | SanitizeStyleAttributeValues(e) | SafeURL(e); WriteString(EscapeString(v))
  | scriptCall (e : Bytes)                       -- var v templ.ComponentScript = e; WriteString(v.Call)
  | cssItems (e : Bytes)                         -- var v = []any{e}; templ.RenderCSSItems(ctx, buf, v...)
  | classValue (e : Bytes)                       -- JoinStringErrs(templ.CSSClasses(v).String()) of the variable hoisted for e
  | scriptItems (es : List Bytes)                -- templ.RenderScriptItems(ctx, buf, es...)
  | spread (e : Bytes)                           -- templ.RenderAttributes(ctx, buf, e)
  | ifB (branches : Branches) (els : Frags)      -- if c {…} else if c' {…} else {…}
  | forB (e : Bytes) (body : Frags)
  | switchB (e : Bytes) (cases : FCases)
  | call (e : Bytes)                             -- e.Render(ctx, buf)
  | callBlock (e : Bytes) (body : Frags)         -- v := GeneratedTemplate(func…{body}); e.Render(templ.WithChildren(ctx, v), buf)
  | childrenSlot                                 -- children.Render(ctx, buf)
  | goCode (e : Bytes)
  | jsExpr (e : Bytes) (inside : Bool)           -- v, err := ScriptContent{Inside,Outside}StringLiteral(e); WriteString(v)
inductive Frags
  | nil
  | cons (f : Frag) (fs : Frags)
inductive Branches
  | nil
  | cons (cond : Bytes) (body : Frags) (rest : Branches)
inductive FCases
  | nil
  | cons (c : Bytes) (body : Frags) (rest : FCases)
end

def Frags.append : Frags → Frags → Frags
  | .nil, b => b
  | .cons f fs, b => .cons f (Frags.append fs b)

instance : Append Frags := ⟨Frags.append⟩

def Frags.one (f : Frag) : Frags := .cons f .nil

def lits (s : Bytes) : Frags := Frags.one (.lit s)

/-! ### The traversal -/

mutual
/-- writeAttributesCSS: hoist every `class={…}` expression attribute, also below conditional attributes. -/
def cssHoist : Attrs → Frags
  | .nil => .nil
  | .cons a as => cssHoistOne a ++ cssHoist as
def cssHoistOne : Attr → Frags
  | .expr name e => if Html.escape name == Generated.cssAttrName then Frags.one (.cssItems e) else .nil
  | .cond _ thn els => cssHoist thn ++ cssHoist els
  | _ => .nil
end

mutual
/-- getAttributeScripts over all attributes. -/
def scriptExprs : Attrs → List Bytes
  | .nil => []
  | .cons a as => scriptExprsOne a ++ scriptExprs as
def scriptExprsOne : Attr → List Bytes
  | .expr name e => if isScriptAttr (Html.escape name) then [e] else []
  | .cond _ thn els => scriptExprs thn ++ scriptExprs els
  | _ => []
end

def scriptHoist (as : Attrs) : Frags :=
  match scriptExprs as with
  | [] => .nil
  | es => Frags.one (.scriptItems es)

/-- writeExpressionAttribute's choice of value writer; `css` says whether class attributes were hoisted (elements only). -/
def attrValue (css : Bool) (el name e : Bytes) : Frag :=
  if css && Html.escape name == Generated.cssAttrName then .classValue e
  else if (eqFold el aName && eqFold name hrefName) || (eqFold el formName && eqFold name actionName) then .escaped e
  else if isScriptAttr name then .scriptCall e
  else .escaped e          -- style (sanitised) and every other attribute (JoinStringErrs): escaped all the same

mutual
def genAttrs (css : Bool) (el : Bytes) : Attrs → Frags
  | .nil => .nil
  | .cons a as => genAttr css el a ++ genAttrs css el as
def genAttr (css : Bool) (el : Bytes) : Attr → Frags
  | .boolConst name => lits (sp ++ Html.escape name)
  | .const name value _ => lits (sp ++ Html.escape name ++ eqDq ++ Html.escape value ++ dq)
  | .boolExpr name e => Frags.one (.ifB (.cons e (lits (sp ++ Html.escape name)) .nil) .nil)
  | .expr name e => .cons (.lit (sp ++ Html.escape name ++ [61])) (.cons (.lit dq) (.cons (attrValue css el name e) (lits dq)))
  | .spread e => Frags.one (.spread e)
  | .cond e thn els => Frags.one (.ifB (.cons e (genAttrs css el thn) .nil) (genAttrs css el els))
end

def openTag (css : Bool) (name : Bytes) (as : Attrs) : Frags :=
  match as with
  | .nil => lits (lt ++ Html.escape name ++ gt)
  | _ => (if css then cssHoist as else .nil) ++ scriptHoist as ++ lits (lt ++ Html.escape name) ++ genAttrs css name as ++ lits gt

def genScriptParts : List ScriptPart → Frags
  | [] => .nil
  | .js v :: rest => (if v.isEmpty then .nil else lits v) ++ genScriptParts rest
  | .go e inside trail :: rest => .cons (.jsExpr e inside) ((if trail.isEmpty then .nil else lits trail) ++ genScriptParts rest)

def trailing (cur : Node) (next : Bool) : Frags :=
  if Node.inline cur && next && Node.trail cur != .none then lits sp else .nil

mutual
/-- writeNode; `next` = isInlineOrText(next node). -/
def genNode : Node → Bool → Frags
  | .doctype v, _ => lits (doctypeOpen ++ v ++ gt)
  | .element name as children t ia ic, next =>
    openTag true name as ++
      (if isVoid name && children.isNil then .nil
       else genNodes true true children false ++ lits (ltSlash ++ Html.escape name ++ gt)) ++
      trailing (.element name as children t ia ic) next
  | .htmlComment c, _ => lits commentOpen ++ lits c ++ lits commentClose
  | .children, _ => Frags.one .childrenSlot
  | .raw name as contents, _ => openTag false name as ++ lits contents ++ lits (ltSlash ++ Html.escape name ++ gt)
  | .script as parts, _ =>
    (match as with
     | .nil => lits (scriptOpen ++ gt)
     | _ => scriptHoist as ++ lits scriptOpen ++ genAttrs false scriptOpen.tail as ++ lits gt) ++
      genScriptParts parts ++ lits scriptClose
  | .forE e body, next => Frags.one (.forB e (genNodes false true body next))
  | .call e, _ => Frags.one (.call e)
  | .templEl e body, _ => if body.isNil then Frags.one (.call e) else Frags.one (.callBlock e (genNodes false true body false))
  | .ifE e thn elifs els, next => Frags.one (.ifB (.cons e (genNodes false true thn next) (genElifs elifs next)) (genNodes false true els next))
  | .switchE e cases, next => Frags.one (.switchB e (genCases cases next))
  | .strExpr e t, next => (if isBlank e then .nil else Frags.one (.escaped e)) ++ trailing (.strExpr e t) next
  | .goCode e _ _, _ => if isBlank e then .nil else Frags.one (.goCode e)
  | .ws v, _ => if v.isEmpty then .nil else lits sp
  | .text v t, next => lits v ++ trailing (.text v t) next
  | .goComment _ _, _ => .nil
/-- writeNodes over stripWhitespace(ns) (`all`) or stripLeadingAndTrailingWhitespace(ns) (otherwise), the stripping done
    on the fly: `atStart` = nothing but whitespace nodes so far. -/
def genNodes (all : Bool) (atStart : Bool) : Nodes → Bool → Frags
  | .nil, _ => .nil
  | .cons n rest, next =>
    if n.isWs && (all || atStart || rest.allWs) then genNodes all atStart rest next
    else
      let nx := if all then (match rest.firstNonWs with | some m => Node.inline m | none => next)
                else if rest.allWs then next else optInline rest.head?
      genNode n nx ++ genNodes all false rest next
def genElifs : ElseIfs → Bool → Branches
  | .nil, _ => .nil
  | .cons e thn rest, next => .cons e (genNodes false true thn next) (genElifs rest next)
def genCases : Cases → Bool → FCases
  | .nil, _ => .nil
  | .cons c body rest, next => .cons c (genNodes false true body next) (genCases rest next)
end

/-- The body of a generated template function. -/
def genTemplate (body : Nodes) : Frags := genNodes true true body false

def caseTexts : FCases → List Bytes
  | .nil => []
  | .cons c _ rest => c :: caseTexts rest

/-! ### What the generated statements do -/

mutual
def exec : Frag → Env → St → St
  | .lit s, _, st => if st.err then st else st.write s
  | .escaped e, env, st => writeEscaped env e st
  | .scriptCall e, env, st =>
    if st.err then st else
    match eval env e st with
    | (some (.script _ _ call), st) => st.write call
    | (some _, st) => st.stick
    | (none, st) => st
  | .cssItems e, env, st =>
    if st.err then st else
    match eval env e st with
    | (some (.classes _), st) => st
    | (some _, st) => st.stick
    | (none, st) => st
  | .classValue e, env, st =>
    if st.err then st else
    match peek env e with
    | some (.classes c) => st.write (Html.escape c)
    | _ => st.stick
  | .scriptItems es, env, st =>
    if st.err then st else
    let (items, st) := evalScripts env es st
    if st.err then st else emitScripts items st
  | .spread e, env, st =>
    if st.err then st else
    match eval env e st with
    | (some (.rawOut s false), st) => st.write s
    | (some (.rawOut _ true), st) => st.fail
    | (some _, st) => st.stick
    | (none, st) => st
  | .ifB branches els, env, st =>
    if st.err then st else
    match execBranches branches env st with
    | (true, st) => st
    | (false, st) => execs els env st
  | .forB e body, env, st =>
    if st.err then st else
    match eval env e st with
    | (some (.iters bs), st) => iterate bs (fun env st => execs body env st) env st
    | (some _, st) => st.stick
    | (none, st) => st
  | .switchB e cases, env, st =>
    if st.err then st else
    match eval env e st with
    | (some (.str v false), st) =>
      (match caseIndex env v (caseTexts cases) with
       | some i => execCase cases i env st
       | none => st)
    | (some _, st) => st.stick
    | (none, st) => st
  | .call e, env, st =>
    if st.err then st else
    match eval env e st with
    | (some (.comp segs false), st) => renderSegs (fun st => st) segs st
    | (some (.comp _ true), st) => st.fail
    | (some _, st) => st.stick
    | (none, st) => st
  | .callBlock e body, env, st =>
    if st.err then st else
    match eval env e st with
    | (some (.comp segs false), st) => renderSegs (fun st => execs body env st) segs st
    | (some (.comp _ true), st) => st.fail
    | (some _, st) => st.stick
    | (none, st) => st
  | .childrenSlot, env, st =>
    if st.err then st else
    match peek env childrenKey with
    | some (.rawOut s false) => st.write s
    | some (.rawOut _ true) => st.fail
    | _ => st.stick
  | .goCode e, env, st =>
    if st.err then st else
    match eval env e st with
    | (some .unit, st) => st
    | (some _, st) => st.stick
    | (none, st) => st
  | .jsExpr e inside, env, st =>
    if st.err then st else
    match eval env e st with
    | (some (.jsVal o i false), st) => st.write (if inside then i else o)
    | (some (.jsVal _ _ true), st) => st.fail
    | (some _, st) => st.stick
    | (none, st) => st
def execs : Frags → Env → St → St
  | .nil, _, st => st
  | .cons f fs, env, st => execs fs env (exec f env st)
/-- Conditions are evaluated in order; the result says whether a branch was taken (or evaluation stopped). -/
def execBranches : Branches → Env → St → Bool × St
  | .nil, _, st => (false, st)
  | .cons c body rest, env, st =>
    match eval env c st with
    | (some (.bool true), st) => (true, execs body env st)
    | (some (.bool false), st) => execBranches rest env st
    | (some _, st) => (true, st.stick)
    | (none, st) => (true, st)
def execCase : FCases → Nat → Env → St → St
  | .nil, _, _, st => st
  | .cons _ body _, 0, env, st => execs body env st
  | .cons _ _ rest, i + 1, env, st => execCase rest i env st
end

/-- Rendering the generated template function. -/
def run (body : Nodes) (env : Env) : St := execs (genTemplate body) env {}

end TemplVerif.Gen
