import TemplVerif.Base.Utf8
import TemplVerif.Model.Html
import TemplVerif.Model.Url
import TemplVerif.Generated.Css
/-
C05 — model of safehtml/style.go (SanitizeCSS and its four value sanitisers), templ.SanitizeCSS and the
map / key-value forms of runtime.SanitizeStyleAttributeValues. The property→sanitiser map, the url
prefixes/suffixes, the innocuous constants and the ContainsAny character sets are read from
`Generated.Css` (regenerated from the source on every run); the five regular expressions are hand-written
recognisers whose source strings are pinned in Props/C05.lean.
`net/url.Parse` is a parameter (`parseOk`): only `getScheme`, the fragment cut, the control-character check
and the "first path segment cannot contain colon" rule are modelled.
-/
namespace TemplVerif.CssModel
open TemplVerif

def isAlpha (b : UInt8) : Bool := (65 ≤ b && b ≤ 90) || (97 ≤ b && b ≤ 122)
def isDigit (b : UInt8) : Bool := 48 ≤ b && b ≤ 57
def lower (b : UInt8) : UInt8 := if 65 ≤ b && b ≤ 90 then b + 32 else b

/-- `^[-a-zA-Z]+$` -/
def matchIdentifier (p : Bytes) : Bool := !p.isEmpty && p.all fun b => b == 45 || isAlpha b

/-- `SanitizeCSSProperty` -/
def sanitizeProperty (p : Bytes) : Bytes :=
  if matchIdentifier p then p.map lower else Generated.cssInnocuousPropertyName

/-- `[0-9a-zA-Z+-.!#%_ \t]` — note `+-.` is the range U+002B..U+002E, which includes ','. -/
def safeRegularByte (b : UInt8) : Bool :=
  isDigit b || isAlpha b || (43 ≤ b && b ≤ 46) || b == 33 || b == 35 || b == 37 || b == 95 || b == 32 || b == 9

/-- `^(?:[*/]?(?:[0-9a-zA-Z+-.!#%_ \t]|$))*$` -/
def matchRegular : Bytes → Bool
  | [] => true
  | b :: rest =>
    if b == 42 || b == 47 then
      match rest with
      | [] => true
      | c :: rest' => safeRegularByte c && matchRegular rest'
    else safeRegularByte b && matchRegular rest

/-- `^[a-zA-Z-]*$` -/
def matchEnum (s : Bytes) : Bool := s.all fun b => isAlpha b || b == 45

/-- `^[a-zA-Z][- a-zA-Z]+$` -/
def matchGenericFont : Bytes → Bool
  | [] => false
  | b :: rest => isAlpha b && !rest.isEmpty && rest.all fun c => isAlpha c || c == 45 || c == 32

def innocuousValue : Bytes := Generated.cssInnocuousPropertyValue

def sanitizeRegular (s : Bytes) : Bytes := if matchRegular s then s else innocuousValue
def sanitizeEnum (s : Bytes) : Bytes := if matchEnum s then s else innocuousValue

/-- `strings.Trim(s, cssWhitespace)`: the cutset is ASCII, so this is a byte-level trim at both ends. -/
def trimSpace (s : Bytes) : Bytes :=
  let inSet := fun b => Generated.cssWhitespace.contains b
  ((s.dropWhile inSet).reverse.dropWhile inSet).reverse

/-- `strings.Split(s, ",")` -/
def splitComma : Bytes → List Bytes
  | [] => [[]]
  | b :: rest =>
    if b = 44 then [] :: splitComma rest
    else match splitComma rest with
      | [] => [[b]]
      | l :: ls => (b :: l) :: ls

def containsAny (s set : Bytes) : Bool := s.any fun b => set.contains b
def hasSuffix (s suf : Bytes) : Bool := List.isSuffixOf suf s
def hasPrefix (s pre : Bytes) : Bool := List.isPrefixOf pre s
def trimPrefix (s pre : Bytes) : Bytes := if hasPrefix s pre then s.drop pre.length else s
def trimSuffix (s suf : Bytes) : Bytes := if hasSuffix s suf then s.take (s.length - suf.length) else s

/-- One comma-separated part of a font-family value (after TrimSpace). -/
def fontPartOk (f : Bytes) : Bool :=
  if hasPrefix f [34] then
    !(f.length < 2 || !hasSuffix f [34] ||
      containsAny ((f.drop 1).take (f.length - 2)) (Generated.sanitizeFontFamilyContainsAny.getD 0 []))
  else matchGenericFont f

/-- `sanitizeFontFamily` -/
def sanitizeFontFamily (s : Bytes) : Bytes :=
  if (splitComma s).all fun f => fontPartOk (trimSpace f) then s else innocuousValue

/-! ### net/url -/

/-- Go's `getScheme` on the part before '#': `some (some sch)` scheme found, `some none` no scheme,
    `none` = error (missing protocol scheme). -/
def getSchemeAux : Nat → Bytes → Bytes → Option (Option Bytes)
  | _, _, [] => some none
  | i, acc, b :: rest =>
    if isAlpha b then getSchemeAux (i + 1) (acc ++ [b]) rest
    else if isDigit b || b == 43 || b == 45 || b == 46 then
      if i == 0 then some none else getSchemeAux (i + 1) (acc ++ [b]) rest
    else if b == 58 then (if i == 0 then none else some (some acc))
    else some none

def beforeHash (u : Bytes) : Bytes := u.takeWhile (· != 35)

def goScheme (u : Bytes) : Option (Option Bytes) := getSchemeAux 0 [] (beforeHash u)

def hasCTL (u : Bytes) : Bool := u.any fun b => b < 0x20 || b == 0x7f

/-- The part of `url.Parse`'s error behaviour that the safety argument needs. -/
def parseChecks (u : Bytes) : Bool :=
  !hasCTL (beforeHash u) &&      -- url.Parse looks for control bytes in front of the fragment only
  match goScheme u with
  | none => false
  | some (some _) => true
  | some none =>
    let rest := beforeHash u
    let rest := rest.takeWhile (· != 63)   -- the query is cut off before the path checks
    hasPrefix rest [47] || !((rest.takeWhile (· != 47)).contains 58)

def cssUrlSchemes : List Bytes := [[104, 116, 116, 112], [104, 116, 116, 112, 115], [109, 97, 105, 108, 116, 111]]

/-- `urlIsSafe`, with `url.Parse`'s verdict supplied by `parseOk`. -/
def urlIsSafe (parseOk : Bytes → Bool) (u : Bytes) : Bool :=
  parseOk u && parseChecks u &&
  match goScheme u with
  | some (some sc) => cssUrlSchemes.any fun a => Url.equalFold (sc.map lower) a
  | _ => true

/-- Strip the first matching url prefix/suffix pair: `some body`, or `none` when no pair matches. -/
def stripUrl (u : Bytes) : List Bytes → List Bytes → Option Bytes
  | p :: ps, s :: ss => if hasPrefix u p && hasSuffix u s then some (trimSuffix (trimPrefix u p) s) else stripUrl u ps ss
  | _, _ => none

def bgPartOk (parseOk : Bytes → Bool) (part : Bytes) : Bool :=
  let u := trimSpace part
  match stripUrl u Generated.validURLPrefixes Generated.validURLSuffixes with
  | none => false
  | some body =>
    !containsAny body (Generated.sanitizeBackgroundImageContainsAny.getD 1 []) && urlIsSafe parseOk body

/-- `sanitizeBackgroundImage` -/
def sanitizeBackgroundImage (parseOk : Bytes → Bool) (v : Bytes) : Bytes :=
  if containsAny v (Generated.sanitizeBackgroundImageContainsAny.getD 0 []) then innocuousValue
  else if (splitComma v).all (bgPartOk parseOk) then v else innocuousValue

def fnBackgroundImage : Bytes := [115, 97, 110, 105, 116, 105, 122, 101, 66, 97, 99, 107, 103, 114, 111, 117, 110, 100, 73, 109, 97, 103, 101]
def fnFontFamily : Bytes := [115, 97, 110, 105, 116, 105, 122, 101, 70, 111, 110, 116, 70, 97, 109, 105, 108, 121]
def fnEnum : Bytes := [115, 97, 110, 105, 116, 105, 122, 101, 69, 110, 117, 109]
def fnRegular : Bytes := [115, 97, 110, 105, 116, 105, 122, 101, 82, 101, 103, 117, 108, 97, 114]

/-- `SanitizeCSSValue`: look the (already sanitised, lower-case) property up in the map. -/
def sanitizeValue (parseOk : Bytes → Bool) (prop v : Bytes) : Bytes :=
  match Generated.cssSanitizers.lookup prop with
  | some fn =>
    if fn == fnBackgroundImage then sanitizeBackgroundImage parseOk v
    else if fn == fnFontFamily then sanitizeFontFamily v
    else if fn == fnEnum then sanitizeEnum v
    else if fn == fnRegular then sanitizeRegular v
    else innocuousValue          -- an unknown sanitiser name: the model refuses (and the pins fail)
  | none => sanitizeRegular v

/-- `safehtml.SanitizeCSS` -/
def sanitize (parseOk : Bytes → Bool) (p v : Bytes) : Bytes × Bytes :=
  let p' := sanitizeProperty p
  if p' == Generated.cssInnocuousPropertyName then (Generated.cssInnocuousPropertyName, innocuousValue)
  else (p', sanitizeValue parseOk p' v)

/-- `templ.SanitizeCSS(property, value)` for a plain string value: `p:v;` -/
def templSanitizeCSS (parseOk : Bytes → Bool) (p v : Bytes) : Bytes :=
  let (p', v') := sanitize parseOk p v
  p' ++ [58] ++ v' ++ [59]

/-- One `name:value;` item of a style attribute built from a map entry / KeyValue[string,string]
    (`processStringMap`, `processStringKV`): both parts HTML-escaped. -/
def styleItem (parseOk : Bytes → Bool) (p v : Bytes) : Bytes :=
  let (p', v') := sanitize parseOk p v
  Html.escape p' ++ [58] ++ Html.escape v' ++ [59]

end TemplVerif.CssModel
