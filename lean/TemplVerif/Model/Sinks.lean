import TemplVerif.Base.Bytes
import TemplVerif.Generated.Sinks
/-
Classification of the generator's dynamic write sites (regenerated from generator/generator.go into
Generated.sinks on every run). The expected shapes are written here once, from the property statement:
a dynamic value reaches the HTML buffer only through templ.EscapeString, except in the two script
positions whose values are produced by the script escapers (property C03).
-/
namespace TemplVerif.Sinks
open TemplVerif

inductive Wrapper
  | escape        -- WriteString(templ.EscapeString(v))
  | escapeCast    -- WriteString(templ.EscapeString(string(v)))
  | scriptCall    -- WriteString(v.Call)
  | raw           -- WriteString(v)
  | unknown
deriving DecidableEq, Repr

-- "_, templ_7745c5c3_Err = templ_7745c5c3_Buffer.WriteString("
def prefixBytes : Bytes := [95, 44, 32, 116, 101, 109, 112, 108, 95, 55, 55, 52, 53, 99, 53, 99, 51, 95, 69, 114, 114, 32, 61, 32, 116, 101, 109, 112, 108, 95, 55, 55, 52, 53, 99, 53, 99, 51, 95, 66, 117, 102, 102, 101, 114, 46, 87, 114, 105, 116, 101, 83, 116, 114, 105, 110, 103, 40]
-- "templ.EscapeString(\0))\n"
def escapeTail : Bytes := [116, 101, 109, 112, 108, 46, 69, 115, 99, 97, 112, 101, 83, 116, 114, 105, 110, 103, 40] ++ [0] ++ [41, 41, 10]
-- "templ.EscapeString(string(\0)))\n"
def escapeCastTail : Bytes := [116, 101, 109, 112, 108, 46, 69, 115, 99, 97, 112, 101, 83, 116, 114, 105, 110, 103, 40, 115, 116, 114, 105, 110, 103, 40] ++ [0] ++ [41, 41, 41, 10]
-- "\0.Call)\n"
def callTail : Bytes := [0] ++ [46, 67, 97, 108, 108, 41, 10]
-- "\0)\n"
def rawTail : Bytes := [0] ++ [41, 10]

def classify (text : Bytes) : Wrapper :=
  if !List.isPrefixOf prefixBytes text then .unknown else
  let tail := text.drop prefixBytes.length
  if tail == escapeTail then .escape
  else if tail == escapeCastTail then .escapeCast
  else if tail == callTail then .scriptCall
  else if tail == rawTail then .raw
  else .unknown

def fnScriptAttr : Bytes := [119, 114, 105, 116, 101, 69, 120, 112, 114, 101, 115, 115, 105, 111, 110, 65, 116, 116, 114, 105, 98, 117, 116, 101, 86, 97, 108, 117, 101, 83, 99, 114, 105, 112, 116]
def fnScriptContents : Bytes := [119, 114, 105, 116, 101, 83, 99, 114, 105, 112, 116, 67, 111, 110, 116, 101, 110, 116, 115]

/-- A sink is wired correctly when its dynamic operand is HTML-escaped, or it is one of the two script
    positions (on* attribute call, `{{ }}` inside <script>) whose operand is produced by the JS escapers. -/
def sinkOK (s : Generated.Sink) : Bool :=
  match classify s.text with
  | .escape | .escapeCast => true
  | .scriptCall => s.fn == fnScriptAttr
  | .raw => s.fn == fnScriptContents
  | .unknown => false

def isHtmlEscaped (s : Generated.Sink) : Bool :=
  match classify s.text with
  | .escape | .escapeCast => true
  | _ => false

end TemplVerif.Sinks
