import TemplVerif.Base.Bytes
/-
html.EscapeString (Go): a byte-level strings.Replacer over the five bytes & < > " ' — exact for any
byte string, valid UTF-8 or not. `templ.EscapeString` calls it.
-/
namespace TemplVerif.Html

def amp  : Bytes := [38, 97, 109, 112, 59]   -- &amp;
def lt   : Bytes := [38, 108, 116, 59]       -- &lt;
def gt   : Bytes := [38, 103, 116, 59]       -- &gt;
def quot : Bytes := [38, 35, 51, 52, 59]     -- &#34;
def apos : Bytes := [38, 35, 51, 57, 59]     -- &#39;

def escapeByte (b : UInt8) : Bytes :=
  if b = 38 then amp else if b = 60 then lt else if b = 62 then gt
  else if b = 34 then quot else if b = 39 then apos else [b]

def escape : Bytes → Bytes
  | [] => []
  | b :: rest => escapeByte b ++ escape rest

/-- Bytes that can change tokenizer state in text or in a quoted attribute value. -/
def structural (b : UInt8) : Bool := b == 60 || b == 62 || b == 34 || b == 39

/-- The tokenizer's character-reference step, restricted to the five references the escaper produces;
    any other `&` is a literal ampersand (true of the HTML entity table for the inputs that matter here:
    in `escape s` every `&` starts one of the five). -/
def decodeRefs : Bytes → Bytes
  | 38 :: 97 :: 109 :: 112 :: 59 :: rest => 38 :: decodeRefs rest
  | 38 :: 108 :: 116 :: 59 :: rest => 60 :: decodeRefs rest
  | 38 :: 103 :: 116 :: 59 :: rest => 62 :: decodeRefs rest
  | 38 :: 35 :: 51 :: 52 :: 59 :: rest => 34 :: decodeRefs rest
  | 38 :: 35 :: 51 :: 57 :: 59 :: rest => 39 :: decodeRefs rest
  | b :: rest => b :: decodeRefs rest
  | [] => []

end TemplVerif.Html
