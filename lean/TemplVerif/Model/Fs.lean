import TemplVerif.Base.Bytes
/-
C15 — `templ generate` over a directory tree.

The file system is a finite map from slash-separated paths to contents. The walk (watcher.WalkFiles) emits one event
per file that is outside skipped directories and matches the watch pattern; each event is handled by its own
goroutine (cmd.go: Run), which first LOOKS at the file system (stat of the sibling .templ / read + parse + generate +
gofmt of the .templ file: `action`) and later CHANGES it (os.WriteFile of the sibling _templ.go / os.Remove of an
orphan: `apply`). A schedule is any interleaving of these two steps of all handlers; the semaphore (-w) only
removes schedules. What generating one file alone yields is a parameter, `genOf` (C02 is about what it is).
-/
namespace TemplVerif.Fs
open TemplVerif

abbrev Path := Bytes
abbrev Fs := List (Path × Bytes)

def get (fs : Fs) (p : Path) : Option Bytes := fs.lookup p
def put (fs : Fs) (p : Path) (c : Bytes) : Fs := (p, c) :: fs
def del (fs : Fs) (p : Path) : Fs := fs.filter (fun e => !(e.1 == p))

structure Cfg where
  keepOrphaned : Bool
  skipExact : List Bytes          -- directory names skipped by equality      (internal/skipdir)
  skipPrefixes : List Bytes       -- directory names skipped by prefix

/-- Split on '/'. Always at least one component. -/
def components : Path → List Bytes
  | [] => [[]]
  | b :: rest =>
    if b = 47 then [] :: components rest
    else match components rest with
      | [] => [[b]]
      | l :: ls => (b :: l) :: ls

def skipName (cfg : Cfg) (n : Bytes) : Bool :=
  cfg.skipExact.contains n || cfg.skipPrefixes.any (fun pre => pre.isPrefixOf n)

/-- Some DIRECTORY on the way to the file has a skipped name (the file's own name does not count). -/
def inSkippedDir (cfg : Cfg) (p : Path) : Bool := (components p).dropLast.any (skipName cfg)

def sufGo : Bytes := [46, 103, 111]                                     -- ".go"
def sufTempl : Bytes := [46, 116, 101, 109, 112, 108]                   -- ".templ"
def sufTemplGo : Bytes := [95, 116, 101, 109, 112, 108, 46, 103, 111]   -- "_templ.go"

def hasSuffix (p suf : Bytes) : Bool := suf.isSuffixOf p

/-- The default watch pattern `(.+\.go$)|(.+\.templ$)`, matched against the absolute path (which always supplies the `.+`). -/
def matchesWatch (p : Path) : Bool := hasSuffix p sufGo || hasSuffix p sufTempl

def visited (cfg : Cfg) (p : Path) : Bool := !inSkippedDir cfg p && matchesWatch p

/-- The walk's events: every visited path that exists. -/
def eventsOf (cfg : Cfg) (fs : Fs) : List Path := (fs.map (·.1)).eraseDups.filter (visited cfg)

def templOf (p : Path) : Path := p.take (p.length - 9) ++ sufTempl      -- x_templ.go ↦ x.templ
def targetOf (p : Path) : Path := p.take (p.length - 6) ++ sufTemplGo   -- x.templ ↦ x_templ.go

inductive Act
  | nop
  | write (p : Path) (c : Bytes)
  | remove (p : Path)
  | fail
  deriving DecidableEq, Repr

/-- What the handler of the event for `p` decides, looking at the file system `fs` (FSEventHandler.HandleEvent). -/
def action (cfg : Cfg) (genOf : Path → Bytes → Option Bytes) (fs : Fs) (p : Path) : Act :=
  if hasSuffix p sufTemplGo then
    if (get fs (templOf p)).isSome then .nop
    else if cfg.keepOrphaned then .nop
    else .remove p
  else if !hasSuffix p sufTempl then .nop
  else match get fs p with
    | none => .nop
    | some src =>
      match genOf p src with
      | some code => .write (targetOf p) code
      | none => .fail

def apply (fs : Fs) : Act → Fs
  | .write p c => put fs p c
  | .remove p => del fs p
  | _ => fs

structure State where
  fs : Fs
  looked : List (Path × Act) := []     -- handlers that have decided but not yet acted
  finished : List Path := []
  errs : Nat := 0

/-- One scheduling step of the handler for `p`: look, then (next time it is scheduled) act. -/
def step (cfg : Cfg) (genOf : Path → Bytes → Option Bytes) (events : List Path) (s : State) (p : Path) : State :=
  if !events.contains p || s.finished.contains p then s
  else match s.looked.lookup p with
    | none => { s with looked := (p, action cfg genOf s.fs p) :: s.looked }
    | some a => { s with fs := apply s.fs a, finished := p :: s.finished, errs := s.errs + (if a = .fail then 1 else 0) }

def run (cfg : Cfg) (genOf : Path → Bytes → Option Bytes) (events : List Path) (fs : Fs) (sched : List Path) : State :=
  sched.foldl (step cfg genOf events) { fs := fs }

/-- The sequential run: every handler looks and acts at once, in walk order. -/
def seqSched (events : List Path) : List Path := events.flatMap fun e => [e, e]

/-- The specification, path by path: what the tree must contain after a successful or failing run. -/
def spec (cfg : Cfg) (genOf : Path → Bytes → Option Bytes) (fs0 : Fs) (p : Path) : Option Bytes :=
  -- p is the sibling of a visited, existing .templ file that generates
  match (eventsOf cfg fs0).findSome? (fun e => match action cfg genOf fs0 e with
      | .write q c => if q = p then some c else none | _ => none) with
  | some c => some c
  | none =>
    -- p is a visited orphan
    if (eventsOf cfg fs0).contains p && action cfg genOf fs0 p = .remove p then none
    else get fs0 p

def failures (cfg : Cfg) (genOf : Path → Bytes → Option Bytes) (fs0 : Fs) : Nat :=
  ((eventsOf cfg fs0).filter fun e => action cfg genOf fs0 e = .fail).length

end TemplVerif.Fs
