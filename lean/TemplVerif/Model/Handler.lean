import TemplVerif.Base.Bytes
/-
C11 — model of handler.go (`ComponentHandler.ServeHTTPBuffered` / `ServeHTTPStreamed`) over a model of
net/http's ResponseWriter (headers are frozen by the first WriteHeader or Write; Write implies 200).
-/
namespace TemplVerif.Handler
open TemplVerif

/-- What a client observes. `status = none`: nothing has been written yet. -/
structure RW where
  contentType : Bytes := []
  status : Option Nat := none
  body : Bytes := []
deriving DecidableEq, Repr

def RW.setContentType (w : RW) (ct : Bytes) : RW := if w.status.isSome then w else { w with contentType := ct }
def RW.writeHeader (w : RW) (s : Nat) : RW := if w.status.isSome then w else { w with status := some s }
def RW.write (w : RW) (b : Bytes) : RW := { (w.writeHeader 200) with body := (w.writeHeader 200).body ++ b }

/-- Outcome of `Component.Render`: the bytes it wrote, and whether it then returned an error. -/
structure Render where
  written : Bytes
  failed : Bool
deriving DecidableEq, Repr

/-- A configured error handler, by what it does to the ResponseWriter. -/
structure ErrHandler where
  setContentType : Option Bytes
  status : Option Nat
  body : Bytes
deriving DecidableEq, Repr

def ErrHandler.run (h : ErrHandler) (w : RW) : RW :=
  let w1 := match h.setContentType with | some ct => w.setContentType ct | none => w
  let w2 := match h.status with | some s => w1.writeHeader s | none => w1
  if h.body.isEmpty && h.status.isNone then w2 else w2.write h.body

structure Cfg where
  status : Nat                      -- 0 = not configured
  contentType : Bytes
  errorHandler : Option ErrHandler
  stream : Bool
deriving DecidableEq, Repr

def errorMessage : Bytes := [116, 101, 109, 112, 108, 58, 32, 102, 97, 105, 108, 101, 100, 32, 116, 111, 32, 114, 101, 110, 100, 101, 114, 32, 116, 101, 109, 112, 108, 97, 116, 101]   -- "templ: failed to render template"
def textPlain : Bytes := [116, 101, 120, 116, 47, 112, 108, 97, 105, 110, 59, 32, 99, 104, 97, 114, 115, 101, 116, 61, 117, 116, 102, 45, 56]   -- "text/plain; charset=utf-8"

/-- `http.Error(w, msg, 500)` -/
def httpError (w : RW) : RW := ((w.setContentType textPlain).writeHeader 500).write (errorMessage ++ [10])

def errorPath (cfg : Cfg) (w : RW) : RW :=
  match cfg.errorHandler with
  | some h => h.run (w.setContentType cfg.contentType)
  | none => httpError w

/-- `ServeHTTPBuffered`: the component renders into a pooled buffer; the writer is untouched until Render returned. -/
def serveBuffered (cfg : Cfg) (r : Render) : RW :=
  let w : RW := {}
  if r.failed then errorPath cfg w
  else
    let w1 := w.setContentType cfg.contentType
    let w2 := if cfg.status != 0 then w1.writeHeader cfg.status else w1
    w2.write r.written

/-- `ServeHTTPStreamed`: headers first, the component writes straight to the client. -/
def serveStreamed (cfg : Cfg) (r : Render) : RW :=
  let w : RW := {}
  let w1 := w.setContentType cfg.contentType
  let w2 := if cfg.status != 0 then w1.writeHeader cfg.status else w1
  let w3 := if r.written.isEmpty then w2 else w2.write r.written
  if r.failed then errorPath cfg w3 else w3

def serve (cfg : Cfg) (r : Render) : RW := if cfg.stream then serveStreamed cfg r else serveBuffered cfg r

end TemplVerif.Handler
