import TemplVerif.Base.Utf8
import TemplVerif.Model.Html
import TemplVerif.Generated.JsTables
/-
C03 — models of runtime/scriptelement.go (`replace`, `scriptContent`), encoding/json's string encoder
(escapeHTML on, as json.Marshal and json.NewEncoder use it), templ.SafeScript / SafeScriptInline / the
function-name recogniser, and the JSON script element's body.
-/
namespace TemplVerif.Js
open TemplVerif

/-- Replacement chosen by `replace` for rune `r` (the `switch` of the Go loop, in order). -/
def replRune (r : Nat) : Option Bytes :=
  if r < Generated.lowUnicodeReplacementTable.length then some (Generated.lowUnicodeReplacementTable.getD r [])
  else if r < Generated.jsStrReplacementTable.length && !(Generated.jsStrReplacementTable.getD r []).isEmpty then
    some (Generated.jsStrReplacementTable.getD r [])
  else if r == 0x2028 then some [92, 117, 50, 48, 50, 56]      --  
  else if r == 0x2029 then some [92, 117, 50, 48, 50, 57]      --  
  else none

/-- `replace(s, jsStrReplacementTable)`: rune-wise; runes without replacement are copied byte for byte
    (an invalid byte decodes to RuneError with width 1 and is copied). -/
def replaceAux : Nat → Bytes → Bytes
  | 0, _ => []
  | _, [] => []
  | fuel + 1, s@(_ :: _) =>
    let (r, w) := Utf8.decodeRune s
    let w := max w 1
    (match replRune r with
     | some rp => rp
     | none => s.take w) ++ replaceAux fuel (s.drop w)

def replace (s : Bytes) : Bytes := replaceAux s.length s

def hexDigitLower (n : Nat) : UInt8 := if n < 10 then (48 + n).toUInt8 else (87 + n).toUInt8

/-- encoding/json string body for one rune (escapeHTML = true). `valid = false`: invalid UTF-8 byte. -/
def jsonRune (r : Nat) (raw : Bytes) (invalid : Bool) : Bytes :=
  if invalid then [92, 117, 102, 102, 102, 100]                 -- �
  else if r == 34 then [92, 34] else if r == 92 then [92, 92]
  else if r == 8 then [92, 98] else if r == 12 then [92, 102]
  else if r == 10 then [92, 110] else if r == 13 then [92, 114] else if r == 9 then [92, 116]
  else if r < 0x20 || r == 60 || r == 62 || r == 38 then
    [92, 117, 48, 48, hexDigitLower (r / 16), hexDigitLower (r % 16)]
  else if r == 0x2028 then [92, 117, 50, 48, 50, 56]
  else if r == 0x2029 then [92, 117, 50, 48, 50, 57]
  else raw

def jsonStringBodyAux : Nat → Bytes → Bytes
  | 0, _ => []
  | _, [] => []
  | fuel + 1, s@(_ :: _) =>
    let (r, w) := Utf8.decodeRune s
    let invalid := r == Utf8.runeError && w ≤ 1
    let w := max w 1
    jsonRune r (s.take w) invalid ++ jsonStringBodyAux fuel (s.drop w)

/-- `json.Marshal(s)` for a Go string. -/
def jsonString (s : Bytes) : Bytes := [34] ++ jsonStringBodyAux s.length s ++ [34]

/-- JSON values as the harness can build them; numbers travel as the text Go printed. -/
inductive JVal
  | null
  | bool (b : Bool)
  | num (text : Bytes)
  | str (s : Bytes)
  | arr (xs : List JVal)
  | obj (kvs : List (Bytes × JVal))     -- keys already in the order Go emits them (sorted for maps)

mutual
  def jsonEncode : JVal → Bytes
    | .null => [110, 117, 108, 108]
    | .bool true => [116, 114, 117, 101]
    | .bool false => [102, 97, 108, 115, 101]
    | .num t => t
    | .str s => jsonString s
    | .arr xs => [91] ++ jsonEncodeList xs ++ [93]
    | .obj kvs => [123] ++ jsonEncodeFields kvs ++ [125]
  def jsonEncodeList : List JVal → Bytes
    | [] => []
    | [x] => jsonEncode x
    | x :: xs => jsonEncode x ++ [44] ++ jsonEncodeList xs
  def jsonEncodeFields : List (Bytes × JVal) → Bytes
    | [] => []
    | [(k, v)] => jsonString k ++ [58] ++ jsonEncode v
    | (k, v) :: rest => jsonString k ++ [58] ++ jsonEncode v ++ [44] ++ jsonEncodeFields rest
end

/-- Numbers are oracle-supplied text; a number text the Go encoder prints contains none of `< > &`. -/
def numTextSafe (t : Bytes) : Bool := !t.contains 60 && !t.contains 62 && !t.contains 38

mutual
  def numbersSafe : JVal → Bool
    | .num t => numTextSafe t
    | .arr xs => numbersSafeList xs
    | .obj kvs => numbersSafeFields kvs
    | _ => true
  def numbersSafeList : List JVal → Bool
    | [] => true
    | x :: xs => numbersSafe x && numbersSafeList xs
  def numbersSafeFields : List (Bytes × JVal) → Bool
    | [] => true
    | (_, v) :: rest => numbersSafe v && numbersSafeFields rest
end

/-- `scriptContent(v, insideStringLiteral)` for a Go string value. -/
def scriptContentString (s : Bytes) (inside : Bool) : Bytes :=
  if inside then replace s else jsonString s

/-- `scriptContent(v, insideStringLiteral)` for any other value (JSON path). -/
def scriptContentJson (v : JVal) (inside : Bool) : Bytes :=
  if inside then replace (jsonEncode v) else jsonEncode v

/-- Recogniser for `^([$_a-zA-Z][$_a-zA-Z0-9]+\.?)+$` (Go regexp, leftmost-first, but as a *match* test
    this is just: a non-empty sequence of segments, each a start char followed by ≥ 1 continuation chars,
    each optionally followed by one '.'). -/
def isStart (b : UInt8) : Bool := b == 36 || b == 95 || (65 ≤ b && b ≤ 90) || (97 ≤ b && b ≤ 122)
def isCont (b : UInt8) : Bool := isStart b || (48 ≤ b && b ≤ 57)

/-- State: 0 = at segment start (need a start char); 1 = have start char, need ≥ 1 cont;
    2 = have ≥ 1 cont (may continue, take '.', or end); 3 = just after '.', segment done (may end or start). -/
def fnStep (st : Nat) (b : UInt8) : Option Nat :=
  match st with
  | 0 => if isStart b then some 1 else none
  | 1 => if isCont b then some 2 else none
  | 2 => if isCont b then some 2 else if b == 46 then some 3 else none
  | _ => if isStart b then some 1 else none

def fnRun : Nat → Bytes → Option Nat
  | st, [] => some st
  | st, b :: rest => (fnStep st b).bind (fnRun · rest)

/-- Note: `[$_a-zA-Z0-9]+` can also absorb what could start a new segment, which the state machine
    allows because a start char is also a continuation char. -/
def validFunctionName (n : Bytes) : Bool :=
  match fnRun 0 n with
  | some 2 => true
  | some 3 => true
  | _ => false

def invalidFunctionName : Bytes :=
  [95, 95, 116, 101, 109, 112, 108, 95, 105, 110, 118, 97, 108, 105, 100, 95, 106, 115, 95, 102, 117, 110, 99, 116,
   105, 111, 110, 95, 110, 97, 109, 101]   -- __templ_invalid_js_function_name

/-- A script-call parameter: a value to be JSON-encoded or a `templ.JSExpression` inserted as is. -/
inductive Param
  | val (v : JVal)
  | expr (js : Bytes)

def paramText : Param → Bytes
  | .val v => jsonEncode v
  | .expr js => js

def intercalateComma : List Bytes → Bytes
  | [] => []
  | [x] => x
  | x :: xs => x ++ [44] ++ intercalateComma xs

/-- `templ.SafeScriptInline`. -/
def safeScriptInline (fn : Bytes) (ps : List Param) : Bytes :=
  (if validFunctionName fn then fn else invalidFunctionName) ++ [40] ++ intercalateComma (ps.map paramText) ++ [41]

/-- `templ.SafeScript` (for HTML attributes). -/
def safeScript (fn : Bytes) (ps : List Param) : Bytes :=
  Html.escape (if validFunctionName fn then fn else invalidFunctionName) ++ [40]
    ++ intercalateComma (ps.map fun p => Html.escape (paramText p)) ++ [41]

/-- Body written by `JSONScriptElement.Render`: `json.NewEncoder(w).Encode(data)` = encoding + LF. -/
def jsonScriptBody (v : JVal) : Bytes := jsonEncode v ++ [10]

end TemplVerif.Js
