import TemplVerif.Model.Reparse
import TemplVerif.Model.Norm
/-
C08 on the printer fragment — when does formatting keep a template in its layout class?
The printer breaks lines where it must (before block nodes, after the last child, after <br>, around children that need
their own line); the re-parse then records white space there. If the source had NO white space at such a place and
both neighbours are inline content, the generator now emits a space the original did not have: the known finding
`gen;code-changed;space-added`. `spaced` says the source already has white space wherever that can happen.
-/
namespace TemplVerif.Spaced
open TemplVerif TemplVerif.Ast TemplVerif.Printer

def firstReal : Nodes → Option Node
  | .nil => none
  | .cons n rest => if n.isWs then firstReal rest else some n

def isFor : Option Node → Bool
  | some (.forE ..) => true
  | _ => false

mutual
def spacedNode : Node → Bool
  | .element n _ cs _ _ ic =>
    -- the parser gives a void element no children
    (!Sem.isVoid n || cs.isNil) && spacedNodes true (!cs.allWs && (ic || requireOwnLine cs)) cs
  | .forE _ b => spacedNodes false true b
  | .templEl _ b => spacedNodes false true b
  | .ifE _ thn elifs els => spacedNodes false true thn && spacedElifs elifs && spacedNodes false true els
  | .switchE _ cs => spacedCases cs
  | _ => true
/-- `all`: the generator drops every whitespace node of this list (element / template body); otherwise it is a
    control-flow / block body, where a whitespace node between two nodes is rendered as a space.
    `indent`: the printer writes the list one node per line. -/
def spacedNodes (all : Bool) (indent : Bool) : Nodes → Bool
  | .nil => true
  | .cons n rest =>
    if n.isWs then spacedNodes all indent rest
    else
      spacedNode n &&
      -- inline content after which the printer breaks the line already had white space after it
      (!(indent && isTrailer n && Sem.Node.inline n && sepAfter true n rest == .vert) || ownTrail n != .none) &&
      -- in a control-flow / block body, a node that carries no trailing space is already separated from its successor
      (all || isTrailer n || (firstReal rest).isNone || isFor (firstReal rest) || (match rest with | .cons m _ => m.isWs | .nil => true)) &&
      spacedNodes all indent rest
def spacedElifs : ElseIfs → Bool
  | .nil => true
  | .cons _ thn rest => spacedNodes false true thn && spacedElifs rest
def spacedCases : Cases → Bool
  | .nil => true
  | .cons _ b rest => spacedNodes false true b && spacedCases rest
end

def spacedBody (b : Nodes) : Bool := spacedNodes true true b

/-! ### whitespace nodes that `Norm` keeps are as the parser makes them (non-empty, maximal, none in front of a `for`) -/

def wsNonEmpty : Node → Bool
  | .ws v => !v.isEmpty
  | _ => true

/-- the list starts with a node that is neither a whitespace node nor a `for` -/
def realNonFor : Nodes → Bool
  | .cons m _ => !m.isWs && !Reparse.eatsLeadingWs m
  | .nil => false

mutual
def parsedWsNode : Node → Bool
  | .element _ _ cs _ _ _ => parsedWs true true cs
  | .forE _ b => parsedWs false true b
  | .templEl _ b => parsedWs false true b
  | .ifE _ thn elifs els => parsedWs false true thn && parsedWsElifs elifs && parsedWs false true els
  | .switchE _ cs => parsedWsCases cs
  | _ => true
/-- `all`, `atStart` as in `Norm.nodes`: a whitespace node that `Norm.nodes all atStart` KEEPS (control-flow / block body,
    neither leading nor trailing) is not empty and is directly followed by a node that is neither a whitespace node nor a
    `for` (the parser's whitespace nodes are maximal and non-empty; `for` eats the white space in front of it). -/
def parsedWs (all atStart : Bool) : Nodes → Bool
  | .nil => true
  | .cons n rest =>
    if n.isWs then (all || atStart || rest.allWs || (wsNonEmpty n && realNonFor rest)) && parsedWs all atStart rest
    else parsedWsNode n && parsedWs all false rest
def parsedWsElifs : ElseIfs → Bool
  | .nil => true
  | .cons _ thn rest => parsedWs false true thn && parsedWsElifs rest
def parsedWsCases : Cases → Bool
  | .nil => true
  | .cons _ b rest => parsedWs false true b && parsedWsCases rest
end


/-- The source already has white space wherever the printer breaks a line next to inline content, and its whitespace nodes
    are as the parser makes them. -/
def body (b : Nodes) : Bool := spacedNodes true true b && parsedWs true true b

end TemplVerif.Spaced
