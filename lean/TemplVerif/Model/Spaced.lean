import TemplVerif.Model.Reparse
import TemplVerif.Model.Norm
/-
C08 on the printer fragment — when does formatting keep a template in its layout class?
The printer breaks lines where it must (before block nodes, after the last child, after <br>, around children that need
their own line); the re-parse then records white space there. If the source had NO white space at such a place and
both neighbours are inline content, the generator now emits a space the original did not have: the known finding
`gen;code-changed;space-added`. `spaced` says the source already has white space wherever that can happen.
-/
namespace TemplVerif.Spaced
open TemplVerif TemplVerif.Ast TemplVerif.Printer

def firstReal : Nodes → Option Node
  | .nil => none
  | .cons n rest => if n.isWs then firstReal rest else some n

def isFor : Option Node → Bool
  | some (.forE ..) => true
  | _ => false

mutual
def spacedNode : Node → Bool
  | .element _ _ cs _ _ ic => spacedNodes true (!cs.allWs && (ic || requireOwnLine cs)) cs
  | .forE _ b => spacedNodes false true b
  | .templEl _ b => spacedNodes false true b
  | .ifE _ thn elifs els => spacedNodes false true thn && spacedElifs elifs && spacedNodes false true els
  | .switchE _ cs => spacedCases cs
  | _ => true
/-- `all`: the generator drops every whitespace node of this list (element / template body); otherwise it is a
    control-flow / block body, where a whitespace node between two nodes is rendered as a space.
    `indent`: the printer writes the list one node per line. -/
def spacedNodes (all : Bool) (indent : Bool) : Nodes → Bool
  | .nil => true
  | .cons n rest =>
    if n.isWs then spacedNodes all indent rest
    else
      spacedNode n &&
      -- inline content after which the printer breaks the line already had white space after it
      (!(indent && isTrailer n && Sem.Node.inline n && sepAfter true n rest == .vert) || ownTrail n != .none) &&
      -- in a control-flow / block body, a node that carries no trailing space is already separated from its successor
      (all || isTrailer n || (firstReal rest).isNone || isFor (firstReal rest) || (match rest with | .cons m _ => m.isWs | .nil => true)) &&
      spacedNodes all indent rest
def spacedElifs : ElseIfs → Bool
  | .nil => true
  | .cons _ thn rest => spacedNodes false true thn && spacedElifs rest
def spacedCases : Cases → Bool
  | .nil => true
  | .cons _ b rest => spacedNodes false true b && spacedCases rest
end

def body (b : Nodes) : Bool := spacedNodes true true b

end TemplVerif.Spaced
