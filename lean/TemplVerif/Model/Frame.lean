import TemplVerif.Base.Utf8
/-
C18 — model of lsp/jsonrpc2/stream.go (`stream.Write` framing, `stream.Read`) with message bodies as opaque
bytes, and of the call/response matching of lsp/jsonrpc2/conn.go as a transition system.
The reader is a function of the CONCATENATED byte stream: bufio.Reader's independence of how the bytes were
chunked is part of the trusted base and is exercised by the correspondence run with many chunkings.
-/
namespace TemplVerif.Frame
open TemplVerif

/-- Decimal digits of a number, most significant first (`fmt` `%v` of an int). -/
def digitsAux : Nat → Nat → Bytes → Bytes
  | 0, _, acc => acc
  | fuel + 1, n, acc =>
    let acc' := (48 + n % 10).toUInt8 :: acc
    if n / 10 = 0 then acc' else digitsAux fuel (n / 10) acc'

def decimal (n : Nat) : Bytes := digitsAux (n + 1) n []

def hdrContentLength : Bytes := [67, 111, 110, 116, 101, 110, 116, 45, 76, 101, 110, 103, 116, 104]  -- Content-Length
def crlfcrlf : Bytes := [13, 10, 13, 10]

/-- `stream.Write`: "Content-Length: <len>\r\n\r\n" ++ body; the length counts bytes. -/
def encode (body : Bytes) : Bytes := hdrContentLength ++ [58, 32] ++ decimal body.length ++ crlfcrlf ++ body

inductive Err
  | eofInHeader        -- failed reading header line (EOF before a newline)
  | invalidHeaderLine  -- no colon
  | badLength          -- Content-Length not an int32
  | nonPositiveLength
  | missingLength
  | shortBody          -- read full of data: unexpected EOF
deriving DecidableEq, Repr

/-- `bufio.Reader.ReadString('\n')`: the line including its newline and the rest; `none` at EOF without newline. -/
def readLine : Bytes → Option (Bytes × Bytes)
  | [] => none
  | b :: rest =>
    if b = 10 then some ([10], rest)
    else match readLine rest with
      | some (l, r) => some (b :: l, r)
      | none => none

/-- `unicode.IsSpace` -/
def isSpaceRune (r : Nat) : Bool :=
  r == 9 || r == 10 || r == 11 || r == 12 || r == 13 || r == 32 || r == 0x85 || r == 0xA0 || r == 0x1680 ||
  (0x2000 ≤ r && r ≤ 0x200A) || r == 0x2028 || r == 0x2029 || r == 0x202F || r == 0x205F || r == 0x3000

def trimLeftAux : Nat → Bytes → Bytes
  | 0, s => s
  | _, [] => []
  | fuel + 1, s@(_ :: _) =>
    let (r, w) := Utf8.decodeRune s
    if isSpaceRune r then trimLeftAux fuel (s.drop (max w 1)) else s

/-- `strings.TrimSpace`, ASCII white space at the right end (header lines end in CR LF; a multi-byte space rune
    at the right end is handled by trimming its bytes only when they decode as a space going backwards — for the
    byte strings that matter here, right-trimming ASCII spaces is what TrimSpace does; non-ASCII right trimming is
    not modelled and is excluded from the correspondence alphabet). -/
def trimRightAscii (s : Bytes) : Bytes :=
  (s.reverse.dropWhile fun b => b == 32 || (9 ≤ b && b ≤ 13)).reverse

def trimSpace (s : Bytes) : Bytes := trimRightAscii (trimLeftAux s.length s)

def indexOfColon : Bytes → Option Nat
  | [] => none
  | b :: rest => if b = 58 then some 0 else (indexOfColon rest).map (· + 1)

/-- `strconv.ParseInt(value, 10, 32)`: optional sign, at least one digit, nothing else, in int32 range. -/
def parseDigits : Bytes → Option Nat
  | [] => none
  | ds => ds.foldlM (fun acc b => if 48 ≤ b && b ≤ 57 then some (acc * 10 + (b.toNat - 48)) else none) 0

def parseInt32 (v : Bytes) : Option Int :=
  match v with
  | 45 :: ds => (parseDigits ds).bind fun n => if n ≤ 2147483648 then some (-(n : Int)) else none
  | 43 :: ds => (parseDigits ds).bind fun n => if n ≤ 2147483647 then some (n : Int) else none
  | ds => (parseDigits ds).bind fun n => if n ≤ 2147483647 then some (n : Int) else none

/-- The header loop of `stream.Read`; `len` is the last Content-Length seen (0 = none). -/
def readHeaders : Nat → Nat → Bytes → Except Err (Nat × Bytes)
  | 0, _, _ => .error .eofInHeader
  | fuel + 1, len, s =>
    match readLine s with
    | none => .error .eofInHeader
    | some (line, rest) =>
      let l := trimSpace line
      if l.isEmpty then .ok (len, rest)
      else match indexOfColon l with
        | none => .error .invalidHeaderLine
        | some i =>
          let name := l.take i
          let value := trimSpace (l.drop (i + 1))
          if name == hdrContentLength then
            match parseInt32 value with
            | none => .error .badLength
            | some n => if n ≤ 0 then .error .nonPositiveLength else readHeaders fuel n.toNat rest
          else readHeaders fuel len rest

/-- `stream.Read` on the remaining input: the body and what is left, or an error. -/
def readFrame (s : Bytes) : Except Err (Bytes × Bytes) :=
  match readHeaders (s.length + 1) 0 s with
  | .error e => .error e
  | .ok (len, rest) =>
    if len == 0 then .error .missingLength
    else if rest.length < len then .error .shortBody
    else .ok (rest.take len, rest.drop len)

/-- Read frames until the input is exhausted or a frame fails. `eof := true`: clean end of input. -/
def readAllAux : Nat → Bytes → List Bytes × Option Err
  | 0, _ => ([], none)
  | _, [] => ([], none)
  | fuel + 1, s@(_ :: _) =>
    match readFrame s with
    | .error e => ([], some e)
    | .ok (body, rest) =>
      if rest.length < s.length then
        let (bs, e) := readAllAux fuel rest
        (body :: bs, e)
      else ([body], none)

def readAll (s : Bytes) : List Bytes × Option Err := readAllAux (s.length + 1) s

end TemplVerif.Frame

/-! ## Call / response matching (conn.go) -/
namespace TemplVerif.Rpc

/-- A response as the read loop sees it: the id it carries and an opaque payload. -/
structure Resp where
  id : Nat
  payload : Nat
deriving DecidableEq, Repr

inductive Result
  | response (r : Resp)
  | cancelled
deriving DecidableEq, Repr

structure Pending where
  id : Nat
  thread : Nat
  slot : Option Resp := none        -- the capacity-1 channel
  ctxDone : Bool := false
deriving DecidableEq, Repr

structure State where
  seq : Nat := 0
  pending : List Pending := []
  completed : List (Nat × Nat × Result) := []   -- (thread, call id, result)
  written : List Nat := []                      -- ids of call frames written, in stream order (frames are atomic)
deriving DecidableEq, Repr

inductive Action
  | call (thread : Nat)                 -- Call: take the next id, register the channel, write the frame
  | recv (r : Resp)                     -- read loop receives a response frame
  | cancel (thread : Nat)               -- the caller's context is cancelled
  | finishRecv (thread : Nat)           -- the caller's select takes the response branch
  | finishCancel (thread : Nat)         -- the caller's select takes the ctx.Done branch
deriving DecidableEq, Repr

inductive Outcome
  | ok (s : State)
  | disabled
  | blocked          -- the read loop would block forever on a full channel (no step produces it since the repair)
deriving DecidableEq, Repr

def step (s : State) : Action → Outcome
  | .call t =>
    if s.pending.any (·.thread == t) then .disabled
    else .ok { s with seq := s.seq + 1, pending := s.pending ++ [{ id := s.seq + 1, thread := t }],
                      written := s.written ++ [s.seq + 1] }
  | .recv r =>
    match s.pending.find? (·.id == r.id) with
    | none => .ok s                                     -- no such pending call: dropped
    | some p =>
      -- a second response for an id whose first one has not been taken yet: dropped (non-blocking send; before the
      -- repair the read loop blocked here forever)
      if p.slot.isSome then .ok s
      else .ok { s with pending := s.pending.map fun q => if q.id == r.id then { q with slot := some r } else q }
  | .cancel t =>
    if s.pending.any (·.thread == t) then
      .ok { s with pending := s.pending.map fun q => if q.thread == t then { q with ctxDone := true } else q }
    else .disabled
  | .finishRecv t =>
    match s.pending.find? (·.thread == t) with
    | some p =>
      match p.slot with
      | some r => .ok { s with pending := s.pending.filter (·.thread != t), completed := s.completed ++ [(t, p.id, .response r)] }
      | none => .disabled
    | none => .disabled
  | .finishCancel t =>
    match s.pending.find? (·.thread == t) with
    | some p =>
      if p.ctxDone then .ok { s with pending := s.pending.filter (·.thread != t), completed := s.completed ++ [(t, p.id, .cancelled)] }
      else .disabled
    | none => .disabled

def run : State → List Action → Option State
  | s, [] => some s
  | s, a :: rest =>
    match step s a with
    | .ok s' => run s' rest
    | .disabled => run s rest
    | .blocked => none

end TemplVerif.Rpc
