import TemplVerif.Base.Utf8
import TemplVerif.Model.Url
/-
C20 — model of cmd/templ/generatecmd/proxy/proxy.go: `modifyResponse` (decision logic and length /
encoding bookkeeping) and `parseNonce`. The HTML rewrite (x/net/html parse + append + render) and the
gzip / brotli codecs are parameters with stated laws.
-/
namespace TemplVerif.Proxy
open TemplVerif

/-- The part of an upstream response that `modifyResponse` reads or writes. -/
structure Resp where
  skipModify : Bytes            -- value of the templ-skip-modify header ("" when absent)
  contentType : Bytes
  contentEncoding : Bytes
  csp : Bytes
  body : Bytes                  -- bytes on the wire (encoded)
  contentLength : Option Nat    -- Content-Length header as sent on
deriving Repr, DecidableEq

/-- External functions. -/
structure Env where
  insert : Bytes → Bytes → Option Bytes      -- insertScriptTagIntoBody nonce doc (none = error: body kept)
  gzipDec : Bytes → Option Bytes
  gzipEnc : Bytes → Bytes
  brDec : Bytes → Option Bytes
  brEnc : Bytes → Bytes

def trueLit : Bytes := [116, 114, 117, 101]                       -- "true"
def textHtml : Bytes := [116, 101, 120, 116, 47, 104, 116, 109, 108]    -- "text/html"
/-- `strings.HasPrefix(strings.ToLower(ct), "text/html")`: media types are case-insensitive (ASCII letters). -/
def isHtml (ct : Bytes) : Bool :=
  List.isPrefixOf textHtml (ct.map fun b => if 65 ≤ b && b ≤ 90 then b + 32 else b)

def gzipLit : Bytes := [103, 122, 105, 112]
def brLit : Bytes := [98, 114]

/-- `unicode.IsSpace` -/
def isSpaceRune (r : Nat) : Bool :=
  r == 9 || r == 10 || r == 11 || r == 12 || r == 13 || r == 32 || r == 0x85 || r == 0xA0 || r == 0x1680 ||
  (0x2000 ≤ r && r ≤ 0x200A) || r == 0x2028 || r == 0x2029 || r == 0x202F || r == 0x205F || r == 0x3000

/-- `strings.Fields`: split around runs of white-space runes. -/
def fieldsAux : Nat → Bytes → Bytes → List Bytes
  | 0, cur, _ => if cur.isEmpty then [] else [cur]
  | _, cur, [] => if cur.isEmpty then [] else [cur]
  | fuel + 1, cur, s@(_ :: _) =>
    let (r, w) := Utf8.decodeRune s
    let w := max w 1
    if isSpaceRune r then
      (if cur.isEmpty then [] else [cur]) ++ fieldsAux fuel [] (s.drop w)
    else fieldsAux fuel (cur ++ s.take w) (s.drop w)

def fields (s : Bytes) : List Bytes := fieldsAux s.length [] s

/-- `strings.Split(s, ";")` -/
def splitSemi : Bytes → List Bytes
  | [] => [[]]
  | b :: rest =>
    if b = 59 then [] :: splitSemi rest
    else match splitSemi rest with
      | [] => [[b]]
      | l :: ls => (b :: l) :: ls

def scriptSrc : Bytes := [115, 99, 114, 105, 112, 116, 45, 115, 114, 99]   -- "script-src"
def noncePrefix : Bytes := [110, 111, 110, 99, 101, 45]                  -- "nonce-"

def trimQuote (s : Bytes) : Bytes :=
  let s1 := match s with | 39 :: r => r | _ => s
  if s1.getLast? == some 39 then s1.dropLast else s1

def nonceOfSources : List Bytes → Option Bytes
  | [] => none
  | src :: rest =>
    let t := trimQuote src
    if List.isPrefixOf noncePrefix t then some (t.drop 6) else nonceOfSources rest

def nonceOfDirectives : List Bytes → Bytes
  | [] => []
  | d :: rest =>
    match fields d with
    | name :: s1 :: more =>
      if TemplVerif.Url.equalFold name scriptSrc then   -- strings.EqualFold
        match nonceOfSources (s1 :: more) with
        | some n => n
        | none => nonceOfDirectives rest
      else nonceOfDirectives rest
    | _ => nonceOfDirectives rest

/-- `parseNonce` -/
def parseNonce (csp : Bytes) : Bytes := nonceOfDirectives (splitSemi csp)

inductive Outcome
  | resp (r : Resp)
  | error              -- modifyResponse returned an error (the reverse proxy answers 502)
deriving Repr, DecidableEq

/-- `modifyResponse` -/
def modify (env : Env) (r : Resp) : Outcome :=
  if r.skipModify == trueLit then .resp r
  else if !isHtml r.contentType then .resp r
  else
    let codec : Option ((Bytes → Option Bytes) × (Bytes → Bytes)) :=
      if r.contentEncoding == gzipLit then some (env.gzipDec, env.gzipEnc)
      else if r.contentEncoding == brLit then some (env.brDec, env.brEnc)
      else if r.contentEncoding.isEmpty then some (some, id)
      else none
    match codec with
    | none => .resp r                                   -- unsupported encoding: warn and leave alone
    | some (dec, enc) =>
      match dec r.body with
      | none => .error
      | some doc =>
        let updated := (env.insert (parseNonce r.csp) doc).getD doc
        let out := enc updated
        .resp { r with body := out, contentLength := some out.length }

/-- `setShouldSkipResponseModificationHeader`: the skip header value after the round tripper ran. -/
def afterRoundTrip (hxRequest : Bytes) (upstreamSkip : Bytes) : Bytes :=
  if hxRequest == trueLit then trueLit else upstreamSkip

end TemplVerif.Proxy
