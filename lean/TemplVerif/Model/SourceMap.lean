import TemplVerif.Model.Pos
/-
C07 — model of parser/v2/sourcemap.go. The two Go maps (line → col → Position) are association lists in
which a later entry for the same (line, col) wins, which is what assignment into a Go map does.
-/
namespace TemplVerif.SourceMap
open TemplVerif TemplVerif.Pos

structure Entry where
  line : Nat
  col : Nat
  pos : Pos
deriving DecidableEq, Repr

structure SM where
  s2t : List Entry := []     -- SourceLinesToTarget, in insertion order
  t2s : List Entry := []     -- TargetLinesToSource
deriving DecidableEq, Repr

def lookup (es : List Entry) (line col : Nat) : Option Pos :=
  (es.reverse.find? fun e => e.line == line && e.col == col).map (·.pos)

def hasLine (es : List Entry) (line : Nat) : Bool := es.any (·.line == line)

/-- Runes of one line with their byte widths as `utf8.DecodeRuneInString` gives them (SourceMap.Add after the
    repair b77b1e4): a validly encoded rune advances by its length, a byte that is not valid UTF-8 by one. -/
def runeWidthsAux : Nat → Bytes → List Nat
  | 0, _ => []
  | _, [] => []
  | fuel + 1, s@(_ :: _) =>
    let (_, w) := Utf8.decodeRune s
    let adv := max w 1
    adv :: runeWidthsAux fuel (s.drop adv)

def runeWidths (line : Bytes) : List Nat := runeWidthsAux line.length line

/-- The per-rune loop and the end-of-line entry for one line of the expression. Returns the new maps and the
    (srcIndex, tgtIndex) after the line (already incremented for the newline). -/
def addLine (sm : SM) (widths : List Nat) (srcLine tgtLine srcCol tgtCol srcIndex tgtIndex : Nat) : SM × Nat × Nat :=
  match widths with
  | [] =>
    ({ s2t := sm.s2t ++ [⟨srcLine, srcCol, ⟨tgtIndex, tgtLine, tgtCol⟩⟩],
       t2s := sm.t2s ++ [⟨tgtLine, tgtCol, ⟨srcIndex, srcLine, srcCol⟩⟩] }, srcIndex + 1, tgtIndex + 1)
  | w :: rest =>
    addLine { s2t := sm.s2t ++ [⟨srcLine, srcCol, ⟨tgtIndex, tgtLine, tgtCol⟩⟩],
              t2s := sm.t2s ++ [⟨tgtLine, tgtCol, ⟨srcIndex, srcLine, srcCol⟩⟩] }
      rest srcLine tgtLine (srcCol + w) (tgtCol + w) (srcIndex + w) (tgtIndex + w)

def addLines (sm : SM) (lines : List Bytes) (lineIndex : Nat) (srcFrom tgtFrom : Pos) (srcIndex tgtIndex : Nat) : SM :=
  match lines with
  | [] => sm
  | l :: rest =>
    let srcCol := if lineIndex == 0 then srcFrom.col else 0
    let tgtCol := if lineIndex == 0 then tgtFrom.col else 0
    let (sm', si, ti) := addLine sm (runeWidths l) (srcFrom.line + lineIndex) (tgtFrom.line + lineIndex) srcCol tgtCol srcIndex tgtIndex
    addLines sm' rest (lineIndex + 1) srcFrom tgtFrom si ti

/-- `SourceMap.Add(src Expression, tgt Range)` -/
def add (sm : SM) (value : Bytes) (srcFrom tgtFrom : Pos) : SM :=
  addLines sm (splitLF value) 0 srcFrom tgtFrom srcFrom.index tgtFrom.index

/-- `TargetPositionFromSource` -/
def targetOf (sm : SM) (line col : Nat) : Option Pos := lookup sm.s2t line col

/-- `SourcePositionFromTarget`: on a known line, search backwards for the nearest mapped column. -/
def sourceOfAux (es : List Entry) (line : Nat) : Nat → Option Pos
  | 0 => lookup es line 0
  | col + 1 => match lookup es line (col + 1) with
    | some p => some p
    | none => sourceOfAux es line col

def sourceOf (sm : SM) (line col : Nat) : Option Pos :=
  if hasLine sm.t2s line then sourceOfAux sm.t2s line col else none

/-- Offsets (in bytes) of the rune starts of `value`, plus the end offset of each of its lines — the positions
    an editor can send. -/
def positionsOf (value : Bytes) : List Nat :=
  let rec go (fuel : Nat) (off : Nat) (s : Bytes) : List Nat :=
    match fuel, s with
    | 0, _ => [off]
    | _, [] => [off]
    | fuel + 1, b :: rest =>
      if b = 10 then off :: go fuel (off + 1) rest
      else
        let (_, w) := Utf8.decodeRune (b :: rest)
        let w := max w 1
        off :: go fuel (off + w) ((b :: rest).drop w)
  go (value.length + 1) 0 value

/-- C07's executable predicate for one expression: every rune-start (and line-end) position of the expression
    maps to the target position reached by advancing over the same bytes, that position holds the same byte,
    and mapping back returns the source position. -/
def exprMapped (src gen : Bytes) (sm : SM) (value : Bytes) (srcFrom tgtFrom : Pos) : Bool :=
  -- a value that ends in LF (top-level Go before the next declaration) ends exactly where the next expression
  -- starts: that shared position belongs to the next expression
  let positions := if value.getLast? == some 10 then (positionsOf value).filter (· < value.length) else positionsOf value
  positions.all fun k =>
    let sp := advance srcFrom (value.take k)
    let tp := advance tgtFrom (value.take k)
    targetOf sm sp.line sp.col == some tp &&
    sourceOf sm tp.line tp.col == some sp &&
    (k ≥ value.length || (src.getD sp.index 0 == gen.getD tp.index 1 && src.getD sp.index 0 == value.getD k 2)) &&
    decide (positionAt gen tp.index = tp)

end TemplVerif.SourceMap

/-! ## Symbol ranges (`AddSymbolRange`, `SymbolTargetRangeFromSource`, `SymbolSourceRangeFromTarget`)

Two Go maps line → col → Range; as for the position tables, association lists in which a later entry for the same
(line, col) wins. -/
namespace TemplVerif.SourceMap
open TemplVerif TemplVerif.Pos

structure Rng where
  from_ : Pos
  to : Pos
deriving DecidableEq, Repr

structure SymEntry where
  line : Nat
  col : Nat
  rng : Rng
deriving DecidableEq, Repr

structure Syms where
  s2t : List SymEntry := []
  t2s : List SymEntry := []
deriving DecidableEq, Repr

def symLookup (es : List SymEntry) (line col : Nat) : Option Rng :=
  (es.reverse.find? fun e => e.line == line && e.col == col).map (·.rng)

/-- `AddSymbolRange(src, tgt)` (after the repair: the per-line map is made only when the line has none) -/
def addSymbol (m : Syms) (src tgt : Rng) : Syms :=
  { s2t := m.s2t ++ [⟨src.from_.line, src.from_.col, tgt⟩],
    t2s := m.t2s ++ [⟨tgt.from_.line, tgt.from_.col, src⟩] }

def symTarget (m : Syms) (line col : Nat) : Option Rng := symLookup m.s2t line col
def symSource (m : Syms) (line col : Nat) : Option Rng := symLookup m.t2s line col

def addSymbols (adds : List (Rng × Rng)) : Syms := adds.foldl (fun m a => addSymbol m a.1 a.2) {}

/-- the text a range covers -/
def slice (s : Bytes) (r : Rng) : Bytes := (s.drop r.from_.index).take (r.to.index - r.from_.index)

end TemplVerif.SourceMap
