import TemplVerif.Base.Bytes
/-
C13 — model of how child blocks travel: the `children` slot of templ's context value (runtime.go: WithChildren,
ClearChildren, GetChildren), the prologue of every generated template (read the slot, clear it), generated call
sites with and without a block, block closures (lexical scope of `{ children... }`), and the hand-written
components Once, Flush, Join and function components.
`exec` follows the code: the slot lives in a context value; `WithChildren` DERIVES a new context value (the
caller's is untouched), and a children component obtained from `GetChildren` renders its block in a context whose
slot is empty. `denote` is the specification: every callee receives exactly its call site's block as a parameter.
-/
namespace TemplVerif.Children
open TemplVerif

/-- Call trees assembled from the fixture combinators (harness/tmpl/calltree.templ) and hand-written components. -/
inductive Term
  | use (tag : Nat)                                  -- generated: <use>{ children... }</use>
  | ignore (tag : Nat)                               -- generated: no slot
  | twice (tag : Nat)                                -- generated: slot used twice
  | noBlock (c : Term)                               -- generated: @c
  | withBlock (c : Term) (marker : Nat) (inner : Term)   -- generated: @c { <m>marker</m> @inner }
  | forward (c : Term)                               -- generated: @c { <f>{ children... }</f> }
  | seq (a b : Term)                                 -- generated: @a @b
  | once (h : Nat) (fixed : Option Term)             -- OnceHandle.Once(), with or without WithComponent
  | flush                                            -- templ.Flush()
  | join (a b : Term)                                -- templ.Join(a, b)
  | handIgnore (tag : Nat)                           -- function component that writes a tag and ignores children
  | handChildren                                     -- function component: templ.GetChildren(ctx).Render(ctx, w)
deriving Repr

/-- A block closure: the generated closure for `{ <m>marker</m> @inner }` or for `{ <f>{ children... }</f> }`, the
    latter capturing the enclosing template's own children (lexical scope). -/
inductive Closure
  | block (marker : Nat) (inner : Term)
  | fwd (lexical : Option Closure)
deriving Repr

/-- The part of the context value that matters: the children slot and the once handles already rendered
    (the once registry is shared by derived context values, the slot is not). -/
structure Ctx where
  children : Option Closure := none
  onces : List Nat := []
deriving Repr

def tag (name : String) (n : Nat) : Bytes :=
  if name == "m" then Bytes.ofString s!"<m>{n}</m>"
  else if name == "hand" then Bytes.ofString s!"<hand {n}>"
  else if name == "ign" then Bytes.ofString s!"<ign id=\"{n}\"></ign>"
  else Bytes.ofString s!"<{name} id=\"{n}\">"
def lit (s : String) : Bytes := Bytes.ofString s

mutual
  /-- Render a component with context value `c`. Returns the once registry afterwards, the output, and what is left
      in `c`'s children slot (a generated template clears the slot of the value it was given; hand-written
      components leave it alone) — hand-written layers such as Join pass the same value on to the next component. -/
  def exec : Nat → Term → Ctx → List Nat × Bytes × Option Closure
    | 0, _, c => (c.onces, lit "<fuel>", c.children)
    | fuel + 1, t, c =>
      match t with
      -- generated templates: prologue reads the slot into a local and clears it
      | .use n => let (o, b) := slot fuel c.children c.onces; (o, tag "use" n ++ b ++ lit "</use>", none)
      | .ignore n => (c.onces, tag "ign" n, none)
      | .twice n =>
        let (o1, b1) := slot fuel c.children c.onces
        let (o2, b2) := slot fuel c.children o1
        (o2, tag "tw" n ++ b1 ++ lit "|" ++ b2 ++ lit "</tw>", none)
      | .noBlock x => let (o, b, _) := exec fuel x { children := none, onces := c.onces }; (o, lit "<nb>" ++ b ++ lit "</nb>", none)
      | .withBlock x m inner =>
        -- WithChildren derives a context value for the callee; ours keeps an empty slot
        let (o, b, _) := exec fuel x { children := some (.block m inner), onces := c.onces }
        (o, lit "<wb>" ++ b ++ lit "</wb>", none)
      | .forward x =>
        let (o, b, _) := exec fuel x { children := some (.fwd c.children), onces := c.onces }
        (o, lit "<fw>" ++ b ++ lit "</fw>", none)
      | .seq a b =>
        let (o1, b1, _) := exec fuel a { children := none, onces := c.onces }
        let (o2, b2, _) := exec fuel b { children := none, onces := o1 }
        (o2, b1 ++ b2, none)
      -- hand-written components: they do not clear the slot themselves
      | .once h fixed =>
        if c.onces.contains h then (c.onces, [], c.children)
        else
          match fixed with
          | some f => exec fuel f { c with onces := h :: c.onces }
          | none => let (o, b) := slot fuel c.children (h :: c.onces); (o, b, c.children)
      | .flush => let (o, b) := slot fuel c.children c.onces; (o, b, c.children)
      | .join a b =>
        let (o1, b1, k1) := exec fuel a c
        let (o2, b2, k2) := exec fuel b { children := k1, onces := o1 }
        (o2, b1 ++ b2, k2)
      | .handIgnore n => (c.onces, tag "hand" n, c.children)
      | .handChildren => let (o, b) := slot fuel c.children c.onces; (o, b, c.children)
  /-- Render a children component (what GetChildren returns): the block runs in a context whose slot is empty. -/
  def slot : Nat → Option Closure → List Nat → List Nat × Bytes
    | _, none, o => (o, [])
    | 0, some _, o => (o, lit "<fuel>")
    | fuel + 1, some (.block m inner), o =>
      let (o', b, _) := exec fuel inner { children := none, onces := o }
      (o', tag "m" m ++ b)
    | fuel + 1, some (.fwd lex), o =>
      let (o', b) := slot fuel lex o
      (o', lit "<f>" ++ b ++ lit "</f>")
end

mutual
  /-- Specification: children are an explicit parameter of every callee; a generated template consumes the parameter
      it is given, hand-written layers hand on what is left (third component of the result). Nothing is stored. -/
  def denote : Nat → Term → Option Closure → List Nat → List Nat × Bytes × Option Closure
    | 0, _, kids, o => (o, lit "<fuel>", kids)
    | fuel + 1, t, kids, o =>
      match t with
      | .use n => let (o', b) := denoteSlot fuel kids o; (o', tag "use" n ++ b ++ lit "</use>", none)
      | .ignore n => (o, tag "ign" n, none)
      | .twice n =>
        let (o1, b1) := denoteSlot fuel kids o
        let (o2, b2) := denoteSlot fuel kids o1
        (o2, tag "tw" n ++ b1 ++ lit "|" ++ b2 ++ lit "</tw>", none)
      | .noBlock x => let (o', b, _) := denote fuel x none o; (o', lit "<nb>" ++ b ++ lit "</nb>", none)
      | .withBlock x m inner => let (o', b, _) := denote fuel x (some (.block m inner)) o; (o', lit "<wb>" ++ b ++ lit "</wb>", none)
      | .forward x => let (o', b, _) := denote fuel x (some (.fwd kids)) o; (o', lit "<fw>" ++ b ++ lit "</fw>", none)
      | .seq a b =>
        let (o1, b1, _) := denote fuel a none o
        let (o2, b2, _) := denote fuel b none o1
        (o2, b1 ++ b2, none)
      | .once h fixed =>
        if o.contains h then (o, [], kids)
        else match fixed with
          | some f => denote fuel f kids (h :: o)
          | none => let (o', b) := denoteSlot fuel kids (h :: o); (o', b, kids)
      | .flush => let (o', b) := denoteSlot fuel kids o; (o', b, kids)
      | .join a b =>
        let (o1, b1, k1) := denote fuel a kids o
        let (o2, b2, k2) := denote fuel b k1 o1
        (o2, b1 ++ b2, k2)
      | .handIgnore n => (o, tag "hand" n, kids)
      | .handChildren => let (o', b) := denoteSlot fuel kids o; (o', b, kids)
  def denoteSlot : Nat → Option Closure → List Nat → List Nat × Bytes
    | _, none, o => (o, [])
    | 0, some _, o => (o, lit "<fuel>")
    | fuel + 1, some (.block m inner), o =>
      let (o', b, _) := denote fuel inner none o
      (o', tag "m" m ++ b)
    | fuel + 1, some (.fwd lex), o =>
      let (o', b) := denoteSlot fuel lex o
      (o', lit "<f>" ++ b ++ lit "</f>")
end

end TemplVerif.Children
