import TemplVerif.Model.Gen
/-
C08 — the layout class of a template body: what may change when a template is formatted without changing the program
generated from it. `norm` maps a tree to the representative of its class:
  * layout flags (IndentAttrs, IndentChildren, Multiline, SingleQuote) are dropped;
  * a trailing space counts only where it is rendered (after inline content followed by inline content), and then
    vertical ≈ horizontal;
  * a whitespace node is present or not (its characters do not matter); whitespace nodes in element and template
    bodies, and at the ends of control-flow / block bodies, are dropped;
  * a legacy call `{! c }` is the call `@c` without a block;
  * Go comments keep their place (they separate their neighbours) but not their text.
Everything else — names, attribute order and values, text, expressions, structure — is kept.
-/
namespace TemplVerif.Norm
open TemplVerif TemplVerif.Ast

mutual
def attr : Attr → Attr
  | .const n v _ => .const n v false
  | .cond e thn els => .cond e (attrs thn) (attrs els)
  | a => a
def attrs : Attrs → Attrs
  | .nil => .nil
  | .cons a as => .cons (attr a) (attrs as)
end

/-- A trailing space is kept exactly where it is rendered: after inline content that is followed by inline content. -/
def keep (cur : Node) (next : Bool) : Trail :=
  if Sem.Node.inline cur && next && Sem.Node.trail cur != .none then .horiz else .none

/-- The generator asks whether a child list is EMPTY (void elements: children and close tag are written only if there are
    children; `@c { … }`: a block is passed only if there is one), so for those a list of nothing but whitespace nodes keeps one
    (empty) whitespace node. -/
def nonNil (orig normed : Nodes) : Nodes :=
  if normed.isNil && !orig.isNil then .cons (.ws []) .nil else normed

mutual
def node : Node → Bool → Node
  | .element n as cs t ia ic, next =>
    .element n (attrs as) (if Sem.isVoid n then nonNil cs (nodes true true cs false) else nodes true true cs false) (keep (.element n as cs t ia ic) next) false false
  | .raw n as c, _ => .raw n (attrs as) c
  | .script as ps, _ => .script (attrs as) ps
  | .forE e b, next => .forE e (nodes false true b next)
  | .templEl e b, _ => .templEl e (nonNil b (nodes false true b false))
  | .call e, _ => .templEl e .nil          -- the legacy `{! c }` is printed as `@c`
  | .ifE e thn elifs els, next => .ifE e (nodes false true thn next) (elseIfs elifs next) (nodes false true els next)
  | .switchE e cs, next => .switchE e (cases cs next)
  | .strExpr e t, next => .strExpr e (keep (.strExpr e t) next)
  | .goCode e _ _, _ => .goCode e .none false
  | .ws v, _ => .ws (if v.isEmpty then [] else [32])
  | .text v t, next => .text v (keep (.text v t) next)
  | .goComment _ _, _ => .goComment [] false
  | n, _ => n
/-- `all`: drop every whitespace node (element / template bodies); otherwise only those at both ends.
    `next` = the list is followed by inline content (as in the generator's writeNodes). -/
def nodes (all : Bool) (atStart : Bool) : Nodes → Bool → Nodes
  | .nil, _ => .nil
  | .cons n rest, next =>
    if n.isWs && (all || atStart || rest.allWs) then nodes all atStart rest next
    else
      let nx := if all then (match rest.firstNonWs with | some m => Sem.Node.inline m | none => next)
                else if rest.allWs then next else Sem.optInline rest.head?
      .cons (node n nx) (nodes all false rest next)
def elseIfs : ElseIfs → Bool → ElseIfs
  | .nil, _ => .nil
  | .cons e thn rest, next => .cons e (nodes false true thn next) (elseIfs rest next)
def cases : Cases → Bool → Cases
  | .nil, _ => .nil
  | .cons e b rest, next => .cons e (nodes false true b next) (cases rest next)
end

/-- The representative of a template body's layout class. -/
def body (b : Nodes) : Nodes := nodes true true b false

end TemplVerif.Norm
