import TemplVerif.Base.Bytes
/-
C10 — model of runtime.Buffer (a bufio.Writer of fixed capacity over the caller's writer), the buffer pool's
Reset-on-get, and the shape of a generated Render: context check, GetBuffer, a sequence of writes each followed by
an error check, expression errors, nested components sharing the buffer, deferred ReleaseBuffer (flush; its error is
adopted only if none is set).
The caller's writer fails at a byte offset: it accepts bytes up to `limit` and then returns an error, either after
taking the part of the chunk that still fits ("short write") or without taking any of it ("zero write"). A `silent`
writer breaks the io.Writer contract: from the limit on it takes less than it was given and returns NO error;
runtime.Buffer puts a checking writer between bufio and the caller's writer that turns this into io.ErrShortWrite.
-/
namespace TemplVerif.Buf
open TemplVerif

/-- The caller's io.Writer. -/
structure Under where
  accepted : Bytes := []
  limit : Option Nat := none      -- total bytes it will accept; none = never fails
  zeroWrite : Bool := false       -- on the failing call: accept nothing (true) or what still fits (false)
  stringWriter : Bool := true     -- the writer implements io.StringWriter (bufio.WriteString may bypass its buffer)
  silent : Bool := false          -- the failing call (and every later one) returns no error
deriving DecidableEq, Repr

/-- One `Write(p)` on the caller's writer: the new state, bytes taken, error?. -/
def Under.write (u : Under) (p : Bytes) : Under × Nat × Bool :=
  match u.limit with
  | none => ({ u with accepted := u.accepted ++ p }, p.length, false)
  | some k =>
    let room := k - u.accepted.length
    if p.length ≤ room then ({ u with accepted := u.accepted ++ p }, p.length, false)
    else if u.zeroWrite then (u, 0, !u.silent)
    else ({ u with accepted := u.accepted ++ p.take room }, room, !u.silent)

/-- runtime.checkedWriter / checkedStringWriter: a write accepted only in part without an error is io.ErrShortWrite. -/
def Under.writeChecked (u : Under) (p : Bytes) : Under × Nat × Bool :=
  let (u', n, e) := u.write p
  (u', n, e || n < p.length)

/-- bufio.Writer -/
structure BW where
  cap : Nat
  buf : Bytes := []          -- buffered bytes (b.buf[0:b.n])
  err : Bool := false        -- sticky error
  u : Under := {}
deriving DecidableEq, Repr

def BW.available (b : BW) : Nat := b.cap - b.buf.length

/-- `Flush` -/
def BW.flush (b : BW) : BW :=
  if b.err then b
  else if b.buf.isEmpty then b
  else
    let (u', n, e) := b.u.writeChecked b.buf
    if e || n < b.buf.length then { b with u := u', buf := b.buf.drop n, err := true }
    else { b with u := u', buf := [] }

/-- One pass of bufio's loop for a large write into an empty buffer WITHOUT the checking writer, as before the repair
    `0f5e0ab`: the new writer state and the bytes still to be written. -/
def BW.largeStepUnchecked (b : BW) (p : Bytes) : BW × Bytes :=
  let (u', n, e) := b.u.write p
  ({ b with u := u', err := e }, p.drop n)

/-- `Write` / `WriteString`: the loop `for len(p) > Available() && err == nil`. -/
def BW.writeAux : Nat → BW → Bytes → BW
  | 0, b, _ => b
  | fuel + 1, b, p =>
    if p.length > b.available && !b.err then
      if b.buf.isEmpty then
        -- large write, empty buffer: straight to the underlying writer
        let (u', n, e) := b.u.writeChecked p
        let b' := { b with u := u', err := e }
        if n == 0 && !e then b' else BW.writeAux fuel b' (p.drop n)
      else
        let n := b.available
        let b' := ({ b with buf := b.buf ++ p.take n }).flush
        BW.writeAux fuel b' (p.drop n)
    else if b.err then b
    else { b with buf := b.buf ++ p }

def BW.write (b : BW) (p : Bytes) : BW := BW.writeAux (p.length + 2) b p

/-- `WriteString`: as `Write`, except that the direct path for a large string with an empty buffer exists only when
    the underlying writer is an io.StringWriter; otherwise the string goes through the buffer in capacity-sized pieces. -/
def BW.writeStringAux : Nat → BW → Bytes → BW
  | 0, b, _ => b
  | fuel + 1, b, p =>
    if p.length > b.available && !b.err then
      if b.buf.isEmpty && b.u.stringWriter then
        let (u', n, e) := b.u.writeChecked p
        let b' := { b with u := u', err := e }
        if n == 0 && !e then b' else BW.writeStringAux fuel b' (p.drop n)
      else
        let n := b.available
        let b' := ({ b with buf := b.buf ++ p.take n }).flush
        BW.writeStringAux fuel b' (p.drop n)
    else if b.err then b
    else { b with buf := b.buf ++ p }

def BW.writeString (b : BW) (p : Bytes) : BW := BW.writeStringAux (p.length + 2) b p

/-- `Reset(w)`: what GetBuffer does with a pooled buffer. -/
def BW.reset (b : BW) (u : Under) : BW := { b with buf := [], err := false, u := u }

/-- Steps of a generated Render. -/
inductive ROp
  | write (p : Bytes)                 -- WriteString of a literal or an escaped value, followed by the error check
  | exprFail (line : Nat)             -- an expression returned an error: return templ.Error{…Line…}
  | sub (ops : List ROp)              -- nested component rendered into the same buffer
  | subFail                           -- nested hand-written component returning an error

inductive RErr
  | none
  | writer                            -- an error from the caller's writer (possibly via flush)
  | expr (line : Nat)
  | component
  | ctx                               -- context already cancelled
deriving DecidableEq, Repr

mutual
  def runOps : List ROp → BW → BW × RErr
    | [], b => (b, .none)
    | op :: rest, b =>
      match runOp op b with
      | (b', .none) => runOps rest b'
      | (b', e) => (b', e)
  def runOp : ROp → BW → BW × RErr
    | .write p, b => let b' := b.writeString p; (b', if b'.err then .writer else .none)
    | .exprFail l, b => (b, .expr l)
    | .sub ops, b => runOps ops b
    | .subFail, b => (b, .component)
end

/-- A top-level Render on a writer that is not already a Buffer: ctx check, GetBuffer (Reset), body, deferred
    ReleaseBuffer (flush; its error is adopted only when the body returned none). -/
def render (cancelled : Bool) (ops : List ROp) (pooled : BW) (u : Under) : BW × RErr :=
  if cancelled then (pooled, .ctx)
  else
    let b0 := pooled.reset u
    let (b1, e) := runOps ops b0
    let b2 := b1.flush
    (b2, if e == .none then (if b2.err then .writer else .none) else e)

mutual
  /-- The full document: every byte the ops would write if nothing failed. -/
  def docOf : List ROp → Bytes
    | [] => []
    | op :: rest => docOfOp op ++ docOf rest
  def docOfOp : ROp → Bytes
    | .write p => p
    | .exprFail _ => []
    | .sub ops => docOf ops
    | .subFail => []
end

mutual
  def failFree : List ROp → Bool
    | [] => true
    | op :: rest => failFreeOp op && failFree rest
  def failFreeOp : ROp → Bool
    | .write _ => true
    | .exprFail _ => false
    | .sub ops => failFree ops
    | .subFail => false
end

end TemplVerif.Buf
