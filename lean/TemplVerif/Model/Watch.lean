import TemplVerif.Model.Quote
/-
C16 — the two pieces of bookkeeping between an edit and what the running development-mode program shows:

  * `TextGuard`: FSEventHandler.generate rewrites the development text file only when the digest of the text differs
    from the digest it remembers (UpsertHash). The digest is modelled by the value it is taken of (`key`): collision
    freedom of SHA-256 is an assumption of the trusted base, what matters is WHICH value is digested.
  * `Cache`: runtime.getWatchedStrings serves the literals from a cache that remembers a time; it looks at the file
    again only `throttle` after that time and reloads only when the file's modification time is later.

Times are natural numbers (nanoseconds).
-/
namespace TemplVerif.Watch
open TemplVerif TemplVerif.Quote

/-! ## the handler's side -/

structure Guard where
  last : Option Bytes := none     -- what the remembered digest was taken of
  disk : Option Bytes := none     -- the text file (none: not written yet)
  deriving Repr, DecidableEq

/-- one `generate` of the template with literals `lits`; returns TextUpdated -/
def Guard.step (key : List Bytes → Bytes) (g : Guard) (lits : List Bytes) : Guard × Bool :=
  if g.last == some (key lits) then (g, false)
  else ({ last := some (key lits), disk := some (textFile lits) }, true)

def Guard.run (key : List Bytes → Bytes) (g : Guard) : List (List Bytes) → Guard
  | [] => g
  | l :: ls => Guard.run key (g.step key l).1 ls

/-- the digest of the joined text, as in the code: `sha256.Sum256([]byte(strings.Join(literals, "\n")))` -/
def keyJoined (lits : List Bytes) : Bytes := textFile lits
/-- a digest fed literal by literal, without a separator -/
def keyConcat (lits : List Bytes) : Bytes := lits.flatten

/-! ## the running program's side -/

structure File where
  mtime : Nat
  lines : List Bytes
  deriving Repr, DecidableEq

structure Cache where
  time : Nat            -- watchState.modTime
  lines : List Bytes
  deriving Repr, DecidableEq

/-- `cacheStrings` when the remembered time is the file's modification time (Stat on the opened file) -/
def loadMtime (f : File) (_now : Nat) : Cache := { time := f.mtime, lines := f.lines }
/-- `cacheStrings` when the remembered time is the time of loading -/
def loadNow (f : File) (now : Nat) : Cache := { time := now, lines := f.lines }

/-- `getWatchedStrings` with a cached state, at time `now` -/
def look (load : File → Nat → Cache) (throttle : Nat) (c : Cache) (f : File) (now : Nat) : Cache :=
  if now - c.time < throttle then c
  else if !(f.mtime > c.time) then c
  else load f now

/-- The cache is not ahead of the file, and when it carries the file's time it carries the file's lines. -/
def Inv (c : Cache) (f : File) : Prop := c.time ≤ f.mtime ∧ (c.time = f.mtime → c.lines = f.lines)

/-! ## the watch loop's window

The events of one post-generation window are folded into two flags; at the end of the window the program is rebuilt
when the Go flag is set, otherwise (text only) it keeps running and reads the new text files. -/

structure Ev where
  goUpdated : Bool
  textUpdated : Bool
  deriving Repr, DecidableEq

/-- `goUpdated = goUpdated || ge.GoUpdated; textUpdated = textUpdated || ge.TextUpdated` over the window -/
def window (evs : List Ev) : Bool × Bool :=
  evs.foldl (fun acc e => (acc.1 || e.goUpdated, acc.2 || e.textUpdated)) (false, false)

/-- the last event decides alone -/
def windowLast (evs : List Ev) : Bool × Bool :=
  evs.foldl (fun _ e => (e.goUpdated, e.textUpdated)) (false, false)

end TemplVerif.Watch
