import TemplVerif.Model.Frame
/-
C18 — concurrent senders on one connection. `conn.write` takes the write mutex, lets the stream write the frame (the
header and the body are two writes to the transport) and releases the mutex; Call, Notify and the replier all send
through it. A writer is therefore a little program: acquire; write header; write body; release.

The model interleaves any number of such writers at the granularity of single transport writes, under any
schedule. What a writer that does NOT take the mutex does is modelled too (`locked := false`), to show what the
mutex is for.
-/
namespace TemplVerif.Mux
open TemplVerif

/-- where a writer is in its program -/
inductive Pc | idle | hasLock | wroteHeader | done
  deriving DecidableEq, Repr

structure Writer where
  header : Bytes
  body : Bytes
  locked : Bool := true       -- does this writer go through conn.write (takes the mutex)?
  pc : Pc := .idle
  deriving DecidableEq, Repr

structure State where
  writers : List Writer
  holder : Option Nat := none      -- index of the writer holding the mutex
  out : Bytes := []                -- what the transport has received
  deriving DecidableEq, Repr

def setPc (ws : List Writer) (i : Nat) (pc : Pc) : List Writer :=
  ws.mapIdx fun j w => if j == i then { w with pc := pc } else w

/-- One step of writer `i`; `none` when the step is not enabled (the mutex is taken, or the writer has finished). -/
def step (s : State) (i : Nat) : Option State :=
  match s.writers[i]? with
  | none => none
  | some w =>
    match w.pc with
    | .idle =>
      if w.locked then
        (if s.holder.isSome then none else some { s with holder := some i, writers := setPc s.writers i .hasLock })
      else some { s with writers := setPc s.writers i .hasLock }
    | .hasLock => some { s with out := s.out ++ w.header, writers := setPc s.writers i .wroteHeader }
    | .wroteHeader =>
      some { s with out := s.out ++ w.body, writers := setPc s.writers i .done,
                    holder := if w.locked then none else s.holder }
    | .done => none

/-- Run a schedule (a list of writer indices); steps that are not enabled are skipped. -/
def run : State → List Nat → State
  | s, [] => s
  | s, i :: rest => match step s i with
    | some s' => run s' rest
    | none => run s rest

def allDone (s : State) : Bool := s.writers.all (·.pc == .done)

/-- The frames of the writers that have finished, in the order in which they took the mutex, is what the theorem
    talks about; this is the frame of one writer. -/
def frameOf (w : Writer) : Bytes := w.header ++ w.body

end TemplVerif.Mux
