import TemplVerif.Base.Bytes
/-
C19 — transition-system model of cmd/templ/generatecmd/sse/server.go.
Clients run `ServeHTTP` (register, select loop, exit path under the lock); `Send` starts one delivery
goroutine per registered client under the lock. Two wiring facts of the code are parameters of the model
(and are regenerated from the source on every run, see Generated/Sse.lean):
  closeOnExit   — the handler's deferred function closes the client's event channel
  selectDone    — the delivery goroutine selects between the send and the client's done channel
-/
namespace TemplVerif.Sse

structure Cfg where
  closeOnExit : Bool
  selectDone : Bool
deriving Repr, DecidableEq

structure Client where
  id : Nat
  registered : Bool := true     -- present in Handler.requests
  cancelled : Bool := false     -- request context done
  exited : Bool := false        -- deferred function has run (unregistered, channel closed if closeOnExit)
  received : List Nat := []     -- events written to this client, in order
deriving Repr, DecidableEq

structure State where
  clients : List Client := []
  pending : List (Nat × Nat) := []     -- delivery goroutines not yet finished: (client id, event id)
  nextEvent : Nat := 0
  registeredAt : List (Nat × Nat) := []  -- history: (client, event) pairs with client registered when event was broadcast
deriving Repr, DecidableEq

inductive Action
  | subscribe (c : Nat)
  | broadcast
  | deliver (c : Nat) (e : Nat)     -- the delivery goroutine for (c, e) takes its send branch
  | drop (c : Nat) (e : Nat)        -- …or its done branch (only with selectDone, once c is cancelled)
  | cancel (c : Nat)
  | exit (c : Nat)
deriving Repr, DecidableEq

inductive Outcome
  | ok (s : State)
  | disabled                     -- the action cannot happen in this state (skipped by `run`)
  | panic                        -- send on closed channel
deriving Repr, DecidableEq

def findClient (s : State) (c : Nat) : Option Client := s.clients.find? (·.id == c)

def updClient (s : State) (c : Nat) (f : Client → Client) : State :=
  { s with clients := s.clients.map fun cl => if cl.id == c then f cl else cl }

def step (cfg : Cfg) (s : State) : Action → Outcome
  | .subscribe c =>
    if (findClient s c).isSome then .disabled
    else .ok { s with clients := s.clients ++ [{ id := c }] }
  | .broadcast =>
    let targets := (s.clients.filter (·.registered)).map (·.id)
    .ok { s with pending := s.pending ++ targets.map (·, s.nextEvent),
                 registeredAt := s.registeredAt ++ targets.map (·, s.nextEvent),
                 nextEvent := s.nextEvent + 1 }
  | .deliver c e =>
    if !s.pending.contains (c, e) then .disabled else
    match findClient s c with
    | none => .disabled
    | some cl =>
      if cl.exited then
        -- nobody receives any more: with a closed channel the send panics; otherwise the goroutine stays blocked
        if cfg.closeOnExit then .panic else .disabled
      else if cl.cancelled then .disabled     -- the handler has left its select loop (it is in its exit path)
      else .ok (updClient { s with pending := s.pending.erase (c, e) } c fun cl => { cl with received := cl.received ++ [e] })
  | .drop c e =>
    if !s.pending.contains (c, e) || !cfg.selectDone then .disabled else
    match findClient s c with
    | none => .disabled
    | some cl => if cl.cancelled then .ok { s with pending := s.pending.erase (c, e) } else .disabled
  | .cancel c =>
    match findClient s c with
    | none => .disabled
    | some cl => if cl.cancelled then .disabled else .ok (updClient s c fun cl => { cl with cancelled := true })
  | .exit c =>
    match findClient s c with
    | none => .disabled
    | some cl =>
      if !cl.cancelled || cl.exited then .disabled
      else .ok (updClient s c fun cl => { cl with exited := true, registered := false })

/-- Run a schedule; disabled actions are skipped; a panic is absorbing. -/
def run (cfg : Cfg) : State → List Action → Option State
  | s, [] => some s
  | s, a :: rest =>
    match step cfg s a with
    | .ok s' => run cfg s' rest
    | .disabled => run cfg s rest
    | .panic => none

/-- Delivery goroutines that can never finish: their client has exited and they have no done branch to take. -/
def leaked (cfg : Cfg) (s : State) : List (Nat × Nat) :=
  s.pending.filter fun (c, _) =>
    match findClient s c with
    | some cl => cl.exited && !cfg.selectDone && !cfg.closeOnExit
    | none => false

end TemplVerif.Sse
