import TemplVerif.Model.Printer
/-
C09 — specification of the parser ON PRINTER OUTPUT (fragment of Printer.lean): the tree `parse (print t)` as a
function of `t`. Same nodes in the same order; what changes is the layout information the parser recomputes from the
printed text: IndentAttrs / IndentChildren from where the printer broke lines, every trailing space from the
separator the printer wrote, and the whitespace nodes (white space that no node took as its trailing space and that is
not eaten by a following `for`). Whitespace node VALUES are not modelled (the printer
never looks at them): they are all written ` `.
-/
namespace TemplVerif.Reparse
open TemplVerif TemplVerif.Ast TemplVerif.Printer

def wsN : Node := .ws [32]

/-- some child printed inline is followed by a line break (cannot happen in a tree the parser built) -/
def inlineBreaks : Nodes → Bool
  | .nil => false
  | .cons c rest => (!c.isWs && ownTrail c == .vert) || inlineBreaks rest

/-- the `for` parser eats the white space in front of it (if and switch do not) -/
def eatsLeadingWs : Node → Bool
  | .forE .. => true
  | _ => false

/-- a `//` comment takes its line break with it -/
def isLineComment : Node → Bool
  | .goComment _ false => true
  | _ => false

mutual
/-- `level`: the indentation the printer wrote this node at (Printer.printNode's `level`). -/
def reNode : Node → Trail → Nat → Node
  | .element n as cs _ ia ic, tr, level =>
    let ind := !cs.allWs && (ic || requireOwnLine cs)
    .element n as (if cs.allWs then .nil else if ind then reNodes (level + 1) true (level + 1) true level false none cs
                   else reNodes 0 false 0 false 0 false none cs) tr (ia || hasCond as) (ind || (!cs.allWs && inlineBreaks cs))
  | .forE e b, _, level => .forE e (reNodes (level + 1) true (level + 1) true level false none b)
  | .call e, _, _ => .templEl e .nil
  | .templEl e b, _, level => .templEl e (match b with | .nil => .nil | _ => reNodes (level + 1) true (level + 1) true level false none b)
  | .ifE e thn elifs els, _, level =>
    -- the `} else if` that ends a branch eats the white space in front of it; `} else {` and `}` do not
    let more := match elifs with | .nil => false | _ => true
    .ifE e (reNodes (level + 1) true (level + 1) true level more none thn) (reElifs elifs level)
      (match els with | .nil => .nil | _ => reNodes (level + 1) true (level + 1) false level false none els)   -- `else {` eats the white space after its brace
  | .switchE e cs, _, level => .switchE e (reCases cs level)
  | .strExpr e _, tr, _ => .strExpr e tr
  | .text v _, tr, _ => .text v tr
  | n, _, _ => n
/-- The list as `Printer.printNodes start indent level` wrote it. `pending`: white space precedes the next node that no node
    has taken as its trailing space (the start of a list printed one node per line; after a node that carries no trailing
    space); it becomes a whitespace node unless the next node is a `for` (which eats it). `closeLevel` / `closeEats`: the
    indentation of the token that closes the list, and whether that token eats the white space in front of it (`} else`).
    `last`: the previous node. -/
def reNodes (start : Nat) (indent : Bool) (level : Nat) (pending : Bool) (closeLevel : Nat) (closeEats : Bool) (last : Option Node) : Nodes → Nodes
  | .nil =>
    -- white space left before the closing token: none after a `//` comment when the closing token is in column 0
    if pending && !closeEats && !(closeLevel == 0 && (match last with | some l => isLineComment l | none => true)) then .cons wsN .nil else .nil
  | .cons n rest =>
    if n.isWs then reNodes start indent level pending closeLevel closeEats last rest
    else
      let tr := sepAfter indent n rest
      let n' := reNode n tr level
      let tail := reNodes start indent (match tr with | .vert => start | _ => 0) (!isTrailer n) closeLevel closeEats (some n) rest
      if pending && !eatsLeadingWs n then .cons wsN (.cons n' tail) else .cons n' tail
def reElifs : ElseIfs → Nat → ElseIfs
  | .nil, _ => .nil
  | .cons e thn rest, level =>
    let more := match rest with | .nil => false | _ => true
    .cons e (reNodes (level + 1) true (level + 1) true level more none thn) (reElifs rest level)
def reCases : Cases → Nat → Cases
  | .nil, _ => .nil
  | .cons e b rest, level =>
    -- the next `case` / `default` eats the white space in front of it; the closing brace does not
    let more := match rest with | .nil => false | _ => true
    .cons e (reNodes (level + 2) true (level + 2) true level more none b) (reCases rest level)
end

def body (b : Nodes) : Nodes := reNodes 1 true 1 true 0 false none b

end TemplVerif.Reparse

namespace TemplVerif.Reparse
open TemplVerif TemplVerif.Ast TemplVerif.Printer

/-! ### Invariants of trees the parser builds (checked on every parsed input in the correspondence run) -/

/-- no whitespace node directly after a node that carries its own trailing space (the parser gives that white space to the node) -/
def noWsAfterTrailer : Nodes → Bool
  | .nil => true
  | .cons n rest => (match rest with | .cons m _ => !(isTrailer n && m.isWs) | .nil => true) && noWsAfterTrailer rest

mutual
def wfNode : Node → Bool
  | .element _ _ cs _ _ ic =>
    wfNodes cs && ((!cs.allWs && (ic || requireOwnLine cs)) || !inlineBreaks cs)   -- children kept on the element's line have no line break after them
  | .forE _ b => wfNodes b
  | .templEl _ b => wfNodes b
  | .ifE _ thn elifs els => wfNodes thn && wfElifs elifs && wfNodes els && (els.isNil || !els.allWs)   -- `else {` eats white space: an else branch is absent or has a node
  | .switchE _ cs => wfCases cs
  | _ => true
def wfNodes : Nodes → Bool
  | .nil => true
  | .cons n rest => wfNode n && (match rest with | .cons m _ => !(isTrailer n && m.isWs) | .nil => true) && wfNodes rest
def wfElifs : ElseIfs → Bool
  | .nil => true
  | .cons _ thn rest => wfNodes thn && wfElifs rest
def wfCases : Cases → Bool
  | .nil => true
  | .cons _ b rest => wfNodes b && wfCases rest
end

end TemplVerif.Reparse
