import TemplVerif.Base.Utf8
/-
C16 — models of what watch mode relies on: the generator escapes every static literal with strconv.Quote
(`escapeQuotes`), writes the literals to a text file joined by LF (eventhandler.go), and the running program
splits the file on LF and applies strconv.Unquote to line index-1 (runtime/watchmode.go: WriteString).
`unicode.IsPrint` is a parameter.
-/
namespace TemplVerif.Quote
open TemplVerif

def hexLower (n : Nat) : UInt8 := if n < 10 then (48 + n).toUInt8 else (87 + n).toUInt8

def hexN (digits : Nat) (v : Nat) : Bytes :=
  (List.range digits).reverse.map fun i => hexLower ((v / 16 ^ i) % 16)

/-- `appendEscapedRune` for quote '"' with ASCIIonly = false, graphicOnly = false. -/
def escapedRune (isPrint : Nat → Bool) (r : Nat) (raw : Bytes) : Bytes :=
  if r == 34 || r == 92 then [92, r.toUInt8]
  else if isPrint r then raw
  else if r == 7 then [92, 97] else if r == 8 then [92, 98] else if r == 12 then [92, 102]
  else if r == 10 then [92, 110] else if r == 13 then [92, 114] else if r == 9 then [92, 116] else if r == 11 then [92, 118]
  else if r < 32 || r == 127 then [92, 120] ++ hexN 2 r
  else if r < 0x10000 then [92, 117] ++ hexN 4 r
  else [92, 85] ++ hexN 8 r

/-- The body of `strconv.Quote(s)` (without the surrounding quotes): `escapeQuotes`. -/
def quoteAux (isPrint : Nat → Bool) : Nat → Bytes → Bytes
  | 0, _ => []
  | _, [] => []
  | fuel + 1, s@(b :: _) =>
    let (r, w) := Utf8.decodeRune s
    let w := max w 1
    (if r == Utf8.runeError && w == 1 then [92, 120] ++ hexN 2 b.toNat      -- invalid byte: \xHH
     else escapedRune isPrint r (s.take w)) ++ quoteAux isPrint fuel (s.drop w)

def quote (isPrint : Nat → Bool) (s : Bytes) : Bytes := quoteAux isPrint s.length s

def hexVal (b : UInt8) : Option Nat :=
  if 48 ≤ b && b ≤ 57 then some (b.toNat - 48)
  else if 97 ≤ b && b ≤ 102 then some (b.toNat - 87)
  else if 65 ≤ b && b ≤ 70 then some (b.toNat - 55)
  else none

def hexDigits : Nat → Nat → Bytes → Option (Nat × Bytes)
  | 0, acc, rest => some (acc, rest)
  | n + 1, acc, b :: rest => (hexVal b).bind fun v => hexDigits n (acc * 16 + v) rest
  | _ + 1, _, [] => none

/-- `strconv.Unquote("\"" ++ body ++ "\"")` for the escape forms Go accepts in interpreted string literals;
    a raw `"` or LF is a syntax error. `\x` yields a byte, `\u`/`\U` the UTF-8 encoding of the code point. -/
def unquoteAux : Nat → Bytes → Option Bytes
  | 0, [] => some []
  | 0, _ => none
  | _, [] => some []
  | fuel + 1, b :: rest =>
    if b == 34 || b == 10 then none
    else if b == 92 then
      match rest with
      | [] => none
      | e :: rest' =>
        let simple (c : UInt8) := (unquoteAux fuel rest').map (c :: ·)
        if e == 97 then simple 7 else if e == 98 then simple 8 else if e == 102 then simple 12
        else if e == 110 then simple 10 else if e == 114 then simple 13 else if e == 116 then simple 9
        else if e == 118 then simple 11 else if e == 92 then simple 92 else if e == 34 then simple 34
        else if e == 120 then
          (hexDigits 2 0 rest').bind fun (v, r) => (unquoteAux fuel r).map (v.toUInt8 :: ·)
        else if e == 117 then
          (hexDigits 4 0 rest').bind fun (v, r) =>
            if 0xD800 ≤ v && v < 0xE000 then none else (unquoteAux fuel r).map (Utf8.encodeRune v ++ ·)
        else if e == 85 then
          (hexDigits 8 0 rest').bind fun (v, r) =>
            if v > 0x10FFFF || (0xD800 ≤ v && v < 0xE000) then none else (unquoteAux fuel r).map (Utf8.encodeRune v ++ ·)
        else none
    else (unquoteAux fuel rest).map (b :: ·)

def unquote (body : Bytes) : Option Bytes := unquoteAux body.length body

/-- The development text file for a template's literals (already quoted by the generator). -/
def textFile (quotedLiterals : List Bytes) : Bytes := joinLF quotedLiterals

/-- `runtime.WriteString(w, index, _)` in development mode: line `index-1` of the file, unquoted. -/
def devLiteral (file : Bytes) (index : Nat) : Option Bytes :=
  if index == 0 then none else
  match (splitLF file)[index - 1]? with
  | some line => unquote line
  | none => none

end TemplVerif.Quote
