import TemplVerif.Generated.Skeletons
import TemplVerif.Spec.HtmlTok
import TemplVerif.Model.Attrs
import TemplVerif.Proofs.Html
import TemplVerif.Model.Sinks
import TemplVerif.Proofs.Compose
/-
C01 — interpolated strings never change HTML structure (text and attribute contexts).
`Html.escape` models templ.EscapeString; `HtmlTok` is the tokenizer specification.
-/
namespace TemplVerif.Props.C01
open TemplVerif TemplVerif.Html TemplVerif.HtmlTok TemplVerif.Attrs

/-- The escaper's output contains no `<`, `>`, `"` or `'` — for every byte string (invalid UTF-8 included). -/
theorem C01_escape_noStructural (s : Bytes) : ∀ b ∈ escape s, structural b = false :=
  Proofs.Html.escape_noStructural s

/-- The browser's character-reference decoding gives the original string back, verbatim. -/
theorem C01_decode_escape (s : Bytes) : decodeRefs (escape s) = s := Proofs.Html.decode_escape s

/-- …and does so whatever static markup follows the hole. -/
theorem C01_decode_escape_append (s rest : Bytes) : decodeRefs (escape s ++ rest) = s ++ decodeRefs rest :=
  Proofs.Html.decode_escape_append s rest

/-- Text sink: wherever the tokenizer is in the data state, an escaped string is consumed entirely as
    character data and leaves the tokenizer in the data state: no tag can start or end inside it. -/
theorem C01_hole_data (σ : S) (hσ : σ.st = .data) (s : Bytes) :
    run σ (escape s) = { σ with text := σ.text ++ escape s } := Proofs.Html.hole_data σ hσ s

/-- Attribute sink: inside a double-quoted value an escaped string only extends the value. -/
theorem C01_hole_attr (σ : S) (hσ : σ.st = .attrDQ) (s : Bytes) :
    run σ (escape s) = { σ with av := σ.av ++ escape s } := Proofs.Html.hole_attrDQ σ hσ s

/-- A whole document `pre ++ escape s ++ post` whose static prefix ends in the data state tokenizes as the
    static markup does, with the string's bytes added to the current text run. -/
theorem C01_text_sink (pre s post : Bytes) (h : (run {} pre).st = .data) :
    run {} (pre ++ escape s ++ post) =
      run { run {} pre with text := (run {} pre).text ++ escape s } post := by
  simp only [run, List.foldl_append]
  have := Proofs.Html.hole_data (run {} pre) h s
  simp only [run] at this
  rw [this]

/-- Spread attributes, string-valued forms: ` name="` ++ escape v ++ `"` adds exactly the attribute (name, v). -/
theorem C01_spread_value (σ : S) (hσ : σ.st = .beforeAttrName ∨ σ.st = .tagName ∨ σ.st = .afterAttrValueQ)
    (hna : σ.st = .tagName → σ.hasAttr = false)
    (name v : Bytes) (hn : Proofs.Html.niceName name = true) :
    run σ (valued name v) =
      { finishAttr σ with st := .afterAttrValueQ, attrs := (finishAttr σ).attrs ++ [(name, v)],
                          an := [], av := [], hasAttr := false } :=
  Proofs.Html.attr_valued_tokens σ hσ hna name v hn

/-- JSON script element: id, type and nonce arrive as the values of exactly those three attributes. -/
theorem C01_jsonscript_open (id type nonce : Bytes) :
    (run {} (jsonScriptOpen id type nonce)).out =
      [Token.startTag [115, 99, 114, 105, 112, 116]
        ((if id.isEmpty then [] else [([105, 100], id)]) ++
         (if type.isEmpty then [] else [([116, 121, 112, 101], type)]) ++
         (if nonce.isEmpty then [] else [([110, 111, 110, 99, 101], nonce)])) false] :=
  Proofs.Html.jsonScriptOpen_tokens id type nonce

/-- T1: every place where the generator emits code that writes a dynamic value to the output buffer
    (list regenerated from generator.go on every run) passes the value through templ.EscapeString, except the
    two script positions that belong to C03. A new or edited sink that does not escape breaks this theorem. -/
theorem C01_sinks_wired : Generated.sinks.all Sinks.sinkOK = true := by decide

/-- …and outside those two script functions every sink is HTML-escaped. -/
theorem C01_html_sinks_escaped :
    (Generated.sinks.filter fun s => s.fn != Sinks.fnScriptAttr && s.fn != Sinks.fnScriptContents).all
      Sinks.isHtmlEscaped = true := by decide

/-- The sink list is not empty (the extractor found the generator's write sites). -/
theorem C01_sinks_found : 4 ≤ (Generated.sinks.filter Sinks.isHtmlEscaped).length := by decide

/-- Non-vacuity: `<p title="` leaves the tokenizer in the double-quoted value state, `<p>` in data. -/
example : (run {} [60, 112, 32, 116, 105, 116, 108, 101, 61, 34]).st = .attrDQ := by decide
example : (run {} [60, 112, 62]).st = .data := by decide
example : tokenize ([60, 112, 62] ++ escape [60, 98, 62, 38, 34] ++ [60, 47, 112, 62]) =
    [.startTag [112] [] false, .text [60, 98, 62, 38, 34], .endTag [112]] := by decide

/-! ## Composition: whole templates

The theorems above are about one hole. `C01_compose` puts them together over the template semantics of C02
(`Denote`, which the generator model refines and the real generated code is compared with on every run): for EVERY
template body of the markup fragment and EVERY environment — every string value, every boolean, every iteration —
whose rendering does not fail, the tokenizer reads the rendered bytes as exactly the token stream the author wrote
(`Expect.tokens`: the template's tags and attributes in order; each interpolated string verbatim inside its text run
or as its attribute's whole value). -/
theorem C01_compose (body : Ast.Nodes) (env : Sem.Env) (hf : Expect.nodesOK body = true)
    (hok : (Denote.run body env).err = false) :
    tokenize (Denote.run body env).out = Expect.tokens body env :=
  Proofs.Compose.compose true body env hf hok

/-- The same for the reading that announces unreached class / script expressions (today's generator, C02). -/
theorem C01_compose_hoistAll (body : Ast.Nodes) (env : Sem.Env) (hf : Expect.nodesOK body = true)
    (hok : (Denote.runHoistAll body env).err = false) :
    tokenize (Denote.runHoistAll body env).out = Expect.tokens body env :=
  Proofs.Compose.compose false body env hf hok

/-- Static text that does not stop inside a character reference decodes the same whatever follows it: the
    hypothesis `textOK` of the fragment is what makes a following string appear verbatim. -/
theorem C01_static_text_closed (v w : Bytes) (h : Expect.openRef false v = false) :
    decodeRefs (v ++ w) = decodeRefs v ++ decodeRefs w := Proofs.Compose.decode_append_closed v w h

/-- Non-vacuity: `<p title={ s } hidden?={ c }>a&amp;b { s }<br></p>` is in the fragment, and with s = `<"&`
    the tokenizer reads the author's tags with the string verbatim twice. -/
def sample : Ast.Nodes :=
  .cons (.element [112] (.cons (.expr [116, 105, 116, 108, 101] [115]) (.cons (.boolExpr [104, 105, 100, 100, 101, 110] [99]) .nil))
    (.cons (.text [97, 38, 97, 109, 112, 59, 98] .horiz) (.cons (.strExpr [115] .none)
      (.cons (.element [98, 114] .nil .nil .none false false) .nil))) .none false false) .nil
def sampleEnv : Sem.Env :=
  [([115], { keys := [], val := .str [60, 34, 38] false }), ([99], { keys := [], val := .bool true })]
example : Expect.nodesOK sample = true := by decide
example : (Denote.run sample sampleEnv).err = false := by decide
example : Expect.tokens sample sampleEnv =
    [.startTag [112] [([116, 105, 116, 108, 101], [60, 34, 38]), ([104, 105, 100, 100, 101, 110], [])] false,
     .text [97, 38, 98, 32, 60, 34, 38], .startTag [98, 114] [] false, .endTag [112]] := by decide

/-- Why `textOK` is a hypothesis (known finding `text;static-ampersand-before-hole`): in `<p>&{ s }</p>` the static
    text stops inside a character reference, and the string `lt;` completes it — the tokenizer reads the text `<`,
    not `&lt;`. The tags are unchanged, but the string does not appear verbatim. -/
def ampBody : Ast.Nodes :=
  .cons (.element [112] .nil (.cons (.text [38] .none) (.cons (.strExpr [115] .none) .nil)) .none false false) .nil
def ampEnv : Sem.Env := [([115], { keys := [], val := .str [108, 116, 59] false })]
theorem C01_static_ampersand_counterexample :
    Expect.nodesOK ampBody = false ∧ (Denote.run ampBody ampEnv).err = false ∧
    tokenize (Denote.run ampBody ampEnv).out = [.startTag [112] [] false, .text [60], .endTag [112]] ∧
    Expect.tokens ampBody ampEnv = [.startTag [112] [] false, .text [38, 108, 116, 59], .endTag [112]] := by decide

-- BEGIN transcription pins (written by tools/mkpins.py)
/-- T1, transcription pins: the control structure and calls (extract/skeleton.go) of the functions whose models
    were written by hand are the ones the models were transcribed from:
      runtime.go EscapeString
      runtime.go RenderAttributes
    A change of what one of them calls or how it branches breaks this theorem; the check then searches for a
    failing input and reports either that or `no-failing-input-found`. -/
theorem C01_transcription_pinned :
    Generated.skel_runtime_EscapeString = 4683905811979264117 ∧
    Generated.skel_runtime_RenderAttributes = 16485106523478347716 := by decide
-- END transcription pins

end TemplVerif.Props.C01
