import TemplVerif.Generated.Skeletons
import TemplVerif.Model.Reparse
import TemplVerif.Proofs.Printer
/-
C09 — formatting is idempotent.

`templ fmt` is print ∘ parse. On the FRAGMENT modelled (every node and attribute kind except script / raw elements and
`{{ }}` blocks; Go expressions single gofmt-stable lines without comments; constant attribute values that need no
re-escaping) `Printer.body` is the printer byte for byte, and `Reparse.body` is parse ∘ print as a function of the tree —
both checked against the real formatter and the real parser on every run. Proved, for EVERY tree of the fragment that
satisfies the invariants of parser-built trees (`wfNodes`, itself checked on every parsed input):
    print (parse (print t)) = print t,
i.e. fmt (fmt x) = fmt x, and the re-parsed tree satisfies the invariants again.
Outside the fragment idempotence is checked on the implementation only (fmt(fmt x) = fmt x on every input).
-/
namespace TemplVerif.Props.C09
open TemplVerif TemplVerif.Ast TemplVerif.Printer TemplVerif.Reparse

theorem C09_print_reparse (b : Nodes) (hf : nodesInFragment b = true) (hw : wfNodes b = true) :
    Printer.body (Reparse.body b) = Printer.body b :=
  Proofs.Printer.print_reparse b hf hw

theorem C09_wf_reparse (b : Nodes) (hf : nodesInFragment b = true) (hw : wfNodes b = true) :
    wfNodes (Reparse.body b) = true ∧ nodesInFragment (Reparse.body b) = true :=
  Proofs.Printer.wf_reparse b hf hw

/-- Every later pass is a fixed point as well. -/
theorem C09_stable (b : Nodes) (hf : nodesInFragment b = true) (hw : wfNodes b = true) :
    Printer.body (Reparse.body (Reparse.body b)) = Printer.body b := by
  obtain ⟨hw', hf'⟩ := C09_wf_reparse b hf hw
  rw [C09_print_reparse _ hf' hw', C09_print_reparse b hf hw]

/-- Non-vacuity: `<div><b>x</b> if c {⏎y⏎}</div>` as the parser builds it from a one-line spelling — the printer
    breaks the line before the `if`, re-parsing records the break, and printing again gives the same 44 bytes. -/
example :
    let t : Nodes := .cons (.element [100, 105, 118] .nil
        (.cons (.element [98] .nil (.cons (.text [120] .none) .nil) .horiz false false)
          (.cons (.ifE [99] (.cons (.ws [10]) (.cons (.text [121] .vert) .nil)) .nil .nil) .nil)) .vert false true) .nil
    nodesInFragment t = true ∧ wfNodes t = true ∧ (Printer.body t).length = 44 ∧
    Reparse.body t ≠ t ∧ Printer.body (Reparse.body t) = Printer.body t := by
  decide

-- BEGIN transcription pins (written by tools/mkpins.py)
/-- T1, transcription pins: the control structure and calls (extract/skeleton.go) of the functions whose models
    were written by hand are the ones the models were transcribed from:
      parser/v2/types.go BoolConstantAttribute.Write
      parser/v2/types.go BoolExpressionAttribute.Write
      parser/v2/types.go CSSTemplate.Write
      parser/v2/types.go CallTemplateExpression.Write
      parser/v2/types.go ChildrenExpression.Write
      parser/v2/types.go ConditionalAttribute.Write
      parser/v2/types.go ConstantAttribute.Write
      parser/v2/types.go ConstantCSSProperty.Write
      parser/v2/types.go DocType.Write
      parser/v2/types.go Element.Write
      parser/v2/types.go ExpressionAttribute.Write
      parser/v2/types.go ExpressionCSSProperty.Write
      parser/v2/types.go ForExpression.Write
      parser/v2/types.go GoCode.Write
      parser/v2/types.go GoComment.Write
      parser/v2/types.go HTMLComment.Write
      parser/v2/types.go HTMLTemplate.Write
      parser/v2/types.go IfExpression.Write
      parser/v2/types.go Package.Write
      parser/v2/types.go RawElement.Write
      parser/v2/types.go ScriptElement.Write
      parser/v2/types.go ScriptTemplate.Write
      parser/v2/types.go SpreadAttributes.Write
      parser/v2/types.go StringExpression.Write
      parser/v2/types.go SwitchExpression.Write
      parser/v2/types.go TemplElementExpression.Write
      parser/v2/types.go TemplateFile.Write
      parser/v2/types.go TemplateFileGoExpression.Write
      parser/v2/types.go Text.Write
      parser/v2/types.go Whitespace.Write
    A change of what one of them calls or how it branches breaks this theorem; the check then searches for a
    failing input and reports either that or `no-failing-input-found`. -/
theorem C09_transcription_pinned :
    Generated.skel_fmt_BoolConstantAttribute = 17964454261460013838 ∧
    Generated.skel_fmt_BoolExpressionAttribute = 11243877805884256764 ∧
    Generated.skel_fmt_CSSTemplate = 10486559759305371780 ∧
    Generated.skel_fmt_CallTemplateExpression = 4754677790992354005 ∧
    Generated.skel_fmt_ChildrenExpression = 8973048098999815633 ∧
    Generated.skel_fmt_ConditionalAttribute = 2131278597794675548 ∧
    Generated.skel_fmt_ConstantAttribute = 17190133187334056934 ∧
    Generated.skel_fmt_ConstantCSSProperty = 9028660431953749041 ∧
    Generated.skel_fmt_DocType = 2337572934743534415 ∧
    Generated.skel_fmt_Element = 15653131509271426703 ∧
    Generated.skel_fmt_ExpressionAttribute = 15138201634416348715 ∧
    Generated.skel_fmt_ExpressionCSSProperty = 17518302242369419524 ∧
    Generated.skel_fmt_ForExpression = 1342625959466410837 ∧
    Generated.skel_fmt_GoCode = 5520114962642325106 ∧
    Generated.skel_fmt_GoComment = 2865620347699289652 ∧
    Generated.skel_fmt_HTMLComment = 2337572934743534415 ∧
    Generated.skel_fmt_HTMLTemplate = 12553196804296595469 ∧
    Generated.skel_fmt_IfExpression = 3942449742783697541 ∧
    Generated.skel_fmt_Package = 2337572934743534415 ∧
    Generated.skel_fmt_RawElement = 11505227016490775874 ∧
    Generated.skel_fmt_ScriptElement = 8089826004982831993 ∧
    Generated.skel_fmt_ScriptTemplate = 10019798481422971980 ∧
    Generated.skel_fmt_SpreadAttributes = 15030267648810377398 ∧
    Generated.skel_fmt_StringExpression = 8810321671428492873 ∧
    Generated.skel_fmt_SwitchExpression = 11736646981924421930 ∧
    Generated.skel_fmt_TemplElementExpression = 17089425217095634118 ∧
    Generated.skel_fmt_TemplateFile = 8684252644459683408 ∧
    Generated.skel_fmt_TemplateFileGoExpression = 15670954479218328045 ∧
    Generated.skel_fmt_Text = 2337572934743534415 ∧
    Generated.skel_fmt_Whitespace = 13121865947735479079 := by decide
-- END transcription pins

end TemplVerif.Props.C09
