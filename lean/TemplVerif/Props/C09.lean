/- C09 — property theorems are added when the printer / reparse model lands; until then this property is not claimed. -/
namespace TemplVerif.Props.C09
end TemplVerif.Props.C09
