import TemplVerif.Model.Reparse
import TemplVerif.Proofs.Printer
/-
C09 — formatting is idempotent.

`templ fmt` is print ∘ parse. On the FRAGMENT modelled (every node and attribute kind except script / raw elements and
`{{ }}` blocks; Go expressions single gofmt-stable lines without comments; constant attribute values that need no
re-escaping) `Printer.body` is the printer byte for byte, and `Reparse.body` is parse ∘ print as a function of the tree —
both checked against the real formatter and the real parser on every run. Proved, for EVERY tree of the fragment that
satisfies the invariants of parser-built trees (`wfNodes`, itself checked on every parsed input):
    print (parse (print t)) = print t,
i.e. fmt (fmt x) = fmt x, and the re-parsed tree satisfies the invariants again.
Outside the fragment idempotence is checked on the implementation only (fmt(fmt x) = fmt x on every input).
-/
namespace TemplVerif.Props.C09
open TemplVerif TemplVerif.Ast TemplVerif.Printer TemplVerif.Reparse

theorem C09_print_reparse (b : Nodes) (hf : nodesInFragment b = true) (hw : wfNodes b = true) :
    Printer.body (Reparse.body b) = Printer.body b :=
  Proofs.Printer.print_reparse b hf hw

theorem C09_wf_reparse (b : Nodes) (hf : nodesInFragment b = true) (hw : wfNodes b = true) :
    wfNodes (Reparse.body b) = true ∧ nodesInFragment (Reparse.body b) = true :=
  Proofs.Printer.wf_reparse b hf hw

/-- Every later pass is a fixed point as well. -/
theorem C09_stable (b : Nodes) (hf : nodesInFragment b = true) (hw : wfNodes b = true) :
    Printer.body (Reparse.body (Reparse.body b)) = Printer.body b := by
  obtain ⟨hw', hf'⟩ := C09_wf_reparse b hf hw
  rw [C09_print_reparse _ hf' hw', C09_print_reparse b hf hw]

/-- Non-vacuity: `<div><b>x</b> if c {⏎y⏎}</div>` as the parser builds it from a one-line spelling — the printer
    breaks the line before the `if`, re-parsing records the break, and printing again gives the same 44 bytes. -/
example :
    let t : Nodes := .cons (.element [100, 105, 118] .nil
        (.cons (.element [98] .nil (.cons (.text [120] .none) .nil) .horiz false false)
          (.cons (.ifE [99] (.cons (.ws [10]) (.cons (.text [121] .vert) .nil)) .nil .nil) .nil)) .vert false true) .nil
    nodesInFragment t = true ∧ wfNodes t = true ∧ (Printer.body t).length = 44 ∧
    Reparse.body t ≠ t ∧ Printer.body (Reparse.body t) = Printer.body t := by
  decide

end TemplVerif.Props.C09
