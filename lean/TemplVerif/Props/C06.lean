import TemplVerif.Model.Pos
import TemplVerif.Proofs.Pos
/-
C06 — the parser is total and every recorded position is faithful to the source.
What Lean proves: the position arithmetic (`PositionAt`), clamping, and the progress argument the parser's loops rely
on. The hypotheses of the progress argument and the absence of panics in ~3000 lines of parser combinators on top of
go/parser are MONITORED on explored inputs (correspondence run), not proved.
-/
namespace TemplVerif.Props.C06
open TemplVerif TemplVerif.Pos

theorem C06_positionAt (src : Bytes) (i : Nat) (h : i ≤ src.length) :
    positionAt src i = ⟨i, lineOf src i, i - lineStart src i⟩ := Proofs.Pos.positionAt_spec src i h

theorem C06_clamp (start stop len : Nat) :
    (clamp start stop len).1 ≤ (clamp start stop len).2 ∧ (clamp start stop len).2 ≤ len :=
  Proofs.Pos.clamp_ordered start stop len

/-- If every loop iteration stops or strictly advances an index bounded by the input length, the loop ends within
    length + 1 iterations: the parser cannot hang as long as "matched ⇒ advanced" holds for every node parser. -/
theorem C06_progress (step : Nat → Option Nat) (len : Nat)
    (hadv : ∀ i j, step i = some j → i < j ∧ j ≤ len) (i : Nat) (hi : i ≤ len) :
    Proofs.Pos.iter step (len - i + 1) i = none := Proofs.Pos.loop_terminates step len hadv i hi

/-- Positions obtained by walking over text that is present stay consistent with `PositionAt` (line, column and
    index agree) — for every source and every expression text. -/
theorem C06_walk_consistent (S : Bytes) (p : Pos) (v : Bytes) (hp : positionAt S p.index = p)
    (hv : List.isPrefixOf v (S.drop p.index) = true) :
    positionAt S (p.index + v.length) = advance p v := Proofs.Pos.advance_positionAt S p v hp hv

/-- Non-vacuity: a two-line source with a multi-byte character before the position. -/
example : positionAt [195, 169, 10, 97, 98] 4 = ⟨4, 1, 1⟩ ∧ rangeFaithful [195, 169, 10, 97, 98] [97, 98] ⟨3, 1, 0⟩ ⟨5, 1, 2⟩ = true := by decide

end TemplVerif.Props.C06
