import TemplVerif.Generated.Skeletons
import TemplVerif.Model.Pos
import TemplVerif.Proofs.Pos
/-
C06 — the parser is total and every recorded position is faithful to the source.
What Lean proves: the position arithmetic (`PositionAt`), clamping, and the progress argument the parser's loops rely
on. The hypotheses of the progress argument and the absence of panics in ~3000 lines of parser combinators on top of
go/parser are MONITORED on explored inputs (correspondence run), not proved.
-/
namespace TemplVerif.Props.C06
open TemplVerif TemplVerif.Pos

theorem C06_positionAt (src : Bytes) (i : Nat) (h : i ≤ src.length) :
    positionAt src i = ⟨i, lineOf src i, i - lineStart src i⟩ := Proofs.Pos.positionAt_spec src i h

theorem C06_clamp (start stop len : Nat) :
    (clamp start stop len).1 ≤ (clamp start stop len).2 ∧ (clamp start stop len).2 ≤ len :=
  Proofs.Pos.clamp_ordered start stop len

/-- If every loop iteration stops or strictly advances an index bounded by the input length, the loop ends within
    length + 1 iterations: the parser cannot hang as long as "matched ⇒ advanced" holds for every node parser. -/
theorem C06_progress (step : Nat → Option Nat) (len : Nat)
    (hadv : ∀ i j, step i = some j → i < j ∧ j ≤ len) (i : Nat) (hi : i ≤ len) :
    Proofs.Pos.iter step (len - i + 1) i = none := Proofs.Pos.loop_terminates step len hadv i hi

/-- Positions obtained by walking over text that is present stay consistent with `PositionAt` (line, column and
    index agree) — for every source and every expression text. -/
theorem C06_walk_consistent (S : Bytes) (p : Pos) (v : Bytes) (hp : positionAt S p.index = p)
    (hv : List.isPrefixOf v (S.drop p.index) = true) :
    positionAt S (p.index + v.length) = advance p v := Proofs.Pos.advance_positionAt S p v hp hv

/-- Non-vacuity: a two-line source with a multi-byte character before the position. -/
example : positionAt [195, 169, 10, 97, 98] 4 = ⟨4, 1, 1⟩ ∧ rangeFaithful [195, 169, 10, 97, 98] [97, 98] ⟨3, 1, 0⟩ ⟨5, 1, 2⟩ = true := by decide

-- BEGIN transcription pins (written by tools/mkpins.py)
/-- T1, transcription pins: the control structure and calls (extract/skeleton.go) of the functions whose models
    were written by hand are the ones the models were transcribed from:
      parser/v2/goexpression/parse.go Case
      parser/v2/goexpression/parse.go Expression
      parser/v2/goexpression/parse.go For
      parser/v2/goexpression/parse.go Func
      parser/v2/goexpression/parse.go If
      parser/v2/goexpression/parse.go SliceArgs
      parser/v2/goexpression/parse.go Switch
      parser/v2/goexpression/parse.go TemplExpression
      parser/v2/goexpression/parse.go extract
      parser/v2/goexpression/parse.go inspectFirstNode
      parser/v2/goexpression/parse.go latestEnd
    A change of what one of them calls or how it branches breaks this theorem; the check then searches for a
    failing input and reports either that or `no-failing-input-found`. -/
theorem C06_transcription_pinned :
    Generated.skel_goexpr_Case = 2955674906157066679 ∧
    Generated.skel_goexpr_Expression = 449158004508312845 ∧
    Generated.skel_goexpr_For = 8530175418073697186 ∧
    Generated.skel_goexpr_Func = 4044167872632773897 ∧
    Generated.skel_goexpr_If = 9641853314815885700 ∧
    Generated.skel_goexpr_SliceArgs = 3087669176266588865 ∧
    Generated.skel_goexpr_Switch = 14403750837434080194 ∧
    Generated.skel_goexpr_TemplExpression = 10106973490070043467 ∧
    Generated.skel_goexpr_extract = 12086399404637510207 ∧
    Generated.skel_goexpr_inspectFirstNode = 7620468491175133498 ∧
    Generated.skel_goexpr_latestEnd = 14364505304721028528 := by decide
-- END transcription pins

end TemplVerif.Props.C06
