import TemplVerif.Generated.Skeletons
import TemplVerif.Model.Pool
import TemplVerif.Proofs.Pool
/-
C14 — concurrent renders are isolated.
Proved: schedule independence at the granularity of the modelled steps (a goroutine owns its buffer between get and
put; a pooled buffer contributes only its capacity, by C10_pool). Data-race freedom under the Go memory model is a
property of the compiled program: it is checked with the race detector in the correspondence run, not proved.
-/
namespace TemplVerif.Props.C14
open TemplVerif TemplVerif.Buf TemplVerif.Pool

/-- For EVERY interleaving of any number of goroutines, every choice of which pooled buffer each one is handed,
    and every state earlier (possibly failed) renders left those buffers in: a goroutine that has finished got
    exactly what it gets when it renders alone with a fresh buffer — same bytes at its writer, same error. -/
theorem C14_isolated (cap : Nat) (pool : List BW) (hp : ∀ b ∈ pool, b.cap = cap)
    (threads : List Thread) (hfresh : ∀ th ∈ threads, th.holding = none ∧ th.result = none)
    (acts : List Act) (t : Nat) (th : Thread) (r : Under × RErr)
    (ht : (run { cap := cap, pool := pool, threads := threads } acts).threads[t]? = some th)
    (hr : th.result = some r) :
    r = alone cap th := by
  have hwf : WellFormed { cap := cap, pool := pool, threads := threads } := by
    refine ⟨hp, ?_, ?_⟩
    · intro th hth b hb; simp [(hfresh th hth).1] at hb
    · intro th hth r hr; simp [(hfresh th hth).2] at hr
  obtain ⟨⟨_, _, h3⟩, hcap⟩ := Proofs.Pool.run_wf _ acts hwf
  have hmem : th ∈ (run { cap := cap, pool := pool, threads := threads } acts).threads := List.mem_of_getElem? ht
  have := h3 th hmem r hr
  simpa [hcap] using this

/-- Non-vacuity: two goroutines, the first with a failing writer; the second is handed the buffer the first one
    left behind and still renders its full document. -/
example :
    let w := run { cap := 4, pool := [], threads := [{ ops := [.write [1, 2, 3, 4, 5, 6]], writer := { limit := some 2 } },
                                                     { ops := [.write [7, 8, 9]], writer := {} }] }
      [.get 0 0, .renderPut 0, .get 1 0, .renderPut 1]
    (w.threads.map (·.result.map (fun r => (r.1.accepted, r.2)))) = [some ([1, 2], .writer), some ([7, 8, 9], .none)] := by decide

-- BEGIN transcription pins (written by tools/mkpins.py)
/-- T1, transcription pins: the control structure and calls (extract/skeleton.go) of the functions whose models
    were written by hand are the ones the models were transcribed from:
      runtime/buffer.go Buffer.Reset
      runtime/bufferpool.go GetBuffer
      runtime/bufferpool.go ReleaseBuffer
    A change of what one of them calls or how it branches breaks this theorem; the check then searches for a
    failing input and reports either that or `no-failing-input-found`. -/
theorem C14_transcription_pinned :
    Generated.skel_buffer_Reset = 11902779909231066397 ∧
    Generated.skel_pool_GetBuffer = 9516455317887111451 ∧
    Generated.skel_pool_ReleaseBuffer = 6290261172033971419 := by decide
-- END transcription pins

end TemplVerif.Props.C14
