import TemplVerif.Generated.Skeletons
import TemplVerif.Model.Children
/-
C13 — a component receives exactly the child block passed at its call site.
`Children.exec` models the code (context value with a children slot; WithChildren derives a value; GetChildren's
component renders the block with an empty slot); `Children.denote` is the specification in which children are an
explicit parameter. Call trees range over the fixture combinators, which cover every generated call shape.
-/
namespace TemplVerif.Props.C13
open TemplVerif TemplVerif.Children

theorem exec_eq_denote_aux (fuel : Nat) :
    (∀ t kids o, exec fuel t { children := kids, onces := o } = denote fuel t kids o) ∧
    (∀ k o, slot fuel k o = denoteSlot fuel k o) := by
  induction fuel with
  | zero =>
    constructor
    · intro t kids o; simp [exec, denote]
    · intro k o; cases k <;> simp [slot, denoteSlot]
  | succ n ih =>
    obtain ⟨ihE, ihS⟩ := ih
    constructor
    · intro t kids o
      cases t with
      | use n => simp [exec, denote, ihS]
      | ignore n => simp [exec, denote]
      | twice n => simp [exec, denote, ihS]
      | noBlock x => simp [exec, denote, ihE]
      | withBlock x m inner => simp [exec, denote, ihE]
      | forward x => simp [exec, denote, ihE]
      | seq a b => simp [exec, denote, ihE]
      | once h fixed =>
        cases fixed with
        | none => simp [exec, denote, ihS]
        | some f => simp [exec, denote, ihE]
      | flush => simp [exec, denote, ihS]
      | join a b => simp [exec, denote, ihE]
      | handIgnore n => simp [exec, denote]
      | handChildren => simp [exec, denote, ihS]
    · intro k o
      cases k with
      | none => simp [slot, denoteSlot]
      | some cl =>
        cases cl with
        | block m inner => simp [slot, denoteSlot, ihE]
        | fwd lex => simp [slot, denoteSlot, ihS]

/-- For EVERY call tree (any nesting of calls with and without blocks, callees that use, ignore or repeat their
    slot, Once / Flush / Join / function components as callee or intermediate layer, siblings after a call that did
    not consume its block) the context-based code renders exactly what explicit parameter passing denotes:
    each callee sees its own call site's block and nothing else. -/
theorem C13_main (fuel : Nat) (t : Term) (kids : Option Closure) (o : List Nat) :
    exec fuel t { children := kids, onces := o } = denote fuel t kids o :=
  (exec_eq_denote_aux fuel).1 t kids o

/-- Calling a component without a block gives it no children, whatever block the caller itself received. -/
theorem C13_noblock (fuel : Nat) (x : Term) (kids : Option Closure) (o : List Nat) :
    denote (fuel + 1) (.noBlock x) kids o = denote (fuel + 1) (.noBlock x) none o := by
  simp [denote]

/-- A sibling rendered after a call with a block does not see that block, even when the callee ignored it. -/
theorem C13_sibling (fuel : Nat) (c : Term) (m : Nat) (inner b : Term) (o : List Nat) :
    (denote (fuel + 2) (.seq (.withBlock c m inner) b) none o).2.1 =
      (denote (fuel + 1) (.withBlock c m inner) none o).2.1 ++
      (denote (fuel + 1) b none (denote (fuel + 1) (.withBlock c m inner) none o).1).2.1 := by
  simp [denote]

/-- A block is rendered with an empty slot: a block-less call inside it does not receive the block itself
    (before the repair `@templ.Flush() { @templ.Flush() }` recursed without bound). -/
example : (exec 8 (.withBlock .flush 1 .flush) {}).2.1 = lit "<wb>" ++ tag "m" 1 ++ lit "</wb>" := by
  simp [exec, slot]

-- BEGIN transcription pins (written by tools/mkpins.py)
/-- T1, transcription pins: the control structure and calls (extract/skeleton.go) of the functions whose models
    were written by hand are the ones the models were transcribed from:
      flush.go FlushComponent.Render
      generator/generator.go generator.writeBlockTemplElementExpression
      generator/generator.go generator.writeCallTemplateExpression
      generator/generator.go generator.writeChildrenExpression
      generator/generator.go generator.writeTemplElementExpression
      join.go Join
      runtime.go ClearChildren
      runtime.go GetChildren
      runtime.go WithChildren
    A change of what one of them calls or how it branches breaks this theorem; the check then searches for a
    failing input and reports either that or `no-failing-input-found`. -/
theorem C13_transcription_pinned :
    Generated.skel_flush_Render = 5949231320098095056 ∧
    Generated.skel_gen_writeBlockTemplElementExpression = 11326746197513157036 ∧
    Generated.skel_gen_writeCallTemplateExpression = 9594183451043399340 ∧
    Generated.skel_gen_writeChildrenExpression = 351564412331989652 ∧
    Generated.skel_gen_writeTemplElementExpression = 561756907016755889 ∧
    Generated.skel_join_Join = 2710727602932544168 ∧
    Generated.skel_rt_ClearChildren = 13265255789325131257 ∧
    Generated.skel_rt_GetChildren = 7574763116782928735 ∧
    Generated.skel_rt_WithChildren = 16854738734032380008 := by decide
-- END transcription pins

end TemplVerif.Props.C13
