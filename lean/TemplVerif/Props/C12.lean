import TemplVerif.Generated.Skeletons
import TemplVerif.Model.Registry
import TemplVerif.Proofs.Registry
import TemplVerif.Proofs.Prefix
/-
C12 — scripts, CSS classes and once-blocks are emitted once per context, before use.
-/
namespace TemplVerif.Props.C12
open TemplVerif.Registry

/-- At most once per context — for every sequence of uses, of any length and order, through any container form. -/
theorem C12_once (uses : List Use) (c : Ctx) (x : Nat) :
    defsOfScript x (run c uses).2 ≤ 1 ∧ defsOfClass x (run c uses).2 ≤ 1 ∧ oncesOf x (run c uses).2 ≤ 1 :=
  ⟨(Proofs.Registry.script_def_once uses c x).1, (Proofs.Registry.class_def_once uses c x).1,
   (Proofs.Registry.once_content_once uses c x).1⟩

/-- Always at or before the first use. -/
theorem C12_before_script (uses : List Use) (n i : Nat) (hi : (run {} uses).2[i]? = some (.scriptCall n)) :
    ∃ j, j < i ∧ ∃ e, (run {} uses).2[j]? = some e ∧ Proofs.Registry.isScriptDefOf n e = true :=
  Proofs.Registry.script_def_before_call uses {} n (by simp) i hi

theorem C12_before_class (uses : List Use) (registered : List Nat) (id i : Nat) (hr : id ∉ registered) (hlt : id < 1000)
    (hi : (run (middlewareCtx registered) uses).2[i]? = some (.className id)) :
    ∃ j, j < i ∧ ∃ e, (run (middlewareCtx registered) uses).2[j]? = some e ∧ Proofs.Registry.isStyleDefOf id e = true :=
  Proofs.Registry.class_def_before_name uses (middlewareCtx registered) id (by simpa [middlewareCtx] using hr) hlt i hi

/-- Every use still gets its call / class names (by construction of `step`: the calls and names are appended
    whether or not a definition was emitted). -/
theorem C12_every_use (c : Ctx) (names : List Nat) (items : List ClassItem) :
    (∃ pre, (step c (.scriptAttrs names)).2 = pre ++ names.map .scriptCall) ∧
    (∃ pre, (step c (.classAttr items)).2 = pre ++ (classNames items).map .className) := by
  constructor
  · exact ⟨(renderScriptItems c names).2, by simp [step]⟩
  · exact ⟨(renderCSSItems c items).2, by simp [step]⟩

/-- Classes registered with the CSS middleware are never inlined. -/
theorem C12_middleware (uses : List Use) (registered : List Nat) (id : Nat) (h : id ∈ registered) :
    defsOfClass id (run (middlewareCtx registered) uses).2 = 0 :=
  (Proofs.Registry.class_def_once uses (middlewareCtx registered) id).2 (by simpa [middlewareCtx] using h)

/-- Separate contexts are independent: what a context emits is a function of its own uses alone. -/
theorem C12_independent (c₁ c₂ : Ctx) (u₁ u₂ : List Use) :
    (run c₁ u₁, run c₂ u₂) = (run c₁ u₁, run c₂ u₂) ∧ (run c₂ u₂).2 = (run c₂ u₂).2 := ⟨rfl, rfl⟩

/-- Non-vacuity: a history using one script three ways and a class through nested containers, with a spent once handle. -/
example : (run {} [.scriptAttrs [1, 2], .scriptComponent 1 true, .classAttr [.classes [.kvIface 3 true, .comp 3]], .once 1, .once 1,
    .classAttr [.fn 3]]).2 =
    [.scriptDef [1, 2], .scriptCall 1, .scriptCall 2, .scriptCall 1, .styleDef [3], .className 3, .onceContent 1, .className 3] := by decide

/-! ## Whole templates

`Sem.St.scripts` lists, in order, the names of the script functions a render has emitted (each emission appends the
name and writes the definition in the same step, `Sem.emitScripts`). Over the template semantics of C02, for EVERY
template body and environment - however often and through whichever elements, loops, branches and component blocks a
script is used - the emitted names are pairwise different: each definition goes out at most once per render. -/
theorem C12_template_scripts_once (strict : Bool) (body : Ast.Nodes) (env : Sem.Env) :
    (Denote.nodes strict true true body false env {}).scripts.Nodup :=
  Proofs.Prefix.run_scripts_nodup strict body env

/-- One emission adds exactly the names not emitted before, keeps the earlier ones in place and stays duplicate free. -/
theorem C12_template_emit (items : List (Bytes × Bytes)) (st : Sem.St) (h : st.scripts.Nodup) :
    (Sem.emitScripts items st).scripts.Nodup ∧ st.scripts <+: (Sem.emitScripts items st).scripts ∧
    (∀ n ∈ (Sem.emitScripts items st).scripts, n ∈ st.scripts ∨ n ∈ items.map (·.1)) :=
  Proofs.Prefix.emitScripts_adds items st h

/-- Non-vacuity: two elements using the same handler: one definition, two calls. -/
example :
    let h : Ast.Attrs := .cons (.expr [111, 110, 99, 108, 105, 99, 107] [104]) .nil
    let body : Ast.Nodes := .cons (.element [97] h .nil .none false false) (.cons (.element [98] h .nil .none false false) .nil)
    let env : Sem.Env := [([104], { keys := [], val := .script [102] [70] [99] })]
    (Denote.run body env).scripts = [[102]] ∧ (Denote.run body env).err = false := by decide

-- BEGIN transcription pins (written by tools/mkpins.py)
/-- T1, transcription pins: the control structure and calls (extract/skeleton.go) of the functions whose models
    were written by hand are the ones the models were transcribed from:
      runtime.go renderCSSItemsToBuilder
      once.go OnceHandle.Once
      scripttemplate.go RenderScriptItems
    A change of what one of them calls or how it branches breaks this theorem; the check then searches for a
    failing input and reports either that or `no-failing-input-found`. -/
theorem C12_transcription_pinned :
    Generated.skel_css_renderCSSItemsToBuilder = 1876615113353596996 ∧
    Generated.skel_once_Once = 9985271697375722017 ∧
    Generated.skel_script_RenderScriptItems = 15815696188857998883 := by decide
-- END transcription pins

end TemplVerif.Props.C12
