import TemplVerif.Generated.Skeletons
import TemplVerif.Model.Proxy
import TemplVerif.Generated.Proxy
/-
C20 — the live-reload proxy alters HTML responses only by appending the reload script.
-/
namespace TemplVerif.Props.C20
open TemplVerif TemplVerif.Proxy

/-- T1: the Content-Encoding switch of modifyResponse (as it is in the source now) decodes exactly gzip and br,
    treats "" as identity, and its default arm returns before the body is read. -/
theorem C20_switch_pinned :
    Generated.proxyEncodingArms = [gzipLit, brLit, []] ∧ Generated.proxyDefaultArmReturns = true := by decide

/-- The content encodings the proxy understands. -/
def supported (e : Bytes) : Bool := e == gzipLit || e == brLit || e.isEmpty

/-- Pass-through: a response marked to be skipped, a non-HTML response, or a response in an encoding the
    proxy does not understand is returned exactly as it came (body bytes, Content-Length, every modelled header). -/
theorem C20_passthrough (env : Env) (r : Resp)
    (h : r.skipModify = trueLit ∨ isHtml r.contentType = false ∨ supported r.contentEncoding = false) :
    modify env r = .resp r := by
  unfold Proxy.modify
  rcases h with h | h | h
  · simp [h]
  · by_cases hs : r.skipModify == trueLit <;> simp [hs, h]
  · by_cases hs : r.skipModify == trueLit
    · simp [hs]
    · by_cases hc : isHtml r.contentType
      · simp only [supported, Bool.or_eq_false_iff] at h
        obtain ⟨⟨h1, h2⟩, h3⟩ := h
        simp [hs, hc, h1, h2, h3]
      · simp [hs, hc]

/-- HTMX requests: the round tripper marks the response, hence it passes through. -/
theorem C20_htmx (env : Env) (r : Resp) (up : Bytes) (h : r.skipModify = afterRoundTrip trueLit up) :
    modify env r = .resp r := by
  apply C20_passthrough
  left
  simpa [afterRoundTrip] using h

/-- The decoder/encoder pair the proxy uses for a supported encoding. -/
def codecOf (env : Env) (e : Bytes) : (Bytes → Option Bytes) × (Bytes → Bytes) :=
  if e == gzipLit then (env.gzipDec, env.gzipEnc) else if e == brLit then (env.brDec, env.brEnc) else (some, id)

/-- HTML in identity / gzip / br: what the browser decodes is the rewritten document (the original when the
    rewrite fails), Content-Length equals the bytes sent, and the encoding header, content type and CSP are
    untouched — provided only that the codec round-trips (`dec (enc x) = some x`). -/
theorem C20_html (env : Env) (r : Resp) (doc : Bytes)
    (hs : r.skipModify ≠ trueLit) (ht : isHtml r.contentType = true)
    (he : supported r.contentEncoding = true)
    (hd : (codecOf env r.contentEncoding).1 r.body = some doc)
    (law : ∀ x, (codecOf env r.contentEncoding).1 ((codecOf env r.contentEncoding).2 x) = some x) :
    ∃ r', modify env r = .resp r' ∧
      (codecOf env r.contentEncoding).1 r'.body = some ((env.insert (parseNonce r.csp) doc).getD doc) ∧
      r'.contentLength = some r'.body.length ∧
      r'.contentEncoding = r.contentEncoding ∧ r'.contentType = r.contentType ∧ r'.csp = r.csp ∧
      r'.skipModify = r.skipModify := by
  have hs' : (r.skipModify == trueLit) = false := by simpa using hs
  unfold Proxy.modify
  simp only [hs', ht, Bool.false_eq_true, if_false, Bool.not_true]
  unfold supported at he
  by_cases h1 : r.contentEncoding == gzipLit
  · have hc : codecOf env r.contentEncoding = (env.gzipDec, env.gzipEnc) := by simp [codecOf, h1]
    rw [hc] at hd law ⊢
    simp only [h1, if_true] at hd law ⊢
    simp only [hd]
    exact ⟨_, rfl, law _, rfl, rfl, rfl, rfl, rfl⟩
  · by_cases h2 : r.contentEncoding == brLit
    · have hc : codecOf env r.contentEncoding = (env.brDec, env.brEnc) := by simp [codecOf, h1, h2]
      rw [hc] at hd law ⊢
      simp only [h1, h2, if_true, Bool.false_eq_true, if_false] at hd law ⊢
      simp only [hd]
      exact ⟨_, rfl, law _, rfl, rfl, rfl, rfl, rfl⟩
    · have h3 : r.contentEncoding.isEmpty = true := by simpa [h1, h2] using he
      have hc : codecOf env r.contentEncoding = (some, id) := by simp [codecOf, h1, h2]
      rw [hc] at hd law ⊢
      simp only [h1, h2, h3, if_true, Bool.false_eq_true, if_false] at hd law ⊢
      cases hd
      exact ⟨_, rfl, rfl, rfl, rfl, rfl, rfl, rfl⟩

/-- `parseNonce` examples from the property's quantifier (no nonce, nonce among other directives, several nonces). -/
example : parseNonce [100, 101, 102, 97, 117, 108, 116, 45, 115, 114, 99, 32, 39, 115, 101, 108, 102, 39, 59, 32, 115, 99, 114, 105, 112, 116, 45, 115, 114, 99, 32, 39, 115, 101, 108, 102, 39, 32, 39, 110, 111, 110, 99, 101, 45, 97, 98, 99, 49, 50, 51, 39, 32, 104, 116, 116, 112, 115, 58, 47, 47, 120, 59, 32, 115, 116, 121, 108, 101, 45, 115, 114, 99, 32, 39, 110, 111, 110, 99, 101, 45, 122, 122, 122, 39]
    = [97, 98, 99, 49, 50, 51] := by decide
example : parseNonce [100, 101, 102, 97, 117, 108, 116, 45, 115, 114, 99, 32, 39, 115, 101, 108, 102, 39] = [] := by decide
example : parseNonce [115, 99, 114, 105, 112, 116, 45, 115, 114, 99, 32, 39, 110, 111, 110, 99, 101, 45, 97, 39, 32, 39, 110, 111, 110, 99, 101, 45, 98, 39, 59, 32, 115, 99, 114, 105, 112, 116, 45, 115, 114, 99, 32, 39, 110, 111, 110, 99, 101, 45, 99, 39] = [97] := by decide

-- BEGIN transcription pins (written by tools/mkpins.py)
/-- T1, transcription pins: the control structure and calls (extract/skeleton.go) of the functions whose models
    were written by hand are the ones the models were transcribed from:
      cmd/templ/generatecmd/proxy/proxy.go insertScriptTagIntoBody
      cmd/templ/generatecmd/proxy/proxy.go Handler.modifyResponse
      cmd/templ/generatecmd/proxy/proxy.go parseNonce
    A change of what one of them calls or how it branches breaks this theorem; the check then searches for a
    failing input and reports either that or `no-failing-input-found`. -/
theorem C20_transcription_pinned :
    Generated.skel_proxy_insertScript = 8075675648413137107 ∧
    Generated.skel_proxy_modifyResponse = 17326589039522162342 ∧
    Generated.skel_proxy_parseNonce = 10634703123769029838 := by decide
-- END transcription pins

end TemplVerif.Props.C20
