/- C08 — property theorems are added when the printer / reparse model lands; until then this property is not claimed. -/
namespace TemplVerif.Props.C08
end TemplVerif.Props.C08
