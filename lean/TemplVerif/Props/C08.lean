import TemplVerif.Generated.Skeletons
import TemplVerif.Model.Norm
import TemplVerif.Proofs.Norm
import TemplVerif.Proofs.Spaced
/-
C08 — formatting never changes what a template renders.
Proved: two template bodies in the same layout class (Norm.body) generate the SAME statements, hence (C02) render the
same bytes, return the same error and evaluate the same expressions for all values. Checked on every run, not proved
(there is no model of the formatter's printer and of the parser): that `templ fmt` keeps every template in its layout
class (the REAL parser's trees of x and of fmt(x) are compared after Norm), that the formatted file is accepted, and
that the real generated code of both is the same program modulo positions and gofmt.
-/
namespace TemplVerif.Props.C08
open TemplVerif TemplVerif.Ast TemplVerif.Sem

theorem C08_same_class_same_program (b b' : Nodes) (h : Norm.body b = Norm.body b') :
    Gen.genTemplate b = Gen.genTemplate b' := by
  rw [← Proofs.Norm.gen_norm b, ← Proofs.Norm.gen_norm b', h]

theorem C08_same_class_same_rendering (b b' : Nodes) (h : Norm.body b = Norm.body b') (env : Env) :
    Gen.run b env = Gen.run b' env := by
  unfold Gen.run
  rw [C08_same_class_same_program b b' h]

/-- On the printer fragment (C09's `Printer` / `Reparse`): a parser-built tree whose source already has white space
    wherever the printer breaks a line next to inline content (`Spaced.body`) is re-parsed, after formatting, into a tree
    of the SAME layout class — so (with the theorems above) formatting it changes neither the generated statements nor
    what they render. The templates that violate `Spaced.body` are exactly where the known finding (a space added between
    glued inline neighbours) lives. -/
theorem C08_fragment_class_kept (b : Nodes) (hf : Printer.nodesInFragment b = true) (hw : Reparse.wfNodes b = true)
    (hs : Spaced.body b = true) :
    Norm.body (Reparse.body b) = Norm.body b :=
  Proofs.Spaced.class_kept b hf hw hs

theorem C08_fragment_same_program (b : Nodes) (hf : Printer.nodesInFragment b = true) (hw : Reparse.wfNodes b = true)
    (hs : Spaced.body b = true) (env : Env) :
    Gen.genTemplate (Reparse.body b) = Gen.genTemplate b ∧ Gen.run (Reparse.body b) env = Gen.run b env :=
  ⟨C08_same_class_same_program _ _ (C08_fragment_class_kept b hf hw hs),
   C08_same_class_same_rendering _ _ (C08_fragment_class_kept b hf hw hs) env⟩

theorem C08_norm_projection (b : Nodes) : Norm.body (Norm.body b) = Norm.body b :=
  Proofs.Norm.norm_idem b

/-- Non-vacuity: `<p>{ S }⏎<b>x</b></p>` laid out on three lines with indentation whitespace and flags set, and on one
    line: same class, so same program. -/
example :
    let multi : Nodes := .cons (.ws [10, 9]) (.cons (.element [112] .nil
        (.cons (.ws [10, 9, 9]) (.cons (.strExpr [83] .vert) (.cons (.ws [9, 9]) (.cons (.element [98] .nil (.cons (.text [120] .none) .nil) .vert false false)
          (.cons (.ws [9]) .nil))))) .vert false true) (.cons (.ws [10]) .nil))
    let single : Nodes := .cons (.element [112] .nil
        (.cons (.strExpr [83] .horiz) (.cons (.element [98] .nil (.cons (.text [120] .none) .nil) .none false false) .nil)) .none false false) .nil
    Norm.body multi = Norm.body single ∧ Norm.body multi = single := by
  decide

-- BEGIN transcription pins (written by tools/mkpins.py)
/-- T1, transcription pins: the control structure and calls (extract/skeleton.go) of the functions whose models
    were written by hand are the ones the models were transcribed from:
      parser/v2/types.go BoolConstantAttribute.Write
      parser/v2/types.go BoolExpressionAttribute.Write
      parser/v2/types.go CSSTemplate.Write
      parser/v2/types.go CallTemplateExpression.Write
      parser/v2/types.go ChildrenExpression.Write
      parser/v2/types.go ConditionalAttribute.Write
      parser/v2/types.go ConstantAttribute.Write
      parser/v2/types.go ConstantCSSProperty.Write
      parser/v2/types.go DocType.Write
      parser/v2/types.go Element.Write
      parser/v2/types.go ExpressionAttribute.Write
      parser/v2/types.go ExpressionCSSProperty.Write
      parser/v2/types.go ForExpression.Write
      parser/v2/types.go GoCode.Write
      parser/v2/types.go GoComment.Write
      parser/v2/types.go HTMLComment.Write
      parser/v2/types.go HTMLTemplate.Write
      parser/v2/types.go IfExpression.Write
      parser/v2/types.go Package.Write
      parser/v2/types.go RawElement.Write
      parser/v2/types.go ScriptElement.Write
      parser/v2/types.go ScriptTemplate.Write
      parser/v2/types.go SpreadAttributes.Write
      parser/v2/types.go StringExpression.Write
      parser/v2/types.go SwitchExpression.Write
      parser/v2/types.go TemplElementExpression.Write
      parser/v2/types.go TemplateFile.Write
      parser/v2/types.go TemplateFileGoExpression.Write
      parser/v2/types.go Text.Write
      parser/v2/types.go Whitespace.Write
    A change of what one of them calls or how it branches breaks this theorem; the check then searches for a
    failing input and reports either that or `no-failing-input-found`. -/
theorem C08_transcription_pinned :
    Generated.skel_fmt_BoolConstantAttribute = 17964454261460013838 ∧
    Generated.skel_fmt_BoolExpressionAttribute = 11243877805884256764 ∧
    Generated.skel_fmt_CSSTemplate = 10486559759305371780 ∧
    Generated.skel_fmt_CallTemplateExpression = 4754677790992354005 ∧
    Generated.skel_fmt_ChildrenExpression = 8973048098999815633 ∧
    Generated.skel_fmt_ConditionalAttribute = 2131278597794675548 ∧
    Generated.skel_fmt_ConstantAttribute = 17190133187334056934 ∧
    Generated.skel_fmt_ConstantCSSProperty = 9028660431953749041 ∧
    Generated.skel_fmt_DocType = 2337572934743534415 ∧
    Generated.skel_fmt_Element = 15653131509271426703 ∧
    Generated.skel_fmt_ExpressionAttribute = 15138201634416348715 ∧
    Generated.skel_fmt_ExpressionCSSProperty = 17518302242369419524 ∧
    Generated.skel_fmt_ForExpression = 1342625959466410837 ∧
    Generated.skel_fmt_GoCode = 5520114962642325106 ∧
    Generated.skel_fmt_GoComment = 2865620347699289652 ∧
    Generated.skel_fmt_HTMLComment = 2337572934743534415 ∧
    Generated.skel_fmt_HTMLTemplate = 12553196804296595469 ∧
    Generated.skel_fmt_IfExpression = 3942449742783697541 ∧
    Generated.skel_fmt_Package = 2337572934743534415 ∧
    Generated.skel_fmt_RawElement = 11505227016490775874 ∧
    Generated.skel_fmt_ScriptElement = 8089826004982831993 ∧
    Generated.skel_fmt_ScriptTemplate = 10019798481422971980 ∧
    Generated.skel_fmt_SpreadAttributes = 15030267648810377398 ∧
    Generated.skel_fmt_StringExpression = 8810321671428492873 ∧
    Generated.skel_fmt_SwitchExpression = 11736646981924421930 ∧
    Generated.skel_fmt_TemplElementExpression = 17089425217095634118 ∧
    Generated.skel_fmt_TemplateFile = 8684252644459683408 ∧
    Generated.skel_fmt_TemplateFileGoExpression = 15670954479218328045 ∧
    Generated.skel_fmt_Text = 2337572934743534415 ∧
    Generated.skel_fmt_Whitespace = 13121865947735479079 := by decide
-- END transcription pins

end TemplVerif.Props.C08
