import TemplVerif.Model.Norm
import TemplVerif.Proofs.Norm
import TemplVerif.Proofs.Spaced
/-
C08 — formatting never changes what a template renders.
Proved: two template bodies in the same layout class (Norm.body) generate the SAME statements, hence (C02) render the
same bytes, return the same error and evaluate the same expressions for all values. Checked on every run, not proved
(there is no model of the formatter's printer and of the parser): that `templ fmt` keeps every template in its layout
class (the REAL parser's trees of x and of fmt(x) are compared after Norm), that the formatted file is accepted, and
that the real generated code of both is the same program modulo positions and gofmt.
-/
namespace TemplVerif.Props.C08
open TemplVerif TemplVerif.Ast TemplVerif.Sem

theorem C08_same_class_same_program (b b' : Nodes) (h : Norm.body b = Norm.body b') :
    Gen.genTemplate b = Gen.genTemplate b' := by
  rw [← Proofs.Norm.gen_norm b, ← Proofs.Norm.gen_norm b', h]

theorem C08_same_class_same_rendering (b b' : Nodes) (h : Norm.body b = Norm.body b') (env : Env) :
    Gen.run b env = Gen.run b' env := by
  unfold Gen.run
  rw [C08_same_class_same_program b b' h]

/-- On the printer fragment (C09's `Printer` / `Reparse`): a parser-built tree whose source already has white space
    wherever the printer breaks a line next to inline content (`Spaced.body`) is re-parsed, after formatting, into a tree
    of the SAME layout class — so (with the theorems above) formatting it changes neither the generated statements nor
    what they render. The templates that violate `Spaced.body` are exactly where the known finding (a space added between
    glued inline neighbours) lives. -/
theorem C08_fragment_class_kept (b : Nodes) (hf : Printer.nodesInFragment b = true) (hw : Reparse.wfNodes b = true)
    (hs : Spaced.body b = true) :
    Norm.body (Reparse.body b) = Norm.body b :=
  Proofs.Spaced.class_kept b hf hw hs

theorem C08_fragment_same_program (b : Nodes) (hf : Printer.nodesInFragment b = true) (hw : Reparse.wfNodes b = true)
    (hs : Spaced.body b = true) (env : Env) :
    Gen.genTemplate (Reparse.body b) = Gen.genTemplate b ∧ Gen.run (Reparse.body b) env = Gen.run b env :=
  ⟨C08_same_class_same_program _ _ (C08_fragment_class_kept b hf hw hs),
   C08_same_class_same_rendering _ _ (C08_fragment_class_kept b hf hw hs) env⟩

theorem C08_norm_projection (b : Nodes) : Norm.body (Norm.body b) = Norm.body b :=
  Proofs.Norm.norm_idem b

/-- Non-vacuity: `<p>{ S }⏎<b>x</b></p>` laid out on three lines with indentation whitespace and flags set, and on one
    line: same class, so same program. -/
example :
    let multi : Nodes := .cons (.ws [10, 9]) (.cons (.element [112] .nil
        (.cons (.ws [10, 9, 9]) (.cons (.strExpr [83] .vert) (.cons (.ws [9, 9]) (.cons (.element [98] .nil (.cons (.text [120] .none) .nil) .vert false false)
          (.cons (.ws [9]) .nil))))) .vert false true) (.cons (.ws [10]) .nil))
    let single : Nodes := .cons (.element [112] .nil
        (.cons (.strExpr [83] .horiz) (.cons (.element [98] .nil (.cons (.text [120] .none) .nil) .none false false) .nil)) .none false false) .nil
    Norm.body multi = Norm.body single ∧ Norm.body multi = single := by
  decide

end TemplVerif.Props.C08
