import TemplVerif.Generated.Skeletons
import TemplVerif.Model.Fs
import TemplVerif.Proofs.Fs
import TemplVerif.Generated.Walk
/-
C15 — `templ generate` output is a deterministic function of the tree.
Proved for the model: every schedule (hence every worker count) of the look/act steps of all handlers ends in the
tree the specification describes, which is spelled out by C15_generated / C15_orphan / C15_untouched; the
specification is a fixed point (second run); a failing file is counted and changes nothing else.
Checked, not proved: that the real walk, handler and CLI are this model (correspondence on random trees through
the real, race-instrumented CLI), and data-race freedom of the shared handler state.
-/
namespace TemplVerif.Props.C15
open TemplVerif TemplVerif.Fs

/-- Scheduling independence: any two complete schedules agree on every path and on the failure count. -/
theorem C15_schedule_independent (cfg : Cfg) (genOf : Path → Bytes → Option Bytes) (fs0 : Fs) (s1 s2 : List Path)
    (h1 : ∀ e ∈ eventsOf cfg fs0, e ∈ (run cfg genOf (eventsOf cfg fs0) fs0 s1).finished)
    (h2 : ∀ e ∈ eventsOf cfg fs0, e ∈ (run cfg genOf (eventsOf cfg fs0) fs0 s2).finished) :
    (∀ p, get (run cfg genOf (eventsOf cfg fs0) fs0 s1).fs p = get (run cfg genOf (eventsOf cfg fs0) fs0 s2).fs p) ∧
    (run cfg genOf (eventsOf cfg fs0) fs0 s1).errs = (run cfg genOf (eventsOf cfg fs0) fs0 s2).errs := by
  obtain ⟨a1, b1⟩ := Proofs.Fs.run_spec cfg genOf fs0 s1 h1
  obtain ⟨a2, b2⟩ := Proofs.Fs.run_spec cfg genOf fs0 s2 h2
  exact ⟨fun p => (a1 p).trans (a2 p).symm, b1.trans b2.symm⟩

/-- Every complete schedule produces the specified tree and the command fails exactly when some visited .templ file
    cannot be generated. -/
theorem C15_spec (cfg : Cfg) (genOf : Path → Bytes → Option Bytes) (fs0 : Fs) (sched : List Path)
    (hdone : ∀ e ∈ eventsOf cfg fs0, e ∈ (run cfg genOf (eventsOf cfg fs0) fs0 sched).finished) :
    (∀ p, get (run cfg genOf (eventsOf cfg fs0) fs0 sched).fs p = spec cfg genOf fs0 p) ∧
    (run cfg genOf (eventsOf cfg fs0) fs0 sched).errs = failures cfg genOf fs0 :=
  Proofs.Fs.run_spec cfg genOf fs0 sched hdone

/-- Complete schedules exist (the -w 1 run). -/
theorem C15_sequential_complete (cfg : Cfg) (genOf : Path → Bytes → Option Bytes) (fs0 : Fs) :
    ∀ e ∈ eventsOf cfg fs0, e ∈ (run cfg genOf (eventsOf cfg fs0) fs0 (seqSched (eventsOf cfg fs0))).finished :=
  Proofs.Fs.seq_finishes cfg genOf fs0

/-- Every .templ file outside skipped directories gets a sibling holding its generation alone. -/
theorem C15_generated (cfg : Cfg) (genOf : Path → Bytes → Option Bytes) (fs0 : Fs) (e : Path) (src code : Bytes)
    (hv : visited cfg e = true) (ht : hasSuffix e sufTempl = true) (hsrc : get fs0 e = some src)
    (hgen : genOf e src = some code) :
    spec cfg genOf fs0 (targetOf e) = some code :=
  Proofs.Fs.spec_generated cfg genOf fs0 e src code hv ht hsrc hgen

/-- Orphaned generated files are gone unless kept by flag. -/
theorem C15_orphan (cfg : Cfg) (genOf : Path → Bytes → Option Bytes) (fs0 : Fs) (p : Path)
    (hv : visited cfg p = true) (hg : hasSuffix p sufTemplGo = true) (hp : (get fs0 p).isSome)
    (hno : get fs0 (templOf p) = none) :
    spec cfg genOf fs0 p = if cfg.keepOrphaned then get fs0 p else none :=
  Proofs.Fs.spec_orphan cfg genOf fs0 p hv hg hp hno

/-- No other file is touched (in particular nothing inside skipped directories, no file that fails to generate). -/
theorem C15_untouched (cfg : Cfg) (genOf : Path → Bytes → Option Bytes) (fs0 : Fs) (p : Path)
    (hnt : ∀ e src, visited cfg e = true → hasSuffix e sufTempl = true → get fs0 e = some src →
            (genOf e src).isSome → targetOf e ≠ p)
    (hno : ¬ (visited cfg p = true ∧ hasSuffix p sufTemplGo = true ∧ (get fs0 p).isSome ∧
              get fs0 (templOf p) = none ∧ cfg.keepOrphaned = false)) :
    spec cfg genOf fs0 p = get fs0 p :=
  Proofs.Fs.spec_untouched cfg genOf fs0 p hnt hno

/-- Running again on the result changes no content and fails for the same files. -/
theorem C15_idempotent (cfg : Cfg) (genOf : Path → Bytes → Option Bytes) (fs0 : Fs) (s1 s2 : List Path)
    (h1 : ∀ e ∈ eventsOf cfg fs0, e ∈ (run cfg genOf (eventsOf cfg fs0) fs0 s1).finished)
    (h2 : ∀ e ∈ eventsOf cfg (run cfg genOf (eventsOf cfg fs0) fs0 s1).fs,
            e ∈ (run cfg genOf (eventsOf cfg (run cfg genOf (eventsOf cfg fs0) fs0 s1).fs) (run cfg genOf (eventsOf cfg fs0) fs0 s1).fs s2).finished) :
    let fs1 := (run cfg genOf (eventsOf cfg fs0) fs0 s1).fs
    (∀ p, get (run cfg genOf (eventsOf cfg fs1) fs1 s2).fs p = get fs1 p) ∧
    (run cfg genOf (eventsOf cfg fs1) fs1 s2).errs = (run cfg genOf (eventsOf cfg fs0) fs0 s1).errs := by
  intro fs1
  obtain ⟨a1, b1⟩ := Proofs.Fs.run_spec cfg genOf fs0 s1 h1
  obtain ⟨a2, b2⟩ := Proofs.Fs.run_spec cfg genOf fs1 s2 h2
  obtain ⟨c1, c2⟩ := Proofs.Fs.spec_idem cfg genOf fs0 fs1 a1
  exact ⟨fun p => (a2 p).trans (c1 p), b2.trans (c2.trans b1.symm)⟩

/-- T1: what the current source says about the walk and the handler is what the model assumes — ShouldSkip is
    consulted for directories only, the handler tests exactly the model's three suffixes in the model's order, the
    sibling name is TrimSuffix(.templ) + _templ.go, and the default watch pattern is the one `matchesWatch` encodes. -/
theorem C15_pinned :
    Generated.skipAppliesToDirsOnly = true ∧
    Generated.handlerSuffixes = [sufTemplGo, sufTempl, sufGo] ∧
    Generated.targetSuffixes = [sufTempl, sufTemplGo] ∧
    Generated.defaultWatchPattern = [40, 46, 43, 92, 46, 103, 111, 36, 41, 124, 40, 46, 43, 92, 46, 116, 101, 109, 112, 108, 36, 41] := by
  decide

/-- Non-vacuity: a tree with a stale sibling, an orphan, a skipped directory, an underscore-prefixed FILE (not skipped)
    and a file that cannot be generated; two different complete schedules. -/
example :
    let cfg : Cfg := { keepOrphaned := false, skipExact := Generated.skipExact, skipPrefixes := Generated.skipPrefixes }
    let genOf : Path → Bytes → Option Bytes := fun _ src => if src.contains 33 then none else some (71 :: src)
    let fs0 : Fs := [([97, 47, 120, 46, 116, 101, 109, 112, 108], [1]),                       -- a/x.templ
                     ([97, 47, 120, 95, 116, 101, 109, 112, 108, 46, 103, 111], [9]),          -- a/x_templ.go (stale)
                     ([97, 47, 111, 95, 116, 101, 109, 112, 108, 46, 103, 111], [8]),          -- a/o_templ.go (orphan)
                     ([95, 116, 47, 113, 46, 116, 101, 109, 112, 108], [2]),                   -- _t/q.templ (skipped dir)
                     ([97, 47, 95, 117, 46, 116, 101, 109, 112, 108], [3]),                    -- a/_u.templ (file, not skipped)
                     ([97, 47, 98, 46, 116, 101, 109, 112, 108], [33])]                        -- a/b.templ (fails)
    let ev := eventsOf cfg fs0
    let s1 := run cfg genOf ev fs0 (seqSched ev)
    let s2 := run cfg genOf ev fs0 (ev ++ ev.reverse)
    ev.length = 5 ∧ s1.errs = 1 ∧ s2.errs = 1 ∧
    (fs0.map (·.1) ++ s1.fs.map (·.1)).all (fun p => get s1.fs p == get s2.fs p && get s1.fs p == spec cfg genOf fs0 p) = true ∧
    get s1.fs [97, 47, 120, 95, 116, 101, 109, 112, 108, 46, 103, 111] = some [71, 1] ∧
    get s1.fs [97, 47, 111, 95, 116, 101, 109, 112, 108, 46, 103, 111] = none ∧
    get s1.fs [97, 47, 95, 117, 95, 116, 101, 109, 112, 108, 46, 103, 111] = some [71, 3] ∧
    get s1.fs [95, 116, 47, 113, 95, 116, 101, 109, 112, 108, 46, 103, 111] = none := by
  decide

-- BEGIN transcription pins (written by tools/mkpins.py)
/-- T1, transcription pins: the control structure and calls (extract/skeleton.go) of the functions whose models
    were written by hand are the ones the models were transcribed from:
      cmd/templ/generatecmd/eventhandler.go FileWriter
      cmd/templ/generatecmd/eventhandler.go FSEventHandler.HandleEvent
      cmd/templ/generatecmd/eventhandler.go FSEventHandler.UpsertLastModTime
      cmd/templ/generatecmd/watcher/watch.go WalkFiles
    A change of what one of them calls or how it branches breaks this theorem; the check then searches for a
    failing input and reports either that or `no-failing-input-found`. -/
theorem C15_transcription_pinned :
    Generated.skel_events_FileWriter = 9076450457970906327 ∧
    Generated.skel_events_HandleEvent = 10248215779350580241 ∧
    Generated.skel_events_UpsertLastModTime = 2428717206913043922 ∧
    Generated.skel_walk_WalkFiles = 17625773593303583570 := by decide
-- END transcription pins

end TemplVerif.Props.C15
