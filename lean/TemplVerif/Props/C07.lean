import TemplVerif.Generated.Skeletons
import TemplVerif.Model.SourceMap
import TemplVerif.Proofs.Pos
import TemplVerif.Proofs.Symbols
/-
C07 — the source map relates every Go expression byte to the same byte in generated code.
"Byte position" is read as rune-start position (the tables are keyed per rune; an offset inside a multi-byte
character is not a position an editor can send) plus the position just past the end of each expression line.
-/
namespace TemplVerif.Props.C07
open TemplVerif TemplVerif.Pos TemplVerif.SourceMap

/-- After `Add`, every position of the expression maps to the target position reached by advancing over the same
    bytes, consecutive positions to consecutive positions, and mapping back returns the original position. -/
theorem C07_add (sm : SM) (value : Bytes) (sf tf : Pos) (hv : Proofs.Pos.validUtf8 value = true)
    (k : Nat) (hk : k ∈ positionsOf value) :
    targetOf (add sm value sf tf) (advance sf (value.take k)).line (advance sf (value.take k)).col
      = some (advance tf (value.take k)) ∧
    sourceOf (add sm value sf tf) (advance tf (value.take k)).line (advance tf (value.take k)).col
      = some (advance sf (value.take k)) := Proofs.Pos.add_maps sm value sf tf hv k hk

/-- The mapped positions hold the same byte: with the expression text present at the source range start and at the
    target range start (what RangeWriter.write returns), source byte = target byte at every offset. -/
theorem C07_same_byte (S T value : Bytes) (sf tf : Pos)
    (hs : List.isPrefixOf value (S.drop sf.index) = true) (ht : List.isPrefixOf value (T.drop tf.index) = true)
    (k : Nat) (hk : k < value.length) :
    S[(advance sf (value.take k)).index]? = T[(advance tf (value.take k)).index]? := by
  have e1 := Proofs.Pos.advance_index sf (value.take k)
  have e2 := Proofs.Pos.advance_index tf (value.take k)
  have hl : (value.take k).length = k := by simp [List.length_take]; omega
  rw [e1, e2, hl]
  have h1 : S[sf.index + k]? = value[k]? := by
    have := List.isPrefixOf_iff_prefix.mp hs
    obtain ⟨r, hr⟩ := this
    have : (S.drop sf.index)[k]? = value[k]? := by rw [← hr]; simp [List.getElem?_append_left hk]
    simpa [List.getElem?_drop] using this
  have h2 : T[tf.index + k]? = value[k]? := by
    have := List.isPrefixOf_iff_prefix.mp ht
    obtain ⟨r, hr⟩ := this
    have : (T.drop tf.index)[k]? = value[k]? := by rw [← hr]; simp [List.getElem?_append_left hk]
    simpa [List.getElem?_drop] using this
  rw [h1, h2]

/-- A later expression whose source positions are different does not overwrite earlier mappings. -/
theorem C07_no_clobber (sm : SM) (v1 v2 : Bytes) (s1 t1 s2 t2 : Pos) (hv2 : Proofs.Pos.validUtf8 v2 = true)
    (line col : Nat) (hdis : (line, col) ∉ Proofs.Pos.srcKeys v2 s2) :
    targetOf (add (add sm v1 s1 t1) v2 s2 t2) line col = targetOf (add sm v1 s1 t1) line col :=
  Proofs.Pos.add_no_clobber sm v1 v2 s1 t1 s2 t2 hv2 line col hdis

/-- Non-vacuity: a two-line expression with a multi-byte character, preceded by multi-byte text on its line. -/
example : exprMapped [195, 169, 123, 97, 195, 169, 10, 98, 125] ([0, 0, 0, 0, 0] ++ [97, 195, 169, 10, 98])
    (add {} [97, 195, 169, 10, 98] ⟨3, 0, 3⟩ ⟨5, 0, 5⟩) [97, 195, 169, 10, 98] ⟨3, 0, 3⟩ ⟨5, 0, 5⟩ = true := by decide

/-! ## Symbol ranges of top-level declarations -/

/-- Every symbol range recorded by `AddSymbolRange` is found again from the start of its source range - for ANY
    number of top-level nodes, also several starting on one line - provided no two start at the same (line, column),
    which distinct nodes of a file never do. -/
theorem C07_symbols_found (adds : List (Rng × Rng)) (h : (adds.map fun a => Proofs.Symbols.key a.1).Nodup) :
    ∀ a ∈ adds, symTarget (addSymbols adds) a.1.from_.line a.1.from_.col = some a.2 :=
  Proofs.Symbols.target_found adds h

/-- … and from the start of the generated declaration back to the source range. -/
theorem C07_symbols_back (adds : List (Rng × Rng)) (h : (adds.map fun a => Proofs.Symbols.key a.2).Nodup) :
    ∀ a ∈ adds, symSource (addSymbols adds) a.2.from_.line a.2.from_.col = some a.1 :=
  Proofs.Symbols.source_found adds h

/-- Nothing is found that was not recorded. -/
theorem C07_symbols_sound (adds : List (Rng × Rng)) (line col : Nat) (r : Rng)
    (h : symTarget (addSymbols adds) line col = some r) :
    ∃ a ∈ adds, a.1.from_.line = line ∧ a.1.from_.col = col ∧ a.2 = r :=
  Proofs.Symbols.target_sound adds line col r h

/-- Non-vacuity: two templates starting on one source line (columns 0 and 22) both keep their ranges. -/
example :
    let a : Rng × Rng := (⟨⟨168, 19, 0⟩, ⟨189, 19, 21⟩⟩, ⟨⟨2531, 75, 0⟩, ⟨3575, 103, 0⟩⟩)
    let b : Rng × Rng := (⟨⟨190, 19, 22⟩, ⟨211, 19, 43⟩⟩, ⟨⟨3575, 103, 0⟩, ⟨4619, 131, 0⟩⟩)
    symTarget (addSymbols [a, b]) 19 0 = some a.2 ∧ symTarget (addSymbols [a, b]) 19 22 = some b.2 ∧
    symSource (addSymbols [a, b]) 75 0 = some a.1 := by decide

-- BEGIN transcription pins (written by tools/mkpins.py)
/-- T1, transcription pins: the control structure and calls (extract/skeleton.go) of the functions whose models
    were written by hand are the ones the models were transcribed from:
      cmd/templ/lspcmd/proxy/server.go Server.DidChange
      cmd/templ/lspcmd/proxy/server.go Server.DidOpen
      cmd/templ/lspcmd/proxy/server.go Server.parseTemplate
      generator/rangewriter.go RangeWriter.CodeHash
      generator/rangewriter.go RangeWriter.Write
      generator/rangewriter.go RangeWriter.WriteIndent
      generator/rangewriter.go RangeWriter.WriteStringLiteral
      generator/rangewriter.go RangeWriter.closeLiteral
      generator/rangewriter.go RangeWriter.write
      generator/rangewriter.go RangeWriter.writeErrorHandler
      parser/v2/sourcemap.go SourceMap.Add
      parser/v2/sourcemap.go SourceMap.AddSymbolRange
      parser/v2/sourcemap.go SourceMap.SourcePositionFromTarget
      parser/v2/sourcemap.go SourceMap.SymbolSourceRangeFromTarget
      parser/v2/sourcemap.go SourceMap.SymbolTargetRangeFromSource
      parser/v2/sourcemap.go SourceMap.TargetPositionFromSource
    A change of what one of them calls or how it branches breaks this theorem; the check then searches for a
    failing input and reports either that or `no-failing-input-found`. -/
theorem C07_transcription_pinned :
    Generated.skel_lspserver_DidChange = 12365285492961413979 ∧
    Generated.skel_lspserver_DidOpen = 2912707743840414254 ∧
    Generated.skel_lspserver_parseTemplate = 5362504280397451201 ∧
    Generated.skel_rw_CodeHash = 792772746908027308 ∧
    Generated.skel_rw_Write = 17538734659151182601 ∧
    Generated.skel_rw_WriteIndent = 17214375874521016690 ∧
    Generated.skel_rw_WriteStringLiteral = 8784805393440092172 ∧
    Generated.skel_rw_closeLiteral = 14545311566512644173 ∧
    Generated.skel_rw_write = 8854243379502433650 ∧
    Generated.skel_rw_writeErrorHandler = 15326098415425532206 ∧
    Generated.skel_sm_Add = 1288391241873993416 ∧
    Generated.skel_sm_AddSymbolRange = 7781495704052865687 ∧
    Generated.skel_sm_SourcePositionFromTarget = 5866908265814706828 ∧
    Generated.skel_sm_SymbolSourceRangeFromTarget = 9449607515031355420 ∧
    Generated.skel_sm_SymbolTargetRangeFromSource = 9449607515031355420 ∧
    Generated.skel_sm_TargetPositionFromSource = 9449607515031355420 := by decide
-- END transcription pins

end TemplVerif.Props.C07
