import TemplVerif.Model.Quote
import TemplVerif.Proofs.Quote
import TemplVerif.Generated.HasChanged
/-
C16 — watch-mode rendering equals a fresh build.
-/
namespace TemplVerif.Props.C16
open TemplVerif TemplVerif.Quote

/-- Every static literal survives the generator's escaping: Go reads back exactly the original bytes. -/
theorem C16_roundtrip (isPrint : Nat → Bool) (hlf : isPrint 10 = false) (s : Bytes) :
    unquote (quote isPrint s) = some s ∧ (10 : UInt8) ∉ quote isPrint s :=
  ⟨Proofs.Quote.unquote_quote isPrint hlf s, Proofs.Quote.quote_no_lf isPrint hlf s⟩

/-- Development mode: literal number `i+1` read from the text file is the literal the normally generated code
    carries at that index — for every list of literals (quotes, backslashes, newlines, non-ASCII, invalid bytes). -/
theorem C16_devmode (isPrint : Nat → Bool) (hlf : isPrint 10 = false) (lits : List Bytes) (i : Nat) (hi : i < lits.length) :
    devLiteral (textFile (lits.map (quote isPrint))) (i + 1) = some (lits.getD i []) := by
  have hq : ∀ q ∈ lits.map (quote isPrint), (10 : UInt8) ∉ q := by
    intro q hq
    obtain ⟨l, _, rfl⟩ := List.mem_map.mp hq
    exact Proofs.Quote.quote_no_lf isPrint hlf l
  have := Proofs.Quote.devLiteral_textFile (lits.map (quote isPrint)) hq i (by simpa using hi)
  rw [this]
  have hg : (lits.map (quote isPrint)).getD i [] = quote isPrint (lits.getD i []) := by
    simp [List.getD, List.getElem?_map]
    cases h : lits[i]? with
    | none => exact absurd h (by simp [List.getElem?_eq_none_iff]; omega)
    | some v => simp
  rw [hg]
  exact Proofs.Quote.unquote_quote isPrint hlf _

/-- What `HasChanged` looks at, as a model: the options, the number of literals, the expression list and the digest
    of the generated code without literal contents. -/
structure Output where
  options : Bytes
  literals : List Bytes
  expressions : List Bytes
  codeWithoutLiterals : Bytes
deriving DecidableEq

def hasChanged (p u : Output) : Bool :=
  p.options != u.options || p.literals.length != u.literals.length || p.codeWithoutLiterals != u.codeWithoutLiterals ||
  p.expressions != u.expressions

/-- No recompilation needed ⇒ the already compiled program, reading the updated text file, IS the newly generated
    program: a compiled template is a function `run` of its code-without-literals and of the literals it reads at
    run time, so equal code-without-literals give equal renders for every input. (SHA-256 stands for equality of the
    code without literals: collision resistance is in the trusted base.) -/
theorem C16_norecompile (run : Bytes → List Bytes → Bytes) (p u : Output) (h : hasChanged p u = false) :
    run p.codeWithoutLiterals u.literals = run u.codeWithoutLiterals u.literals := by
  simp only [hasChanged, Bool.or_eq_false_iff, bne_eq_false_iff_eq] at h
  rw [h.1.2]

/-- T1: HasChanged compares the digest of the code without literals (besides options, literal count, expressions),
    and the digest is suspended only for literal contents and the generated-date comment. -/
theorem C16_haschanged_pinned :
    Generated.hasChangedFields =
      [[67, 111, 100, 101, 72, 97, 115, 104], [76, 105, 116, 101, 114, 97, 108, 115], [79, 112, 116, 105, 111, 110, 115, 46, 70, 105, 108, 101, 78, 97, 109, 101], [79, 112, 116, 105, 111, 110, 115, 46, 83, 107, 105, 112, 67, 111, 100, 101, 71, 101, 110, 101, 114, 97, 116, 101, 100, 67, 111, 109, 109, 101, 110, 116], [79, 112, 116, 105, 111, 110, 115, 46, 86, 101, 114, 115, 105, 111, 110],
       [83, 111, 117, 114, 99, 101, 77, 97, 112, 46, 69, 120, 112, 114, 101, 115, 115, 105, 111, 110, 115]] ∧
    Generated.codeHashSkipSites = [[99, 108, 111, 115, 101, 76, 105, 116, 101, 114, 97, 108], [119, 114, 105, 116, 101, 71, 101, 110, 101, 114, 97, 116, 101, 100, 68, 97, 116, 101, 67, 111, 109, 109, 101, 110, 116]] := by decide

/-- Non-vacuity: a literal with a quote, a backslash, a newline, a non-ASCII character and an invalid byte. -/
example : unquote (quote (fun r => 32 ≤ r && r != 127 && r != 0xFFFD) [34, 92, 10, 195, 169, 255, 97]) = some [34, 92, 10, 195, 169, 255, 97] := by decide

end TemplVerif.Props.C16
