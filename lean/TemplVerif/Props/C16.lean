import TemplVerif.Generated.Skeletons
import TemplVerif.Model.Quote
import TemplVerif.Proofs.Quote
import TemplVerif.Generated.HasChanged
import TemplVerif.Generated.Watch
import TemplVerif.Model.Watch
/-
C16 — watch-mode rendering equals a fresh build.
-/
namespace TemplVerif.Props.C16
open TemplVerif TemplVerif.Quote

/-- Every static literal survives the generator's escaping: Go reads back exactly the original bytes. -/
theorem C16_roundtrip (isPrint : Nat → Bool) (hlf : isPrint 10 = false) (s : Bytes) :
    unquote (quote isPrint s) = some s ∧ (10 : UInt8) ∉ quote isPrint s :=
  ⟨Proofs.Quote.unquote_quote isPrint hlf s, Proofs.Quote.quote_no_lf isPrint hlf s⟩

/-- Development mode: literal number `i+1` read from the text file is the literal the normally generated code
    carries at that index — for every list of literals (quotes, backslashes, newlines, non-ASCII, invalid bytes). -/
theorem C16_devmode (isPrint : Nat → Bool) (hlf : isPrint 10 = false) (lits : List Bytes) (i : Nat) (hi : i < lits.length) :
    devLiteral (textFile (lits.map (quote isPrint))) (i + 1) = some (lits.getD i []) := by
  have hq : ∀ q ∈ lits.map (quote isPrint), (10 : UInt8) ∉ q := by
    intro q hq
    obtain ⟨l, _, rfl⟩ := List.mem_map.mp hq
    exact Proofs.Quote.quote_no_lf isPrint hlf l
  have := Proofs.Quote.devLiteral_textFile (lits.map (quote isPrint)) hq i (by simpa using hi)
  rw [this]
  have hg : (lits.map (quote isPrint)).getD i [] = quote isPrint (lits.getD i []) := by
    simp [List.getD, List.getElem?_map]
    cases h : lits[i]? with
    | none => exact absurd h (by simp [List.getElem?_eq_none_iff]; omega)
    | some v => simp
  rw [hg]
  exact Proofs.Quote.unquote_quote isPrint hlf _

/-- What `HasChanged` looks at, as a model: the options, the number of literals, the expression list and the digest
    of the generated code without literal contents. -/
structure Output where
  options : Bytes
  literals : List Bytes
  expressions : List Bytes
  codeWithoutLiterals : Bytes
deriving DecidableEq

def hasChanged (p u : Output) : Bool :=
  p.options != u.options || p.literals.length != u.literals.length || p.codeWithoutLiterals != u.codeWithoutLiterals ||
  p.expressions != u.expressions

/-- No recompilation needed ⇒ the already compiled program, reading the updated text file, IS the newly generated
    program: a compiled template is a function `run` of its code-without-literals and of the literals it reads at
    run time, so equal code-without-literals give equal renders for every input. (SHA-256 stands for equality of the
    code without literals: collision resistance is in the trusted base.) -/
theorem C16_norecompile (run : Bytes → List Bytes → Bytes) (p u : Output) (h : hasChanged p u = false) :
    run p.codeWithoutLiterals u.literals = run u.codeWithoutLiterals u.literals := by
  simp only [hasChanged, Bool.or_eq_false_iff, bne_eq_false_iff_eq] at h
  rw [h.1.2]

/-- T1: HasChanged compares the digest of the code without literals (besides options, literal count, expressions),
    and the digest is suspended only for literal contents and the generated-date comment. -/
theorem C16_haschanged_pinned :
    Generated.hasChangedFields =
      [[67, 111, 100, 101, 72, 97, 115, 104], [76, 105, 116, 101, 114, 97, 108, 115], [79, 112, 116, 105, 111, 110, 115, 46, 70, 105, 108, 101, 78, 97, 109, 101], [79, 112, 116, 105, 111, 110, 115, 46, 83, 107, 105, 112, 67, 111, 100, 101, 71, 101, 110, 101, 114, 97, 116, 101, 100, 67, 111, 109, 109, 101, 110, 116], [79, 112, 116, 105, 111, 110, 115, 46, 86, 101, 114, 115, 105, 111, 110],
       [83, 111, 117, 114, 99, 101, 77, 97, 112, 46, 69, 120, 112, 114, 101, 115, 115, 105, 111, 110, 115]] ∧
    Generated.codeHashSkipSites = [[99, 108, 111, 115, 101, 76, 105, 116, 101, 114, 97, 108], [119, 114, 105, 116, 101, 71, 101, 110, 101, 114, 97, 116, 101, 100, 68, 97, 116, 101, 67, 111, 109, 109, 101, 110, 116]] := by decide

/-- Non-vacuity: a literal with a quote, a backslash, a newline, a non-ASCII character and an invalid byte. -/
example : unquote (quote (fun r => 32 ≤ r && r != 127 && r != 0xFFFD) [34, 92, 10, 195, 169, 255, 97]) = some [34, 92, 10, 195, 169, 255, 97] := by decide

/-! ## The text file is current after every edit; the running program notices every rewrite -/

open TemplVerif.Watch in
/-- After ANY sequence of edits handled by one handler, the development text file is the one written for the last
    version - provided the digest that guards the write is taken of a value that determines the file (`hk`). -/
theorem C16_textfile_current (key : List Bytes → Bytes) (hk : ∀ a b, key a = key b → textFile a = textFile b)
    (g : Guard) (hg : ∀ l, g.last = some (key l) → g.disk = some (textFile l))
    (edits : List (List Bytes)) (final : List Bytes) :
    (Guard.run key g (edits ++ [final])).disk = some (textFile final) := by
  induction edits generalizing g with
  | nil =>
    simp only [List.nil_append, Guard.run, Guard.step]
    split
    · rename_i h; exact hg final (by simpa using h)
    · rfl
  | cons e es ih =>
    simp only [List.cons_append, Guard.run]
    apply ih
    intro l hl
    simp only [Guard.step] at hl ⊢
    split at hl
    · rename_i h; simp only [h, ↓reduceIte]; exact hg l hl
    · rename_i h
      simp only [h]
      simp only [Bool.false_eq_true, ↓reduceIte] at hl ⊢
      have : key e = key l := by simpa using hl
      rw [hk e l this]

open TemplVerif.Watch in
/-- The digest in the code is of the joined text, which IS the file: the hypothesis of `C16_textfile_current` holds. -/
theorem C16_textfile_current_joined (edits : List (List Bytes)) (final : List Bytes) :
    (Guard.run keyJoined {} (edits ++ [final])).disk = some (textFile final) :=
  C16_textfile_current keyJoined (fun _ _ h => h) {} (by intro l h; simp at h) edits final

open TemplVerif.Watch in
/-- Why the digest must be of the joined text: fed literal by literal without a separator, moving an expression
    through static text (`a`,`b` -> `ab`,``) leaves the digest unchanged and the stale file on disk. -/
theorem C16_textfile_concat_counterexample :
    (Guard.run keyConcat {} [[[97], [98]], [[97, 98], []]]).disk = some (textFile [[97], [98]]) ∧
    textFile [[97], [98]] ≠ textFile [[97, 98], []] := by decide

open TemplVerif.Watch in
/-- T1: in FSEventHandler.generate the guarding digest is taken of `[]byte(joined)`, the bytes written are
    `[]byte(joined)`, and `joined` is the literals joined by line feeds. -/
theorem C16_textguard_pinned :
    Generated.textJoinedExpr = [115, 116, 114, 105, 110, 103, 115, 46, 74, 111, 105, 110, 40, 103, 101, 110, 101, 114, 97, 116, 111, 114, 79, 117, 116, 112, 117, 116, 46, 76, 105, 116, 101, 114, 97, 108, 115, 44, 32, 34, 92, 110, 34, 41] ∧
    Generated.textHashOf = [115, 104, 97, 50, 53, 54, 46, 83, 117, 109, 50, 53, 54, 32, 111, 102, 32, 91, 93, 98, 121, 116, 101, 40, 106, 111, 105, 110, 101, 100, 41] ∧
    Generated.textGuardArg = [116, 120, 116, 72, 97, 115, 104] ∧
    Generated.textWriteArg = [91, 93, 98, 121, 116, 101, 40, 106, 111, 105, 110, 101, 100, 41] := by decide

open TemplVerif.Watch in
/-- The running program: while the cache is not ahead of the file (`Inv`), every look at the file `throttle` or more
    after the file's last modification returns the file's current lines - and keeps the invariant. -/
theorem C16_watch_fresh (throttle : Nat) (c : Cache) (f : File) (now : Nat) (hi : Inv c f) (hn : f.mtime + throttle ≤ now) :
    (look loadMtime throttle c f now).lines = f.lines ∧ Inv (look loadMtime throttle c f now) f := by
  obtain ⟨h1, h2⟩ := hi
  unfold look
  have hth : ¬ (now - c.time < throttle) := by omega
  simp only [hth, ↓reduceIte]
  by_cases hgt : f.mtime > c.time
  · simp only [hgt, decide_true, Bool.not_true, Bool.false_eq_true, ↓reduceIte, loadMtime]
    exact ⟨trivial, Nat.le_refl _, fun _ => rfl⟩
  · have heq : c.time = f.mtime := by omega
    simp only [hgt, decide_false, Bool.not_false, ↓reduceIte]
    exact ⟨h2 heq, h1, h2⟩

open TemplVerif.Watch in
/-- `Inv` holds after a load, survives every look (early ones included), and survives every rewrite of the file that
    gets a later modification time (the file system's clock is the assumption here). -/
theorem C16_watch_inv (throttle : Nat) (c : Cache) (f : File) (now : Nat) (hi : Inv c f) :
    Inv (loadMtime f now) f ∧ Inv (look loadMtime throttle c f now) f ∧ (∀ f' : File, f.mtime < f'.mtime → Inv c f') := by
  obtain ⟨h1, h2⟩ := hi
  refine ⟨⟨Nat.le_refl _, fun _ => rfl⟩, ?_, ?_⟩
  · unfold look
    split
    · exact ⟨h1, h2⟩
    · split
      · exact ⟨h1, h2⟩
      · exact ⟨Nat.le_refl _, fun _ => rfl⟩
  · intro f' hlt
    exact ⟨by omega, fun h => by omega⟩

open TemplVerif.Watch in
/-- Why the remembered time must be the FILE's: remembering the time of loading (10) and a rewrite stamped by a
    coarser clock (9, later content) is never noticed, however late one looks. -/
theorem C16_watch_loadtime_counterexample :
    ∀ now ∈ [200, 5000, 1000000],
      (look loadNow 100 (loadNow { mtime := 5, lines := [[97]] } 10) { mtime := 9, lines := [[98]] } now).lines = [[97]] := by decide

/-- T1: cacheStrings remembers `info.ModTime()` of `txtFile.Stat()`; getWatchedStrings serves the cache while
    `time.Since(state.modTime) < 100ms` and otherwise reloads unless `!info.ModTime().After(state.modTime)`. -/
theorem C16_watch_pinned :
    Generated.watchCacheModTimeExpr = [105, 110, 102, 111, 46, 77, 111, 100, 84, 105, 109, 101, 40, 41] ∧
    Generated.watchCacheInfoSource = [116, 120, 116, 70, 105, 108, 101, 46, 83, 116, 97, 116, 40, 41] ∧
    Generated.watchThrottleCond = [116, 105, 109, 101, 46, 83, 105, 110, 99, 101, 40, 115, 116, 97, 116, 101, 46, 109, 111, 100, 84, 105, 109, 101, 41, 32, 60, 32, 116, 105, 109, 101, 46, 77, 105, 108, 108, 105, 115, 101, 99, 111, 110, 100, 42, 49, 48, 48] ∧
    Generated.watchStaleCond = [33, 105, 110, 102, 111, 46, 77, 111, 100, 84, 105, 109, 101, 40, 41, 46, 65, 102, 116, 101, 114, 40, 115, 116, 97, 116, 101, 46, 109, 111, 100, 84, 105, 109, 101, 41] := by decide

/-- Non-vacuity: a load, an early look (throttled: old lines are still allowed), a rewrite, a late look. -/
example : Watch.Inv (Watch.loadMtime { mtime := 5, lines := [[97]] } 6) { mtime := 5, lines := [[97]] } := ⟨Nat.le_refl _, fun _ => rfl⟩
example : (Watch.look Watch.loadMtime 100 (Watch.loadMtime { mtime := 5, lines := [[97]] } 6) { mtime := 50, lines := [[98]] } 150).lines = [[98]] := by decide

-- BEGIN transcription pins (written by tools/mkpins.py)
/-- T1, transcription pins: the control structure and calls (extract/skeleton.go) of the functions whose models
    were written by hand are the ones the models were transcribed from:
      cmd/templ/generatecmd/eventhandler.go FSEventHandler.UpsertHash
      runtime/watchmode.go WriteString
      runtime/watchmode.go cacheStrings
      runtime/watchmode.go getWatchedStrings
    A change of what one of them calls or how it branches breaks this theorem; the check then searches for a
    failing input and reports either that or `no-failing-input-found`. -/
theorem C16_transcription_pinned :
    Generated.skel_events_UpsertHash = 1893232857796062501 ∧
    Generated.skel_watch_WriteString = 10797578298239768643 ∧
    Generated.skel_watch_cacheStrings = 8400153006987411092 ∧
    Generated.skel_watch_getWatchedStrings = 2729183200917924902 := by decide
-- END transcription pins

/-! ## One window of the watch loop -/

open TemplVerif.Watch in
/-- The program is rebuilt at the end of a window exactly when SOME event of the window needs a recompilation - wherever
    in the window it came; an edit classified as needing none never cancels an earlier one that does. -/
theorem C16_window_rebuild (evs : List Ev) : (window evs).1 = evs.any (·.goUpdated) ∧ (window evs).2 = evs.any (·.textUpdated) := by
  have h : ∀ (acc : Bool × Bool), (evs.foldl (fun acc e => (acc.1 || e.goUpdated, acc.2 || e.textUpdated)) acc) =
      (acc.1 || evs.any (·.goUpdated), acc.2 || evs.any (·.textUpdated)) := by
    induction evs with
    | nil => intro acc; simp
    | cons e es ih => intro acc; simp only [List.foldl_cons, List.any_cons, ih, Bool.or_assoc]
  have h0 := h (false, false)
  simp only [Bool.false_or] at h0
  unfold window
  rw [h0]
  exact ⟨rfl, rfl⟩

open TemplVerif.Watch in
/-- Why the flags accumulate: if the last event decided alone, a Go-changing edit followed by a text-only one in the same
    window would leave the old program running. -/
theorem C16_window_last_counterexample :
    (windowLast [⟨true, true⟩, ⟨false, true⟩]).1 = false ∧ (window [⟨true, true⟩, ⟨false, true⟩]).1 = true := by decide

/-- T1: in cmd.go the flags are only ever assigned `flag || event's flag` or reset to false, and the rebuild is decided
    by the Go flag. -/
theorem C16_window_pinned :
    Generated.windowGoUpdatedAssigns = [103, 111, 85, 112, 100, 97, 116, 101, 100, 32, 124, 124, 32, 103, 101, 46, 71, 111, 85, 112, 100, 97, 116, 101, 100, 32, 59, 59, 32, 102, 97, 108, 115, 101] ∧
    Generated.windowTextUpdatedAssigns = [116, 101, 120, 116, 85, 112, 100, 97, 116, 101, 100, 32, 124, 124, 32, 103, 101, 46, 84, 101, 120, 116, 85, 112, 100, 97, 116, 101, 100, 32, 59, 59, 32, 102, 97, 108, 115, 101] ∧
    Generated.windowRebuildCond = [99, 109, 100, 46, 65, 114, 103, 115, 46, 67, 111, 109, 109, 97, 110, 100, 32, 33, 61, 32, 34, 34, 32, 38, 38, 32, 103, 111, 85, 112, 100, 97, 116, 101, 100] := by decide

end TemplVerif.Props.C16
