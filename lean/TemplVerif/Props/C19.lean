import TemplVerif.Generated.Skeletons
import TemplVerif.Model.Sse
import TemplVerif.Generated.Sse
import TemplVerif.Proofs.Sse
/-
C19 — the live-reload broadcast is reliable and survives client churn.
The model's two wiring parameters are regenerated from sse/server.go on every run.
-/
namespace TemplVerif.Props.C19
open TemplVerif TemplVerif.Sse

/-- The wiring of the code as it is now. -/
def codeCfg : Cfg := ⟨Generated.sseClosesChannelOnExit, Generated.sseDeliverySelectsDone⟩

/-- T1: the handler does not close the event channel and the delivery goroutine can always take its done branch. -/
theorem C19_wiring_pinned : codeCfg = Proofs.Sse.safeCfg := by decide

/-- T1: a pending delivery ends in exactly one of two ways - the client takes the event, or the client is gone. The
    delivery goroutine's select has these two cases and nothing else (no default, no timer): the model's `deliver` /
    `drop` are the only transitions out of `pending`, so "nothing is dropped" (C19_delivery) speaks about the code. -/
theorem C19_delivery_never_gives_up :
    Generated.sseDeliverySelectCases = 2 ∧ Generated.sseDeliverySelectHasDefault = false := by decide

/-- No schedule of subscriptions, broadcasts, deliveries, cancellations and exits panics (no send on a closed
    channel); the broadcaster is never blocked (`broadcast` is enabled in every state by construction). -/
theorem C19_safe (sched : List Action) : (run codeCfg {} sched).isSome = true := by
  rw [C19_wiring_pinned]; exact Proofs.Sse.run_isSome {} sched

/-- Nothing is dropped: a client that was registered when an event was broadcast and has not been cancelled has
    received it or its delivery is still pending (with a fair scheduler: will receive it). -/
theorem C19_delivery (sched : List Action) (s : State) (h : run codeCfg {} sched = some s)
    (c e : Nat) (hr : (c, e) ∈ s.registeredAt) :
    ∃ cl, findClient s c = some cl ∧ (cl.cancelled = true ∨ e ∈ cl.received ∨ (c, e) ∈ s.pending) := by
  rw [C19_wiring_pinned] at h; exact Proofs.Sse.accounted_run sched s h c e hr

/-- No goroutine leak: the delivery goroutines of a departed client can always finish. -/
theorem C19_no_leak (sched : List Action) (s : State) (h : run codeCfg {} sched = some s)
    (c e : Nat) (hp : (c, e) ∈ s.pending) (cl : Client) (hc : findClient s c = some cl) (hx : cl.exited = true) :
    ∃ s', step codeCfg s (.drop c e) = .ok s' := by
  rw [C19_wiring_pinned] at h ⊢; exact Proofs.Sse.pending_of_exited_can_drop sched s h c e hp cl hc hx

/-- The unrepaired wiring (close on exit, unconditional send) panics on this five-step schedule. -/
theorem C19_unrepaired_counterexample :
    run ⟨true, false⟩ {} [.subscribe 1, .broadcast, .cancel 1, .exit 1, .deliver 1 0] = none := by decide

/-- Non-vacuity: a schedule in which a live client receives two events while another leaves mid-broadcast. -/
example : (run Proofs.Sse.safeCfg {} [.subscribe 1, .subscribe 2, .broadcast, .cancel 2, .deliver 1 0, .exit 2, .drop 2 0,
    .broadcast, .deliver 1 1]).map (fun s => (s.clients.map (·.received), s.pending)) = some ([[0, 1], []], []) := by decide

-- BEGIN transcription pins (written by tools/mkpins.py)
/-- T1, transcription pins: the control structure and calls (extract/skeleton.go) of the functions whose models
    were written by hand are the ones the models were transcribed from:
      cmd/templ/generatecmd/sse/server.go Handler.Send
      cmd/templ/generatecmd/sse/server.go Handler.ServeHTTP
    A change of what one of them calls or how it branches breaks this theorem; the check then searches for a
    failing input and reports either that or `no-failing-input-found`. -/
theorem C19_transcription_pinned :
    Generated.skel_sse_Send = 7103011776469186124 ∧
    Generated.skel_sse_ServeHTTP = 13318822914245842495 := by decide
-- END transcription pins

end TemplVerif.Props.C19
