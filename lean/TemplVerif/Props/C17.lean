import TemplVerif.Generated.Skeletons
import TemplVerif.Proofs.Docs
import TemplVerif.Model.Doc
import TemplVerif.Proofs.Doc
/-
C17 — the language server's document copy tracks the editor through any edit sequence.
Property theorems only; helper lemmas live in Proofs/Doc.lean.

`Doc.apply` transcribes `Document.Apply` (normalize, isWholeDocument, Insert, Delete, Overwrite,
InsertLines, DeleteLines); `Editor.apply` is the specification: a byte splice at clamped offsets.
-/
namespace TemplVerif.Props.C17
open TemplVerif TemplVerif.Doc

/-- `NewDocument` yields a well-formed document whose text is the input. -/
theorem C17_open (t : Bytes) : WellFormed (ofText t) ∧ text (ofText t) = t :=
  Proofs.Doc.ofText_wf_text t

/-- A nil range replaces the whole document. -/
theorem C17_nil (d : Doc) (txt : Bytes) :
    text (Doc.apply d none txt) = Editor.apply (text d) none txt :=
  Proofs.Doc.apply_nil d txt

/-- Every range edit is exactly the editor's byte splice (positions clamped), for every document,
    range with start ≤ end after clamping, and replacement text. -/
theorem C17_main (d : Doc) (hd : WellFormed d) (r : Rng) (txt : Bytes)
    (ho : ordered d (some r) = true) :
    text (Doc.apply d (some r) txt) = Editor.apply (text d) (some r) txt :=
  Proofs.Doc.apply_some d hd r txt ho

/-- Well-formedness is preserved, so the step theorem applies along any history. -/
theorem C17_wf (d : Doc) (hd : WellFormed d) (r : Option Rng) (txt : Bytes) :
    WellFormed (Doc.apply d r txt) :=
  Proofs.Doc.apply_wf d hd r txt

/-- After any sequence of open + changes the server's copy equals the editor's buffer. -/
theorem C17_hist (t₀ : Bytes) (cs : List Change) (h : allOrdered t₀ cs = true) :
    text (cs.foldl (fun d c => Doc.apply d c.1 c.2) (ofText t₀))
      = cs.foldl (fun t c => Editor.apply t c.1 c.2) t₀ :=
  Proofs.Doc.hist t₀ cs h

/-- Non-vacuity: a concrete multi-line document and an ordered, clamped, multi-line overwrite. -/
example : WellFormed [[97, 98], [99, 100]] ∧ ordered [[97, 98], [99, 100]] (some ⟨⟨0, 1⟩, ⟨5, 9⟩⟩) = true ∧
    text (Doc.apply [[97, 98], [99, 100]] (some ⟨⟨0, 1⟩, ⟨5, 9⟩⟩) [120, 10, 121]) = [97, 120, 10, 121] := by
  refine ⟨⟨by simp, by simp⟩, by decide, by decide⟩

/-- The edit that the unrepaired `isWholeDocument` (`||`) mishandled: replace 0:0–0:2 of "ab\ncd" by "X". -/
example : text (Doc.apply [[97, 98], [99, 100]] (some ⟨⟨0, 0⟩, ⟨0, 2⟩⟩) [88]) = [88, 10, 99, 100] := by decide

/-! ## Several documents open at once

The server keeps one document per URI (`DocumentContents`, model `Docs`); URIs are compared byte for byte. -/

/-- A message about one document - open, change, close - leaves every other document as it is. -/
theorem C17_other_documents_untouched (s : Docs.Store) (m : Docs.Msg) (v : Bytes) (h : v ≠ m.uri) :
    Docs.lookup (Docs.step s m) v = Docs.lookup s v :=
  Proofs.Docs.step_other s m v h

/-- For ANY session over any number of documents, however interleaved: the server's copy of a document is what the
    messages about THAT document alone produce (to which `C17_hist` applies). -/
theorem C17_sessions_independent (ms : List Docs.Msg) (s : Docs.Store) (v : Bytes) :
    Docs.lookup (Docs.run s ms) v = Docs.lookup (Docs.run s (ms.filter fun m => m.uri == v)) v :=
  Proofs.Docs.run_filter ms s v

/-- Non-vacuity: two files whose names differ in letter case, edited in turn; closing one leaves the other. -/
example :
    let a : Bytes := [67, 97, 114, 100]   -- "Card"
    let b : Bytes := [99, 97, 114, 100]   -- "card"
    let s := Docs.run [] [.didOpen a [120], .didOpen b [121], .didChange a [(none, [122])], .didClose b]
    Docs.lookup s a = some [[122]] ∧ Docs.lookup s b = none := by decide

-- BEGIN transcription pins (written by tools/mkpins.py)
/-- T1, transcription pins: the control structure and calls (extract/skeleton.go) of the functions whose models
    were written by hand are the ones the models were transcribed from:
      cmd/templ/lspcmd/proxy/documentcontents.go Document.Apply
      cmd/templ/lspcmd/proxy/documentcontents.go DocumentContents.Apply
      cmd/templ/lspcmd/proxy/documentcontents.go DocumentContents.Delete
      cmd/templ/lspcmd/proxy/documentcontents.go DocumentContents.Get
      cmd/templ/lspcmd/proxy/documentcontents.go DocumentContents.Set
    A change of what one of them calls or how it branches breaks this theorem; the check then searches for a
    failing input and reports either that or `no-failing-input-found`. -/
theorem C17_transcription_pinned :
    Generated.skel_doc_Apply = 1459160687817986463 ∧
    Generated.skel_docs_Apply = 8278605816079025170 ∧
    Generated.skel_docs_Delete = 11745228130802125813 ∧
    Generated.skel_docs_Get = 5466098810276460731 ∧
    Generated.skel_docs_Set = 14886732193117025948 := by decide
-- END transcription pins

end TemplVerif.Props.C17
