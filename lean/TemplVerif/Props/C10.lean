import TemplVerif.Generated.Skeletons
import TemplVerif.Model.Buf
import TemplVerif.Proofs.Buf
import TemplVerif.Proofs.Prefix
/-
C10 — rendering is exact and fail-stop under writer, expression and context failures.
`Buf.render` models a generated Render over runtime.Buffer (bufio.Writer of fixed capacity) and the buffer pool.
-/
namespace TemplVerif.Props.C10
open TemplVerif TemplVerif.Buf

theorem C10_prefix (ops : List ROp) (pooled : BW) (u : Under) (hc : 0 < pooled.cap) :
    ∃ rest, u.accepted ++ docOf ops = (render false ops pooled u).1.u.accepted ++ rest :=
  Proofs.Buf.render_prefix ops pooled u hc

theorem C10_nil_full (ops : List ROp) (pooled : BW) (u : Under) (hc : 0 < pooled.cap)
    (h : (render false ops pooled u).2 = .none) :
    (render false ops pooled u).1.u.accepted = u.accepted ++ docOf ops :=
  Proofs.Buf.render_nil_full ops pooled u hc h

/-- Writer failure at ANY byte offset before the end (short write or zero write) is reported. -/
theorem C10_fault_reported (ops : List ROp) (pooled : BW) (u : Under) (hc : 0 < pooled.cap) (k : Nat)
    (hl : u.limit = some k) (ha : u.accepted.length ≤ k) (hk : k < u.accepted.length + (docOf ops).length)
    (hf : failFree ops = true) :
    (render false ops pooled u).2 = .writer :=
  Proofs.Buf.render_fault_reported ops pooled u hc k hl ha hk hf

/-- Expression / nested component errors: returned as such, output stops exactly there. -/
theorem C10_step_error (ops : List ROp) (pooled : BW) (u : Under) (hc : 0 < pooled.cap) (hl : u.limit = none) :
    (render false ops pooled u).2 = (Proofs.Buf.docBefore ops).2 ∧
    (render false ops pooled u).1.u.accepted = u.accepted ++ (Proofs.Buf.docBefore ops).1 :=
  Proofs.Buf.render_step_error ops pooled u hc hl

theorem C10_ctx (ops : List ROp) (pooled : BW) (u : Under) :
    (render true ops pooled u).2 = .ctx ∧ (render true ops pooled u).1 = pooled :=
  Proofs.Buf.render_cancelled ops pooled u

/-- A failed render never alters a later render: the pooled buffer contributes only its capacity. -/
theorem C10_pool (ops : List ROp) (pooled : BW) (u : Under) :
    render false ops pooled u = render false ops { cap := pooled.cap } u :=
  Proofs.Buf.render_pool_independent ops pooled u

/-! The three theorems above quantify over EVERY behaviour of the caller's writer the model has, also over writers that
    break the io.Writer contract (`silent`: from the limit on they take less than they were given and return no
    error). `runtime.Buffer` puts a checking writer in front of them (repair `0f5e0ab`); without it bufio's loop for a
    large write into an empty buffer does not move. -/

theorem C10_unchecked_silent_stuck (b : BW) (p : Bytes) (k : Nat) (hl : b.u.limit = some k) (hk : k ≤ b.u.accepted.length)
    (hz : b.u.zeroWrite = true) (hs : b.u.silent = true) (he : b.err = false) (hp : p ≠ []) :
    b.largeStepUnchecked p = (b, p) :=
  Proofs.Buf.largeStepUnchecked_stuck b p k hl hk hz hs he hp

theorem C10_silent_zero_reported (b : BW) (p : Bytes) (k : Nat) (hl : b.u.limit = some k) (hk : k ≤ b.u.accepted.length)
    (hz : b.u.zeroWrite = true) (hs : b.u.silent = true) (he : b.err = false) (hb : b.buf = []) (hp : b.cap < p.length) :
    (b.write p).err = true ∧ (b.write p).u.accepted = b.u.accepted :=
  Proofs.Buf.write_silent_zero_reported b p k hl hk hz hs he hb hp

/-- Non-vacuity: a silent zero-writer that has accepted its 2 bytes; capacity 4; a 7-byte document in one write is
    reported as the writer's failure with nothing more accepted, a silent SHORT writer (one that takes what fits) too. -/
example :
    (render false [.write [1, 2, 3, 4, 5, 6, 7]] { cap := 4 } { accepted := [8, 9], limit := some 2, zeroWrite := true, silent := true }).2 = .writer ∧
    (render false [.write [1, 2, 3, 4, 5, 6, 7]] { cap := 4 } { accepted := [8, 9], limit := some 2, zeroWrite := true, silent := true }).1.u.accepted = [8, 9] ∧
    (render false [.write [1, 2, 3], .write [4, 5, 6, 7]] { cap := 4 } { limit := some 5, silent := true }).2 = .writer ∧
    (render false [.write [1, 2, 3], .write [4, 5, 6, 7]] { cap := 4 } { limit := some 5, silent := true }).1.u.accepted = [1, 2, 3, 4, 5] := by decide

/-- Non-vacuity: capacity 4, a 7-byte document in three writes, writer failing at offset 5 (short write): the writer
    holds the 5-byte prefix and the error is the writer's; the same buffer then renders completely on a healthy writer. -/
example :
    let r1 := render false [.write [1, 2, 3], .write [4, 5], .write [6, 7]] { cap := 4 } { limit := some 5 }
    r1.2 = .writer ∧ r1.1.u.accepted = [1, 2, 3, 4, 5] ∧
    (render false [.write [1, 2, 3], .sub [.write [4, 5]], .write [6, 7]] r1.1 {}).1.u.accepted = [1, 2, 3, 4, 5, 6, 7] := by decide

/-! ## Whole templates

The theorems above are about the buffer a generated Render writes through. Over the template semantics of C02
(`Denote`, which the real generated code is compared with on every C02 run) the fail-stop clause holds for EVERY
template body and EVERY environment: a render in which an expression or a nested component fails has written a prefix
of the document the same template writes when nothing fails, and has evaluated a prefix of its expressions; and a
render that reports no error is that complete document. -/
theorem C10_template_prefix (body : Ast.Nodes) (env : Sem.Env) :
    (Denote.run body env).out <+: (Denote.run body (Proofs.Prefix.clearErr env)).out ∧
    (Denote.run body env).trace <+: (Denote.run body (Proofs.Prefix.clearErr env)).trace :=
  Proofs.Prefix.run_prefix body env

theorem C10_template_nil_full (body : Ast.Nodes) (env : Sem.Env) (h : (Denote.run body env).err = false) :
    Denote.run body (Proofs.Prefix.clearErr env) = Denote.run body env :=
  Proofs.Prefix.run_clear_of_ok body env h

/-- Once a render has failed, the rest of the template writes nothing, evaluates nothing and emits no script. -/
theorem C10_template_frozen (strict all atStart : Bool) (ns : Ast.Nodes) (next : Bool) (env : Sem.Env) (st : Sem.St) (h : st.err = true) :
    (Denote.nodes strict all atStart ns next env st).out = st.out ∧
    (Denote.nodes strict all atStart ns next env st).trace = st.trace ∧
    (Denote.nodes strict all atStart ns next env st).scripts = st.scripts :=
  Proofs.Prefix.nodes_err_frozen strict all atStart ns next env st h

/-- Non-vacuity: `<p>{ s }<b>x</b></p>` with a failing `s` stops after `<p>`; without the failure it is the whole document. -/
example :
    let body : Ast.Nodes := .cons (.element [112] .nil (.cons (.strExpr [115] .none) (.cons (.element [98] .nil (.cons (.text [120] .none) .nil) .none false false) .nil)) .none false false) .nil
    let env : Sem.Env := [([115], { keys := [[115]], val := .str [118] true })]
    (Denote.run body env).out = [60, 112, 62] ∧ (Denote.run body env).err = true ∧
    (Denote.run body (Proofs.Prefix.clearErr env)).out = [60, 112, 62, 118, 60, 98, 62, 120, 60, 47, 98, 62, 60, 47, 112, 62] := by decide

-- BEGIN transcription pins (written by tools/mkpins.py)
/-- T1, transcription pins: the control structure and calls (extract/skeleton.go) of the functions whose models
    were written by hand are the ones the models were transcribed from:
      runtime/buffer.go Buffer.Flush
      runtime/buffer.go Buffer.Write
      runtime/buffer.go Buffer.WriteString
    A change of what one of them calls or how it branches breaks this theorem; the check then searches for a
    failing input and reports either that or `no-failing-input-found`. -/
theorem C10_transcription_pinned :
    Generated.skel_buffer_Flush = 10291836389689593901 ∧
    Generated.skel_buffer_Write = 10621659015139386241 ∧
    Generated.skel_buffer_WriteString = 9478870129110372894 := by decide
-- END transcription pins

end TemplVerif.Props.C10
