import TemplVerif.Model.Buf
import TemplVerif.Proofs.Buf
/-
C10 — rendering is exact and fail-stop under writer, expression and context failures.
`Buf.render` models a generated Render over runtime.Buffer (bufio.Writer of fixed capacity) and the buffer pool.
-/
namespace TemplVerif.Props.C10
open TemplVerif TemplVerif.Buf

theorem C10_prefix (ops : List ROp) (pooled : BW) (u : Under) (hc : 0 < pooled.cap) :
    ∃ rest, u.accepted ++ docOf ops = (render false ops pooled u).1.u.accepted ++ rest :=
  Proofs.Buf.render_prefix ops pooled u hc

theorem C10_nil_full (ops : List ROp) (pooled : BW) (u : Under) (hc : 0 < pooled.cap)
    (h : (render false ops pooled u).2 = .none) :
    (render false ops pooled u).1.u.accepted = u.accepted ++ docOf ops :=
  Proofs.Buf.render_nil_full ops pooled u hc h

/-- Writer failure at ANY byte offset before the end (short write or zero write) is reported. -/
theorem C10_fault_reported (ops : List ROp) (pooled : BW) (u : Under) (hc : 0 < pooled.cap) (k : Nat)
    (hl : u.limit = some k) (ha : u.accepted.length ≤ k) (hk : k < u.accepted.length + (docOf ops).length)
    (hf : failFree ops = true) :
    (render false ops pooled u).2 = .writer :=
  Proofs.Buf.render_fault_reported ops pooled u hc k hl ha hk hf

/-- Expression / nested component errors: returned as such, output stops exactly there. -/
theorem C10_step_error (ops : List ROp) (pooled : BW) (u : Under) (hc : 0 < pooled.cap) (hl : u.limit = none) :
    (render false ops pooled u).2 = (Proofs.Buf.docBefore ops).2 ∧
    (render false ops pooled u).1.u.accepted = u.accepted ++ (Proofs.Buf.docBefore ops).1 :=
  Proofs.Buf.render_step_error ops pooled u hc hl

theorem C10_ctx (ops : List ROp) (pooled : BW) (u : Under) :
    (render true ops pooled u).2 = .ctx ∧ (render true ops pooled u).1 = pooled :=
  Proofs.Buf.render_cancelled ops pooled u

/-- A failed render never alters a later render: the pooled buffer contributes only its capacity. -/
theorem C10_pool (ops : List ROp) (pooled : BW) (u : Under) :
    render false ops pooled u = render false ops { cap := pooled.cap } u :=
  Proofs.Buf.render_pool_independent ops pooled u

/-- Non-vacuity: capacity 4, a 7-byte document in three writes, writer failing at offset 5 (short write): the writer
    holds the 5-byte prefix and the error is the writer's; the same buffer then renders completely on a healthy writer. -/
example :
    let r1 := render false [.write [1, 2, 3], .write [4, 5], .write [6, 7]] { cap := 4 } { limit := some 5 }
    r1.2 = .writer ∧ r1.1.u.accepted = [1, 2, 3, 4, 5] ∧
    (render false [.write [1, 2, 3], .sub [.write [4, 5]], .write [6, 7]] r1.1 {}).1.u.accepted = [1, 2, 3, 4, 5, 6, 7] := by decide

end TemplVerif.Props.C10
