import TemplVerif.Generated.Skeletons
import TemplVerif.Model.Gen
import TemplVerif.Model.Denote
import TemplVerif.Proofs.Gen
/-
C02 — generated code renders exactly what the template denotes.

`Gen.run` is the model of the generated code running (tied to the real generator + Go compiler behaviourally: every
correspondence run compiles real generated code and compares bytes, error and evaluation trace with it);
`Denote.run` is the specification. Proved for EVERY template body and environment:
  * C02_refines_hoistAll — the generated code is exactly the direct reading of the tree, except that class /
    script-handler expressions below conditional attributes are announced (evaluated, their <style>/<script> emitted)
    whether or not they are reached;
  * C02_refines_partial — hence for every template without such an attribute it renders exactly what the template denotes;
  * C02_counterexample — and with one it does not (the genuine defect on record; the suite's
    generator/test-element-attributes/expected.html pins the behaviour, so it is a known finding, not a fix);
  * the whitespace clauses: C02_space_not_invented, C02_space_kept, C02_successor_skips_whitespace.
Not proved (observed in every run): that the generated Go compiles; Lean has no Go type checker.
-/
namespace TemplVerif.Props.C02
open TemplVerif TemplVerif.Ast TemplVerif.Sem

theorem C02_refines_hoistAll (body : Nodes) (env : Env) :
    Gen.run body env = Denote.runHoistAll body env :=
  Proofs.Gen.execs_genNodes true true body false env {}

theorem C02_refines_partial (body : Nodes) (env : Env) (h : Denote.Nodes.hoistFree body = true) :
    Gen.run body env = Denote.run body env := by
  rw [C02_refines_hoistAll]
  exact (Proofs.Gen.strict_irrelevant true true body false env {} h).symm

/-- `<div if B("c") { class={ CL("k") } }>x</div>` with the condition false: the generated code evaluates CL("k")
    (mark `k` in its trace); the template does not reach it. -/
theorem C02_counterexample :
    let body : Nodes := .cons (.element [100, 105, 118] (.cons (.cond [99] (.cons (.expr [99, 108, 97, 115, 115] [107]) .nil) .nil) .nil)
                                (.cons (.text [120] .none) .nil) .none false false) .nil
    let env : Env := [([99], { keys := [[99]], val := .bool false }), ([107], { keys := [[107]], val := .classes [122] })]
    Denote.Nodes.hoistFree body = false ∧
    (Gen.run body env).trace = [[107], [99]] ∧ (Denote.run body env).trace = [[99]] ∧
    (Gen.run body env).out = (Denote.run body env).out := by
  decide

theorem C02_space_not_invented (strict : Bool) (a : Node) (env : Env) (st : St)
    (hk : (∃ v t, a = .text v t) ∨ (∃ e t, a = .strExpr e t) ∨ (∃ n as cs t ia ic, a = .element n as cs t ia ic))
    (ht : Node.trail a = .none) :
    Denote.node strict a true env st = Denote.node strict a false env st :=
  Proofs.Gen.space_not_invented strict a env st hk ht

theorem C02_space_kept (strict : Bool) (a : Node) (env : Env) (st : St)
    (hk : (∃ v t, a = .text v t) ∨ (∃ e t, a = .strExpr e t) ∨ (∃ n as cs t ia ic, a = .element n as cs t ia ic))
    (hi : Node.inline a = true) (ht : Node.trail a ≠ .none)
    (hok : (Denote.node strict a false env st).err = false) :
    Denote.node strict a true env st = (Denote.node strict a false env st).write [32] :=
  Proofs.Gen.space_kept strict a env st hk hi ht hok

theorem C02_successor_skips_whitespace (strict : Bool) (a b : Node) (rest : Nodes) (next : Bool) (env : Env) (st : St)
    (ha : a.isWs = false) (hb : b.isWs = false) :
    Denote.nodes strict true false (.cons a (.cons b rest)) next env st =
      Denote.nodes strict true false (.cons b rest) next env (Denote.node strict a (Node.inline b) env st) ∧
    ∀ w, Denote.nodes strict true false (.cons a (.cons (.ws w) (.cons b rest))) next env st =
      Denote.nodes strict true false (.cons b rest) next env (Denote.node strict a (Node.inline b) env st) :=
  Proofs.Gen.successor_skips_whitespace strict a b rest next env st ha hb

/-- Non-vacuity: `<p>{ S } <b>x</b> y</p>` followed by an if — text, expression, inline element, control flow; the model of
    the generated code and the denotation write the same 28 bytes, evaluating S then C. -/
example :
    let body : Nodes := .cons (.element [112] .nil
        (.cons (.strExpr [83] .horiz) (.cons (.element [98] .nil (.cons (.text [120] .none) .nil) .horiz false false)
          (.cons (.text [121] .none) .nil))) .vert false false)
        (.cons (.ifE [67] (.cons (.text [122] .vert) .nil) .nil .nil) .nil)
    let env : Env := [([83], { keys := [[83]], val := .str [60] false }), ([67], { keys := [[67]], val := .bool true })]
    (Gen.run body env).out = [60, 112, 62, 38, 108, 116, 59, 32, 60, 98, 62, 120, 60, 47, 98, 62, 32, 121, 60, 47, 112, 62, 122] ∧
    (Gen.run body env).trace = [[83], [67]] ∧ Gen.run body env = Denote.run body env := by
  decide

set_option maxRecDepth 8192 in
/-- T1: what the current source says where the model depends on it — the value-writer chain of
    writeExpressionAttribute, the cases of isInlineOrText, the hoisted attribute name and the script-attribute prefixes
    (the element tables voidElements / blockElements are used by the model directly from the extraction). -/
theorem C02_pinned :
    Generated.exprAttrChain =
      [[40, 115, 116, 114, 105, 110, 103, 115, 46, 69, 113, 117, 97, 108, 70, 111, 108, 100, 40, 101, 108, 101, 109, 101, 110, 116, 78, 97, 109, 101, 44, 32, 34, 97, 34, 41, 32, 38, 38, 32, 115, 116, 114, 105, 110, 103, 115, 46, 69, 113, 117, 97, 108, 70, 111, 108, 100, 40, 97, 116, 116, 114, 46, 78, 97, 109, 101, 44, 32, 34, 104, 114, 101, 102, 34, 41, 41, 32, 124, 124, 32, 40, 115, 116, 114, 105, 110, 103, 115, 46, 69, 113, 117, 97, 108, 70, 111, 108, 100, 40, 101, 108, 101, 109, 101, 110, 116, 78, 97, 109, 101, 44, 32, 34, 102, 111, 114, 109, 34, 41, 32, 38, 38, 32, 115, 116, 114, 105, 110, 103, 115, 46, 69, 113, 117, 97, 108, 70, 111, 108, 100, 40, 97, 116, 116, 114, 46, 78, 97, 109, 101, 44, 32, 34, 97, 99, 116, 105, 111, 110, 34, 41, 41, 32, 61, 62, 32, 119, 114, 105, 116, 101, 69, 120, 112, 114, 101, 115, 115, 105, 111, 110, 65, 116, 116, 114, 105, 98, 117, 116, 101, 86, 97, 108, 117, 101, 85, 82, 76],
       [105, 115, 83, 99, 114, 105, 112, 116, 65, 116, 116, 114, 105, 98, 117, 116, 101, 40, 97, 116, 116, 114, 46, 78, 97, 109, 101, 41, 32, 61, 62, 32, 119, 114, 105, 116, 101, 69, 120, 112, 114, 101, 115, 115, 105, 111, 110, 65, 116, 116, 114, 105, 98, 117, 116, 101, 86, 97, 108, 117, 101, 83, 99, 114, 105, 112, 116],
       [97, 116, 116, 114, 46, 78, 97, 109, 101, 32, 61, 61, 32, 34, 115, 116, 121, 108, 101, 34, 32, 61, 62, 32, 119, 114, 105, 116, 101, 69, 120, 112, 114, 101, 115, 115, 105, 111, 110, 65, 116, 116, 114, 105, 98, 117, 116, 101, 86, 97, 108, 117, 101, 83, 116, 121, 108, 101],
       [101, 108, 115, 101, 32, 61, 62, 32, 119, 114, 105, 116, 101, 69, 120, 112, 114, 101, 115, 115, 105, 111, 110, 65, 116, 116, 114, 105, 98, 117, 116, 101, 86, 97, 108, 117, 101, 68, 101, 102, 97, 117, 108, 116]] ∧
    Generated.inlineOrTextCases =
      [[112, 97, 114, 115, 101, 114, 46, 73, 102, 69, 120, 112, 114, 101, 115, 115, 105, 111, 110, 32, 61, 62, 32, 116, 114, 117, 101],
       [112, 97, 114, 115, 101, 114, 46, 83, 119, 105, 116, 99, 104, 69, 120, 112, 114, 101, 115, 115, 105, 111, 110, 32, 61, 62, 32, 116, 114, 117, 101],
       [112, 97, 114, 115, 101, 114, 46, 70, 111, 114, 69, 120, 112, 114, 101, 115, 115, 105, 111, 110, 32, 61, 62, 32, 116, 114, 117, 101],
       [112, 97, 114, 115, 101, 114, 46, 69, 108, 101, 109, 101, 110, 116, 32, 61, 62, 32, 33, 110, 46, 73, 115, 66, 108, 111, 99, 107, 69, 108, 101, 109, 101, 110, 116, 40, 41],
       [112, 97, 114, 115, 101, 114, 46, 84, 101, 120, 116, 32, 61, 62, 32, 116, 114, 117, 101],
       [112, 97, 114, 115, 101, 114, 46, 83, 116, 114, 105, 110, 103, 69, 120, 112, 114, 101, 115, 115, 105, 111, 110, 32, 61, 62, 32, 116, 114, 117, 101]] ∧
    Generated.cssAttrName = [99, 108, 97, 115, 115] ∧
    Generated.scriptAttrPrefixes = [[111, 110], [104, 120, 45, 111, 110, 58]] := by
  decide

-- BEGIN transcription pins (written by tools/mkpins.py)
/-- T1, transcription pins: the control structure and calls (extract/skeleton.go) of the functions whose models
    were written by hand are the ones the models were transcribed from:
      generator/generator.go generator.writeAttributeCSS
      generator/generator.go generator.writeAttributesCSS
      generator/generator.go generator.writeBlankAssignmentForRuntimeImport
      generator/generator.go generator.writeBlockTemplElementExpression
      generator/generator.go generator.writeBoolConstantAttribute
      generator/generator.go generator.writeBoolExpressionAttribute
      generator/generator.go generator.writeCSS
      generator/generator.go generator.writeCallTemplateExpression
      generator/generator.go generator.writeChildrenExpression
      generator/generator.go generator.writeCodeGeneratedComment
      generator/generator.go generator.writeComment
      generator/generator.go generator.writeConditionalAttribute
      generator/generator.go generator.writeConstantAttribute
      generator/generator.go generator.writeDocType
      generator/generator.go generator.writeElement
      generator/generator.go generator.writeElementAttributes
      generator/generator.go generator.writeElementCSS
      generator/generator.go generator.writeElementScript
      generator/generator.go generator.writeErrorHandler
      generator/generator.go generator.writeExpressionAttribute
      generator/generator.go generator.writeExpressionAttributeValueDefault
      generator/generator.go generator.writeExpressionAttributeValueScript
      generator/generator.go generator.writeExpressionAttributeValueStyle
      generator/generator.go generator.writeExpressionAttributeValueURL
      generator/generator.go generator.writeExpressionErrorHandler
      generator/generator.go generator.writeForExpression
      generator/generator.go generator.writeGeneratedDateComment
      generator/generator.go generator.writeGoCode
      generator/generator.go generator.writeGoExpression
      generator/generator.go generator.writeHeader
      generator/generator.go generator.writeIfExpression
      generator/generator.go generator.writeImports
      generator/generator.go generator.writeNode
      generator/generator.go generator.writeNodes
      generator/generator.go generator.writePackage
      generator/generator.go generator.writeRawElement
      generator/generator.go generator.writeScript
      generator/generator.go generator.writeScriptContents
      generator/generator.go generator.writeScriptElement
      generator/generator.go generator.writeSelfClosingTemplElementExpression
      generator/generator.go generator.writeSpreadAttributes
      generator/generator.go generator.writeStringExpression
      generator/generator.go generator.writeSwitchExpression
      generator/generator.go generator.writeTemplBuffer
      generator/generator.go generator.writeTemplElementExpression
      generator/generator.go generator.writeTemplate
      generator/generator.go generator.writeTemplateNodes
      generator/generator.go generator.writeText
      generator/generator.go generator.writeVersionComment
      generator/generator.go generator.writeWhitespace
      generator/generator.go generator.writeWhitespaceTrailer
    A change of what one of them calls or how it branches breaks this theorem; the check then searches for a
    failing input and reports either that or `no-failing-input-found`. -/
theorem C02_transcription_pinned :
    Generated.skel_gen_writeAttributeCSS = 10858082510981339322 ∧
    Generated.skel_gen_writeAttributesCSS = 17128375998541749753 ∧
    Generated.skel_gen_writeBlankAssignmentForRuntimeImport = 8364394957163665611 ∧
    Generated.skel_gen_writeBlockTemplElementExpression = 11326746197513157036 ∧
    Generated.skel_gen_writeBoolConstantAttribute = 17279520674632884351 ∧
    Generated.skel_gen_writeBoolExpressionAttribute = 365912194915787068 ∧
    Generated.skel_gen_writeCSS = 5516758861864974531 ∧
    Generated.skel_gen_writeCallTemplateExpression = 9594183451043399340 ∧
    Generated.skel_gen_writeChildrenExpression = 351564412331989652 ∧
    Generated.skel_gen_writeCodeGeneratedComment = 8357919265093665860 ∧
    Generated.skel_gen_writeComment = 7133478974922829661 ∧
    Generated.skel_gen_writeConditionalAttribute = 6633228310471802764 ∧
    Generated.skel_gen_writeConstantAttribute = 8569620026748607292 ∧
    Generated.skel_gen_writeDocType = 10529868399773554376 ∧
    Generated.skel_gen_writeElement = 9537736456058383951 ∧
    Generated.skel_gen_writeElementAttributes = 15876934111739183099 ∧
    Generated.skel_gen_writeElementCSS = 10254342041197554424 ∧
    Generated.skel_gen_writeElementScript = 763426321262258063 ∧
    Generated.skel_gen_writeErrorHandler = 3220571718826977137 ∧
    Generated.skel_gen_writeExpressionAttribute = 3511430070960549522 ∧
    Generated.skel_gen_writeExpressionAttributeValueDefault = 10919355300089812823 ∧
    Generated.skel_gen_writeExpressionAttributeValueScript = 9066903911087314849 ∧
    Generated.skel_gen_writeExpressionAttributeValueStyle = 2600459999555158370 ∧
    Generated.skel_gen_writeExpressionAttributeValueURL = 9066903911087314849 ∧
    Generated.skel_gen_writeExpressionErrorHandler = 3990333745618447584 ∧
    Generated.skel_gen_writeForExpression = 967216417881405918 ∧
    Generated.skel_gen_writeGeneratedDateComment = 4402119418485325256 ∧
    Generated.skel_gen_writeGoCode = 9082316895623791248 ∧
    Generated.skel_gen_writeGoExpression = 10832970467191123079 ∧
    Generated.skel_gen_writeHeader = 17757859098078167144 ∧
    Generated.skel_gen_writeIfExpression = 8886623500353960725 ∧
    Generated.skel_gen_writeImports = 16261108241018286897 ∧
    Generated.skel_gen_writeNode = 8909952721136510863 ∧
    Generated.skel_gen_writeNodes = 15929390937765484789 ∧
    Generated.skel_gen_writePackage = 9032675636176359823 ∧
    Generated.skel_gen_writeRawElement = 1821929257101758292 ∧
    Generated.skel_gen_writeScript = 955588685841281957 ∧
    Generated.skel_gen_writeScriptContents = 3921325542740619965 ∧
    Generated.skel_gen_writeScriptElement = 15709453175462206363 ∧
    Generated.skel_gen_writeSelfClosingTemplElementExpression = 9594183451043399340 ∧
    Generated.skel_gen_writeSpreadAttributes = 9594183451043399340 ∧
    Generated.skel_gen_writeStringExpression = 18179626585064402480 ∧
    Generated.skel_gen_writeSwitchExpression = 7652783365260669400 ∧
    Generated.skel_gen_writeTemplBuffer = 12067656867349261645 ∧
    Generated.skel_gen_writeTemplElementExpression = 561756907016755889 ∧
    Generated.skel_gen_writeTemplate = 18191793614618438843 ∧
    Generated.skel_gen_writeTemplateNodes = 6975213564886194975 ∧
    Generated.skel_gen_writeText = 7900193906795065909 ∧
    Generated.skel_gen_writeVersionComment = 4402119418485325256 ∧
    Generated.skel_gen_writeWhitespace = 9093825524154211736 ∧
    Generated.skel_gen_writeWhitespaceTrailer = 16278270400185365577 := by decide
-- END transcription pins

end TemplVerif.Props.C02
