import TemplVerif.Generated.Skeletons
import TemplVerif.Model.Handler
import TemplVerif.Generated.HandlerFacts
/-
C11 — the buffered HTTP handler responds all-or-nothing.
-/
namespace TemplVerif.Props.C11
open TemplVerif TemplVerif.Handler

/-- The response the client gets when rendering fails: a function of the configuration ALONE. -/
def errorResponse (cfg : Cfg) : RW := errorPath cfg {}

/-- Success: the complete document with the configured status (200 when unset) and content type. -/
theorem C11_success (cfg : Cfg) (doc : Bytes) (hb : cfg.stream = false) :
    serve cfg ⟨doc, false⟩ =
      { contentType := cfg.contentType, status := some (if cfg.status != 0 then cfg.status else 200), body := doc } := by
  simp only [serve, hb, serveBuffered, RW.setContentType, RW.writeHeader, RW.write]
  by_cases h : cfg.status != 0 <;> simp [h]

/-- Failure after ANY amount of output (k chunks, for every k): exactly the error response — it does not depend on
    what the component had written, so no document byte and no success status can appear in it. -/
theorem C11_failure (cfg : Cfg) (partialDoc : Bytes) (hb : cfg.stream = false) :
    serve cfg ⟨partialDoc, true⟩ = errorResponse cfg := by
  simp [serve, hb, serveBuffered, errorResponse]

/-- All-or-nothing, in one statement. -/
theorem C11_main (cfg : Cfg) (r : Render) (hb : cfg.stream = false) :
    serve cfg r = (if r.failed then errorResponse cfg
      else { contentType := cfg.contentType, status := some (if cfg.status != 0 then cfg.status else 200), body := r.written }) := by
  cases r with
  | mk written failed =>
    cases failed
    · simpa using C11_success cfg written hb
    · simpa using C11_failure cfg written hb

/-- Default error response: 500, text/plain, the fixed message. -/
theorem C11_default_error (cfg : Cfg) (h : cfg.errorHandler = none) :
    errorResponse cfg = { contentType := textPlain, status := some 500, body := errorMessage ++ [10] } := by
  simp [errorResponse, errorPath, h, httpError, RW.setContentType, RW.writeHeader, RW.write]

/-- Contrast (documented behaviour): with streaming, a failure after output leaves the partial document and the
    success status in place. -/
theorem C11_stream_contrast :
    serve ⟨201, [120], none, true⟩ ⟨[60, 112, 62], true⟩ =
      { contentType := [120], status := some 201, body := [60, 112, 62] ++ errorMessage ++ [10] } := by decide

/-- T1: in ServeHTTPBuffered the ResponseWriter is not touched before Render returns, the error branch is taken
    for every non-nil error, and that branch only sets the content type and hands the writer to the error handler
    or http.Error. -/
theorem C11_wiring_pinned :
    Generated.handlerTouchesWriterBeforeRender = false ∧
    Generated.handlerErrCond = [101, 114, 114, 32, 33, 61, 32, 110, 105, 108] ∧
    Generated.handlerErrPathWriterUses =
      [-- w.Header().Set("Content-Type", ch.ContentType)
       [119, 46, 72, 101, 97, 100, 101, 114, 40, 41, 46, 83, 101, 116, 40, 34, 67, 111, 110, 116, 101, 110, 116, 45, 84, 121, 112, 101, 34, 44, 32, 99, 104, 46, 67, 111, 110, 116, 101, 110, 116, 84, 121, 112, 101, 41],
       -- ch.ErrorHandler(r, err).ServeHTTP(w, r)
       [99, 104, 46, 69, 114, 114, 111, 114, 72, 97, 110, 100, 108, 101, 114, 40, 114, 44, 32, 101, 114, 114, 41, 46, 83, 101, 114, 118, 101, 72, 84, 84, 80, 40, 119, 44, 32, 114, 41],
       -- http.Error(w, componentHandlerErrorMessage, http.StatusInternalServerError)
       [104, 116, 116, 112, 46, 69, 114, 114, 111, 114, 40, 119, 44, 32, 99, 111, 109, 112, 111, 110, 101, 110, 116, 72, 97, 110, 100, 108, 101, 114, 69, 114, 114, 111, 114, 77, 101, 115, 115, 97, 103, 101, 44, 32, 104, 116, 116, 112, 46, 83, 116, 97, 116, 117, 115, 73, 110, 116, 101, 114, 110, 97, 108, 83, 101, 114, 118, 101, 114, 69, 114, 114, 111, 114, 41]] ∧
    Generated.handlerErrorMessage = errorMessage := by decide

-- BEGIN transcription pins (written by tools/mkpins.py)
/-- T1, transcription pins: the control structure and calls (extract/skeleton.go) of the functions whose models
    were written by hand are the ones the models were transcribed from:
      handler.go ComponentHandler.ServeHTTP
      handler.go ComponentHandler.ServeHTTPBuffered
    A change of what one of them calls or how it branches breaks this theorem; the check then searches for a
    failing input and reports either that or `no-failing-input-found`. -/
theorem C11_transcription_pinned :
    Generated.skel_handler_ServeHTTP = 1725087716964111337 ∧
    Generated.skel_handler_ServeHTTPBuffered = 6609026193402378884 := by decide
-- END transcription pins

end TemplVerif.Props.C11
