import TemplVerif.Generated.Skeletons
import TemplVerif.Model.Css
import TemplVerif.Spec.CssScan
import TemplVerif.Proofs.Css
/-
C05 — dynamic CSS values cannot escape their declaration.
`CssModel.sanitize` models safehtml.SanitizeCSS over the tables regenerated from safehtml/style.go;
`Css.scanDecl` is the CSS Syntax 3 declaration scanner specification.
-/
namespace TemplVerif.Props.C05
open TemplVerif TemplVerif.CssModel

/-- T1 pins: the hand-written recognisers stand for exactly these regular expressions. -/
theorem C05_regex_pins :
    Generated.identifierPatternSrc = [94, 91, 45, 97, 45, 122, 65, 45, 90, 93, 43, 36] ∧
    Generated.genericFontFamilyNameSrc = [94, 91, 97, 45, 122, 65, 45, 90, 93, 91, 45, 32, 97, 45, 122, 65, 45, 90, 93, 43, 36] ∧
    Generated.safeRegularPropertyValuePatternSrc = [94, 40, 63, 58, 91, 42, 47, 93, 63, 40, 63, 58, 91, 48, 45, 57, 97, 45, 122, 65, 45, 90, 43, 45, 46, 33, 35, 37, 95, 32, 92, 116, 93, 124, 36, 41, 41, 42, 36] ∧
    Generated.safeEnumPropertyValuePatternSrc = [94, 91, 97, 45, 122, 65, 45, 90, 45, 93, 42, 36] := by decide

/-- T1 pins: url() forms the background-image sanitiser recognises. -/
theorem C05_url_forms_pinned :
    Generated.validURLPrefixes = [[117, 114, 108, 40, 34], [117, 114, 108, 40, 39], [117, 114, 108, 40]] ∧
    Generated.validURLSuffixes = [[34, 41], [39, 41], [41]] := by decide

/-- T1: the character sets the two tightened sanitisers reject (as they are in the source now) contain
    everything the safety argument needs: quote, backslash, `<>`, `;{}`, newlines for quoted font names;
    `<>` for the whole background-image value; quotes, parentheses, backslash, `;{}` and white space for url bodies. -/
theorem C05_forbidden_sets :
    ([34, 92, 60, 62, 59, 123, 125, 10, 13, 12] : List UInt8).all
        (fun c => (Generated.sanitizeFontFamilyContainsAny.getD 0 []).contains c) = true ∧
    ([60, 62] : List UInt8).all (fun c => (Generated.sanitizeBackgroundImageContainsAny.getD 0 []).contains c) = true ∧
    ([34, 39, 40, 41, 92, 59, 123, 125, 32, 9, 10, 13, 12] : List UInt8).all
        (fun c => (Generated.sanitizeBackgroundImageContainsAny.getD 1 []).contains c) = true := by decide

/-- T1: comma parts are trimmed with CSS white space only (space, tab, LF, CR, FF), never with Unicode spaces
    that CSS treats as identifier characters. -/
theorem C05_whitespace_pinned : Generated.cssWhitespace.all (fun b => [32, 9, 10, 13, 12].contains b) = true := by decide

/-- T1: the three properties the statement names go to their special sanitisers; every mapped sanitiser is known. -/
theorem C05_map_pinned :
    Generated.cssSanitizers.lookup [98, 97, 99, 107, 103, 114, 111, 117, 110, 100, 45, 105, 109, 97, 103, 101] = some fnBackgroundImage ∧
    Generated.cssSanitizers.lookup [102, 111, 110, 116, 45, 102, 97, 109, 105, 108, 121] = some fnFontFamily ∧
    Generated.cssSanitizers.lookup [100, 105, 115, 112, 108, 97, 121] = some fnEnum ∧
    Generated.cssSanitizers.all (fun kv => [fnBackgroundImage, fnFontFamily, fnEnum, fnRegular].contains kv.2) = true := by decide

/-- Property names: lower-case `[-a-z]+` or the fixed innocuous name. -/
theorem C05_name (p : Bytes) :
    sanitizeProperty p = Generated.cssInnocuousPropertyName ∨
    (sanitizeProperty p ≠ [] ∧ ∀ b ∈ sanitizeProperty p, b = 45 ∨ (97 ≤ b ∧ b ≤ 122)) :=
  Proofs.Css.sanitizeProperty_shape p

/-- For EVERY (property, value) pair and whatever net/url.Parse answers: the sanitised pair affects exactly its
    own declaration (scanner ends at the `;` written after it, for every continuation), calls no function other
    than url() with no / http / https / mailto scheme, and contains no `<`. -/
theorem C05_main (parseOk : Bytes → Bool) (p v : Bytes) :
    Css.DeclSafe (sanitize parseOk p v).1 (sanitize parseOk p v).2 :=
  Proofs.Css.sanitize_declSafe parseOk p v

/-- Style attribute (map / key-value forms): the decoded attribute text is `name:value;` of the sanitised pair. -/
theorem C05_styleAttr (parseOk : Bytes → Bool) (p v rest : Bytes) :
    Html.decodeRefs (styleItem parseOk p v ++ rest) =
      (sanitize parseOk p v).1 ++ [58] ++ (sanitize parseOk p v).2 ++ [59] ++ Html.decodeRefs rest :=
  Proofs.Css.styleItem_decodes parseOk p v rest

/-- Non-vacuity: an accepted url() value and the two break-outs the unrepaired sanitisers let through. -/
example : sanitize (fun _ => true) [98, 97, 99, 107, 103, 114, 111, 117, 110, 100, 45, 105, 109, 97, 103, 101] [117, 114, 108, 40, 47, 97, 46, 112, 110, 103, 41] = ([98, 97, 99, 107, 103, 114, 111, 117, 110, 100, 45, 105, 109, 97, 103, 101], [117, 114, 108, 40, 47, 97, 46, 112, 110, 103, 41]) := by decide
example : (sanitize (fun _ => true) [98, 97, 99, 107, 103, 114, 111, 117, 110, 100, 45, 105, 109, 97, 103, 101] [117, 114, 108, 40, 47, 97, 41, 59, 99, 111, 108, 111, 114, 58, 114, 101, 100, 59, 120, 58, 117, 114, 108, 40, 98, 41]).2 = innocuousValue := by decide
example : (sanitize (fun _ => true) [102, 111, 110, 116, 45, 102, 97, 109, 105, 108, 121] [34, 120, 34, 59, 32, 99, 111, 108, 111, 114, 58, 32, 114, 101, 100, 59, 32, 34, 121, 34]).2 = innocuousValue := by decide
example : Css.declSafeWith [99, 111, 108, 111, 114] [114, 101, 100] [120, 58, 121] = true := by decide
example : Css.declSafeWith [102, 111, 110, 116, 45, 102, 97, 109, 105, 108, 121] [34, 120, 34, 59, 32, 99, 111, 108, 111, 114, 58, 32, 114, 101, 100, 59, 32, 34, 121, 34] [] = false := by decide

-- BEGIN transcription pins (written by tools/mkpins.py)
/-- T1, transcription pins: the control structure and calls (extract/skeleton.go) of the functions whose models
    were written by hand are the ones the models were transcribed from:
      runtime.go SanitizeCSS
      safehtml/style.go SanitizeCSS
      safehtml/style.go SanitizeCSSProperty
      safehtml/style.go SanitizeCSSValue
      safehtml/style.go sanitizeBackgroundImage
      safehtml/style.go sanitizeEnum
      safehtml/style.go sanitizeFontFamily
      safehtml/style.go sanitizeRegular
      safehtml/style.go urlIsSafe
      runtime/styleattribute.go sanitizeStyleAttributeValue
    A change of what one of them calls or how it branches breaks this theorem; the check then searches for a
    failing input and reports either that or `no-failing-input-found`. -/
theorem C05_transcription_pinned :
    Generated.skel_runtime_SanitizeCSS = 9378241437246278277 ∧
    Generated.skel_safehtml_SanitizeCSS = 11362632238448651570 ∧
    Generated.skel_safehtml_SanitizeCSSProperty = 11265045131699987055 ∧
    Generated.skel_safehtml_SanitizeCSSValue = 13238686208247262430 ∧
    Generated.skel_safehtml_sanitizeBackgroundImage = 2388487536827179375 ∧
    Generated.skel_safehtml_sanitizeEnum = 10764163270014942412 ∧
    Generated.skel_safehtml_sanitizeFontFamily = 6454337714094907083 ∧
    Generated.skel_safehtml_sanitizeRegular = 7521923537659166537 ∧
    Generated.skel_safehtml_urlIsSafe = 13914283418647389984 ∧
    Generated.skel_styleattr_sanitizeStyleAttributeValue = 8475373072579502467 := by decide
-- END transcription pins

end TemplVerif.Props.C05
