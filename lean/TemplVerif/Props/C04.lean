import TemplVerif.Generated.Skeletons
import TemplVerif.Model.Url
import TemplVerif.Proofs.Url
/-
C04 — the URL sanitiser admits only relative references and allow-listed schemes.
`Url.sanitize` is the model of templ.URL (it folds over `Generated.urlSchemes`, regenerated from
url.go on every run); `Whatwg.scheme` is the browser-side specification.
-/
namespace TemplVerif.Props.C04
open TemplVerif

/-- The table in the code is the allow-list of the statement (T1 pin: an edited list breaks this). -/
theorem C04_schemes_pinned : Generated.urlSchemes = Whatwg.allowedSchemes := by decide

theorem C04_failedURL_pinned : Generated.failedURL = Whatwg.failedURL := by decide

/-- Input returned unchanged ⇒ relative reference or allowed scheme — for every byte string, whatever
    case, whitespace or control-character disguise. (The failure URL itself is the one fixed point with
    another scheme: it is "replaced" by itself.) -/
theorem C04_main (s : Bytes) (h : Url.sanitize s = s) :
    Whatwg.scheme s = none ∨ (∃ a ∈ Whatwg.allowedSchemes, Whatwg.scheme s = some a) ∨ s = Whatwg.failedURL :=
  Proofs.Url.sanitize_fixed s h

/-- Everything else is replaced by the fixed failure URL. -/
theorem C04_else (s : Bytes) (h : Url.sanitize s ≠ s) : Url.sanitize s = Whatwg.failedURL :=
  Proofs.Url.sanitize_else s h

/-- The executable predicate the driver evaluates on the implementation's outputs holds of the model. -/
theorem C04_okPair (s : Bytes) : Whatwg.okPair s (Url.sanitize s) = true := by
  unfold Whatwg.okPair
  by_cases h : Url.sanitize s = s
  · have := C04_main s h
    simp only [h, beq_self_eq_true, if_true]
    rcases this with h1 | ⟨a, ha, h2⟩ | h3
    · simp [h1]
    · simp [h2, ha]
    · simp [h3]
  · have := C04_else s h
    rw [this] at h
    simp [this, h]

/-- Non-vacuity: "JaVaScRiPt:alert(1)" with an embedded TAB is a disguise the browser resolves as javascript:,
    and the sanitiser does not return it unchanged. -/
example : Whatwg.scheme [106, 97, 9, 118, 97, 115, 99, 114, 105, 112, 116, 58, 120]
            = some [106, 97, 118, 97, 115, 99, 114, 105, 112, 116]
        ∧ Url.sanitize [106, 97, 9, 118, 97, 115, 99, 114, 105, 112, 116, 58, 120] = Whatwg.failedURL := by
  decide

example : Url.sanitize [72, 84, 84, 80, 58, 47, 47, 120] = [72, 84, 84, 80, 58, 47, 47, 120] := by decide

-- BEGIN transcription pins (written by tools/mkpins.py)
/-- T1, transcription pins: the control structure and calls (extract/skeleton.go) of the functions whose models
    were written by hand are the ones the models were transcribed from:
      url.go URL
    A change of what one of them calls or how it branches breaks this theorem; the check then searches for a
    failing input and reports either that or `no-failing-input-found`. -/
theorem C04_transcription_pinned :
    Generated.skel_url_URL = 12873288404165402316 := by decide
-- END transcription pins

end TemplVerif.Props.C04
