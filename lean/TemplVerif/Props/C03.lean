import TemplVerif.Generated.Skeletons
import TemplVerif.Model.Js
import TemplVerif.Spec.JsLex
import TemplVerif.Proofs.Js
/-
C03 — Go values placed into JavaScript arrive as data only.
`Js.replace` indexes the two tables regenerated from runtime/scriptelement.go on every run.
-/
namespace TemplVerif.Props.C03
open TemplVerif TemplVerif.Js TemplVerif.JsLex

/-- Runes that can end a JS literal, start an escape / interpolation, end a line, or matter to HTML. -/
def dangerous : List Nat := [39, 34, 96, 92, 36, 10, 13, 60, 62, 38, 0x2028, 0x2029]

/-- T1: every dangerous rune has a replacement in the tables as they are in the source now. -/
theorem C03_table_covers : dangerous.all (fun r => (replRune r).isSome) = true := by decide

/-- T1: every replacement the tables can produce for an ASCII rune is an escape sequence that, in each of
    the three literal kinds, lexes back to exactly that rune; runes without replacement are not dangerous. -/
def entryOK (r : Nat) : Bool :=
  match replRune r with
  | some rp => [Quote.single, .double, .backtick].all fun q => lexAux q 12 [] (rp ++ [q.byte]) == .ok [r] []
  | none => !dangerous.contains r

theorem C03_table_entries_ok : (List.range 128).all entryOK = true := by decide

/-- `{{ v }}` inside '…', "…" or `…`: one literal, value = the original string, for every byte string. -/
theorem C03_inliteral (q : Quote) (s rest : Bytes) :
    lexString q (replace s ++ q.byte :: rest) = .ok (Utf8.runes s) rest :=
  Proofs.Js.replace_inliteral q s rest

/-- …and it cannot end the script element or open an HTML comment. -/
theorem C03_inliteral_html (s : Bytes) : scriptDataSafe (replace s) = true := Proofs.Js.replace_no_lt s

/-- Bare `{{ v }}` for a string: the JSON text is one JS string literal with the original value. -/
theorem C03_bare_string (s rest : Bytes) :
    lexString .double ((jsonString s).drop 1 ++ rest) = .ok (Utf8.runes s) rest :=
  Proofs.Js.jsonString_lex s rest

/-- JSON of any value contains none of `< > &`: it cannot end the script element, open a comment, or be
    changed by attribute decoding. (Number texts come from Go's encoder; assumed free of `< > &`.) -/
theorem C03_json_html_safe (v : JVal) (h : numbersSafe v = true) :
    (60 : UInt8) ∉ jsonEncode v ∧ (62 : UInt8) ∉ jsonEncode v ∧ (38 : UInt8) ∉ jsonEncode v :=
  Proofs.Js.jsonEncode_safe v h

/-- Any non-string value inside a literal: the literal's value is the JSON text. -/
theorem C03_inliteral_json (q : Quote) (v : JVal) (rest : Bytes) :
    lexString q (scriptContentJson v true ++ q.byte :: rest) = .ok (Utf8.runes (jsonEncode v)) rest := by
  simpa [scriptContentJson] using Proofs.Js.replace_inliteral q (jsonEncode v) rest

/-- on* attribute call: no double quote in the attribute text, and the browser's attribute decoding yields
    exactly the inline call `name(json, json, …)`. -/
theorem C03_attr (fn : Bytes) (ps : List Param) :
    (34 : UInt8) ∉ safeScript fn ps ∧ Html.decodeRefs (safeScript fn ps) = safeScriptInline fn ps :=
  ⟨Proofs.Js.safeScript_no_quote fn ps, Proofs.Js.safeScript_decodes fn ps⟩

/-- Function names: anything the recogniser rejects is replaced by the fixed name; accepted names are made of
    identifier characters and dots only. -/
theorem C03_fname (fn : Bytes) (ps : List Param) :
    (validFunctionName fn = false → List.isPrefixOf (invalidFunctionName ++ [40]) (safeScriptInline fn ps) = true) ∧
    (validFunctionName fn = true → ∀ b ∈ fn, isCont b = true ∨ b = 46) := by
  refine ⟨fun h => ?_, Proofs.Js.validFunctionName_bytes fn⟩
  simp [safeScriptInline, h, List.append_assoc]

/-- Non-vacuity: the template-literal break-out that the unrepaired table let through. -/
example : lexString .backtick (replace [36, 123, 97, 125] ++ [96]) = .ok [36, 123, 97, 125] [] := by decide
example : validFunctionName [97, 46, 98] = false ∧ validFunctionName [97, 98, 46, 99, 100] = true := by decide

-- BEGIN transcription pins (written by tools/mkpins.py)
/-- T1, transcription pins: the control structure and calls (extract/skeleton.go) of the functions whose models
    were written by hand are the ones the models were transcribed from:
      scripttemplate.go jsonEncodeParam
      runtime/scriptelement.go scriptContent
    A change of what one of them calls or how it branches breaks this theorem; the check then searches for a
    failing input and reports either that or `no-failing-input-found`. -/
theorem C03_transcription_pinned :
    Generated.skel_script_jsonEncodeParam = 16854701993303472932 ∧
    Generated.skel_scriptel_scriptContent = 5859485942866768238 := by decide
-- END transcription pins

end TemplVerif.Props.C03
