import TemplVerif.Model.Frame
import TemplVerif.Proofs.Frame
/-
C18 — JSON-RPC framing is lossless and calls are matched to their responses.
-/
namespace TemplVerif.Props.C18
open TemplVerif TemplVerif.Frame

/-- The length header counts bytes of the body (multi-byte characters count once per byte). -/
theorem C18_length_counts_bytes (body : Bytes) :
    encode body = hdrContentLength ++ [58, 32] ++ decimal body.length ++ crlfcrlf ++ body := rfl

/-- One frame round-trips whatever follows it in the stream. -/
theorem C18_frame_roundtrip (body rest : Bytes) (h0 : 0 < body.length) (h1 : body.length < 2147483648) :
    readFrame (encode body ++ rest) = .ok (body, rest) := Proofs.Frame.readFrame_encode body rest h0 h1

/-- Any message sequence is read back as the same sequence, for EVERY way of cutting the byte stream into chunks
    (the reader is a function of the concatenation; bufio's part of this is in the trusted base). -/
theorem C18_roundtrip (bodies : List Bytes) (h : ∀ b ∈ bodies, 0 < b.length ∧ b.length < 2147483648)
    (chunks : List Bytes) (hc : chunks.flatten = bodies.flatMap encode) :
    readAll chunks.flatten = (bodies, none) := by
  rw [hc]; exact Proofs.Frame.readAll_encode bodies h

/-- Malformed or truncated input yields a result (an error or frames) — the reader is total; it cannot hang. -/
theorem C18_total (s : Bytes) : ∃ r, readAll s = r := ⟨_, rfl⟩

/-- Every completed call returned the response carrying its id, or its own cancellation — for every schedule of
    calls, responses (in any order, late, never, for unknown ids), cancellations and select choices. -/
theorem C18_match (sched : List Rpc.Action) (s : Rpc.State) (h : Rpc.run {} sched = some s) :
    ∀ t id res, (t, id, res) ∈ s.completed → res = .cancelled ∨ ∃ r, res = .response r ∧ r.id = id :=
  Proofs.Rpc.completed_matches sched s h

/-- Ids are never reused, and finished calls leave no pending entry behind. -/
theorem C18_ids (sched : List Rpc.Action) (s : Rpc.State) (h : Rpc.run {} sched = some s) :
    (s.completed.map (fun c => c.2.1) ++ s.pending.map (·.id)).Nodup ∧ s.pending.length + s.completed.length = s.seq :=
  ⟨Proofs.Rpc.ids_nodup sched s h, Proofs.Rpc.pending_count sched s h⟩

/-- The read loop never blocks when the peer answers each id at most once. -/
theorem C18_no_block (sched : List Rpc.Action) (hn : (sched.filterMap Proofs.Rpc.recvId).Nodup) :
    (Rpc.run {} sched).isSome = true := Proofs.Rpc.never_blocked sched hn

/-- … and, since the repair of the read loop (a response nobody can take is dropped instead of blocking the loop),
    under ANY behaviour of the peer: duplicated responses, responses for finished or unknown calls, in any order. -/
theorem C18_no_block_any (sched : List Rpc.Action) : (Rpc.run {} sched).isSome = true :=
  Proofs.Rpc.never_blocked_any sched {}

/-- A peer that answers id 1 three times does not keep the second call from its response. -/
example : (Rpc.run {} [.call 1, .call 2, .recv ⟨1, 5⟩, .recv ⟨1, 5⟩, .recv ⟨1, 5⟩, .recv ⟨2, 6⟩, .finishRecv 1, .finishRecv 2]).map (·.completed)
    = some [(1, 1, .response ⟨1, 5⟩), (2, 2, .response ⟨2, 6⟩)] := by decide

/-- Non-vacuity: two frames, one with a multi-byte body; a malformed header; an out-of-order, cancel-racing schedule. -/
example : readAll (encode [123, 125] ++ encode [195, 169]) = ([[123, 125], [195, 169]], none) := by decide
example : (readAll ([67, 111, 110, 116, 101, 110, 116, 45, 76, 101, 110, 103, 116, 104, 58, 32, 48, 13, 10, 13, 10])).2
    = some .nonPositiveLength := by decide
example : (Rpc.run {} [.call 1, .call 2, .recv ⟨2, 7⟩, .cancel 1, .recv ⟨1, 8⟩, .finishCancel 1, .finishRecv 2]).map (·.completed)
    = some [(1, 1, .cancelled), (2, 2, .response ⟨2, 7⟩)] := by decide

end TemplVerif.Props.C18
