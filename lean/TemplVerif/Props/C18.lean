import TemplVerif.Generated.Skeletons
import TemplVerif.Model.Frame
import TemplVerif.Proofs.Frame
import TemplVerif.Proofs.Mux
import TemplVerif.Generated.Conn
/-
C18 — JSON-RPC framing is lossless and calls are matched to their responses.
-/
namespace TemplVerif.Props.C18
open TemplVerif TemplVerif.Frame

/-- The length header counts bytes of the body (multi-byte characters count once per byte). -/
theorem C18_length_counts_bytes (body : Bytes) :
    encode body = hdrContentLength ++ [58, 32] ++ decimal body.length ++ crlfcrlf ++ body := rfl

/-- One frame round-trips whatever follows it in the stream. -/
theorem C18_frame_roundtrip (body rest : Bytes) (h0 : 0 < body.length) (h1 : body.length < 2147483648) :
    readFrame (encode body ++ rest) = .ok (body, rest) := Proofs.Frame.readFrame_encode body rest h0 h1

/-- Any message sequence is read back as the same sequence, for EVERY way of cutting the byte stream into chunks
    (the reader is a function of the concatenation; bufio's part of this is in the trusted base). -/
theorem C18_roundtrip (bodies : List Bytes) (h : ∀ b ∈ bodies, 0 < b.length ∧ b.length < 2147483648)
    (chunks : List Bytes) (hc : chunks.flatten = bodies.flatMap encode) :
    readAll chunks.flatten = (bodies, none) := by
  rw [hc]; exact Proofs.Frame.readAll_encode bodies h

/-- Malformed or truncated input yields a result (an error or frames) — the reader is total; it cannot hang. -/
theorem C18_total (s : Bytes) : ∃ r, readAll s = r := ⟨_, rfl⟩

/-- Every completed call returned the response carrying its id, or its own cancellation — for every schedule of
    calls, responses (in any order, late, never, for unknown ids), cancellations and select choices. -/
theorem C18_match (sched : List Rpc.Action) (s : Rpc.State) (h : Rpc.run {} sched = some s) :
    ∀ t id res, (t, id, res) ∈ s.completed → res = .cancelled ∨ ∃ r, res = .response r ∧ r.id = id :=
  Proofs.Rpc.completed_matches sched s h

/-- Ids are never reused, and finished calls leave no pending entry behind. -/
theorem C18_ids (sched : List Rpc.Action) (s : Rpc.State) (h : Rpc.run {} sched = some s) :
    (s.completed.map (fun c => c.2.1) ++ s.pending.map (·.id)).Nodup ∧ s.pending.length + s.completed.length = s.seq :=
  ⟨Proofs.Rpc.ids_nodup sched s h, Proofs.Rpc.pending_count sched s h⟩

/-- The read loop never blocks when the peer answers each id at most once. -/
theorem C18_no_block (sched : List Rpc.Action) (hn : (sched.filterMap Proofs.Rpc.recvId).Nodup) :
    (Rpc.run {} sched).isSome = true := Proofs.Rpc.never_blocked sched hn

/-- … and, since the repair of the read loop (a response nobody can take is dropped instead of blocking the loop),
    under ANY behaviour of the peer: duplicated responses, responses for finished or unknown calls, in any order. -/
theorem C18_no_block_any (sched : List Rpc.Action) : (Rpc.run {} sched).isSome = true :=
  Proofs.Rpc.never_blocked_any sched {}

/-- A peer that answers id 1 three times does not keep the second call from its response. -/
example : (Rpc.run {} [.call 1, .call 2, .recv ⟨1, 5⟩, .recv ⟨1, 5⟩, .recv ⟨1, 5⟩, .recv ⟨2, 6⟩, .finishRecv 1, .finishRecv 2]).map (·.completed)
    = some [(1, 1, .response ⟨1, 5⟩), (2, 2, .response ⟨2, 6⟩)] := by decide

/-- Non-vacuity: two frames, one with a multi-byte body; a malformed header; an out-of-order, cancel-racing schedule. -/
example : readAll (encode [123, 125] ++ encode [195, 169]) = ([[123, 125], [195, 169]], none) := by decide
example : (readAll ([67, 111, 110, 116, 101, 110, 116, 45, 76, 101, 110, 103, 116, 104, 58, 32, 48, 13, 10, 13, 10])).2
    = some .nonPositiveLength := by decide
example : (Rpc.run {} [.call 1, .call 2, .recv ⟨2, 7⟩, .cancel 1, .recv ⟨1, 8⟩, .finishCancel 1, .finishRecv 2]).map (·.completed)
    = some [(1, 1, .cancelled), (2, 2, .response ⟨2, 7⟩)] := by decide

/-! ## Concurrent senders never interleave frames

A frame is two writes to the transport (header, body). Every sender of a connection - `Call`, `Notify`, the replier
- goes through `conn.write`, which holds the write mutex around them (T1 below). The model (`Model/Mux.lean`)
interleaves any number of such senders at the granularity of single transport writes. -/

/-- Under EVERY schedule, once all senders have finished the stream is their frames one after the other in some
    order - a permutation: nothing missing, nothing twice, nothing cut. -/
theorem C18_frames_atomic (ws : List Mux.Writer) (hf : Proofs.Mux.Fresh ws) (sched : List Nat)
    (hd : Mux.allDone (Mux.run { writers := ws } sched) = true) :
    ∃ order : List Nat, order.Perm (List.range ws.length) ∧
      (Mux.run { writers := ws } sched).out = (order.filterMap fun i => ws[i]?.map Mux.frameOf).flatten :=
  Proofs.Mux.mux_frames ws hf sched hd

/-- … and a reader gets every message back whole (with `C18_roundtrip`: however the bytes are chunked). -/
theorem C18_concurrent_roundtrip (bodies : List Bytes) (h : ∀ b ∈ bodies, 0 < b.length ∧ b.length < 2147483648) (sched : List Nat)
    (hd : Mux.allDone (Mux.run { writers := bodies.map fun b => { header := (encode b).take ((encode b).length - b.length), body := b } } sched) = true) :
    ∃ order : List Nat, order.Perm (List.range bodies.length) ∧
      readAll (Mux.run { writers := bodies.map fun b => { header := (encode b).take ((encode b).length - b.length), body := b } } sched).out
        = (order.filterMap fun i => bodies[i]?, none) :=
  Proofs.Mux.mux_reads_back bodies h sched hd

/-- What the mutex is for: a sender that writes to the stream directly cuts into another sender's frame. -/
theorem C18_unlocked_counterexample :
    (Mux.run { writers := [{ header := [1], body := [2] }, { header := [3], body := [4], locked := false }] } [0, 0, 1, 1, 0, 1]).out
      = [1, 3, 2, 4] := by decide

/-- T1: in conn.go only `write` writes to the stream, it does so between Lock and Unlock of the write mutex, and
    Call, Notify and the replier send through it. -/
theorem C18_write_pinned :
    Generated.connDirectStreamWriters = [[119, 114, 105, 116, 101]] ∧
    Generated.connWriteBracketsStreamWrite = true ∧
    Generated.connSendersViaWrite = [[67, 97, 108, 108], [78, 111, 116, 105, 102, 121], [114, 101, 112, 108, 105, 101, 114]] := by decide

/-- Non-vacuity: three senders, a schedule in which the second takes the mutex between the first one's writes being
    requested - the first finishes its frame before the second starts. -/
example : (Mux.run { writers := [{ header := [1], body := [2] }, { header := [3], body := [4] }, { header := [5], body := [6] }] }
    [0, 1, 0, 1, 0, 1, 2, 1, 1, 2, 2, 2]).out = [1, 2, 3, 4, 5, 6] := by decide

-- BEGIN transcription pins (written by tools/mkpins.py)
/-- T1, transcription pins: the control structure and calls (extract/skeleton.go) of the functions whose models
    were written by hand are the ones the models were transcribed from:
      lsp/jsonrpc2/conn.go conn.Call
      lsp/jsonrpc2/conn.go conn.Notify
      lsp/jsonrpc2/conn.go conn.replier
      lsp/jsonrpc2/conn.go conn.run
      lsp/jsonrpc2/conn.go conn.write
      lsp/jsonrpc2/stream.go stream.Read
      lsp/jsonrpc2/stream.go stream.Write
    A change of what one of them calls or how it branches breaks this theorem; the check then searches for a
    failing input and reports either that or `no-failing-input-found`. -/
theorem C18_transcription_pinned :
    Generated.skel_conn_Call = 13815292633185930845 ∧
    Generated.skel_conn_Notify = 5315113082747578148 ∧
    Generated.skel_conn_replier = 9091940107552503306 ∧
    Generated.skel_conn_run = 2093232708540561469 ∧
    Generated.skel_conn_write = 12939569471761619924 ∧
    Generated.skel_stream_Read = 3558343524170499463 ∧
    Generated.skel_stream_Write = 10908548354901442409 := by decide
-- END transcription pins

end TemplVerif.Props.C18
