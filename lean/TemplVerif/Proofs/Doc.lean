import TemplVerif.Model.Doc
/-
Helper lemmas for C17 (Props/C17.lean states the property theorems and only cites these).
-/
namespace TemplVerif.Proofs.Doc
open TemplVerif TemplVerif.Doc

theorem splitLF_ne_nil (t : Bytes) : splitLF t ≠ [] := by
  induction t with
  | nil => simp [splitLF]
  | cons b rest ih =>
    unfold splitLF
    by_cases h : b = 10
    · simp [h]
    · simp only [h, if_false]
      split <;> simp

theorem joinLF_cons_of_ne_nil (l : Bytes) {ls : List Bytes} (h : ls ≠ []) :
    joinLF (l :: ls) = l ++ 10 :: joinLF ls := by
  cases ls with
  | nil => exact absurd rfl h
  | cons a as => rfl

theorem joinLF_splitLF (t : Bytes) : joinLF (splitLF t) = t := by
  induction t with
  | nil => simp [splitLF, joinLF]
  | cons b rest ih =>
    unfold splitLF
    by_cases h : b = 10
    · subst h
      simp [joinLF_cons_of_ne_nil _ (splitLF_ne_nil rest), ih]
    · simp only [h, if_false]
      have hne := splitLF_ne_nil rest
      revert ih hne
      cases splitLF rest with
      | nil => intro _ hne; exact absurd rfl hne
      | cons l ls =>
        intro ih _
        cases ls with
        | nil => simp [joinLF] at ih ⊢; exact ih
        | cons a as =>
          simp only [joinLF] at ih ⊢
          simp [ih]

def NoLF (d : Doc) : Prop := ∀ l ∈ d, (10 : UInt8) ∉ l

theorem splitLF_noLF (t : Bytes) : NoLF (splitLF t) := by
  induction t with
  | nil => simp [splitLF, NoLF]
  | cons b rest ih =>
    unfold splitLF
    by_cases h : b = 10
    · subst h
      simp only [if_true, NoLF, List.mem_cons]
      intro l hl
      rcases hl with rfl | hl
      · simp
      · exact ih l hl
    · simp only [h, if_false]
      revert ih
      cases splitLF rest with
      | nil => intro _; simp [NoLF]; exact fun a => h a.symm
      | cons l ls =>
        intro ih
        intro x hx
        simp only [List.mem_cons] at hx
        rcases hx with rfl | hx
        · have := ih l (by simp)
          simp only [List.mem_cons, not_or]
          exact ⟨fun a => h a.symm, this⟩
        · exact ih x (by simp [hx])

theorem splitLF_append_noLF (l : Bytes) (hl : (10 : UInt8) ∉ l) (t : Bytes) :
    splitLF (l ++ 10 :: t) = l :: splitLF t := by
  induction l with
  | nil => simp [splitLF]
  | cons b l ih =>
    simp only [List.mem_cons, not_or] at hl
    have hb : b ≠ 10 := fun h => hl.1 h.symm
    simp only [List.cons_append]
    rw [splitLF]
    simp [hb, ih hl.2]

theorem splitLF_noLF_single (l : Bytes) (hl : (10 : UInt8) ∉ l) : splitLF l = [l] := by
  induction l with
  | nil => simp [splitLF]
  | cons b l ih =>
    simp only [List.mem_cons, not_or] at hl
    have hb : b ≠ 10 := fun h => hl.1 h.symm
    rw [splitLF]
    simp [hb, ih hl.2]

theorem splitLF_joinLF (d : Doc) (hd : WellFormed d) : splitLF (joinLF d) = d := by
  obtain ⟨hne, hno⟩ := hd
  induction d with
  | nil => exact absurd rfl hne
  | cons l ls ih =>
    cases ls with
    | nil => simp [joinLF]; exact splitLF_noLF_single l (hno l (by simp))
    | cons a as =>
      rw [joinLF_cons_of_ne_nil _ (by simp), splitLF_append_noLF l (hno l (by simp))]
      rw [ih (by simp) (fun x hx => hno x (by simp [hx]))]


theorem joinLF_head_append (x y : Bytes) (b : List Bytes) :
    joinLF ((x ++ y) :: b) = x ++ joinLF (y :: b) := by
  cases b with
  | nil => simp [joinLF]
  | cons a as => simp [joinLF]

/-- The key splitting lemma. -/
theorem joinLF_split (a : List Bytes) (x y : Bytes) (b : List Bytes) :
    joinLF (a ++ (x ++ y) :: b) = joinLF (a ++ [x]) ++ joinLF (y :: b) := by
  induction a with
  | nil => simpa [joinLF] using joinLF_head_append x y b
  | cons h a ih =>
    simp only [List.cons_append]
    rw [joinLF_cons_of_ne_nil _ (by simp), joinLF_cons_of_ne_nil _ (by simp), ih]
    simp

theorem line_cons_succ (h : Bytes) (t : Doc) (n : Nat) : line (h :: t) (n + 1) = line t n := by
  simp [line]

theorem line_cons_zero (h : Bytes) (t : Doc) : line (h :: t) 0 = h := by
  simp [line]

/-- prefix / suffix of the text at a position -/
def pre (d : Doc) (l c : Nat) : Bytes := joinLF (d.take l ++ [(line d l).take c])
def suf (d : Doc) (l c : Nat) : Bytes := joinLF ((line d l).drop c :: d.drop (l + 1))

theorem doc_decomp (d : Doc) (l : Nat) (hl : l < d.length) :
    d = d.take l ++ line d l :: d.drop (l + 1) := by
  induction d generalizing l with
  | nil => simp at hl
  | cons h t ih =>
    cases l with
    | zero => simp [line]
    | succ n =>
      simp only [List.length_cons, Nat.add_lt_add_iff_right] at hl
      simp only [List.take_succ_cons, List.drop_succ_cons, line_cons_succ, List.cons_append]
      rw [← ih n hl]

theorem text_decomp (d : Doc) (l c : Nat) (hl : l < d.length) :
    joinLF d = pre d l c ++ suf d l c := by
  unfold pre suf
  rw [← joinLF_split, List.take_append_drop, ← doc_decomp d l hl]

theorem pre_length (d : Doc) (l c : Nat) (hl : l < d.length) (hc : c ≤ lineLen d l) :
    (pre d l c).length = offset d ⟨l, c⟩ := by
  induction d generalizing l with
  | nil => simp at hl
  | cons h t ih =>
    cases l with
    | zero =>
      simp [lineLen, line] at hc
      simp [pre, line, joinLF, offset, hc]
    | succ n =>
      simp only [List.length_cons, Nat.add_lt_add_iff_right] at hl
      simp only [lineLen, line_cons_succ] at hc
      have := ih n hl hc
      unfold pre at this ⊢
      simp only [List.take_succ_cons, List.cons_append, line_cons_succ]
      rw [joinLF_cons_of_ne_nil _ (by simp)]
      simp [offset, this]; omega


theorem set_at_length {α} (a : List α) (x y : α) (b : List α) (i : Nat) (hi : a.length = i) :
    (a ++ x :: b).set i y = a ++ y :: b := by
  subst hi
  induction a with
  | nil => simp
  | cons h a ih => simp [ih]

theorem length_take_of_lt (d : Doc) (l : Nat) (hl : l < d.length) : (d.take l).length = l := by
  simp; omega

theorem set_line (d : Doc) (l : Nat) (v : Bytes) (hl : l < d.length) :
    d.set l v = d.take l ++ v :: d.drop (l + 1) := by
  conv => lhs; rw [doc_decomp d l hl]
  exact set_at_length _ _ _ _ _ (length_take_of_lt d l hl)

theorem drop_line (d : Doc) (l : Nat) (hl : l < d.length) :
    d.drop l = line d l :: d.drop (l + 1) := by
  conv => lhs; rw [doc_decomp d l hl]
  exact List.drop_left' (length_take_of_lt d l hl)

theorem delete_eq (d : Doc) (fl fc tl tc : Nat) (h1 : fl ≤ tl) (h2 : tl < d.length) :
    delete d fl fc tl tc
      = d.take fl ++ ((line d fl).take fc ++ (line d tl).drop tc) :: d.drop (tl + 1) := by
  unfold delete deleteLines
  simp only []
  rw [drop_line d tl h2]
  exact set_at_length _ _ _ _ _ (length_take_of_lt d fl (by omega))

theorem insert_single (d : Doc) (l c : Nat) (l0 : Bytes) (hl : l < d.length) :
    Doc.insert d l c [l0]
      = d.take l ++ ((line d l).take c ++ l0 ++ (line d l).drop c) :: d.drop (l + 1) := by
  unfold Doc.insert
  simp only [List.isEmpty_nil, if_true, List.length_nil, Nat.add_zero, List.getLast?_singleton,
    Option.getD_some]
  rw [set_line d l _ hl]
  exact set_at_length _ _ _ _ _ (length_take_of_lt d l hl)

theorem insert_multi (d : Doc) (l c : Nat) (l0 : Bytes) (init : List Bytes) (lst : Bytes)
    (hl : l < d.length) :
    Doc.insert d l c (l0 :: (init ++ [lst]))
      = d.take l ++ ((line d l).take c ++ l0) :: init ++ (lst ++ (line d l).drop c) :: d.drop (l + 1) := by
  unfold Doc.insert
  have hne : (init ++ [lst]).isEmpty = false := by simp
  simp only [hne, insertLines]
  rw [set_line d l _ hl]
  have hlen := length_take_of_lt d l hl
  have h1 : List.take (l + 1) (List.take l d ++ (List.take c (line d l) ++ l0) :: List.drop (l + 1) d)
      = List.take l d ++ [List.take c (line d l) ++ l0] := by
    have : List.take l d ++ (List.take c (line d l) ++ l0) :: List.drop (l + 1) d
        = (List.take l d ++ [List.take c (line d l) ++ l0]) ++ List.drop (l + 1) d := by simp
    rw [this]
    exact List.take_left' (by simp [hlen])
  have h2 : List.drop (l + 1) (List.take l d ++ (List.take c (line d l) ++ l0) :: List.drop (l + 1) d)
      = List.drop (l + 1) d := by
    have : List.take l d ++ (List.take c (line d l) ++ l0) :: List.drop (l + 1) d
        = (List.take l d ++ [List.take c (line d l) ++ l0]) ++ List.drop (l + 1) d := by simp
    rw [this]
    exact List.drop_left' (by simp [hlen])
  have h3 : ((List.take c (line d l) ++ l0) :: (init ++ [lst])).getLast?.getD [] = lst := by
    rw [show (List.take c (line d l) ++ l0) :: (init ++ [lst])
        = ((List.take c (line d l) ++ l0) :: init) ++ [lst] by simp, List.getLast?_concat]
    rfl
  simp only [Bool.false_eq_true, if_false, h1, h2, h3]
  have : List.take l d ++ [List.take c (line d l) ++ l0] ++ (init ++ [lst]) ++ List.drop (l + 1) d
      = (List.take l d ++ (List.take c (line d l) ++ l0) :: init) ++ lst :: List.drop (l + 1) d := by
    simp
  rw [this, set_at_length _ _ _ _ _ (by simp [hlen])]

theorem insert_text (d : Doc) (l c : Nat) (ws : List Bytes) (hl : l < d.length) (hw : ws ≠ []) :
    joinLF (Doc.insert d l c ws) = pre d l c ++ joinLF ws ++ suf d l c := by
  cases ws with
  | nil => exact absurd rfl hw
  | cons l0 rest =>
    rcases List.eq_nil_or_concat rest with rfl | ⟨init, lst, rfl⟩
    · rw [insert_single d l c l0 hl]
      unfold pre suf
      rw [List.append_assoc, joinLF_split, joinLF_head_append]
      simp [joinLF]
    · rw [List.concat_eq_append, insert_multi d l c l0 init lst hl]
      unfold pre suf
      rw [joinLF_split, List.append_assoc, List.cons_append, joinLF_split]

theorem delete_text (d : Doc) (fl fc tl tc : Nat) (h1 : fl ≤ tl) (h2 : tl < d.length) :
    joinLF (delete d fl fc tl tc) = pre d fl fc ++ suf d tl tc := by
  rw [delete_eq d fl fc tl tc h1 h2, joinLF_split]
  rfl


theorem setLast_concat (init : List Bytes) (lst : Bytes) (f : Bytes → Bytes) :
    setLast (init ++ [lst]) f = init ++ [f lst] := by
  simp [setLast]

theorem line_at_length (a : List Bytes) (x : Bytes) (b : List Bytes) (i : Nat) (hi : a.length = i) :
    line (a ++ x :: b) i = x := by
  subst hi
  simp [line]

theorem overwrite_text (d : Doc) (fl fc tl tc : Nat) (ws : List Bytes) (h1 : fl ≤ tl)
    (h2 : tl < d.length) (hw : ws ≠ []) :
    joinLF (overwrite d fl fc tl tc ws) = pre d fl fc ++ joinLF ws ++ suf d tl tc := by
  rcases List.eq_nil_or_concat ws with rfl | ⟨init, lst, rfl⟩
  · exact absurd rfl hw
  rw [List.concat_eq_append]
  unfold overwrite
  simp only [setLast_concat]
  rw [delete_eq d fl fc tl _ h1 h2]
  have hlen := length_take_of_lt d fl (by omega)
  rw [insert_text _ _ _ _ (by simp; omega) (by simp)]
  unfold pre suf
  rw [line_at_length _ _ _ _ hlen, List.take_left' hlen]
  have hd : List.drop (fl + 1)
      (List.take fl d ++ (List.take fc (line d fl) ++ List.drop (lineLen d tl) (line d tl)) :: List.drop (tl + 1) d)
      = List.drop (tl + 1) d := by
    rw [show ∀ (a : List Bytes) x b, a ++ x :: b = (a ++ [x]) ++ b by simp]
    exact List.drop_left' (by simp [hlen])
  rw [hd]
  have e1 : List.drop (lineLen d tl) (line d tl) = [] := by simp [lineLen]
  rw [e1, List.append_nil, List.take_take, Nat.min_self]
  have e2 : List.drop fc (List.take fc (line d fl)) = [] := by simp
  rw [e2, List.append_assoc, List.append_assoc]
  congr 1
  rw [← joinLF_split, ← joinLF_split]
  simp

theorem normPos_spec (d : Doc) (hd : d ≠ []) (p : Pos) :
    (normPos d p).line < d.length ∧ (normPos d p).char ≤ lineLen d (normPos d p).line := by
  have hlen : 0 < d.length := List.length_pos_iff.mpr hd
  unfold normPos
  simp only []
  split <;> split <;> simp_all <;> omega


theorem splice_eq (d : Doc) (s e : Pos) (txt : Bytes)
    (hs1 : s.line < d.length) (hs2 : s.char ≤ lineLen d s.line)
    (he1 : e.line < d.length) (he2 : e.char ≤ lineLen d e.line) :
    (joinLF d).take (offset d s) ++ txt ++ (joinLF d).drop (offset d e)
      = pre d s.line s.char ++ txt ++ suf d e.line e.char := by
  have a1 : (joinLF d).take (offset d s) = pre d s.line s.char := by
    rw [text_decomp d s.line s.char hs1]
    exact List.take_left' (pre_length d s.line s.char hs1 hs2)
  have a2 : (joinLF d).drop (offset d e) = suf d e.line e.char := by
    rw [text_decomp d e.line e.char he1]
    exact List.drop_left' (pre_length d e.line e.char he1 he2)
  rw [a1, a2]

/-- `Doc.apply` after normalisation. -/
def applyN (d : Doc) (r : Rng) (txt : Bytes) : Doc :=
  if isWhole d r then splitLF txt
  else if isEmptyRange r && !txt.isEmpty then Doc.insert d r.start.line r.start.char (splitLF txt)
  else if !isEmptyRange r && txt.isEmpty then delete d r.start.line r.start.char r.stop.line r.stop.char
  else if !isEmptyRange r && !txt.isEmpty then
    overwrite d r.start.line r.start.char r.stop.line r.stop.char (splitLF txt)
  else d

theorem apply_eq_applyN (d : Doc) (r : Rng) (txt : Bytes) :
    Doc.apply d (some r) txt = applyN d (normalize d r) txt := rfl

theorem applyN_text (d : Doc) (sl sc el ec : Nat) (txt : Bytes)
    (hs1 : sl < d.length) (hs2 : sc ≤ lineLen d sl)
    (he1 : el < d.length) (he2 : ec ≤ lineLen d el)
    (ho : Pos.le ⟨sl, sc⟩ ⟨el, ec⟩ = true) :
    joinLF (applyN d ⟨⟨sl, sc⟩, ⟨el, ec⟩⟩ txt) = pre d sl sc ++ txt ++ suf d el ec := by
  simp only [Pos.le, Bool.or_eq_true, Bool.and_eq_true, decide_eq_true_eq, beq_iff_eq] at ho
  have hle : sl ≤ el := by omega
  unfold applyN
  have hws := splitLF_ne_nil txt
  by_cases hW : isWhole d ⟨⟨sl, sc⟩, ⟨el, ec⟩⟩ = true
  · rw [if_pos hW]
    simp only [isWhole, bne_iff_ne, ne_eq, Bool.or_eq_true] at hW
    split at hW
    · simp at hW
    · rename_i h0
      simp only [Bool.and_eq_true, beq_iff_eq] at hW
      obtain ⟨rfl, rfl⟩ := hW
      have hsl : sl = 0 := by omega
      have hsc : sc = 0 := by omega
      subst hsl hsc
      have e1 : pre d 0 0 = [] := by simp [pre, joinLF]
      have e2 : suf d (d.length - 1) (lineLen d (d.length - 1)) = [] := by
        have : d.length - 1 + 1 = d.length := by omega
        simp [suf, lineLen, this, joinLF]
      rw [e1, e2, joinLF_splitLF]
      simp
  · rw [if_neg hW]
    by_cases hE : el = sl ∧ sc = ec
    · obtain ⟨rfl, rfl⟩ := hE
      by_cases ht : txt = []
      · subst ht
        simp [isEmptyRange, text_decomp d el sc he1]
      · have : txt.isEmpty = false := by simpa using ht
        simp only [isEmptyRange, this, beq_self_eq_true, Bool.and_self, Bool.not_false, if_true]
        rw [insert_text d el sc _ he1 hws, joinLF_splitLF]
    · have hE' : isEmptyRange ⟨⟨sl, sc⟩, ⟨el, ec⟩⟩ = false := by
        simp only [isEmptyRange, Bool.and_eq_false_iff, beq_eq_false_iff_ne, ne_eq]
        omega
      by_cases ht : txt = []
      · subst ht
        simp only [hE', List.isEmpty_nil, Bool.not_true, Bool.and_false, Bool.false_eq_true, if_false,
          Bool.not_false, Bool.and_self, if_true]
        rw [delete_text d sl sc el ec hle he1]
        simp
      · have : txt.isEmpty = false := by simpa using ht
        simp only [hE', this, Bool.not_false, Bool.and_self, Bool.and_false, Bool.false_and,
          Bool.false_eq_true, if_false, if_true]
        rw [overwrite_text d sl sc el ec _ hle he1 hws, joinLF_splitLF]

theorem apply_some (d : Doc) (hd : WellFormed d) (r : Rng) (txt : Bytes)
    (ho : ordered d (some r) = true) :
    text (Doc.apply d (some r) txt) = Editor.apply (text d) (some r) txt := by
  have hne := hd.1
  obtain ⟨hs1, hs2⟩ := normPos_spec d hne r.start
  obtain ⟨he1, he2⟩ := normPos_spec d hne r.stop
  unfold Editor.apply text
  simp only [splitLF_joinLF d hd]
  rw [show (normalize d r).start = normPos d r.start from rfl,
      show (normalize d r).stop = normPos d r.stop from rfl,
      splice_eq d _ _ txt hs1 hs2 he1 he2, apply_eq_applyN]
  exact applyN_text d _ _ _ _ txt hs1 hs2 he1 he2 ho


/-! ## well-formedness -/

theorem noLF_append {a b : Doc} (ha : NoLF a) (hb : NoLF b) : NoLF (a ++ b) := by
  intro l hl
  rcases List.mem_append.mp hl with h | h
  · exact ha l h
  · exact hb l h

theorem noLF_take {d : Doc} (h : NoLF d) (n : Nat) : NoLF (d.take n) :=
  fun l hl => h l (List.mem_of_mem_take hl)

theorem noLF_drop {d : Doc} (h : NoLF d) (n : Nat) : NoLF (d.drop n) :=
  fun l hl => h l (List.mem_of_mem_drop hl)

theorem noLF_set {d : Doc} (h : NoLF d) (n : Nat) {v : Bytes} (hv : (10 : UInt8) ∉ v) :
    NoLF (d.set n v) := by
  intro l hl
  rcases List.mem_or_eq_of_mem_set hl with h' | rfl
  · exact h l h'
  · exact hv

theorem noLF_line {d : Doc} (h : NoLF d) (n : Nat) : (10 : UInt8) ∉ line d n := by
  unfold line
  by_cases hn : n < d.length
  · rw [List.getD_eq_getElem?_getD, List.getElem?_eq_getElem hn]
    exact h _ (List.getElem_mem hn)
  · rw [List.getD_eq_getElem?_getD, List.getElem?_eq_none (by omega)]
    simp

theorem notMem_take {l : Bytes} (h : (10 : UInt8) ∉ l) (n : Nat) : (10 : UInt8) ∉ l.take n :=
  fun hm => h (List.mem_of_mem_take hm)

theorem notMem_drop {l : Bytes} (h : (10 : UInt8) ∉ l) (n : Nat) : (10 : UInt8) ∉ l.drop n :=
  fun hm => h (List.mem_of_mem_drop hm)

theorem notMem_append {a b : Bytes} (ha : (10 : UInt8) ∉ a) (hb : (10 : UInt8) ∉ b) :
    (10 : UInt8) ∉ a ++ b := by
  simp [ha, hb]

theorem delete_noLF {d : Doc} (h : NoLF d) (fl fc tl tc : Nat) : NoLF (delete d fl fc tl tc) := by
  unfold delete deleteLines
  exact noLF_set (noLF_append (noLF_take h _) (noLF_drop h _)) _
    (notMem_append (notMem_take (noLF_line h _) _) (notMem_drop (noLF_line h _) _))

theorem delete_ne_nil (d : Doc) (fl fc tl tc : Nat) (h : tl < d.length) :
    delete d fl fc tl tc ≠ [] := by
  unfold delete deleteLines
  intro hc
  have := congrArg List.length hc
  simp at this
  omega

theorem noLF_getLast {ls : Doc} (h : NoLF ls) : (10 : UInt8) ∉ ls.getLast?.getD [] := by
  cases hl : ls.getLast? with
  | none => simp
  | some x => exact h x (List.mem_of_getLast? hl)

theorem insert_noLF {d : Doc} (h : NoLF d) (l c : Nat) {ls : Doc} (hls : NoLF ls) :
    NoLF (Doc.insert d l c ls) := by
  unfold Doc.insert
  cases ls with
  | nil => exact h
  | cons l0 rest =>
    have hl0 : (10 : UInt8) ∉ l0 := hls l0 (by simp)
    have hrest : NoLF rest := fun x hx => hls x (by simp [hx])
    have hfirst : (10 : UInt8) ∉ List.take c (line d l) ++ l0 :=
      notMem_append (notMem_take (noLF_line h _) _) hl0
    have hd1 : NoLF (d.set l (List.take c (line d l) ++ l0)) := noLF_set h _ hfirst
    simp only []
    apply noLF_set
    · split
      · exact hd1
      · unfold insertLines
        exact noLF_append (noLF_append (noLF_take hd1 _) hrest) (noLF_drop hd1 _)
    · apply notMem_append _ (notMem_drop (noLF_line h _) _)
      apply noLF_getLast
      intro x hx
      rcases List.mem_cons.mp hx with rfl | hx
      · exact hfirst
      · exact hrest x hx

theorem insert_ne_nil (d : Doc) (hd : d ≠ []) (l c : Nat) (ls : Doc) : Doc.insert d l c ls ≠ [] := by
  have hlen : 0 < d.length := List.length_pos_iff.mpr hd
  unfold Doc.insert
  cases ls with
  | nil => exact hd
  | cons l0 rest =>
    simp only []
    intro hc
    have := congrArg List.length hc
    simp only [List.length_set, List.length_nil] at this
    split at this
    · rw [List.length_set] at this; omega
    · rename_i hr
      have hr' : 0 < rest.length := by
        cases rest with
        | nil => simp at hr
        | cons => simp
      simp only [insertLines, List.length_append] at this
      omega

theorem setLast_noLF {ls : Doc} (h : NoLF ls) {s : Bytes} (hs : (10 : UInt8) ∉ s) :
    NoLF (setLast ls (· ++ s)) := by
  rcases List.eq_nil_or_concat ls with rfl | ⟨init, lst, rfl⟩
  · simpa [setLast] using h
  · rw [List.concat_eq_append] at h ⊢
    rw [setLast_concat]
    apply noLF_append
    · exact fun x hx => h x (by simp [hx])
    · intro x hx
      simp only [List.mem_singleton] at hx
      subst hx
      exact notMem_append (h lst (by simp)) hs

theorem applyN_wf (d : Doc) (hd : WellFormed d) (r : Rng) (txt : Bytes) (he : r.stop.line < d.length) :
    WellFormed (applyN d r txt) := by
  obtain ⟨hne, hno⟩ := hd
  have hno : NoLF d := hno
  have hsplit : WellFormed (splitLF txt) := ⟨splitLF_ne_nil txt, splitLF_noLF txt⟩
  unfold applyN
  split
  · exact hsplit
  · split
    · exact ⟨insert_ne_nil d hne _ _ _, insert_noLF hno _ _ hsplit.2⟩
    · split
      · exact ⟨delete_ne_nil d _ _ _ _ he, delete_noLF hno _ _ _ _⟩
      · split
        · unfold overwrite
          exact ⟨insert_ne_nil _ (delete_ne_nil d _ _ _ _ he) _ _ _,
            insert_noLF (delete_noLF hno _ _ _ _) _ _
              (setLast_noLF hsplit.2 (notMem_drop (noLF_line hno _) _))⟩
        · exact ⟨hne, hno⟩

theorem ofText_wf_text (t : Bytes) : WellFormed (ofText t) ∧ text (ofText t) = t :=
  ⟨⟨splitLF_ne_nil t, splitLF_noLF t⟩, joinLF_splitLF t⟩

theorem apply_nil (d : Doc) (txt : Bytes) :
    text (Doc.apply d none txt) = Editor.apply (text d) none txt :=
  joinLF_splitLF txt

theorem apply_wf (d : Doc) (hd : WellFormed d) (r : Option Rng) (txt : Bytes) :
    WellFormed (Doc.apply d r txt) := by
  cases r with
  | none => exact ⟨splitLF_ne_nil txt, splitLF_noLF txt⟩
  | some r =>
    rw [apply_eq_applyN]
    exact applyN_wf d hd _ txt (normPos_spec d hd.1 r.stop).1

theorem ofText_text (d : Doc) (hd : WellFormed d) : ofText (text d) = d := splitLF_joinLF d hd

theorem hist (t₀ : Bytes) (cs : List Change) (h : allOrdered t₀ cs = true) :
    text (cs.foldl (fun d c => Doc.apply d c.1 c.2) (ofText t₀))
      = cs.foldl (fun t c => Editor.apply t c.1 c.2) t₀ := by
  induction cs generalizing t₀ with
  | nil => exact (ofText_wf_text t₀).2
  | cons c cs ih =>
    obtain ⟨r, txt⟩ := c
    simp only [allOrdered, Bool.and_eq_true] at h
    obtain ⟨ho, hrest⟩ := h
    obtain ⟨hwf, htext⟩ := ofText_wf_text t₀
    have hstep : text (Doc.apply (ofText t₀) r txt) = Editor.apply t₀ r txt := by
      cases r with
      | none => rw [apply_nil, htext]
      | some r => rw [apply_some _ hwf r txt ho, htext]
    have hwf' := apply_wf (ofText t₀) hwf r txt
    have hd' : Doc.apply (ofText t₀) r txt = ofText (Editor.apply t₀ r txt) := by
      rw [← hstep, ofText_text _ hwf']
    simp only [List.foldl_cons]
    rw [hd']
    exact ih _ hrest

end TemplVerif.Proofs.Doc
