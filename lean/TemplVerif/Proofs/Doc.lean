import TemplVerif.Model.Doc
/-
Helper lemmas for C17 (Props/C17.lean states the property theorems and only cites these).
-/
namespace TemplVerif.Proofs.Doc
open TemplVerif TemplVerif.Doc

theorem ofText_wf_text (t : Bytes) : WellFormed (ofText t) ∧ text (ofText t) = t := by
  sorry

theorem apply_nil (d : Doc) (txt : Bytes) :
    text (Doc.apply d none txt) = Editor.apply (text d) none txt := by
  sorry

theorem apply_some (d : Doc) (hd : WellFormed d) (r : Rng) (txt : Bytes)
    (ho : ordered d (some r) = true) :
    text (Doc.apply d (some r) txt) = Editor.apply (text d) (some r) txt := by
  sorry

theorem apply_wf (d : Doc) (hd : WellFormed d) (r : Option Rng) (txt : Bytes) :
    WellFormed (Doc.apply d r txt) := by
  sorry

theorem hist (t₀ : Bytes) (cs : List Change) (h : allOrdered t₀ cs = true) :
    text (cs.foldl (fun d c => Doc.apply d c.1 c.2) (ofText t₀))
      = cs.foldl (fun t c => Editor.apply t c.1 c.2) t₀ := by
  sorry

end TemplVerif.Proofs.Doc
