import TemplVerif.Model.Denote
import TemplVerif.Proofs.GenBase
/-
C01, composition — helper lemmas: once the error flag of a render state is set, it stays set (so a render that ends
without error never had one), and evaluation does not touch the output.
-/
namespace TemplVerif.Proofs.Compose
open TemplVerif TemplVerif.Ast TemplVerif.Sem
open TemplVerif.Proofs.Gen

theorem eval_out (env : Env) (e : Bytes) (st : St) : (eval env e st).2.out = st.out := by
  unfold eval; split <;> rfl

theorem eval_err_mono (env : Env) (e : Bytes) (st : St) (h : st.err = true) : (eval env e st).2.err = true := by
  unfold eval; split <;> simp [St.stick, h]

theorem eval_none (env : Env) (e : Bytes) (st : St) (h : (eval env e st).1 = none) : (eval env e st).2.err = true := by
  unfold eval at h ⊢; split <;> simp_all [St.stick]

theorem eval_peek (env : Env) (e : Bytes) (st : St) : (eval env e st).1 = peek env e := by
  unfold eval peek
  cases env.lookup e <;> rfl

theorem iterate_err (f : Env → St → St) (hf : ∀ env st, st.err = true → (f env st).err = true) (env : Env) :
    ∀ (bs : List (List (Bytes × Bytes))) (st : St), st.err = true → (iterate bs f env st).err = true
  | [], st, h => by simpa [iterate] using h
  | b :: bs, st, h => by
    simp only [iterate, List.foldl_cons]
    exact iterate_err f hf env bs _ (hf _ _ h)

mutual
theorem attrs_err (css : Bool) (el : Bytes) : (as : Attrs) → (env : Env) → (st : St) → st.err = true →
    Denote.attrs css el as env st = st
  | .nil, env, st, h => by simp [Denote.attrs]
  | .cons a as, env, st, h => by
    rw [Denote.attrs, attr_err css el a env st h, attrs_err css el as env st h]
theorem attr_err (css : Bool) (el : Bytes) : (a : Attr) → (env : Env) → (st : St) → st.err = true →
    Denote.attr css el a env st = st
  | .boolConst _, env, st, h => by simp [Denote.attr, h]
  | .const _ _ _, env, st, h => by simp [Denote.attr, h]
  | .boolExpr _ _, env, st, h => by simp [Denote.attr, h]
  | .expr _ _, env, st, h => by simp [Denote.attr, h]
  | .spread _, env, st, h => by simp [Denote.attr, h]
  | .cond _ _ _, env, st, h => by simp [Denote.attr, h]
end

theorem openTag_err (strict css : Bool) (name : Bytes) (as : Attrs) (env : Env) (st : St) (h : st.err = true) :
    Denote.openTag strict css name as env st = st := by
  simp [Denote.openTag, h]

theorem space_err (cur : Node) (next : Bool) (st : St) : (Denote.space cur next st).err = st.err := by
  unfold Denote.space
  split
  · rfl
  · split <;> rfl

mutual
theorem node_err (strict : Bool) : (n : Node) → (next : Bool) → (env : Env) → (st : St) → st.err = true →
    (Denote.node strict n next env st).err = true
  | .doctype v, next, env, st, h => by simp [Denote.node, h]
  | .element name as children t ia ic, next, env, st, h => by
    simp only [Denote.node, space_err, openTag_err _ _ _ _ _ _ h]
    split
    · exact h
    · have := nodes_err strict true true children false env st h
      simp [this]
  | .htmlComment c, next, env, st, h => by simp [Denote.node, h]
  | .children, next, env, st, h => by simp [Denote.node, h]
  | .raw name as contents, next, env, st, h => by simp [Denote.node, openTag_err _ _ _ _ _ _ h, h]
  | .script as parts, next, env, st, h => by
    simp [Denote.node, openTag_err _ _ _ _ _ _ h, scriptParts_err _ _ _ h, h]
  | .forE e body, next, env, st, h => by simp [Denote.node, h]
  | .call e, next, env, st, h => by simp [Denote.node, h]
  | .templEl e body, next, env, st, h => by simp [Denote.node, h]
  | .ifE e thn elifs els, next, env, st, h => by simp [Denote.node, h]
  | .switchE e cs, next, env, st, h => by simp [Denote.node, h]
  | .strExpr e t, next, env, st, h => by
    simp only [Denote.node, space_err]
    split
    · exact h
    · simp [writeEscaped_err _ _ _ h, h]
  | .goCode e _ _, next, env, st, h => by simp [Denote.node, h]
  | .ws v, next, env, st, h => by simp [Denote.node, h]
  | .text v t, next, env, st, h => by simp [Denote.node, space_err, h]
  | .goComment _ _, next, env, st, h => by simpa [Denote.node] using h
theorem nodes_err (strict : Bool) : (all atStart : Bool) → (ns : Nodes) → (next : Bool) → (env : Env) → (st : St) →
    st.err = true → (Denote.nodes strict all atStart ns next env st).err = true
  | all, atStart, .nil, next, env, st, h => by simpa [Denote.nodes] using h
  | all, atStart, .cons n rest, next, env, st, h => by
    simp only [Denote.nodes]
    split
    · exact nodes_err strict all atStart rest next env st h
    · exact nodes_err strict all false rest next env _ (node_err strict n _ env st h)
end

/-- a node list that ends without error started without error -/
theorem nodes_ok_start (strict all atStart : Bool) (ns : Nodes) (next : Bool) (env : Env) (st : St)
    (h : (Denote.nodes strict all atStart ns next env st).err = false) : st.err = false := by
  cases hs : st.err with
  | false => rfl
  | true => rw [nodes_err strict all atStart ns next env st hs] at h; exact absurd h (by simp)

theorem node_ok_start (strict : Bool) (n : Node) (next : Bool) (env : Env) (st : St)
    (h : (Denote.node strict n next env st).err = false) : st.err = false := by
  cases hs : st.err with
  | false => rfl
  | true => rw [node_err strict n next env st hs] at h; exact absurd h (by simp)

theorem attrs_ok_start (css : Bool) (el : Bytes) (as : Attrs) (env : Env) (st : St)
    (h : (Denote.attrs css el as env st).err = false) : st.err = false := by
  cases hs : st.err with
  | false => rfl
  | true => rw [attrs_err css el as env st hs, hs] at h; exact absurd h (by simp)

theorem iterate_ok_start (f : Env → St → St) (hf : ∀ env st, st.err = true → (f env st).err = true) (env : Env)
    (bs : List (List (Bytes × Bytes))) (st : St) (h : (iterate bs f env st).err = false) : st.err = false := by
  cases hs : st.err with
  | false => rfl
  | true => rw [iterate_err f hf env bs st hs] at h; exact absurd h (by simp)

end TemplVerif.Proofs.Compose
