import TemplVerif.Model.Mux
import TemplVerif.Proofs.Frame
/-
C18 — frames of concurrent senders never interleave, under every schedule of single transport writes, as long as every
sender goes through `conn.write` (takes the write mutex).
-/
namespace TemplVerif.Proofs.Mux
open TemplVerif TemplVerif.Mux

/-- the writers all go through conn.write and have not started -/
def Fresh (ws : List Writer) : Prop := ∀ w ∈ ws, w.locked = true ∧ w.pc = .idle

/-! ### looking into `setPc` -/

theorem getElem?_setPc (ws : List Writer) (i j : Nat) (pc : Pc) :
    (setPc ws i pc)[j]? = (ws[j]?).map (fun w => if j == i then { w with pc := pc } else w) := by
  simp [setPc, List.getElem?_mapIdx]

theorem getElem?_setPc_self (ws : List Writer) (i : Nat) (pc : Pc) (w : Writer) (h : ws[i]? = some w) :
    (setPc ws i pc)[i]? = some { w with pc := pc } := by
  simp [getElem?_setPc, h]

theorem getElem?_setPc_ne (ws : List Writer) (i j : Nat) (pc : Pc) (h : j ≠ i) :
    (setPc ws i pc)[j]? = ws[j]? := by
  rw [getElem?_setPc]
  cases ws[j]? <;> simp [h]

/-- what `setPc` does to one entry, as a case distinction usable backwards -/
theorem setPc_cases (ws : List Writer) (i j : Nat) (pc : Pc) (w' : Writer) (h : (setPc ws i pc)[j]? = some w') :
    (j = i ∧ ∃ w, ws[i]? = some w ∧ w' = { w with pc := pc }) ∨ (j ≠ i ∧ ws[j]? = some w') := by
  by_cases hj : j = i
  · subst hj
    left
    rw [getElem?_setPc] at h
    cases hw : ws[j]? with
    | none => simp [hw] at h
    | some w => refine ⟨rfl, w, rfl, ?_⟩; simp [hw] at h; exact h.symm
  · right; rw [getElem?_setPc_ne _ _ _ _ hj] at h; exact ⟨hj, h⟩

/-- the two byte strings of a writer; no step changes them -/
def hb (w : Writer) : Bytes × Bytes := (w.header, w.body)

theorem hb_setPc (ws : List Writer) (i j : Nat) (pc : Pc) :
    (setPc ws i pc)[j]?.map hb = ws[j]?.map hb := by
  rw [getElem?_setPc]
  cases ws[j]? with
  | none => rfl
  | some w => simp only [Option.map_some]; split <;> rfl

theorem length_setPc (ws : List Writer) (i : Nat) (pc : Pc) : (setPc ws i pc).length = ws.length := by
  simp [setPc]

theorem hbs_setPc (ws : List Writer) (i : Nat) (pc : Pc) :
    (fun (j : Nat) => (setPc ws i pc)[j]?.map hb) = (fun (j : Nat) => ws[j]?.map hb) :=
  funext fun j => hb_setPc ws i j pc

theorem frames_of_hbs (a b : List Writer)
    (h : (fun (j : Nat) => a[j]?.map hb) = (fun (j : Nat) => b[j]?.map hb)) :
    (fun (j : Nat) => a[j]?.map frameOf) = (fun (j : Nat) => b[j]?.map frameOf) := by
  funext j
  have hj := congrFun h j
  cases ha : a[j]? <;> cases hb' : b[j]? <;> rw [ha, hb'] at hj <;> simp [hb] at hj ⊢
  simp [frameOf, hj.1, hj.2]

theorem frames_setPc (ws : List Writer) (i : Nat) (pc : Pc) :
    (fun (j : Nat) => (setPc ws i pc)[j]?.map frameOf) = (fun (j : Nat) => ws[j]?.map frameOf) :=
  frames_of_hbs _ _ (hbs_setPc ws i pc)

/-! ### the invariant -/

structure Inv (s : State) (order : List Nat) : Prop where
  nodup : order.Nodup
  mem : ∀ i : Nat, i ∈ order ↔ ∃ w : Writer, s.writers[i]? = some w ∧ w.pc = .done
  locked : ∀ (i : Nat) (w : Writer), s.writers[i]? = some w → w.locked = true
  excl : ∀ (i : Nat) (w : Writer), s.writers[i]? = some w → (w.pc = .hasLock ∨ w.pc = .wroteHeader) → s.holder = some i
  out : ∃ tail : Bytes, s.out = (order.filterMap fun (i : Nat) => s.writers[i]?.map frameOf).flatten ++ tail ∧
     ((tail = [] ∧ ∀ (i : Nat) (w : Writer), s.writers[i]? = some w → w.pc ≠ .wroteHeader) ∨
      (∃ (h : Nat) (w : Writer), s.writers[h]? = some w ∧ w.pc = .wroteHeader ∧ tail = w.header))

theorem inv_init (ws : List Writer) (hf : Fresh ws) : Inv { writers := ws } [] := by
  have hw : ∀ (i : Nat) (w : Writer), ws[i]? = some w → w.locked = true ∧ w.pc = .idle :=
    fun i w h => hf w (List.mem_of_getElem? h)
  constructor
  · simp
  · intro i
    simp only [List.not_mem_nil, false_iff, not_exists, not_and]
    intro w h hd
    rw [(hw i w h).2] at hd; cases hd
  · intro i w h; exact (hw i w h).1
  · intro i w h hp
    rw [(hw i w h).2] at hp
    rcases hp with hp | hp <;> cases hp
  · refine ⟨[], by simp, Or.inl ⟨rfl, ?_⟩⟩
    intro i w h hp
    rw [(hw i w h).2] at hp; cases hp

/-- taking the mutex -/
theorem inv_acquire (s : State) (order : List Nat) (i : Nat) (w : Writer) (hi : Inv s order)
    (hw : s.writers[i]? = some w) (hpc : w.pc = .idle) (hh : s.holder = none) :
    Inv { s with holder := some i, writers := setPc s.writers i .hasLock } order := by
  obtain ⟨h1, h2, h3, h4, tail, h5, h6⟩ := hi
  constructor
  · exact h1
  · intro j
    rw [h2 j]
    simp only
    constructor
    · rintro ⟨w', hw', hd⟩
      have hj : j ≠ i := by rintro rfl; rw [hw] at hw'; cases hw'; rw [hpc] at hd; cases hd
      exact ⟨w', by rw [getElem?_setPc_ne _ _ _ _ hj]; exact hw', hd⟩
    · rintro ⟨w', hw', hd⟩
      rcases setPc_cases _ _ _ _ _ hw' with ⟨_, w0, _, rfl⟩ | ⟨_, hw0⟩
      · cases hd
      · exact ⟨w', hw0, hd⟩
  · intro j w' hw'
    rcases setPc_cases _ _ _ _ _ hw' with ⟨_, w0, hw0, rfl⟩ | ⟨_, hw0⟩
    · exact h3 i w0 hw0
    · exact h3 j w' hw0
  · intro j w' hw' hp
    rcases setPc_cases _ _ _ _ _ hw' with ⟨hj, _⟩ | ⟨_, hw0⟩
    · simp [hj]
    · have := h4 j w' hw0 hp; rw [hh] at this; cases this
  · refine ⟨tail, ?_, ?_⟩
    · simp only [frames_setPc]; exact h5
    · rcases h6 with ⟨ht, hn⟩ | ⟨h, w', hw', hp, ht⟩
      · left
        refine ⟨ht, ?_⟩
        intro j w' hw' hp
        rcases setPc_cases _ _ _ _ _ hw' with ⟨_, w0, _, rfl⟩ | ⟨_, hw0⟩
        · cases hp
        · exact hn j w' hw0 hp
      · right
        have hne : h ≠ i := by rintro rfl; rw [hw] at hw'; cases hw'; rw [hpc] at hp; cases hp
        exact ⟨h, w', by simp only; rw [getElem?_setPc_ne _ _ _ _ hne]; exact hw', hp, ht⟩

/-- the first write: the header -/
theorem inv_header (s : State) (order : List Nat) (i : Nat) (w : Writer) (hi : Inv s order)
    (hw : s.writers[i]? = some w) (hpc : w.pc = .hasLock) :
    Inv { s with out := s.out ++ w.header, writers := setPc s.writers i .wroteHeader } order := by
  obtain ⟨h1, h2, h3, h4, tail, h5, h6⟩ := hi
  have hhold : s.holder = some i := h4 i w hw (Or.inl hpc)
  constructor
  · exact h1
  · intro j
    rw [h2 j]
    simp only
    constructor
    · rintro ⟨w', hw', hd⟩
      have hj : j ≠ i := by rintro rfl; rw [hw] at hw'; cases hw'; rw [hpc] at hd; cases hd
      exact ⟨w', by rw [getElem?_setPc_ne _ _ _ _ hj]; exact hw', hd⟩
    · rintro ⟨w', hw', hd⟩
      rcases setPc_cases _ _ _ _ _ hw' with ⟨_, w0, _, rfl⟩ | ⟨_, hw0⟩
      · cases hd
      · exact ⟨w', hw0, hd⟩
  · intro j w' hw'
    rcases setPc_cases _ _ _ _ _ hw' with ⟨_, w0, hw0, rfl⟩ | ⟨_, hw0⟩
    · exact h3 i w0 hw0
    · exact h3 j w' hw0
  · intro j w' hw' hp
    rcases setPc_cases _ _ _ _ _ hw' with ⟨hj, _⟩ | ⟨_, hw0⟩
    · simp [hj, hhold]
    · exact h4 j w' hw0 hp
  · have htail : tail = [] := by
      rcases h6 with ⟨ht, _⟩ | ⟨h, w', hw', hp, _⟩
      · exact ht
      · have := h4 h w' hw' (Or.inr hp)
        rw [hhold] at this
        cases this
        rw [hw] at hw'; cases hw'; rw [hpc] at hp; cases hp
    subst htail
    refine ⟨w.header, ?_, Or.inr ⟨i, { w with pc := .wroteHeader }, getElem?_setPc_self _ _ _ _ hw, rfl, rfl⟩⟩
    simp only [frames_setPc]
    rw [h5, List.append_nil]

/-- the second write: the body, and the mutex is released -/
theorem inv_body (s : State) (order : List Nat) (i : Nat) (w : Writer) (hi : Inv s order)
    (hw : s.writers[i]? = some w) (hpc : w.pc = .wroteHeader) :
    Inv { s with out := s.out ++ w.body, writers := setPc s.writers i .done,
                 holder := if w.locked then none else s.holder } (order ++ [i]) := by
  obtain ⟨h1, h2, h3, h4, tail, h5, h6⟩ := hi
  have hhold : s.holder = some i := h4 i w hw (Or.inr hpc)
  have hlock : w.locked = true := h3 i w hw
  have hnot : i ∉ order := by
    intro hm
    obtain ⟨w', hw', hd⟩ := (h2 i).1 hm
    rw [hw] at hw'; cases hw'; rw [hpc] at hd; cases hd
  have hothers : ∀ j w', s.writers[j]? = some w' → (w'.pc = .hasLock ∨ w'.pc = .wroteHeader) → j = i := by
    intro j w' hw' hp
    have := h4 j w' hw' hp
    rw [hhold] at this
    cases this; rfl
  constructor
  · rw [List.nodup_append]
    refine ⟨h1, by simp, ?_⟩
    intro a ha b hb
    simp at hb; subst hb
    rintro rfl; exact hnot ha
  · intro j
    simp only [List.mem_append, List.mem_singleton, h2 j]
    constructor
    · rintro (⟨w', hw', hd⟩ | rfl)
      · have hj : j ≠ i := by rintro rfl; rw [hw] at hw'; cases hw'; rw [hpc] at hd; cases hd
        exact ⟨w', by rw [getElem?_setPc_ne _ _ _ _ hj]; exact hw', hd⟩
      · exact ⟨_, getElem?_setPc_self _ _ _ _ hw, rfl⟩
    · rintro ⟨w', hw', hd⟩
      rcases setPc_cases _ _ _ _ _ hw' with ⟨hj, _⟩ | ⟨_, hw0⟩
      · exact Or.inr hj
      · exact Or.inl ⟨w', hw0, hd⟩
  · intro j w' hw'
    rcases setPc_cases _ _ _ _ _ hw' with ⟨_, w0, hw0, rfl⟩ | ⟨_, hw0⟩
    · exact h3 i w0 hw0
    · exact h3 j w' hw0
  · intro j w' hw' hp
    rcases setPc_cases _ _ _ _ _ hw' with ⟨_, w0, _, rfl⟩ | ⟨hj, hw0⟩
    · rcases hp with hp | hp <;> cases hp
    · exact absurd (hothers j w' hw0 hp) hj
  · have htail : tail = w.header := by
      rcases h6 with ⟨_, hn⟩ | ⟨h, w', hw', hp, ht⟩
      · exact absurd hpc (hn i w hw)
      · have := hothers h w' hw' (Or.inr hp)
        subst this
        rw [hw] at hw'; cases hw'; exact ht
    subst htail
    refine ⟨[], ?_, Or.inl ⟨rfl, ?_⟩⟩
    · simp only [frames_setPc]
      rw [h5, List.filterMap_append]
      simp [hw, frameOf]
    · intro j w' hw' hp
      rcases setPc_cases _ _ _ _ _ hw' with ⟨_, w0, _, rfl⟩ | ⟨hj, hw0⟩
      · cases hp
      · exact absurd (hothers j w' hw0 (Or.inr hp)) hj

theorem inv_step (s s' : State) (order : List Nat) (i : Nat) (hi : Inv s order) (hs : step s i = some s') :
    ∃ order', Inv s' order' := by
  unfold step at hs
  split at hs
  · cases hs
  · rename_i w hw
    have hlock : w.locked = true := hi.locked i w hw
    split at hs
    · rename_i hpc
      rw [if_pos hlock] at hs
      split at hs
      · cases hs
      · rename_i hh
        cases hs
        refine ⟨order, inv_acquire s order i w hi hw hpc ?_⟩
        cases hho : s.holder with
        | none => rfl
        | some _ => rw [hho] at hh; simp at hh
    · rename_i hpc
      cases hs
      exact ⟨order, inv_header s order i w hi hw hpc⟩
    · rename_i hpc
      cases hs
      exact ⟨_, inv_body s order i w hi hw hpc⟩
    · cases hs

/-- a step changes program counters only -/
theorem step_frames (s s' : State) (i : Nat) (hs : step s i = some s') :
    (fun (j : Nat) => s'.writers[j]?.map hb) = (fun (j : Nat) => s.writers[j]?.map hb) ∧
      s'.writers.length = s.writers.length := by
  unfold step at hs
  split at hs
  · cases hs
  · split at hs
    · split at hs
      · split at hs
        · cases hs
        · cases hs; exact ⟨hbs_setPc _ _ _, length_setPc _ _ _⟩
      · cases hs; exact ⟨hbs_setPc _ _ _, length_setPc _ _ _⟩
    · cases hs; exact ⟨hbs_setPc _ _ _, length_setPc _ _ _⟩
    · cases hs; exact ⟨hbs_setPc _ _ _, length_setPc _ _ _⟩
    · cases hs

theorem run_frames (sched : List Nat) : ∀ s : State,
    (fun (j : Nat) => (run s sched).writers[j]?.map hb) = (fun (j : Nat) => s.writers[j]?.map hb) ∧
      (run s sched).writers.length = s.writers.length := by
  induction sched with
  | nil => intro s; exact ⟨rfl, rfl⟩
  | cons i rest ih =>
    intro s
    simp only [run]
    split
    · rename_i s' hs
      have h1 := ih s'
      have h2 := step_frames s s' i hs
      exact ⟨h1.1.trans h2.1, h1.2.trans h2.2⟩
    · exact ih s

theorem inv_run (sched : List Nat) : ∀ (s : State) (order : List Nat), Inv s order →
    ∃ order', Inv (run s sched) order' := by
  induction sched with
  | nil => intro s order hi; exact ⟨order, hi⟩
  | cons i rest ih =>
    intro s order hi
    simp only [run]
    split
    · rename_i s' hs
      obtain ⟨order', hi'⟩ := inv_step s s' order i hi hs
      exact ih s' order' hi'
    · exact ih s order hi

/-- What the transport has received is, at every moment, the complete frames of some writers (pairwise different, all
    finished) one after the other, followed - while a writer is between its two writes - by that writer's header. -/
theorem mux_prefix (ws : List Writer) (hf : Fresh ws) (sched : List Nat) :
    ∃ order : List Nat, order.Nodup ∧ (∀ i ∈ order, ∃ w, (run { writers := ws } sched).writers[i]? = some w ∧ w.pc = .done) ∧
      (∀ i w, (run { writers := ws } sched).writers[i]? = some w → w.pc = .done → i ∈ order) ∧
      ∃ tail : Bytes,
        (run { writers := ws } sched).out = (order.filterMap fun i => ws[i]?.map frameOf).flatten ++ tail ∧
        (tail = [] ∨ ∃ h w, (run { writers := ws } sched).holder = some h ∧ ws[h]? = some w ∧ tail = w.header) := by
  obtain ⟨order, hi⟩ := inv_run sched { writers := ws } [] (inv_init ws hf)
  have hhb := (run_frames sched { writers := ws }).1
  simp only at hhb
  have hfr := frames_of_hbs _ _ hhb
  obtain ⟨h1, h2, h3, h4, tail, h5, h6⟩ := hi
  refine ⟨order, h1, fun i hm => (h2 i).1 hm, fun i w hw hd => (h2 i).2 ⟨w, hw, hd⟩, tail, ?_, ?_⟩
  · rw [← hfr]; exact h5
  · rcases h6 with ⟨ht, _⟩ | ⟨h, w, hw, hp, ht⟩
    · exact Or.inl ht
    · right
      have hh := h4 h w hw (Or.inr hp)
      have hfh := congrFun hhb h
      simp only [hw, Option.map_some] at hfh
      cases hw0 : ws[h]? with
      | none => rw [hw0] at hfh; cases hfh
      | some w0 =>
        rw [hw0] at hfh
        simp only [Option.map_some, Option.some.injEq, hb, Prod.mk.injEq] at hfh
        exact ⟨h, w0, hh, hw0, by rw [ht, hfh.1]⟩

/-- When everybody has finished, the stream is the frames of all writers in SOME order: a permutation, nothing
    missing, nothing twice, nothing cut. -/
theorem mux_frames (ws : List Writer) (hf : Fresh ws) (sched : List Nat)
    (hd : allDone (run { writers := ws } sched) = true) :
    ∃ order : List Nat, order.Perm (List.range ws.length) ∧
      (run { writers := ws } sched).out = (order.filterMap fun i => ws[i]?.map frameOf).flatten := by
  obtain ⟨order, hi⟩ := inv_run sched { writers := ws } [] (inv_init ws hf)
  have hrf := run_frames sched { writers := ws }
  have hfr := frames_of_hbs _ _ hrf.1
  have hlen := hrf.2
  simp only at hfr hlen
  obtain ⟨h1, h2, h3, h4, tail, h5, h6⟩ := hi
  have hdone : ∀ (i : Nat) (w : Writer), (run { writers := ws } sched).writers[i]? = some w → w.pc = .done := by
    intro i w hw
    have := List.all_eq_true.1 hd w (List.mem_of_getElem? hw)
    simpa using this
  refine ⟨order, ?_, ?_⟩
  · rw [List.perm_ext_iff_of_nodup h1 List.nodup_range]
    intro a
    rw [h2 a, List.mem_range, ← hlen]
    constructor
    · rintro ⟨w, hw, _⟩
      exact (List.getElem?_eq_some_iff.1 hw).1
    · intro hlt
      exact ⟨_, List.getElem?_eq_getElem hlt, hdone _ _ (List.getElem?_eq_getElem hlt)⟩
  · have ht : tail = [] := by
      rcases h6 with ⟨ht, _⟩ | ⟨h, w, hw, hp, _⟩
      · exact ht
      · have := hdone h w hw; rw [this] at hp; cases hp
    rw [← hfr, h5, ht, List.append_nil]

/-- a frame is its header part followed by the body -/
theorem encode_split (b : Bytes) :
    (Frame.encode b).take ((Frame.encode b).length - b.length) ++ b = Frame.encode b := by
  have he : Frame.encode b
      = (Frame.hdrContentLength ++ [58, 32] ++ Frame.decimal b.length ++ Frame.crlfcrlf) ++ b := rfl
  rw [he, List.take_left' (by simp only [List.length_append]; omega)]

/-- Hence a reader gets every message back, whole: writers whose header is the length header of their body. -/
theorem mux_reads_back (bodies : List Bytes) (h : ∀ b ∈ bodies, 0 < b.length ∧ b.length < 2147483648) (sched : List Nat)
    (hd : allDone (run { writers := bodies.map fun b => { header := (Frame.encode b).take ((Frame.encode b).length - b.length), body := b } } sched) = true) :
    ∃ order : List Nat, order.Perm (List.range bodies.length) ∧
      Frame.readAll (run { writers := bodies.map fun b => { header := (Frame.encode b).take ((Frame.encode b).length - b.length), body := b } } sched).out
        = (order.filterMap fun i => bodies[i]?, none) := by
  have hfresh : Fresh (bodies.map fun b =>
      { header := (Frame.encode b).take ((Frame.encode b).length - b.length), body := b }) := by
    intro w hw
    simp only [List.mem_map] at hw
    obtain ⟨b, _, rfl⟩ := hw
    exact ⟨rfl, rfl⟩
  obtain ⟨order, hp, ho⟩ := mux_frames _ hfresh sched hd
  refine ⟨order, by simpa using hp, ?_⟩
  rw [ho]
  have hmap : (order.filterMap fun (i : Nat) => (bodies.map fun b =>
        ({ header := (Frame.encode b).take ((Frame.encode b).length - b.length), body := b } : Writer))[i]?.map frameOf)
      = (order.filterMap fun (i : Nat) => bodies[i]?).map Frame.encode := by
    rw [List.map_filterMap]
    congr 1
    funext i
    rw [List.getElem?_map, Option.map_map]
    congr 1
    funext b
    simp only [Function.comp, frameOf]
    exact encode_split b
  rw [hmap, ← List.flatMap_def, Proofs.Frame.readAll_encode]
  intro b hb
  simp only [List.mem_filterMap] at hb
  obtain ⟨i, _, hi⟩ := hb
  exact h b (List.mem_of_getElem? hi)

end TemplVerif.Proofs.Mux
