import TemplVerif.Model.Buf
/- Helper lemmas for C10. -/
namespace TemplVerif.Proofs.Buf
open TemplVerif TemplVerif.Buf

-- The document up to (not including) the first failing step, and that step's error.
mutual
  def docBefore : List ROp → Bytes × RErr
    | [] => ([], .none)
    | op :: rest =>
      match docBeforeOp op with
      | (d, .none) => let (d', e) := docBefore rest; (d ++ d', e)
      | (d, e) => (d, e)
  def docBeforeOp : ROp → Bytes × RErr
    | .write p => (p, .none)
    | .exprFail l => ([], .expr l)
    | .sub ops => docBefore ops
    | .subFail => ([], .component)
end

/-- Bytes that have logically left the program: what the writer holds plus what is buffered. -/
def cont (b : BW) : Bytes := b.u.accepted ++ b.buf

theorem under_write_raw (u : Under) (p : Bytes) (u' : Under) (n : Nat) (e : Bool)
    (h : u.write p = (u', n, e)) :
    u'.accepted = u.accepted ++ p.take n ∧
    n ≤ p.length ∧
    u'.limit = u.limit ∧
    (u.limit = none → e = false ∧ n = p.length) ∧
    (∀ k a0, u.limit = some k → (u.accepted = a0 ∨ u.accepted.length ≤ k) →
      (u'.accepted = a0 ∨ u'.accepted.length ≤ k)) := by
  unfold Under.write at h
  cases hl : u.limit with
  | none =>
    simp only [hl, Prod.mk.injEq] at h
    obtain ⟨rfl, rfl, rfl⟩ := h
    simp
  | some k =>
    simp only [hl] at h
    split at h
    · rename_i hle
      simp only [Prod.mk.injEq] at h
      obtain ⟨rfl, rfl, rfl⟩ := h
      refine ⟨by simp, by simp, by simp, by simp, ?_⟩
      intro k' a0 hk' hJ
      simp only [Option.some.injEq] at hk'
      subst hk'
      by_cases hp : p = []
      · subst hp; simpa using hJ
      · right
        have : 0 < p.length := List.length_pos_iff.mpr hp
        simp only [List.length_append]
        omega
    · rename_i hgt
      split at h
      · simp only [Prod.mk.injEq] at h
        obtain ⟨rfl, rfl, rfl⟩ := h
        refine ⟨by simp, by simp, hl, by simp, ?_⟩
        intro k' a0 _ hJ
        exact hJ
      · simp only [Prod.mk.injEq] at h
        obtain ⟨rfl, rfl, rfl⟩ := h
        refine ⟨by simp, by omega, by simp, by simp, ?_⟩
        intro k' a0 hk' hJ
        simp only [Option.some.injEq] at hk'
        subst hk'
        by_cases hak : u.accepted.length ≤ k
        · right
          simp only [List.length_append, List.length_take]
          omega
        · have : k - u.accepted.length = 0 := by omega
          simp only [this, List.take_zero, List.append_nil]
          exact hJ

theorem writeChecked_eq (u : Under) (p : Bytes) :
    u.writeChecked p = ((u.write p).1, (u.write p).2.1, ((u.write p).2.2 || decide ((u.write p).2.1 < p.length))) := rfl

theorem under_write_spec (u : Under) (p : Bytes) (u' : Under) (n : Nat) (e : Bool)
    (h : u.writeChecked p = (u', n, e)) :
    u'.accepted = u.accepted ++ p.take n ∧
    (e = false → n = p.length) ∧
    u'.limit = u.limit ∧
    (u.limit = none → e = false) ∧
    (∀ k a0, u.limit = some k → (u.accepted = a0 ∨ u.accepted.length ≤ k) →
      (u'.accepted = a0 ∨ u'.accepted.length ≤ k)) := by
  rw [writeChecked_eq] at h
  rcases hw : u.write p with ⟨u1, n1, e1⟩
  rw [hw] at h
  simp only [Prod.mk.injEq] at h
  obtain ⟨rfl, rfl, rfl⟩ := h
  obtain ⟨hacc, hle, hlim, hnl, hJ⟩ := under_write_raw _ _ _ _ _ hw
  refine ⟨hacc, ?_, hlim, ?_, hJ⟩
  · intro he
    simp only [Bool.or_eq_false_iff, decide_eq_false_iff_not] at he
    omega
  · intro hl
    obtain ⟨h1, h2⟩ := hnl hl
    simp [h1, h2]

/-- What every buffer operation preserves, whether or not it fails. `a0` is the ghost value "what the writer held when
    the render started"; `J` says the writer has either received nothing yet or is within its limit. -/
structure Core (a0 : Bytes) (b b' : BW) : Prop where
  cap : b'.cap = b.cap
  limit : b'.u.limit = b.u.limit
  errMono : b'.err = false → b.err = false
  noLimit : b.u.limit = none → b'.err = b.err
  frozen : b.err = true → cont b' = cont b
  J : ∀ k, b.u.limit = some k → (b.u.accepted = a0 ∨ b.u.accepted.length ≤ k) →
    (b'.u.accepted = a0 ∨ b'.u.accepted.length ≤ k)

theorem Core.refl (a0 : Bytes) (b : BW) : Core a0 b b :=
  ⟨rfl, rfl, id, fun _ => rfl, fun _ => rfl, fun _ _ h => h⟩

theorem Core.trans {a0 : Bytes} {b b' b'' : BW} (h1 : Core a0 b b') (h2 : Core a0 b' b'') : Core a0 b b'' := by
  refine ⟨h2.cap.trans h1.cap, h2.limit.trans h1.limit, fun h => h1.errMono (h2.errMono h), ?_, ?_, ?_⟩
  · intro hl
    rw [h2.noLimit (h1.limit.trans hl), h1.noLimit hl]
  · intro he
    have he' : b'.err = true := by
      cases h : b'.err with
      | true => rfl
      | false => rw [h1.errMono h] at he; cases he
    rw [h2.frozen he', h1.frozen he]
  · intro k hl hJ
    exact h2.J k (h1.limit.trans hl) (h1.J k hl hJ)

/-- One step from `b` to `b'` during which the program tried to emit `p`. -/
structure Step (a0 : Bytes) (b b' : BW) (p : Bytes) : Prop where
  core : Core a0 b b'
  exact : b'.err = false → cont b' = cont b ++ p
  pre : ∃ t, t <+: p ∧ cont b' = cont b ++ t

theorem Step.refl_nil (a0 : Bytes) (b : BW) : Step a0 b b [] :=
  ⟨Core.refl a0 b, fun _ => by simp, ⟨[], List.prefix_refl _, by simp⟩⟩

theorem Step.refl_err (a0 : Bytes) (b : BW) (p : Bytes) (he : b.err = true) : Step a0 b b p :=
  ⟨Core.refl a0 b, fun h => (by rw [he] at h; cases h), ⟨[], List.nil_prefix, by simp⟩⟩

theorem Step.trans {a0 : Bytes} {b b' b'' : BW} {p q : Bytes}
    (h1 : Step a0 b b' p) (h2 : Step a0 b' b'' q) : Step a0 b b'' (p ++ q) := by
  refine ⟨h1.core.trans h2.core, ?_, ?_⟩
  · intro he
    rw [h2.exact he, h1.exact (h2.core.errMono he), List.append_assoc]
  · cases he : b'.err with
    | false =>
      obtain ⟨t, ht, hc⟩ := h2.pre
      refine ⟨p ++ t, (List.prefix_append_right_inj p).mpr ht, ?_⟩
      rw [hc, h1.exact he, List.append_assoc]
    | true =>
      obtain ⟨t, ht, hc⟩ := h1.pre
      refine ⟨t, ht.trans (List.prefix_append _ _), ?_⟩
      rw [h2.core.frozen he, hc]

theorem Step.cast {a0 : Bytes} {b b' : BW} {p q : Bytes} (h : Step a0 b b' p) (hpq : p = q) : Step a0 b b' q :=
  hpq ▸ h

theorem step_append (a0 : Bytes) (b : BW) (q : Bytes) (hb : b.err = false) :
    Step a0 b { b with buf := b.buf ++ q } q := by
  refine ⟨⟨rfl, rfl, fun _ => hb, fun _ => rfl, ?_, fun _ _ h => h⟩, ?_, ⟨q, List.prefix_refl _, ?_⟩⟩
  · intro h; rw [hb] at h; cases h
  · intro _; simp [cont]
  · simp [cont]

theorem step_direct (a0 : Bytes) (b : BW) (p : Bytes) (u' : Under) (n : Nat) (e : Bool)
    (hb : b.err = false) (hbuf : b.buf = []) (h : b.u.writeChecked p = (u', n, e)) :
    Step a0 b { b with u := u', err := e } (p.take n) := by
  obtain ⟨hacc, _, hlim, hnl, hJ⟩ := under_write_spec _ _ _ _ _ h
  refine ⟨⟨rfl, hlim, fun _ => hb, ?_, ?_, ?_⟩, ?_, ⟨p.take n, List.prefix_refl _, ?_⟩⟩
  · intro hl; simp [hnl hl, hb]
  · intro h; rw [hb] at h; cases h
  · intro k hl hj; exact hJ k a0 hl hj
  · intro _; simp [cont, hacc, hbuf]
  · simp [cont, hacc, hbuf]

theorem flush_err (b : BW) (he : b.err = true) : b.flush = b := by
  simp [BW.flush, he]

theorem step_flush (a0 : Bytes) (b : BW) : Step a0 b b.flush [] := by
  cases he : b.err with
  | true => rw [flush_err b he]; exact Step.refl_nil a0 b
  | false =>
    unfold BW.flush
    simp only [he, Bool.false_eq_true, if_false]
    split
    · exact Step.refl_nil a0 b
    · rcases h : b.u.writeChecked b.buf with ⟨u', n, e⟩
      obtain ⟨hacc, hn, hlim, hnl, hJ⟩ := under_write_spec _ _ _ _ _ h
      simp only []
      have hcore : ∀ (buf' : Bytes) (e' : Bool), (b.u.limit = none → e' = false) →
          Core a0 b { b with u := u', buf := buf', err := e' } := by
        intro buf' e' hne
        refine ⟨rfl, hlim, fun _ => he, ?_, ?_, ?_⟩
        · intro hl; simp [hne hl, he]
        · intro h; rw [he] at h; cases h
        · intro k hl hj; exact hJ k a0 hl hj
      split
      · rename_i hcond
        have hc : cont { b with u := u', buf := b.buf.drop n, err := true } = cont b := by
          simp [cont, hacc]
        refine ⟨hcore _ _ ?_, ?_, ⟨[], List.prefix_refl _, by simpa using hc⟩⟩
        · intro hl
          have := hnl hl
          have := hn this
          subst_vars
          simp at hcond
        · intro h; cases h
      · rename_i hcond
        have he' : e = false := by
          cases e <;> simp_all
        have hn' := hn he'
        have hc : cont { b with u := u', buf := [], err := false } = cont b := by
          simp [cont, hacc, hn']
        exact ⟨hcore _ _ (fun _ => rfl), fun _ => by simpa using hc, ⟨[], List.prefix_refl _, by simpa using hc⟩⟩

theorem flush_ok (b : BW) (h : b.flush.err = false) : b.flush.buf = [] := by
  unfold BW.flush at h ⊢
  cases he : b.err with
  | true => simp [he] at h
  | false =>
    simp only [he, Bool.false_eq_true, if_false] at h ⊢
    by_cases hb : b.buf.isEmpty = true
    · simp only [hb, if_true] at h ⊢
      simpa using hb
    · simp only [hb] at h ⊢
      rcases hw : b.u.writeChecked b.buf with ⟨u', n, e⟩
      simp only [hw] at h ⊢
      by_cases hc : (e || decide (n < b.buf.length)) = true
      · simp [hc] at h
      · simp [hc]

theorem wsa_err (fuel : Nat) (b : BW) (p : Bytes) (he : b.err = true) : BW.writeStringAux fuel b p = b := by
  cases fuel <;> simp [BW.writeStringAux, he]

/-- Fuel that certainly suffices for `writeStringAux` on `b`, `p`. -/
def need (b : BW) (p : Bytes) : Nat := p.length + 1 + (if b.cap ≤ b.buf.length then 1 else 0)

theorem wsa_tail (a0 : Bytes) (fuel : Nat)
    (ih : ∀ (b : BW) (p : Bytes), 0 < b.cap → need b p ≤ fuel → Step a0 b (BW.writeStringAux fuel b p) p)
    (b : BW) (q : Bytes) (hc : 0 < b.cap) (hn : b.err = false → need b q ≤ fuel) :
    Step a0 b (BW.writeStringAux fuel b q) q := by
  cases he : b.err with
  | true => rw [wsa_err fuel b q he]; exact Step.refl_err a0 b q he
  | false => exact ih b q hc (hn he)

theorem wsa_step (a0 : Bytes) : ∀ (fuel : Nat) (b : BW) (p : Bytes), 0 < b.cap → need b p ≤ fuel →
    Step a0 b (BW.writeStringAux fuel b p) p := by
  intro fuel
  induction fuel with
  | zero => intro b p _ hn; simp [need] at hn
  | succ fuel ih =>
    intro b p hc hn
    unfold BW.writeStringAux
    split
    · rename_i hcond
      simp only [Bool.and_eq_true, decide_eq_true_eq, Bool.not_eq_eq_eq_not, Bool.not_true] at hcond
      obtain ⟨hlen, he⟩ := hcond
      simp only [BW.available] at hlen
      split
      · rename_i hd
        simp only [Bool.and_eq_true, List.isEmpty_iff] at hd
        obtain ⟨hbuf, _⟩ := hd
        rcases hw : b.u.writeChecked p with ⟨u', n, e⟩
        have hs := step_direct a0 b p u' n e he hbuf hw
        obtain ⟨_, hnp, _, _, _⟩ := under_write_spec _ _ _ _ _ hw
        simp only []
        split
        · rename_i hz
          simp only [Bool.and_eq_true, beq_iff_eq, Bool.not_eq_eq_eq_not, Bool.not_true] at hz
          have := hnp hz.2
          omega
        · refine (hs.trans (wsa_tail a0 fuel ih _ (p.drop n) hc ?_)).cast (List.take_append_drop n p)
          intro he'
          have he' : e = false := he'
          have := hnp he'
          simp only [need, hbuf, List.length_drop, List.length_nil] at hn ⊢
          split <;> omega
      · have h1 := step_append a0 b (p.take (b.cap - b.buf.length)) he
        have h2 := step_flush a0 { b with buf := b.buf ++ p.take (b.cap - b.buf.length) }
        have h12 := (h1.trans h2).cast (List.append_nil _)
        simp only [BW.available]
        refine (h12.trans (wsa_tail a0 fuel ih _ (p.drop (b.cap - b.buf.length)) ?_ ?_)).cast
          (List.take_append_drop _ p)
        · rw [h2.core.cap]; exact hc
        · intro he'
          have hb := flush_ok _ he'
          have hcap := h2.core.cap
          simp only at hcap
          simp only [need, hb, hcap, List.length_drop, List.length_nil] at hn ⊢
          split at hn <;> split <;> omega
    · rename_i hcond
      split
      · rename_i he
        exact Step.refl_err a0 b p he
      · rename_i he
        exact step_append a0 b p (by simpa using he)

theorem ws_step (a0 : Bytes) (b : BW) (p : Bytes) (hc : 0 < b.cap) : Step a0 b (b.writeString p) p := by
  refine wsa_step a0 _ b p hc ?_
  simp only [need]
  split <;> omega

/-! ### The op interpreter -/

theorem docBefore_cons_none (op : ROp) (rest : List ROp) (h : (docBeforeOp op).2 = .none) :
    docBefore (op :: rest) = ((docBeforeOp op).1 ++ (docBefore rest).1, (docBefore rest).2) := by
  rw [docBefore]
  rcases hd : docBeforeOp op with ⟨d, e⟩
  rw [hd] at h
  simp only at h
  subst h
  rfl

theorem docBefore_cons_err (op : ROp) (rest : List ROp) (h : (docBeforeOp op).2 ≠ .none) :
    docBefore (op :: rest) = docBeforeOp op := by
  rw [docBefore]
  rcases hd : docBeforeOp op with ⟨d, e⟩
  rw [hd] at h
  cases e <;> simp_all

mutual
  theorem docBefore_none : ∀ (ops : List ROp), (docBefore ops).2 = .none → (docBefore ops).1 = docOf ops
    | [], _ => by simp [docBefore, docOf]
    | op :: rest, h => by
      by_cases h1 : (docBeforeOp op).2 = .none
      · rw [docBefore_cons_none op rest h1] at h ⊢
        simp only at h ⊢
        rw [docOf, docBeforeOp_none op h1, docBefore_none rest h]
      · rw [docBefore_cons_err op rest h1] at h
        exact absurd h h1
  theorem docBeforeOp_none : ∀ (op : ROp), (docBeforeOp op).2 = .none → (docBeforeOp op).1 = docOfOp op
    | .write p, _ => by simp [docBeforeOp, docOfOp]
    | .exprFail l, h => by simp [docBeforeOp] at h
    | .sub ops, h => by
      rw [docBeforeOp] at h ⊢
      rw [docOfOp, docBefore_none ops h]
    | .subFail, h => by simp [docBeforeOp] at h
end

mutual
  theorem docBefore_failFree : ∀ (ops : List ROp), failFree ops = true → (docBefore ops).2 = .none
    | [], _ => by simp [docBefore]
    | op :: rest, h => by
      rw [failFree, Bool.and_eq_true] at h
      have h1 := docBeforeOp_failFree op h.1
      rw [docBefore_cons_none op rest h1]
      exact docBefore_failFree rest h.2
  theorem docBeforeOp_failFree : ∀ (op : ROp), failFreeOp op = true → (docBeforeOp op).2 = .none
    | .write p, _ => by simp [docBeforeOp]
    | .exprFail l, h => by simp [failFreeOp] at h
    | .sub ops, h => by
      rw [failFreeOp] at h
      rw [docBeforeOp]
      exact docBefore_failFree ops h
    | .subFail, h => by simp [failFreeOp] at h
end

/-- What running ops from `b` (no error yet) to `r` guarantees; `doc` is the full document of the ops, `db` the
    document up to the first failing step and that step's error. -/
structure RSpec (a0 : Bytes) (b : BW) (r : BW × RErr) (doc : Bytes) (db : Bytes × RErr) : Prop where
  core : Core a0 b r.1
  pre : ∃ t, t <+: doc ∧ cont r.1 = cont b ++ t
  werr : r.1.err = true ↔ r.2 = .writer
  ok : r.1.err = false → r.2 = db.2 ∧ cont r.1 = cont b ++ db.1

mutual
  theorem runOps_spec (a0 : Bytes) : ∀ (ops : List ROp) (b : BW), b.err = false → 0 < b.cap →
      RSpec a0 b (runOps ops b) (docOf ops) (docBefore ops)
    | [], b, he, _ => by
      rw [runOps, docOf, docBefore]
      exact ⟨Core.refl a0 b, ⟨[], List.prefix_refl _, by simp⟩, by simp [he], fun _ => by simp⟩
    | op :: rest, b, he, hc => by
      have h1 := runOp_spec a0 op b he hc
      rw [runOps, docOf]
      rcases hr : runOp op b with ⟨b1, e1⟩
      rw [hr] at h1
      by_cases hn : e1 = .none
      · subst hn
        simp only []
        have he1 : b1.err = false := by
          cases h : b1.err with
          | false => rfl
          | true => have := h1.werr.mp h; cases this
        obtain ⟨hdb2, hc1⟩ := h1.ok he1
        simp only at hdb2 hc1
        have hdoc := docBeforeOp_none op hdb2.symm
        have h2 := runOps_spec a0 rest b1 he1 (by rw [h1.core.cap]; exact hc)
        rw [docBefore_cons_none op rest hdb2.symm]
        refine ⟨h1.core.trans h2.core, ?_, h2.werr, ?_⟩
        · obtain ⟨t, ht, hct⟩ := h2.pre
          refine ⟨docOfOp op ++ t, (List.prefix_append_right_inj _).mpr ht, ?_⟩
          rw [hct, hc1, hdoc, List.append_assoc]
        · intro hok
          obtain ⟨hr2, hc2⟩ := h2.ok hok
          refine ⟨hr2, ?_⟩
          simp only
          rw [hc2, hc1, List.append_assoc]
      · have key : RSpec a0 b (b1, e1) (docOfOp op ++ docOf rest) (docBefore (op :: rest)) := by
          refine ⟨h1.core, ?_, h1.werr, ?_⟩
          · obtain ⟨t, ht, hct⟩ := h1.pre
            exact ⟨t, ht.trans (List.prefix_append _ _), hct⟩
          · intro hok
            obtain ⟨hr2, hc2⟩ := h1.ok hok
            simp only at hr2 hc2
            have : (docBeforeOp op).2 ≠ .none := by rw [← hr2]; exact hn
            rw [docBefore_cons_err op rest this]
            exact ⟨hr2, hc2⟩
        cases e1 <;> first | exact absurd rfl hn | exact key
  theorem runOp_spec (a0 : Bytes) : ∀ (op : ROp) (b : BW), b.err = false → 0 < b.cap →
      RSpec a0 b (runOp op b) (docOfOp op) (docBeforeOp op)
    | .write p, b, _, hc => by
      have hs := ws_step a0 b p hc
      rw [runOp, docOfOp, docBeforeOp]
      refine ⟨hs.core, hs.pre, ?_, ?_⟩
      · simp only []
        cases (b.writeString p).err <;> simp
      · intro hok
        simp only [] at hok ⊢
        simp only [hok]
        exact ⟨by simp, hs.exact hok⟩
    | .exprFail l, b, he, _ => by
      rw [runOp, docOfOp, docBeforeOp]
      exact ⟨Core.refl a0 b, ⟨[], List.prefix_refl _, by simp⟩, by simp [he], fun _ => by simp⟩
    | .sub ops, b, he, hc => by
      rw [runOp, docOfOp, docBeforeOp]
      exact runOps_spec a0 ops b he hc
    | .subFail, b, he, _ => by
      rw [runOp, docOfOp, docBeforeOp]
      exact ⟨Core.refl a0 b, ⟨[], List.prefix_refl _, by simp⟩, by simp [he], fun _ => by simp⟩
end

/-! ### Render -/

theorem render_eq (ops : List ROp) (pooled : BW) (u : Under) :
    render false ops pooled u =
      ((runOps ops (pooled.reset u)).1.flush,
        if (runOps ops (pooled.reset u)).2 == .none then
          (if (runOps ops (pooled.reset u)).1.flush.err then .writer else .none)
        else (runOps ops (pooled.reset u)).2) := by
  simp [render]

/-- Everything known about the buffer after the body and the deferred flush. -/
theorem render_facts (ops : List ROp) (pooled : BW) (u : Under) (hc : 0 < pooled.cap) :
    Core u.accepted (pooled.reset u) (render false ops pooled u).1 ∧
    (∃ t, t <+: docOf ops ∧ cont (render false ops pooled u).1 = u.accepted ++ t) ∧
    ((runOps ops (pooled.reset u)).1.err = true ↔ (runOps ops (pooled.reset u)).2 = .writer) ∧
    ((render false ops pooled u).1.err = false →
      (render false ops pooled u).1.u.accepted = u.accepted ++ (docBefore ops).1 ∧
      (runOps ops (pooled.reset u)).2 = (docBefore ops).2) := by
  have hS := runOps_spec u.accepted ops (pooled.reset u) rfl hc
  have hF := step_flush u.accepted (runOps ops (pooled.reset u)).1
  have hcont : cont (runOps ops (pooled.reset u)).1.flush = cont (runOps ops (pooled.reset u)).1 := by
    obtain ⟨t, ht, hct⟩ := hF.pre
    rw [List.prefix_nil.mp ht] at hct
    simpa using hct
  have hb0 : cont (pooled.reset u) = u.accepted := by simp [cont, BW.reset]
  rw [render_eq]
  refine ⟨hS.core.trans hF.core, ?_, hS.werr, ?_⟩
  · obtain ⟨t, ht, hct⟩ := hS.pre
    exact ⟨t, ht, by simp only []; rw [hcont, hct, hb0]⟩
  · intro hok
    simp only [] at hok ⊢
    have hbuf := flush_ok _ hok
    obtain ⟨h2, hc1⟩ := hS.ok (hF.core.errMono hok)
    refine ⟨?_, h2⟩
    rw [← hcont, hb0] at hc1
    simpa [cont, hbuf] using hc1

/-- Whatever happens, the caller's writer has received a prefix of the full document (after what it already held). -/
theorem render_prefix (ops : List ROp) (pooled : BW) (u : Under) (hc : 0 < pooled.cap) :
    ∃ rest, u.accepted ++ docOf ops = (render false ops pooled u).1.u.accepted ++ rest := by
  obtain ⟨_, ⟨t, ⟨s, hs⟩, hct⟩, _, _⟩ := render_facts ops pooled u hc
  refine ⟨(render false ops pooled u).1.buf ++ s, ?_⟩
  rw [← List.append_assoc]
  change _ = cont _ ++ s
  rw [hct, ← hs, List.append_assoc]

/-- Render returned nil ⇒ the writer received exactly the full document, once, in order. -/
theorem render_nil_full (ops : List ROp) (pooled : BW) (u : Under) (hc : 0 < pooled.cap)
    (h : (render false ops pooled u).2 = .none) :
    (render false ops pooled u).1.u.accepted = u.accepted ++ docOf ops := by
  obtain ⟨_, _, _, hok⟩ := render_facts ops pooled u hc
  have herr : (render false ops pooled u).1.err = false ∧ (runOps ops (pooled.reset u)).2 = .none := by
    rw [render_eq] at h ⊢
    simp only [] at h ⊢
    split at h
    · rename_i h1
      split at h
      · cases h
      · rename_i h2
        exact ⟨by simpa using h2, by simpa using h1⟩
    · rename_i h1
      rw [h] at h1
      simp at h1
  obtain ⟨hacc, he⟩ := hok herr.1
  rw [hacc, docBefore_none ops (he.symm.trans herr.2)]

/-- A writer that fails before the end of a non-empty document ⇒ Render reports the writer's error (no step of the
    template fails by itself). General form: the writer may already be beyond its limit. -/
theorem render_fault_reported_nonempty (ops : List ROp) (pooled : BW) (u : Under) (hc : 0 < pooled.cap) (k : Nat)
    (hl : u.limit = some k) (hk : k < u.accepted.length + (docOf ops).length) (hd : docOf ops ≠ [])
    (hf : failFree ops = true) :
    (render false ops pooled u).2 = .writer := by
  obtain ⟨hcore, _, hw, hok⟩ := render_facts ops pooled u hc
  have hdb2 := docBefore_failFree ops hf
  have hdb1 := docBefore_none ops hdb2
  have herr : (render false ops pooled u).1.err = true := by
    cases he : (render false ops pooled u).1.err with
    | true => rfl
    | false =>
      exfalso
      obtain ⟨hacc, _⟩ := hok he
      rw [hdb1] at hacc
      have hJ := hcore.J k (by simpa [BW.reset] using hl) (Or.inl (by simp [BW.reset]))
      rw [hacc] at hJ
      rcases hJ with hJ | hJ
      · exact hd (by simpa using hJ)
      · simp only [List.length_append] at hJ
        omega
  rw [render_eq] at herr ⊢
  simp only [] at herr ⊢
  split
  · simp
  · rename_i hne
    cases he1 : (runOps ops (pooled.reset u)).1.err with
    | true => exact hw.mp he1
    | false =>
      exfalso
      have hS := runOps_spec u.accepted ops (pooled.reset u) rfl hc
      have := (hS.ok he1).1
      rw [this, hdb2] at hne
      simp at hne

/-- A writer that fails before the end of the document ⇒ Render reports the writer's error (no step of the template
    fails by itself). -/
theorem render_fault_reported (ops : List ROp) (pooled : BW) (u : Under) (hc : 0 < pooled.cap) (k : Nat)
    (hl : u.limit = some k) (ha : u.accepted.length ≤ k) (hk : k < u.accepted.length + (docOf ops).length)
    (hf : failFree ops = true) :
    (render false ops pooled u).2 = .writer := by
  refine render_fault_reported_nonempty ops pooled u hc k hl hk ?_ hf
  intro h
  rw [h] at hk
  simp only [List.length_nil] at hk
  omega

/-- With a healthy writer, the first failing expression / component is what Render returns, and the writer has
    received exactly the document up to that point. -/
theorem render_step_error (ops : List ROp) (pooled : BW) (u : Under) (hc : 0 < pooled.cap) (hl : u.limit = none) :
    (render false ops pooled u).2 = (docBefore ops).2 ∧
    (render false ops pooled u).1.u.accepted = u.accepted ++ (docBefore ops).1 := by
  obtain ⟨hcore, _, _, hok⟩ := render_facts ops pooled u hc
  have herr : (render false ops pooled u).1.err = false := by
    rw [hcore.noLimit (by simpa [BW.reset] using hl)]
    rfl
  obtain ⟨hacc, he⟩ := hok herr
  refine ⟨?_, hacc⟩
  rw [render_eq] at herr ⊢
  simp only [] at herr ⊢
  rw [herr, he]
  cases (docBefore ops).2 <;> simp

/-- A cancelled context: nothing is written, the context's error is returned. -/
theorem render_cancelled (ops : List ROp) (pooled : BW) (u : Under) :
    (render true ops pooled u).2 = .ctx ∧ (render true ops pooled u).1 = pooled := by
  simp [render]

/-- A pooled buffer carries nothing over: a render depends on the buffer it draws from the pool only through
    its capacity, whatever earlier (failed) renders left in it. -/
theorem render_pool_independent (ops : List ROp) (pooled : BW) (u : Under) :
    render false ops pooled u = render false ops { cap := pooled.cap } u := by
  have : pooled.reset u = ({ cap := pooled.cap } : BW).reset u := rfl
  rw [render_eq, render_eq, this]

/-- Without the checking writer a silent zero-writer at its limit leaves bufio's large-write loop where it was: same
    writer state, no error, the same bytes still to write - the loop condition holds again, for ever. -/
theorem largeStepUnchecked_stuck (b : BW) (p : Bytes) (k : Nat) (hl : b.u.limit = some k) (hk : k ≤ b.u.accepted.length)
    (hz : b.u.zeroWrite = true) (hs : b.u.silent = true) (he : b.err = false) (hp : p ≠ []) :
    b.largeStepUnchecked p = (b, p) := by
  have hpl : 0 < p.length := List.length_pos_iff.mpr hp
  have hw : b.u.write p = (b.u, 0, false) := by
    unfold Under.write
    simp only [hl]
    rw [if_neg (by omega), if_pos hz, hs]
    rfl
  unfold BW.largeStepUnchecked
  rw [hw]
  cases b
  simp_all

/-- With the checking writer the same call ends the write with the sticky error set and nothing accepted. -/
theorem write_silent_zero_reported (b : BW) (p : Bytes) (k : Nat) (hl : b.u.limit = some k) (hk : k ≤ b.u.accepted.length)
    (hz : b.u.zeroWrite = true) (hs : b.u.silent = true) (he : b.err = false) (hb : b.buf = []) (hp : b.cap < p.length) :
    (b.write p).err = true ∧ (b.write p).u.accepted = b.u.accepted := by
  have hpl : 0 < p.length := by omega
  have hw : b.u.write p = (b.u, 0, false) := by
    unfold Under.write
    simp only [hl]
    rw [if_neg (by omega), if_pos hz, hs]
    rfl
  have hwc : b.u.writeChecked p = (b.u, 0, true) := by
    rw [writeChecked_eq, hw]
    simp [hpl]
  have hb' : b.write p = { b with err := true } := by
    unfold BW.write
    rw [BW.writeAux]
    have hav : b.available < p.length := by simp [BW.available, hb]; exact hp
    simp only [hav, he, hb, hwc, decide_true, Bool.not_false, Bool.and_self, if_true, List.isEmpty_nil,
      Bool.not_true, Bool.and_false, Bool.false_eq_true, if_false, List.drop_zero]
    rw [BW.writeAux]
    simp
  rw [hb']
  exact ⟨rfl, rfl⟩

end TemplVerif.Proofs.Buf
