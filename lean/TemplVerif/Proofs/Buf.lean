import TemplVerif.Model.Buf
/- Helper lemmas for C10. -/
namespace TemplVerif.Proofs.Buf
open TemplVerif TemplVerif.Buf

-- The document up to (not including) the first failing step, and that step's error.
mutual
  def docBefore : List ROp → Bytes × RErr
    | [] => ([], .none)
    | op :: rest =>
      match docBeforeOp op with
      | (d, .none) => let (d', e) := docBefore rest; (d ++ d', e)
      | (d, e) => (d, e)
  def docBeforeOp : ROp → Bytes × RErr
    | .write p => (p, .none)
    | .exprFail l => ([], .expr l)
    | .sub ops => docBefore ops
    | .subFail => ([], .component)
end

/-- Whatever happens, the caller's writer has received a prefix of the full document (after what it already held). -/
theorem render_prefix (cancelled : Bool) (ops : List ROp) (pooled : BW) (u : Under) (hc : 0 < pooled.cap) :
    ∃ rest, u.accepted ++ docOf ops = (render cancelled ops pooled u).1.u.accepted ++ rest := by
  sorry

/-- Render returned nil ⇒ the writer received exactly the full document, once, in order. -/
theorem render_nil_full (ops : List ROp) (pooled : BW) (u : Under) (hc : 0 < pooled.cap)
    (h : (render false ops pooled u).2 = .none) :
    (render false ops pooled u).1.u.accepted = u.accepted ++ docOf ops := by
  sorry

/-- A writer that fails before the end of the document ⇒ Render reports the writer's error (no step of the template
    fails by itself). -/
theorem render_fault_reported (ops : List ROp) (pooled : BW) (u : Under) (hc : 0 < pooled.cap) (k : Nat)
    (hl : u.limit = some k) (hk : k < u.accepted.length + (docOf ops).length) (hf : failFree ops = true) :
    (render false ops pooled u).2 = .writer := by
  sorry

/-- With a healthy writer, the first failing expression / component is what Render returns, and the writer has
    received exactly the document up to that point. -/
theorem render_step_error (ops : List ROp) (pooled : BW) (u : Under) (hc : 0 < pooled.cap) (hl : u.limit = none) :
    (render false ops pooled u).2 = (docBefore ops).2 ∧
    (render false ops pooled u).1.u.accepted = u.accepted ++ (docBefore ops).1 := by
  sorry

/-- A cancelled context: nothing is written, the context's error is returned. -/
theorem render_cancelled (ops : List ROp) (pooled : BW) (u : Under) :
    (render true ops pooled u).2 = .ctx ∧ (render true ops pooled u).1 = pooled := by
  simp [render]

/-- A pooled buffer carries nothing over: a render depends on the buffer it draws from the pool only through
    its capacity, whatever earlier (failed) renders left in it. -/
theorem render_pool_independent (ops : List ROp) (pooled : BW) (u : Under) :
    render false ops pooled u = render false ops { cap := pooled.cap } u := by
  sorry

end TemplVerif.Proofs.Buf
