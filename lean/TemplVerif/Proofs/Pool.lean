import TemplVerif.Model.Pool
import TemplVerif.Proofs.Buf
/- Helper lemmas for C14. -/
namespace TemplVerif.Proofs.Pool
open TemplVerif TemplVerif.Buf TemplVerif.Pool

theorem flush_cap (b : BW) : b.flush.cap = b.cap := by
  unfold BW.flush
  split
  · rfl
  · split
    · rfl
    · rcases b.u.write b.buf with ⟨u', n, e⟩
      simp only []
      split <;> rfl

theorem wsa_cap : ∀ (fuel : Nat) (b : BW) (p : Bytes), (BW.writeStringAux fuel b p).cap = b.cap := by
  intro fuel
  induction fuel with
  | zero => intro b p; rfl
  | succ fuel ih =>
    intro b p
    unfold BW.writeStringAux
    split
    · split
      · rcases b.u.write p with ⟨u', n, e⟩
        simp only []
        split
        · rfl
        · rw [ih]
      · rw [ih, flush_cap]
    · split <;> rfl

theorem wa_cap : ∀ (fuel : Nat) (b : BW) (p : Bytes), (BW.writeAux fuel b p).cap = b.cap := by
  intro fuel
  induction fuel with
  | zero => intro b p; rfl
  | succ fuel ih =>
    intro b p
    unfold BW.writeAux
    split
    · split
      · rcases b.u.write p with ⟨u', n, e⟩
        simp only []
        split
        · rfl
        · rw [ih]
      · rw [ih, flush_cap]
    · split <;> rfl

theorem writeString_cap (b : BW) (p : Bytes) : (b.writeString p).cap = b.cap := wsa_cap _ b p

theorem write_cap (b : BW) (p : Bytes) : (b.write p).cap = b.cap := wa_cap _ b p

mutual
  theorem runOps_cap : ∀ (ops : List ROp) (b : BW), (runOps ops b).1.cap = b.cap
    | [], b => by rw [runOps]
    | op :: rest, b => by
      have h1 := runOp_cap op b
      rw [runOps]
      rcases hr : runOp op b with ⟨b1, e1⟩
      rw [hr] at h1
      simp only at h1
      cases e1 with
      | none => simp only []; rw [runOps_cap rest b1, h1]
      | writer => exact h1
      | expr l => exact h1
      | component => exact h1
      | ctx => exact h1
  theorem runOp_cap : ∀ (op : ROp) (b : BW), (runOp op b).1.cap = b.cap
    | .write p, b => by rw [runOp]; exact writeString_cap b p
    | .exprFail l, b => by rw [runOp]
    | .sub ops, b => by rw [runOp]; exact runOps_cap ops b
    | .subFail, b => by rw [runOp]
end

/-- Rendering keeps the buffer's capacity. -/
theorem render_cap (ops : List ROp) (b : BW) (u : Under) : (render false ops b u).1.cap = b.cap := by
  rw [Proofs.Buf.render_eq]
  simp only []
  rw [flush_cap, runOps_cap]
  rfl

theorem alone_eq (cap : Nat) (th : Thread) :
    alone cap th = ((render false th.ops { cap := cap } th.writer).1.u, (render false th.ops { cap := cap } th.writer).2) := by
  rfl

theorem step_get_wf (w : World) (t i : Nat) (h : WellFormed w) :
    WellFormed (step w (.get t i)) ∧ (step w (.get t i)).cap = w.cap := by
  obtain ⟨h1, h2, h3⟩ := h
  simp only [step]
  cases hth : w.threads[t]? with
  | none => exact ⟨⟨h1, h2, h3⟩, rfl⟩
  | some th =>
    simp only []
    have hmem : th ∈ w.threads := List.mem_of_getElem? hth
    split
    · exact ⟨⟨h1, h2, h3⟩, rfl⟩
    · rename_i hg
      simp only [Bool.or_eq_true, not_or, Bool.not_eq_true, Option.isSome_eq_false_iff,
        Option.isNone_iff_eq_none] at hg
      obtain ⟨hhold, hres⟩ := hg
      refine ⟨⟨?_, ?_, ?_⟩, rfl⟩
      · intro b hb
        exact h1 b (List.mem_of_mem_eraseIdx hb)
      · intro th' hth' b hb
        rcases List.mem_or_eq_of_mem_set hth' with hold | heq
        · exact h2 th' hold b hb
        · subst heq
          simp only [Option.some.injEq] at hb
          subst hb
          cases hi : w.pool[i]? with
          | none => rfl
          | some b0 => exact h1 b0 (List.mem_of_getElem? hi)
      · intro th' hth' r hr
        rcases List.mem_or_eq_of_mem_set hth' with hold | heq
        · exact h3 th' hold r hr
        · subst heq
          simp only [hres] at hr
          cases hr

theorem step_renderPut_wf (w : World) (t : Nat) (h : WellFormed w) :
    WellFormed (step w (.renderPut t)) ∧ (step w (.renderPut t)).cap = w.cap := by
  obtain ⟨h1, h2, h3⟩ := h
  simp only [step]
  cases hth : w.threads[t]? with
  | none => exact ⟨⟨h1, h2, h3⟩, rfl⟩
  | some th =>
    simp only []
    have hmem : th ∈ w.threads := List.mem_of_getElem? hth
    cases hhold : th.holding with
    | none => exact ⟨⟨h1, h2, h3⟩, rfl⟩
    | some b =>
      simp only []
      have hbcap : b.cap = w.cap := h2 th hmem b hhold
      refine ⟨⟨?_, ?_, ?_⟩, trivial⟩
      · intro b' hb'
        rcases List.mem_cons.mp hb' with heq | hold
        · subst heq
          rw [render_cap, hbcap]
        · exact h1 b' hold
      · intro th' hth' b' hb'
        rcases List.mem_or_eq_of_mem_set hth' with hold | heq
        · exact h2 th' hold b' hb'
        · subst heq
          simp at hb'
      · intro th' hth' r hr
        rcases List.mem_or_eq_of_mem_set hth' with hold | heq
        · exact h3 th' hold r hr
        · subst heq
          simp only [Option.some.injEq] at hr
          subst hr
          rw [alone_eq]
          simp only []
          rw [Proofs.Buf.render_pool_independent th.ops b th.writer, hbcap]

/-- One step preserves well-formedness (in particular: a finished goroutine's result is its solo result). -/
theorem step_wf (w : World) (a : Act) (h : WellFormed w) : WellFormed (step w a) ∧ (step w a).cap = w.cap := by
  cases a with
  | get t i => exact step_get_wf w t i h
  | renderPut t => exact step_renderPut_wf w t h

theorem run_wf (w : World) (acts : List Act) (h : WellFormed w) : WellFormed (run w acts) ∧ (run w acts).cap = w.cap := by
  induction acts generalizing w with
  | nil => exact ⟨h, rfl⟩
  | cons a rest ih =>
    obtain ⟨hs, hc⟩ := step_wf w a h
    obtain ⟨hr, hc'⟩ := ih (step w a) hs
    refine ⟨hr, ?_⟩
    rw [← hc]
    exact hc'

end TemplVerif.Proofs.Pool
