import TemplVerif.Model.Norm
namespace TemplVerif.Proofs.Norm
open TemplVerif TemplVerif.Ast

/-- the `next` flag the traversals hand to the node in front of `rest` -/
def nxOf (all : Bool) (rest : Nodes) (next : Bool) : Bool :=
  if all then (match rest.firstNonWs with | some m => Sem.Node.inline m | none => next)
  else if rest.allWs then next else Sem.optInline rest.head?

theorem norm_nodes_cons (all a : Bool) (n : Node) (rest : Nodes) (next : Bool) :
    Norm.nodes all a (.cons n rest) next =
      if n.isWs && (all || a || rest.allWs) then Norm.nodes all a rest next
      else .cons (Norm.node n (nxOf all rest next)) (Norm.nodes all false rest next) := by
  rw [Norm.nodes]; rfl

theorem gen_nodes_cons (all a : Bool) (n : Node) (rest : Nodes) (next : Bool) :
    Gen.genNodes all a (.cons n rest) next =
      if n.isWs && (all || a || rest.allWs) then Gen.genNodes all a rest next
      else Gen.genNode n (nxOf all rest next) ++ Gen.genNodes all false rest next := by
  rw [Gen.genNodes]; rfl

theorem node_isWs (n : Node) (nx : Bool) : (Norm.node n nx).isWs = n.isWs := by
  cases n <;> simp only [Norm.node, Node.isWs]

theorem node_inline (n : Node) (nx : Bool) : Sem.Node.inline (Norm.node n nx) = Sem.Node.inline n := by
  cases n <;> simp only [Norm.node, Sem.Node.inline]

theorem node_trail (n : Node) (nx : Bool) : Sem.Node.trail (Norm.node n nx) = Norm.keep n nx := by
  cases n <;> simp [Norm.node, Sem.Node.trail, Norm.keep]


theorem nodes_of_allWs (all a : Bool) : (ns : Nodes) → (next : Bool) → ns.allWs = true →
    Norm.nodes all a ns next = .nil
  | .nil, _, _ => by simp only [Norm.nodes]
  | .cons n rest, next, h => by
    simp only [Nodes.allWs, Bool.and_eq_true] at h
    rw [norm_nodes_cons, h.1, h.2]
    simp only [Bool.or_true, Bool.and_true, if_true]
    exact nodes_of_allWs all a rest next h.2

theorem nodes_allWs (all a : Bool) : (ns : Nodes) → (next : Bool) →
    (Norm.nodes all a ns next).allWs = ns.allWs
  | .nil, _ => by simp only [Norm.nodes]
  | .cons n rest, next => by
    rw [norm_nodes_cons]
    split
    next h =>
      simp only [Bool.and_eq_true] at h
      rw [nodes_allWs all a rest next]
      simp only [Nodes.allWs, h.1, Bool.true_and]
    next h =>
      simp only [Nodes.allWs, node_isWs]
      rw [nodes_allWs all false rest next]

theorem nodes_isNil (all a : Bool) : (ns : Nodes) → (next : Bool) →
    (Norm.nodes all a ns next).isNil = true → ns.allWs = true
  | .nil, _, _ => rfl
  | .cons n rest, next, h => by
    rw [norm_nodes_cons] at h
    split at h
    next hc =>
      simp only [Bool.and_eq_true] at hc
      simp only [Nodes.allWs, hc.1, Bool.true_and]
      exact nodes_isNil all a rest next h
    next hc => simp [Nodes.isNil] at h

theorem firstNonWs_none : (ns : Nodes) → ns.firstNonWs = none → ns.allWs = true
  | .nil, _ => rfl
  | .cons n rest, h => by
    simp only [Nodes.firstNonWs] at h
    split at h
    next hw => simp only [Nodes.allWs, hw, Bool.true_and]; exact firstNonWs_none rest h
    next => cases h

theorem firstNonWs_some : (ns : Nodes) → (m : Node) → ns.firstNonWs = some m → ns.allWs = false
  | .nil, _, h => by cases h
  | .cons n rest, m, h => by
    simp only [Nodes.firstNonWs] at h
    split at h
    next hw => simp only [Nodes.allWs, hw, Bool.true_and]; exact firstNonWs_some rest m h
    next hw => simp only [Nodes.allWs]; simp at hw; simp [hw]

/-- in mode `all` (or from the start) the first non-whitespace node of the representative is the representative
    of the first non-whitespace node -/
theorem nodes_firstNonWs (all a : Bool) : (ns : Nodes) → (next : Bool) → (m : Node) → ns.firstNonWs = some m →
    ∃ nx, (Norm.nodes all a ns next).firstNonWs = some (Norm.node m nx)
  | .nil, _, _, h => by cases h
  | .cons n rest, next, m, h => by
    rw [norm_nodes_cons]
    simp only [Nodes.firstNonWs] at h
    split
    next hc =>
      simp only [Bool.and_eq_true] at hc
      rw [if_pos hc.1] at h
      exact nodes_firstNonWs all a rest next m h
    next hc =>
      by_cases hw : n.isWs = true
      · rw [if_pos hw] at h
        simp only [Nodes.firstNonWs, node_isWs, hw, if_true]
        exact nodes_firstNonWs all false rest next m h
      · rw [if_neg hw] at h
        cases h
        exact ⟨_, by simp only [Nodes.firstNonWs, node_isWs, hw]; rfl⟩

theorem nodes_head (ns : Nodes) (next : Bool) (h : ns.allWs = false) :
    Sem.optInline (Norm.nodes false false ns next).head? = Sem.optInline ns.head? := by
  cases ns with
  | nil => cases h
  | cons n rest =>
    rw [norm_nodes_cons]
    simp only [Nodes.allWs] at h
    split
    next hc => simp only [Bool.and_eq_true, Bool.false_or] at hc; rw [hc.1, hc.2] at h; cases h
    next hc => simp only [Nodes.head?, Sem.optInline, node_inline]

theorem nxOf_nodes (all : Bool) (rest : Nodes) (next : Bool) :
    nxOf all (Norm.nodes all false rest next) next = nxOf all rest next := by
  unfold nxOf
  cases all with
  | true =>
    simp only [if_true]
    cases h : rest.firstNonWs with
    | none =>
      rw [nodes_of_allWs true false rest next (firstNonWs_none rest h)]
      simp only [Nodes.firstNonWs]
    | some m =>
      obtain ⟨nx, h'⟩ := nodes_firstNonWs true false rest next m h
      rw [h']
      simp only [node_inline]
  | false =>
    simp only [Bool.false_eq_true, if_false, nodes_allWs]
    cases h : rest.allWs with
    | true => simp only [if_true]
    | false => simp only [Bool.false_eq_true, if_false]; exact nodes_head rest next h

/-- the head of the representative built from the start is not a whitespace node -/
def headNonWs : Nodes → Bool
  | .nil => true
  | .cons n _ => !n.isWs

theorem nodes_headNonWs (all : Bool) : (ns : Nodes) → (next : Bool) → headNonWs (Norm.nodes all true ns next) = true
  | .nil, _ => by simp only [Norm.nodes, headNonWs]
  | .cons n rest, next => by
    rw [norm_nodes_cons]
    split
    next hc => exact nodes_headNonWs all rest next
    next hc =>
      simp only [headNonWs, node_isWs]
      simp only [Bool.or_true, Bool.true_or, Bool.and_true] at hc
      simp [hc]

theorem norm_nodes_atStart (all a : Bool) (l : Nodes) (next : Bool) (h : headNonWs l = true) :
    Norm.nodes all a l next = Norm.nodes all false l next := by
  cases l with
  | nil => simp only [Norm.nodes]
  | cons n rest =>
    simp only [headNonWs, Bool.not_eq_true'] at h
    rw [norm_nodes_cons, norm_nodes_cons, h]
    simp only [Bool.false_and, Bool.false_eq_true, if_false]

theorem gen_nodes_atStart (all a : Bool) (l : Nodes) (next : Bool) (h : headNonWs l = true) :
    Gen.genNodes all a l next = Gen.genNodes all false l next := by
  cases l with
  | nil => simp only [Gen.genNodes]
  | cons n rest =>
    simp only [headNonWs, Bool.not_eq_true'] at h
    rw [gen_nodes_cons, gen_nodes_cons, h]
    simp only [Bool.false_and, Bool.false_eq_true, if_false]


/-! ### attributes -/

mutual
theorem attr_idem : (a : Attr) → Norm.attr (Norm.attr a) = Norm.attr a
  | .boolConst _ => by simp only [Norm.attr]
  | .const _ _ _ => by simp only [Norm.attr]
  | .boolExpr _ _ => by simp only [Norm.attr]
  | .expr _ _ => by simp only [Norm.attr]
  | .spread _ => by simp only [Norm.attr]
  | .cond e thn els => by simp only [Norm.attr, attrs_idem thn, attrs_idem els]
theorem attrs_idem : (as : Attrs) → Norm.attrs (Norm.attrs as) = Norm.attrs as
  | .nil => by simp only [Norm.attrs]
  | .cons a as => by simp only [Norm.attrs, attr_idem a, attrs_idem as]
end

mutual
theorem genAttr_norm (css : Bool) (el : Bytes) : (a : Attr) → Gen.genAttr css el (Norm.attr a) = Gen.genAttr css el a
  | .boolConst _ => by simp only [Norm.attr]
  | .const _ _ _ => by simp only [Norm.attr, Gen.genAttr]
  | .boolExpr _ _ => by simp only [Norm.attr]
  | .expr _ _ => by simp only [Norm.attr]
  | .spread _ => by simp only [Norm.attr]
  | .cond e thn els => by simp only [Norm.attr, Gen.genAttr, genAttrs_norm css el thn, genAttrs_norm css el els]
theorem genAttrs_norm (css : Bool) (el : Bytes) : (as : Attrs) → Gen.genAttrs css el (Norm.attrs as) = Gen.genAttrs css el as
  | .nil => by simp only [Norm.attrs]
  | .cons a as => by simp only [Norm.attrs, Gen.genAttrs, genAttr_norm css el a, genAttrs_norm css el as]
end

mutual
theorem cssHoistOne_norm : (a : Attr) → Gen.cssHoistOne (Norm.attr a) = Gen.cssHoistOne a
  | .boolConst _ => by simp only [Norm.attr]
  | .const _ _ _ => by simp only [Norm.attr, Gen.cssHoistOne]
  | .boolExpr _ _ => by simp only [Norm.attr]
  | .expr _ _ => by simp only [Norm.attr]
  | .spread _ => by simp only [Norm.attr]
  | .cond e thn els => by simp only [Norm.attr, Gen.cssHoistOne, cssHoist_norm thn, cssHoist_norm els]
theorem cssHoist_norm : (as : Attrs) → Gen.cssHoist (Norm.attrs as) = Gen.cssHoist as
  | .nil => by simp only [Norm.attrs]
  | .cons a as => by simp only [Norm.attrs, Gen.cssHoist, cssHoistOne_norm a, cssHoist_norm as]
end

mutual
theorem scriptExprsOne_norm : (a : Attr) → Gen.scriptExprsOne (Norm.attr a) = Gen.scriptExprsOne a
  | .boolConst _ => by simp only [Norm.attr]
  | .const _ _ _ => by simp only [Norm.attr, Gen.scriptExprsOne]
  | .boolExpr _ _ => by simp only [Norm.attr]
  | .expr _ _ => by simp only [Norm.attr]
  | .spread _ => by simp only [Norm.attr]
  | .cond e thn els => by simp only [Norm.attr, Gen.scriptExprsOne, scriptExprs_norm thn, scriptExprs_norm els]
theorem scriptExprs_norm : (as : Attrs) → Gen.scriptExprs (Norm.attrs as) = Gen.scriptExprs as
  | .nil => by simp only [Norm.attrs]
  | .cons a as => by simp only [Norm.attrs, Gen.scriptExprs, scriptExprsOne_norm a, scriptExprs_norm as]
end

theorem scriptHoist_norm (as : Attrs) : Gen.scriptHoist (Norm.attrs as) = Gen.scriptHoist as := by
  unfold Gen.scriptHoist; rw [scriptExprs_norm]

theorem openTag_norm (css : Bool) (name : Bytes) (as : Attrs) :
    Gen.openTag css name (Norm.attrs as) = Gen.openTag css name as := by
  cases as with
  | nil => simp only [Norm.attrs]
  | cons a as =>
    rw [Norm.attrs]
    simp only [Gen.openTag]
    rw [← Norm.attrs, cssHoist_norm, scriptHoist_norm, genAttrs_norm]

/-! ### trailing space -/

theorem keep_norm (n : Node) (nx : Bool) : Norm.keep (Norm.node n nx) nx = Norm.keep n nx := by
  unfold Norm.keep
  rw [node_inline, node_trail]
  unfold Norm.keep
  cases Sem.Node.inline n <;> cases nx <;> cases Sem.Node.trail n <;> decide

theorem trailing_norm (n : Node) (nx : Bool) : Gen.trailing (Norm.node n nx) nx = Gen.trailing n nx := by
  unfold Gen.trailing
  rw [node_inline, node_trail]
  unfold Norm.keep
  cases Sem.Node.inline n <;> cases nx <;> cases Sem.Node.trail n <;> rfl


/-! ### `nonNil` -/

theorem nonNil_isNil (orig N : Nodes) (h : orig.isNil = true → N.isNil = true) :
    (Norm.nonNil orig N).isNil = orig.isNil := by
  unfold Norm.nonNil
  cases orig with
  | nil => simp only [Nodes.isNil, Bool.not_true, Bool.and_false, Bool.false_eq_true, if_false]; exact h rfl
  | cons n ns => cases N <;> simp [Nodes.isNil]

theorem nodes_isNil_of_isNil (all a : Bool) (ns : Nodes) (next : Bool) (h : ns.isNil = true) :
    (Norm.nodes all a ns next).isNil = true := by
  cases ns with
  | nil => simp only [Norm.nodes, Nodes.isNil]
  | cons _ _ => cases h

theorem norm_nodes_nonNil (all : Bool) (orig N : Nodes) (next : Bool) :
    Norm.nodes all true (Norm.nonNil orig N) next = Norm.nodes all true N next := by
  unfold Norm.nonNil
  split
  next h =>
    cases N with
    | nil => rw [norm_nodes_cons]; simp [Node.isWs, Norm.nodes]
    | cons _ _ => simp [Nodes.isNil] at h
  next => rfl

theorem gen_nodes_nonNil (all : Bool) (orig N : Nodes) (next : Bool) :
    Gen.genNodes all true (Norm.nonNil orig N) next = Gen.genNodes all true N next := by
  unfold Norm.nonNil
  split
  next h =>
    cases N with
    | nil => rw [gen_nodes_cons]; simp [Node.isWs, Gen.genNodes]
    | cons _ _ => simp [Nodes.isNil] at h
  next => rfl

theorem nonNil_congr (orig orig' N : Nodes) (h : orig'.isNil = orig.isNil) :
    Norm.nonNil orig' N = Norm.nonNil orig N := by
  unfold Norm.nonNil; rw [h]

/-! ### `norm` is a projection -/

mutual
theorem node_idem : (n : Node) → (nx : Bool) → Norm.node (Norm.node n nx) nx = Norm.node n nx
  | .doctype _, _ => by simp only [Norm.node]
  | .element n as cs t ia ic, nx => by
    have hk := keep_norm (.element n as cs t ia ic) nx
    have hcs : Norm.nodes true true (Norm.nodes true true cs false) false = Norm.nodes true true cs false := by
      rw [norm_nodes_atStart _ _ _ _ (nodes_headNonWs true cs false), nodes_idem true true cs false]
    simp only [Norm.node] at hk ⊢
    rw [hk, attrs_idem]
    cases hv : Sem.isVoid n with
    | true =>
      simp only [if_true]
      rw [norm_nodes_nonNil, hcs,
        nonNil_congr cs _ _ (nonNil_isNil cs _ (nodes_isNil_of_isNil true true cs false))]
    | false =>
      simp only [Bool.false_eq_true, if_false]
      rw [hcs]
  | .htmlComment _, _ => by simp only [Norm.node]
  | .children, _ => by simp only [Norm.node]
  | .raw _ as _, _ => by simp only [Norm.node, attrs_idem]
  | .script as _, _ => by simp only [Norm.node, attrs_idem]
  | .forE e b, nx => by
    have hb : Norm.nodes false true (Norm.nodes false true b nx) nx = Norm.nodes false true b nx := by
      rw [norm_nodes_atStart _ _ _ _ (nodes_headNonWs false b nx), nodes_idem false true b nx]
    simp only [Norm.node, hb]
  | .call _, _ => by simp [Norm.node, Norm.nodes, Norm.nonNil, Nodes.isNil]
  | .templEl e b, _ => by
    have hb : Norm.nodes false true (Norm.nodes false true b false) false = Norm.nodes false true b false := by
      rw [norm_nodes_atStart _ _ _ _ (nodes_headNonWs false b false), nodes_idem false true b false]
    simp only [Norm.node]
    rw [norm_nodes_nonNil, hb,
      nonNil_congr b _ _ (nonNil_isNil b _ (nodes_isNil_of_isNil false true b false))]
  | .ifE e thn elifs els, nx => by
    have h1 : Norm.nodes false true (Norm.nodes false true thn nx) nx = Norm.nodes false true thn nx := by
      rw [norm_nodes_atStart _ _ _ _ (nodes_headNonWs false thn nx), nodes_idem false true thn nx]
    have h2 : Norm.nodes false true (Norm.nodes false true els nx) nx = Norm.nodes false true els nx := by
      rw [norm_nodes_atStart _ _ _ _ (nodes_headNonWs false els nx), nodes_idem false true els nx]
    simp only [Norm.node, h1, h2, elifs_idem elifs nx]
  | .switchE e cs, nx => by simp only [Norm.node, cases_idem cs nx]
  | .strExpr e t, nx => by
    have hk := keep_norm (.strExpr e t) nx
    simp only [Norm.node] at hk ⊢
    rw [hk]
  | .goCode _ _ _, _ => by simp only [Norm.node]
  | .ws v, _ => by
    simp only [Norm.node]
    cases v <;> rfl
  | .text v t, nx => by
    have hk := keep_norm (.text v t) nx
    simp only [Norm.node] at hk ⊢
    rw [hk]
  | .goComment _ _, _ => by simp only [Norm.node]
theorem nodes_idem (all a : Bool) : (ns : Nodes) → (next : Bool) →
    Norm.nodes all false (Norm.nodes all a ns next) next = Norm.nodes all a ns next
  | .nil, _ => by simp only [Norm.nodes]
  | .cons n rest, next => by
    rw [norm_nodes_cons all a]
    split
    next hc => exact nodes_idem all a rest next
    next hc =>
      rw [norm_nodes_cons all false, nxOf_nodes, node_isWs, nodes_allWs]
      have hc' : ¬ ((n.isWs && (all || false || rest.allWs)) = true) := by
        intro h; apply hc
        revert h; cases n.isWs <;> cases all <;> cases a <;> cases rest.allWs <;> decide
      rw [if_neg hc', node_idem n _, nodes_idem all false rest next]
theorem elifs_idem : (es : ElseIfs) → (next : Bool) → Norm.elseIfs (Norm.elseIfs es next) next = Norm.elseIfs es next
  | .nil, _ => by simp only [Norm.elseIfs]
  | .cons e thn rest, nx => by
    have h1 : Norm.nodes false true (Norm.nodes false true thn nx) nx = Norm.nodes false true thn nx := by
      rw [norm_nodes_atStart _ _ _ _ (nodes_headNonWs false thn nx), nodes_idem false true thn nx]
    simp only [Norm.elseIfs, h1, elifs_idem rest nx]
theorem cases_idem : (cs : Cases) → (next : Bool) → Norm.cases (Norm.cases cs next) next = Norm.cases cs next
  | .nil, _ => by simp only [Norm.cases]
  | .cons e b rest, nx => by
    have h1 : Norm.nodes false true (Norm.nodes false true b nx) nx = Norm.nodes false true b nx := by
      rw [norm_nodes_atStart _ _ _ _ (nodes_headNonWs false b nx), nodes_idem false true b nx]
    simp only [Norm.cases, h1, cases_idem rest nx]
end

/-- `norm` is a projection. -/
theorem norm_idem (b : Nodes) : Norm.body (Norm.body b) = Norm.body b := by
  unfold Norm.body
  rw [norm_nodes_atStart _ _ _ _ (nodes_headNonWs true b false), nodes_idem true true b false]


/-! ### the generator does not see the difference -/

mutual
theorem genNode_norm : (n : Node) → (nx : Bool) → Gen.genNode (Norm.node n nx) nx = Gen.genNode n nx
  | .doctype _, _ => by simp only [Norm.node]
  | .element n as cs t ia ic, nx => by
    have ht := trailing_norm (.element n as cs t ia ic) nx
    have hcs : Gen.genNodes true true (Norm.nodes true true cs false) false = Gen.genNodes true true cs false := by
      rw [gen_nodes_atStart _ _ _ _ (nodes_headNonWs true cs false), genNodes_norm true true cs false]
    simp only [Norm.node] at ht
    simp only [Norm.node, Gen.genNode]
    rw [ht, openTag_norm]
    cases hv : Sem.isVoid n with
    | true =>
      simp only [if_true]
      rw [gen_nodes_nonNil, hcs,
        nonNil_isNil cs _ (nodes_isNil_of_isNil true true cs false)]
    | false =>
      simp only [Bool.false_eq_true, if_false, Bool.false_and]
      rw [hcs]
  | .htmlComment _, _ => by simp only [Norm.node]
  | .children, _ => by simp only [Norm.node]
  | .raw _ as _, _ => by simp only [Norm.node, Gen.genNode, openTag_norm]
  | .script as _, _ => by
    cases as with
    | nil => simp only [Norm.node, Norm.attrs]
    | cons a as =>
      simp only [Norm.node, Gen.genNode]
      rw [Norm.attrs]
      simp only []
      rw [← Norm.attrs, scriptHoist_norm, genAttrs_norm]
  | .forE e b, nx => by
    have hb : Gen.genNodes false true (Norm.nodes false true b nx) nx = Gen.genNodes false true b nx := by
      rw [gen_nodes_atStart _ _ _ _ (nodes_headNonWs false b nx), genNodes_norm false true b nx]
    simp only [Norm.node, Gen.genNode, hb]
  | .call _, _ => by simp [Norm.node, Gen.genNode, Nodes.isNil]
  | .templEl e b, _ => by
    have hb : Gen.genNodes false true (Norm.nodes false true b false) false = Gen.genNodes false true b false := by
      rw [gen_nodes_atStart _ _ _ _ (nodes_headNonWs false b false), genNodes_norm false true b false]
    simp only [Norm.node, Gen.genNode]
    rw [gen_nodes_nonNil, hb, nonNil_isNil b _ (nodes_isNil_of_isNil false true b false)]
  | .ifE e thn elifs els, nx => by
    have h1 : Gen.genNodes false true (Norm.nodes false true thn nx) nx = Gen.genNodes false true thn nx := by
      rw [gen_nodes_atStart _ _ _ _ (nodes_headNonWs false thn nx), genNodes_norm false true thn nx]
    have h2 : Gen.genNodes false true (Norm.nodes false true els nx) nx = Gen.genNodes false true els nx := by
      rw [gen_nodes_atStart _ _ _ _ (nodes_headNonWs false els nx), genNodes_norm false true els nx]
    simp only [Norm.node, Gen.genNode, h1, h2, genElifs_norm elifs nx]
  | .switchE e cs, nx => by simp only [Norm.node, Gen.genNode, genCases_norm cs nx]
  | .strExpr e t, nx => by
    have ht := trailing_norm (.strExpr e t) nx
    simp only [Norm.node] at ht
    simp only [Norm.node, Gen.genNode]
    rw [ht]
  | .goCode _ _ _, _ => by simp only [Norm.node, Gen.genNode]
  | .ws v, _ => by
    simp only [Norm.node, Gen.genNode]
    cases v <;> rfl
  | .text v t, nx => by
    have ht := trailing_norm (.text v t) nx
    simp only [Norm.node] at ht
    simp only [Norm.node, Gen.genNode]
    rw [ht]
  | .goComment _ _, _ => by simp only [Norm.node, Gen.genNode]
theorem genNodes_norm (all a : Bool) : (ns : Nodes) → (next : Bool) →
    Gen.genNodes all false (Norm.nodes all a ns next) next = Gen.genNodes all a ns next
  | .nil, _ => by simp only [Norm.nodes, Gen.genNodes]
  | .cons n rest, next => by
    rw [norm_nodes_cons all a, gen_nodes_cons all a]
    split
    next hc => exact genNodes_norm all a rest next
    next hc =>
      rw [gen_nodes_cons all false, nxOf_nodes, node_isWs, nodes_allWs]
      have hc' : ¬ ((n.isWs && (all || false || rest.allWs)) = true) := by
        intro h; apply hc
        revert h; cases n.isWs <;> cases all <;> cases a <;> cases rest.allWs <;> decide
      rw [if_neg hc', genNode_norm n _, genNodes_norm all false rest next]
theorem genElifs_norm : (es : ElseIfs) → (next : Bool) → Gen.genElifs (Norm.elseIfs es next) next = Gen.genElifs es next
  | .nil, _ => by simp only [Norm.elseIfs]
  | .cons e thn rest, nx => by
    have h1 : Gen.genNodes false true (Norm.nodes false true thn nx) nx = Gen.genNodes false true thn nx := by
      rw [gen_nodes_atStart _ _ _ _ (nodes_headNonWs false thn nx), genNodes_norm false true thn nx]
    simp only [Norm.elseIfs, Gen.genElifs, h1, genElifs_norm rest nx]
theorem genCases_norm : (cs : Cases) → (next : Bool) → Gen.genCases (Norm.cases cs next) next = Gen.genCases cs next
  | .nil, _ => by simp only [Norm.cases]
  | .cons e b rest, nx => by
    have h1 : Gen.genNodes false true (Norm.nodes false true b nx) nx = Gen.genNodes false true b nx := by
      rw [gen_nodes_atStart _ _ _ _ (nodes_headNonWs false b nx), genNodes_norm false true b nx]
    simp only [Norm.cases, Gen.genCases, h1, genCases_norm rest nx]
end

/-- The generator emits the same statements for a template body and for the representative of its layout class. -/
theorem gen_norm (b : Nodes) : Gen.genTemplate (Norm.body b) = Gen.genTemplate b := by
  unfold Gen.genTemplate Norm.body
  rw [gen_nodes_atStart _ _ _ _ (nodes_headNonWs true b false), genNodes_norm true true b false]

end TemplVerif.Proofs.Norm
