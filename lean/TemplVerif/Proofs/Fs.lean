import TemplVerif.Model.Fs
namespace TemplVerif.Proofs.Fs
open TemplVerif TemplVerif.Fs

theorem nodup_eraseDups_aux {α} [BEq α] [LawfulBEq α] : ∀ n (l : List α), l.length ≤ n → l.eraseDups.Nodup := by
  intro n
  induction n with
  | zero => intro l h; cases l <;> simp_all
  | succ n ih =>
    intro l h
    cases l with
    | nil => simp
    | cons a as =>
      rw [List.eraseDups_cons, List.nodup_cons]
      refine ⟨?_, ih _ ?_⟩
      · simp [List.mem_eraseDups]
      · have := List.length_filter_le (fun b => !b == a) as
        simp at h; omega

theorem nodup_eraseDups {α} [BEq α] [LawfulBEq α] (l : List α) : l.eraseDups.Nodup :=
  nodup_eraseDups_aux _ l (Nat.le_refl _)

theorem get_nil (q : Path) : Fs.get [] q = none := rfl

theorem get_cons (fs : Fs) (k q : Path) (v : Bytes) :
    Fs.get ((k, v) :: fs) q = if q = k then some v else Fs.get fs q := by
  unfold Fs.get
  rw [List.lookup_cons]
  by_cases h : q = k
  · simp [h]
  · have : (q == k) = false := by simpa using h
    simp [this, h]

theorem get_put (fs : Fs) (p q : Path) (c : Bytes) : Fs.get (put fs p c) q = if q = p then some c else Fs.get fs q := by
  unfold put; exact get_cons ..

theorem get_del (fs : Fs) (p q : Path) : Fs.get (del fs p) q = if q = p then none else Fs.get fs q := by
  induction fs with
  | nil => simp [del, get_nil]
  | cons x xs ih =>
    obtain ⟨k, v⟩ := x
    unfold del at ih ⊢
    by_cases hk : k = p
    · subst hk
      simp only [List.filter_cons, beq_self_eq_true, Bool.not_true, Bool.false_eq_true, if_false, ih, get_cons]
      by_cases hq : q = k <;> simp [hq]
    · have : (k == p) = false := by simpa using hk
      simp only [List.filter_cons, this, Bool.not_false, if_true, get_cons, ih]
      by_cases hq : q = p
      · subst hq
        simp [Ne.symm hk]
      · simp [hq]

theorem get_isSome (fs : Fs) (k : Path) : (Fs.get fs k).isSome = true ↔ k ∈ fs.map (·.1) := by
  induction fs with
  | nil => simp [get_nil]
  | cons x xs ih =>
    obtain ⟨k', v⟩ := x
    simp only [get_cons, List.map_cons, List.mem_cons]
    by_cases h : k = k'
    · simp [h]
    · simp [h, ih]

theorem mem_eventsOf (cfg : Cfg) (fs : Fs) (e : Path) :
    e ∈ eventsOf cfg fs ↔ (Fs.get fs e).isSome = true ∧ visited cfg e = true := by
  simp only [eventsOf, List.mem_filter, List.mem_eraseDups, get_isSome]

theorem nodup_eventsOf (cfg : Cfg) (fs : Fs) : (eventsOf cfg fs).Nodup := by
  unfold eventsOf
  exact List.Pairwise.filter _ (nodup_eraseDups _)

theorem hasSuffix_iff (p suf : Bytes) : hasSuffix p suf = true ↔ suf <:+ p := by
  simp [hasSuffix, List.isSuffixOf_iff_suffix]

theorem not_both (p : Path) (h1 : hasSuffix p sufTempl = true) (h2 : hasSuffix p sufTemplGo = true) : False := by
  rw [hasSuffix_iff] at h1 h2
  have := List.suffix_of_suffix_length_le h1 h2 (by decide)
  rw [← List.isSuffixOf_iff_suffix] at this
  exact absurd this (by decide)

theorem templOf_suffix (p : Path) : hasSuffix (templOf p) sufTempl = true := by
  rw [hasSuffix_iff]; exact List.suffix_append _ _

theorem targetOf_suffix (p : Path) : hasSuffix (targetOf p) sufTemplGo = true := by
  rw [hasSuffix_iff]; exact List.suffix_append _ _

theorem templOf_targetOf (e : Path) (h : hasSuffix e sufTempl = true) : templOf (targetOf e) = e := by
  rw [hasSuffix_iff] at h
  obtain ⟨t, rfl⟩ := h
  simp [templOf, targetOf, sufTempl, sufTemplGo]


/-! ### what `action` can return -/

theorem action_write {cfg : Cfg} {genOf : Path → Bytes → Option Bytes} {fs : Fs} {e q : Path} {c : Bytes}
    (h : action cfg genOf fs e = .write q c) :
    hasSuffix e sufTempl = true ∧ hasSuffix e sufTemplGo = false ∧ q = targetOf e ∧
      ∃ src, Fs.get fs e = some src ∧ genOf e src = some c := by
  unfold action at h
  split at h
  · split at h
    · cases h
    · split at h <;> cases h
  · rename_i hgo
    split at h
    · cases h
    · rename_i ht
      split at h
      · cases h
      · rename_i src hsrc
        split at h
        · rename_i code hcode
          cases h
          exact ⟨by simpa using ht, by simpa using hgo, rfl, src, hsrc, hcode⟩
        · cases h

theorem action_remove {cfg : Cfg} {genOf : Path → Bytes → Option Bytes} {fs : Fs} {p r : Path}
    (h : action cfg genOf fs p = .remove r) :
    r = p ∧ hasSuffix p sufTemplGo = true ∧ Fs.get fs (templOf p) = none ∧ cfg.keepOrphaned = false := by
  unfold action at h
  split at h
  · rename_i hgo
    split at h
    · cases h
    · rename_i hn
      split at h
      · cases h
      · rename_i hk
        cases h
        exact ⟨rfl, hgo, by simpa using hn, by simpa using hk⟩
  · split at h
    · cases h
    · split at h
      · cases h
      · split at h <;> cases h

theorem action_fail {cfg : Cfg} {genOf : Path → Bytes → Option Bytes} {fs : Fs} {e : Path}
    (h : action cfg genOf fs e = .fail) :
    hasSuffix e sufTempl = true ∧ ∃ src, Fs.get fs e = some src ∧ genOf e src = none := by
  unfold action at h
  split at h
  · split at h
    · cases h
    · split at h <;> cases h
  · split at h
    · cases h
    · rename_i ht
      split at h
      · cases h
      · rename_i src hsrc
        split at h
        · cases h
        · rename_i hcode
          exact ⟨by simpa using ht, src, hsrc, hcode⟩

theorem action_congr (cfg : Cfg) (genOf : Path → Bytes → Option Bytes) (fs fs' : Fs)
    (h : ∀ q, hasSuffix q sufTempl = true → Fs.get fs q = Fs.get fs' q) (p : Path) :
    action cfg genOf fs p = action cfg genOf fs' p := by
  unfold action
  rw [h _ (templOf_suffix p)]
  by_cases ht : hasSuffix p sufTempl = true
  · rw [h _ ht]
  · simp [ht]

/-- the action on an existing generating template -/
theorem action_of_templ (cfg : Cfg) (genOf : Path → Bytes → Option Bytes) (fs : Fs) (e : Path)
    (ht : hasSuffix e sufTempl = true) :
    action cfg genOf fs e = match Fs.get fs e with
      | none => .nop
      | some src => match genOf e src with
        | some code => .write (targetOf e) code
        | none => .fail := by
  have hgo : hasSuffix e sufTemplGo = false := by
    cases hg : hasSuffix e sufTemplGo
    · rfl
    · exact (not_both e ht hg).elim
  unfold action
  simp only [hgo, ht]
  rfl

theorem action_of_go (cfg : Cfg) (genOf : Path → Bytes → Option Bytes) (fs : Fs) (p : Path)
    (hg : hasSuffix p sufTemplGo = true) :
    action cfg genOf fs p =
      if (Fs.get fs (templOf p)).isSome then .nop else if cfg.keepOrphaned then .nop else .remove p := by
  unfold action
  simp [hg]


/-! ### the effect of a set of finished handlers -/

def wr (a : Act) (q : Path) : Option Bytes :=
  match a with
  | .write q' c => if q' = q then some c else none
  | _ => none

def wpart (cfg : Cfg) (genOf : Path → Bytes → Option Bytes) (fs0 : Fs) (F : List Path) (q : Path) : Option Bytes :=
  if templOf q ∈ F then wr (action cfg genOf fs0 (templOf q)) q else none

def rpart (cfg : Cfg) (genOf : Path → Bytes → Option Bytes) (fs0 : Fs) (F : List Path) (q : Path) : Bool :=
  decide (q ∈ F) && decide (action cfg genOf fs0 q = .remove q)

def eff (cfg : Cfg) (genOf : Path → Bytes → Option Bytes) (fs0 : Fs) (F : List Path) (q : Path) : Option Bytes :=
  match wpart cfg genOf fs0 F q with
  | some c => some c
  | none => if rpart cfg genOf fs0 F q then none else Fs.get fs0 q

theorem wr_some {a : Act} {q : Path} {c : Bytes} (h : wr a q = some c) : a = .write q c := by
  unfold wr at h
  split at h
  · split at h
    · rename_i h'; cases h; rw [h']
    · cases h
  · cases h

theorem wr_write (q : Path) (c : Bytes) : wr (.write q c) q = some c := by simp [wr]

theorem findSome_unique {f : Path → Option Bytes} {w : Path} (h : ∀ e c, f e = some c → e = w) (L : List Path) :
    L.findSome? f = if w ∈ L then f w else none := by
  induction L with
  | nil => simp
  | cons x xs ih =>
    rw [List.findSome?_cons]
    cases hx : f x with
    | some c =>
      have := h x c hx
      subst this
      simp [hx]
    | none =>
      simp only [ih, List.mem_cons]
      by_cases hw : w = x
      · subst hw; simp [hx]
      · simp [hw]

theorem spec_eq_eff (cfg : Cfg) (genOf : Path → Bytes → Option Bytes) (fs0 : Fs) (p : Path) :
    spec cfg genOf fs0 p = eff cfg genOf fs0 (eventsOf cfg fs0) p := by
  have key : (eventsOf cfg fs0).findSome? (fun e => wr (action cfg genOf fs0 e) p) = wpart cfg genOf fs0 (eventsOf cfg fs0) p := by
    unfold wpart
    apply findSome_unique
    intro e c h
    have h1 := action_write (wr_some h)
    rw [h1.2.2.1, templOf_targetOf e h1.1]
  unfold spec eff rpart
  rw [← key, List.contains_eq_mem]
  rfl

theorem eff_congr (cfg : Cfg) (genOf : Path → Bytes → Option Bytes) (fs0 : Fs) (F F' : List Path)
    (h : ∀ x, x ∈ F ↔ x ∈ F') (q : Path) : eff cfg genOf fs0 F q = eff cfg genOf fs0 F' q := by
  unfold eff wpart rpart
  simp only [h]

theorem eff_nil (cfg : Cfg) (genOf : Path → Bytes → Option Bytes) (fs0 : Fs) (q : Path) :
    eff cfg genOf fs0 [] q = Fs.get fs0 q := by
  simp [eff, wpart, rpart]

theorem wpart_cons_none (cfg : Cfg) (genOf : Path → Bytes → Option Bytes) (fs0 : Fs) (F : List Path) (p q : Path)
    (h : wr (action cfg genOf fs0 p) q = none) :
    wpart cfg genOf fs0 (p :: F) q = wpart cfg genOf fs0 F q := by
  unfold wpart
  by_cases hp : templOf q = p
  · subst hp
    simp [h]
  · simp [hp]

theorem rpart_cons (cfg : Cfg) (genOf : Path → Bytes → Option Bytes) (fs0 : Fs) (F : List Path) (p q : Path)
    (h : q = p → action cfg genOf fs0 p ≠ .remove p) :
    rpart cfg genOf fs0 (p :: F) q = rpart cfg genOf fs0 F q := by
  unfold rpart
  by_cases hp : q = p
  · subst hp
    simp [h rfl]
  · simp [hp]

theorem eff_cons (cfg : Cfg) (genOf : Path → Bytes → Option Bytes) (fs0 fs : Fs) (F : List Path) (p : Path)
    (hfs : ∀ q, Fs.get fs q = eff cfg genOf fs0 F q) (q : Path) :
    Fs.get (apply fs (action cfg genOf fs0 p)) q = eff cfg genOf fs0 (p :: F) q := by
  cases hA : action cfg genOf fs0 p with
  | nop =>
    simp only [apply, hfs]
    unfold eff
    rw [wpart_cons_none _ _ _ _ _ _ (by rw [hA]; rfl), rpart_cons _ _ _ _ _ _ (by rw [hA]; intro _ h; cases h)]
  | fail =>
    simp only [apply, hfs]
    unfold eff
    rw [wpart_cons_none _ _ _ _ _ _ (by rw [hA]; rfl), rpart_cons _ _ _ _ _ _ (by rw [hA]; intro _ h; cases h)]
  | write q' c =>
    obtain ⟨ht, hgo, hq', src, hsrc, hgen⟩ := action_write hA
    simp only [apply, get_put]
    by_cases hq : q = q'
    · subst hq
      have : wpart cfg genOf fs0 (p :: F) q = some c := by
        unfold wpart
        rw [hq', templOf_targetOf p ht, hA, ← hq']
        simp [wr_write]
      simp [eff, this]
    · rw [if_neg hq, hfs]
      unfold eff
      rw [wpart_cons_none _ _ _ _ _ _ (by rw [hA]; simp [wr, Ne.symm hq]),
        rpart_cons _ _ _ _ _ _ (by rw [hA]; intro _ h; cases h)]
  | remove r =>
    obtain ⟨hr, hgo, hnone, hkeep⟩ := action_remove hA
    subst hr
    simp only [apply, get_del]
    by_cases hq : q = r
    · subst hq
      have h1 : wpart cfg genOf fs0 (q :: F) q = none := by
        unfold wpart
        rw [action_of_templ _ _ _ _ (templOf_suffix q), hnone]
        simp [wr]
      have h2 : rpart cfg genOf fs0 (q :: F) q = true := by
        simp [rpart, hA]
      simp [eff, h1, h2]
    · rw [if_neg hq, hfs]
      unfold eff
      rw [wpart_cons_none _ _ _ _ _ _ (by rw [hA]; rfl),
        rpart_cons _ _ _ _ _ _ (by intro h; exact absurd h hq)]

theorem eff_templ (cfg : Cfg) (genOf : Path → Bytes → Option Bytes) (fs0 : Fs) (F : List Path) (q : Path)
    (ht : hasSuffix q sufTempl = true) : eff cfg genOf fs0 F q = Fs.get fs0 q := by
  have h1 : wpart cfg genOf fs0 F q = none := by
    unfold wpart
    split
    · cases hw : wr (action cfg genOf fs0 (templOf q)) q with
      | none => rfl
      | some c =>
        have := action_write (wr_some hw)
        have h2 := targetOf_suffix (templOf q)
        rw [← this.2.2.1] at h2
        exact (not_both q ht h2).elim
    · rfl
  have h2 : rpart cfg genOf fs0 F q = false := by
    unfold rpart
    by_cases hr : action cfg genOf fs0 q = .remove q
    · exact (not_both q ht (action_remove hr).2.1).elim
    · simp [hr]
  simp [eff, h1, h2]


/-! ### the invariant of every schedule -/

structure Inv (cfg : Cfg) (genOf : Path → Bytes → Option Bytes) (fs0 : Fs) (s : State) : Prop where
  looked : ∀ p a, s.looked.lookup p = some a → a = action cfg genOf fs0 p
  nodup : s.finished.Nodup
  sub : ∀ p, p ∈ s.finished → p ∈ eventsOf cfg fs0
  fs : ∀ q, Fs.get s.fs q = eff cfg genOf fs0 s.finished q
  errs : s.errs = (s.finished.filter fun e => decide (action cfg genOf fs0 e = .fail)).length

theorem inv_init (cfg : Cfg) (genOf : Path → Bytes → Option Bytes) (fs0 : Fs) :
    Inv cfg genOf fs0 { fs := fs0 } where
  looked := by intro p a h; simp at h
  nodup := by simp
  sub := by intro p h; simp at h
  fs := by intro q; exact (eff_nil cfg genOf fs0 q).symm
  errs := by simp

theorem inv_step (cfg : Cfg) (genOf : Path → Bytes → Option Bytes) (fs0 : Fs) (s : State) (p : Path)
    (h : Inv cfg genOf fs0 s) : Inv cfg genOf fs0 (step cfg genOf (eventsOf cfg fs0) s p) := by
  unfold step
  split
  · exact h
  · rename_i hc
    simp only [Bool.or_eq_true, Bool.not_eq_true', not_or, Bool.not_eq_false] at hc
    obtain ⟨hev, hfin⟩ := hc
    have hev : p ∈ eventsOf cfg fs0 := by simpa using hev
    have hfin : p ∉ s.finished := by simpa using hfin
    split
    · -- look
      refine ⟨?_, h.nodup, h.sub, h.fs, h.errs⟩
      intro p' a hl
      simp only [List.lookup_cons] at hl
      split at hl
      · rename_i heq
        have heq : p' = p := by simpa using heq
        cases hl
        rw [heq]
        apply action_congr
        intro q hq
        rw [h.fs, eff_templ _ _ _ _ _ hq]
      · exact h.looked p' a hl
    · -- act
      rename_i a hl
      have ha := h.looked p a hl
      subst ha
      refine ⟨h.looked, ?_, ?_, ?_, ?_⟩
      · exact List.nodup_cons.mpr ⟨hfin, h.nodup⟩
      · intro x hx
        rcases List.mem_cons.mp hx with rfl | hx
        · exact hev
        · exact h.sub x hx
      · exact eff_cons cfg genOf fs0 s.fs s.finished p h.fs
      · simp only [List.filter_cons, h.errs]
        by_cases hf : action cfg genOf fs0 p = .fail <;> simp [hf]

theorem inv_run (cfg : Cfg) (genOf : Path → Bytes → Option Bytes) (fs0 : Fs) (sched : List Path) :
    Inv cfg genOf fs0 (run cfg genOf (eventsOf cfg fs0) fs0 sched) := by
  unfold run
  have : ∀ (s : State), Inv cfg genOf fs0 s →
      Inv cfg genOf fs0 (sched.foldl (step cfg genOf (eventsOf cfg fs0)) s) := by
    induction sched with
    | nil => intro s hs; exact hs
    | cons x xs ih => intro s hs; exact ih _ (inv_step cfg genOf fs0 s x hs)
  exact this _ (inv_init cfg genOf fs0)

/-- Every schedule in which all handlers finish leaves, at every path, what the specification says, and counts
    exactly the files that cannot be generated. -/
theorem run_spec (cfg : Cfg) (genOf : Path → Bytes → Option Bytes) (fs0 : Fs) (sched : List Path)
    (hdone : ∀ e ∈ eventsOf cfg fs0, e ∈ (run cfg genOf (eventsOf cfg fs0) fs0 sched).finished) :
    (∀ p, get (run cfg genOf (eventsOf cfg fs0) fs0 sched).fs p = spec cfg genOf fs0 p) ∧
    (run cfg genOf (eventsOf cfg fs0) fs0 sched).errs = failures cfg genOf fs0 := by
  have h := inv_run cfg genOf fs0 sched
  have hmem : ∀ x, x ∈ (run cfg genOf (eventsOf cfg fs0) fs0 sched).finished ↔ x ∈ eventsOf cfg fs0 :=
    fun x => ⟨h.sub x, hdone x⟩
  constructor
  · intro p
    rw [h.fs, spec_eq_eff]
    exact eff_congr _ _ _ _ _ hmem p
  · rw [h.errs]
    unfold failures
    exact ((List.perm_ext_iff_of_nodup h.nodup (nodup_eventsOf cfg fs0)).mpr hmem).filter _ |>.length_eq

/-! ### the sequential schedule -/

theorem step_mono (cfg : Cfg) (genOf : Path → Bytes → Option Bytes) (events : List Path) (s : State) (p e : Path)
    (h : e ∈ s.finished) : e ∈ (step cfg genOf events s p).finished := by
  unfold step
  split
  · exact h
  · split
    · exact h
    · exact List.mem_cons_of_mem _ h

theorem foldl_mono (cfg : Cfg) (genOf : Path → Bytes → Option Bytes) (events : List Path) (L : List Path) :
    ∀ (s : State) (e : Path), e ∈ s.finished → e ∈ (L.foldl (step cfg genOf events) s).finished := by
  induction L with
  | nil => intro s e h; exact h
  | cons x xs ih => intro s e h; exact ih _ e (step_mono cfg genOf events s x e h)

theorem step_twice (cfg : Cfg) (genOf : Path → Bytes → Option Bytes) (events : List Path) (s : State) (p : Path)
    (hp : p ∈ events) : p ∈ (step cfg genOf events (step cfg genOf events s p) p).finished := by
  by_cases hfin : p ∈ s.finished
  · exact step_mono _ _ _ _ _ _ (step_mono _ _ _ _ _ _ hfin)
  · cases hl : s.looked.lookup p with
    | some a =>
      apply step_mono
      unfold step
      simp [hp, hfin, hl]
    | none =>
      have h1 : step cfg genOf events s p = { s with looked := (p, action cfg genOf s.fs p) :: s.looked } := by
        unfold step
        simp [hp, hfin, hl]
      rw [h1]
      unfold step
      simp [hp, hfin]

theorem seq_aux (cfg : Cfg) (genOf : Path → Bytes → Option Bytes) (events : List Path) (L : List Path)
    (hL : ∀ e ∈ L, e ∈ events) :
    ∀ (s : State), ∀ e ∈ L, e ∈ ((seqSched L).foldl (step cfg genOf events) s).finished := by
  induction L with
  | nil => intro s e h; simp at h
  | cons x xs ih =>
    intro s e he
    have hx : x ∈ events := hL x (List.mem_cons_self ..)
    have : seqSched (x :: xs) = x :: x :: seqSched xs := by simp [seqSched]
    rw [this, List.foldl_cons, List.foldl_cons]
    rcases List.mem_cons.mp he with rfl | he
    · exact foldl_mono _ _ _ _ _ _ (step_twice cfg genOf events s e hx)
    · exact ih (fun e h => hL e (List.mem_cons_of_mem _ h)) _ e he

/-- The sequential schedule finishes every handler. -/
theorem seq_finishes (cfg : Cfg) (genOf : Path → Bytes → Option Bytes) (fs0 : Fs) :
    ∀ e ∈ eventsOf cfg fs0, e ∈ (run cfg genOf (eventsOf cfg fs0) fs0 (seqSched (eventsOf cfg fs0))).finished := by
  intro e he
  exact seq_aux cfg genOf (eventsOf cfg fs0) (eventsOf cfg fs0) (fun _ h => h) _ e he


/-! ### the specification spelled out -/

theorem wpart_of_absent (cfg : Cfg) (genOf : Path → Bytes → Option Bytes) (fs0 : Fs) (F : List Path) (p : Path)
    (hno : Fs.get fs0 (templOf p) = none) : wpart cfg genOf fs0 F p = none := by
  unfold wpart
  rw [action_of_templ _ _ _ _ (templOf_suffix p), hno]
  simp [wr]

theorem eff_remove (cfg : Cfg) (genOf : Path → Bytes → Option Bytes) (fs0 : Fs) (F : List Path) (p : Path)
    (hA : action cfg genOf fs0 p = .remove p) :
    eff cfg genOf fs0 F p = if p ∈ F then none else Fs.get fs0 p := by
  have h1 := wpart_of_absent cfg genOf fs0 F p (action_remove hA).2.2.1
  simp [eff, h1, rpart, hA]

/-- The specification applied to its own result changes nothing (second run), and the same files fail. -/
theorem spec_idem (cfg : Cfg) (genOf : Path → Bytes → Option Bytes) (fs0 fs1 : Fs)
    (h1 : ∀ p, get fs1 p = spec cfg genOf fs0 p) :
    (∀ p, spec cfg genOf fs1 p = get fs1 p) ∧ failures cfg genOf fs1 = failures cfg genOf fs0 := by
  have hT : ∀ q, hasSuffix q sufTempl = true → Fs.get fs1 q = Fs.get fs0 q := by
    intro q hq; rw [h1, spec_eq_eff, eff_templ _ _ _ _ _ hq]
  have hA : ∀ p, action cfg genOf fs1 p = action cfg genOf fs0 p := action_congr _ _ _ _ hT
  constructor
  · intro p
    rw [spec_eq_eff]
    unfold eff
    cases hw : wpart cfg genOf fs1 (eventsOf cfg fs1) p with
    | some c =>
      unfold wpart at hw
      split at hw
      · rename_i hev
        have hw' := wr_some hw
        rw [hA] at hw'
        obtain ⟨hs, hv⟩ := (mem_eventsOf _ _ _).mp hev
        rw [hT _ (templOf_suffix p)] at hs
        have hev0 : templOf p ∈ eventsOf cfg fs0 := (mem_eventsOf _ _ _).mpr ⟨hs, hv⟩
        rw [h1, spec_eq_eff]
        have : wpart cfg genOf fs0 (eventsOf cfg fs0) p = some c := by
          unfold wpart; rw [if_pos hev0, hw', wr_write]
        simp [eff, this]
      · cases hw
    | none =>
      cases hr : rpart cfg genOf fs1 (eventsOf cfg fs1) p with
      | false => simp
      | true =>
        exfalso
        simp only [rpart, Bool.and_eq_true, decide_eq_true_eq] at hr
        obtain ⟨hev, hrem⟩ := hr
        rw [hA] at hrem
        obtain ⟨hs, hv⟩ := (mem_eventsOf _ _ _).mp hev
        rw [h1, spec_eq_eff, eff_remove _ _ _ _ _ hrem] at hs
        by_cases hev0 : p ∈ eventsOf cfg fs0
        · simp [hev0] at hs
        · rw [if_neg hev0] at hs
          exact hev0 ((mem_eventsOf _ _ _).mpr ⟨hs, hv⟩)
  · unfold failures
    apply List.Perm.length_eq
    apply (List.perm_ext_iff_of_nodup (List.Pairwise.filter _ (nodup_eventsOf _ _))
      (List.Pairwise.filter _ (nodup_eventsOf _ _))).mpr
    intro e
    simp only [List.mem_filter, mem_eventsOf, decide_eq_true_eq, hA]
    constructor
    · rintro ⟨⟨hs, hv⟩, hf⟩
      rw [hT _ (action_fail hf).1] at hs
      exact ⟨⟨hs, hv⟩, hf⟩
    · rintro ⟨⟨hs, hv⟩, hf⟩
      rw [← hT _ (action_fail hf).1] at hs
      exact ⟨⟨hs, hv⟩, hf⟩

/-- What the specification says, spelled out. -/
theorem spec_generated (cfg : Cfg) (genOf : Path → Bytes → Option Bytes) (fs0 : Fs) (e : Path) (src code : Bytes)
    (hv : visited cfg e = true) (ht : hasSuffix e sufTempl = true) (hsrc : get fs0 e = some src)
    (hgen : genOf e src = some code) :
    spec cfg genOf fs0 (targetOf e) = some code := by
  rw [spec_eq_eff]
  have hev : e ∈ eventsOf cfg fs0 := (mem_eventsOf _ _ _).mpr ⟨by simp [hsrc], hv⟩
  have hA : action cfg genOf fs0 e = .write (targetOf e) code := by
    rw [action_of_templ _ _ _ _ ht, hsrc]
    simp only [hgen]
  have : wpart cfg genOf fs0 (eventsOf cfg fs0) (targetOf e) = some code := by
    unfold wpart; rw [templOf_targetOf e ht, if_pos hev, hA, wr_write]
  simp [eff, this]

theorem spec_orphan (cfg : Cfg) (genOf : Path → Bytes → Option Bytes) (fs0 : Fs) (p : Path)
    (hv : visited cfg p = true) (hg : hasSuffix p sufTemplGo = true) (hp : (get fs0 p).isSome)
    (hno : get fs0 (templOf p) = none) :
    spec cfg genOf fs0 p = if cfg.keepOrphaned then get fs0 p else none := by
  rw [spec_eq_eff]
  have hev : p ∈ eventsOf cfg fs0 := (mem_eventsOf _ _ _).mpr ⟨hp, hv⟩
  have h1 := wpart_of_absent cfg genOf fs0 (eventsOf cfg fs0) p hno
  have hA := action_of_go cfg genOf fs0 p hg
  rw [hno] at hA
  cases hk : cfg.keepOrphaned
  · have h2 : rpart cfg genOf fs0 (eventsOf cfg fs0) p = true := by simp [rpart, hev, hA, hk]
    simp [eff, h1, h2]
  · have h2 : rpart cfg genOf fs0 (eventsOf cfg fs0) p = false := by simp [rpart, hA, hk]
    simp [eff, h1, h2]

/-- Nothing else is touched: a path that is neither the sibling of a visited generating .templ file nor a visited
    orphan keeps its content (or absence). -/
theorem spec_untouched (cfg : Cfg) (genOf : Path → Bytes → Option Bytes) (fs0 : Fs) (p : Path)
    (hnt : ∀ e src, visited cfg e = true → hasSuffix e sufTempl = true → get fs0 e = some src →
            (genOf e src).isSome → targetOf e ≠ p)
    (hno : ¬ (visited cfg p = true ∧ hasSuffix p sufTemplGo = true ∧ (get fs0 p).isSome ∧
              get fs0 (templOf p) = none ∧ cfg.keepOrphaned = false)) :
    spec cfg genOf fs0 p = get fs0 p := by
  rw [spec_eq_eff]
  have h1 : wpart cfg genOf fs0 (eventsOf cfg fs0) p = none := by
    unfold wpart
    split
    · rename_i hev
      cases hw : wr (action cfg genOf fs0 (templOf p)) p with
      | none => rfl
      | some c =>
        obtain ⟨ht, _, hq, src, hsrc, hgen⟩ := action_write (wr_some hw)
        exact absurd hq.symm (hnt (templOf p) src ((mem_eventsOf _ _ _).mp hev).2 ht hsrc (by simp [hgen]))
    · rfl
  have h2 : rpart cfg genOf fs0 (eventsOf cfg fs0) p = false := by
    unfold rpart
    by_cases hr : action cfg genOf fs0 p = .remove p
    · obtain ⟨_, hg, hn, hk⟩ := action_remove hr
      by_cases hev : p ∈ eventsOf cfg fs0
      · obtain ⟨hs, hv⟩ := (mem_eventsOf _ _ _).mp hev
        exact absurd ⟨hv, hg, hs, hn, hk⟩ hno
      · simp [hev]
    · simp [hr]
  simp [eff, h1, h2]

end TemplVerif.Proofs.Fs
