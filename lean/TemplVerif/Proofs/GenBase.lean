import TemplVerif.Model.Gen
import TemplVerif.Model.Denote
set_option linter.unusedSimpArgs false
namespace TemplVerif.Proofs.Gen
open TemplVerif TemplVerif.Ast TemplVerif.Sem

@[simp] theorem frags_nil_append (b : Gen.Frags) : (Gen.Frags.nil ++ b) = b := rfl
@[simp] theorem frags_cons_append (f : Gen.Frag) (fs b : Gen.Frags) :
    (Gen.Frags.cons f fs ++ b) = Gen.Frags.cons f (fs ++ b) := rfl

@[simp] theorem write_nil (st : St) : st.write [] = st := by simp [St.write]
@[simp] theorem write_write (st : St) (a b : Bytes) : (st.write a).write b = st.write (a ++ b) := by
  simp [St.write]
@[simp] theorem write_err (st : St) (a : Bytes) : (st.write a).err = st.err := rfl
@[simp] theorem stick_err (st : St) : st.stick.err = true := rfl
@[simp] theorem fail_err (st : St) : st.fail.err = true := rfl

theorem execs_append : (a b : Gen.Frags) → (env : Env) → (st : St) →
    Gen.execs (a ++ b) env st = Gen.execs b env (Gen.execs a env st)
  | .nil, b, env, st => by simp [Gen.execs]
  | .cons f fs, b, env, st => by simp [Gen.execs, execs_append fs b]

theorem writeEscaped_err (env : Env) (e : Bytes) (st : St) (h : st.err = true) : writeEscaped env e st = st := by
  simp [writeEscaped, h]

theorem exec_err (f : Gen.Frag) (env : Env) (st : St) (h : st.err = true) : Gen.exec f env st = st := by
  cases f <;> simp [Gen.exec, h, writeEscaped]

theorem execs_err : (fs : Gen.Frags) → (env : Env) → (st : St) → (h : st.err = true) → Gen.execs fs env st = st
  | .nil, env, st, h => by simp [Gen.execs]
  | .cons f fs, env, st, h => by simp [Gen.execs, exec_err f env st h, execs_err fs env st h]

@[simp] theorem execs_one (f : Gen.Frag) (env : Env) (st : St) : Gen.execs (Gen.Frags.one f) env st = Gen.exec f env st := by
  simp [Gen.Frags.one, Gen.execs]

@[simp] theorem execs_lits (s : Bytes) (env : Env) (st : St) :
    Gen.execs (Gen.lits s) env st = if st.err then st else st.write s := by
  simp [Gen.lits, Gen.exec]

@[simp] theorem execs_stick (fs : Gen.Frags) (env : Env) (st : St) : Gen.execs fs env st.stick = st.stick :=
  execs_err fs env _ rfl
@[simp] theorem execs_fail (fs : Gen.Frags) (env : Env) (st : St) : Gen.execs fs env st.fail = st.fail :=
  execs_err fs env _ rfl

theorem announceClasses_err (env : Env) (es : List Bytes) (st : St) (h : st.err = true) :
    Denote.announceClasses env es st = st := by
  cases es <;> simp [Denote.announceClasses, h]
@[simp] theorem announceClasses_stick (env : Env) (es : List Bytes) (st : St) :
    Denote.announceClasses env es st.stick = st.stick := announceClasses_err env es _ rfl

theorem announceClasses_append (env : Env) : (a b : List Bytes) → (st : St) →
    Denote.announceClasses env (a ++ b) st = Denote.announceClasses env b (Denote.announceClasses env a st)
  | [], b, st => by simp [Denote.announceClasses]
  | e :: a, b, st => by
    simp only [List.cons_append, Denote.announceClasses]
    by_cases h : st.err = true
    · simp [h, announceClasses_err _ _ _ h]
    · simp only [h]
      simp only [eval]
      cases hl : env.lookup e with
      | none => simp
      | some en =>
        rcases en with ⟨ks, v⟩
        cases v <;> simp [announceClasses_append env a b]



mutual
theorem scriptExprs_eq (env : Env) : (as : Attrs) → Gen.scriptExprs as = Denote.reachedScripts false env as
  | .nil => by simp [Gen.scriptExprs, Denote.reachedScripts]
  | .cons a as => by simp [Gen.scriptExprs, Denote.reachedScripts, scriptExprsOne_eq env a, scriptExprs_eq env as]
theorem scriptExprsOne_eq (env : Env) : (a : Attr) → Gen.scriptExprsOne a = Denote.reachedScriptsOne false env a
  | .boolConst _ => by simp [Gen.scriptExprsOne, Denote.reachedScriptsOne]
  | .const _ _ _ => by simp [Gen.scriptExprsOne, Denote.reachedScriptsOne]
  | .boolExpr _ _ => by simp [Gen.scriptExprsOne, Denote.reachedScriptsOne]
  | .expr _ _ => by simp [Gen.scriptExprsOne, Denote.reachedScriptsOne]
  | .spread _ => by simp [Gen.scriptExprsOne, Denote.reachedScriptsOne]
  | .cond _ thn els => by
    simp [Gen.scriptExprsOne, Denote.reachedScriptsOne, scriptExprs_eq env thn, scriptExprs_eq env els]
end

mutual
theorem execs_cssHoist (env : Env) : (as : Attrs) → (st : St) →
    Gen.execs (Gen.cssHoist as) env st = Denote.announceClasses env (Denote.reachedClasses false env as) st
  | .nil, st => by simp [Gen.cssHoist, Denote.reachedClasses, Gen.execs, Denote.announceClasses]
  | .cons a as, st => by
    simp only [Gen.cssHoist, Denote.reachedClasses, execs_append, announceClasses_append,
      execs_cssHoistOne env a, execs_cssHoist env as]
theorem execs_cssHoistOne (env : Env) : (a : Attr) → (st : St) →
    Gen.execs (Gen.cssHoistOne a) env st = Denote.announceClasses env (Denote.reachedClassesOne false env a) st
  | .boolConst _, st => by simp [Gen.cssHoistOne, Denote.reachedClassesOne, Gen.execs, Denote.announceClasses]
  | .const _ _ _, st => by simp [Gen.cssHoistOne, Denote.reachedClassesOne, Gen.execs, Denote.announceClasses]
  | .boolExpr _ _, st => by simp [Gen.cssHoistOne, Denote.reachedClassesOne, Gen.execs, Denote.announceClasses]
  | .expr name e, st => by
    simp only [Gen.cssHoistOne, Denote.reachedClassesOne]
    split
    · simp only [execs_one, Gen.exec, Denote.announceClasses]; rfl
    · simp [Gen.execs, Denote.announceClasses]
  | .spread _, st => by simp [Gen.cssHoistOne, Denote.reachedClassesOne, Gen.execs, Denote.announceClasses]
  | .cond _ thn els, st => by
    simp [Gen.cssHoistOne, Denote.reachedClassesOne, execs_append, announceClasses_append,
      execs_cssHoist env thn, execs_cssHoist env els]
end

theorem execs_scriptHoist (env : Env) (as : Attrs) (st : St) :
    Gen.execs (Gen.scriptHoist as) env st = Denote.announceScripts env (Denote.reachedScripts false env as) st := by
  rw [← scriptExprs_eq env as]
  simp only [Gen.scriptHoist, Denote.announceScripts]
  cases h : Gen.scriptExprs as with
  | nil => simp [Gen.execs]
  | cons e es => simp [Gen.exec]

mutual
theorem execs_genAttrs (css : Bool) (el : Bytes) : (as : Attrs) → (env : Env) → (st : St) →
    Gen.execs (Gen.genAttrs css el as) env st = Denote.attrs css el as env st
  | .nil, env, st => by simp [Gen.genAttrs, Gen.execs, Denote.attrs]
  | .cons a as, env, st => by
    rw [Gen.genAttrs, execs_append, execs_genAttr css el a, execs_genAttrs css el as, Denote.attrs]
theorem execs_genAttr (css : Bool) (el : Bytes) : (a : Attr) → (env : Env) → (st : St) →
    Gen.execs (Gen.genAttr css el a) env st = Denote.attr css el a env st
  | .boolConst name, env, st => by simp [Gen.genAttr, Denote.attr]
  | .const name value _, env, st => by simp [Gen.genAttr, Denote.attr]
  | .boolExpr name e, env, st => by
    simp only [Gen.genAttr, Denote.attr, execs_one, Gen.exec, Gen.execBranches, eval]
    by_cases h : st.err = true
    · simp [h]
    · simp only [h]
      cases hl : env.lookup e with
      | none => simp
      | some en =>
        rcases en with ⟨ks, v⟩
        cases v <;> simp [Gen.execs, h]
        rename_i b; cases b <;> simp [Gen.execs, h]
  | .expr name e, env, st => by
    simp only [Gen.genAttr, Denote.attr, Gen.execs, Gen.exec, execs_lits, Gen.attrValue]
    by_cases h : st.err = true
    · simp [h, exec_err]
    · simp only [h]
      have e1 : (st.write (sp ++ Html.escape name ++ [61])).write dq = st.write (sp ++ Html.escape name ++ eqDq) := by
        simp [dq, eqDq]
      simp only [write_err, h, if_false, e1, Bool.false_eq_true]
      split
      · simp [Gen.exec, h]; rfl
      · split
        · simp [Gen.exec]
        · split
          · simp [Gen.exec, h]; rfl
          · simp [Gen.exec]
  | .spread e, env, st => by simp only [Gen.genAttr, Denote.attr, Gen.exec, execs_one]; rfl
  | .cond e thn els, env, st => by
    simp only [Gen.genAttr, Denote.attr, execs_one, Gen.exec, Gen.execBranches, eval]
    by_cases h : st.err = true
    · simp [h]
    · simp only [h]
      cases hl : env.lookup e with
      | none => simp
      | some en =>
        rcases en with ⟨ks, v⟩
        cases v <;> simp [Gen.execs, h]
        rename_i b; cases b <;> simp [Gen.execs, h, execs_genAttrs css el thn, execs_genAttrs css el els]
end


theorem execs_openTag (css : Bool) (name : Bytes) (as : Attrs) (env : Env) (st : St) :
    Gen.execs (Gen.openTag css name as) env st = Denote.openTag false css name as env st := by
  cases as with
  | nil => simp [Gen.openTag, Denote.openTag]
  | cons a as =>
    simp only [Gen.openTag, Denote.openTag, execs_append, execs_scriptHoist, execs_genAttrs, execs_lits]
    by_cases h : st.err = true
    · have h1 : Gen.execs (if css = true then Gen.cssHoist (.cons a as) else .nil) env st = st := execs_err _ _ _ h
      simp [h1, h, Denote.announceScripts, ← execs_genAttrs, execs_err _ _ _ h]
    · have h1 : Gen.execs (if css = true then Gen.cssHoist (.cons a as) else .nil) env st =
          if css = true then Denote.announceClasses env (Denote.reachedClasses false env (.cons a as)) st else st := by
        cases css <;> simp [Gen.execs, execs_cssHoist]
      simp only [h1, h, if_false, Bool.false_eq_true]
      generalize (Denote.announceScripts env (Denote.reachedScripts false env (Attrs.cons a as))
        (if css = true then Denote.announceClasses env (Denote.reachedClasses false env (Attrs.cons a as)) st else st)) = st2
      by_cases h2 : st2.err = true
      · simp [h2, ← execs_genAttrs, execs_err _ _ _ h2]
      · simp [h2]



theorem scriptParts_err (env : Env) : (ps : List ScriptPart) → (st : St) → st.err = true → Denote.scriptParts ps env st = st
  | [], st, h => by simp [Denote.scriptParts]
  | .js v :: rest, st, h => by simp [Denote.scriptParts, h, scriptParts_err env rest st h]
  | .go e i t :: rest, st, h => by simp [Denote.scriptParts, h]

@[simp] theorem scriptParts_stick (env : Env) (ps : List ScriptPart) (st : St) :
    Denote.scriptParts ps env st.stick = st.stick := scriptParts_err env ps _ rfl
@[simp] theorem scriptParts_fail (env : Env) (ps : List ScriptPart) (st : St) :
    Denote.scriptParts ps env st.fail = st.fail := scriptParts_err env ps _ rfl

theorem execs_genScriptParts (env : Env) : (ps : List ScriptPart) → (st : St) →
    Gen.execs (Gen.genScriptParts ps) env st = Denote.scriptParts ps env st
  | [], st => by simp [Gen.genScriptParts, Denote.scriptParts, Gen.execs]
  | .js v :: rest, st => by
    simp only [Gen.genScriptParts, Denote.scriptParts, execs_append, execs_genScriptParts env rest]
    by_cases hv : v.isEmpty = true
    · have : v = [] := by simpa using hv
      subst this; simp [Gen.execs]
    · simp [hv]
  | .go e inside trail :: rest, st => by
    simp only [Gen.genScriptParts, Denote.scriptParts, Gen.execs, execs_append, execs_genScriptParts env rest, Gen.exec, eval]
    by_cases h : st.err = true
    · simp [h, execs_err _ _ _ h, scriptParts_err env rest st h]
    · simp only [h]
      cases hl : env.lookup e with
      | none => simp [scriptParts_err]
      | some en =>
        rcases en with ⟨ks, v⟩
        cases v <;> simp [Gen.execs, h]
        rename_i o i er
        cases er <;> simp
        by_cases ht : trail = [] <;> simp [ht, Gen.execs, h]

theorem execs_trailing (cur : Node) (next : Bool) (env : Env) (st : St) :
    Gen.execs (Gen.trailing cur next) env st = Denote.space cur next st := by
  simp only [Gen.trailing, Denote.space]
  split <;> simp [Gen.execs]


end TemplVerif.Proofs.Gen
