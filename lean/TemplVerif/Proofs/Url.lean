import TemplVerif.Model.Url
/- Helper lemmas for C04. -/
namespace TemplVerif.Proofs.Url
open TemplVerif TemplVerif.Url

/-- If the sanitiser returns its input, a browser sees no scheme, an allowed one, or the input is the failure URL itself. -/
theorem sanitize_fixed (s : Bytes) (h : sanitize s = s) :
    Whatwg.scheme s = none ∨ (∃ a ∈ Whatwg.allowedSchemes, Whatwg.scheme s = some a) ∨ s = Whatwg.failedURL := by
  sorry

theorem sanitize_else (s : Bytes) (h : sanitize s ≠ s) : sanitize s = Whatwg.failedURL := by
  sorry

end TemplVerif.Proofs.Url
