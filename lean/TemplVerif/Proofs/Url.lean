import TemplVerif.Model.Url
/- Helper lemmas for C04. -/
namespace TemplVerif.Proofs.Url
open TemplVerif TemplVerif.Url

/-! ### Pinned tables -/

theorem schemes_eq : Generated.urlSchemes = Whatwg.allowedSchemes := by decide
theorem failedURL_eq : Generated.failedURL = Whatwg.failedURL := by decide

/-! ### Byte facts -/

/-- Everything we need to know about a lower-case ASCII letter `c`. -/
def letterOK (c : UInt8) : Bool :=
  Whatwg.isAlpha c && Whatwg.lower c == c && Whatwg.isAlpha (c - 32) && Whatwg.lower (c - 32) == c &&
    asciiUpper c == c - 32 && asciiLower c == c

theorem letterOK_aux : ∀ n : Nat, n < 26 → letterOK (UInt8.ofNat (97 + n)) = true := by
  decide

theorem letterOK_of_range (c : UInt8) (h1 : 97 ≤ c) (h2 : c ≤ 122) : letterOK c = true := by
  have h1' := UInt8.le_iff_toNat_le.mp h1
  have h2' := UInt8.le_iff_toNat_le.mp h2
  simp at h1' h2'
  have := letterOK_aux (c.toNat - 97) (by omega)
  have e : 97 + (c.toNat - 97) = c.toNat := by omega
  rw [e] at this
  simpa using this

def isLowerLetter (c : UInt8) : Bool := 97 ≤ c && c ≤ 122

/-- A byte that folds to a lower-case ASCII letter is an ASCII letter whose lower-case form is that letter. -/
theorem runeFoldsTo_letter (b c : UInt8) (hc : isLowerLetter c = true)
    (h : runeFoldsTo b.toNat c = true) : Whatwg.isAlpha b = true ∧ Whatwg.lower b = c := by
  simp only [isLowerLetter, Bool.and_eq_true, decide_eq_true_eq] at hc
  have ok := letterOK_of_range c hc.1 hc.2
  simp only [letterOK, Bool.and_eq_true, beq_iff_eq] at ok
  obtain ⟨⟨⟨⟨⟨o1, o2⟩, o3⟩, o4⟩, o5⟩, o6⟩ := ok
  have hb := UInt8.toNat_lt b
  simp only [runeFoldsTo, Bool.or_eq_true, Bool.and_eq_true, beq_iff_eq] at h
  rcases h with (((h | h) | h) | h) | h
  · have : b = c := UInt8.toNat_inj.mp h
    subst this; exact ⟨o1, o2⟩
  · have : b = asciiUpper c := UInt8.toNat_inj.mp h
    rw [this, o5]; exact ⟨o3, o4⟩
  · have : b = asciiLower c := UInt8.toNat_inj.mp h
    rw [this, o6]; exact ⟨o1, o2⟩
  · omega
  · omega

/-! ### `indexOf` -/

theorem indexOf_none {c : UInt8} {s : Bytes} (h : indexOf c s = none) : c ∉ s := by
  induction s with
  | nil => simp
  | cons b rest ih =>
    simp only [indexOf] at h
    split at h
    · cases h
    · rename_i hbc
      simp only [Option.map_eq_none_iff] at h
      simp only [List.mem_cons, not_or]
      exact ⟨fun e => hbc e.symm, ih h⟩

theorem indexOf_some {c : UInt8} {s : Bytes} {i : Nat} (h : indexOf c s = some i) :
    ∃ rest, s = s.take i ++ c :: rest ∧ c ∉ s.take i := by
  induction s generalizing i with
  | nil => simp [indexOf] at h
  | cons b rest ih =>
    simp only [indexOf] at h
    split at h
    · rename_i hbc
      cases h
      exact ⟨rest, by simp [hbc], by simp⟩
    · rename_i hbc
      simp only [Option.map_eq_some_iff] at h
      obtain ⟨j, hj, rfl⟩ := h
      obtain ⟨r, hr1, hr2⟩ := ih hj
      refine ⟨r, ?_, ?_⟩
      · simp only [List.take_succ_cons, List.cons_append]
        rw [← hr1]
      · simp only [List.take_succ_cons, List.mem_cons, not_or]
        exact ⟨fun e => hbc e.symm, hr2⟩

theorem indexOf_isSome {c : UInt8} {s : Bytes} (h : (indexOf c s).isSome = true) : c ∈ s := by
  induction s with
  | nil => simp [indexOf] at h
  | cons b rest ih =>
    simp only [indexOf] at h
    split at h
    · rename_i hbc; simp [hbc]
    · simp only [Option.isSome_map] at h
      exact List.mem_cons_of_mem _ (ih h)

/-! ### The browser side -/

theorem mem_preprocess {b : UInt8} {s : Bytes} (h : b ∈ Whatwg.preprocess s) : b ∈ s := by
  simp only [Whatwg.preprocess, List.mem_filter, List.mem_reverse] at h
  exact (List.dropWhile_sublist _).mem ((List.dropWhile_sublist _).mem h.1 |> List.mem_reverse.mp)

theorem schemeState_no_colon (acc : Bytes) (l : Bytes) (h : (58 : UInt8) ∉ l) :
    Whatwg.schemeState acc l = none := by
  induction l generalizing acc with
  | nil => rfl
  | cons b rest ih =>
    simp only [List.mem_cons, not_or] at h
    simp only [Whatwg.schemeState]
    split
    · exact ih _ h.2
    · split
      · rename_i hb; simp at hb; exact absurd hb.symm h.1
      · rfl

/-- A byte that survives preprocessing and stops the scheme state without being ':'. -/
def isBad (b : UInt8) : Bool := !Whatwg.isC0OrSpace b && !Whatwg.isSchemeChar b && b != 58

theorem schemeState_bad (acc x : Bytes) (b : UInt8) (y : Bytes) (hx : (58 : UInt8) ∉ x)
    (hb : isBad b = true) : Whatwg.schemeState acc (x ++ b :: y) = none := by
  induction x generalizing acc with
  | nil =>
    simp only [isBad, Bool.and_eq_true, Bool.not_eq_true', bne_iff_ne] at hb
    simp [Whatwg.schemeState, hb.1.2, hb.2]
  | cons a rest ih =>
    simp only [List.mem_cons, not_or] at hx
    simp only [List.cons_append, Whatwg.schemeState]
    split
    · exact ih _ hx.2
    · split
      · rename_i ha; simp at ha; exact absurd ha.symm hx.1
      · rfl

theorem schemeState_good (acc p rest : Bytes) (hp : p.all Whatwg.isSchemeChar = true) :
    Whatwg.schemeState acc (p ++ 58 :: rest) = some (acc ++ p.map Whatwg.lower) := by
  induction p generalizing acc with
  | nil => simp [Whatwg.schemeState, Whatwg.isSchemeChar, Whatwg.isAlpha]
  | cons a p ih =>
    simp only [List.all_cons, Bool.and_eq_true] at hp
    simp only [List.cons_append, Whatwg.schemeState, hp.1, if_true]
    rw [ih _ hp.2]
    simp

theorem dropWhile_append_keep (p : UInt8 → Bool) (u : Bytes) (c : UInt8) (v : Bytes)
    (hc : p c = false) : ∃ u', (∀ z ∈ u', z ∈ u) ∧ List.dropWhile p (u ++ c :: v) = u' ++ c :: v := by
  induction u with
  | nil => exact ⟨[], by simp, by simp [hc]⟩
  | cons a u ih =>
    by_cases ha : p a = true
    · obtain ⟨u', h1, h2⟩ := ih
      refine ⟨u', fun z hz => List.mem_cons_of_mem _ (h1 z hz), ?_⟩
      simp [ha, h2]
    · refine ⟨a :: u, fun z hz => hz, ?_⟩
      simp [ha]

/-- Shape of the preprocessed string around a byte that is not stripped. -/
theorem preprocess_split (x : Bytes) (c : UInt8) (y : Bytes) (hc : Whatwg.isC0OrSpace c = false) :
    ∃ x' y', (∀ z ∈ x', z ∈ x) ∧ Whatwg.preprocess (x ++ c :: y) = x' ++ c :: y' := by
  have hct : Whatwg.isTabOrNewline c = false := by
    simp only [Whatwg.isC0OrSpace, decide_eq_false_iff_not] at hc
    simp only [Whatwg.isTabOrNewline, Bool.or_eq_false_iff, beq_eq_false_iff_ne]
    refine ⟨⟨?_, ?_⟩, ?_⟩ <;> (intro e; subst e; exact hc (by decide))
  obtain ⟨x1, hx1, e1⟩ := dropWhile_append_keep Whatwg.isC0OrSpace x c y hc
  obtain ⟨y1, _, e2⟩ := dropWhile_append_keep Whatwg.isC0OrSpace y.reverse c x1.reverse hc
  refine ⟨x1.filter (fun b => !Whatwg.isTabOrNewline b), y1.reverse.filter (fun b => !Whatwg.isTabOrNewline b), ?_, ?_⟩
  · intro z hz
    exact hx1 z (List.mem_filter.mp hz).1
  · simp only [Whatwg.preprocess, e1]
    have : (x1 ++ c :: y).reverse = y.reverse ++ c :: x1.reverse := by simp
    rw [this, e2]
    simp [hct]

theorem alpha_facts (b : UInt8) (h : Whatwg.isAlpha b = true) :
    Whatwg.isC0OrSpace b = false ∧ Whatwg.isTabOrNewline b = false ∧ Whatwg.isSchemeChar b = true := by
  refine ⟨?_, ?_, by simp [Whatwg.isSchemeChar, h]⟩
  · simp only [Whatwg.isAlpha, Bool.or_eq_true, Bool.and_eq_true, decide_eq_true_eq, UInt8.le_iff_toNat_le] at h
    simp only [Whatwg.isC0OrSpace, decide_eq_false_iff_not, UInt8.le_iff_toNat_le]
    simp at h ⊢
    omega
  · simp only [Whatwg.isAlpha, Bool.or_eq_true, Bool.and_eq_true, decide_eq_true_eq, UInt8.le_iff_toNat_le] at h
    simp only [Whatwg.isTabOrNewline, Bool.or_eq_false_iff, beq_eq_false_iff_ne]
    simp at h
    refine ⟨⟨?_, ?_⟩, ?_⟩ <;> (intro e; subst e; simp at h)

theorem isBad_of_nonascii (b : UInt8) (h : 0x80 ≤ b) : isBad b = true := by
  simp only [UInt8.le_iff_toNat_le] at h
  simp at h
  simp only [isBad, Whatwg.isC0OrSpace, Whatwg.isSchemeChar, Whatwg.isAlpha, Bool.and_eq_true,
    Bool.not_eq_true', decide_eq_false_iff_not, Bool.or_eq_false_iff, Bool.and_eq_false_iff,
    bne_iff_ne, beq_eq_false_iff_ne, UInt8.le_iff_toNat_le, ne_eq, ← UInt8.toNat_inj]
  simp
  omega

/-- Preprocessing leaves a prefix of letters alone (when followed by ':'). -/
theorem preprocess_alpha (a : UInt8) (p rest : Bytes) (ha : Whatwg.isAlpha a = true)
    (hp : p.all Whatwg.isAlpha = true) :
    ∃ rest', Whatwg.preprocess (a :: p ++ 58 :: rest) = a :: p ++ 58 :: rest' := by
  have h58 : Whatwg.isC0OrSpace 58 = false := by decide
  have h58t : Whatwg.isTabOrNewline 58 = false := by decide
  obtain ⟨y1, _, e2⟩ := dropWhile_append_keep Whatwg.isC0OrSpace rest.reverse 58 (a :: p).reverse h58
  refine ⟨y1.reverse.filter (fun b => !Whatwg.isTabOrNewline b), ?_⟩
  have e1 : List.dropWhile Whatwg.isC0OrSpace (a :: p ++ 58 :: rest) = a :: p ++ 58 :: rest := by
    simp [(alpha_facts a ha).1]
  have e3 : (a :: p ++ 58 :: rest).reverse = rest.reverse ++ 58 :: (a :: p).reverse := by simp
  have e4 : p.filter (fun b => !Whatwg.isTabOrNewline b) = p := by
    rw [List.filter_eq_self]
    intro z hz
    simp [(alpha_facts z (List.all_eq_true.mp hp z hz)).2.1]
  have ha' := (alpha_facts a ha).2.1
  simp only [Whatwg.preprocess]
  rw [e1, e3, e2]
  simp [h58t, ha', e4]

theorem scheme_of_alpha (a : UInt8) (p rest : Bytes) (ha : Whatwg.isAlpha a = true)
    (hp : p.all Whatwg.isAlpha = true) :
    Whatwg.scheme (a :: p ++ 58 :: rest) = some ((a :: p).map Whatwg.lower) := by
  obtain ⟨rest', e⟩ := preprocess_alpha a p rest ha hp
  rw [Whatwg.scheme, e]
  simp only [List.cons_append, ha, if_true]
  rw [schemeState_good]
  · simp
  · exact List.all_eq_true.mpr fun z hz => (alpha_facts z (List.all_eq_true.mp hp z hz)).2.2

/-! ### `EqualFold` against a lower-case ASCII word -/

theorem equalFoldAux_letters (t : Bytes) (ht : t.all isLowerLetter = true) (fuel : Nat) (pre : Bytes)
    (h : equalFoldAux fuel pre t = true) :
    (∃ b ∈ pre, (0x80 : UInt8) ≤ b) ∨ (pre.all Whatwg.isAlpha = true ∧ pre.map Whatwg.lower = t) := by
  induction t generalizing fuel pre with
  | nil =>
    cases pre with
    | nil => right; simp
    | cons b pre => simp [equalFoldAux] at h
  | cons c t ih =>
    simp only [List.all_cons, Bool.and_eq_true] at ht
    cases pre with
    | nil => simp [equalFoldAux] at h
    | cons b pre =>
      cases fuel with
      | zero => simp [equalFoldAux] at h
      | succ fuel =>
        by_cases hb : b < 0x80
        · have hd : Utf8.decodeRune (b :: pre) = (b.toNat, 1) := by simp [Utf8.decodeRune, hb]
          simp only [equalFoldAux, hd, Bool.and_eq_true] at h
          have h2 : equalFoldAux fuel pre t = true := by simpa using h.2
          obtain ⟨f1, f2⟩ := runeFoldsTo_letter b c ht.1 h.1
          rcases ih ht.2 fuel pre h2 with ⟨z, hz, hz'⟩ | ⟨g1, g2⟩
          · exact Or.inl ⟨z, List.mem_cons_of_mem _ hz, hz'⟩
          · right; simp [f1, f2, g1, g2]
        · left
          exact ⟨b, by simp, UInt8.not_lt.mp hb⟩

theorem schemes_lower : ∀ t ∈ Generated.urlSchemes, t.all isLowerLetter = true ∧ t ≠ [] := by
  decide

theorem scheme_none_of_bad (x : Bytes) (b : UInt8) (y : Bytes) (hx : (58 : UInt8) ∉ x)
    (hb : isBad b = true) : Whatwg.scheme (x ++ b :: y) = none := by
  have hb' := hb
  simp only [isBad, Bool.and_eq_true, Bool.not_eq_true', bne_iff_ne] at hb'
  obtain ⟨x', y', hx', e⟩ := preprocess_split x b y hb'.1.1
  have hx'' : (58 : UInt8) ∉ x' := fun h => hx (hx' _ h)
  simp only [Whatwg.scheme, e]
  cases x' with
  | nil =>
    have : Whatwg.isAlpha b = false := by
      have := hb'.1.2
      simp only [Whatwg.isSchemeChar, Bool.or_eq_false_iff] at this
      exact this.1.1.1.1
    simp [this]
  | cons a x' =>
    simp only [List.mem_cons, not_or] at hx''
    simp only [List.cons_append]
    split
    · exact schemeState_bad _ _ _ _ hx''.2 hb
    · rfl

theorem scheme_none_of_no_colon (s : Bytes) (h : (58 : UInt8) ∉ s) : Whatwg.scheme s = none := by
  have h' : (58 : UInt8) ∉ Whatwg.preprocess s := fun hm => h (mem_preprocess hm)
  simp only [Whatwg.scheme]
  split
  · rfl
  · rename_i b rest e
    rw [e] at h'
    simp only [List.mem_cons, not_or] at h'
    split
    · exact schemeState_no_colon _ _ h'.2
    · rfl

/-! ### The two lemmas cited by Props/C04 -/

/-- If the sanitiser returns its input, a browser sees no scheme, an allowed one, or the input is the failure URL itself. -/
theorem sanitize_fixed (s : Bytes) (h : sanitize s = s) :
    Whatwg.scheme s = none ∨ (∃ a ∈ Whatwg.allowedSchemes, Whatwg.scheme s = some a) ∨ s = Whatwg.failedURL := by
  unfold sanitize at h
  split at h
  · rename_i hi
    exact Or.inl (scheme_none_of_no_colon s (indexOf_none hi))
  · rename_i i hi
    obtain ⟨rest, hs, hni⟩ := indexOf_some hi
    generalize s.take i = pre at hs hni h
    simp only at h
    split at h
    · rename_i h47
      left
      obtain ⟨x, y, e⟩ := List.append_of_mem (indexOf_isSome h47)
      have hx : (58 : UInt8) ∉ x := fun hm => hni (by rw [e]; simp [hm])
      have : s = x ++ 47 :: (y ++ 58 :: rest) := by rw [hs, e]; simp
      rw [this]
      exact scheme_none_of_bad x 47 _ hx (by decide)
    · split at h
      · rename_i _ hany
        obtain ⟨t, htm, hte⟩ := List.any_eq_true.mp hany
        obtain ⟨htl, htne⟩ := schemes_lower t htm
        rcases equalFoldAux_letters t htl _ pre hte with ⟨b, hb, hb80⟩ | ⟨g1, g2⟩
        · left
          obtain ⟨x, y, e⟩ := List.append_of_mem hb
          have hx : (58 : UInt8) ∉ x := fun hm => hni (by rw [e]; simp [hm])
          have : s = x ++ b :: (y ++ 58 :: rest) := by rw [hs, e]; simp
          rw [this]
          exact scheme_none_of_bad x b _ hx (isBad_of_nonascii b hb80)
        · right; left
          refine ⟨t, schemes_eq ▸ htm, ?_⟩
          cases pre with
          | nil => simp at g2; exact absurd g2 htne
          | cons a p =>
            simp only [List.all_cons, Bool.and_eq_true] at g1
            rw [hs, scheme_of_alpha a p rest g1.1 g1.2, g2]
      · right; right
        rw [← failedURL_eq]; exact h.symm

theorem sanitize_else (s : Bytes) (h : sanitize s ≠ s) : sanitize s = Whatwg.failedURL := by
  unfold sanitize at h ⊢
  split
  · rename_i hi; simp [hi] at h
  · rename_i i hi
    simp only [hi] at h
    simp only at h ⊢
    split
    · rename_i h1; simp [h1] at h
    · split
      · rename_i _ h2; simp [h2] at h
      · exact failedURL_eq

end TemplVerif.Proofs.Url
