import TemplVerif.Model.Sse
/- Helper lemmas for C19. -/
namespace TemplVerif.Proofs.Sse
open TemplVerif.Sse

/-- The repaired wiring: channel never closed by the handler, delivery selects on done. -/
def safeCfg : Cfg := ⟨false, true⟩

/-- Every (client, event) pair recorded at broadcast time is accounted for: the client has since been cancelled,
    or it received the event, or the delivery is still pending. -/
def Accounted (s : State) : Prop :=
  ∀ c e, (c, e) ∈ s.registeredAt →
    ∃ cl, findClient s c = some cl ∧ (cl.cancelled = true ∨ e ∈ cl.received ∨ (c, e) ∈ s.pending)

theorem step_no_panic_of (cfg : Cfg) (hcfg : cfg.closeOnExit = false) (s : State) (a : Action) :
    step cfg s a ≠ .panic := by
  intro hcontra
  cases a <;> simp only [step] at hcontra <;>
    (repeat' (split at hcontra)) <;> simp_all

theorem step_no_panic (s : State) (a : Action) : step safeCfg s a ≠ .panic :=
  step_no_panic_of safeCfg rfl s a

/-- Invariants of `step` lift to `run`. -/
theorem run_inv (P : State → Prop)
    (hstep : ∀ s a s', P s → step safeCfg s a = .ok s' → P s') :
    ∀ (sched : List Action) (s0 s : State), P s0 → run safeCfg s0 sched = some s → P s := by
  intro sched
  induction sched with
  | nil => intro s0 s h0 h; simp [run] at h; subst h; exact h0
  | cons a rest ih =>
    intro s0 s h0 h
    simp only [run] at h
    cases hst : step safeCfg s0 a with
    | ok s' => rw [hst] at h; exact ih s' s (hstep s0 a s' h0 hst) h
    | disabled => rw [hst] at h; exact ih s0 s h0 h
    | panic => rw [hst] at h; simp at h

theorem run_isSome (s : State) (sched : List Action) : (run safeCfg s sched).isSome = true := by
  induction sched generalizing s with
  | nil => simp [run]
  | cons a rest ih =>
    simp only [run]
    cases hst : step safeCfg s a with
    | ok s' => exact ih s'
    | disabled => exact ih s
    | panic => exact absurd hst (step_no_panic s a)

/-! ### findClient / updClient facts -/

theorem find_map_upd (l : List Client) (c c' : Nat) (f : Client → Client) (hf : ∀ cl, (f cl).id = cl.id) :
    (l.map fun cl => if cl.id == c then f cl else cl).find? (·.id == c')
      = (l.find? (·.id == c')).map (fun cl => if cl.id == c then f cl else cl) := by
  induction l with
  | nil => rfl
  | cons x xs ih =>
    simp only [List.map_cons, List.find?_cons]
    have hid : (if x.id == c then f x else x).id = x.id := by
      split
      · exact hf x
      · rfl
    rw [hid]
    cases hx : x.id == c' with
    | true => simp
    | false => simpa using ih

theorem findClient_updClient (s : State) (c c' : Nat) (f : Client → Client) (hf : ∀ cl, (f cl).id = cl.id) :
    findClient (updClient s c f) c' = (findClient s c').map (fun cl => if cl.id == c then f cl else cl) := by
  unfold findClient updClient
  exact find_map_upd s.clients c c' f hf

theorem findClient_id {s : State} {c : Nat} {cl : Client} (h : findClient s c = some cl) : cl.id = c := by
  unfold findClient at h
  have := List.find?_some h
  simpa using this

theorem findClient_append_some {s : State} {c : Nat} {cl : Client} (x : Client)
    (h : findClient s c = some cl) :
    findClient { s with clients := s.clients ++ [x] } c = some cl := by
  unfold findClient at h ⊢
  simp [List.find?_append, h]

theorem findClient_of_mem {s : State} {x : Client} (hx : x ∈ s.clients) :
    ∃ cl, findClient s x.id = some cl := by
  unfold findClient
  cases h : s.clients.find? (·.id == x.id) with
  | some cl => exact ⟨cl, rfl⟩
  | none =>
    rw [List.find?_eq_none] at h
    have := h x hx
    simp at this

/-! ### Accounted is an invariant -/

theorem accounted_init : Accounted {} := by
  intro c e h
  simp at h

theorem accounted_step (s : State) (a : Action) (s' : State)
    (h : Accounted s) (hs : step safeCfg s a = .ok s') : Accounted s' := by
  cases a with
  | subscribe c =>
    simp only [step] at hs
    split at hs
    · simp at hs
    · injection hs with hs
      subst hs
      intro c' e' hr
      obtain ⟨cl, hf, hd⟩ := h c' e' hr
      exact ⟨cl, findClient_append_some _ hf, hd⟩
  | broadcast =>
    simp only [step] at hs
    injection hs with hs
    subst hs
    intro c' e' hr
    simp only [List.mem_append] at hr
    rcases hr with hr | hr
    · obtain ⟨cl, hf, hd⟩ := h c' e' hr
      refine ⟨cl, hf, ?_⟩
      rcases hd with hd | hd | hd
      · exact Or.inl hd
      · exact Or.inr (Or.inl hd)
      · exact Or.inr (Or.inr (List.mem_append_left _ hd))
    · have hr' := hr
      simp only [List.mem_map, List.mem_filter] at hr
      obtain ⟨i, ⟨x, ⟨hx, _⟩, hxi⟩, hpair⟩ := hr
      have hc : x.id = c' := by
        rw [hxi]; exact (Prod.mk.inj hpair).1
      obtain ⟨cl, hcl⟩ := findClient_of_mem hx
      rw [hc] at hcl
      exact ⟨cl, hcl, Or.inr (Or.inr (List.mem_append_right _ hr'))⟩
  | deliver c e =>
    simp only [step] at hs
    split at hs
    · simp at hs
    · split at hs
      · simp at hs
      · rename_i cl0 hcl0
        split at hs
        · split at hs <;> simp at hs
        · split at hs
          · simp at hs
          · injection hs with hs
            subst hs
            intro c' e' hr
            obtain ⟨cl, hf, hd⟩ := h c' e' hr
            have hfu := findClient_updClient { s with pending := s.pending.erase (c, e) } c c'
              (fun cl => { cl with received := cl.received ++ [e] }) (fun _ => rfl)
            have hf' : findClient { s with pending := s.pending.erase (c, e) } c' = some cl := hf
            rw [hf'] at hfu
            refine ⟨_, hfu, ?_⟩
            have hid := findClient_id hf
            by_cases hcc : cl.id = c
            · simp only [hcc, beq_self_eq_true, if_true]
              rcases hd with hd | hd | hd
              · exact Or.inl hd
              · exact Or.inr (Or.inl (List.mem_append_left _ hd))
              · by_cases hee : e' = e
                · subst hee
                  exact Or.inr (Or.inl (by simp))
                · refine Or.inr (Or.inr ?_)
                  show (c', e') ∈ s.pending.erase (c, e)
                  exact (List.mem_erase_of_ne (by
                    intro hp; exact hee (Prod.mk.inj hp).2)).2 hd
            · have hne : (cl.id == c) = false := by simpa using hcc
              simp only [hne]
              rcases hd with hd | hd | hd
              · exact Or.inl hd
              · exact Or.inr (Or.inl hd)
              · refine Or.inr (Or.inr ?_)
                show (c', e') ∈ s.pending.erase (c, e)
                exact (List.mem_erase_of_ne (by
                  intro hp; exact hcc (hid.trans (Prod.mk.inj hp).1))).2 hd
  | drop c e =>
    simp only [step] at hs
    split at hs
    · simp at hs
    · split at hs
      · simp at hs
      · rename_i cl0 hcl0
        split at hs
        · rename_i hcan
          injection hs with hs
          subst hs
          intro c' e' hr
          obtain ⟨cl, hf, hd⟩ := h c' e' hr
          refine ⟨cl, hf, ?_⟩
          rcases hd with hd | hd | hd
          · exact Or.inl hd
          · exact Or.inr (Or.inl hd)
          · by_cases hp : (c', e') = (c, e)
            · have hc : c' = c := (Prod.mk.inj hp).1
              subst hc
              rw [hcl0] at hf
              injection hf with hf
              subst hf
              exact Or.inl hcan
            · exact Or.inr (Or.inr ((List.mem_erase_of_ne hp).2 hd))
        · simp at hs
  | cancel c =>
    simp only [step] at hs
    split at hs
    · simp at hs
    · split at hs
      · simp at hs
      · injection hs with hs
        subst hs
        intro c' e' hr
        obtain ⟨cl, hf, hd⟩ := h c' e' hr
        have hfu := findClient_updClient s c c'
          (fun cl => { cl with cancelled := true }) (fun _ => rfl)
        rw [hf] at hfu
        refine ⟨_, hfu, ?_⟩
        by_cases hcc : cl.id = c
        · simp only [hcc, beq_self_eq_true, if_true]
          exact Or.inl trivial
        · have hne : (cl.id == c) = false := by simpa using hcc
          simp only [hne]
          exact hd
  | exit c =>
    simp only [step] at hs
    split at hs
    · simp at hs
    · split at hs
      · simp at hs
      · injection hs with hs
        subst hs
        intro c' e' hr
        obtain ⟨cl, hf, hd⟩ := h c' e' hr
        have hfu := findClient_updClient s c c'
          (fun cl => { cl with exited := true, registered := false }) (fun _ => rfl)
        rw [hf] at hfu
        refine ⟨_, hfu, ?_⟩
        by_cases hcc : cl.id = c
        · simp only [hcc, beq_self_eq_true, if_true]
          exact hd
        · have hne : (cl.id == c) = false := by simpa using hcc
          simp only [hne]
          exact hd

theorem accounted_run (sched : List Action) (s : State) (h : run safeCfg {} sched = some s) : Accounted s :=
  run_inv Accounted accounted_step sched {} s accounted_init h

/-! ### exited → cancelled is an invariant -/

def ExitedCancelled (s : State) : Prop :=
  ∀ c cl, findClient s c = some cl → cl.exited = true → cl.cancelled = true

theorem exitedCancelled_init : ExitedCancelled {} := by
  intro c cl h
  simp [findClient] at h

theorem exitedCancelled_step (s : State) (a : Action) (s' : State)
    (h : ExitedCancelled s) (hs : step safeCfg s a = .ok s') : ExitedCancelled s' := by
  cases a with
  | subscribe c =>
    simp only [step] at hs
    split at hs
    · simp at hs
    · rename_i hnone
      injection hs with hs
      subst hs
      intro c' cl hf hx
      unfold findClient at hf
      simp only [List.find?_append] at hf
      cases hfind : s.clients.find? (·.id == c') with
      | some cl0 =>
        rw [hfind] at hf
        simp at hf
        subst hf
        exact h c' cl0 hfind hx
      | none =>
        rw [hfind] at hf
        simp only [Option.none_or, List.find?_cons] at hf
        split at hf
        · injection hf with hf
          subst hf
          simp at hx
        · simp at hf
  | broadcast =>
    simp only [step] at hs
    injection hs with hs
    subst hs
    exact h
  | deliver c e =>
    simp only [step] at hs
    split at hs
    · simp at hs
    · split at hs
      · simp at hs
      · split at hs
        · split at hs <;> simp at hs
        · split at hs
          · simp at hs
          · injection hs with hs
            subst hs
            intro c' cl hf hx
            have hfu := findClient_updClient { s with pending := s.pending.erase (c, e) } c c'
              (fun cl => { cl with received := cl.received ++ [e] }) (fun _ => rfl)
            rw [hf] at hfu
            cases hf0 : findClient { s with pending := s.pending.erase (c, e) } c' with
            | none => rw [hf0] at hfu; simp at hfu
            | some cl0 =>
              rw [hf0] at hfu
              simp only [Option.map_some, Option.some.injEq] at hfu
              have h0 := h c' cl0 hf0
              subst hfu
              split at hx <;> split <;> simp_all
  | drop c e =>
    simp only [step] at hs
    split at hs
    · simp at hs
    · split at hs
      · simp at hs
      · split at hs
        · injection hs with hs
          subst hs
          exact h
        · simp at hs
  | cancel c =>
    simp only [step] at hs
    split at hs
    · simp at hs
    · split at hs
      · simp at hs
      · injection hs with hs
        subst hs
        intro c' cl hf hx
        have hfu := findClient_updClient s c c'
          (fun cl => { cl with cancelled := true }) (fun _ => rfl)
        rw [hf] at hfu
        cases hf0 : findClient s c' with
        | none => rw [hf0] at hfu; simp at hfu
        | some cl0 =>
          rw [hf0] at hfu
          simp only [Option.map_some, Option.some.injEq] at hfu
          have h0 := h c' cl0 hf0
          subst hfu
          split at hx <;> split <;> simp_all
  | exit c =>
    simp only [step] at hs
    split at hs
    · simp at hs
    · rename_i clc hclc
      split at hs
      · simp at hs
      · rename_i hguard
        injection hs with hs
        subst hs
        intro c' cl hf hx
        have hfu := findClient_updClient s c c'
          (fun cl => { cl with exited := true, registered := false }) (fun _ => rfl)
        rw [hf] at hfu
        cases hf0 : findClient s c' with
        | none => rw [hf0] at hfu; simp at hfu
        | some cl0 =>
          rw [hf0] at hfu
          simp only [Option.map_some, Option.some.injEq] at hfu
          have h0 := h c' cl0 hf0
          have hid := findClient_id hf0
          subst hfu
          by_cases hcc : cl0.id = c
          · have : c' = c := hid.symm.trans hcc
            subst this
            rw [hclc] at hf0
            injection hf0 with hf0
            subst hf0
            simp only [hcc, beq_self_eq_true, if_true]
            simp at hguard
            exact hguard.1
          · have hne : (cl0.id == c) = false := by simpa using hcc
            simp only [hne] at hx ⊢
            exact h0 hx

/-- Pending deliveries of departed clients can always finish (their done branch is enabled). -/
theorem pending_of_exited_can_drop (sched : List Action) (s : State) (h : run safeCfg {} sched = some s)
    (c e : Nat) (hp : (c, e) ∈ s.pending) (cl : Client) (hc : findClient s c = some cl) (hx : cl.exited = true) :
    ∃ s', step safeCfg s (.drop c e) = .ok s' := by
  have hinv : ExitedCancelled s :=
    run_inv ExitedCancelled exitedCancelled_step sched {} s exitedCancelled_init h
  have hcan := hinv c cl hc hx
  refine ⟨{ s with pending := s.pending.erase (c, e) }, ?_⟩
  simp [step, safeCfg, hp, hc, hcan]

end TemplVerif.Proofs.Sse
