import TemplVerif.Model.Js
import TemplVerif.Spec.JsLex
import TemplVerif.Proofs.Html
/- Helper lemmas for C03 (Props/C03.lean only cites these). -/
namespace TemplVerif.Proofs.Js
open TemplVerif TemplVerif.Js TemplVerif.JsLex

/-! ### decodeRune facts -/
theorem decodeRune_ascii (b0 : UInt8) (t : Bytes) (h : b0 < 0x80) :
    Utf8.decodeRune (b0 :: t) = (b0.toNat, 1) := by
  simp [Utf8.decodeRune, h]

theorem decodeRune_chunk_high (b0 : UInt8) (t : Bytes) (h : ¬ b0 < 0x80) :
    ∀ b ∈ (b0 :: t).take (Utf8.decodeRune (b0 :: t)).2, ¬ b < 0x80 := by
  rcases t with _ | ⟨b1, _ | ⟨b2, _ | ⟨b3, t3⟩⟩⟩ <;> simp only [Utf8.decodeRune] <;> (repeat' split) <;>
    simp_all [Utf8.isCont, UInt8.le_iff_toNat_le, UInt8.lt_iff_toNat_lt] <;> omega

theorem range3_false (b0 b1 : UInt8) (h : ¬ Utf8.isCont b1 = true) :
    ¬ ((if b0 = 224 then 160 else 128) ≤ b1 ∧ b1 ≤ if b0 = 237 then 159 else 191) := by
  simp only [Utf8.isCont, Bool.and_eq_true, decide_eq_true_eq, UInt8.le_iff_toNat_le] at h ⊢
  split <;> split <;> simp <;> (try simp at h) <;> omega

theorem range4_false (b0 b1 : UInt8) (h : ¬ Utf8.isCont b1 = true) :
    ¬ ((if b0 = 240 then 144 else 128) ≤ b1 ∧ b1 ≤ if b0 = 244 then 143 else 191) := by
  simp only [Utf8.isCont, Bool.and_eq_true, decide_eq_true_eq, UInt8.le_iff_toNat_le] at h ⊢
  split <;> split <;> simp <;> (try simp at h) <;> omega

theorem decodeRune_takeWhile (b0 : UInt8) (t : Bytes) :
    Utf8.decodeRune (b0 :: t) = Utf8.decodeRune (b0 :: t.takeWhile Utf8.isCont) := by
  rcases t with _ | ⟨b1, _ | ⟨b2, _ | ⟨b3, t3⟩⟩⟩
  · rfl
  · by_cases h1 : Utf8.isCont b1 = true <;> simp [List.takeWhile, h1, Utf8.decodeRune]
  · by_cases h1 : Utf8.isCont b1 = true <;> by_cases h2 : Utf8.isCont b2 = true <;>
     simp [List.takeWhile, h1, h2, Utf8.decodeRune, range3_false b0 b1]
  · by_cases h1 : Utf8.isCont b1 = true <;> by_cases h2 : Utf8.isCont b2 = true <;>
     by_cases h3 : Utf8.isCont b3 = true <;>
     simp [List.takeWhile, h1, h2, h3, Utf8.decodeRune, range3_false b0 b1, range4_false b0 b1]

theorem dr2 (b0 b1 : UInt8) (t1 : Bytes) (c1 : ¬ b0 < 0x80) (c2 : ¬ b0 < 0xC2) (c3 : b0 < 0xE0) :
  Utf8.decodeRune (b0 :: b1 :: t1) =
        if Utf8.isCont b1 = true then ((b0.toNat - 0xC0) * 64 + (b1.toNat - 0x80), 2) else (Utf8.runeError, 1) := by
  simp only [Utf8.decodeRune, c1, c2, c3, if_true, if_false]

theorem dr3 (b0 b1 b2 : UInt8) (t2 : Bytes) (c1 : ¬ b0 < 0x80) (c2 : ¬ b0 < 0xC2) (c3 : ¬ b0 < 0xE0) (c4 : b0 < 0xF0) :
  Utf8.decodeRune (b0 :: b1 :: b2 :: t2) =
        if ((if b0 == 0xE0 then 0xA0 else 0x80) ≤ b1 && b1 ≤ (if b0 == 0xED then 0x9F else 0xBF) && Utf8.isCont b2) = true then
          ((b0.toNat - 0xE0) * 4096 + (b1.toNat - 0x80) * 64 + (b2.toNat - 0x80), 3)
        else (Utf8.runeError, 1) := by
  simp only [Utf8.decodeRune, c1, c2, c3, c4, if_true, if_false]

theorem dr4 (b0 b1 b2 b3 : UInt8) (t3 : Bytes) (c1 : ¬ b0 < 0x80) (c2 : ¬ b0 < 0xC2) (c3 : ¬ b0 < 0xE0) (c4 : ¬ b0 < 0xF0)
    (c5 : b0 < 0xF5) :
  Utf8.decodeRune (b0 :: b1 :: b2 :: b3 :: t3) =
        if ((if b0 == 0xF0 then 0x90 else 0x80) ≤ b1 && b1 ≤ (if b0 == 0xF4 then 0x8F else 0xBF) && Utf8.isCont b2 && Utf8.isCont b3) = true then
          ((b0.toNat - 0xF0) * 262144 + (b1.toNat - 0x80) * 4096 + (b2.toNat - 0x80) * 64 + (b3.toNat - 0x80), 4)
        else (Utf8.runeError, 1) := by
  simp only [Utf8.decodeRune, c1, c2, c3, c4, c5, if_true, if_false]

theorem decodeRune_take_valid (b0 : UInt8) (t X : Bytes) (r w : Nat)
    (h : Utf8.decodeRune (b0 :: t) = (r, w)) (hv : ¬ (r = Utf8.runeError ∧ w ≤ 1)) :
    Utf8.decodeRune ((b0 :: t).take w ++ X) = (r, w) := by
  have bad : ∀ {P : Prop}, (Utf8.runeError, 1) = (r, w) → P := by
    intro P e
    injection e with e1 e2
    exact absurd ⟨e1.symm, by omega⟩ hv
  by_cases c1 : b0 < 0x80
  · simp [Utf8.decodeRune, c1] at h
    obtain ⟨rfl, rfl⟩ := h
    simp [Utf8.decodeRune, c1]
  by_cases c2 : b0 < 0xC2
  · simp [Utf8.decodeRune, c1, c2] at h
    exact bad (by simp [h])
  by_cases c3 : b0 < 0xE0
  · rcases t with _ | ⟨b1, t1⟩
    · simp [Utf8.decodeRune, c1, c2, c3] at h
      exact bad (by simp [h])
    · rw [dr2 b0 b1 t1 c1 c2 c3] at h
      by_cases hc : Utf8.isCont b1 = true
      · rw [if_pos hc] at h
        obtain ⟨h1, h2⟩ := Prod.mk.inj h
        subst h2
        have e : List.take 2 (b0 :: b1 :: t1) ++ X = b0 :: b1 :: X := rfl
        rw [e, dr2 b0 b1 X c1 c2 c3, if_pos hc, h1]
      · rw [if_neg hc] at h; exact bad h
  by_cases c4 : b0 < 0xF0
  · rcases t with _ | ⟨b1, _ | ⟨b2, t2⟩⟩
    · simp [Utf8.decodeRune, c1, c2, c3, c4] at h
      exact bad (by simp [h])
    · simp [Utf8.decodeRune, c1, c2, c3, c4] at h
      exact bad (by simp [h])
    · rw [dr3 b0 b1 b2 t2 c1 c2 c3 c4] at h
      by_cases hc : ((if b0 == 0xE0 then 0xA0 else 0x80) ≤ b1 && b1 ≤ (if b0 == 0xED then 0x9F else 0xBF) && Utf8.isCont b2) = true
      · rw [if_pos hc] at h
        obtain ⟨h1, h2⟩ := Prod.mk.inj h
        subst h2
        have e : List.take 3 (b0 :: b1 :: b2 :: t2) ++ X = b0 :: b1 :: b2 :: X := rfl
        rw [e, dr3 b0 b1 b2 X c1 c2 c3 c4, if_pos hc, h1]
      · rw [if_neg hc] at h; exact bad h
  by_cases c5 : b0 < 0xF5
  · rcases t with _ | ⟨b1, _ | ⟨b2, _ | ⟨b3, t3⟩⟩⟩
    · simp [Utf8.decodeRune, c1, c2, c3, c4, c5] at h
      exact bad (by simp [h])
    · simp [Utf8.decodeRune, c1, c2, c3, c4, c5] at h
      exact bad (by simp [h])
    · simp [Utf8.decodeRune, c1, c2, c3, c4, c5] at h
      exact bad (by simp [h])
    · rw [dr4 b0 b1 b2 b3 t3 c1 c2 c3 c4 c5] at h
      by_cases hc : ((if b0 == 0xF0 then 0x90 else 0x80) ≤ b1 && b1 ≤ (if b0 == 0xF4 then 0x8F else 0xBF) && Utf8.isCont b2 && Utf8.isCont b3) = true
      · rw [if_pos hc] at h
        obtain ⟨h1, h2⟩ := Prod.mk.inj h
        subst h2
        have e : List.take 4 (b0 :: b1 :: b2 :: b3 :: t3) ++ X = b0 :: b1 :: b2 :: b3 :: X := rfl
        rw [e, dr4 b0 b1 b2 b3 X c1 c2 c3 c4 c5, if_pos hc, h1]
      · rw [if_neg hc] at h; exact bad h
  · simp [Utf8.decodeRune, c1, c2, c3, c4, c5] at h
    exact bad (by simp [h])

/-! ### escape sequences and the tables -/
theorem hex4_some (a b c d : UInt8) (X : Bytes) (v : Nat) (R : Bytes) (h : hex4 (a :: b :: c :: d :: X) = some (v, R)) :
    ∃ w x y z, hexVal a = some w ∧ hexVal b = some x ∧ hexVal c = some y ∧ hexVal d = some z ∧
      v = ((w * 16 + x) * 16 + y) * 16 + z ∧ R = X := by
  simp only [hex4] at h
  cases ha : hexVal a <;> simp [ha] at h
  cases hb : hexVal b <;> simp [hb] at h
  cases hc : hexVal c <;> simp [hc] at h
  cases hd : hexVal d <;> simp [hd] at h
  exact ⟨_, _, _, _, rfl, rfl, rfl, rfl, h.1.symm, h.2.symm⟩

theorem hexVal_ne (a : UInt8) (w : Nat) (h : hexVal a = some w) : a ≠ 123 ∧ a ≠ 60 ∧ a ≠ 62 ∧ a ≠ 38 := by
  refine ⟨?_, ?_, ?_, ?_⟩ <;> (intro e; subst e; simp [hexVal] at h)

theorem escape_u4 (a b c d : UInt8) (r : Nat) (h : hex4 [a, b, c, d] = some (r, [])) (X : Bytes) :
    escape (117 :: a :: b :: c :: d :: X) = some (some r, X) := by
  obtain ⟨w, x, y, z, ha, hb, hc, hd, hv, _⟩ := hex4_some a b c d [] r [] h
  have hne : a ≠ 123 := (hexVal_ne a w ha).1
  have h4 : hex4 (a :: b :: c :: d :: X) = some (r, X) := by
    simp [hex4, ha, hb, hc, hd, hv]
  simp only [escape, Utf8.decodeRune]
  simp
  split
  · rename_i heq; simp at heq; exact absurd heq.1 hne
  · simp [h4]

/-- Shape check for an escape sequence standing for rune `r`. -/
def escOK (r : Nat) : Bytes → Bool
  | [92, 117, a, b, c, d] => hex4 [a, b, c, d] == some (r, [])
  | [92, c] => (c == 116 && r == 9) || (c == 110 && r == 10) || (c == 102 && r == 12) || (c == 114 && r == 13)
      || (c == 92 && r == 92) || (c == 47 && r == 47) || (c == 34 && r == 34) || (c == 98 && r == 8)
  | _ => false

theorem escOK_sound (r : Nat) (rp : Bytes) (h : escOK r rp = true) :
    ∃ body, rp = 92 :: body ∧ (∀ X, escape (body ++ X) = some (some r, X)) ∧
      (60 : UInt8) ∉ rp ∧ (62 : UInt8) ∉ rp ∧ (38 : UInt8) ∉ rp := by
  unfold escOK at h
  split at h
  · rename_i a b c d
    simp only [beq_iff_eq] at h
    obtain ⟨w, x, y, z, ha, hb, hc, hd, _, _⟩ := hex4_some a b c d [] r [] h
    have na := hexVal_ne a w ha
    have nb := hexVal_ne b x hb
    have nc := hexVal_ne c y hc
    have nd := hexVal_ne d z hd
    refine ⟨[117, a, b, c, d], rfl, fun X => escape_u4 a b c d r h X, ?_, ?_, ?_⟩ <;>
      simp [Ne.symm na.2.1, Ne.symm na.2.2.1, Ne.symm na.2.2.2, Ne.symm nb.2.1, Ne.symm nb.2.2.1, Ne.symm nb.2.2.2,
        Ne.symm nc.2.1, Ne.symm nc.2.2.1, Ne.symm nc.2.2.2, Ne.symm nd.2.1, Ne.symm nd.2.2.1, Ne.symm nd.2.2.2]
  · rename_i c
    simp only [Bool.or_eq_true, Bool.and_eq_true, beq_iff_eq] at h
    rcases h with ((((((h | h) | h) | h) | h) | h) | h) | h <;> obtain ⟨rfl, rfl⟩ := h <;>
      exact ⟨_, rfl, fun X => by simp [escape, Utf8.decodeRune], by decide, by decide, by decide⟩
  · simp at h

def replCheck (r : Nat) : Bool :=
  match replRune r with
  | some rp => escOK r rp
  | none => r != 39 && r != 34 && r != 96 && r != 92 && r != 36 && r != 10 && r != 13 && r != 60

theorem replCheck_range : (List.range 128).all replCheck = true := by decide

theorem replCheck_low (r : Nat) (h : r < 128) : replCheck r = true :=
  List.all_eq_true.mp replCheck_range r (List.mem_range.mpr h)

theorem replCheck_all (r : Nat) : replCheck r = true := by
  by_cases h : r < 128
  · exact replCheck_low r h
  by_cases e1 : r = 0x2028
  · subst e1; decide
  by_cases e2 : r = 0x2029
  · subst e2; decide
  have l1 : Generated.lowUnicodeReplacementTable.length = 32 := rfl
  have l2 : Generated.jsStrReplacementTable.length = 97 := rfl
  have h1 : ¬ r < 32 := by omega
  have h2 : ¬ r < 97 := by omega
  have hn : replRune r = none := by
    unfold replRune
    rw [l1, l2]
    simp [h1, h2, e1, e2]
  simp only [replCheck, hn]
  simp
  omega

theorem replRune_some (r : Nat) (rp : Bytes) (h : replRune r = some rp) : escOK r rp = true := by
  have := replCheck_all r
  simpa [replCheck, h] using this

theorem replRune_none (r : Nat) (h : replRune r = none) :
    r ≠ 39 ∧ r ≠ 34 ∧ r ≠ 96 ∧ r ≠ 92 ∧ r ≠ 36 ∧ r ≠ 10 ∧ r ≠ 13 ∧ r ≠ 60 := by
  have := replCheck_all r
  simp [replCheck, h] at this
  omega

/-! ### one-step equations -/
theorem replaceAux_step (f : Nat) (b0 : UInt8) (t : Bytes) :
    replaceAux (f+1) (b0 :: t) =
      (match replRune (Utf8.decodeRune (b0::t)).1 with
        | some rp => rp
        | none => (b0::t).take (max (Utf8.decodeRune (b0::t)).2 1))
      ++ replaceAux f ((b0::t).drop (max (Utf8.decodeRune (b0::t)).2 1)) := rfl

theorem runesAux_step (f : Nat) (b0 : UInt8) (t : Bytes) :
    Utf8.runesAux (f+1) (b0 :: t) =
      (Utf8.decodeRune (b0::t)).1 :: Utf8.runesAux f ((b0::t).drop (max (Utf8.decodeRune (b0::t)).2 1)) := rfl

theorem replaceAux_nil (f : Nat) : replaceAux f [] = [] := by cases f <;> rfl
theorem runesAux_nil (f : Nat) : Utf8.runesAux f [] = [] := by cases f <;> rfl

theorem lexAux_quote (q : Quote) (f : Nat) (acc : List Nat) (rest : Bytes) :
    lexAux q (f+1) acc (q.byte :: rest) = .ok acc rest := by
  cases q <;> simp [lexAux, Utf8.decodeRune, Quote.byte]

theorem lexAux_bs (q : Quote) (f : Nat) (acc : List Nat) (Z : Bytes) (r : Nat) (Z' : Bytes)
    (he : escape Z = some (some r, Z')) (hl : Z'.length < Z.length + 1) :
    lexAux q (f+1) acc (92 :: Z) = lexAux q f (acc ++ [r]) Z' := by
  cases q <;> simp [lexAux, Utf8.decodeRune, Quote.byte, he, hl]

theorem lexAux_plain (q : Quote) (f : Nat) (acc : List Nat) (b0 : UInt8) (t : Bytes) (r w : Nat)
    (hd : Utf8.decodeRune (b0 :: t) = (r, w))
    (h1 : r ≠ 39) (h2 : r ≠ 34) (h3 : r ≠ 96) (h4 : r ≠ 92) (h5 : r ≠ 36) (h6 : r ≠ 10) (h7 : r ≠ 13) :
    lexAux q (f+1) acc (b0 :: t) = lexAux q f (acc ++ [r]) ((b0 :: t).drop (max w 1)) := by
  simp only [lexAux, hd]
  cases q <;> simp [Quote.byte, h1, h2, h3, h4, h5, h6, h7]

/-! ### function names -/
theorem isStart_isCont (b : UInt8) (h : isStart b = true) : isCont b = true := by
  simp [isCont, h]

theorem fnStep_bytes (st : Nat) (b : UInt8) (st' : Nat) (h : fnStep st b = some st') :
    isCont b = true ∨ b = 46 := by
  unfold fnStep at h
  split at h
  · split at h
    · exact Or.inl (isStart_isCont b ‹_›)
    · simp at h
  · split at h
    · exact Or.inl ‹_›
    · simp at h
  · split at h
    · exact Or.inl ‹_›
    · split at h
      · right; simpa using ‹(b == 46) = true›
      · simp at h
  · split at h
    · exact Or.inl (isStart_isCont b ‹_›)
    · simp at h

theorem fnRun_bytes (n : Bytes) : ∀ (st st' : Nat), fnRun st n = some st' →
    ∀ b ∈ n, isCont b = true ∨ b = 46 := by
  induction n with
  | nil => intro _ _ _ b hb; simp at hb
  | cons c rest ih =>
    intro st st' h b hb
    simp only [fnRun] at h
    cases hs : fnStep st c with
    | none => simp [hs] at h
    | some st1 =>
      simp only [hs, Option.bind_some] at h
      simp only [List.mem_cons] at hb
      rcases hb with hb | hb
      · subst hb; exact fnStep_bytes st b st1 hs
      · exact ih st1 st' h b hb

/-- A name accepted by the recogniser consists of `$ _ . A-Z a-z 0-9` only. -/
theorem validFunctionName_bytes (n : Bytes) (h : validFunctionName n = true) :
    ∀ b ∈ n, isCont b = true ∨ b = 46 := by
  unfold validFunctionName at h
  cases hr : fnRun 0 n with
  | none => simp [hr] at h
  | some st => exact fnRun_bytes n 0 st hr

/-! ### safeScript -/
theorem intercalate_no_quote (l : List Bytes) (h : ∀ x ∈ l, (34 : UInt8) ∉ x) :
    (34 : UInt8) ∉ intercalateComma l := by
  induction l with
  | nil => simp [intercalateComma]
  | cons x xs ih =>
    cases xs with
    | nil => simpa [intercalateComma] using h x (by simp)
    | cons y ys =>
      have h1 := h x (by simp)
      have h2 := ih (fun z hz => h z (by simp [hz]))
      simp only [intercalateComma, List.mem_append, not_or]
      exact ⟨⟨h1, by decide⟩, h2⟩

theorem escape_no_quote (s : Bytes) : (34 : UInt8) ∉ Html.escape s := by
  intro h
  have := Html.escape_noStructural s 34 h
  simp [Html.structural] at this

/-- The attribute form has no double quote and HTML-decodes to the inline form. -/
theorem safeScript_no_quote (fn : Bytes) (ps : List Param) : (34 : UInt8) ∉ safeScript fn ps := by
  unfold safeScript
  simp only [List.mem_append, not_or]
  refine ⟨⟨⟨escape_no_quote _, by decide⟩, ?_⟩, by decide⟩
  apply intercalate_no_quote
  intro x hx
  simp only [List.mem_map] at hx
  obtain ⟨p, _, rfl⟩ := hx
  exact escape_no_quote _

theorem decodeRefs_cons_ne (b : UInt8) (hb : b ≠ 38) (rest : Bytes) :
    Html.decodeRefs (b :: rest) = b :: Html.decodeRefs rest := by
  rw [Html.decodeRefs]
  all_goals (intros; simp_all)

theorem decode_intercalate (l : List Bytes) (R : Bytes) :
    Html.decodeRefs (intercalateComma (l.map Html.escape) ++ R) = intercalateComma l ++ Html.decodeRefs R := by
  induction l with
  | nil => simp [intercalateComma]
  | cons x xs ih =>
    cases xs with
    | nil => simp [intercalateComma, Html.decode_escape_append]
    | cons y ys =>
      simp only [List.map_cons, intercalateComma, List.append_assoc] at ih ⊢
      rw [Html.decode_escape_append]
      simp only [List.cons_append, List.nil_append]
      rw [decodeRefs_cons_ne 44 (by decide), ih]

theorem safeScript_decodes (fn : Bytes) (ps : List Param) :
    Html.decodeRefs (safeScript fn ps) = safeScriptInline fn ps := by
  unfold safeScript safeScriptInline
  simp only [List.append_assoc]
  rw [Html.decode_escape_append]
  simp only [List.cons_append, List.nil_append]
  rw [decodeRefs_cons_ne 40 (by decide)]
  have : (ps.map fun p => Html.escape (paramText p)) = (ps.map paramText).map Html.escape := by
    simp [List.map_map]
  rw [this, decode_intercalate, decodeRefs_cons_ne 41 (by decide)]
  simp [Html.decodeRefs]


theorem decodeRune_width (b0 : UInt8) (t : Bytes) :
    1 ≤ (Utf8.decodeRune (b0 :: t)).2 ∧ (Utf8.decodeRune (b0 :: t)).2 ≤ (b0 :: t).length := by
  rcases t with _ | ⟨b1, _ | ⟨b2, _ | ⟨b3, t3⟩⟩⟩ <;> simp only [Utf8.decodeRune] <;> (repeat' split) <;> simp

theorem decodeRune_cont (a : UInt8) (u : Bytes) (h : Utf8.isCont a = true) :
    Utf8.decodeRune (a :: u) = (Utf8.runeError, 1) := by
  simp [Utf8.isCont, UInt8.le_iff_toNat_le] at h
  have c1 : ¬ a < 0x80 := by simp [UInt8.lt_iff_toNat_lt]; omega
  have c2 : a < 0xC2 := by simp [UInt8.lt_iff_toNat_lt]; omega
  simp [Utf8.decodeRune, c1, c2]

theorem replRune_runeError : replRune Utf8.runeError = none := by decide

theorem quote_not_cont (q : Quote) : Utf8.isCont q.byte = false := by cases q <;> decide

theorem takeWhile_append_congr {α} (p : α → Bool) (a Z Z' : List α) (h : Z.takeWhile p = Z'.takeWhile p) :
    (a ++ Z).takeWhile p = (a ++ Z').takeWhile p := by
  induction a with
  | nil => simpa using h
  | cons x xs ih => simp only [List.cons_append, List.takeWhile_cons, ih]

/-- Leading continuation bytes are copied unchanged, and what follows them in the output is not a
    continuation byte. -/
theorem takeWhile_replaceAux (Y : Bytes) (hY : Y.takeWhile Utf8.isCont = []) (s : Bytes) :
    ∀ g, s.length ≤ g → (replaceAux g s ++ Y).takeWhile Utf8.isCont = s.takeWhile Utf8.isCont := by
  induction s with
  | nil => intro g _; simp [replaceAux_nil, hY]
  | cons a u ih =>
    intro g hg
    obtain ⟨g', rfl⟩ : ∃ g', g = g' + 1 := ⟨g - 1, by simp at hg; omega⟩
    rw [replaceAux_step]
    by_cases ha : Utf8.isCont a = true
    · rw [decodeRune_cont a u ha]
      simp only [replRune_runeError]
      have : max 1 1 = 1 := rfl
      simp only [this, List.take_succ_cons, List.take_zero, List.drop_succ_cons, List.drop_zero,
        List.cons_append, List.nil_append, List.takeWhile_cons, ha, if_true]
      rw [ih g' (by simpa using hg)]
    · simp only [List.takeWhile_cons, ha]
      have hw := decodeRune_width a u
      cases hr : replRune (Utf8.decodeRune (a :: u)).1 with
      | some rp =>
        obtain ⟨body, rfl, _⟩ := escOK_sound _ rp (replRune_some _ rp hr)
        simp [List.takeWhile_cons]
        decide
      | none =>
        have : max (Utf8.decodeRune (a :: u)).2 1 = (Utf8.decodeRune (a :: u)).2 - 1 + 1 := by omega
        simp only [this, List.take_succ_cons, List.cons_append, List.takeWhile_cons, ha]
        simp

/-! ### `replace`: re-lexing the output gives the runes of the input (any byte string) -/
theorem lex_replace_aux (q : Quote) (rest : Bytes) : ∀ n (s : Bytes), s.length ≤ n →
    ∀ f1 f2 f3 acc, s.length ≤ f1 → s.length ≤ f2 → (replaceAux f1 s ++ q.byte :: rest).length < f3 →
    lexAux q f3 acc (replaceAux f1 s ++ q.byte :: rest) = .ok (acc ++ Utf8.runesAux f2 s) rest := by
  intro n
  induction n with
  | zero =>
    intro s hs f1 f2 f3 acc _ _ h3
    have : s = [] := List.length_eq_zero_iff.mp (by omega)
    subst this
    obtain ⟨g3, rfl⟩ : ∃ g, f3 = g + 1 := ⟨f3 - 1, by omega⟩
    simp [replaceAux_nil, runesAux_nil, lexAux_quote]
  | succ m ih =>
    intro s hs f1 f2 f3 acc h1 h2 h3
    rcases s with _ | ⟨b0, t⟩
    · obtain ⟨g3, rfl⟩ : ∃ g, f3 = g + 1 := ⟨f3 - 1, by omega⟩
      simp [replaceAux_nil, runesAux_nil, lexAux_quote]
    · simp only [List.length_cons] at hs h1 h2
      obtain ⟨g1, rfl⟩ : ∃ g, f1 = g + 1 := ⟨f1 - 1, by omega⟩
      obtain ⟨g2, rfl⟩ : ∃ g, f2 = g + 1 := ⟨f2 - 1, by omega⟩
      obtain ⟨g3, rfl⟩ : ∃ g, f3 = g + 1 := ⟨f3 - 1, by omega⟩
      have hw := decodeRune_width b0 t
      rw [replaceAux_step] at h3 ⊢
      rw [runesAux_step]
      generalize hd : Utf8.decodeRune (b0 :: t) = d at *
      obtain ⟨r, w⟩ := d
      simp only [List.length_cons] at hw
      have hmax : max w 1 = w := by omega
      simp only [hmax] at h3 ⊢
      have hlen' : ((b0 :: t).drop w).length = t.length + 1 - w := by simp
      have hlen : ((b0 :: t).drop w).length ≤ m := by omega
      cases hr : replRune r with
      | some rp =>
        simp only [hr] at h3 ⊢
        obtain ⟨body, rfl, hesc, _⟩ := escOK_sound r rp (replRune_some r rp hr)
        simp only [List.cons_append, List.append_assoc, List.length_cons, List.length_append] at h3 ⊢
        rw [lexAux_bs q g3 acc _ r _ (hesc _) (by simp; omega)]
        rw [ih _ hlen g1 g2 g3 (acc ++ [r]) (by omega) (by omega) (by simp; omega)]
        simp
      | none =>
        simp only [hr] at h3 ⊢
        have htk : List.take w (b0 :: t) = b0 :: List.take (w - 1) t := by
          obtain ⟨k, rfl⟩ : ∃ k, w = k + 1 := ⟨w - 1, by omega⟩
          simp
        have hdr : List.drop w (b0 :: t) = List.drop (w - 1) t := by
          obtain ⟨k, rfl⟩ : ∃ k, w = k + 1 := ⟨w - 1, by omega⟩
          simp
        have hdec : Utf8.decodeRune (List.take w (b0 :: t) ++ replaceAux g1 (List.drop w (b0 :: t)) ++ q.byte :: rest)
            = (r, w) := by
          rw [htk, hdr, List.cons_append, List.cons_append, decodeRune_takeWhile, List.append_assoc,
            takeWhile_append_congr Utf8.isCont _ _ (List.drop (w - 1) t)
              (takeWhile_replaceAux (q.byte :: rest) (by simp [quote_not_cont]) _ g1
                (by rw [← hdr]; omega)),
            List.take_append_drop, ← decodeRune_takeWhile, hd]
        obtain ⟨n1, n2, n3, n4, n5, n6, n7, _⟩ := replRune_none r hr
        have hcons : List.take w (b0 :: t) ++ replaceAux g1 (List.drop w (b0 :: t)) ++ q.byte :: rest
            = b0 :: (List.take (w - 1) t ++ replaceAux g1 (List.drop w (b0 :: t)) ++ q.byte :: rest) := by
          rw [htk]; simp
        rw [hcons] at hdec
        have hl : (List.take w (b0 :: t)).length = w := by simp; omega
        rw [hcons, lexAux_plain q g3 acc b0 _ r w hdec n1 n2 n3 n4 n5 n6 n7, ← hcons, hmax,
          List.append_assoc, List.drop_left' hl]
        rw [ih _ hlen g1 g2 g3 (acc ++ [r]) (by omega) (by omega)
          (by simp only [List.length_append, List.length_cons, hl] at h3 ⊢; omega)]
        simp

/-- In each of the three literal kinds, the replaced text followed by the closing quote lexes as ONE literal
    whose value is the runes of the original string (invalid bytes as U+FFFD), leaving exactly `rest`. -/
theorem replace_inliteral (q : Quote) (s rest : Bytes) :
    lexString q (replace s ++ q.byte :: rest) = .ok (Utf8.runes s) rest := by
  unfold lexString replace Utf8.runes
  have := lex_replace_aux q rest s.length s (Nat.le_refl _) s.length s.length
    ((replaceAux s.length s ++ q.byte :: rest).length + 1) [] (Nat.le_refl _) (Nat.le_refl _) (Nat.lt_succ_self _)
  simpa using this

theorem replaceAux_no_lt : ∀ (f : Nat) (s : Bytes), (60 : UInt8) ∉ replaceAux f s := by
  intro f
  induction f with
  | zero => intro s; simp [replaceAux]
  | succ f ih =>
    intro s
    rcases s with _ | ⟨b0, t⟩
    · simp [replaceAux]
    · rw [replaceAux_step]
      simp only [List.mem_append, not_or]
      refine ⟨?_, ih _⟩
      cases hr : replRune (Utf8.decodeRune (b0 :: t)).1 with
      | some rp =>
        obtain ⟨body, _, _, h60, _⟩ := escOK_sound _ rp (replRune_some _ rp hr)
        exact h60
      | none =>
        have hw := decodeRune_width b0 t
        have hmax : max (Utf8.decodeRune (b0 :: t)).2 1 = (Utf8.decodeRune (b0 :: t)).2 := by omega
        simp only [hmax]
        by_cases c1 : b0 < 0x80
        · rw [decodeRune_ascii b0 t c1] at hr ⊢
          have := (replRune_none _ hr).2.2.2.2.2.2.2
          simp only [List.take_succ_cons, List.take_zero, List.mem_singleton]
          intro e; subst e; exact this rfl
        · intro hm
          exact decodeRune_chunk_high b0 t c1 60 hm (by decide)

/-- The replaced text contains no `<` (cannot end the script element or open an HTML comment). -/
theorem replace_no_lt (s : Bytes) : scriptDataSafe (replace s) = true := by
  simp [scriptDataSafe, replace, replaceAux_no_lt]

/-! ### encoding/json strings -/
theorem jsonBody_step (f : Nat) (b0 : UInt8) (t : Bytes) :
    jsonStringBodyAux (f+1) (b0 :: t) =
      jsonRune (Utf8.decodeRune (b0::t)).1 ((b0::t).take (max (Utf8.decodeRune (b0::t)).2 1))
        ((Utf8.decodeRune (b0::t)).1 == Utf8.runeError && decide ((Utf8.decodeRune (b0::t)).2 ≤ 1))
      ++ jsonStringBodyAux f ((b0::t).drop (max (Utf8.decodeRune (b0::t)).2 1)) := rfl

theorem jsonBody_nil (f : Nat) : jsonStringBodyAux f [] = [] := by cases f <;> rfl

def jsonLowCheck (r : Nat) : Bool :=
  !(r < 0x20 || r == 60 || r == 62 || r == 38) ||
    escOK r [92, 117, 48, 48, hexDigitLower (r / 16), hexDigitLower (r % 16)]

theorem jsonLowCheck_range : (List.range 64).all jsonLowCheck = true := by decide

theorem jsonRune_cases (r : Nat) (raw : Bytes) (invalid : Bool) (hi : invalid = true → r = Utf8.runeError) :
    escOK r (jsonRune r raw invalid) = true ∨
    (jsonRune r raw invalid = raw ∧ invalid = false ∧ 0x20 ≤ r ∧ r ≠ 34 ∧ r ≠ 92 ∧ r ≠ 60 ∧ r ≠ 62 ∧ r ≠ 38) := by
  unfold jsonRune
  split
  · left; rw [hi ‹_›]; decide
  split
  · left; rename_i e; simp at e; subst e; decide
  split
  · left; rename_i e; simp at e; subst e; decide
  split
  · left; rename_i e; simp at e; subst e; decide
  split
  · left; rename_i e; simp at e; subst e; decide
  split
  · left; rename_i e; simp at e; subst e; decide
  split
  · left; rename_i e; simp at e; subst e; decide
  split
  · left; rename_i e; simp at e; subst e; decide
  split
  · left
    rename_i e
    have hr : r < 64 := by simp at e; omega
    have := List.all_eq_true.mp jsonLowCheck_range r (List.mem_range.mpr hr)
    simp only [jsonLowCheck, Bool.or_eq_true, Bool.not_eq_true'] at this
    rcases this with h | h
    · rw [h] at e; simp at e
    · exact h
  split
  · left; rename_i e; simp at e; subst e; decide
  split
  · left; rename_i e; simp at e; subst e; decide
  · right
    rename_i e1 e2 e3 e4 e5 e6 e7 e8 e9 e10 e11
    simp at e1 e2 e3 e9
    refine ⟨rfl, by simpa using e1, by omega, e2, e3, by omega, by omega, by omega⟩

theorem lexAux_plain_double (f : Nat) (acc : List Nat) (b0 : UInt8) (t : Bytes) (r w : Nat)
    (hd : Utf8.decodeRune (b0 :: t) = (r, w))
    (h2 : r ≠ 34) (h4 : r ≠ 92) (h6 : r ≠ 10) (h7 : r ≠ 13) :
    lexAux .double (f+1) acc (b0 :: t) = lexAux .double f (acc ++ [r]) ((b0 :: t).drop (max w 1)) := by
  simp only [lexAux, hd]
  simp [Quote.byte, h2, h4, h6, h7]

theorem lex_json_aux (rest : Bytes) : ∀ n (s : Bytes), s.length ≤ n →
    ∀ f1 f2 f3 acc, s.length ≤ f1 → s.length ≤ f2 → (jsonStringBodyAux f1 s ++ 34 :: rest).length < f3 →
    lexAux .double f3 acc (jsonStringBodyAux f1 s ++ 34 :: rest) = .ok (acc ++ Utf8.runesAux f2 s) rest := by
  intro n
  induction n with
  | zero =>
    intro s hs f1 f2 f3 acc _ _ h3
    have : s = [] := List.length_eq_zero_iff.mp (by omega)
    subst this
    obtain ⟨g3, rfl⟩ : ∃ g, f3 = g + 1 := ⟨f3 - 1, by omega⟩
    simpa [jsonBody_nil, runesAux_nil, Quote.byte] using lexAux_quote .double g3 acc rest
  | succ m ih =>
    intro s hs f1 f2 f3 acc h1 h2 h3
    rcases s with _ | ⟨b0, t⟩
    · obtain ⟨g3, rfl⟩ : ∃ g, f3 = g + 1 := ⟨f3 - 1, by omega⟩
      simpa [jsonBody_nil, runesAux_nil, Quote.byte] using lexAux_quote .double g3 acc rest
    · simp only [List.length_cons] at hs h1 h2
      obtain ⟨g1, rfl⟩ : ∃ g, f1 = g + 1 := ⟨f1 - 1, by omega⟩
      obtain ⟨g2, rfl⟩ : ∃ g, f2 = g + 1 := ⟨f2 - 1, by omega⟩
      obtain ⟨g3, rfl⟩ : ∃ g, f3 = g + 1 := ⟨f3 - 1, by omega⟩
      have hw := decodeRune_width b0 t
      rw [jsonBody_step] at h3 ⊢
      rw [runesAux_step]
      generalize hd : Utf8.decodeRune (b0 :: t) = d at *
      obtain ⟨r, w⟩ := d
      simp only [List.length_cons] at hw
      have hmax : max w 1 = w := by omega
      simp only [hmax] at h3 ⊢
      have hlen' : ((b0 :: t).drop w).length = t.length + 1 - w := by simp
      have hlen : ((b0 :: t).drop w).length ≤ m := by omega
      rcases jsonRune_cases r ((b0 :: t).take w) (r == Utf8.runeError && decide (w ≤ 1))
          (by intro h; simp at h; exact h.1) with hA | ⟨hB, hinv, r20, n34, n92, _⟩
      · generalize jsonRune r ((b0 :: t).take w) (r == Utf8.runeError && decide (w ≤ 1)) = rp at *
        obtain ⟨body, rfl, hesc, _⟩ := escOK_sound r rp hA
        simp only [List.cons_append, List.append_assoc, List.length_cons, List.length_append] at h3 ⊢
        rw [lexAux_bs .double g3 acc _ r _ (hesc _) (by simp; omega)]
        rw [ih _ hlen g1 g2 g3 (acc ++ [r]) (by omega) (by omega) (by simp; omega)]
        simp
      · rw [hB] at h3 ⊢
        have hv : ¬ (r = Utf8.runeError ∧ w ≤ 1) := by
          intro ⟨e1, e2⟩; simp [e1, e2] at hinv
        have hdec := decodeRune_take_valid b0 t (jsonStringBodyAux g1 (List.drop w (b0 :: t)) ++ 34 :: rest) r w hd hv
        have htk : List.take w (b0 :: t) = b0 :: List.take (w - 1) t := by
          obtain ⟨k, rfl⟩ : ∃ k, w = k + 1 := ⟨w - 1, by omega⟩
          simp
        have hl : (List.take w (b0 :: t)).length = w := by simp; omega
        rw [List.append_assoc]
        rw [htk, List.cons_append] at hdec ⊢
        rw [lexAux_plain_double g3 acc b0 _ r w hdec n34 n92 (by omega) (by omega), ← List.cons_append, ← htk, hmax,
          List.drop_left' hl]
        rw [ih _ hlen g1 g2 g3 (acc ++ [r]) (by omega) (by omega)
          (by simp only [List.length_append, List.length_cons, hl] at h3 ⊢; omega)]
        simp

/-- encoding/json's string output is one double-quoted JS literal with the original value. -/
theorem jsonString_lex (s rest : Bytes) :
    lexString .double ((jsonString s).drop 1 ++ rest) = .ok (Utf8.runes s) rest := by
  unfold lexString jsonString Utf8.runes
  have e : List.drop 1 ([34] ++ jsonStringBodyAux s.length s ++ [34]) ++ rest
      = jsonStringBodyAux s.length s ++ 34 :: rest := by simp
  rw [e]
  have := lex_json_aux rest s.length s (Nat.le_refl _) s.length s.length
    ((jsonStringBodyAux s.length s ++ 34 :: rest).length + 1) [] (Nat.le_refl _) (Nat.le_refl _) (Nat.lt_succ_self _)
  simpa using this

/-- None of `< > &`. -/
def NoHtml (l : Bytes) : Prop := (60 : UInt8) ∉ l ∧ (62 : UInt8) ∉ l ∧ (38 : UInt8) ∉ l

theorem NoHtml.append {a b : Bytes} (ha : NoHtml a) (hb : NoHtml b) : NoHtml (a ++ b) := by
  simp only [NoHtml, List.mem_append, not_or] at *
  exact ⟨⟨ha.1, hb.1⟩, ⟨ha.2.1, hb.2.1⟩, ⟨ha.2.2, hb.2.2⟩⟩

theorem NoHtml.nil : NoHtml [] := by simp [NoHtml]

theorem jsonBody_noHtml : ∀ (f : Nat) (s : Bytes), NoHtml (jsonStringBodyAux f s) := by
  intro f
  induction f with
  | zero => intro s; simp [jsonStringBodyAux, NoHtml]
  | succ f ih =>
    intro s
    rcases s with _ | ⟨b0, t⟩
    · simp [jsonStringBodyAux, NoHtml]
    · rw [jsonBody_step]
      refine NoHtml.append ?_ (ih _)
      have hw := decodeRune_width b0 t
      have hmax : max (Utf8.decodeRune (b0 :: t)).2 1 = (Utf8.decodeRune (b0 :: t)).2 := by omega
      simp only [hmax]
      rcases jsonRune_cases (Utf8.decodeRune (b0 :: t)).1 ((b0 :: t).take (Utf8.decodeRune (b0 :: t)).2)
          ((Utf8.decodeRune (b0 :: t)).1 == Utf8.runeError && decide ((Utf8.decodeRune (b0 :: t)).2 ≤ 1))
          (by intro h; simp at h; exact h.1) with hA | ⟨hB, _, _, _, _, n60, n62, n38⟩
      · obtain ⟨_, _, _, h⟩ := escOK_sound _ _ hA
        exact h
      · rw [hB]
        by_cases c1 : b0 < 0x80
        · rw [decodeRune_ascii b0 t c1] at n60 n62 n38 ⊢
          simp only [List.take_succ_cons, List.take_zero, NoHtml, List.mem_singleton]
          refine ⟨?_, ?_, ?_⟩ <;> (intro e; subst e; simp at n60 n62 n38)
        · exact ⟨fun hm => decodeRune_chunk_high b0 t c1 60 hm (by decide),
            fun hm => decodeRune_chunk_high b0 t c1 62 hm (by decide),
            fun hm => decodeRune_chunk_high b0 t c1 38 hm (by decide)⟩

theorem jsonString_noHtml (s : Bytes) : NoHtml (jsonString s) := by
  unfold jsonString
  exact NoHtml.append (NoHtml.append (by simp [NoHtml]) (jsonBody_noHtml _ _)) (by simp [NoHtml])

theorem jsonString_safe (s : Bytes) :
    (60 : UInt8) ∉ jsonString s ∧ (62 : UInt8) ∉ jsonString s ∧ (38 : UInt8) ∉ jsonString s :=
  jsonString_noHtml s

theorem numText_noHtml (t : Bytes) (h : numTextSafe t = true) : NoHtml t := by
  simpa [numTextSafe, NoHtml, and_assoc] using h

mutual
  theorem jsonEncode_noHtml : ∀ (v : JVal), numbersSafe v = true → NoHtml (jsonEncode v)
    | .null, _ => by simp [jsonEncode, NoHtml]
    | .bool true, _ => by simp [jsonEncode, NoHtml]
    | .bool false, _ => by simp [jsonEncode, NoHtml]
    | .num t, h => by simpa [jsonEncode] using numText_noHtml t (by simpa [numbersSafe] using h)
    | .str s, _ => by simpa [jsonEncode] using jsonString_noHtml s
    | .arr xs, h => by
      rw [jsonEncode]
      exact NoHtml.append (NoHtml.append (by simp [NoHtml]) (jsonEncodeList_noHtml xs (by simpa [numbersSafe] using h)))
        (by simp [NoHtml])
    | .obj kvs, h => by
      rw [jsonEncode]
      exact NoHtml.append (NoHtml.append (by simp [NoHtml]) (jsonEncodeFields_noHtml kvs (by simpa [numbersSafe] using h)))
        (by simp [NoHtml])
  theorem jsonEncodeList_noHtml : ∀ (xs : List JVal), numbersSafeList xs = true → NoHtml (jsonEncodeList xs)
    | [], _ => by simp [jsonEncodeList, NoHtml]
    | [x], h => by
      rw [jsonEncodeList]
      exact jsonEncode_noHtml x (by simpa [numbersSafeList] using h)
    | x :: y :: ys, h => by
      have e : jsonEncodeList (x :: y :: ys) = jsonEncode x ++ [44] ++ jsonEncodeList (y :: ys) := by
        rw [jsonEncodeList]; simp
      rw [e]
      simp only [numbersSafeList, Bool.and_eq_true] at h
      exact NoHtml.append (NoHtml.append (jsonEncode_noHtml x h.1) (by simp [NoHtml]))
        (jsonEncodeList_noHtml (y :: ys) (by simp [numbersSafeList, h.2]))
  theorem jsonEncodeFields_noHtml : ∀ (kvs : List (Bytes × JVal)), numbersSafeFields kvs = true →
      NoHtml (jsonEncodeFields kvs)
    | [], _ => by simp [jsonEncodeFields, NoHtml]
    | [(k, v)], h => by
      rw [jsonEncodeFields]
      exact NoHtml.append (NoHtml.append (jsonString_noHtml k) (by simp [NoHtml]))
        (jsonEncode_noHtml v (by simpa [numbersSafeFields] using h))
    | (k, v) :: y :: ys, h => by
      have e : jsonEncodeFields ((k, v) :: y :: ys) =
          jsonString k ++ [58] ++ jsonEncode v ++ [44] ++ jsonEncodeFields (y :: ys) := by
        rw [jsonEncodeFields]; simp
      rw [e]
      simp only [numbersSafeFields, Bool.and_eq_true] at h
      exact NoHtml.append (NoHtml.append (NoHtml.append (NoHtml.append (jsonString_noHtml k) (by simp [NoHtml]))
        (jsonEncode_noHtml v h.1)) (by simp [NoHtml])) (jsonEncodeFields_noHtml (y :: ys) (by simp [numbersSafeFields, h.2]))
end

theorem jsonEncode_safe (v : JVal) (h : numbersSafe v = true) :
    (60 : UInt8) ∉ jsonEncode v ∧ (62 : UInt8) ∉ jsonEncode v ∧ (38 : UInt8) ∉ jsonEncode v :=
  jsonEncode_noHtml v h

end TemplVerif.Proofs.Js
