import TemplVerif.Model.Js
import TemplVerif.Spec.JsLex
import TemplVerif.Proofs.Html
/- Helper lemmas for C03 (Props/C03.lean only cites these). -/
namespace TemplVerif.Proofs.Js
open TemplVerif TemplVerif.Js TemplVerif.JsLex

/-- In each of the three literal kinds, the replaced text followed by the closing quote lexes as ONE literal
    whose value is the runes of the original string (invalid bytes as U+FFFD), leaving exactly `rest`. -/
theorem replace_inliteral (q : Quote) (s rest : Bytes) :
    lexString q (replace s ++ q.byte :: rest) = .ok (Utf8.runes s) rest := by
  sorry

/-- The replaced text contains no `<` (cannot end the script element or open an HTML comment). -/
theorem replace_no_lt (s : Bytes) : scriptDataSafe (replace s) = true := by
  sorry

/-- encoding/json's string output is one double-quoted JS literal with the original value. -/
theorem jsonString_lex (s rest : Bytes) :
    lexString .double ((jsonString s).drop 1 ++ rest) = .ok (Utf8.runes s) rest := by
  sorry

theorem jsonString_safe (s : Bytes) :
    (60 : UInt8) ∉ jsonString s ∧ (62 : UInt8) ∉ jsonString s ∧ (38 : UInt8) ∉ jsonString s := by
  sorry

theorem jsonEncode_safe (v : JVal) (h : numbersSafe v = true) :
    (60 : UInt8) ∉ jsonEncode v ∧ (62 : UInt8) ∉ jsonEncode v ∧ (38 : UInt8) ∉ jsonEncode v := by
  sorry

/-- The attribute form has no double quote and HTML-decodes to the inline form. -/
theorem safeScript_no_quote (fn : Bytes) (ps : List Param) : (34 : UInt8) ∉ safeScript fn ps := by
  sorry

theorem safeScript_decodes (fn : Bytes) (ps : List Param) :
    Html.decodeRefs (safeScript fn ps) = safeScriptInline fn ps := by
  sorry

/-- A name accepted by the recogniser consists of `$ _ . A-Z a-z 0-9` only. -/
theorem validFunctionName_bytes (n : Bytes) (h : validFunctionName n = true) :
    ∀ b ∈ n, isCont b = true ∨ b = 46 := by
  sorry

end TemplVerif.Proofs.Js
