import TemplVerif.Model.Frame
/- Helper lemmas for C18. -/
namespace TemplVerif.Proofs.Frame
open TemplVerif TemplVerif.Frame

theorem digit_toNat (n : Nat) : ((48 + n % 10).toUInt8).toNat = 48 + n % 10 := by
  have : n % 10 < 10 := Nat.mod_lt _ (by decide)
  simp [Nat.toUInt8]
  omega

theorem digit_range (n : Nat) : 48 ≤ (48 + n % 10).toUInt8 ∧ (48 + n % 10).toUInt8 ≤ 57 := by
  have : n % 10 < 10 := Nat.mod_lt _ (by decide)
  rw [UInt8.le_iff_toNat_le, UInt8.le_iff_toNat_le, digit_toNat]
  simp
  omega

def isDigit (b : UInt8) : Prop := 48 ≤ b ∧ b ≤ 57

theorem digitsAux_append (fuel n : Nat) (acc : Bytes) :
    digitsAux fuel n acc = digitsAux fuel n [] ++ acc := by
  induction fuel generalizing n acc with
  | zero => simp [digitsAux]
  | succ f ih =>
    simp only [digitsAux]
    split
    · simp
    · rw [ih, ih (n / 10) [_]]; simp

theorem digitsAux_digits (fuel n : Nat) (acc : Bytes) (h : ∀ b ∈ acc, isDigit b) :
    ∀ b ∈ digitsAux fuel n acc, isDigit b := by
  induction fuel generalizing n acc with
  | zero => simpa [digitsAux] using h
  | succ f ih =>
    have h' : ∀ b ∈ (48 + n % 10).toUInt8 :: acc, isDigit b := by
      intro b hb
      rcases List.mem_cons.1 hb with rfl | hb
      · exact digit_range n
      · exact h b hb
    simp only [digitsAux]
    split
    · exact h'
    · exact ih _ _ h'

theorem digitsAux_ne_nil (fuel n : Nat) (acc : Bytes) : digitsAux (fuel + 1) n acc ≠ [] := by
  rw [digitsAux_append]
  simp only [digitsAux]
  split
  · simp
  · rw [digitsAux_append]; simp

def pstep (acc : Nat) (b : UInt8) : Option Nat :=
  if 48 ≤ b && b ≤ 57 then some (acc * 10 + (b.toNat - 48)) else none

theorem pstep_digit (a : Nat) (d : UInt8) (h : isDigit d) : pstep a d = some (a * 10 + (d.toNat - 48)) := by
  unfold pstep; rw [if_pos]; simp only [Bool.and_eq_true, decide_eq_true_eq]; exact h

theorem fold_digitsAux (fuel n : Nat) (hf : n < fuel) :
    ∃ k, ∀ a, (digitsAux fuel n []).foldlM pstep a = some (a * 10 ^ k + n) := by
  induction fuel generalizing n with
  | zero => omega
  | succ f ih =>
    have hd : isDigit _ := digit_range n
    have hn := digit_toNat n
    simp only [digitsAux]
    split
    · rename_i h0
      refine ⟨1, fun a => ?_⟩
      simp only [List.foldlM_cons, List.foldlM_nil, pstep_digit _ _ hd, hn]
      simp only [Option.bind_eq_bind, Option.bind_some, pure, Nat.pow_one]
      congr 1
      omega
    · rename_i h0
      obtain ⟨k, hk⟩ := ih (n / 10) (by omega)
      refine ⟨k + 1, fun a => ?_⟩
      rw [digitsAux_append, List.foldlM_append, hk]
      simp only [List.foldlM_cons, List.foldlM_nil, pstep_digit _ _ hd, hn]
      simp only [Option.bind_eq_bind, Option.bind_some, pure, Nat.pow_succ]
      congr 1
      have := Nat.div_add_mod n 10
      rw [Nat.add_mul, Nat.mul_assoc]
      omega

theorem decimal_ne_nil (n : Nat) : decimal n ≠ [] := digitsAux_ne_nil _ _ _
theorem decimal_digits (n : Nat) : ∀ b ∈ decimal n, isDigit b :=
  digitsAux_digits _ _ _ (by simp)

theorem parseDigits_decimal (n : Nat) : parseDigits (decimal n) = some n := by
  obtain ⟨k, hk⟩ := fold_digitsAux (n + 1) n (by omega)
  have hne := decimal_ne_nil n
  have := hk 0
  unfold decimal at hne ⊢
  cases hd : digitsAux (n + 1) n [] with
  | nil => exact absurd hd hne
  | cons b t =>
    rw [hd] at this
    simp only [Nat.zero_mul, Nat.zero_add] at this
    exact this

theorem isDigit_toNat {b : UInt8} (h : isDigit b) : 48 ≤ b.toNat ∧ b.toNat ≤ 57 := by
  have h1 := UInt8.le_iff_toNat_le.1 h.1
  have h2 := UInt8.le_iff_toNat_le.1 h.2
  simpa using And.intro h1 h2

theorem parseInt32_decimal (n : Nat) (h : n ≤ 2147483647) : parseInt32 (decimal n) = some (n : Int) := by
  have hp := parseDigits_decimal n
  have hne := decimal_ne_nil n
  have hdig := decimal_digits n
  cases hd : decimal n with
  | nil => exact absurd hd hne
  | cons b t =>
    rw [hd] at hp hdig
    have hb := isDigit_toNat (hdig b (by simp))
    have h45 : b ≠ 45 := by rintro rfl; simp at hb
    have h43 : b ≠ 43 := by rintro rfl; simp at hb
    unfold parseInt32
    split
    · rename_i heq; simp at heq; exact absurd heq.1 h45
    · rename_i heq; simp at heq; exact absurd heq.1 h43
    · rw [hp]; simp [h]

theorem readLine_append (l r : Bytes) (h : ∀ b ∈ l, b ≠ 10) : readLine (l ++ 10 :: r) = some (l ++ [10], r) := by
  induction l with
  | nil => simp [readLine]
  | cons b t ih =>
    have hb : b ≠ 10 := h b (by simp)
    have := ih (fun x hx => h x (by simp [hx]))
    simp [readLine, hb, this]

def isWs (b : UInt8) : Bool := b == 32 || (9 ≤ b && b ≤ 13)

theorem trimRightAscii_append (xs ws : Bytes) (hne : xs ≠ []) (hl : isWs (xs.getLast hne) = false)
    (hw : ∀ b ∈ ws, isWs b = true) : trimRightAscii (xs ++ ws) = xs := by
  unfold trimRightAscii
  change ((xs ++ ws).reverse.dropWhile isWs).reverse = xs
  rw [List.reverse_append, List.dropWhile_append_of_pos (by simpa using hw)]
  conv => lhs; rw [← List.dropLast_concat_getLast hne]
  rw [List.reverse_append, List.reverse_singleton, List.singleton_append, List.dropWhile_cons_of_neg (by simp [hl])]
  simp [List.dropLast_concat_getLast]

theorem trimLeftAux_nonspace (fuel : Nat) (b : UInt8) (t : Bytes) (h1 : b < 0x80) (h2 : isSpaceRune b.toNat = false) :
    trimLeftAux fuel (b :: t) = b :: t := by
  cases fuel with
  | zero => rfl
  | succ f => simp [trimLeftAux, Utf8.decodeRune, h1, h2]

theorem isDigit_nonspace {b : UInt8} (h : isDigit b) : b < 0x80 ∧ isSpaceRune b.toNat = false ∧ isWs b = false ∧ b ≠ 10 := by
  have hb := isDigit_toNat h
  refine ⟨?_, ?_, ?_, ?_⟩
  · rw [UInt8.lt_iff_toNat_lt]; simp; omega
  · simp [isSpaceRune]; omega
  · simp [isWs, UInt8.le_iff_toNat_le, ← UInt8.toNat_inj]; omega
  · rintro rfl; simp at hb

theorem trimSpace_digits (D : Bytes) (hne : D ≠ []) (hd : ∀ b ∈ D, isDigit b) (pre : Bytes)
    (b0 : UInt8) (h1 : b0 < 0x80) (h2 : isSpaceRune b0.toNat = false) (ws : Bytes) (hw : ∀ b ∈ ws, isWs b = true) :
    trimSpace (b0 :: pre ++ D ++ ws) = b0 :: pre ++ D := by
  unfold trimSpace
  rw [List.cons_append, List.cons_append, trimLeftAux_nonspace _ _ _ h1 h2]
  have hne' : b0 :: pre ++ D ≠ [] := by simp
  have : (b0 :: pre ++ D).getLast hne' = D.getLast hne := by
    rw [List.getLast_append_of_ne_nil]
  rw [← List.cons_append, ← List.cons_append]
  apply trimRightAscii_append _ _ hne'
  · rw [this]; exact (isDigit_nonspace (hd _ (List.getLast_mem hne))).2.2.1
  · exact hw

theorem trimSpace_sp_digits (D : Bytes) (hne : D ≠ []) (hd : ∀ b ∈ D, isDigit b) :
    trimSpace (32 :: D) = D := by
  unfold trimSpace
  have h1 : trimLeftAux (32 :: D).length (32 :: D) = trimLeftAux D.length D := by
    simp [trimLeftAux, Utf8.decodeRune, isSpaceRune]
  rw [h1]
  cases hD : D with
  | nil => exact absurd hD hne
  | cons b t =>
    have hb := isDigit_nonspace (hd b (by simp [hD]))
    rw [trimLeftAux_nonspace _ _ _ hb.1 hb.2.1, ← hD]
    have := trimRightAscii_append D [] hne (isDigit_nonspace (hd _ (List.getLast_mem hne))).2.2.1 (by simp)
    simpa using this

theorem trimSpace_crlf : trimSpace [13, 10] = [] := by decide

theorem readHeaders_encode (f n : Nat) (h0 : 0 < n) (h1 : n ≤ 2147483647) (tail : Bytes) :
    readHeaders (f + 2) 0 (hdrContentLength ++ [58, 32] ++ decimal n ++ crlfcrlf ++ tail) = .ok (n, tail) := by
  have hne := decimal_ne_nil n
  have hdig := decimal_digits n
  have hline : readLine (hdrContentLength ++ [58, 32] ++ decimal n ++ crlfcrlf ++ tail)
      = some (hdrContentLength ++ [58, 32] ++ decimal n ++ [13, 10], [13, 10] ++ tail) := by
    have := readLine_append (hdrContentLength ++ [58, 32] ++ decimal n ++ [13]) ([13, 10] ++ tail) (by
      intro b hb
      simp only [List.mem_append] at hb
      rcases hb with ((hb | hb) | hb) | hb
      · revert b; decide
      · revert b; decide
      · exact (isDigit_nonspace (hdig b hb)).2.2.2
      · revert b; decide)
    simpa [crlfcrlf] using this
  have htrim : trimSpace (hdrContentLength ++ [58, 32] ++ decimal n ++ [13, 10])
      = hdrContentLength ++ [58, 32] ++ decimal n := by
    have := trimSpace_digits (decimal n) hne hdig [111, 110, 116, 101, 110, 116, 45, 76, 101, 110, 103, 116, 104, 58, 32]
      67 (by decide) (by decide) [13, 10] (by decide)
    simpa [hdrContentLength] using this
  have hline2 : readLine ([13, 10] ++ tail) = some ([13, 10], tail) := by
    simp [readLine]
  rw [readHeaders, hline]
  simp only [htrim]
  have hidx : indexOfColon (hdrContentLength ++ [58, 32] ++ decimal n) = some 14 := by
    simp [hdrContentLength, indexOfColon]
  have htake : (hdrContentLength ++ [58, 32] ++ decimal n).take 14 = hdrContentLength := by
    simp [hdrContentLength]
  have hdrop : (hdrContentLength ++ [58, 32] ++ decimal n).drop (14 + 1) = 32 :: decimal n := by
    simp [hdrContentLength]
  have hemp : (hdrContentLength ++ [58, 32] ++ decimal n).isEmpty = false := by
    simp [hdrContentLength]
  rw [hemp]
  simp only [hidx, htake, hdrop, trimSpace_sp_digits _ hne hdig, parseInt32_decimal n h1]
  have : ¬ ((n : Int) ≤ 0) := by omega
  simp only [beq_self_eq_true, if_true, this, if_false, Int.toNat_natCast, Bool.false_eq_true]
  rw [readHeaders, hline2]
  simp [trimSpace_crlf]

/-- One frame round-trips, whatever follows it. -/
theorem readFrame_encode (body rest : Bytes) (h0 : 0 < body.length) (h1 : body.length < 2147483648) :
    readFrame (encode body ++ rest) = .ok (body, rest) := by
  have hlen : ∃ f, (encode body ++ rest).length + 1 = f + 2 := by
    refine ⟨(encode body ++ rest).length - 1, ?_⟩
    simp [encode, hdrContentLength]
  obtain ⟨f, hf⟩ := hlen
  unfold readFrame
  rw [hf]
  have : encode body ++ rest = hdrContentLength ++ [58, 32] ++ decimal body.length ++ crlfcrlf ++ (body ++ rest) := by
    simp [encode]
  rw [this, readHeaders_encode f body.length h0 (by omega)]
  have hb : (body.length == 0) = false := by
    cases hbl : body.length with
    | zero => omega
    | succ k => rfl
  simp [hb]

theorem encode_length_pos (body : Bytes) : 0 < (encode body).length := by
  simp [encode, hdrContentLength]

theorem readAllAux_ne_nil (f : Nat) (s : Bytes) (h : s ≠ []) :
    readAllAux (f + 1) s = match readFrame s with
      | .error e => ([], some e)
      | .ok (body, rest) =>
        if rest.length < s.length then
          let (bs, e) := readAllAux f rest
          (body :: bs, e)
        else ([body], none) := by
  cases s with
  | nil => exact absurd rfl h
  | cons b t => rfl

theorem readAllAux_encode (bodies : List Bytes) (h : ∀ b ∈ bodies, 0 < b.length ∧ b.length < 2147483648) :
    ∀ fuel, (bodies.flatMap encode).length < fuel → readAllAux fuel (bodies.flatMap encode) = (bodies, none) := by
  induction bodies with
  | nil => intro fuel _; cases fuel <;> simp [readAllAux]
  | cons b bs ih =>
    intro fuel hf
    have hb := h b (by simp)
    have hpos := encode_length_pos b
    cases fuel with
    | zero => omega
    | succ f =>
      rw [List.flatMap_cons] at hf ⊢
      have hlt : (List.flatMap encode bs).length < (encode b ++ List.flatMap encode bs).length := by
        rw [List.length_append]; omega
      rw [readAllAux_ne_nil _ _ (by intro h; rw [h] at hlt; simp at hlt)]
      rw [readFrame_encode b _ hb.1 hb.2]
      simp only
      rw [if_pos hlt, ih (fun x hx => h x (by simp [hx])) f (by rw [List.length_append] at hf; omega)]

/-- Any sequence of frames reads back as the same sequence of bodies, then clean end of input. -/
theorem readAll_encode (bodies : List Bytes) (h : ∀ b ∈ bodies, 0 < b.length ∧ b.length < 2147483648) :
    readAll (bodies.flatMap encode) = (bodies, none) :=
  readAllAux_encode bodies h _ (by omega)

end TemplVerif.Proofs.Frame

namespace TemplVerif.Proofs.Rpc
open TemplVerif.Rpc

def recvId : Action → Option Nat
  | .recv r => some r.id
  | _ => none

def Claim (c : Nat × Nat × Result) : Prop :=
  c.2.2 = .cancelled ∨ ∃ r, c.2.2 = .response r ∧ r.id = c.2.1

structure Inv (s : State) : Prop where
  slot : ∀ p ∈ s.pending, ∀ r, p.slot = some r → r.id = p.id
  claim : ∀ c ∈ s.completed, Claim c
  nodup : (s.completed.map (fun c => c.2.1) ++ s.pending.map (·.id)).Nodup
  le : ∀ id ∈ s.completed.map (fun c => c.2.1) ++ s.pending.map (·.id), id ≤ s.seq
  threads : (s.pending.map (·.thread)).Nodup
  count : s.pending.length + s.completed.length = s.seq

theorem inv_init : Inv {} := by
  constructor <;> simp

/-- Decomposition of pending around the entry of thread `t`. -/
theorem split_thread (l : List Pending) (t : Nat) (p : Pending) (hn : (l.map (·.thread)).Nodup)
    (hf : l.find? (·.thread == t) = some p) :
    p.thread = t ∧ ∃ l1 l2, l = l1 ++ p :: l2 ∧ l.filter (·.thread != t) = l1 ++ l2 := by
  rw [List.find?_eq_some_iff_append] at hf
  obtain ⟨hp, l1, l2, rfl, h1⟩ := hf
  have hp' : p.thread = t := by simpa using hp
  refine ⟨hp', l1, l2, rfl, ?_⟩
  simp only [List.map_append, List.map_cons, List.nodup_append, List.nodup_cons, List.mem_map,
    List.mem_cons] at hn
  have f1 : l1.filter (·.thread != t) = l1 := by
    rw [List.filter_eq_self]; intro a ha; simpa using h1 a ha
  have f2 : l2.filter (·.thread != t) = l2 := by
    rw [List.filter_eq_self]; intro a ha
    have := hn.2.1.1
    simp only [bne_iff_ne, ne_eq]
    intro h
    exact this ⟨a, ha, by rw [h, hp']⟩
  rw [List.filter_append, List.filter_cons, f1, f2]
  simp [hp']

theorem inv_finish (s : State) (t : Nat) (p : Pending) (res : Result) (hi : Inv s)
    (hf : s.pending.find? (·.thread == t) = some p)
    (hc : Claim (t, p.id, res)) :
    Inv { s with pending := s.pending.filter (·.thread != t), completed := s.completed ++ [(t, p.id, res)] } := by
  obtain ⟨hpt, l1, l2, hl, hfl⟩ := split_thread _ t p hi.threads hf
  obtain ⟨h1, h2, h3, h4, h5, h6⟩ := hi
  constructor <;> simp only [hfl]
  · intro q hq; apply h1; rw [hl]; simp at hq ⊢; rcases hq with h | h <;> simp [h]
  · intro c hc'; simp at hc'; rcases hc' with hc' | rfl
    · exact h2 c hc'
    · exact hc
  · rw [hl] at h3
    simp only [List.map_append, List.map_cons, List.map_nil] at h3 ⊢
    have : (List.map (fun c => c.2.1) s.completed ++ [p.id] ++ (List.map (·.id) l1 ++ List.map (·.id) l2)).Perm
      (List.map (fun c => c.2.1) s.completed ++ (List.map (·.id) l1 ++ p.id :: List.map (·.id) l2)) := by
      simp only [List.append_assoc]
      apply List.Perm.append_left
      simp
      exact List.perm_middle.symm
    exact this.nodup_iff.2 h3
  · rw [hl] at h4
    intro id hid; apply h4
    simp at hid ⊢; grind
  · rw [hl] at h5; simp only [List.map_append, List.map_cons] at h5 ⊢
    exact h5.sublist (by simp)
  · rw [hl] at h6; simp at h6 ⊢; omega

theorem map_id_eq (l : List Pending) (f : Pending → Pending) (h : ∀ q, (f q).id = q.id) :
    (l.map f).map (·.id) = l.map (·.id) := by
  rw [List.map_map]; apply List.map_congr_left; intro a _; exact h a

theorem map_thread_eq (l : List Pending) (f : Pending → Pending) (h : ∀ q, (f q).thread = q.thread) :
    (l.map f).map (·.thread) = l.map (·.thread) := by
  rw [List.map_map]; apply List.map_congr_left; intro a _; exact h a

theorem inv_step (s s' : State) (a : Action) (hi : Inv s) (hs : step s a = .ok s') : Inv s' := by
  cases a with
  | call t =>
    simp only [step] at hs
    split at hs
    · cases hs
    · rename_i hany
      cases hs
      obtain ⟨h1, h2, h3, h4, h5, h6⟩ := hi
      constructor <;> simp only
      · intro q hq r hr
        simp at hq; rcases hq with hq | rfl
        · exact h1 q hq r hr
        · simp at hr
      · exact h2
      · rw [List.map_append, ← List.append_assoc]
        rw [List.nodup_append]
        refine ⟨h3, by simp, ?_⟩
        intro a ha b hb
        simp at hb; subst hb
        have := h4 a ha; omega
      · intro id hid
        rw [List.map_append, ← List.append_assoc, List.mem_append] at hid
        rcases hid with hid | hid
        · have := h4 id hid; omega
        · simp at hid; omega
      · rw [List.map_append, List.nodup_append]
        refine ⟨h5, by simp, ?_⟩
        intro a ha b hb
        simp at hb; subst hb
        simp at hany ha
        obtain ⟨q, hq, rfl⟩ := ha
        exact hany q hq
      · simp; omega
  | recv r =>
    simp only [step] at hs
    split at hs
    · cases hs; exact hi
    · split at hs
      · cases hs; exact hi
      · cases hs
        obtain ⟨h1, h2, h3, h4, h5, h6⟩ := hi
        have hid := map_id_eq s.pending (fun q => if q.id == r.id then { q with slot := some r } else q)
          (by intro q; split <;> rfl)
        have hth := map_thread_eq s.pending (fun q => if q.id == r.id then { q with slot := some r } else q)
          (by intro q; split <;> rfl)
        constructor <;> simp only [hid, hth, List.length_map]
        · intro q hq r' hr'
          rw [List.mem_map] at hq
          obtain ⟨q0, hq0, rfl⟩ := hq
          split at hr'
          · rename_i hqr; simp at hr' hqr ⊢; subst hr'; split <;> simp_all
          · rename_i hqr; rw [if_neg hqr]; exact h1 q0 hq0 r' hr'
        all_goals assumption
  | cancel t =>
    simp only [step] at hs
    split at hs
    · cases hs
      obtain ⟨h1, h2, h3, h4, h5, h6⟩ := hi
      have hid := map_id_eq s.pending (fun q => if q.thread == t then { q with ctxDone := true } else q)
        (by intro q; split <;> rfl)
      have hth := map_thread_eq s.pending (fun q => if q.thread == t then { q with ctxDone := true } else q)
        (by intro q; split <;> rfl)
      constructor <;> simp only [hid, hth, List.length_map]
      · intro q hq r' hr'
        rw [List.mem_map] at hq
        obtain ⟨q0, hq0, rfl⟩ := hq
        split at hr'
        · rename_i hqr; rw [if_pos hqr]; exact h1 q0 hq0 r' hr'
        · rename_i hqr; rw [if_neg hqr]; exact h1 q0 hq0 r' hr'
      all_goals assumption
    · cases hs
  | finishRecv t =>
    simp only [step] at hs
    split at hs
    · rename_i p hf
      split at hs
      · rename_i r hr
        cases hs
        apply inv_finish s t p _ hi hf
        right
        refine ⟨r, rfl, ?_⟩
        exact hi.slot p (List.mem_of_find?_eq_some hf) r hr
      · cases hs
    · cases hs
  | finishCancel t =>
    simp only [step] at hs
    split at hs
    · rename_i p hf
      split at hs
      · cases hs
        apply inv_finish s t p _ hi hf
        left; rfl
      · cases hs
    · cases hs

theorem inv_run (sched : List Action) (s s' : State) (hi : Inv s) (h : run s sched = some s') : Inv s' := by
  induction sched generalizing s with
  | nil => simp [run] at h; subst h; exact hi
  | cons a rest ih =>
    simp only [run] at h
    split at h
    · rename_i s1 hs; exact ih s1 (inv_step s s1 a hi hs) h
    · exact ih s hi h
    · cases h

/-- Every completed call holds the response that carries ITS id, or its own cancellation. -/
theorem completed_matches (sched : List Action) (s : State) (h : run {} sched = some s) :
    ∀ t id res, (t, id, res) ∈ s.completed → res = .cancelled ∨ ∃ r, res = .response r ∧ r.id = id := by
  intro t id res hm
  exact (inv_run sched {} s inv_init h).claim _ hm

/-- Call ids are never reused: the ids of completed and pending calls are pairwise distinct. -/
theorem ids_nodup (sched : List Action) (s : State) (h : run {} sched = some s) :
    (s.completed.map (fun c => c.2.1) ++ s.pending.map (·.id)).Nodup :=
  (inv_run sched {} s inv_init h).nodup

/-- A cancelled or finished call leaves nothing behind: pending holds exactly the calls still in flight, so when
    every started call has finished, pending is empty. -/
theorem pending_count (sched : List Action) (s : State) (h : run {} sched = some s) :
    s.pending.length + s.completed.length = s.seq :=
  (inv_run sched {} s inv_init h).count


def Fresh (s : State) (sched : List Action) : Prop :=
  ∀ p ∈ s.pending, ∀ r, p.slot = some r → r.id ∉ sched.filterMap recvId

theorem fresh_tail (s : State) (a : Action) (rest : List Action) (h : Fresh s (a :: rest)) : Fresh s rest := by
  intro p hp r hr hm
  apply h p hp r hr
  rw [List.filterMap_cons]
  split
  · exact hm
  · exact List.mem_cons_of_mem _ hm

theorem nodup_tail (a : Action) (rest : List Action) (h : ((a :: rest).filterMap recvId).Nodup) :
    (rest.filterMap recvId).Nodup := by
  rw [List.filterMap_cons] at h
  split at h
  · exact h
  · exact (List.nodup_cons.1 h).2

theorem fresh_step (s s' : State) (a : Action) (rest : List Action) (hs : step s a = .ok s')
    (hn : ((a :: rest).filterMap recvId).Nodup) (hfr : Fresh s (a :: rest)) : Fresh s' rest := by
  have hfr' := fresh_tail s a rest hfr
  cases a with
  | call t =>
    simp only [step] at hs
    split at hs
    · cases hs
    · cases hs
      intro q hq r hr
      simp at hq; rcases hq with hq | rfl
      · exact hfr' q hq r hr
      · simp at hr
  | recv r =>
    simp only [step] at hs
    split at hs
    · cases hs; exact hfr'
    · split at hs
      · cases hs; exact hfr'
      · cases hs
        intro q hq r' hr'
        simp only [List.mem_map] at hq
        obtain ⟨q0, hq0, rfl⟩ := hq
        split at hr'
        · simp at hr'; subst hr'
          simp only [List.filterMap_cons, recvId, List.nodup_cons] at hn
          exact hn.1
        · exact hfr' q0 hq0 r' hr'
  | cancel t =>
    simp only [step] at hs
    split at hs
    · cases hs
      intro q hq r' hr'
      simp only [List.mem_map] at hq
      obtain ⟨q0, hq0, rfl⟩ := hq
      split at hr'
      · exact hfr' q0 hq0 r' hr'
      · exact hfr' q0 hq0 r' hr'
    · cases hs
  | finishRecv t =>
    simp only [step] at hs
    split at hs
    · split at hs
      · cases hs
        intro q hq r' hr'
        exact hfr' q (List.mem_filter.1 hq).1 r' hr'
      · cases hs
    · cases hs
  | finishCancel t =>
    simp only [step] at hs
    split at hs
    · split at hs
      · cases hs
        intro q hq r' hr'
        exact hfr' q (List.mem_filter.1 hq).1 r' hr'
      · cases hs
    · cases hs

theorem not_blocked (s : State) (a : Action) (rest : List Action) (hi : Inv s)
    (hfr : Fresh s (a :: rest)) : step s a ≠ .blocked := by
  intro hb
  cases a with
  | call t => simp only [step] at hb; split at hb <;> cases hb
  | cancel t => simp only [step] at hb; split at hb <;> cases hb
  | finishRecv t =>
    simp only [step] at hb
    split at hb
    · split at hb <;> cases hb
    · cases hb
  | finishCancel t =>
    simp only [step] at hb
    split at hb
    · split at hb <;> cases hb
    · cases hb
  | recv r =>
    simp only [step] at hb
    split at hb
    · cases hb
    · split at hb <;> cases hb

theorem nb_aux (sched : List Action) : ∀ s, Inv s → (sched.filterMap recvId).Nodup → Fresh s sched →
    (run s sched).isSome = true := by
  induction sched with
  | nil => intro s _ _ _; rfl
  | cons a rest ih =>
    intro s hi hn hfr
    have hnb := not_blocked s a rest hi hfr
    simp only [run]
    split
    · rename_i s1 hs
      exact ih s1 (inv_step s s1 a hi hs) (nodup_tail a rest hn) (fresh_step s s1 a rest hs hn hfr)
    · exact ih s hi (nodup_tail a rest hn) (fresh_tail s a rest hfr)
    · rename_i hb; exact absurd hb hnb

/-- No step blocks: a response for an id whose first response has not been taken yet is dropped. -/
theorem step_not_blocked (s : State) (a : Action) : step s a ≠ .blocked := by
  intro hb
  cases a with
  | call t => simp only [step] at hb; split at hb <;> cases hb
  | cancel t => simp only [step] at hb; split at hb <;> cases hb
  | finishRecv t =>
    simp only [step] at hb
    split at hb
    · split at hb <;> cases hb
    · cases hb
  | finishCancel t =>
    simp only [step] at hb
    split at hb
    · split at hb <;> cases hb
    · cases hb
  | recv r =>
    simp only [step] at hb
    split at hb
    · cases hb
    · split at hb <;> cases hb

/-- The read loop never blocks, whatever the peer sends - duplicated responses included. -/
theorem never_blocked_any (sched : List Action) : ∀ s, (run s sched).isSome = true := by
  induction sched with
  | nil => intro s; rfl
  | cons a rest ih =>
    intro s
    simp only [run]
    split
    · exact ih _
    · exact ih _
    · rename_i hb; exact absurd hb (step_not_blocked s a)

/-- With a peer that answers each id at most once the read loop never blocks. -/
theorem never_blocked (sched : List Action) (hn : (sched.filterMap recvId).Nodup) : (run {} sched).isSome = true :=
  nb_aux sched {} inv_init hn (by intro p hp; simp at hp)

end TemplVerif.Proofs.Rpc
