import TemplVerif.Spec.HtmlTok
import TemplVerif.Model.Attrs
/- Helper lemmas for C01 (Props/C01.lean only cites these). -/
namespace TemplVerif.Proofs.Html
open TemplVerif TemplVerif.Html TemplVerif.HtmlTok TemplVerif.Attrs

theorem escapeByte_noStructural (b : UInt8) : ∀ c ∈ escapeByte b, structural c = false := by
  intro c hc
  unfold escapeByte at hc
  split at hc
  · simp [amp] at hc; rcases hc with h|h|h|h|h <;> subst h <;> decide
  split at hc
  · simp [lt] at hc; rcases hc with h|h|h|h <;> subst h <;> decide
  split at hc
  · simp [gt] at hc; rcases hc with h|h|h|h <;> subst h <;> decide
  split at hc
  · simp [quot] at hc; rcases hc with h|h|h|h|h <;> subst h <;> decide
  split at hc
  · simp [apos] at hc; rcases hc with h|h|h|h|h <;> subst h <;> decide
  · simp at hc; subst hc; simp [structural]; simp_all

theorem escape_noStructural (s : Bytes) : ∀ b ∈ escape s, structural b = false := by
  induction s with
  | nil => simp [escape]
  | cons b rest ih =>
    intro c hc
    simp only [escape, List.mem_append] at hc
    rcases hc with hc | hc
    · exact escapeByte_noStructural b c hc
    · exact ih c hc

theorem escape_append (a b : Bytes) : escape (a ++ b) = escape a ++ escape b := by
  induction a with
  | nil => simp [escape]
  | cons x rest ih => simp [escape, ih]

/-- Decoding the references in an escaped string gives the string back, whatever follows. -/
theorem decode_escape_append (s rest : Bytes) : decodeRefs (escape s ++ rest) = s ++ decodeRefs rest := by
  induction s with
  | nil => simp [escape]
  | cons b x ih =>
    simp only [escape, List.append_assoc]
    by_cases h1 : b = 38
    · subst h1; simp [escapeByte, amp, decodeRefs, ih]
    by_cases h2 : b = 60
    · subst h2; simp [escapeByte, lt, decodeRefs, ih]
    by_cases h3 : b = 62
    · subst h3; simp [escapeByte, gt, decodeRefs, ih]
    by_cases h4 : b = 34
    · subst h4; simp [escapeByte, quot, decodeRefs, ih]
    by_cases h5 : b = 39
    · subst h5; simp [escapeByte, apos, decodeRefs, ih]
    simp only [escapeByte, h1, h2, h3, h4, h5, if_false, List.cons_append, List.nil_append]
    rw [decodeRefs]
    · simp [ih]
    all_goals (intros; simp_all)

theorem decode_escape (s : Bytes) : decodeRefs (escape s) = s := by
  have := decode_escape_append s []
  simpa [decodeRefs] using this

theorem run_append (σ : S) (a b : Bytes) : run σ (a ++ b) = run (run σ a) b := by
  simp [run, List.foldl_append]

theorem run_cons (σ : S) (a : UInt8) (b : Bytes) : run σ (a :: b) = run (step σ a) b := rfl
theorem run_nil (σ : S) : run σ [] = σ := rfl

theorem run_data_plain (l : Bytes) : ∀ (σ : S), σ.st = .data → (∀ c ∈ l, c ≠ 60) →
    run σ l = { σ with text := σ.text ++ l } := by
  induction l with
  | nil => intro σ _ _; simp [run]
  | cons c l ih =>
    intro σ hσ hl
    have hc : c ≠ 60 := hl c (by simp)
    have hl' : ∀ d ∈ l, d ≠ 60 := fun d hd => hl d (by simp [hd])
    rw [run_cons]
    have hs : step σ c = { σ with st := .data, text := σ.text ++ [c] } := by
      simp [step, hσ, dataStep, hc]
    rw [hs, ih _ rfl hl']
    cases σ; simp at hσ; subst hσ; simp

theorem run_attrDQ_plain (l : Bytes) : ∀ (σ : S), σ.st = .attrDQ → (∀ c ∈ l, c ≠ 34) →
    run σ l = { σ with av := σ.av ++ l } := by
  induction l with
  | nil => intro σ _ _; simp [run]
  | cons c l ih =>
    intro σ hσ hl
    have hc : c ≠ 34 := hl c (by simp)
    have hl' : ∀ d ∈ l, d ≠ 34 := fun d hd => hl d (by simp [hd])
    rw [run_cons]
    have hs : step σ c = { σ with av := σ.av ++ [c] } := by
      simp [step, hσ, hc]
    rw [hs, ih { σ with av := σ.av ++ [c] } hσ hl']
    simp

/-- In the data state an escaped string is consumed entirely as character data. -/
theorem hole_data (σ : S) (hσ : σ.st = .data) (s : Bytes) :
    run σ (escape s) = { σ with text := σ.text ++ escape s } := by
  apply run_data_plain _ _ hσ
  intro c hc h
  have := escape_noStructural s c hc
  subst h; simp [structural] at this

/-- In a double-quoted attribute value an escaped string is consumed entirely as value characters. -/
theorem hole_attrDQ (σ : S) (hσ : σ.st = .attrDQ) (s : Bytes) :
    run σ (escape s) = { σ with av := σ.av ++ escape s } := by
  apply run_attrDQ_plain _ _ hσ
  intro c hc h
  have := escape_noStructural s c hc
  subst h; simp [structural] at this

/-- ` name="` ++ escape v ++ `"` read in the before-attribute-name state adds exactly one attribute
    (name, v) and nothing else, for every v. `name` is a non-empty lower-case attribute name written by the
    template author (letters, digits, '-', ':', '_', '.', '@'). -/
def niceNameByte (b : UInt8) : Bool :=
  (97 ≤ b && b ≤ 122) || (48 ≤ b && b ≤ 57) || b == 45 || b == 58 || b == 95 || b == 46 || b == 64
def niceName (n : Bytes) : Bool := !n.isEmpty && n.all niceNameByte

theorem nice_toNat (b : UInt8) (h : niceNameByte b = true) :
    (97 ≤ b.toNat ∧ b.toNat ≤ 122) ∨ (48 ≤ b.toNat ∧ b.toNat ≤ 57) ∨ b.toNat = 45 ∨ b.toNat = 58 ∨ b.toNat = 95 ∨ b.toNat = 46 ∨ b.toNat = 64 := by
  simp [niceNameByte, UInt8.le_iff_toNat_le, ← UInt8.toNat_inj] at h
  omega

theorem nice_ne (b : UInt8) (h : niceNameByte b = true) (k : UInt8)
    (hk : ¬ ((97 ≤ k.toNat ∧ k.toNat ≤ 122) ∨ (48 ≤ k.toNat ∧ k.toNat ≤ 57) ∨ k.toNat = 45 ∨ k.toNat = 58 ∨ k.toNat = 95 ∨ k.toNat = 46 ∨ k.toNat = 64)) : b ≠ k := by
  intro e; subst e; exact hk (nice_toNat _ h)

theorem nice_escapeByte (b : UInt8) (h : niceNameByte b = true) : escapeByte b = [b] := by
  have h1 := nice_ne b h 38 (by decide)
  have h2 := nice_ne b h 60 (by decide)
  have h3 := nice_ne b h 62 (by decide)
  have h4 := nice_ne b h 34 (by decide)
  have h5 := nice_ne b h 39 (by decide)
  simp [escapeByte, h1, h2, h3, h4, h5]

theorem nice_isWs (b : UInt8) (h : niceNameByte b = true) : isWs b = false := by
  have h1 := nice_ne b h 9 (by decide)
  have h2 := nice_ne b h 10 (by decide)
  have h3 := nice_ne b h 12 (by decide)
  have h4 := nice_ne b h 32 (by decide)
  have h5 := nice_ne b h 13 (by decide)
  simp [isWs, h1, h2, h3, h4, h5]

theorem nice_lower (b : UInt8) (h : niceNameByte b = true) : lower b = b := by
  have := nice_toNat b h
  simp only [lower, UInt8.le_iff_toNat_le]
  rw [if_neg]
  simp
  intro _
  have : (90 : UInt8).toNat = 90 := rfl
  omega

theorem escape_nice (n : Bytes) (h : n.all niceNameByte = true) : escape n = n := by
  induction n with
  | nil => rfl
  | cons b r ih =>
    simp only [List.all_cons, Bool.and_eq_true] at h
    simp [escape, nice_escapeByte b h.1, ih h.2]

theorem step_attrName_nice (σ : S) (hσ : σ.st = .attrName) (b : UInt8) (h : niceNameByte b = true) :
    step σ b = { σ with an := σ.an ++ [b] } := by
  have h1 := nice_ne b h 47 (by decide)
  have h2 := nice_ne b h 62 (by decide)
  have h3 := nice_ne b h 61 (by decide)
  simp only [step, hσ, attrNameStep, nice_isWs b h, nice_lower b h]
  simp [h1, h2, h3]

theorem run_attrName_nice (l : Bytes) : ∀ (σ : S), σ.st = .attrName → l.all niceNameByte = true →
    run σ l = { σ with an := σ.an ++ l } := by
  induction l with
  | nil => intro σ _ _; simp [run]
  | cons c l ih =>
    intro σ hσ hl
    simp only [List.all_cons, Bool.and_eq_true] at hl
    rw [run_cons, step_attrName_nice σ hσ c hl.1, ih { σ with an := σ.an ++ [c] } hσ hl.2]
    simp

theorem step_beforeAttrName_nice (σ : S) (hσ : σ.st = .beforeAttrName) (b : UInt8) (h : niceNameByte b = true) :
    step σ b = { startAttr σ with st := .attrName, an := [b] } := by
  have h1 := nice_ne b h 47 (by decide)
  have h2 := nice_ne b h 62 (by decide)
  have h3 := nice_ne b h 61 (by decide)
  simp only [step, hσ, beforeAttrNameStep, attrNameStep, nice_isWs b h, nice_lower b h]
  simp [h1, h2, h3, startAttr]

theorem step_space (σ : S) (hσ : σ.st = .beforeAttrName ∨ σ.st = .tagName ∨ σ.st = .afterAttrValueQ) :
    step σ 32 = { σ with st := .beforeAttrName } := by
  rcases hσ with h | h | h <;> simp [step, h, beforeAttrNameStep, isWs]

theorem run_attr_tail (τ : S) (hτ : τ.st = .attrName) (hh : τ.hasAttr = true) (hav : τ.av = []) (v : Bytes) :
    run τ (61 :: 34 :: (escape v ++ [34])) =
      { τ with st := .afterAttrValueQ, attrs := τ.attrs ++ [(τ.an, v)], an := [], av := [], hasAttr := false } := by
  have e1 : step τ 61 = { τ with st := .beforeAttrValue } := by
    simp [step, hτ, attrNameStep, isWs]
  have e2 : step { τ with st := .beforeAttrValue } 34 = { τ with st := .attrDQ } := by
    simp [step, isWs]
  rw [run_cons, e1, run_cons, e2, run_append, hole_attrDQ _ rfl, run_cons, run_nil]
  simp [step, finishAttr, hh, hav, decode_escape]

theorem attr_valued_tokens (σ : S) (hσ : σ.st = .beforeAttrName ∨ σ.st = .tagName ∨ σ.st = .afterAttrValueQ)
    (hna : σ.st = .tagName → σ.hasAttr = false)
    (name v : Bytes) (hn : niceName name = true) :
    run σ (valued name v) =
      { finishAttr σ with st := .afterAttrValueQ, attrs := (finishAttr σ).attrs ++ [(name, v)],
                          an := [], av := [], hasAttr := false } := by
  simp only [niceName, Bool.and_eq_true] at hn
  obtain ⟨hne, hall⟩ := hn
  cases name with
  | nil => simp at hne
  | cons b rest =>
    have hall' := hall
    simp only [List.all_cons, Bool.and_eq_true] at hall'
    simp only [valued, escape_nice _ hall, List.cons_append, List.nil_append, List.append_assoc]
    have e2 : run (step (step σ 32) b) rest =
        { startAttr { σ with st := .beforeAttrName } with st := .attrName, an := b :: rest } := by
      rw [step_space σ hσ, step_beforeAttrName_nice _ rfl b hall'.1, run_attrName_nice rest _ rfl hall'.2]
      simp
    rw [run_cons, run_cons, run_append, e2, run_attr_tail _ rfl (by simp [startAttr]) (by simp [startAttr])]
    cases σ with
    | mk st text name isEnd attrs an av hasAttr acc rawName rawDecode out =>
      cases hasAttr <;> simp [startAttr, finishAttr]

theorem run_script_prefix : run {} [60, 115, 99, 114, 105, 112, 116] =
    { st := .tagName, name := [115, 99, 114, 105, 112, 116] } := by
  rfl

/-- An optional ` name="…"` attribute as written by `jsonScriptOpen`. -/
theorem run_optAttr (σ : S) (hσ : σ.st = .tagName ∨ σ.st = .afterAttrValueQ)
    (hh : σ.hasAttr = false) (han : σ.an = []) (hav : σ.av = [])
    (name x : Bytes) (hn : niceName name = true) :
    run σ (if x.isEmpty then [] else [32] ++ name ++ [61, 34] ++ escape x ++ [34]) =
      { σ with st := if x.isEmpty then σ.st else .afterAttrValueQ,
               attrs := σ.attrs ++ (if x.isEmpty then [] else [(name, x)]) } := by
  by_cases hx : x.isEmpty = true
  · simp [hx, run_nil]
  · have hesc : escape name = name := by
      simp only [niceName, Bool.and_eq_true] at hn
      exact escape_nice _ hn.2
    have hv : [32] ++ name ++ [61, 34] ++ escape x ++ [34] = valued name x := by
      simp [valued, hesc]
    simp only [hx, if_false, Bool.false_eq_true]
    rw [hv, attr_valued_tokens σ (by rcases hσ with h | h <;> simp [h]) (fun _ => hh) name x hn]
    cases σ
    simp at hh han hav
    subst hh han hav
    simp [finishAttr]

theorem out_close (σ : S) (hσ : σ.st = .tagName ∨ σ.st = .afterAttrValueQ)
    (hh : σ.hasAttr = false) (hend : σ.isEnd = false) (hname : σ.name = [115, 99, 114, 105, 112, 116]) :
    (run σ [62]).out = Token.startTag [115, 99, 114, 105, 112, 116] σ.attrs false :: σ.out := by
  have : step σ 62 = emitTag σ false := by
    rcases hσ with h | h <;> simp [step, h, isWs]
  rw [run_cons, run_nil, this]
  simp [emitTag, finishAttr, hh, hend, hname, rcdataNames, rawtextNames]

/-- The opening tag of the JSON script element is one start tag whose attribute values are the given strings. -/
theorem jsonScriptOpen_tokens (id type nonce : Bytes) :
    (run {} (jsonScriptOpen id type nonce)).out =
      [Token.startTag [115, 99, 114, 105, 112, 116]
        ((if id.isEmpty then [] else [([105, 100], id)]) ++
         (if type.isEmpty then [] else [([116, 121, 112, 101], type)]) ++
         (if nonce.isEmpty then [] else [([110, 111, 110, 99, 101], nonce)])) false] := by
  have h1 := run_optAttr { st := .tagName, name := [115, 99, 114, 105, 112, 116] } (Or.inl rfl) rfl rfl rfl
    [105, 100] id (by decide)
  have h2 := fun σ hσ hh han hav => run_optAttr σ hσ hh han hav [116, 121, 112, 101] type (by decide)
  have h3 := fun σ hσ hh han hav => run_optAttr σ hσ hh han hav [110, 111, 110, 99, 101] nonce (by decide)
  simp only [List.cons_append, List.nil_append] at h1 h2 h3
  simp only [jsonScriptOpen]
  rw [run_append, run_append, run_append, run_append, run_script_prefix]
  simp only [List.cons_append, List.nil_append]
  rw [h1, h2, h3, out_close]
  all_goals first
    | rfl
    | (simp; done)
    | (by_cases a : id.isEmpty = true <;> by_cases b : type.isEmpty = true <;>
        by_cases c : nonce.isEmpty = true <;> simp [a, b, c])

end TemplVerif.Proofs.Html
