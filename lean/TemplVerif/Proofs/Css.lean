import TemplVerif.Model.Css
import TemplVerif.Spec.CssScan
import TemplVerif.Proofs.Html
/- Helper lemmas for C05 (Props/C05.lean only cites these). -/
namespace TemplVerif.Proofs.Css
open TemplVerif TemplVerif.CssModel

/-- The sanitised property name is the innocuous name or a non-empty lower-case `[-a-z]+` identifier. -/
theorem sanitizeProperty_shape (p : Bytes) :
    sanitizeProperty p = Generated.cssInnocuousPropertyName ∨
    (sanitizeProperty p ≠ [] ∧ ∀ b ∈ sanitizeProperty p, b = 45 ∨ (97 ≤ b ∧ b ≤ 122)) := by
  sorry

/-- Main safety theorem: whatever `net/url.Parse` answers (`parseOk` is arbitrary), the sanitised pair is
    safely ONE declaration: the scanner specification ends it exactly at the `;` written after the value, for
    every continuation, every url() in it has no scheme or http/https/mailto, and neither part contains `<`. -/
theorem sanitize_declSafe (parseOk : Bytes → Bool) (p v : Bytes) :
    Css.DeclSafe (sanitize parseOk p v).1 (sanitize parseOk p v).2 := by
  sorry

/-- Style-attribute items: after the browser's attribute-value decoding the item is `name:value;` of the
    sanitised pair. -/
theorem styleItem_decodes (parseOk : Bytes → Bool) (p v rest : Bytes) :
    Html.decodeRefs (styleItem parseOk p v ++ rest) =
      (sanitize parseOk p v).1 ++ [58] ++ (sanitize parseOk p v).2 ++ [59] ++ Html.decodeRefs rest := by
  sorry

end TemplVerif.Proofs.Css
