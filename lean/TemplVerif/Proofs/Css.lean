import TemplVerif.Model.Css
import TemplVerif.Spec.CssScan
import TemplVerif.Proofs.Html
import TemplVerif.Proofs.Url
/- Helper lemmas for C05 (Props/C05.lean only cites these). -/
namespace TemplVerif.Proofs.Css
open TemplVerif TemplVerif.CssModel

/-! ### Byte facts by exhaustive check -/

theorem forall_byte {P : UInt8 → Prop} (h : ∀ n : Nat, n < 256 → P (UInt8.ofNat n)) (b : UInt8) : P b := by
  have := h b.toNat (UInt8.toNat_lt b)
  simpa using this

/-- identifier bytes, lower-cased, are '-' or a–z -/
def factIdent (b : UInt8) : Bool :=
  !(b == 45 || isAlpha b) || (lower b == 45 || (97 ≤ lower b && lower b ≤ 122))

set_option maxRecDepth 8000 in
theorem factIdent_all : ∀ n : Nat, n < 256 → factIdent (UInt8.ofNat n) = true := by decide

/-- The sanitised property name is the innocuous name or a non-empty lower-case `[-a-z]+` identifier. -/
theorem sanitizeProperty_shape (p : Bytes) :
    sanitizeProperty p = Generated.cssInnocuousPropertyName ∨
    (sanitizeProperty p ≠ [] ∧ ∀ b ∈ sanitizeProperty p, b = 45 ∨ (97 ≤ b ∧ b ≤ 122)) := by
  unfold sanitizeProperty
  split
  · rename_i h
    right
    simp only [matchIdentifier, Bool.and_eq_true, Bool.not_eq_true', List.isEmpty_eq_false_iff,
      List.all_eq_true] at h
    refine ⟨by simpa using h.1, ?_⟩
    intro b hb
    obtain ⟨a, ha, rfl⟩ := List.mem_map.mp hb
    have h1 := h.2 a ha
    have h2 := forall_byte (P := fun b => factIdent b = true) factIdent_all a
    simp only [factIdent, h1, Bool.not_true, Bool.false_or, Bool.or_eq_true, beq_iff_eq,
      Bool.and_eq_true, decide_eq_true_eq] at h2
    exact h2
  · left; rfl

open TemplVerif.Css (St Mode scanAux step)

/-! ### Scanner runs -/

/-- normal mode, empty stack -/
def N (id : Bytes) (us : List Bytes) : St :=
  { mode := .normal, stack := [], ident := id, cur := [], inUrlFn := false, urls := us }

/-- The scanner, started in state `s`, crosses `x` (whatever follows) and arrives in state `s'`. -/
def Run (s : St) (x : Bytes) (s' : St) : Prop :=
  ∀ fuel i rest, scanAux (fuel + x.length) s i (x ++ rest) = scanAux fuel s' (i + x.length) rest

theorem Run.nil (s : St) : Run s [] s := by
  intro fuel i rest; simp

theorem Run.append {s s' s'' : St} {x y : Bytes} (h1 : Run s x s') (h2 : Run s' y s'') :
    Run s (x ++ y) s'' := by
  intro fuel i rest
  have e : fuel + (x ++ y).length = (fuel + y.length) + x.length := by simp; omega
  rw [e, List.append_assoc, h1, h2]
  simp [Nat.add_assoc]

def identStep (id : Bytes) (b : UInt8) : Bytes := if Css.isIdentByte b then id ++ [Css.lower b] else []

/-- bytes that do nothing but update `ident` in normal mode (`/` is excluded: it needs look-ahead) -/
def inertB (b : UInt8) : Bool :=
  b != 59 && b != 34 && b != 39 && b != 92 && b != 40 && b != 41 && b != 91 && b != 93 && b != 123 &&
    b != 125 && b != 47

theorem run_inert1 (b : UInt8) (h : inertB b = true) (id : Bytes) (us : List Bytes) :
    Run (N id us) [b] (N (identStep id b) us) := by
  intro fuel i rest
  simp only [inertB, Bool.and_eq_true, bne_iff_ne, ne_eq] at h
  obtain ⟨⟨⟨⟨⟨⟨⟨⟨⟨⟨h1, h2⟩, h3⟩, h4⟩, h5⟩, h6⟩, h7⟩, h8⟩, h9⟩, h10⟩, h11⟩ := h
  by_cases hb : Css.isIdentByte b = true <;>
    simp [scanAux, step, N, identStep, h1, h2, h3, h4, h5, h6, h7, h8, h9, h10, h11, hb]

theorem run_inert (x : Bytes) (h : x.all inertB = true) (id : Bytes) (us : List Bytes) :
    Run (N id us) x (N (x.foldl identStep id) us) := by
  induction x generalizing id with
  | nil => exact Run.nil _
  | cons b x ih =>
    simp only [List.all_cons, Bool.and_eq_true] at h
    have := Run.append (run_inert1 b h.1 id us) (ih h.2 (identStep id b))
    simpa using this

/-! string mode -/
def strB (q b : UInt8) : Bool := b != q && !Css.isNewline b && b != 92

theorem run_str1 (q b : UInt8) (h : strB q b = true) (st : List UInt8) (cur : Bytes) (f : Bool) (us : List Bytes) :
    Run ⟨.str q, st, [], cur, f, us⟩ [b] ⟨.str q, st, [], cur ++ [b], f, us⟩ := by
  intro fuel i rest
  simp only [strB, Bool.and_eq_true, bne_iff_ne, ne_eq, Bool.not_eq_true'] at h
  obtain ⟨⟨h1, h2⟩, h3⟩ := h
  simp [scanAux, step, h1, h2, h3]

theorem run_str (q : UInt8) (x : Bytes) (h : x.all (strB q) = true) (st : List UInt8) (cur : Bytes) (f : Bool)
    (us : List Bytes) :
    Run ⟨.str q, st, [], cur, f, us⟩ x ⟨.str q, st, [], cur ++ x, f, us⟩ := by
  induction x generalizing cur with
  | nil => simpa using Run.nil _
  | cons b x ih =>
    simp only [List.all_cons, Bool.and_eq_true] at h
    have := Run.append (run_str1 q b h.1 st cur f us) (ih h.2 (cur ++ [b]))
    simpa using this

theorem run_open_quote (q : UInt8) (hq : q = 34 ∨ q = 39) (id : Bytes) (us : List Bytes) :
    Run (N id us) [q] ⟨.str q, [], [], [], false, us⟩ := by
  intro fuel i rest
  rcases hq with rfl | rfl <;> simp [scanAux, step, N]

theorem run_close_quote (q : UInt8) (st : List UInt8) (cur : Bytes) (us : List Bytes) :
    Run ⟨.str q, st, [], cur, false, us⟩ [q] ⟨.normal, st, [], [], false, us⟩ := by
  intro fuel i rest
  simp [scanAux, step]

theorem run_close_quote_url (q : UInt8) (st : List UInt8) (cur : Bytes) (us : List Bytes) :
    Run ⟨.str q, st, [], cur, true, us⟩ [q] ⟨.normal, st, [], [], false, us ++ [cur]⟩ := by
  intro fuel i rest
  simp [scanAux, step]

theorem run_close_paren (us : List Bytes) :
    Run ⟨.normal, [41], [], [], false, us⟩ [41] (N [] us) := by
  intro fuel i rest
  simp [scanAux, step, N]

theorem run_open_url (us : List Bytes) :
    Run (N Css.urlIdent us) [40] ⟨.url, [41], [], [], false, us⟩ := by
  intro fuel i rest
  simp [scanAux, step, N]

theorem run_url_quote (q : UInt8) (hq : q = 34 ∨ q = 39) (us : List Bytes) :
    Run ⟨.url, [41], [], [], false, us⟩ [q] ⟨.str q, [41], [], [], true, us⟩ := by
  intro fuel i rest
  rcases hq with rfl | rfl <;> simp [scanAux, Css.isWs, Css.isNewline]

def urlB (b : UInt8) : Bool :=
  b != 41 && !Css.isWs b && b != 34 && b != 39 && b != 40 && !(decide (b < 32)) && b != 127 && b != 92

theorem run_url1 (b : UInt8) (h : urlB b = true) (cur : Bytes) (us : List Bytes) :
    Run ⟨.url, [41], [], cur, false, us⟩ [b] ⟨.url, [41], [], cur ++ [b], false, us⟩ := by
  intro fuel i rest
  simp only [urlB, Bool.and_eq_true, bne_iff_ne, ne_eq, Bool.not_eq_true', decide_eq_false_iff_not] at h
  obtain ⟨⟨⟨⟨⟨⟨⟨h1, h2⟩, h3⟩, h4⟩, h5⟩, h6⟩, h7⟩, h8⟩ := h
  simp [scanAux, step, h1, h2, h3, h4, h5, h6, h7, h8]

theorem run_url (x : Bytes) (h : x.all urlB = true) (cur : Bytes) (us : List Bytes) :
    Run ⟨.url, [41], [], cur, false, us⟩ x ⟨.url, [41], [], cur ++ x, false, us⟩ := by
  induction x generalizing cur with
  | nil => simpa using Run.nil _
  | cons b x ih =>
    simp only [List.all_cons, Bool.and_eq_true] at h
    have := Run.append (run_url1 b h.1 cur us) (ih h.2 (cur ++ [b]))
    simpa using this

theorem run_url_close (cur : Bytes) (us : List Bytes) :
    Run ⟨.url, [41], [], cur, false, us⟩ [41] (N [] (us ++ [cur])) := by
  intro fuel i rest
  simp [scanAux, step, N, Css.isWs, Css.isNewline]

/-- a control byte inside an unquoted url that is none of the bytes handled earlier by `step` -/
def ctlB (b : UInt8) : Bool :=
  (decide (b < 32) || b == 127) && b != 41 && !Css.isWs b && b != 34 && b != 39 && b != 40

theorem run_url_ctl1 (b : UInt8) (h : ctlB b = true) (cur : Bytes) (us : List Bytes) :
    Run ⟨.url, [41], [], cur, false, us⟩ [b] ⟨.badUrl, [41], [], [], false, us⟩ := by
  intro fuel i rest
  simp only [ctlB, Bool.and_eq_true, bne_iff_ne, ne_eq, Bool.not_eq_true'] at h
  obtain ⟨⟨⟨⟨⟨h1, h2⟩, h3⟩, h4⟩, h5⟩, h6⟩ := h
  have h1' : b < 32 ∨ b = 127 := by simpa using h1
  simp [scanAux, step, h1', h2, h3, h4, h5, h6]

/-- bytes that the "remnants of a bad url" state just consumes -/
def badB (b : UInt8) : Bool := b != 41 && b != 92

theorem run_bad1 (b : UInt8) (h : badB b = true) (us : List Bytes) :
    Run ⟨.badUrl, [41], [], [], false, us⟩ [b] ⟨.badUrl, [41], [], [], false, us⟩ := by
  intro fuel i rest
  simp only [badB, Bool.and_eq_true, bne_iff_ne, ne_eq] at h
  simp [scanAux, step, h.1, h.2]

theorem run_bad (x : Bytes) (h : x.all badB = true) (us : List Bytes) :
    Run ⟨.badUrl, [41], [], [], false, us⟩ x ⟨.badUrl, [41], [], [], false, us⟩ := by
  induction x with
  | nil => exact Run.nil _
  | cons b x ih =>
    simp only [List.all_cons, Bool.and_eq_true] at h
    have := Run.append (run_bad1 b h.1 us) (ih h.2)
    simpa using this

theorem run_bad_close (us : List Bytes) :
    Run ⟨.badUrl, [41], [], [], false, us⟩ [41] (N [] us) := by
  intro fuel i rest
  simp [scanAux, step, N]

theorem scan_done (id : Bytes) (us : List Bytes) (fuel i : Nat) (post : Bytes) :
    scanAux (fuel + 1) (N id us) i (59 :: post) = some (i, us) := by
  simp [scanAux, step, N]

theorem scan_slash (id : Bytes) (us : List Bytes) (fuel i : Nat) (rest : Bytes) (h : rest.head? ≠ some 42) :
    scanAux (fuel + 1) (N id us) i (47 :: rest) = scanAux fuel (N [] us) (i + 1) rest := by
  simp [scanAux, step, N, h, Css.isIdentByte]

/-! ### regular values -/

def factSafe (b : UInt8) : Bool := !safeRegularByte b || (inertB b && b != 42 && b != 60)
set_option maxRecDepth 8000 in
theorem factSafe_all : ∀ n : Nat, n < 256 → factSafe (UInt8.ofNat n) = true := by decide

theorem safe_facts (b : UInt8) (h : safeRegularByte b = true) : inertB b = true ∧ b ≠ 42 ∧ b ≠ 60 := by
  have h2 := forall_byte (P := fun b => factSafe b = true) factSafe_all b
  simp only [factSafe, h, Bool.not_true, Bool.false_or, Bool.and_eq_true, bne_iff_ne, ne_eq] at h2
  exact ⟨h2.1.1, h2.1.2, h2.2⟩

theorem scan_regular (v : Bytes) (h : matchRegular v = true) :
    ∀ (id : Bytes) (us : List Bytes) (fuel i : Nat) (rest : Bytes), rest.head? ≠ some 42 →
      ∃ id', scanAux (fuel + v.length) (N id us) i (v ++ rest) = scanAux fuel (N id' us) (i + v.length) rest := by
  fun_induction matchRegular v with
  | case1 => intro id us fuel i rest _; exact ⟨id, by simp⟩
  | case2 b hb =>
    intro id us fuel i rest hr
    simp only [Bool.or_eq_true, beq_iff_eq] at hb
    rcases hb with rfl | rfl
    · exact ⟨_, by simpa using run_inert1 42 (by decide) id us fuel i rest⟩
    · exact ⟨_, by simpa using scan_slash id us fuel i rest hr⟩
  | case3 b hb c rest' ih =>
    intro id us fuel i rest hr
    simp only [Bool.and_eq_true] at h
    obtain ⟨hc1, hc2, hc3⟩ := safe_facts c h.1
    have e1 : ∃ id1, scanAux (fuel + (b :: c :: rest').length) (N id us) i (b :: c :: rest' ++ rest) =
        scanAux (fuel + rest'.length + 1) (N id1 us) (i + 1) (c :: (rest' ++ rest)) := by
      simp only [Bool.or_eq_true, beq_iff_eq] at hb
      rcases hb with rfl | rfl
      · exact ⟨_, by simpa [Nat.add_assoc] using run_inert1 42 (by decide) id us (fuel + rest'.length + 1) i (c :: (rest' ++ rest))⟩
      · exact ⟨_, by simpa [Nat.add_assoc] using scan_slash id us (fuel + rest'.length + 1) i (c :: (rest' ++ rest)) (by simpa using hc2)⟩
    obtain ⟨id1, e1⟩ := e1
    obtain ⟨id', e⟩ := ih h.2 (identStep id1 c) us fuel (i + 2) rest hr
    refine ⟨id', ?_⟩
    have e2 := run_inert1 c hc1 id1 us (fuel + rest'.length) (i + 1) (rest' ++ rest)
    simp only [List.length_cons, List.length_nil, List.cons_append, List.nil_append] at e2
    rw [e1, e2, e]
    congr 1
    simp only [List.length_cons]; omega
  | case4 b rest' hb ih =>
    intro id us fuel i rest hr
    simp only [Bool.and_eq_true] at h
    obtain ⟨hc1, _, _⟩ := safe_facts b h.1
    obtain ⟨id', e⟩ := ih h.2 (identStep id b) us fuel (i + 1) rest hr
    refine ⟨id', ?_⟩
    have e2 := run_inert1 b hc1 id us (fuel + rest'.length) i (rest' ++ rest)
    simp only [List.length_cons, List.length_nil, List.cons_append, List.nil_append] at e2
    have e3 : fuel + (b :: rest').length = fuel + rest'.length + (0 + 1) := by
      simp only [List.length_cons]; omega
    rw [e3, List.cons_append, e2, e]
    congr 1
    simp only [List.length_cons]; omega

/-! ### Assembly -/

/-- The scanner crosses the value (started right after `name:`) and reaches the closing `;` in normal mode
    with an empty stack, having seen only allowed urls; and the value has no `<`. -/
def ValueGood (w : Bytes) : Prop :=
  (∃ us : List Bytes, us.all Css.urlAllowed = true ∧ ∀ fuel i post, ∃ id',
      scanAux (fuel + w.length) (N [] []) i (w ++ 59 :: post) = scanAux fuel (N id' us) (i + w.length) (59 :: post)) ∧
    (60 : UInt8) ∉ w

theorem ValueGood.of_run {w id us} (h : Run (N [] []) w (N id us)) (hu : us.all Css.urlAllowed = true)
    (h60 : (60 : UInt8) ∉ w) : ValueGood w :=
  ⟨⟨us, hu, fun fuel i _ => ⟨id, h fuel i _⟩⟩, h60⟩

theorem foldl_identStep_snoc (id x : Bytes) (c : UInt8) (hc : Css.isIdentByte c = false) :
    (x ++ [c]).foldl identStep id = [] := by
  simp [List.foldl_append, identStep, hc]

theorem pair_good (p w : Bytes) (hp : p.all inertB = true) (hp60 : (60 : UInt8) ∉ p) (hw : ValueGood w) :
    Css.DeclSafe p w := by
  obtain ⟨⟨us, hu, hs⟩, h60⟩ := hw
  refine ⟨?_, h60, hp60⟩
  intro post
  have hrun : Run (N [] []) (p ++ [58]) (N [] []) := by
    have := run_inert (p ++ [58]) (by simp [hp, inertB]) [] []
    rwa [foldl_identStep_snoc _ _ _ (by decide)] at this
  obtain ⟨id', e⟩ := hs (post.length + 1 + 1) (0 + (p ++ [58]).length) post
  have e0 := hrun (post.length + 1 + 1 + w.length) 0 (w ++ 59 :: post)
  have el : (p ++ [58] ++ w ++ [59] ++ post).length + 1 = post.length + 1 + 1 + w.length + (p ++ [58]).length := by
    simp only [List.length_append, List.length_cons, List.length_nil]; omega
  have ei : p ++ [58] ++ w ++ [59] ++ post = (p ++ [58]) ++ (w ++ 59 :: post) := by simp
  have : Css.scanDecl (p ++ [58] ++ w ++ [59] ++ post) = some (p.length + 1 + w.length, us) := by
    show scanAux _ (N [] []) 0 _ = _
    rw [el, ei, e0, e, scan_done]
    simp
  rw [Css.declSafeWith, this]
  simp [hu]

def factEnum (b : UInt8) : Bool := !(isAlpha b || b == 45) || (inertB b && b != 60 && safeRegularByte b)
set_option maxRecDepth 8000 in
theorem factEnum_all : ∀ n : Nat, n < 256 → factEnum (UInt8.ofNat n) = true := by decide

theorem enum_facts (b : UInt8) (h : (isAlpha b || b == 45) = true) :
    inertB b = true ∧ b ≠ 60 ∧ safeRegularByte b = true := by
  have h2 := forall_byte (P := fun b => factEnum b = true) factEnum_all b
  simp only [factEnum, h, Bool.not_true, Bool.false_or, Bool.and_eq_true, bne_iff_ne, ne_eq] at h2
  exact ⟨h2.1.1, h2.1.2, h2.2⟩

theorem valueGood_inert (w : Bytes) (h : w.all inertB = true) (h60 : (60 : UInt8) ∉ w) : ValueGood w :=
  ValueGood.of_run (run_inert w h [] []) (by simp) h60

theorem innocuous_good : ValueGood innocuousValue :=
  valueGood_inert _ (by decide) (by decide)

theorem matchRegular_no60 (v : Bytes) (h : matchRegular v = true) : (60 : UInt8) ∉ v := by
  fun_induction matchRegular v with
  | case1 => simp
  | case2 b hb =>
    simp only [Bool.or_eq_true, beq_iff_eq] at hb
    rcases hb with rfl | rfl <;> simp
  | case3 b hb c rest' ih =>
    simp only [Bool.and_eq_true] at h
    simp only [Bool.or_eq_true, beq_iff_eq] at hb
    have h1 : ¬ (60 = c) := fun e => (safe_facts c h.1).2.2 e.symm
    have := ih h.2
    rcases hb with rfl | rfl <;> simp [*]
  | case4 b rest' hb ih =>
    simp only [Bool.and_eq_true] at h
    have h1 : ¬ (60 = b) := fun e => (safe_facts b h.1).2.2 e.symm
    have := ih h.2
    simp [*]

theorem regular_good (v : Bytes) : ValueGood (sanitizeRegular v) := by
  unfold sanitizeRegular
  split
  · rename_i h
    refine ⟨⟨[], by simp, fun fuel i post => ?_⟩, matchRegular_no60 v h⟩
    exact scan_regular v h [] [] fuel i (59 :: post) (by simp)
  · exact innocuous_good

theorem enum_good (v : Bytes) : ValueGood (sanitizeEnum v) := by
  unfold sanitizeEnum
  split
  · rename_i h
    simp only [matchEnum, List.all_eq_true] at h
    refine valueGood_inert v (List.all_eq_true.mpr fun b hb => (enum_facts b (h b hb)).1) ?_
    intro hm
    exact (enum_facts 60 (h 60 hm)).2.1 rfl
  · exact innocuous_good

/-! ### comma-separated parts, trimming -/

def joinComma : List Bytes → Bytes
  | [] => []
  | [l] => l
  | l :: l' :: ls => l ++ 44 :: joinComma (l' :: ls)

theorem splitComma_ne_nil (v : Bytes) : splitComma v ≠ [] := by
  cases v with
  | nil => simp [splitComma]
  | cons b rest =>
    unfold splitComma
    split
    · simp
    · split <;> simp

theorem joinComma_splitComma (v : Bytes) : joinComma (splitComma v) = v := by
  induction v with
  | nil => simp [splitComma, joinComma]
  | cons b rest ih =>
    unfold splitComma
    split
    · rename_i hb
      have hne := splitComma_ne_nil rest
      cases hs : splitComma rest with
      | nil => exact absurd hs hne
      | cons l ls => rw [hs] at ih; simp [joinComma, ih, hb]
    · have hne := splitComma_ne_nil rest
      cases hs : splitComma rest with
      | nil => exact absurd hs hne
      | cons l ls =>
        rw [hs] at ih
        cases ls with
        | nil => simpa [joinComma] using ih
        | cons l' ls => simp only [joinComma] at ih ⊢; simp [ih]

theorem mem_joinComma {parts : List Bytes} {part : Bytes} {b : UInt8} (hp : part ∈ parts) (hb : b ∈ part) :
    b ∈ joinComma parts := by
  induction parts with
  | nil => cases hp
  | cons l ls ih =>
    cases ls with
    | nil =>
      simp only [List.mem_cons, List.not_mem_nil, or_false] at hp
      subst hp; simpa [joinComma] using hb
    | cons l' ls =>
      simp only [joinComma, List.mem_append, List.mem_cons]
      rcases List.mem_cons.mp hp with rfl | hp
      · exact Or.inl hb
      · exact Or.inr (Or.inr (ih hp))

/-- membership in the trim cutset `Generated.cssWhitespace` -/
def wsB (b : UInt8) : Bool := Generated.cssWhitespace.contains b

theorem cssWhitespace_pinned : Generated.cssWhitespace = [32, 9, 10, 13, 12] := by decide

def factWs (b : UInt8) : Bool := !wsB b || (inertB b && !Css.isIdentByte b && b != 60)
set_option maxRecDepth 8000 in
theorem factWs_all : ∀ n : Nat, n < 256 → factWs (UInt8.ofNat n) = true := by decide

theorem ws_facts (b : UInt8) (h : wsB b = true) : inertB b = true ∧ Css.isIdentByte b = false ∧ b ≠ 60 := by
  have h2 := forall_byte (P := fun b => factWs b = true) factWs_all b
  simp only [factWs, h, Bool.not_true, Bool.false_or, Bool.and_eq_true, bne_iff_ne, ne_eq,
    Bool.not_eq_true'] at h2
  exact ⟨h2.1.1, h2.1.2, h2.2⟩

theorem trim_spec (f : Bytes) : ∃ a b, f = a ++ trimSpace f ++ b ∧ a.all wsB = true ∧ b.all wsB = true := by
  let d := f.dropWhile wsB
  refine ⟨f.takeWhile wsB, (d.reverse.takeWhile wsB).reverse, ?_, List.all_takeWhile, ?_⟩
  · have e1 : f = f.takeWhile wsB ++ d := List.takeWhile_append_dropWhile.symm
    have e2 : d = (d.reverse.dropWhile wsB).reverse ++ (d.reverse.takeWhile wsB).reverse := by
      rw [← List.reverse_append, List.takeWhile_append_dropWhile, List.reverse_reverse]
    have e3 : trimSpace f = (d.reverse.dropWhile wsB).reverse := rfl
    rw [e3, List.append_assoc, ← e2]
    exact e1
  · rw [List.all_reverse]; exact List.all_takeWhile

theorem foldl_identStep_nonident (x : Bytes) (h : ∀ b ∈ x, Css.isIdentByte b = false) :
    x.foldl identStep [] = [] := by
  induction x with
  | nil => rfl
  | cons b x ih =>
    simp only [List.mem_cons, forall_eq_or_imp] at h
    simp [identStep, h.1, ih h.2]

/-- running over white space from an empty identifier -/
theorem run_ws (x : Bytes) (h : x.all wsB = true) (us : List Bytes) : Run (N [] us) x (N [] us) := by
  have h' := List.all_eq_true.mp h
  have := run_inert x (List.all_eq_true.mpr fun b hb => (ws_facts b (h' b hb)).1) [] us
  rwa [foldl_identStep_nonident x fun b hb => (ws_facts b (h' b hb)).2.1] at this

theorem ws_no60 (x : Bytes) (h : x.all wsB = true) : (60 : UInt8) ∉ x :=
  fun hm => (ws_facts 60 (List.all_eq_true.mp h 60 hm)).2.2 rfl

/-- The scanner crosses the part from an empty identifier, collecting only allowed urls. -/
def PartRun (t : Bytes) : Prop :=
  ∀ us, ∃ id' us', Run (N [] us) t (N id' (us ++ us')) ∧ us'.all Css.urlAllowed = true

def PartGood (part : Bytes) : Prop := PartRun part ∧ (60 : UInt8) ∉ part

theorem parts_good (parts : List Bytes) (hne : parts ≠ []) (h : ∀ part ∈ parts, PartGood part) :
    PartGood (joinComma parts) := by
  induction parts with
  | nil => exact absurd rfl hne
  | cons l ls ih =>
    cases ls with
    | nil => simpa [joinComma] using h l (by simp)
    | cons l' ls =>
      have h1 := h l (by simp)
      have h2 := ih (by simp) (fun part hp => h part (List.mem_cons_of_mem _ hp))
      refine ⟨fun us => ?_, ?_⟩
      · obtain ⟨id1, us1, r1, a1⟩ := h1.1 us
        obtain ⟨id2, us2, r2, a2⟩ := h2.1 (us ++ us1)
        refine ⟨id2, us1 ++ us2, ?_, by simp [a1, a2]⟩
        have rc : Run (N id1 (us ++ us1)) [44] (N [] (us ++ us1)) := by
          simpa [identStep, Css.isIdentByte] using run_inert1 44 (by decide) id1 (us ++ us1)
        have := Run.append r1 (Run.append rc r2)
        simpa [joinComma, List.append_assoc] using this
      · simp only [joinComma, List.mem_append, List.mem_cons, not_or]
        exact ⟨h1.2, by decide, h2.2⟩

theorem PartGood.valueGood {w : Bytes} (h : PartGood w) : ValueGood w := by
  obtain ⟨id', us', r, a⟩ := h.1 []
  exact ValueGood.of_run (by simpa using r) a h.2

/-- `ws ++ core ++ ws` -/
theorem partGood_trim (part : Bytes) (h : PartGood (trimSpace part)) : PartGood part := by
  obtain ⟨a, b, e, ha, hb⟩ := trim_spec part
  generalize trimSpace part = t at e h
  subst e
  refine ⟨fun us => ?_, ?_⟩
  · obtain ⟨id1, us1, r1, a1⟩ := h.1 us
    have h' := List.all_eq_true.mp hb
    have rb := run_inert b (List.all_eq_true.mpr fun c hc => (ws_facts c (h' c hc)).1) id1 (us ++ us1)
    exact ⟨_, us1, Run.append (Run.append (run_ws a ha us) r1) rb, a1⟩
  · simp only [List.mem_append, not_or]
    exact ⟨⟨ws_no60 a ha, h.2⟩, ws_no60 b hb⟩

/-! ### font-family -/

def fontSet : Bytes := Generated.sanitizeFontFamilyContainsAny.getD 0 []

def factFont (b : UInt8) : Bool := fontSet.contains b || (strB 34 b && b != 60)
set_option maxRecDepth 8000 in
theorem factFont_all : ∀ n : Nat, n < 256 → factFont (UInt8.ofNat n) = true := by decide

theorem font_facts (b : UInt8) (h : fontSet.contains b = false) : strB 34 b = true ∧ b ≠ 60 := by
  have h2 := forall_byte (P := fun b => factFont b = true) factFont_all b
  simp only [factFont, h, Bool.false_or, Bool.and_eq_true, bne_iff_ne, ne_eq] at h2
  exact h2

def factGen (b : UInt8) : Bool := !(isAlpha b || b == 45 || b == 32) || (inertB b && b != 60)
set_option maxRecDepth 8000 in
theorem factGen_all : ∀ n : Nat, n < 256 → factGen (UInt8.ofNat n) = true := by decide

theorem gen_facts (b : UInt8) (h : (isAlpha b || b == 45 || b == 32) = true) : inertB b = true ∧ b ≠ 60 := by
  have h2 := forall_byte (P := fun b => factGen b = true) factGen_all b
  simp only [factGen, h, Bool.not_true, Bool.false_or, Bool.and_eq_true, bne_iff_ne, ne_eq] at h2
  exact h2

theorem partGood_inert (t : Bytes) (h : ∀ b ∈ t, inertB b = true ∧ b ≠ 60) : PartGood t := by
  refine ⟨fun us => ⟨t.foldl identStep [], [], ?_, rfl⟩, fun hm => (h 60 hm).2 rfl⟩
  simpa using run_inert t (List.all_eq_true.mpr fun b hb => (h b hb).1) [] us

theorem quoted_shape (t : Bytes) (hp : hasPrefix t [34] = true) (hl : ¬ t.length < 2)
    (hs : hasSuffix t [34] = true) :
    ∃ inner, t = 34 :: inner ++ [34] ∧ (t.drop 1).take (t.length - 2) = inner := by
  simp only [hasPrefix, hasSuffix, List.isPrefixOf_iff_prefix, List.isSuffixOf_iff_suffix] at hp hs
  obtain ⟨r, rfl⟩ := hp
  obtain ⟨u, hu⟩ := hs
  cases u with
  | nil =>
    simp at hu
    subst hu; simp at hl
  | cons c u =>
    simp only [List.cons_append, List.nil_append, List.cons.injEq] at hu
    obtain ⟨rfl, rfl⟩ := hu
    exact ⟨u, by simp, by simp⟩

theorem fontPart_good (t : Bytes) (h : fontPartOk t = true) : PartGood t := by
  unfold fontPartOk at h
  split at h
  · rename_i hp
    simp only [Bool.not_eq_true', Bool.or_eq_false_iff, decide_eq_false_iff_not, Bool.not_eq_false'] at h
    obtain ⟨inner, rfl, e⟩ := quoted_shape t hp h.1.1 h.1.2
    have hc := h.2
    rw [e] at hc
    have hin : ∀ b ∈ inner, strB 34 b = true ∧ b ≠ 60 := by
      intro b hb
      apply font_facts
      simp only [containsAny, List.any_eq_false] at hc
      simpa [fontSet] using hc b hb
    refine ⟨fun us => ⟨[], [], ?_, rfl⟩, ?_⟩
    · have r1 := run_open_quote 34 (Or.inl rfl) [] us
      have r2 := run_str 34 inner (List.all_eq_true.mpr fun b hb => (hin b hb).1) [] [] false us
      have r3 := run_close_quote 34 [] ([] ++ inner) us
      have := Run.append r1 (Run.append r2 r3)
      simpa [N] using this
    · simp only [List.mem_cons, List.mem_append, List.mem_nil_iff, or_false, not_or]
      exact ⟨⟨by decide, fun hm => (hin 60 hm).2 rfl⟩, by decide⟩
  · cases t with
    | nil => simp [matchGenericFont] at h
    | cons b rest =>
      simp only [matchGenericFont, Bool.and_eq_true, List.all_eq_true] at h
      apply partGood_inert
      intro c hc
      rcases List.mem_cons.mp hc with rfl | hc
      · exact gen_facts c (by simp [h.1.1])
      · exact gen_facts c (h.2 c hc)

theorem fontFamily_good (v : Bytes) : ValueGood (sanitizeFontFamily v) := by
  unfold sanitizeFontFamily
  split
  · rename_i h
    have h' := List.all_eq_true.mp h
    have := parts_good (splitComma v) (splitComma_ne_nil v) fun part hp =>
      partGood_trim part (fontPart_good _ (h' part hp))
    rw [joinComma_splitComma] at this
    exact this.valueGood
  · exact innocuous_good

/-! ### urls: what Go's scheme test accepts, a browser resolves with no scheme or http/https/mailto -/

theorem dropWhile_none {p : UInt8 → Bool} (l : Bytes) (h : ∀ b ∈ l, p b = false) : l.dropWhile p = l := by
  cases l with
  | nil => rfl
  | cons a l => simp [h a (by simp)]

def factC0 (b : UInt8) : Bool :=
  (decide (b < 0x20) || b == 0x20) || (!Whatwg.isC0OrSpace b && !Whatwg.isTabOrNewline b)
set_option maxRecDepth 8000 in
theorem factC0_all : ∀ n : Nat, n < 256 → factC0 (UInt8.ofNat n) = true := by decide

theorem c0_facts (b : UInt8) (h1 : ¬ b < 0x20) (h2 : b ≠ 0x20) :
    Whatwg.isC0OrSpace b = false ∧ Whatwg.isTabOrNewline b = false := by
  have h := forall_byte (P := fun b => factC0 b = true) factC0_all b
  simpa [factC0, h1, h2] using h

theorem preprocess_id (u : Bytes) (h : ∀ b ∈ u, ¬ b < 0x20 ∧ b ≠ 0x20) : Whatwg.preprocess u = u := by
  have h1 : ∀ b ∈ u, Whatwg.isC0OrSpace b = false := fun b hb => (c0_facts b (h b hb).1 (h b hb).2).1
  have h2 : ∀ b ∈ u, Whatwg.isTabOrNewline b = false := fun b hb => (c0_facts b (h b hb).1 (h b hb).2).2
  simp only [Whatwg.preprocess]
  rw [dropWhile_none u h1, dropWhile_none u.reverse (fun b hb => h1 b (List.mem_reverse.mp hb)),
    List.reverse_reverse, List.filter_eq_self]
  intro b hb
  simp [h2 b hb]

theorem schemeState_some (l : Bytes) : ∀ (acc sc : Bytes), Whatwg.schemeState acc l = some sc →
    ∃ x y, l = x ++ 58 :: y ∧ x.all Whatwg.isSchemeChar = true ∧ sc = acc ++ x.map Whatwg.lower := by
  induction l with
  | nil => intro acc sc h; simp [Whatwg.schemeState] at h
  | cons b rest ih =>
    intro acc sc h
    simp only [Whatwg.schemeState] at h
    split at h
    · rename_i hb
      obtain ⟨x, y, e, hx, hsc⟩ := ih _ _ h
      exact ⟨b :: x, y, by simp [e], by simp [hb, hx], by simp [hsc]⟩
    · split at h
      · rename_i hb
        simp only [beq_iff_eq] at hb
        simp only [Option.some.injEq] at h
        exact ⟨[], rest, by simp [hb], by simp, by simp [h]⟩
      · cases h

def factScheme (b : UInt8) : Bool :=
  !Whatwg.isSchemeChar b ||
    (b != 35 && b != 58 && decide (lower b < 0x80) && Whatwg.lower (lower b) == Whatwg.lower b &&
      (isAlpha b || isDigit b || b == 43 || b == 45 || b == 46) && (isAlpha b == Whatwg.isAlpha b))
set_option maxRecDepth 8000 in
theorem factScheme_all : ∀ n : Nat, n < 256 → factScheme (UInt8.ofNat n) = true := by decide

theorem scheme_facts (b : UInt8) (h : Whatwg.isSchemeChar b = true) :
    b ≠ 35 ∧ b ≠ 58 ∧ lower b < 0x80 ∧ Whatwg.lower (lower b) = Whatwg.lower b ∧
      (isAlpha b || isDigit b || b == 43 || b == 45 || b == 46) = true ∧ isAlpha b = Whatwg.isAlpha b := by
  have h2 := forall_byte (P := fun b => factScheme b = true) factScheme_all b
  simp only [factScheme, h, Bool.not_true, Bool.false_or, Bool.and_eq_true, bne_iff_ne, ne_eq,
    decide_eq_true_eq, beq_iff_eq] at h2
  obtain ⟨⟨⟨⟨⟨a, b⟩, c⟩, d⟩, e⟩, f⟩ := h2
  exact ⟨a, b, c, d, e, f⟩

theorem getSchemeAux_good (x : Bytes) : ∀ (i : Nat) (acc y : Bytes), i ≠ 0 → x.all Whatwg.isSchemeChar = true →
    getSchemeAux i acc (x ++ 58 :: y) = some (some (acc ++ x)) := by
  induction x with
  | nil => intro i acc y hi _; simp [getSchemeAux, isAlpha, isDigit, hi]
  | cons b x ih =>
    intro i acc y hi hx
    simp only [List.all_cons, Bool.and_eq_true] at hx
    have hf := (scheme_facts b hx.1).2.2.2.2.1
    simp only [List.cons_append, getSchemeAux]
    by_cases ha : isAlpha b = true
    · simp only [ha, if_true]
      rw [ih _ _ _ (by omega) hx.2]; simp
    · simp only [ha, Bool.false_or] at hf
      simp only [ha, hf, if_true, Bool.false_eq_true, if_false]
      have : (i == 0) = false := by simpa using hi
      simp only [this, Bool.false_eq_true, if_false]
      rw [ih _ _ _ (by omega) hx.2]; simp

theorem goScheme_of_scheme (b : UInt8) (x y : Bytes) (hb : Whatwg.isAlpha b = true)
    (hx : x.all Whatwg.isSchemeChar = true) : goScheme (b :: x ++ 58 :: y) = some (some (b :: x)) := by
  have hbs : Whatwg.isSchemeChar b = true := by simp [Whatwg.isSchemeChar, hb]
  have e : beforeHash (b :: x ++ 58 :: y) = (b :: x) ++ 58 :: (y.takeWhile (· != 35)) := by
    simp only [beforeHash]
    have : b :: x ++ 58 :: y = (b :: x ++ [58]) ++ y := by simp
    rw [this, List.takeWhile_append_of_pos]
    · simp
    · intro a ha
      simp only [List.cons_append, List.mem_cons, List.mem_append, List.mem_nil_iff, or_false] at ha
      rcases ha with rfl | ha | rfl
      · simpa using (scheme_facts a hbs).1
      · simpa using (scheme_facts a (List.all_eq_true.mp hx a ha)).1
      · decide
  have ha : isAlpha b = true := by rw [(scheme_facts b hbs).2.2.2.2.2]; exact hb
  rw [goScheme, e]
  simp only [List.cons_append, getSchemeAux, ha, if_true]
  rw [getSchemeAux_good x _ _ _ (by omega) hx]; simp

theorem schemes_lower' : ∀ t ∈ cssUrlSchemes, t.all Proofs.Url.isLowerLetter = true ∧ t ∈ Css.cssAllowedSchemes := by
  decide

/-- The part in front of the first `#` of a URL that `urlIsSafe` accepts has no control byte. -/
theorem noCTL_of_safe (parseOk : Bytes → Bool) (u : Bytes) (h : urlIsSafe parseOk u = true) :
    ∀ b ∈ beforeHash u, ¬ (b < 32 ∨ b = 127) := by
  simp only [urlIsSafe, parseChecks, Bool.and_eq_true, Bool.not_eq_true'] at h
  obtain ⟨⟨_, hctl, _⟩, _⟩ := h
  intro b hb
  simp only [hasCTL, List.any_eq_false, Bool.or_eq_true, decide_eq_true_eq, beq_iff_eq] at hctl
  exact hctl b hb

def factHead (b : UInt8) : Bool := (decide (b < 32) || b == 32) || !Whatwg.isC0OrSpace b
set_option maxRecDepth 8000 in
theorem factHead_all : ∀ n : Nat, n < 256 → factHead (UInt8.ofNat n) = true := by decide

theorem head_facts (b : UInt8) (h1 : ¬ b < 32) (h2 : b ≠ 32) : Whatwg.isC0OrSpace b = false := by
  have h := forall_byte (P := fun b => factHead b = true) factHead_all b
  simpa [factHead, h1, h2] using h

/-- Pre-processing only strips a (possibly empty) tail when the first byte is neither a C0 control nor a
    space and no TAB / LF / CR occurs anywhere. -/
theorem preprocess_prefix (u : Bytes) (hhead : ∀ a l, u = a :: l → Whatwg.isC0OrSpace a = false)
    (htn : ∀ b ∈ u, Whatwg.isTabOrNewline b = false) : ∃ t, u = Whatwg.preprocess u ++ t := by
  have e1 : u.dropWhile Whatwg.isC0OrSpace = u := by
    cases u with
    | nil => rfl
    | cons a l => simp [hhead a l rfl]
  have e2 : u = (u.reverse.dropWhile Whatwg.isC0OrSpace).reverse ++
      (u.reverse.takeWhile Whatwg.isC0OrSpace).reverse := by
    rw [← List.reverse_append, List.takeWhile_append_dropWhile, List.reverse_reverse]
  refine ⟨(u.reverse.takeWhile Whatwg.isC0OrSpace).reverse, ?_⟩
  simp only [Whatwg.preprocess, e1]
  rw [List.filter_eq_self.mpr]
  · exact e2
  · intro b hb
    have hm : b ∈ u := by
      rw [e2]; exact List.mem_append_left _ hb
    simp [htn b hm]

theorem urlAllowed_of_safe (parseOk : Bytes → Bool) (u : Bytes) (h : urlIsSafe parseOk u = true)
    (hws : ∀ b ∈ u, b ≠ 32 ∧ b ≠ 9 ∧ b ≠ 10 ∧ b ≠ 13) : Css.urlAllowed u = true := by
  have hctl := noCTL_of_safe parseOk u h
  simp only [urlIsSafe, parseChecks, Bool.and_eq_true, Bool.not_eq_true'] at h
  obtain ⟨_, hsch⟩ := h
  have hhead : ∀ a l, u = a :: l → Whatwg.isC0OrSpace a = false := by
    intro a l e
    by_cases ha : a = 35
    · subst ha; decide
    · have hm : a ∈ beforeHash u := by
        subst e; simp [beforeHash, ha]
      exact head_facts a (fun hlt => hctl a hm (Or.inl hlt)) (hws a (by subst e; simp)).1
  have htn : ∀ b ∈ u, Whatwg.isTabOrNewline b = false := by
    intro b hb
    obtain ⟨_, h9, h10, h13⟩ := hws b hb
    simp [Whatwg.isTabOrNewline, h9, h10, h13]
  obtain ⟨t, hu⟩ := preprocess_prefix u hhead htn
  simp only [Css.urlAllowed, Whatwg.scheme]
  generalize Whatwg.preprocess u = s2 at hu
  subst hu
  cases s2 with
  | nil => rfl
  | cons b rest =>
    simp only
    split
    · rfl
    · rename_i sc hs
      split at hs
      · rename_i hba
        obtain ⟨x, y, rfl, hx, rfl⟩ := schemeState_some _ _ _ hs
        rw [show b :: (x ++ 58 :: y) ++ t = b :: x ++ 58 :: (y ++ t) by simp,
          goScheme_of_scheme b x (y ++ t) hba hx] at hsch
        simp only [List.any_eq_true] at hsch
        obtain ⟨t, ht, he⟩ := hsch
        obtain ⟨htl, htm⟩ := schemes_lower' t ht
        have hbs : Whatwg.isSchemeChar b = true := by simp [Whatwg.isSchemeChar, hba]
        have hall : ∀ c ∈ b :: x, Whatwg.isSchemeChar c = true := by
          intro c hc
          rcases List.mem_cons.mp hc with rfl | hc
          · exact hbs
          · exact List.all_eq_true.mp hx c hc
        rcases Proofs.Url.equalFoldAux_letters t htl _ _ he with ⟨c, hc, hc80⟩ | ⟨_, g2⟩
        · obtain ⟨a, ha, rfl⟩ := List.mem_map.mp hc
          have := (scheme_facts a (hall a ha)).2.2.1
          exact absurd hc80 (UInt8.not_le.mpr this)
        · have e : [Whatwg.lower b] ++ x.map Whatwg.lower = t := by
            rw [← g2, List.map_map]
            have : (b :: x).map (Whatwg.lower ∘ lower) = (b :: x).map Whatwg.lower :=
              List.map_congr_left fun a ha => (scheme_facts a (hall a ha)).2.2.2.1
            rw [this]; simp
          rw [e]
          simpa using htm
      · cases hs

/-! ### background-image -/

def bgSet : Bytes := Generated.sanitizeBackgroundImageContainsAny.getD 1 []

def factBg (b : UInt8) : Bool :=
  bgSet.contains b ||
    (strB 34 b && strB 39 b && b != 32 && b != 41 && ((decide (b < 32) || b == 127) || urlB b))
set_option maxRecDepth 8000 in
theorem factBg_all : ∀ n : Nat, n < 256 → factBg (UInt8.ofNat n) = true := by decide

theorem bg_facts (b : UInt8) (h : bgSet.contains b = false) :
    strB 34 b = true ∧ strB 39 b = true ∧ b ≠ 32 ∧ b ≠ 41 ∧ ((b < 32 ∨ b = 127) ∨ urlB b = true) := by
  have h2 := forall_byte (P := fun b => factBg b = true) factBg_all b
  simp only [factBg, h, Bool.false_or, Bool.and_eq_true, bne_iff_ne, ne_eq, Bool.or_eq_true,
    decide_eq_true_eq, beq_iff_eq] at h2
  obtain ⟨⟨⟨⟨a, b⟩, c⟩, d⟩, e⟩ := h2
  exact ⟨a, b, c, d, e⟩

theorem run_url_word (us : List Bytes) : Run (N [] us) [117, 114, 108] (N Css.urlIdent us) := by
  have := run_inert [117, 114, 108] (by decide) [] us
  have e : ([117, 114, 108] : Bytes).foldl identStep [] = Css.urlIdent := by decide
  rwa [e] at this

theorem bg_quoted (q : UInt8) (hq : q = 34 ∨ q = 39) (body : Bytes)
    (hbody : ∀ b ∈ body, bgSet.contains b = false) (hsafe : Css.urlAllowed body = true) :
    PartRun ([117, 114, 108, 40, q] ++ body ++ [q, 41]) := by
  intro us
  refine ⟨[], [body], ?_, by simp [hsafe]⟩
  have hs : body.all (strB q) = true := by
    apply List.all_eq_true.mpr
    intro b hb
    rcases hq with rfl | rfl
    · exact (bg_facts b (hbody b hb)).1
    · exact (bg_facts b (hbody b hb)).2.1
  have r1 := run_url_word us
  have r2 := run_open_url us
  have r3 := run_url_quote q hq us
  have r4 := run_str q body hs [41] [] true us
  have r5 := run_close_quote_url q [41] ([] ++ body) us
  have r6 := run_close_paren (us ++ [[] ++ body])
  have := Run.append r1 (Run.append r2 (Run.append r3 (Run.append r4 (Run.append r5 r6))))
  simpa using this

def factBg2 (b : UInt8) : Bool := bgSet.contains b || (badB b && (ctlB b || urlB b))
set_option maxRecDepth 8000 in
theorem factBg2_all : ∀ n : Nat, n < 256 → factBg2 (UInt8.ofNat n) = true := by decide

theorem bg_facts2 (b : UInt8) (h : bgSet.contains b = false) : badB b = true ∧ (ctlB b = true ∨ urlB b = true) := by
  have h2 := forall_byte (P := fun b => factBg2 b = true) factBg2_all b
  simp only [factBg2, h, Bool.false_or, Bool.and_eq_true, Bool.or_eq_true] at h2
  exact h2

/-- The body of an unquoted `url(` token whose bytes are all outside `bgSet`: either every byte is an ordinary
    url byte and the body is accumulated, or the first control byte turns the token into a bad url, whose
    remnants (no `)`, no backslash) are consumed without recording anything. -/
theorem run_url_body (body : Bytes) (hbody : ∀ b ∈ body, bgSet.contains b = false) (cur : Bytes)
    (us : List Bytes) :
    Run ⟨.url, [41], [], cur, false, us⟩ body ⟨.url, [41], [], cur ++ body, false, us⟩ ∨
    Run ⟨.url, [41], [], cur, false, us⟩ body ⟨.badUrl, [41], [], [], false, us⟩ := by
  induction body generalizing cur with
  | nil => left; simpa using Run.nil _
  | cons b x ih =>
    have hx : ∀ c ∈ x, bgSet.contains c = false := fun c hc => hbody c (List.mem_cons_of_mem _ hc)
    rcases (bg_facts2 b (hbody b (by simp))).2 with hb | hb
    · right
      have hbad : x.all badB = true := List.all_eq_true.mpr fun c hc => (bg_facts2 c (hx c hc)).1
      have := Run.append (run_url_ctl1 b hb cur us) (run_bad x hbad us)
      simpa using this
    · rcases ih hx (cur ++ [b]) with r | r
      · left
        have := Run.append (run_url1 b hb cur us) r
        simpa using this
      · right
        have := Run.append (run_url1 b hb cur us) r
        simpa using this

/-- `url(body)`: either the body is recorded as a url (and it is allowed), or the token is a bad url and
    nothing is recorded. -/
theorem bg_unquoted (body : Bytes) (hbody : ∀ b ∈ body, bgSet.contains b = false)
    (hsafe : Css.urlAllowed body = true) :
    PartRun ([117, 114, 108, 40] ++ body ++ [41]) := by
  intro us
  have r1 := run_url_word us
  have r2 := run_open_url us
  rcases run_url_body body hbody [] us with r4 | r4
  · refine ⟨[], [body], ?_, by simp [hsafe]⟩
    have r5 := run_url_close ([] ++ body) us
    have := Run.append r1 (Run.append r2 (Run.append r4 r5))
    simpa using this
  · refine ⟨[], [], ?_, rfl⟩
    have r5 := run_bad_close us
    have := Run.append r1 (Run.append r2 (Run.append r4 r5))
    simpa using this

theorem strip_shape (t pre suf : Bytes) (hp : hasPrefix t pre = true) (hs : hasSuffix t suf = true) :
    t = pre ++ trimSuffix (trimPrefix t pre) suf ++ suf ∨
    (∃ r, t = pre ++ r ∧ r.length < suf.length ∧ trimSuffix (trimPrefix t pre) suf = r) := by
  have hp' := hp
  simp only [hasPrefix, hasSuffix, List.isPrefixOf_iff_prefix, List.isSuffixOf_iff_suffix] at hp' hs
  obtain ⟨r, rfl⟩ := hp'
  have e1 : trimPrefix (pre ++ r) pre = r := by simp [trimPrefix, hp]
  rw [e1]
  by_cases hl : suf.length ≤ r.length
  · left
    have hs' : suf <:+ r := List.suffix_of_suffix_length_le hs (List.suffix_append pre r) hl
    obtain ⟨u, rfl⟩ := hs'
    have : trimSuffix (u ++ suf) suf = u := by
      simp [trimSuffix, hasSuffix]
    rw [this]; simp
  · right
    refine ⟨r, rfl, by omega, ?_⟩
    have : hasSuffix r suf = false := by
      apply Bool.eq_false_iff.mpr
      intro h
      simp only [hasSuffix, List.isSuffixOf_iff_suffix] at h
      exact hl h.length_le
    simp [trimSuffix, this]

def factBgWs (b : UInt8) : Bool := bgSet.contains b || (b != 32 && b != 9 && b != 10 && b != 13)
set_option maxRecDepth 8000 in
theorem factBgWs_all : ∀ n : Nat, n < 256 → factBgWs (UInt8.ofNat n) = true := by decide

/-- space, TAB, LF and CR are in the set the url body may not contain -/
theorem ws_out_of_bg (b : UInt8) (h : bgSet.contains b = false) : b ≠ 32 ∧ b ≠ 9 ∧ b ≠ 10 ∧ b ≠ 13 := by
  have h2 := forall_byte (P := fun b => factBgWs b = true) factBgWs_all b
  simp only [factBgWs, h, Bool.false_or, Bool.and_eq_true, bne_iff_ne, ne_eq] at h2
  exact ⟨h2.1.1.1, h2.1.1.2, h2.1.2, h2.2⟩

theorem bgCore_run (parseOk : Bytes → Bool) (t body : Bytes)
    (hstrip : stripUrl t Generated.validURLPrefixes Generated.validURLSuffixes = some body)
    (hbody : containsAny body bgSet = false) (hsafe : urlIsSafe parseOk body = true) : PartRun t := by
  have hb : ∀ b ∈ body, bgSet.contains b = false := by
    simpa [containsAny, List.any_eq_false] using hbody
  have hws : ∀ b ∈ body, b ≠ 32 ∧ b ≠ 9 ∧ b ≠ 10 ∧ b ≠ 13 := fun b hm => ws_out_of_bg b (hb b hm)
  have h41 : (41 : UInt8) ∉ body := fun hm => (bg_facts 41 (hb 41 hm)).2.2.2.1 rfl
  have hallowed := urlAllowed_of_safe parseOk body hsafe hws
  simp only [stripUrl, Generated.validURLPrefixes, Generated.validURLSuffixes] at hstrip
  split at hstrip
  · rename_i h
    simp only [Bool.and_eq_true] at h
    simp only [Option.some.injEq] at hstrip
    rcases strip_shape t _ _ h.1 h.2 with e | ⟨r, e, hl, hr⟩
    · rw [hstrip] at e
      rw [e]; exact bg_quoted 34 (Or.inl rfl) body hb hallowed
    · rw [hstrip] at hr; subst hr
      have h2 := h.2
      rw [e] at h2
      match body, hl, h2, h41 with
      | [], _, h2, _ => exact absurd h2 (by decide)
      | [x], _, h2, h41 =>
        simp [hasSuffix, List.isSuffixOf] at h2
        simp at h41
        exact absurd h2 h41
      | _ :: _ :: _, hl, _, _ => simp only [List.length_cons, List.length_nil] at hl; omega
  · split at hstrip
    · rename_i h
      simp only [Bool.and_eq_true] at h
      simp only [Option.some.injEq] at hstrip
      rcases strip_shape t _ _ h.1 h.2 with e | ⟨r, e, hl, hr⟩
      · rw [hstrip] at e
        rw [e]; exact bg_quoted 39 (Or.inr rfl) body hb hallowed
      · rw [hstrip] at hr; subst hr
        have h2 := h.2
        rw [e] at h2
        match body, hl, h2, h41 with
        | [], _, h2, _ => exact absurd h2 (by decide)
        | [x], _, h2, h41 =>
          simp [hasSuffix, List.isSuffixOf] at h2
          simp at h41
          exact absurd h2 h41
        | _ :: _ :: _, hl, _, _ => simp only [List.length_cons, List.length_nil] at hl; omega
    · split at hstrip
      · rename_i h
        simp only [Bool.and_eq_true] at h
        simp only [Option.some.injEq] at hstrip
        rcases strip_shape t _ _ h.1 h.2 with e | ⟨r, e, hl, hr⟩
        · rw [hstrip] at e
          rw [e]; exact bg_unquoted body hb hallowed
        · rw [hstrip] at hr; subst hr
          have h2 := h.2
          rw [e] at h2
          match body, hl, h2 with
          | [], _, h2 => exact absurd h2 (by decide)
          | _ :: _, hl, _ => simp at hl
      · cases hstrip

theorem bgPart_good (parseOk : Bytes → Bool) (part : Bytes) (h : bgPartOk parseOk part = true)
    (h60 : (60 : UInt8) ∉ part) : PartGood part := by
  apply partGood_trim
  have h60' : (60 : UInt8) ∉ trimSpace part := by
    obtain ⟨a, b, e, _, _⟩ := trim_spec part
    intro hm
    apply h60
    rw [e]; simp [hm]
  simp only [bgPartOk] at h
  split at h
  · cases h
  · rename_i body hs
    simp only [Bool.and_eq_true, Bool.not_eq_true'] at h
    exact ⟨bgCore_run parseOk _ body hs h.1 h.2, h60'⟩

theorem backgroundImage_good (parseOk : Bytes → Bool) (v : Bytes) :
    ValueGood (sanitizeBackgroundImage parseOk v) := by
  unfold sanitizeBackgroundImage
  split
  · exact innocuous_good
  · rename_i h0
    split
    · rename_i h
      have h' := List.all_eq_true.mp h
      have h60 : (60 : UInt8) ∉ v := by
        intro hm
        apply h0
        simp only [containsAny, List.any_eq_true]
        exact ⟨60, hm, by decide⟩
      have := parts_good (splitComma v) (splitComma_ne_nil v) fun part hp =>
        bgPart_good parseOk part (h' part hp) fun hm =>
          h60 (by have := mem_joinComma hp hm; rwa [joinComma_splitComma] at this)
      rw [joinComma_splitComma] at this
      exact this.valueGood
    · exact innocuous_good

/-! ### the main theorem -/

theorem sanitizeValue_good (parseOk : Bytes → Bool) (prop v : Bytes) :
    ValueGood (sanitizeValue parseOk prop v) := by
  unfold sanitizeValue
  split
  · split
    · exact backgroundImage_good parseOk v
    · split
      · exact fontFamily_good v
      · split
        · exact enum_good v
        · split
          · exact regular_good v
          · exact innocuous_good
  · exact regular_good v

def factName (b : UInt8) : Bool := !(b == 45 || (decide (97 ≤ b) && decide (b ≤ 122))) || (inertB b && b != 60)
set_option maxRecDepth 8000 in
theorem factName_all : ∀ n : Nat, n < 256 → factName (UInt8.ofNat n) = true := by decide

theorem name_facts (b : UInt8) (h : b = 45 ∨ (97 ≤ b ∧ b ≤ 122)) : inertB b = true ∧ b ≠ 60 := by
  have h2 := forall_byte (P := fun b => factName b = true) factName_all b
  have h' : (b == 45 || (decide (97 ≤ b) && decide (b ≤ 122))) = true := by simpa using h
  simp only [factName, h', Bool.not_true, Bool.false_or, Bool.and_eq_true, bne_iff_ne, ne_eq] at h2
  exact h2

/-- Main safety theorem: whatever `net/url.Parse` answers (`parseOk` is arbitrary), the sanitised pair is
    safely ONE declaration: the scanner specification ends it exactly at the `;` written after the value, for
    every continuation, every url() in it has no scheme or http/https/mailto, and neither part contains `<`. -/
theorem sanitize_declSafe (parseOk : Bytes → Bool) (p v : Bytes) :
    Css.DeclSafe (sanitize parseOk p v).1 (sanitize parseOk p v).2 := by
  unfold sanitize
  simp only
  split
  · exact pair_good _ _ (by decide) (by decide) innocuous_good
  · rename_i hne
    rcases sanitizeProperty_shape p with h | ⟨_, h⟩
    · simp [h] at hne
    · refine pair_good _ _ (List.all_eq_true.mpr fun b hb => (name_facts b (h b hb)).1)
        (fun hm => (name_facts 60 (h 60 hm)).2 rfl) (sanitizeValue_good parseOk _ v)

/-- Non-vacuity of the two new paths: `background-image: url(#\x01)` is kept by the sanitiser and scanned as a
    bad url (nothing recorded); `url("a#\x7f")` is kept and its body is recorded and allowed. -/
example :
    (sanitize (fun _ => true) [98, 97, 99, 107, 103, 114, 111, 117, 110, 100, 45, 105, 109, 97, 103, 101]
      [117, 114, 108, 40, 35, 1, 41]).2 = [117, 114, 108, 40, 35, 1, 41] ∧
    Css.scanDecl ([98, 97, 99, 107, 103, 114, 111, 117, 110, 100, 45, 105, 109, 97, 103, 101] ++ [58] ++
      [117, 114, 108, 40, 35, 1, 41] ++ [59] ++ [120]) = some (24, []) := by decide
example :
    (sanitize (fun _ => true) [98, 97, 99, 107, 103, 114, 111, 117, 110, 100, 45, 105, 109, 97, 103, 101]
      [117, 114, 108, 40, 34, 97, 35, 127, 34, 41]).2 = [117, 114, 108, 40, 34, 97, 35, 127, 34, 41] ∧
    Css.scanDecl ([98, 97, 99, 107, 103, 114, 111, 117, 110, 100, 45, 105, 109, 97, 103, 101] ++ [58] ++
      [117, 114, 108, 40, 34, 97, 35, 127, 34, 41] ++ [59] ++ [120]) = some (27, [[97, 35, 127]]) := by decide

/-- Style-attribute items: after the browser's attribute-value decoding the item is `name:value;` of the
    sanitised pair. -/
theorem styleItem_decodes (parseOk : Bytes → Bool) (p v rest : Bytes) :
    Html.decodeRefs (styleItem parseOk p v ++ rest) =
      (sanitize parseOk p v).1 ++ [58] ++ (sanitize parseOk p v).2 ++ [59] ++ Html.decodeRefs rest := by
  simp only [styleItem, List.append_assoc]
  rw [Proofs.Html.decode_escape_append]
  have e : ∀ x, Html.decodeRefs ([58] ++ x) = 58 :: Html.decodeRefs x := by
    intro x; simp [Html.decodeRefs]
  have e2 : ∀ x, Html.decodeRefs ([59] ++ x) = 59 :: Html.decodeRefs x := by
    intro x; simp [Html.decodeRefs]
  rw [e, Proofs.Html.decode_escape_append, e2]
  simp

end TemplVerif.Proofs.Css
