import TemplVerif.Model.Denote
import TemplVerif.Proofs.ComposeErr
import TemplVerif.Proofs.PrefixBase
/-
C10 / C12 at the level of whole templates (the semantics `Denote` of C02):

  * a render in which an expression or a component fails has written a PREFIX of what the same template writes when
    nothing fails (`run_prefix`), and has evaluated a prefix of the expressions;
  * the script functions emitted during one render are pairwise different (`run_scripts_nodup`): each definition
    goes out at most once, however often and through whichever nodes it is used.
-/
namespace TemplVerif.Proofs.Prefix
open TemplVerif TemplVerif.Ast TemplVerif.Sem
open TemplVerif.Proofs.Gen TemplVerif.Proofs.Compose TemplVerif.Proofs.PrefixBase

/-- the same value, not failing -/
def clearVal : Val → Val
  | .str s _ => .str s false
  | .comp segs _ => .comp segs false
  | .rawOut s _ => .rawOut s false
  | .jsVal o i _ => .jsVal o i false
  | v => v

/-- the same environment with every failure removed -/
def clearErr (env : Env) : Env := env.map fun (k, en) => (k, { en with val := clearVal en.val })


/-! ### What removing the failures changes: only the failure flags of the values -/

theorem lookup_clear (e : Bytes) : (env : Env) →
    List.lookup e (clearErr env) = (List.lookup e env).map (fun en => { en with val := clearVal en.val })
  | [] => rfl
  | (k, en) :: env => by
    have ih := lookup_clear e env
    simp only [clearErr, List.map_cons, List.lookup_cons] at ih ⊢
    cases e == k <;> simp [ih]

theorem eval_clear (env : Env) (e : Bytes) (st : St) :
    eval (clearErr env) e st = ((eval env e st).1.map clearVal, (eval env e st).2) := by
  unfold eval
  rw [lookup_clear]
  cases List.lookup e env <;> rfl

theorem peek_clear (env : Env) (e : Bytes) : peek (clearErr env) e = (peek env e).map clearVal := by
  unfold peek
  rw [lookup_clear]
  cases List.lookup e env <;> rfl

theorem bind_clear (b : List (Bytes × Bytes)) (env : Env) : Sem.bind b (clearErr env) = clearErr (Sem.bind b env) := by
  simp [Sem.bind, clearErr, clearVal]

theorem R2.refl (p : Bool × St) : R2 p p := Or.inl rfl

theorem R2.of_R {a b : St} (t : Bool) (h : R a b) : R2 (t, a) (t, b) := by
  rcases h with h | h
  · subst h; exact Or.inl rfl
  · exact Or.inr h

/-- case analysis on the result of an evaluation, both sides at once (after rewriting with `eval_clear`) -/
syntax "eval_cases " term:max term:max term:max " with " ident : tactic
macro_rules
  | `(tactic| eval_cases $env $e $s with $s') => `(tactic|
    (generalize eval $env $e $s = r
     rcases r with ⟨v, $s':ident⟩
     (rcases v with _ | v) <;> (try cases v) <;> (try (rename_i err; cases (err : Bool))) <;>
       (try simp [clearVal, R.refl, R2.refl])))

theorem writeEscaped_R (env : Env) (e : Bytes) {a b : St} (h : R a b) :
    R (writeEscaped env e a) (writeEscaped (clearErr env) e b) := by
  refine R.of_same (writeEscaped_err env e) (fun s => writeEscaped_le _ e (Le.refl s)) (fun s hs => ?_) h
  simp only [writeEscaped, hs, Bool.false_eq_true, if_false, eval_clear]
  eval_cases env e s with s'
  exact R.fail_left ((Le.refl _).write _)

theorem caseIndex_clear (env : Env) (v : Bytes) (cs : List Bytes) : caseIndex (clearErr env) v cs = caseIndex env v cs := by
  unfold caseIndex
  simp only
  congr 1
  · congr 1
    funext c
    rw [peek_clear]
    generalize peek env c = p
    rcases p with _ | w
    · rfl
    · cases w <;> rfl
  · funext _
    congr 1
    funext c
    rw [peek_clear]
    generalize peek env c = p
    rcases p with _ | w
    · rfl
    · cases w <;> rfl

mutual
theorem reachedClasses_clear (strict : Bool) (env : Env) : (as : Attrs) →
    Denote.reachedClasses strict (clearErr env) as = Denote.reachedClasses strict env as
  | .nil => by simp [Denote.reachedClasses]
  | .cons a as => by
    rw [Denote.reachedClasses, Denote.reachedClasses, reachedClassesOne_clear strict env a, reachedClasses_clear strict env as]
theorem reachedClassesOne_clear (strict : Bool) (env : Env) : (a : Attr) →
    Denote.reachedClassesOne strict (clearErr env) a = Denote.reachedClassesOne strict env a
  | .boolConst _ => by simp [Denote.reachedClassesOne]
  | .const _ _ _ => by simp [Denote.reachedClassesOne]
  | .boolExpr _ _ => by simp [Denote.reachedClassesOne]
  | .expr _ _ => by simp [Denote.reachedClassesOne]
  | .spread _ => by simp [Denote.reachedClassesOne]
  | .cond c thn els => by
    simp only [Denote.reachedClassesOne, peek_clear, reachedClasses_clear strict env thn, reachedClasses_clear strict env els]
    generalize peek env c = p
    rcases p with _ | w
    · rfl
    · cases w <;> rfl
end

mutual
theorem reachedScripts_clear (strict : Bool) (env : Env) : (as : Attrs) →
    Denote.reachedScripts strict (clearErr env) as = Denote.reachedScripts strict env as
  | .nil => by simp [Denote.reachedScripts]
  | .cons a as => by
    rw [Denote.reachedScripts, Denote.reachedScripts, reachedScriptsOne_clear strict env a, reachedScripts_clear strict env as]
theorem reachedScriptsOne_clear (strict : Bool) (env : Env) : (a : Attr) →
    Denote.reachedScriptsOne strict (clearErr env) a = Denote.reachedScriptsOne strict env a
  | .boolConst _ => by simp [Denote.reachedScriptsOne]
  | .const _ _ _ => by simp [Denote.reachedScriptsOne]
  | .boolExpr _ _ => by simp [Denote.reachedScriptsOne]
  | .expr _ _ => by simp [Denote.reachedScriptsOne]
  | .spread _ => by simp [Denote.reachedScriptsOne]
  | .cond c thn els => by
    simp only [Denote.reachedScriptsOne, peek_clear, reachedScripts_clear strict env thn, reachedScripts_clear strict env els]
    generalize peek env c = p
    rcases p with _ | w
    · rfl
    · cases w <;> rfl
end

theorem announceClasses_clear (env : Env) : (es : List Bytes) → (st : St) →
    Denote.announceClasses (clearErr env) es st = Denote.announceClasses env es st
  | [], st => by simp [Denote.announceClasses]
  | e :: es, st => by
    simp only [Denote.announceClasses, eval_clear]
    split
    · rfl
    · generalize eval env e st = r
      rcases r with ⟨v, s'⟩
      rcases v with _ | v
      · rfl
      · cases v <;> simp [clearVal, announceClasses_clear env es]

theorem evalScripts_clear (env : Env) : (es : List Bytes) → (st : St) →
    evalScripts (clearErr env) es st = evalScripts env es st
  | [], st => by simp [evalScripts]
  | e :: es, st => by
    simp only [evalScripts, eval_clear]
    split
    · rfl
    · generalize eval env e st = r
      rcases r with ⟨v, s'⟩
      rcases v with _ | v
      · rfl
      · cases v <;> simp [clearVal, evalScripts_clear env es]

theorem announceScripts_clear (env : Env) (es : List Bytes) (st : St) :
    Denote.announceScripts (clearErr env) es st = Denote.announceScripts env es st := by
  simp only [Denote.announceScripts, evalScripts_clear]

/-! ### The two renders side by side -/

mutual
theorem attrs_R (css : Bool) (el : Bytes) : (as : Attrs) → (env : Env) → {a b : St} → R a b →
    R (Denote.attrs css el as env a) (Denote.attrs css el as (clearErr env) b)
  | .nil, env, a, b, h => by simpa [Denote.attrs] using h
  | .cons x as, env, a, b, h => by
    rw [Denote.attrs, Denote.attrs]
    exact attrs_R css el as env (attr_R css el x env h)
theorem attr_R (css : Bool) (el : Bytes) : (x : Attr) → (env : Env) → {a b : St} → R a b →
    R (Denote.attr css el x env a) (Denote.attr css el x (clearErr env) b)
  | .boolConst _, env, a, b, h => by rw [Denote.attr, Denote.attr]; exact h.gwrite _
  | .const _ _ _, env, a, b, h => by rw [Denote.attr, Denote.attr]; exact h.gwrite _
  | .boolExpr name e, env, a, b, h => by
    refine R.of_same (attr_err css el _ env) (fun s => attr_le css el _ _ (Le.refl s)) (fun s hs => ?_) h
    simp only [Denote.attr, hs, Bool.false_eq_true, if_false, eval_clear]
    eval_cases env e s with s'
  | .expr name e, env, a, b, h => by
    refine R.of_same (attr_err css el _ env) (fun s => attr_le css el _ _ (Le.refl s)) (fun s hs => ?_) h
    simp only [Denote.attr, hs, Bool.false_eq_true, if_false, eval_clear, peek_clear]
    apply R.gwrite
    split
    · generalize peek env e = p
      rcases p with _ | w
      · exact R.refl _
      · cases w <;> exact R.refl _
    · split
      · exact writeEscaped_R env e (R.refl _)
      · split
        · eval_cases env e (s.write (sp ++ Html.escape name ++ eqDq)) with s'
        · exact writeEscaped_R env e (R.refl _)
  | .spread e, env, a, b, h => by
    refine R.of_same (attr_err css el _ env) (fun s => attr_le css el _ _ (Le.refl s)) (fun s hs => ?_) h
    simp only [Denote.attr, hs, Bool.false_eq_true, if_false, eval_clear]
    eval_cases env e s with s'
    exact R.fail_left ((Le.refl _).write _)
  | .cond e thn els, env, a, b, h => by
    refine R.of_same (attr_err css el _ env) (fun s => attr_le css el _ _ (Le.refl s)) (fun s hs => ?_) h
    simp only [Denote.attr, hs, Bool.false_eq_true, if_false, eval_clear]
    eval_cases env e s with s'
    · exact attrs_R css el els env (R.refl _)
    · exact attrs_R css el thn env (R.refl _)
end

theorem openTag_R (strict css : Bool) (name : Bytes) (as : Attrs) (env : Env) {a b : St} (h : R a b) :
    R (Denote.openTag strict css name as env a) (Denote.openTag strict css name as (clearErr env) b) := by
  refine R.of_same (openTag_err strict css name as env) (fun s => openTag_le strict css name as _ (Le.refl s))
    (fun s hs => ?_) h
  unfold Denote.openTag
  simp only [hs, Bool.false_eq_true, if_false, reachedClasses_clear, reachedScripts_clear, announceClasses_clear,
    announceScripts_clear]
  split
  · exact R.refl _
  · generalize Denote.announceScripts env (Denote.reachedScripts strict env as)
      (if css = true then Denote.announceClasses env (Denote.reachedClasses strict env as) s else s) = s2
    split
    · exact R.refl _
    · exact R.gwrite _ (attrs_R css name as env (R.refl _))

theorem scriptParts_R : (ps : List ScriptPart) → (env : Env) → {a b : St} → R a b →
    R (Denote.scriptParts ps env a) (Denote.scriptParts ps (clearErr env) b)
  | [], env, a, b, h => by simpa [Denote.scriptParts] using h
  | .js v :: rest, env, a, b, h => by
    rw [Denote.scriptParts, Denote.scriptParts]
    exact scriptParts_R rest env (h.gwrite v)
  | .go e inside trail :: rest, env, a, b, h => by
    refine R.of_same (scriptParts_err env _) (fun s => scriptParts_le _ _ (Le.refl s)) (fun s hs => ?_) h
    simp only [Denote.scriptParts, hs, Bool.false_eq_true, if_false, eval_clear]
    eval_cases env e s with s'
    · exact scriptParts_R rest env (R.refl _)
    · exact R.fail_left (scriptParts_le rest _ ((Le.refl _).write _))

theorem iterate_R (f : Env → St → St) (hR : ∀ env {a b : St}, R a b → R (f env a) (f (clearErr env) b)) (env : Env) :
    (bs : List (List (Bytes × Bytes))) → {a b : St} → R a b → R (iterate bs f env a) (iterate bs f (clearErr env) b)
  | [], a, b, h => by simpa [iterate] using h
  | x :: bs, a, b, h => by
    simp only [iterate, List.foldl_cons]
    exact iterate_R f hR env bs (by rw [bind_clear]; exact hR _ h)

theorem R2.elim {f g : St → St} (hf : ∀ s, s.err = true → f s = s)
    (hg : ∀ s, Le s (g s)) (hfg : ∀ s, R (f s) (g s)) : ∀ {p q : Bool × St}, R2 p q →
    R (match p with | (true, st) => st | (false, st) => f st) (match q with | (true, st) => st | (false, st) => g st) := by
  intro p q h
  rcases h with h | ⟨he, hl⟩
  · subst h
    rcases p with ⟨t, s⟩
    cases t
    · exact hfg s
    · exact R.refl _
  · rcases p with ⟨t, s⟩
    rcases q with ⟨t', s'⟩
    have e1 : (match (t, s) with | (true, st) => st | (false, st) => f st) = s := by
      cases t
      · exact hf s he
      · rfl
    rw [e1]
    refine Or.inr ⟨he, hl.trans ?_⟩
    cases t'
    · exact hg s'
    · exact Le.refl _

mutual
theorem node_R (strict : Bool) : (n : Node) → (next : Bool) → (env : Env) → {a b : St} → R a b →
    R (Denote.node strict n next env a) (Denote.node strict n next (clearErr env) b)
  | .doctype v, next, env, a, b, h => by rw [Denote.node, Denote.node]; exact h.gwrite _
  | .element name as children t ia ic, next, env, a, b, h => by
    rw [Denote.node, Denote.node]
    apply space_R
    have h1 := openTag_R strict true name as env h
    generalize Denote.openTag strict true name as env a = a1 at h1 ⊢
    generalize Denote.openTag strict true name as (clearErr env) b = b1 at h1 ⊢
    simp only
    split
    · exact h1
    · exact R.gwrite _ (nodes_R strict true true children false env h1)
  | .htmlComment c, next, env, a, b, h => by rw [Denote.node, Denote.node]; exact h.gwrite _
  | .children, next, env, a, b, h => by
    refine R.of_same (node_frozen strict _ next env) (fun s => node_le strict _ next _ (Le.refl s)) (fun s hs => ?_) h
    simp only [Denote.node, hs, Bool.false_eq_true, if_false, peek_clear]
    generalize peek env childrenKey = p
    rcases p with _ | w
    · exact R.refl _
    · cases w <;> (try (rename_i err; cases (err : Bool))) <;> (try simp [clearVal, R.refl])
      exact R.fail_left ((Le.refl _).write _)
  | .raw name as contents, next, env, a, b, h => by
    rw [Denote.node, Denote.node]
    exact R.gwrite _ (openTag_R strict false name as env h)
  | .script as parts, next, env, a, b, h => by
    rw [Denote.node, Denote.node]
    exact R.gwrite _ (scriptParts_R parts env (openTag_R strict false _ as env h))
  | .forE e body, next, env, a, b, h => by
    refine R.of_same (node_frozen strict _ next env) (fun s => node_le strict _ next _ (Le.refl s)) (fun s hs => ?_) h
    simp only [Denote.node, hs, Bool.false_eq_true, if_false, eval_clear]
    eval_cases env e s with s'
    exact iterate_R _ (fun env _ _ h => nodes_R strict false true body next env h) env _ (R.refl _)
  | .call e, next, env, a, b, h => by
    refine R.of_same (node_frozen strict _ next env) (fun s => node_le strict _ next _ (Le.refl s)) (fun s hs => ?_) h
    simp only [Denote.node, hs, Bool.false_eq_true, if_false, eval_clear]
    eval_cases env e s with s'
    exact R.fail_left (renderSegs_le _ (fun h => h) _ (Le.refl _))
  | .templEl e body, next, env, a, b, h => by
    refine R.of_same (node_frozen strict _ next env) (fun s => node_le strict _ next _ (Le.refl s)) (fun s hs => ?_) h
    simp only [Denote.node, hs, Bool.false_eq_true, if_false, eval_clear]
    eval_cases env e s with s'
    · exact renderSegs_R _ _ (fun h => nodes_le strict false true body false _ h)
        (fun h => nodes_R strict false true body false env h) _ (R.refl _)
    · exact R.fail_left (renderSegs_le _ (fun h => nodes_le strict false true body false _ h) _ (Le.refl _))
  | .ifE e thn elifs els, next, env, a, b, h => by
    refine R.of_same (node_frozen strict _ next env) (fun s => node_le strict _ next _ (Le.refl s)) (fun s hs => ?_) h
    simp only [Denote.node, hs, Bool.false_eq_true, if_false, eval_clear]
    eval_cases env e s with s'
    · exact R2.elim (nodes_frozen strict false true els next env)
        (fun s => nodes_le strict false true els next _ (Le.refl s))
        (fun s => nodes_R strict false true els next env (R.refl s)) (elseIfs_R strict elifs next env s')
    · exact nodes_R strict false true thn next env (R.refl _)
  | .switchE e cs, next, env, a, b, h => by
    refine R.of_same (node_frozen strict _ next env) (fun s => node_le strict _ next _ (Le.refl s)) (fun s hs => ?_) h
    simp only [Denote.node, hs, Bool.false_eq_true, if_false, eval_clear, caseIndex_clear]
    eval_cases env e s with s'
    · split
      · exact case_R strict cs _ next env (R.refl _)
      · exact R.refl _
    · apply R.stick_left
      split
      · exact case_le strict cs _ next _ (Le.refl _)
      · exact Le.refl _
  | .strExpr e t, next, env, a, b, h => by
    rw [Denote.node, Denote.node]
    apply space_R
    split
    · exact h
    · exact writeEscaped_R env e h
  | .goCode e _ _, next, env, a, b, h => by
    refine R.of_same (node_frozen strict _ next env) (fun s => node_le strict _ next _ (Le.refl s)) (fun s hs => ?_) h
    simp only [Denote.node, hs, Bool.false_or, eval_clear]
    split
    · exact R.refl _
    · eval_cases env e s with s'
  | .ws v, next, env, a, b, h => by
    refine R.of_same (node_frozen strict _ next env) (fun s => node_le strict _ next _ (Le.refl s)) (fun s hs => ?_) h
    exact R.refl _
  | .text v t, next, env, a, b, h => by
    rw [Denote.node, Denote.node]
    exact space_R _ _ (h.gwrite v)
  | .goComment _ _, next, env, a, b, h => by rw [Denote.node, Denote.node]; exact h
theorem nodes_R (strict : Bool) : (all atStart : Bool) → (ns : Nodes) → (next : Bool) → (env : Env) → {a b : St} →
    R a b → R (Denote.nodes strict all atStart ns next env a) (Denote.nodes strict all atStart ns next (clearErr env) b)
  | all, atStart, .nil, next, env, a, b, h => by rw [Denote.nodes, Denote.nodes]; exact h
  | all, atStart, .cons n rest, next, env, a, b, h => by
    rw [Denote.nodes, Denote.nodes]
    split
    · exact nodes_R strict all atStart rest next env h
    · exact nodes_R strict all false rest next env (node_R strict n _ env h)
theorem elseIfs_R (strict : Bool) : (es : ElseIfs) → (next : Bool) → (env : Env) → (s : St) →
    R2 (Denote.elseIfs strict es next env s) (Denote.elseIfs strict es next (clearErr env) s)
  | .nil, next, env, s => by rw [Denote.elseIfs, Denote.elseIfs]; exact R2.refl _
  | .cons e thn rest, next, env, s => by
    rw [Denote.elseIfs, Denote.elseIfs, eval_clear]
    eval_cases env e s with s'
    · exact elseIfs_R strict rest next env s'
    · exact R2.of_R true (nodes_R strict false true thn next env (R.refl _))
theorem case_R (strict : Bool) : (cs : Cases) → (i : Nat) → (next : Bool) → (env : Env) → {a b : St} → R a b →
    R (Denote.case strict cs i next env a) (Denote.case strict cs i next (clearErr env) b)
  | .nil, i, next, env, a, b, h => by rw [Denote.case, Denote.case]; exact h
  | .cons _ body _, 0, next, env, a, b, h => by
    rw [Denote.case, Denote.case]; exact nodes_R strict false true body next env h
  | .cons _ _ rest, i + 1, next, env, a, b, h => by
    rw [Denote.case, Denote.case]; exact case_R strict rest i next env h
end

/-- Once a render has failed it writes nothing more, evaluates nothing more and emits no more scripts. -/
theorem nodes_err_frozen (strict all atStart : Bool) (ns : Nodes) (next : Bool) (env : Env) (st : St) (h : st.err = true) :
    (Denote.nodes strict all atStart ns next env st).out = st.out ∧
    (Denote.nodes strict all atStart ns next env st).trace = st.trace ∧
    (Denote.nodes strict all atStart ns next env st).scripts = st.scripts := by
  rw [nodes_frozen strict all atStart ns next env st h]
  exact ⟨rfl, rfl, rfl⟩

/-- A render only ever appends to the document and to the trace. -/
theorem nodes_out_mono (strict all atStart : Bool) (ns : Nodes) (next : Bool) (env : Env) (st : St) :
    st.out <+: (Denote.nodes strict all atStart ns next env st).out ∧
    st.trace <+: (Denote.nodes strict all atStart ns next env st).trace := by
  have h := nodes_le strict all atStart ns next env (Le.refl st)
  exact ⟨h.1, h.2.1⟩

/-- The failing render against the render without failures: started from the same state, either they agree completely, or the
    failing one has stopped with a prefix of the other's document and trace. -/
theorem nodes_prefix (strict all atStart : Bool) (ns : Nodes) (next : Bool) (env : Env) (st : St) :
    (Denote.nodes strict all atStart ns next env st).out <+: (Denote.nodes strict all atStart ns next (clearErr env) st).out ∧
    (Denote.nodes strict all atStart ns next env st).trace <+: (Denote.nodes strict all atStart ns next (clearErr env) st).trace := by
  have h := (nodes_R strict all atStart ns next env (R.refl st)).le
  exact ⟨h.1, h.2.1⟩

theorem run_prefix (body : Nodes) (env : Env) :
    (Denote.run body env).out <+: (Denote.run body (clearErr env)).out ∧
    (Denote.run body env).trace <+: (Denote.run body (clearErr env)).trace :=
  nodes_prefix true true true body false env {}

/-- a failure is the only way the two renders differ: without one they are the same render -/
theorem run_clear_of_ok (body : Nodes) (env : Env) (h : (Denote.run body env).err = false) :
    Denote.run body (clearErr env) = Denote.run body env := by
  rcases nodes_R true true true body false env (R.refl {}) with h' | ⟨he, _⟩
  · exact h'.symm
  · rw [Denote.run] at h
    rw [h] at he
    exact absurd he (by simp)

/-- Script definitions: `St.scripts` lists the names of the functions emitted so far, in order. They stay pairwise different. -/
theorem nodes_scripts_nodup (strict all atStart : Bool) (ns : Nodes) (next : Bool) (env : Env) (st : St) (h : st.scripts.Nodup) :
    (Denote.nodes strict all atStart ns next env st).scripts.Nodup :=
  (nodes_le strict all atStart ns next env (Le.refl st)).2.2 h

theorem run_scripts_nodup (strict : Bool) (body : Nodes) (env : Env) :
    (Denote.nodes strict true true body false env {}).scripts.Nodup :=
  nodes_scripts_nodup strict true true body false env {} List.nodup_nil

/-- Every emission writes the definitions of exactly the names it adds: `emitScripts` appends to the document the
    bodies of the items whose names were not yet in `scripts`, each once, wrapped in one script element. -/
theorem emitScripts_adds (items : List (Bytes × Bytes)) (st : St) (h : st.scripts.Nodup) :
    (emitScripts items st).scripts.Nodup ∧ st.scripts <+: (emitScripts items st).scripts ∧
    (∀ n ∈ (emitScripts items st).scripts, n ∈ st.scripts ∨ n ∈ items.map (·.1)) := by
  rw [emitScripts_scripts]
  exact fresh_fold items (st.scripts, []) h

end TemplVerif.Proofs.Prefix
