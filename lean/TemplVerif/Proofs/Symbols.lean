import TemplVerif.Model.SourceMap
/-
C07 — symbol ranges: every recorded range is found again, in both directions, as long as no two symbols start at
the same place (which distinct top-level nodes never do).
-/
namespace TemplVerif.Proofs.Symbols
open TemplVerif TemplVerif.Pos TemplVerif.SourceMap

/-- the start (line, col) of a range -/
def key (r : Rng) : Nat × Nat := (r.from_.line, r.from_.col)


def s2tE (a : Rng × Rng) : SymEntry := ⟨a.1.from_.line, a.1.from_.col, a.2⟩
def t2sE (a : Rng × Rng) : SymEntry := ⟨a.2.from_.line, a.2.from_.col, a.1⟩

theorem foldl_s2t (adds : List (Rng × Rng)) (m : Syms) :
    (adds.foldl (fun m a => addSymbol m a.1 a.2) m).s2t = m.s2t ++ adds.map s2tE := by
  induction adds generalizing m with
  | nil => simp
  | cons a as ih => rw [List.foldl_cons, ih]; simp [addSymbol, s2tE]

theorem foldl_t2s (adds : List (Rng × Rng)) (m : Syms) :
    (adds.foldl (fun m a => addSymbol m a.1 a.2) m).t2s = m.t2s ++ adds.map t2sE := by
  induction adds generalizing m with
  | nil => simp
  | cons a as ih => rw [List.foldl_cons, ih]; simp [addSymbol, t2sE]

theorem addSymbols_s2t (adds : List (Rng × Rng)) : (addSymbols adds).s2t = adds.map s2tE := by
  simp [addSymbols, foldl_s2t]

theorem addSymbols_t2s (adds : List (Rng × Rng)) : (addSymbols adds).t2s = adds.map t2sE := by
  simp [addSymbols, foldl_t2s]

theorem symLookup_cons (e : SymEntry) (es : List SymEntry) (line col : Nat) :
    symLookup (e :: es) line col =
      (symLookup es line col).or (if e.line = line ∧ e.col = col then some e.rng else none) := by
  unfold symLookup
  rw [List.reverse_cons, List.find?_append]
  cases List.find? (fun e => e.line == line && e.col == col) es.reverse with
  | some x => simp
  | none =>
    by_cases hc : e.line = line ∧ e.col = col
    · simp [List.find?, hc]
    · have : ¬ (e.line = line ∧ e.col = col) := hc
      simp only [Option.none_or, Option.map_none, if_neg hc]
      simp only [List.find?]
      have hb : (e.line == line && e.col == col) = false := by
        cases h1 : (e.line == line && e.col == col) with
        | false => rfl
        | true =>
          simp only [Bool.and_eq_true, beq_iff_eq] at h1
          exact absurd h1 hc
      simp [hb]

theorem symLookup_none (es : List SymEntry) (line col : Nat)
    (h : (line, col) ∉ es.map fun e => (e.line, e.col)) : symLookup es line col = none := by
  induction es with
  | nil => simp [symLookup]
  | cons e es ih =>
    rw [symLookup_cons]
    simp only [List.map_cons, List.mem_cons, not_or] at h
    rw [ih h.2]
    have : ¬ (e.line = line ∧ e.col = col) := by
      intro hc; apply h.1; rw [hc.1, hc.2]
    simp [this]

theorem symLookup_found (es : List SymEntry) (h : (es.map fun e => (e.line, e.col)).Nodup) :
    ∀ e ∈ es, symLookup es e.line e.col = some e.rng := by
  induction es with
  | nil => intro e he; cases he
  | cons x es ih =>
    intro e he
    rw [List.map_cons, List.nodup_cons] at h
    rw [symLookup_cons]
    rcases List.mem_cons.1 he with rfl | he
    · rw [symLookup_none _ _ _ h.1]; simp
    · rw [ih h.2 e he]; simp

theorem symLookup_sound (es : List SymEntry) (line col : Nat) (r : Rng)
    (h : symLookup es line col = some r) : ∃ e ∈ es, e.line = line ∧ e.col = col ∧ e.rng = r := by
  induction es with
  | nil => simp [symLookup] at h
  | cons x es ih =>
    rw [symLookup_cons] at h
    cases hl : symLookup es line col with
    | some r' =>
      rw [hl] at h
      simp only [Option.some_or, Option.some.injEq] at h
      subst h
      obtain ⟨e, he, h3⟩ := ih hl
      exact ⟨e, List.mem_cons_of_mem _ he, h3⟩
    | none =>
      rw [hl] at h
      by_cases hc : x.line = line ∧ x.col = col
      · simp only [Option.none_or, if_pos hc, Option.some.injEq] at h
        exact ⟨x, List.mem_cons_self, hc.1, hc.2, h⟩
      · simp [hc] at h

/-- All symbols added, source starts pairwise different: each source start finds its target range. -/
theorem target_found (adds : List (Rng × Rng)) (h : (adds.map fun a => key a.1).Nodup) :
    ∀ a ∈ adds, symTarget (addSymbols adds) a.1.from_.line a.1.from_.col = some a.2 := by
  intro a ha
  have hn : ((adds.map s2tE).map fun e => (e.line, e.col)).Nodup := by
    rw [List.map_map]; exact h
  have := symLookup_found (adds.map s2tE) hn (s2tE a) (List.mem_map_of_mem ha)
  rw [symTarget, addSymbols_s2t]; exact this

/-- … and, target starts pairwise different, each target start finds its source range. -/
theorem source_found (adds : List (Rng × Rng)) (h : (adds.map fun a => key a.2).Nodup) :
    ∀ a ∈ adds, symSource (addSymbols adds) a.2.from_.line a.2.from_.col = some a.1 := by
  intro a ha
  have hn : ((adds.map t2sE).map fun e => (e.line, e.col)).Nodup := by
    rw [List.map_map]; exact h
  have := symLookup_found (adds.map t2sE) hn (t2sE a) (List.mem_map_of_mem ha)
  rw [symSource, addSymbols_t2s]; exact this

/-- Nothing is found that was not added. -/
theorem target_sound (adds : List (Rng × Rng)) (line col : Nat) (r : Rng)
    (h : symTarget (addSymbols adds) line col = some r) :
    ∃ a ∈ adds, a.1.from_.line = line ∧ a.1.from_.col = col ∧ a.2 = r := by
  rw [symTarget, addSymbols_s2t] at h
  obtain ⟨e, he, h1, h2, h3⟩ := symLookup_sound _ _ _ _ h
  obtain ⟨a, ha, rfl⟩ := List.mem_map.1 he
  exact ⟨a, ha, h1, h2, h3⟩

end TemplVerif.Proofs.Symbols
