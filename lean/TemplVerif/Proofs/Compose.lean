import TemplVerif.Model.Expect
import TemplVerif.Proofs.Html
import TemplVerif.Proofs.ComposeErr
/-
C01, composition: the bytes a template body denotes (`Denote`), read by the tokenizer (`HtmlTok`), are the tokens
the author wrote (`Expect`) — for every tree of the markup fragment, every environment (so: every string value)
and both readings of hoisting.
-/
namespace TemplVerif.Proofs.Compose
open TemplVerif TemplVerif.Ast TemplVerif.Sem TemplVerif.HtmlTok TemplVerif.Html

/-- The tokenizer, having read everything written so far, stands in the data state; it has emitted the expected
    tokens; its pending character data decodes to the expected text run and does not stop inside a character
    reference. -/
def Rel (σ : S) (t : Expect.T) : Prop :=
  σ.st = .data ∧ σ.out = t.toks ∧ decodeRefs σ.text = t.text ∧ Expect.openRef false σ.text = false

/-! ## Bytes: character references -/
open TemplVerif.Proofs.Html

theorem openRef_mono : ∀ (v : Bytes), Expect.openRef true v = false → Expect.openRef false v = false
  | [], h => by simp [Expect.openRef] at h
  | b :: rest, h => by
    simp only [Expect.openRef] at h ⊢
    by_cases h1 : (b == 38) = true
    · simpa [h1] using h
    · by_cases h2 : Expect.refByte b = true
      · simp only [h1, h2, if_true, if_false, Bool.false_eq_true] at h ⊢
        exact openRef_mono rest h
      · simpa [h1, h2] using h

theorem openRef_append : ∀ (a b : Bytes) (o : Bool), Expect.openRef o (a ++ b) = Expect.openRef (Expect.openRef o a) b
  | [], b, o => by simp [Expect.openRef]
  | x :: a, b, o => by simp [Expect.openRef, openRef_append a b]

/-- the tail of a closed text is closed -/
theorem openRef_tail (b : UInt8) (rest : Bytes) (h : Expect.openRef false (b :: rest) = false) :
    Expect.openRef false rest = false := by
  simp only [Expect.openRef] at h
  by_cases h1 : (b == 38) = true
  · simp only [h1, if_true] at h; exact openRef_mono rest h
  · by_cases h2 : Expect.refByte b = true <;> simpa [h1, h2] using h

theorem noMatch_ext (p : Bytes) (hp : p = [97, 109, 112, 59] ∨ p = [108, 116, 59] ∨ p = [103, 116, 59] ∨ p = [35, 51, 52, 59] ∨ p = [35, 51, 57, 59])
    (rest w : Bytes) (hn : ∀ r, rest = p ++ r → False) (ho : Expect.openRef true rest = false) :
    ∀ r, rest ++ w = p ++ r → False := by
  intro r hr
  rcases hp with hp | hp | hp | hp | hp <;> subst hp <;>
  rcases rest with _ | ⟨a, _ | ⟨b, _ | ⟨c, _ | ⟨d, r'⟩⟩⟩⟩ <;>
  simp_all [Expect.openRef, Expect.refByte]

/-- Character data that does not stop inside a reference decodes independently of what follows. -/
theorem decode_append_closed (v w : Bytes) (h : Expect.openRef false v = false) :
    decodeRefs (v ++ w) = decodeRefs v ++ decodeRefs w := by
  induction v using decodeRefs.induct with
  | case1 rest ih =>
    have : Expect.openRef false rest = false := by simpa [Expect.openRef, Expect.refByte] using h
    simp [decodeRefs, ih this]
  | case2 rest ih =>
    have : Expect.openRef false rest = false := by simpa [Expect.openRef, Expect.refByte] using h
    simp [decodeRefs, ih this]
  | case3 rest ih =>
    have : Expect.openRef false rest = false := by simpa [Expect.openRef, Expect.refByte] using h
    simp [decodeRefs, ih this]
  | case4 rest ih =>
    have : Expect.openRef false rest = false := by simpa [Expect.openRef, Expect.refByte] using h
    simp [decodeRefs, ih this]
  | case5 rest ih =>
    have : Expect.openRef false rest = false := by simpa [Expect.openRef, Expect.refByte] using h
    simp [decodeRefs, ih this]
  | case6 b rest h1 h2 h3 h4 h5 ih =>
    have ht := openRef_tail b rest h
    rw [decodeRefs.eq_6 b rest h1 h2 h3 h4 h5, List.cons_append, decodeRefs.eq_6, ih ht, List.cons_append]
    all_goals
      intro r hb
      subst hb
      have ho : Expect.openRef true rest = false := by simpa [Expect.openRef] using h
    · exact noMatch_ext [97, 109, 112, 59] (by simp) rest w (fun r => h1 r rfl) ho r
    · exact noMatch_ext [108, 116, 59] (by simp) rest w (fun r => h2 r rfl) ho r
    · exact noMatch_ext [103, 116, 59] (by simp) rest w (fun r => h3 r rfl) ho r
    · exact noMatch_ext [35, 51, 52, 59] (by simp) rest w (fun r => h4 r rfl) ho r
    · exact noMatch_ext [35, 51, 57, 59] (by simp) rest w (fun r => h5 r rfl) ho r
  | case7 => simp [decodeRefs]

theorem openRef_escapeByte (b : UInt8) (o : Bool) (h : o = false) : Expect.openRef o (escapeByte b) = false := by
  subst h
  unfold escapeByte
  split; · decide
  split; · decide
  split; · decide
  split; · decide
  split; · decide
  rename_i h1 _ _ _ _
  simp [Expect.openRef, h1]

theorem openRef_escape' : ∀ (s : Bytes), Expect.openRef false (escape s) = false
  | [] => rfl
  | b :: rest => by
    rw [escape, openRef_append, openRef_escapeByte b false rfl]
    exact openRef_escape' rest

/-- An escaped string never leaves a reference open. -/
theorem openRef_escape (v s : Bytes) (h : Expect.openRef false v = false) :
    Expect.openRef false (v ++ escape s) = false := by
  rw [openRef_append, h]; exact openRef_escape' s

theorem decodeRefs_eq_nil (v : Bytes) : decodeRefs v = [] ↔ v = [] := by
  constructor
  · intro h
    induction v using decodeRefs.induct <;> simp_all [decodeRefs]
  · intro h; subst h; rfl


/-! ## The tokenizer on the static pieces a template writes -/

/-- Inside a start tag: the tag name is read, every attribute written so far is finished or pending. -/
def TagRel (σ : S) (t : Expect.T) (name : Bytes) : Prop :=
  ((σ.st = .tagName ∧ σ.hasAttr = false) ∨ σ.st = .afterAttrValueQ ∨ (σ.st = .attrName ∧ σ.hasAttr = true)) ∧
  σ.name = name ∧ σ.isEnd = false ∧ σ.text = [] ∧ (finishAttr σ).attrs = t.attrs ∧ σ.out = t.toks ∧ t.text = []

theorem nameByte_eq : Expect.nameByte = niceNameByte := rfl

theorem nameOK_nice (n : Bytes) (h : Expect.nameOK n = true) : ∃ b rest, n = b :: rest ∧ niceNameByte b = true ∧ rest.all niceNameByte = true := by
  cases n with
  | nil => simp [Expect.nameOK] at h
  | cons b rest =>
    refine ⟨b, rest, rfl, ?_⟩
    simpa [Expect.nameOK, nameByte_eq] using h

theorem nameOK_escape (n : Bytes) (h : Expect.nameOK n = true) : escape n = n := by
  obtain ⟨b, rest, rfl, h1, h2⟩ := nameOK_nice n h
  exact escape_nice _ (by simp [h1, h2])

theorem alpha_nice (b : UInt8) (h : (97 ≤ b && b ≤ 122) = true) : niceNameByte b = true := by
  simp [niceNameByte, h]

theorem alpha_isAlpha (b : UInt8) (h : (97 ≤ b && b ≤ 122) = true) : isAlpha b = true := by
  simp [isAlpha, h]

theorem tagOK_parts (name : Bytes) (h : Expect.tagOK name = true) :
    ∃ b rest, name = b :: rest ∧ (97 ≤ b && b ≤ 122) = true ∧ rest.all niceNameByte = true ∧
      rcdataNames.contains name = false ∧ rawtextNames.contains name = false := by
  cases name with
  | nil => simp [Expect.tagOK] at h
  | cons b rest =>
    refine ⟨b, rest, rfl, ?_⟩
    simp only [Expect.tagOK, Bool.and_eq_true, nameByte_eq, Bool.not_eq_true'] at h
    exact ⟨by simp [h.1.1.1], h.1.1.2, h.1.2, h.2⟩

theorem tagOK_escape (n : Bytes) (h : Expect.tagOK n = true) : escape n = n := by
  obtain ⟨b, rest, rfl, h1, h2, _, _⟩ := tagOK_parts n h
  exact escape_nice _ (by simp [alpha_nice b h1, h2])

theorem step_tagName_nice (σ : S) (hσ : σ.st = .tagName) (b : UInt8) (h : niceNameByte b = true) :
    step σ b = { σ with name := σ.name ++ [b] } := by
  have h1 := nice_ne b h 47 (by decide)
  have h2 := nice_ne b h 62 (by decide)
  simp only [step, hσ, nice_isWs b h, nice_lower b h]
  simp [h1, h2]

theorem run_tagName_nice (l : Bytes) : ∀ (σ : S), σ.st = .tagName → l.all niceNameByte = true →
    run σ l = { σ with name := σ.name ++ l } := by
  induction l with
  | nil => intro σ _ _; simp [run]
  | cons c l ih =>
    intro σ hσ hl
    simp only [List.all_cons, Bool.and_eq_true] at hl
    rw [run_cons, step_tagName_nice σ hσ c hl.1, ih { σ with name := σ.name ++ [c] } hσ hl.2]
    simp

theorem flush_text (t : Expect.T) : t.flush.text = [] := by
  unfold Expect.T.flush
  split
  · simp_all
  · rfl

theorem flush_attrs (t : Expect.T) : t.flush.attrs = t.attrs := by
  unfold Expect.T.flush
  split <;> rfl

theorem flush_rel (σ : S) (t : Expect.T) (h2 : σ.out = t.toks) (h3 : decodeRefs σ.text = t.text) :
    (flushText σ).out = t.flush.toks ∧ (flushText σ).text = [] := by
  unfold flushText Expect.T.flush
  by_cases he : σ.text = []
  · have : t.text = [] := by rw [← h3, he]; rfl
    simp [he, this, h2]
  · have : t.text ≠ [] := by rw [← h3]; exact fun h => he ((decodeRefs_eq_nil _).1 h)
    simp [he, this, h2, h3]

theorem flushText_fields (σ : S) : (flushText σ).st = σ.st ∧ (flushText σ).name = σ.name ∧ (flushText σ).isEnd = σ.isEnd
    ∧ (flushText σ).attrs = σ.attrs ∧ (flushText σ).hasAttr = σ.hasAttr ∧ (flushText σ).an = σ.an ∧ (flushText σ).av = σ.av := by
  unfold flushText; split <;> simp

/-- `<name` read in the data state. -/
theorem open_lt (σ : S) (t : Expect.T) (name : Bytes) (h : Rel σ t) (hn : Expect.tagOK name = true) :
    TagRel (run σ (60 :: name)) { t.flush with attrs := [] } name := by
  obtain ⟨b, rest, rfl, hb, hrest, _, _⟩ := tagOK_parts name hn
  have hd := h.1
  have e1 : step σ 60 = { σ with st := .tagOpen } := by simp [step, hd, dataStep]
  have hb33 : b ≠ 33 := nice_ne b (alpha_nice b hb) 33 (by decide)
  have hb47 : b ≠ 47 := nice_ne b (alpha_nice b hb) 47 (by decide)
  have e2 : step { σ with st := .tagOpen } b =
      { flushText { σ with st := .tagOpen } with st := .tagName, name := [b], isEnd := false, attrs := [], hasAttr := false } := by
    simp [step, hb33, hb47, alpha_isAlpha b hb, nice_lower b (alpha_nice b hb)]
  rw [run_cons, e1, run_cons, e2, run_tagName_nice rest _ rfl hrest]
  have hf := flush_rel { σ with st := .tagOpen } t h.2.1 h.2.2.1
  simp [TagRel, finishAttr, hf.1, hf.2, flush_text]


/-- `</name>` read in the data state. -/
theorem close_tag (σ : S) (t : Expect.T) (name : Bytes) (h : Rel σ t) (hn : Expect.tagOK name = true) :
    Rel (run σ (60 :: 47 :: (name ++ [62]))) (t.endTag name) := by
  obtain ⟨b, rest, rfl, hb, hrest, _, _⟩ := tagOK_parts name hn
  have hd := h.1
  have e1 : step σ 60 = { σ with st := .tagOpen } := by simp [step, hd, dataStep]
  have e2 : step { σ with st := .tagOpen } 47 = { σ with st := .endTagOpen } := by simp [step]
  have e3 : step { σ with st := .endTagOpen } b =
      { flushText { σ with st := .endTagOpen } with st := .tagName, name := [b], isEnd := true, attrs := [], hasAttr := false } := by
    simp [step, alpha_isAlpha b hb, nice_lower b (alpha_nice b hb)]
  rw [run_cons, e1, run_cons, e2, List.cons_append, run_cons, e3, run_append, run_tagName_nice rest _ rfl hrest, run_cons, run_nil]
  have hf := flush_rel { σ with st := .endTagOpen } t h.2.1 h.2.2.1
  simp [Rel, step, isWs, emitTag, finishAttr, hf.1, hf.2, Expect.T.endTag, flush_text, decodeRefs, Expect.openRef]

/-- `>` closing a start tag. -/
theorem close_gt (σ : S) (t : Expect.T) (name : Bytes) (h : TagRel σ t name) (hn : Expect.tagOK name = true) :
    Rel (run σ [62]) { t with toks := Token.startTag name t.attrs false :: t.toks, attrs := [] } := by
  obtain ⟨_, _, _, _, _, hrc, hrw⟩ := tagOK_parts name hn
  obtain ⟨hst, hname, hend, htext, hattrs, hout, ht⟩ := h
  have e : step σ 62 = emitTag σ false := by
    rcases hst with ⟨h, _⟩ | h | ⟨h, _⟩ <;> simp [step, h, isWs, attrNameStep]
  have hfn : (finishAttr σ).name = σ.name ∧ (finishAttr σ).isEnd = σ.isEnd ∧ (finishAttr σ).text = σ.text ∧ (finishAttr σ).out = σ.out := by
    unfold finishAttr; split <;> simp
  rw [run_cons, run_nil, e]
  have hrc : name ∉ rcdataNames := by simpa using hrc
  have hrw : name ∉ rawtextNames := by simpa using hrw
  simp [Rel, emitTag, hfn.1, hfn.2.1, hfn.2.2.1, hfn.2.2.2, hname, hend, htext, hattrs, hout, ht, hrc, hrw, decodeRefs, Expect.openRef]


/-- ` name` read inside a start tag begins a new attribute. -/
theorem run_sp_name (σ : S)
    (hst : (σ.st = .tagName ∧ σ.hasAttr = false) ∨ σ.st = .afterAttrValueQ ∨ (σ.st = .attrName ∧ σ.hasAttr = true))
    (b : UInt8) (rest : Bytes) (hb : niceNameByte b = true) (hrest : rest.all niceNameByte = true) :
    run σ (32 :: b :: rest) = { startAttr σ with st := .attrName, an := b :: rest } := by
  have e : step (step σ 32) b = { startAttr σ with st := .attrName, an := [b] } := by
    rcases hst with ⟨h, _⟩ | h | ⟨h, _⟩
    · rw [step_space σ (Or.inr (Or.inl h)), step_beforeAttrName_nice _ rfl b hb]
      cases σ; simp [startAttr, finishAttr]; split <;> simp
    · rw [step_space σ (Or.inr (Or.inr h)), step_beforeAttrName_nice _ rfl b hb]
      cases σ; simp [startAttr, finishAttr]; split <;> simp
    · have e1 : step σ 32 = { σ with st := .afterAttrName } := by simp [step, h, attrNameStep, isWs]
      have h1 := nice_ne b hb 47 (by decide)
      have h2 := nice_ne b hb 62 (by decide)
      have h3 := nice_ne b hb 61 (by decide)
      rw [e1]
      simp only [step, attrNameStep, nice_isWs b hb, nice_lower b hb]
      cases σ; simp [h1, h2, h3, startAttr, finishAttr]; split <;> simp
  rw [run_cons, run_cons, e, run_attrName_nice rest _ rfl hrest]
  simp

theorem startAttr_fields (σ : S) : (startAttr σ).name = σ.name ∧ (startAttr σ).isEnd = σ.isEnd ∧ (startAttr σ).text = σ.text
    ∧ (startAttr σ).out = σ.out ∧ (startAttr σ).attrs = (finishAttr σ).attrs ∧ (startAttr σ).hasAttr = true ∧ (startAttr σ).av = [] := by
  unfold startAttr finishAttr; split <;> simp

theorem finishAttr_attrs_true (τ : S) (h : τ.hasAttr = true) :
    (finishAttr τ).attrs = τ.attrs ++ [(τ.an, decodeRefs τ.av)] := by simp [finishAttr, h]
theorem finishAttr_attrs_false (τ : S) (h : τ.hasAttr = false) : (finishAttr τ).attrs = τ.attrs := by simp [finishAttr, h]

/-- a boolean attribute -/
theorem attr_bool (σ : S) (t : Expect.T) (el n : Bytes) (h : TagRel σ t el) (hn : Expect.nameOK n = true) :
    TagRel (run σ (32 :: n)) (t.addAttr n []) el := by
  obtain ⟨b, rest, rfl, hb, hrest⟩ := nameOK_nice n hn
  obtain ⟨hst, hname, hend, htext, hattrs, hout, ht⟩ := h
  rw [run_sp_name σ hst b rest hb hrest]
  have hf := startAttr_fields σ
  rw [TagRel, finishAttr_attrs_true _ (by simp [hf.2.2.2.2.2.1])]
  simp [hf.1, hf.2.1, hf.2.2.1, hf.2.2.2.1, hf.2.2.2.2.1, hf.2.2.2.2.2.1, hf.2.2.2.2.2.2, hname, hend, htext, hattrs,
    hout, ht, Expect.T.addAttr, decodeRefs]

/-- a valued attribute: the escaped string arrives as the whole value -/
theorem attr_valued (σ : S) (t : Expect.T) (el n v : Bytes) (h : TagRel σ t el) (hn : Expect.nameOK n = true) :
    TagRel (run σ (32 :: (n ++ 61 :: 34 :: (escape v ++ [34])))) (t.addAttr n v) el := by
  obtain ⟨b, rest, rfl, hb, hrest⟩ := nameOK_nice n hn
  obtain ⟨hst, hname, hend, htext, hattrs, hout, ht⟩ := h
  have hf := startAttr_fields σ
  rw [← List.cons_append, run_append, run_sp_name σ hst b rest hb hrest,
    run_attr_tail _ rfl (by simp [hf.2.2.2.2.2.1]) (by simp [hf.2.2.2.2.2.2])]
  rw [TagRel, finishAttr_attrs_false _ rfl]
  simp [hf.1, hf.2.1, hf.2.2.1, hf.2.2.2.1, hf.2.2.2.2.1, hname, hend, htext, hattrs,
    hout, ht, Expect.T.addAttr]

/-- static text -/
theorem text_plain (σ : S) (t : Expect.T) (v : Bytes) (h : Rel σ t) (h60 : ∀ c ∈ v, c ≠ 60)
    (ho : Expect.openRef false v = false) : Rel (run σ v) (t.addText (decodeRefs v)) := by
  obtain ⟨h1, h2, h3, h4⟩ := h
  rw [run_data_plain v σ h1 h60]
  refine ⟨h1, h2, ?_, ?_⟩
  · simp [Expect.T.addText, decode_append_closed _ _ h4, h3]
  · simp [openRef_append, h4, ho]

theorem text_sp (σ : S) (t : Expect.T) (h : Rel σ t) : Rel (run σ [32]) (t.addText [32]) :=
  text_plain σ t [32] h (by simp) (by decide)

/-- an escaped string in a text run -/
theorem text_escaped (σ : S) (t : Expect.T) (v : Bytes) (h : Rel σ t) : Rel (run σ (escape v)) (t.addText v) := by
  obtain ⟨h1, h2, h3, h4⟩ := h
  rw [hole_data σ h1]
  refine ⟨h1, h2, ?_, ?_⟩
  · simp [Expect.T.addText, decode_append_closed _ _ h4, h3, decode_escape]
  · exact openRef_escape _ _ h4


theorem isScriptAttr_false_of (name : Bytes) (h : (Expect.nameOK name && !isScriptAttr name) = true) :
    isScriptAttr name = false := by
  simp only [Bool.and_eq_true, Bool.not_eq_true'] at h; exact h.2

theorem out_bool (o : Bytes) (t : Expect.T) (el n : Bytes) (h : TagRel (run {} o) t el) (hn : Expect.nameOK n = true) :
    TagRel (run {} (o ++ (sp ++ escape n))) (t.addAttr n []) el := by
  rw [run_append, nameOK_escape n hn]
  exact attr_bool _ t el n h hn

theorem out_valued (o : Bytes) (t : Expect.T) (el n v : Bytes) (h : TagRel (run {} o) t el) (hn : Expect.nameOK n = true) :
    TagRel (run {} (o ++ (sp ++ escape n ++ eqDq ++ escape v ++ dq))) (t.addAttr n v) el := by
  rw [run_append, nameOK_escape n hn]
  have := attr_valued _ t el n v h hn
  simpa [sp, eqDq, dq] using this

theorem attr_ok_start (css : Bool) (el : Bytes) (a : Attr) (env : Env) (st : Sem.St)
    (h : (Denote.attr css el a env st).err = false) : st.err = false := by
  cases hs : st.err with
  | false => rfl
  | true => rw [attr_err css el a env st hs, hs] at h; exact absurd h (by simp)

theorem writeEscaped_ok (env : Env) (e : Bytes) (st : Sem.St) (h : (writeEscaped env e st).err = false) :
    ∃ v b, peek env e = some (.str v b) ∧ (writeEscaped env e st).out = st.out ++ escape v := by
  unfold writeEscaped eval peek at *
  by_cases hs : st.err = true
  · simp [hs] at h
  · simp only [hs, if_false, Bool.false_eq_true] at h ⊢
    cases hl : env.lookup e with
    | none => simp [hl] at h
    | some en =>
      rcases en with ⟨ks, v⟩
      cases v <;> simp [hl] at h ⊢
      rename_i s b
      cases b <;> simp at h ⊢
      simp [St.write]

theorem ite_err (x : Sem.St) (d : Bytes) (h : (if x.err = true then x else x.write d).err = false) : x.err = false := by
  cases hx : x.err with
  | false => rfl
  | true => simp [hx] at h
theorem ite_err_out (x : Sem.St) (d : Bytes) (h : x.err = false) : (if x.err = true then x else x.write d).out = x.out ++ d := by
  simp [h, St.write]

mutual
theorem attrs_rel (el : Bytes) : (as : Attrs) → (env : Env) → (st : Sem.St) → (t : Expect.T) →
    Expect.attrsOK as = true → TagRel (run {} st.out) t el → (Denote.attrs true el as env st).err = false →
    TagRel (run {} (Denote.attrs true el as env st).out) (Expect.attrs as env t) el
  | .nil, env, st, t, _, hr, _ => by simpa [Denote.attrs, Expect.attrs] using hr
  | .cons a as, env, st, t, hf, hr, hok => by
    simp only [Expect.attrsOK, Bool.and_eq_true] at hf
    rw [Denote.attrs] at hok ⊢
    rw [Expect.attrs]
    have h1 := attrs_ok_start _ _ _ _ _ hok
    exact attrs_rel el as env _ _ hf.2 (attr_rel el a env st t hf.1 hr h1) hok
theorem attr_rel (el : Bytes) : (a : Attr) → (env : Env) → (st : Sem.St) → (t : Expect.T) →
    Expect.attrOK a = true → TagRel (run {} st.out) t el → (Denote.attr true el a env st).err = false →
    TagRel (run {} (Denote.attr true el a env st).out) (Expect.attr a env t) el
  | .boolConst name, env, st, t, hf, hr, hok => by
    have h0 := attr_ok_start _ _ _ _ _ hok
    simp only [Expect.attrOK] at hf
    simp only [Denote.attr, h0, Expect.attr, if_false, Bool.false_eq_true, St.write]
    exact out_bool _ t el name hr hf
  | .const name value _, env, st, t, hf, hr, hok => by
    have h0 := attr_ok_start _ _ _ _ _ hok
    simp only [Expect.attrOK] at hf
    simp only [Denote.attr, h0, Expect.attr, if_false, Bool.false_eq_true, St.write]
    exact out_valued _ t el name value hr hf
  | .boolExpr name e, env, st, t, hf, hr, hok => by
    have h0 := attr_ok_start _ _ _ _ _ hok
    simp only [Expect.attrOK] at hf
    simp only [Denote.attr, h0, Expect.attr, if_false, Bool.false_eq_true, eval, peek] at hok ⊢
    cases hl : env.lookup e with
    | none => simp [hl] at hok
    | some en =>
      rcases en with ⟨ks, v⟩
      cases v <;> simp [hl] at hok ⊢
      rename_i b
      cases b <;> simp [St.write]
      · exact hr
      · exact out_bool _ t el name hr hf
  | .expr name e, env, st, t, hf, hr, hok => by
    have h0 := attr_ok_start _ _ _ _ _ hok
    simp only [Expect.attrOK] at hf
    have hs := isScriptAttr_false_of name hf
    simp only [Bool.and_eq_true] at hf
    have hn := hf.1
    simp only [Denote.attr, h0, Expect.attr, if_false, Bool.false_eq_true, nameOK_escape name hn, hs, Bool.true_and, ite_self] at hok ⊢
    by_cases hc : (name == Generated.cssAttrName) = true
    · simp only [hc, if_true] at hok ⊢
      cases hp : peek env e with
      | none => simp [hp] at hok
      | some v =>
        cases v <;> simp [hp] at hok ⊢
        rename_i c
        have := out_valued _ t el name c hr hn
        simpa [St.write, nameOK_escape name hn, h0] using this
    · simp only [hc, if_false, Bool.false_eq_true] at hok ⊢
      have hw := ite_err _ _ hok
      obtain ⟨v, b, hp, ho⟩ := writeEscaped_ok env e _ hw
      have := out_valued _ t el name v hr hn
      rw [ite_err_out _ _ hw, ho, hp]
      simpa [nameOK_escape name hn, St.write] using this
  | .spread _, env, st, t, hf, hr, hok => by simp [Expect.attrOK] at hf
  | .cond c thn els, env, st, t, hf, hr, hok => by
    have h0 := attr_ok_start _ _ _ _ _ hok
    simp only [Expect.attrOK, Bool.and_eq_true] at hf
    simp only [Denote.attr, h0, Expect.attr, if_false, Bool.false_eq_true, eval, peek] at hok ⊢
    cases hl : env.lookup c with
    | none => simp [hl] at hok
    | some en =>
      rcases en with ⟨ks, v⟩
      cases v <;> simp [hl] at hok ⊢
      rename_i b
      cases b <;> simp at hok ⊢
      · exact attrs_rel el els env _ t hf.2 hr hok
      · exact attrs_rel el thn env _ t hf.1 hr hok
end


mutual
theorem reachedScripts_ok (strict : Bool) (env : Env) : (as : Attrs) → Expect.attrsOK as = true →
    Denote.reachedScripts strict env as = []
  | .nil, _ => by simp [Denote.reachedScripts]
  | .cons a as, h => by
    simp only [Expect.attrsOK, Bool.and_eq_true] at h
    simp [Denote.reachedScripts, reachedScriptsOne_ok strict env a h.1, reachedScripts_ok strict env as h.2]
theorem reachedScriptsOne_ok (strict : Bool) (env : Env) : (a : Attr) → Expect.attrOK a = true →
    Denote.reachedScriptsOne strict env a = []
  | .boolConst _, _ => by simp [Denote.reachedScriptsOne]
  | .const _ _ _, _ => by simp [Denote.reachedScriptsOne]
  | .boolExpr _ _, _ => by simp [Denote.reachedScriptsOne]
  | .expr name e, h => by
    simp only [Expect.attrOK] at h
    have hs := isScriptAttr_false_of name h
    simp only [Bool.and_eq_true] at h
    simp [Denote.reachedScriptsOne, nameOK_escape name h.1, hs]
  | .spread _, h => by simp [Expect.attrOK] at h
  | .cond c thn els, h => by
    simp only [Expect.attrOK, Bool.and_eq_true] at h
    simp only [Denote.reachedScriptsOne, reachedScripts_ok strict env thn h.1, reachedScripts_ok strict env els h.2]
    cases strict
    · simp
    · simp only [if_true]
      split <;> rfl
end

theorem announceClasses_out (env : Env) : (es : List Bytes) → (st : Sem.St) → (Denote.announceClasses env es st).out = st.out
  | [], st => by simp [Denote.announceClasses]
  | e :: es, st => by
    simp only [Denote.announceClasses]
    split
    · rfl
    · simp only [eval]
      cases hl : env.lookup e with
      | none => simp [St.stick]
      | some en =>
        rcases en with ⟨ks, v⟩
        cases v <;> simp [St.stick]
        exact announceClasses_out env es _

theorem announceClasses_ok_start (env : Env) (es : List Bytes) (st : Sem.St)
    (h : (Denote.announceClasses env es st).err = false) : st.err = false := by
  cases hs : st.err with
  | false => rfl
  | true => rw [Gen.announceClasses_err env es st hs, hs] at h; exact absurd h (by simp)

theorem ite_err2 (x y : Sem.St) (h : (if x.err = true then x else y).err = false) :
    x.err = false ∧ (if x.err = true then x else y) = y := by
  cases hx : x.err with
  | false => simp
  | true => simp [hx] at h

theorem openTag_rel (strict : Bool) (name : Bytes) (as : Attrs) (env : Env) (st : Sem.St) (t : Expect.T)
    (hn : Expect.tagOK name = true) (hf : Expect.attrsOK as = true) (hr : Rel (run {} st.out) t)
    (hok : (Denote.openTag strict true name as env st).err = false) :
    Rel (run {} (Denote.openTag strict true name as env st).out) (Expect.openTag name as env t) := by
  have h0 : st.err = false := by
    cases hs : st.err with
    | false => rfl
    | true => rw [openTag_err _ _ _ _ _ _ hs, hs] at hok; exact absurd hok (by simp)
  have hopen : ∀ o, Rel (run {} o) t → TagRel (run {} (o ++ (Sem.lt ++ escape name))) { t.flush with attrs := [] } name := by
    intro o ho
    rw [run_append, tagOK_escape name hn]
    exact open_lt _ t name ho hn
  cases as with
  | nil =>
    simp only [Denote.openTag, h0, if_false, Bool.false_eq_true, Expect.openTag, Expect.attrs]
    have h1 := close_gt _ _ name (hopen _ hr) hn
    rw [← run_append] at h1
    simpa [St.write, Sem.gt, Sem.lt] using h1
  | cons a as =>
    simp only [Denote.openTag, h0, if_false, Bool.false_eq_true, if_true, reachedScripts_ok strict env _ hf,
      Denote.announceScripts, List.isEmpty_nil, Bool.or_true] at hok ⊢
    generalize hst1 : Denote.announceClasses env (Denote.reachedClasses strict env (Attrs.cons a as)) st = st1 at hok ⊢
    have ho1 : st1.out = st.out := by rw [← hst1]; exact announceClasses_out _ _ _
    obtain ⟨h1, e1⟩ := ite_err2 _ _ hok
    rw [e1] at hok ⊢
    obtain ⟨h2, e2⟩ := ite_err2 _ _ hok
    rw [e2]
    have hr1 : Rel (run {} st1.out) t := by rw [ho1]; exact hr
    have h3 := attrs_rel name (.cons a as) env (st1.write (Sem.lt ++ escape name)) _ hf (hopen _ hr1) h2
    have h4 := close_gt _ _ name h3 hn
    rw [← run_append] at h4
    simpa [St.write, Sem.gt, Sem.lt, Expect.openTag] using h4


theorem space_rel (cur : Node) (next : Bool) (st : Sem.St) (t : Expect.T) (h0 : st.err = false)
    (hr : Rel (run {} st.out) t) :
    Rel (run {} (Denote.space cur next st).out) (Expect.space cur next t) := by
  simp only [Denote.space, Expect.space, h0, if_false, Bool.false_eq_true]
  split
  · simp only [St.write, run_append]
    exact text_sp _ t hr
  · exact hr

theorem space_ok_start (cur : Node) (next : Bool) (st : Sem.St) (h : (Denote.space cur next st).err = false) :
    st.err = false := by rwa [space_err] at h

theorem iterate_rel (f : Env → Sem.St → Sem.St) (g : Env → Expect.T → Expect.T)
    (hmono : ∀ env st, st.err = true → (f env st).err = true)
    (hfg : ∀ env st t, Rel (run {} st.out) t → (f env st).err = false → Rel (run {} (f env st).out) (g env t))
    (env : Env) : ∀ (bs : List (List (Bytes × Bytes))) (st : Sem.St) (t : Expect.T),
    Rel (run {} st.out) t → (iterate bs f env st).err = false →
    Rel (run {} (iterate bs f env st).out) (Expect.iterate bs g env t)
  | [], st, t, hr, _ => by simpa [iterate, Expect.iterate] using hr
  | b :: bs, st, t, hr, hok => by
    simp only [iterate, Expect.iterate, List.foldl_cons] at hok ⊢
    have h1 := iterate_ok_start f hmono env bs _ hok
    exact iterate_rel f g hmono hfg env bs _ _ (hfg _ _ _ hr h1) hok

theorem writeEscaped_rel (env : Env) (e : Bytes) (st : Sem.St) (t : Expect.T) (hr : Rel (run {} st.out) t)
    (hok : (writeEscaped env e st).err = false) :
    Rel (run {} (writeEscaped env e st).out)
      (match peek env e with | some (.str v _) => t.addText v | _ => t) := by
  obtain ⟨v, b, hp, ho⟩ := writeEscaped_ok env e st hok
  rw [ho, hp, run_append]
  exact text_escaped _ t v hr

theorem writeEscaped_ok_start (env : Env) (e : Bytes) (st : Sem.St) (h : (writeEscaped env e st).err = false) :
    st.err = false := by
  cases hs : st.err with
  | false => rfl
  | true => rw [Gen.writeEscaped_err env e st hs, hs] at h; exact absurd h (by simp)

theorem textOK_parts (v : Bytes) (h : Expect.textOK v = true) : (∀ c ∈ v, c ≠ 60) ∧ Expect.openRef false v = false := by
  simp only [Expect.textOK, Bool.and_eq_true, List.all_eq_true, Bool.not_eq_true'] at h
  exact ⟨fun c hc => by simpa using h.1 c hc, h.2⟩

mutual
theorem node_rel (strict : Bool) : (n : Node) → (next : Bool) → (env : Env) → (st : Sem.St) → (t : Expect.T) →
    Expect.nodeOK n = true → Rel (run {} st.out) t → (Denote.node strict n next env st).err = false →
    Rel (run {} (Denote.node strict n next env st).out) (Expect.node n next env t)
  | .doctype v, next, env, st, t, hf, hr, hok => by simp [Expect.nodeOK] at hf
  | .element name as children tr ia ic, next, env, st, t, hf, hr, hok => by
    simp only [Expect.nodeOK, Bool.and_eq_true] at hf
    obtain ⟨⟨hn, has⟩, hch⟩ := hf
    simp only [Denote.node, Expect.node] at hok ⊢
    have h1 := space_ok_start _ _ _ hok
    apply space_rel _ _ _ _ h1
    split
    · rename_i hv
      simp only [hv, if_true] at h1
      exact openTag_rel strict name as env st t hn has hr h1
    · rename_i hv
      simp only [hv, if_false, Bool.false_eq_true] at h1
      obtain ⟨h2, e2⟩ := ite_err2 _ _ h1
      rw [e2]
      have h3 := nodes_ok_start _ _ _ _ _ _ _ h2
      have h4 := nodes_rel' strict true true children false env _ _ hch (openTag_rel strict name as env st t hn has hr h3) h2
      have h5 := close_tag _ _ name h4 hn
      rw [← run_append] at h5
      simpa [St.write, Sem.ltSlash, Sem.gt, tagOK_escape name hn] using h5
  | .htmlComment c, next, env, st, t, hf, hr, hok => by simp [Expect.nodeOK] at hf
  | .children, next, env, st, t, hf, hr, hok => by simp [Expect.nodeOK] at hf
  | .raw name as contents, next, env, st, t, hf, hr, hok => by simp [Expect.nodeOK] at hf
  | .script as parts, next, env, st, t, hf, hr, hok => by simp [Expect.nodeOK] at hf
  | .forE e body, next, env, st, t, hf, hr, hok => by
    have h0 := node_ok_start _ _ _ _ _ hok
    simp only [Expect.nodeOK] at hf
    simp only [Denote.node, h0, Expect.node, if_false, Bool.false_eq_true, eval, peek] at hok ⊢
    cases hl : env.lookup e with
    | none => simp [hl] at hok
    | some en =>
      rcases en with ⟨ks, v⟩
      cases v <;> simp [hl] at hok ⊢
      rename_i bs
      exact iterate_rel _ _ (fun env st h => nodes_err strict false true body next env st h)
        (fun env st t hr hok => nodes_rel' strict false true body next env st t hf hr hok) env bs _ t hr hok
  | .call e, next, env, st, t, hf, hr, hok => by simp [Expect.nodeOK] at hf
  | .templEl e body, next, env, st, t, hf, hr, hok => by simp [Expect.nodeOK] at hf
  | .ifE e thn elifs els, next, env, st, t, hf, hr, hok => by
    have h0 := node_ok_start _ _ _ _ _ hok
    simp only [Expect.nodeOK, Bool.and_eq_true] at hf
    simp only [Denote.node, h0, Expect.node, if_false, Bool.false_eq_true, eval, peek] at hok ⊢
    cases hl : env.lookup e with
    | none => simp [hl] at hok
    | some en =>
      rcases en with ⟨ks, v⟩
      cases v <;> simp [hl] at hok ⊢
      rename_i b
      cases b <;> simp at hok ⊢
      · generalize hst1 : ({ out := st.out, trace := st.trace ++ ks, scripts := st.scripts, err := false, stuck := st.stuck } : Sem.St) = st1 at hok ⊢
        have hr1 : Rel (run {} st1.out) t := by rw [← hst1]; exact hr
        have hE := elseIfs_rel strict elifs next env st1 t hf.1.2 hr1
        cases hd : Denote.elseIfs strict elifs next env st1 with
        | mk b1 st2 =>
          rw [hd] at hok hE
          cases b1
          · simp only at hok ⊢
            have h2 := nodes_ok_start _ _ _ _ _ _ _ hok
            obtain ⟨hb, hr2⟩ := hE h2
            cases hx : Expect.elseIfs elifs next env t with
            | mk b2 t2 =>
              rw [hx] at hb hr2
              simp only at hb hr2
              subst hb
              exact nodes_rel' strict false true els next env st2 t2 hf.2 hr2 hok
          · simp only at hok ⊢
            obtain ⟨hb, hr2⟩ := hE hok
            cases hx : Expect.elseIfs elifs next env t with
            | mk b2 t2 =>
              rw [hx] at hb hr2
              simp only at hb hr2
              subst hb
              exact hr2
      · exact nodes_rel' strict false true thn next env _ t hf.1.1 hr hok
  | .switchE e cs, next, env, st, t, hf, hr, hok => by
    have h0 := node_ok_start _ _ _ _ _ hok
    simp only [Expect.nodeOK] at hf
    simp only [Denote.node, h0, Expect.node, if_false, Bool.false_eq_true, eval, peek] at hok ⊢
    cases hl : env.lookup e with
    | none => simp [hl] at hok
    | some en =>
      rcases en with ⟨ks, v⟩
      cases v <;> simp [hl] at hok ⊢
      rename_i s b
      cases b <;> simp at hok ⊢
      cases hci : caseIndex env s (Denote.caseTexts cs) with
      | none => simpa [hci] using hr
      | some i =>
        simp only [hci] at hok ⊢
        exact case_rel strict cs i next env _ t hf hr hok
  | .strExpr e tr, next, env, st, t, hf, hr, hok => by
    simp only [Denote.node, Expect.node] at hok ⊢
    have h1 := space_ok_start _ _ _ hok
    apply space_rel _ _ _ _ h1
    split
    · exact hr
    · rename_i hb
      simp only [hb, if_false, Bool.false_eq_true] at h1
      exact writeEscaped_rel env e st t hr h1
  | .goCode e _ _, next, env, st, t, hf, hr, hok => by
    simp only [Denote.node, Expect.node]
    split
    · exact hr
    · simp only [eval]
      cases hl : env.lookup e with
      | none => simpa [St.stick] using hr
      | some en =>
        rcases en with ⟨ks, v⟩
        cases v <;> simpa [St.stick] using hr
  | .ws v, next, env, st, t, hf, hr, hok => by
    have h0 := node_ok_start _ _ _ _ _ hok
    simp only [Denote.node, Expect.node, h0, Bool.false_or]
    split
    · exact hr
    · simp only [St.write, run_append]; exact text_sp _ t hr
  | .text v tr, next, env, st, t, hf, hr, hok => by
    have h0 := node_ok_start _ _ _ _ _ hok
    simp only [Expect.nodeOK] at hf
    obtain ⟨h60, ho⟩ := textOK_parts v hf
    simp only [Denote.node, Expect.node, h0, if_false, Bool.false_eq_true]
    apply space_rel _ _ (st.write v) _ h0
    simp only [St.write, run_append]
    exact text_plain _ t v hr h60 ho
  | .goComment _ _, next, env, st, t, hf, hr, hok => by simpa [Denote.node, Expect.node] using hr
theorem nodes_rel' (strict : Bool) : (all atStart : Bool) → (ns : Nodes) → (next : Bool) → (env : Env) → (st : Sem.St) →
    (t : Expect.T) → Expect.nodesOK ns = true → Rel (run {} st.out) t →
    (Denote.nodes strict all atStart ns next env st).err = false →
    Rel (run {} (Denote.nodes strict all atStart ns next env st).out) (Expect.nodes all atStart ns next env t)
  | all, atStart, .nil, next, env, st, t, hf, hr, hok => by simpa [Denote.nodes, Expect.nodes] using hr
  | all, atStart, .cons n rest, next, env, st, t, hf, hr, hok => by
    simp only [Expect.nodesOK, Bool.and_eq_true] at hf
    simp only [Denote.nodes, Expect.nodes] at hok ⊢
    split
    · rename_i hc
      simp only [hc, if_true] at hok
      exact nodes_rel' strict all atStart rest next env st t hf.2 hr hok
    · rename_i hc
      simp only [hc, if_false, Bool.false_eq_true] at hok
      have h1 := nodes_ok_start _ _ _ _ _ _ _ hok
      exact nodes_rel' strict all false rest next env _ _ hf.2 (node_rel strict n _ env st t hf.1 hr h1) hok
theorem elseIfs_rel (strict : Bool) : (es : ElseIfs) → (next : Bool) → (env : Env) → (st : Sem.St) → (t : Expect.T) →
    Expect.elseIfsOK es = true → Rel (run {} st.out) t → (Denote.elseIfs strict es next env st).2.err = false →
    (Denote.elseIfs strict es next env st).1 = (Expect.elseIfs es next env t).1 ∧
    Rel (run {} (Denote.elseIfs strict es next env st).2.out) (Expect.elseIfs es next env t).2
  | .nil, next, env, st, t, hf, hr, hok => by simpa [Denote.elseIfs, Expect.elseIfs] using hr
  | .cons e thn rest, next, env, st, t, hf, hr, hok => by
    simp only [Expect.elseIfsOK, Bool.and_eq_true] at hf
    simp only [Denote.elseIfs, Expect.elseIfs, eval, peek] at hok ⊢
    cases hl : env.lookup e with
    | none => simp [hl] at hok
    | some en =>
      rcases en with ⟨ks, v⟩
      cases v <;> simp [hl] at hok ⊢
      rename_i b
      cases b <;> simp at hok ⊢
      · exact elseIfs_rel strict rest next env _ t hf.2 hr hok
      · exact nodes_rel' strict false true thn next env _ t hf.1 hr hok
theorem case_rel (strict : Bool) : (cs : Cases) → (i : Nat) → (next : Bool) → (env : Env) → (st : Sem.St) → (t : Expect.T) →
    Expect.casesOK cs = true → Rel (run {} st.out) t → (Denote.case strict cs i next env st).err = false →
    Rel (run {} (Denote.case strict cs i next env st).out) (Expect.case cs i next env t)
  | .nil, i, next, env, st, t, hf, hr, hok => by simpa [Denote.case, Expect.case] using hr
  | .cons c body rest, 0, next, env, st, t, hf, hr, hok => by
    simp only [Expect.casesOK, Bool.and_eq_true] at hf
    simp only [Denote.case, Expect.case] at hok ⊢
    exact nodes_rel' strict false true body next env st t hf.1 hr hok
  | .cons c body rest, i + 1, next, env, st, t, hf, hr, hok => by
    simp only [Expect.casesOK, Bool.and_eq_true] at hf
    simp only [Denote.case, Expect.case] at hok ⊢
    exact case_rel strict rest i next env st t hf.2 hr hok
end


/-- The step of the induction: a node list of the fragment, rendered without error from a state in which the
    tokenizer and the expected stream agree, leaves them agreeing. -/
theorem nodes_rel (strict all atStart : Bool) (ns : Nodes) (next : Bool) (env : Env) (st : Sem.St) (t : Expect.T)
    (hf : Expect.nodesOK ns = true) (hr : Rel (run {} st.out) t)
    (hok : (Denote.nodes strict all atStart ns next env st).err = false) :
    Rel (run {} (Denote.nodes strict all atStart ns next env st).out) (Expect.nodes all atStart ns next env t) :=
  nodes_rel' strict all atStart ns next env st t hf hr hok

/-- Composition. -/
theorem compose (strict : Bool) (body : Nodes) (env : Env) (hf : Expect.nodesOK body = true)
    (hok : (Denote.nodes strict true true body false env {}).err = false) :
    tokenize (Denote.nodes strict true true body false env {}).out = Expect.tokens body env := by
  have h0 : Rel (run {} ({} : Sem.St).out) {} := ⟨rfl, rfl, rfl, rfl⟩
  have h := nodes_rel strict true true body false env {} {} hf h0 hok
  have hfl := flush_rel _ _ h.2.1 h.2.2.1
  simp only [tokenize, finish, Expect.tokens, h.1, hfl.1]

end TemplVerif.Proofs.Compose
