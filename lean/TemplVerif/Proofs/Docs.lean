import TemplVerif.Model.Docs
namespace TemplVerif.Proofs.Docs
open TemplVerif TemplVerif.Doc TemplVerif.Docs

theorem find_filter_ne (s : Store) (u v : Bytes) (h : v ≠ u) :
    (s.filter (·.1 != u)).find? (·.1 == v) = s.find? (·.1 == v) := by
  induction s with
  | nil => rfl
  | cons p s ih =>
    by_cases hp : p.1 = u
    · have hv : ¬ p.1 = v := fun e => h (e.symm.trans hp)
      have h1 : (p.1 != u) = false := by simp [hp]
      have h2 : (p.1 == v) = false := by simpa using hv
      rw [List.filter_cons]
      simp only [h1]
      rw [List.find?_cons]
      simp only [h2]
      exact ih
    · have h1 : (p.1 != u) = true := by simpa using hp
      rw [List.filter_cons]
      simp only [h1, if_true]
      rw [List.find?_cons, List.find?_cons, ih]

theorem lookup_put_same (s : Store) (u : Bytes) (d : Doc) : lookup (put s u d) u = some d := by
  simp [lookup, put]

theorem lookup_put_other (s : Store) (u v : Bytes) (d : Doc) (h : v ≠ u) : lookup (put s u d) v = lookup s v := by
  have hu : ¬ u = v := fun e => h e.symm
  simp only [lookup, put, List.find?_cons]
  have : ((u, d).1 == v) = false := by simpa using hu
  rw [this]
  simp only []
  rw [find_filter_ne s u v h]

theorem lookup_remove_other (s : Store) (u v : Bytes) (h : v ≠ u) : lookup (remove s u) v = lookup s v := by
  simp only [lookup, remove]
  rw [find_filter_ne s u v h]

/-- A message about one document leaves every other document as it is. -/
theorem step_other (s : Store) (m : Msg) (v : Bytes) (h : v ≠ m.uri) : lookup (step s m) v = lookup s v := by
  cases m with
  | didOpen u t => exact lookup_put_other s u v _ h
  | didChange u cs =>
    simp only [step]
    split
    · exact lookup_put_other s u v _ h
    · rfl
  | didClose u => exact lookup_remove_other s u v h

theorem lookup_remove_same (s : Store) (u : Bytes) : lookup (remove s u) u = none := by
  simp [lookup, remove]

/-- two stores that agree on `v` still agree on `v` after the same message about `v` -/
theorem step_same (s s' : Store) (m : Msg) (v : Bytes) (hm : m.uri = v) (h : lookup s v = lookup s' v) :
    lookup (step s m) v = lookup (step s' m) v := by
  subst hm
  cases m with
  | didOpen u t => simp only [step, Msg.uri, lookup_put_same]
  | didChange u cs =>
    simp only [Msg.uri] at h
    simp only [step, Msg.uri]
    rw [← h]
    cases hl : lookup s u with
    | some d => simp only [lookup_put_same]
    | none => simp only []; rw [← h, hl]
  | didClose u => simp only [step, Msg.uri, lookup_remove_same]

theorem run_filter_aux (ms : List Msg) (s s' : Store) (v : Bytes) (h : lookup s v = lookup s' v) :
    lookup (run s ms) v = lookup (run s' (ms.filter fun m => m.uri == v)) v := by
  induction ms generalizing s s' with
  | nil => simpa [run] using h
  | cons m ms ih =>
    by_cases hm : m.uri = v
    · have : (m.uri == v) = true := by simpa using hm
      simp only [List.filter_cons, this, if_true]
      simp only [run, List.foldl_cons]
      exact ih _ _ (step_same s s' m v hm h)
    · have : (m.uri == v) = false := by simpa using hm
      simp only [List.filter_cons, this]
      simp only [run, List.foldl_cons]
      refine ih _ _ ?_
      rw [step_other s m v (fun e => hm e.symm)]
      exact h

/-- Any session: what the store holds for `v` is what the messages ABOUT `v` alone produce - the other documents'
    messages, however interleaved, do not matter. -/
theorem run_filter (ms : List Msg) (s : Store) (v : Bytes) :
    lookup (run s ms) v = lookup (run s (ms.filter fun m => m.uri == v)) v :=
  run_filter_aux ms s s v rfl

end TemplVerif.Proofs.Docs
