import TemplVerif.Model.SourceMap
/- Helper lemmas for C06 and C07. -/
namespace TemplVerif.Proofs.Pos
open TemplVerif TemplVerif.Pos TemplVerif.SourceMap

/-- `PositionAt` computes: line = number of LF bytes before the index, column = distance from the start of that line. -/
theorem positionAt_spec (src : Bytes) (i : Nat) (h : i ≤ src.length) :
    positionAt src i = ⟨i, lineOf src i, i - lineStart src i⟩ := by
  sorry

theorem clamp_ordered (start stop len : Nat) : (clamp start stop len).1 ≤ (clamp start stop len).2 ∧ (clamp start stop len).2 ≤ len := by
  sorry

/-- n applications of a step function that may stop (`none`). -/
def iter (step : Nat → Option Nat) : Nat → Nat → Option Nat
  | 0, i => some i
  | n + 1, i => (step i).bind (iter step n)

/-- The termination argument of the parser's node-list and script loops: if every iteration either stops or strictly
    advances the index, which never exceeds `len`, then the loop stops within `len - i + 1` iterations. -/
theorem loop_terminates (step : Nat → Option Nat) (len : Nat)
    (hadv : ∀ i j, step i = some j → i < j ∧ j ≤ len) (i : Nat) (hi : i ≤ len) :
    iter step (len - i + 1) i = none := by
  sorry

theorem advance_index (p : Pos) (v : Bytes) : (advance p v).index = p.index + v.length := by
  sorry

theorem advance_append (p : Pos) (a b : Bytes) : advance p (a ++ b) = advance (advance p a) b := by
  sorry

/-- Walking over text that is actually there keeps a position consistent with `positionAt`. -/
theorem advance_positionAt (S : Bytes) (p : Pos) (v : Bytes) (hp : positionAt S p.index = p)
    (hv : List.isPrefixOf v (S.drop p.index) = true) :
    positionAt S (p.index + v.length) = advance p v := by
  sorry

/-- No invalid byte: every decoding step of `runeWidths` sees a validly encoded rune. -/
def validUtf8Aux : Nat → Bytes → Bool
  | 0, s => s.isEmpty
  | _, [] => true
  | fuel + 1, s@(_ :: _) =>
    let (r, w) := Utf8.decodeRune s
    !(r == Utf8.runeError && w ≤ 1) && validUtf8Aux fuel (s.drop (max w 1))

def validUtf8 (s : Bytes) : Bool := validUtf8Aux s.length s

/-- The heart of C07: after `add`, every rune-start / line-end position of the expression maps to the target
    position reached by advancing over the same bytes, and back. -/
theorem add_maps (sm : SM) (value : Bytes) (sf tf : Pos) (hv : validUtf8 value = true)
    (k : Nat) (hk : k ∈ positionsOf value) :
    targetOf (add sm value sf tf) (advance sf (value.take k)).line (advance sf (value.take k)).col
      = some (advance tf (value.take k)) ∧
    sourceOf (add sm value sf tf) (advance tf (value.take k)).line (advance tf (value.take k)).col
      = some (advance sf (value.take k)) := by
  sorry

/-- Keys (line, col) an `add` writes into the source→target table. -/
def srcKeys (value : Bytes) (sf : Pos) : List (Nat × Nat) :=
  (positionsOf value).map fun k => ((advance sf (value.take k)).line, (advance sf (value.take k)).col)

/-- A later `add` whose source positions are all different leaves earlier source→target lookups alone. -/
theorem add_no_clobber (sm : SM) (v1 v2 : Bytes) (s1 t1 s2 t2 : Pos) (hv2 : validUtf8 v2 = true)
    (line col : Nat) (hdis : (line, col) ∉ srcKeys v2 s2) :
    targetOf (add (add sm v1 s1 t1) v2 s2 t2) line col = targetOf (add sm v1 s1 t1) line col := by
  sorry

end TemplVerif.Proofs.Pos
