import TemplVerif.Model.SourceMap
/- Helper lemmas for C06 and C07. -/
namespace TemplVerif.Proofs.Pos
open TemplVerif TemplVerif.Pos TemplVerif.SourceMap

theorem newLinesFrom_append (base : Nat) (a c : Bytes) :
    newLinesFrom base (a ++ c) = newLinesFrom base a ++ newLinesFrom (base + a.length) c := by
  induction a generalizing base with
  | nil => simp [newLinesFrom]
  | cons b rest ih =>
    simp only [List.cons_append, newLinesFrom, List.length_cons]
    rw [ih]
    have : base + 1 + rest.length = base + (rest.length + 1) := by omega
    rw [this]
    split <;> simp

theorem newLinesFrom_lt (base : Nat) (a : Bytes) : ∀ x ∈ newLinesFrom base a, x < base + a.length := by
  induction a generalizing base with
  | nil => simp [newLinesFrom]
  | cons b rest ih =>
    intro x hx
    simp only [newLinesFrom] at hx
    have := ih (base + 1)
    simp only [List.length_cons]
    split at hx
    · rcases List.mem_cons.mp hx with h | h
      · omega
      · have := this x h; omega
    · have := this x hx; omega

theorem newLinesFrom_ge (base : Nat) (a : Bytes) : ∀ x ∈ newLinesFrom base a, base ≤ x := by
  induction a generalizing base with
  | nil => simp [newLinesFrom]
  | cons b rest ih =>
    intro x hx
    simp only [newLinesFrom] at hx
    have := ih (base + 1)
    split at hx
    · rcases List.mem_cons.mp hx with h | h
      · omega
      · have := this x h; omega
    · have := this x hx; omega

theorem searchLine_append (l1 l2 : List Nat) (i : Nat) (h1 : ∀ x ∈ l1, x < i) (h2 : ∀ x ∈ l2, i ≤ x) :
    searchLine (l1 ++ l2) i = l1.length := by
  induction l1 with
  | nil =>
    cases l2 with
    | nil => simp [searchLine]
    | cons y r => simp [searchLine, h2 y (by simp)]
  | cons x r ih =>
    have hx := h1 x (by simp)
    simp only [List.cons_append, searchLine, List.length_cons]
    rw [if_neg (by omega), ih (fun y hy => h1 y (by simp [hy]))]
    omega

/-- one past the last entry, or 0 -/
def lastPlus (l : List Nat) : Nat := if l.length > 0 then l.getD (l.length - 1) 0 + 1 else 0

theorem lastPlus_snoc (l : List Nat) (x : Nat) : lastPlus (l ++ [x]) = x + 1 := by
  simp [lastPlus, List.getD]

theorem lineOf_succ (s : Bytes) (i : Nat) (h : i < s.length) :
    lineOf s (i + 1) = lineOf s i + (if s[i] = 10 then 1 else 0) := by
  simp only [lineOf, List.take_succ_eq_append_getElem h, List.count_append]
  split <;> simp_all

theorem lineStart_succ (s : Bytes) (i : Nat) (h : i < s.length) :
    lineStart s (i + 1) = if s[i] = 10 then i + 1 else lineStart s i := by
  simp only [lineStart, List.take_succ_eq_append_getElem h, List.reverse_append, List.reverse_cons,
    List.reverse_nil, List.nil_append, List.cons_append]
  by_cases hb : s[i] = 10
  · simp [hb, List.idxOf?_cons]
  · simp only [hb, if_false, List.idxOf?_cons]
    have : (s[i] == 10) = false := by simp [hb]
    simp only [this]
    cases (List.idxOf? 10 (List.take i s).reverse) with
    | none => simp
    | some k => simp

theorem lineStart_le (s : Bytes) (i : Nat) : lineStart s i ≤ i := by
  simp only [lineStart]; split <;> omega

theorem nl_take_succ (s : Bytes) (i : Nat) (h : i < s.length) :
    newLines (s.take (i + 1)) = newLines (s.take i) ++ (if s[i] = 10 then [i] else []) := by
  simp only [newLines, List.take_succ_eq_append_getElem h, newLinesFrom_append]
  have : (List.take i s).length = i := by simp; omega
  simp [this, newLinesFrom]

theorem nl_take_spec (s : Bytes) (i : Nat) (h : i ≤ s.length) :
    (newLines (s.take i)).length = lineOf s i ∧ lastPlus (newLines (s.take i)) = lineStart s i := by
  induction i with
  | zero => simp [newLines, newLinesFrom, lineOf, lineStart, lastPlus]
  | succ i ih =>
    have hi : i < s.length := by omega
    obtain ⟨h1, h2⟩ := ih (by omega)
    rw [nl_take_succ s i hi, lineOf_succ s i hi, lineStart_succ s i hi]
    by_cases hb : s[i] = 10
    · simp only [hb, if_true, lastPlus_snoc, List.length_append, h1]; simp
    · simp [hb, h1, h2]

theorem positionAt_eq (s : Bytes) (i : Nat) (h : i ≤ s.length) :
    positionAt s i = ⟨i, (newLines (s.take i)).length, i - lastPlus (newLines (s.take i))⟩ := by
  have hs : newLines s = newLines (s.take i) ++ newLinesFrom i (s.drop i) := by
    have := newLinesFrom_append 0 (s.take i) (s.drop i)
    rw [List.take_append_drop] at this
    have hl : (List.take i s).length = i := by simp; omega
    simpa [newLines, hl] using this
  have hsearch : searchLine (newLines s) i = (newLines (s.take i)).length := by
    rw [hs]
    apply searchLine_append
    · intro x hx
      have := newLinesFrom_lt 0 (s.take i) x hx
      simp at this; omega
    · exact newLinesFrom_ge i _
  simp only [positionAt, hsearch]
  congr 1
  simp only [lastPlus]
  by_cases hp : (newLines (s.take i)).length > 0
  · simp only [hp, if_true]
    rw [hs]
    simp only [List.getD_eq_getElem?_getD]
    rw [List.getElem?_append_left (by omega)]
  · simp [hp]

/-- `PositionAt` computes: line = number of LF bytes before the index, column = distance from the start of that line. -/
theorem positionAt_spec (src : Bytes) (i : Nat) (h : i ≤ src.length) :
    positionAt src i = ⟨i, lineOf src i, i - lineStart src i⟩ := by
  rw [positionAt_eq src i h]
  obtain ⟨h1, h2⟩ := nl_take_spec src i h
  rw [h1, h2]

theorem clamp_ordered (start stop len : Nat) : (clamp start stop len).1 ≤ (clamp start stop len).2 ∧ (clamp start stop len).2 ≤ len := by
  simp only [clamp]; omega

/-- n applications of a step function that may stop (`none`). -/
def iter (step : Nat → Option Nat) : Nat → Nat → Option Nat
  | 0, i => some i
  | n + 1, i => (step i).bind (iter step n)

theorem iter_none_aux (step : Nat → Option Nat) (len : Nat)
    (hadv : ∀ i j, step i = some j → i < j ∧ j ≤ len) :
    ∀ n i, i ≤ len → len - i < n → iter step n i = none := by
  intro n
  induction n with
  | zero => intro i _ h; omega
  | succ n ih =>
    intro i hi hn
    simp only [iter]
    cases hs : step i with
    | none => rfl
    | some j =>
      obtain ⟨h1, h2⟩ := hadv i j hs
      simp only [Option.bind_some]
      exact ih j h2 (by omega)

/-- The termination argument of the parser's node-list and script loops: if every iteration either stops or strictly
    advances the index, which never exceeds `len`, then the loop stops within `len - i + 1` iterations. -/
theorem loop_terminates (step : Nat → Option Nat) (len : Nat)
    (hadv : ∀ i j, step i = some j → i < j ∧ j ≤ len) (i : Nat) (hi : i ≤ len) :
    iter step (len - i + 1) i = none :=
  iter_none_aux step len hadv _ i hi (by omega)

theorem advance_index (p : Pos) (v : Bytes) : (advance p v).index = p.index + v.length := by
  induction v generalizing p with
  | nil => simp [advance]
  | cons b rest ih =>
    simp only [advance]
    split <;> (rw [ih]; simp; omega)

theorem advance_append (p : Pos) (a b : Bytes) : advance p (a ++ b) = advance (advance p a) b := by
  induction a generalizing p with
  | nil => simp [advance]
  | cons x rest ih =>
    simp only [List.cons_append, advance]
    split <;> rw [ih]

theorem positionAt_succ (S : Bytes) (i : Nat) (h : i < S.length) :
    positionAt S (i + 1) = advance (positionAt S i) [S[i]] := by
  rw [positionAt_spec S (i+1) (by omega), positionAt_spec S i (by omega), lineOf_succ S i h, lineStart_succ S i h]
  have := lineStart_le S i
  by_cases hb : S[i] = 10
  · simp [hb, advance]
  · simp [hb, advance]; omega

/-- Walking over text that is actually there keeps a position consistent with `positionAt`. -/
theorem advance_positionAt (S : Bytes) (p : Pos) (v : Bytes) (hp : positionAt S p.index = p)
    (hv : List.isPrefixOf v (S.drop p.index) = true) :
    positionAt S (p.index + v.length) = advance p v := by
  induction v generalizing p with
  | nil => simpa [advance] using hp
  | cons b rest ih =>
    cases hd : S.drop p.index with
    | nil => simp [hd] at hv
    | cons c tl =>
      rw [hd] at hv
      simp only [List.isPrefixOf, Bool.and_eq_true, beq_iff_eq] at hv
      obtain ⟨hbc, hrest⟩ := hv
      subst hbc
      have hlt : p.index < S.length := by
        by_cases h : p.index < S.length
        · exact h
        · rw [List.drop_eq_nil_of_le (by omega)] at hd; cases hd
      have hSi : S[p.index] = b := by
        have := List.getElem_drop (xs := S) (i := p.index) (j := 0) (h := by simp; omega)
        simp [hd] at this; exact this.symm
      have hsucc := positionAt_succ S p.index hlt
      rw [hp, hSi] at hsucc
      have htl : S.drop (p.index + 1) = tl := by
        have : S.drop (p.index + 1) = (S.drop p.index).drop 1 := by simp [List.drop_drop]
        rw [this, hd]; rfl
      have hidx : (advance p [b]).index = p.index + 1 := by rw [advance_index]; simp
      have := ih (advance p [b]) (by rw [hidx]; exact hsucc) (by rw [hidx, htl]; exact hrest)
      rw [hidx] at this
      have e : advance p (b :: rest) = advance (advance p [b]) rest := by
        rw [← advance_append]; rfl
      rw [e, ← this]
      congr 1
      simp; omega

/-- No invalid byte: every decoding step of `runeWidths` sees a validly encoded rune. -/
def validUtf8Aux : Nat → Bytes → Bool
  | 0, s => s.isEmpty
  | _, [] => true
  | fuel + 1, s@(_ :: _) =>
    let (r, w) := Utf8.decodeRune s
    !(r == Utf8.runeError && w ≤ 1) && validUtf8Aux fuel (s.drop (max w 1))

def validUtf8 (s : Bytes) : Bool := validUtf8Aux s.length s

theorem decodeRune_width_le (s : Bytes) : (Utf8.decodeRune s).2 ≤ s.length := by
  unfold Utf8.decodeRune
  repeat' split
  all_goals first | (simp; done) | (simp only []; split <;> simp)

theorem isCont_ne_lf (b : UInt8) (h : Utf8.isCont b = true) : b ≠ 10 := by
  intro hb; subst hb; revert h; decide

theorem decodeRune_valid (b0 : UInt8) (rest : Bytes) (r w : Nat)
    (hd : Utf8.decodeRune (b0 :: rest) = (r, w)) (hv : (r == Utf8.runeError && decide (w ≤ 1)) = false) :
    1 ≤ w ∧ (b0 ≠ 10 → ∀ x ∈ (b0 :: rest).take w, x ≠ 10) ∧
      ∀ t, Utf8.decodeRune ((b0 :: rest).take w ++ t) = (r, w) := by
  have hb0 : b0.toNat < 256 := UInt8.toNat_lt b0
  unfold Utf8.decodeRune at hd
  simp only [] at hd
  split at hd
  · simp only [Prod.mk.injEq] at hd; obtain ⟨hr, hw⟩ := hd; subst hr; subst hw
    refine ⟨by omega, ?_, ?_⟩
    · intro h x hx; simp at hx; simp [hx, h]
    · intro t; simp [Utf8.decodeRune, *]
  split at hd
  · simp only [Prod.mk.injEq] at hd; obtain ⟨hr, hw⟩ := hd; subst hr; subst hw; simp at hv
  split at hd
  · -- two bytes
    cases rest with
    | nil => simp only [Prod.mk.injEq] at hd; obtain ⟨hr, hw⟩ := hd; subst hr; subst hw; simp at hv
    | cons b1 r1 =>
      simp only [] at hd
      split at hd
      · rename_i hc
        simp only [Prod.mk.injEq] at hd; obtain ⟨hr, hw⟩ := hd; subst hr; subst hw
        refine ⟨by omega, ?_, ?_⟩
        · intro h x hx
          simp at hx
          rcases hx with rfl | rfl
          · exact h
          · exact isCont_ne_lf _ hc
        · intro t; simp [Utf8.decodeRune, *]
      · simp only [Prod.mk.injEq] at hd; obtain ⟨hr, hw⟩ := hd; subst hr; subst hw; simp at hv
  split at hd
  · -- three bytes
    match rest, hd with
    | [], hd => simp only [Prod.mk.injEq] at hd; obtain ⟨hr, hw⟩ := hd; subst hr; subst hw; simp at hv
    | [_], hd => simp only [Prod.mk.injEq] at hd; obtain ⟨hr, hw⟩ := hd; subst hr; subst hw; simp at hv
    | b1 :: b2 :: r2, hd =>
      simp only [] at hd
      by_cases hc : (decide ((if (b0 == 224) = true then (160 : UInt8) else 128) ≤ b1) &&
                decide (b1 ≤ if (b0 == 237) = true then 159 else 191) && Utf8.isCont b2) = true
      · rw [if_pos hc] at hd
        simp only [Prod.mk.injEq] at hd; obtain ⟨hr, hw⟩ := hd; subst hr; subst hw
        refine ⟨by omega, ?_, ?_⟩
        · intro h x hx
          simp at hx
          simp only [Bool.and_eq_true, decide_eq_true_eq] at hc
          rcases hx with rfl | rfl | rfl
          · exact h
          · intro h10; subst h10; revert hc; split <;> simp
          · exact isCont_ne_lf _ hc.2
        · intro t
          simp only [List.take, List.cons_append, List.nil_append]
          unfold Utf8.decodeRune
          simp only []
          rw [if_neg ‹_›, if_neg ‹_›, if_neg ‹_›, if_pos ‹_›, if_pos hc]
      · rw [if_neg hc] at hd
        simp only [Prod.mk.injEq] at hd; obtain ⟨hr, hw⟩ := hd; subst hr; subst hw; simp at hv
  split at hd
  · -- four bytes
    match rest, hd with
    | [], hd => simp only [Prod.mk.injEq] at hd; obtain ⟨hr, hw⟩ := hd; subst hr; subst hw; simp at hv
    | [_], hd => simp only [Prod.mk.injEq] at hd; obtain ⟨hr, hw⟩ := hd; subst hr; subst hw; simp at hv
    | [_, _], hd => simp only [Prod.mk.injEq] at hd; obtain ⟨hr, hw⟩ := hd; subst hr; subst hw; simp at hv
    | b1 :: b2 :: b3 :: r3, hd =>
      simp only [] at hd
      by_cases hc : (decide ((if (b0 == 240) = true then (144 : UInt8) else 128) ≤ b1) &&
                decide (b1 ≤ if (b0 == 244) = true then 143 else 191) && Utf8.isCont b2 && Utf8.isCont b3) = true
      · rw [if_pos hc] at hd
        simp only [Prod.mk.injEq] at hd; obtain ⟨hr, hw⟩ := hd; subst hr; subst hw
        refine ⟨by omega, ?_, ?_⟩
        · intro h x hx
          simp at hx
          simp only [Bool.and_eq_true, decide_eq_true_eq] at hc
          rcases hx with rfl | rfl | rfl | rfl
          · exact h
          · intro h10; subst h10; revert hc; split <;> simp
          · exact isCont_ne_lf _ hc.1.2
          · exact isCont_ne_lf _ hc.2
        · intro t
          simp only [List.take, List.cons_append, List.nil_append]
          unfold Utf8.decodeRune
          simp only []
          rw [if_neg ‹_›, if_neg ‹_›, if_neg ‹_›, if_neg ‹_›, if_pos ‹_›, if_pos hc]
      · rw [if_neg hc] at hd
        simp only [Prod.mk.injEq] at hd; obtain ⟨hr, hw⟩ := hd; subst hr; subst hw; simp at hv
  · simp only [Prod.mk.injEq] at hd; obtain ⟨hr, hw⟩ := hd; subst hr; subst hw; simp at hv


def mkE (pa pb : Pos) : Entry := ⟨pa.line, pa.col, pb⟩
def shift (p : Pos) (w : Nat) : Pos := ⟨p.index + w, p.line, p.col + w⟩
def nextLine (p : Pos) (n : Nat) : Pos := ⟨p.index + n + 1, p.line + 1, 0⟩

def lineEntries : List Nat → Pos → Pos → List Entry
  | [], pa, pb => [mkE pa pb]
  | w :: rest, pa, pb => mkE pa pb :: lineEntries rest (shift pa w) (shift pb w)

theorem addLine_eq (sm : SM) (ws : List Nat) (sl tl sc tc si ti : Nat) :
    addLine sm ws sl tl sc tc si ti =
      (⟨sm.s2t ++ lineEntries ws ⟨si, sl, sc⟩ ⟨ti, tl, tc⟩, sm.t2s ++ lineEntries ws ⟨ti, tl, tc⟩ ⟨si, sl, sc⟩⟩,
        si + ws.sum + 1, ti + ws.sum + 1) := by
  induction ws generalizing sm sc tc si ti with
  | nil => simp [addLine, lineEntries, mkE]
  | cons w rest ih =>
    simp only [addLine, ih, lineEntries, mkE, shift, List.sum_cons, List.append_assoc, List.singleton_append]
    simp only [Nat.add_assoc]

def allEntries : List Bytes → Pos → Pos → List Entry
  | [], _, _ => []
  | l :: rest, pa, pb =>
    lineEntries (runeWidths l) pa pb ++
      allEntries rest (nextLine pa (runeWidths l).sum) (nextLine pb (runeWidths l).sum)

def startPos (p : Pos) (li i : Nat) : Pos := ⟨i, p.line + li, if li == 0 then p.col else 0⟩

theorem addLines_eq (sm : SM) (lines : List Bytes) (li : Nat) (sf tf : Pos) (si ti : Nat) :
    addLines sm lines li sf tf si ti =
      ⟨sm.s2t ++ allEntries lines (startPos sf li si) (startPos tf li ti),
       sm.t2s ++ allEntries lines (startPos tf li ti) (startPos sf li si)⟩ := by
  induction lines generalizing sm li si ti with
  | nil => simp [addLines, allEntries]
  | cons l rest ih =>
    simp only [addLines, addLine_eq, ih, allEntries, List.append_assoc]
    simp [startPos, nextLine, Nat.add_assoc]

def entriesGo : Nat → Pos → Pos → Bytes → List Entry
  | 0, pa, pb, _ => [mkE pa pb]
  | _, pa, pb, [] => [mkE pa pb]
  | fuel + 1, pa, pb, b :: rest =>
    if b = 10 then mkE pa pb :: entriesGo fuel (advance pa [10]) (advance pb [10]) rest
    else
      let w := max (Utf8.decodeRune (b :: rest)).2 1
      mkE pa pb :: entriesGo fuel (advance pa ((b :: rest).take w)) (advance pb ((b :: rest).take w)) ((b :: rest).drop w)

def entryOf (value : Bytes) (a b : Pos) (k : Nat) : Entry :=
  mkE (advance a (value.take k)) (advance b (value.take k))

theorem go_entries (value : Bytes) (a b : Pos) (fuel : Nat) (pre s : Bytes) (hv : value = pre ++ s) :
    (positionsOf.go fuel pre.length s).map (entryOf value a b)
      = entriesGo fuel (advance a pre) (advance b pre) s := by
  induction fuel generalizing pre s with
  | zero => simp [positionsOf.go, entriesGo, entryOf, hv]
  | succ fuel ih =>
    cases s with
    | nil => simp [positionsOf.go, entriesGo, entryOf, hv]
    | cons c rest =>
      have h0 : entryOf value a b pre.length = mkE (advance a pre) (advance b pre) := by
        simp [entryOf, hv]
      simp only [positionsOf.go, entriesGo]
      by_cases hc : c = 10
      · subst hc
        simp only [if_true, List.map_cons, h0]
        have := ih (pre ++ [10]) rest (by simp [hv])
        simp only [List.length_append, List.length_singleton, advance_append] at this
        rw [this]
      · simp only [hc, if_false, List.map_cons, h0]
        have hw := decodeRune_width_le (c :: rest)
        generalize hwd : max (Utf8.decodeRune (c :: rest)).2 1 = w
        have hwl : w ≤ (c :: rest).length := by simp at hw ⊢; omega
        have := ih (pre ++ (c :: rest).take w) ((c :: rest).drop w) (by simp [hv])
        simp only [List.length_append, List.length_take, Nat.min_eq_left hwl, advance_append] at this
        rw [this]


theorem splitLF_exists (s : Bytes) : ∃ l ls, splitLF s = l :: ls := by
  induction s with
  | nil => exact ⟨[], [], rfl⟩
  | cons b rest ih =>
    obtain ⟨l, ls, h⟩ := ih
    simp only [splitLF]
    split
    · exact ⟨_, _, rfl⟩
    · rw [h]; exact ⟨_, _, rfl⟩

theorem splitLF_append_noLF (x y : Bytes) (l : Bytes) (ls : List Bytes) (hx : ∀ c ∈ x, c ≠ 10)
    (hy : splitLF y = l :: ls) : splitLF (x ++ y) = (x ++ l) :: ls := by
  induction x with
  | nil => simpa using hy
  | cons c rest ih =>
    have hc : c ≠ 10 := hx c (by simp)
    have := ih (fun d hd => hx d (by simp [hd]))
    simp only [List.cons_append, splitLF, hc, if_false, this]

theorem advance_noLF (p : Pos) (v : Bytes) (hv : ∀ c ∈ v, c ≠ 10) : advance p v = shift p v.length := by
  induction v generalizing p with
  | nil => simp [advance, shift]
  | cons c rest ih =>
    have hc : c ≠ 10 := hv c (by simp)
    simp only [advance, hc, if_false]
    rw [ih _ (fun d hd => hv d (by simp [hd]))]
    simp [shift]; omega

theorem runeWidthsAux_succ (f : Nat) (s : Bytes) (h : s ≠ []) :
    runeWidthsAux (f + 1) s =
      max (Utf8.decodeRune s).2 1 :: runeWidthsAux f (s.drop (max (Utf8.decodeRune s).2 1)) := by
  cases s with
  | nil => exact absurd rfl h
  | cons c rest => simp [runeWidthsAux]

theorem runeWidthsAux_nil (f : Nat) : runeWidthsAux f [] = [] := by
  cases f <;> simp [runeWidthsAux]

theorem entriesGo_nil (f : Nat) (pa pb : Pos) : entriesGo f pa pb [] = [mkE pa pb] := by
  cases f <;> simp [entriesGo]

theorem main_aux (n : Nat) : ∀ s : Bytes, s.length ≤ n → ∀ fv, s.length ≤ fv → validUtf8Aux fv s = true →
    ∀ l ls, splitLF s = l :: ls → ∀ f1, l.length ≤ f1 →
      (runeWidthsAux f1 l).sum = l.length ∧
      ∀ fg pa pb, s.length < fg →
        entriesGo fg pa pb s = lineEntries (runeWidthsAux f1 l) pa pb ++
          allEntries ls (nextLine pa l.length) (nextLine pb l.length) := by
  induction n with
  | zero =>
    intro s hs fv _ _ l ls hsp f1 _
    have : s = [] := List.length_eq_zero_iff.mp (by omega)
    subst this
    simp only [splitLF, List.cons.injEq] at hsp
    obtain ⟨rfl, rfl⟩ := hsp
    simp [runeWidthsAux_nil, entriesGo_nil, lineEntries, allEntries]
  | succ n ih =>
    intro s hs fv hfv hval l ls hsp f1 hf1
    cases s with
    | nil =>
      simp only [splitLF, List.cons.injEq] at hsp
      obtain ⟨rfl, rfl⟩ := hsp
      simp [runeWidthsAux_nil, entriesGo_nil, lineEntries, allEntries]
    | cons c rest =>
      cases fv with
      | zero => simp at hfv
      | succ fv =>
      simp only [List.length_cons] at hs hfv
      by_cases hc : c = 10
      · subst hc
        have hd : Utf8.decodeRune (10 :: rest) = (10, 1) := by simp [Utf8.decodeRune]
        simp only [validUtf8Aux, hd] at hval
        simp at hval
        obtain ⟨l', ls', hsp'⟩ := splitLF_exists rest
        simp only [splitLF, if_true, hsp', List.cons.injEq] at hsp
        obtain ⟨rfl, rfl⟩ := hsp
        obtain ⟨hsum, hgo⟩ := ih rest (by omega) fv (by omega) hval.2 l' ls' hsp' l'.length (Nat.le_refl _)
        refine ⟨by simp [runeWidthsAux_nil], ?_⟩
        intro fg pa pb hfg
        cases fg with
        | zero => omega
        | succ fg =>
          simp only [List.length_cons] at hfg
          simp only [entriesGo, if_true, runeWidthsAux_nil, lineEntries, allEntries, runeWidths, hsum]
          rw [hgo fg _ _ (by omega)]
          simp [advance, nextLine]
      · generalize hd : Utf8.decodeRune (c :: rest) = rw at hval
        obtain ⟨r, w⟩ := rw
        simp only [validUtf8Aux, hd, Bool.and_eq_true, Bool.not_eq_true'] at hval
        obtain ⟨hne, hval'⟩ := hval
        obtain ⟨hw1, hnoLF, hdec⟩ := decodeRune_valid c rest r w hd hne
        have hnoLF := hnoLF hc
        have hwle : w ≤ rest.length + 1 := by
          have := decodeRune_width_le (c :: rest); rw [hd] at this; simpa using this
        have hmax : max w 1 = w := by omega
        rw [hmax] at hval'
        have htk : ((c :: rest).take w).length = w := by simp; omega
        have hdl : ((c :: rest).drop w).length = rest.length + 1 - w := by simp
        obtain ⟨l', ls', hsp'⟩ := splitLF_exists ((c :: rest).drop w)
        have hsp2 := splitLF_append_noLF _ _ l' ls' hnoLF hsp'
        rw [List.take_append_drop, hsp] at hsp2
        simp only [List.cons.injEq] at hsp2
        obtain ⟨rfl, rfl⟩ := hsp2
        have hll : ((c :: rest).take w ++ l').length = w + l'.length := by rw [List.length_append, htk]
        rw [hll] at hf1 ⊢
        cases f1 with
        | zero => omega
        | succ f1 =>
        obtain ⟨hsum, hgo⟩ := ih ((c :: rest).drop w) (by omega) fv (by omega) hval' l' ls hsp' f1 (by omega)
        have hne' : (c :: rest).take w ++ l' ≠ [] := by
          intro h; have := congrArg List.length h; rw [hll] at this; simp at this; omega
        have hrw : runeWidthsAux (f1 + 1) ((c :: rest).take w ++ l') = w :: runeWidthsAux f1 l' := by
          rw [runeWidthsAux_succ _ _ hne', hdec l']
          simp only [hmax]
          rw [List.drop_left' htk]
        rw [hrw]
        refine ⟨by simp [hsum], ?_⟩
        intro fg pa pb hfg
        cases fg with
        | zero => omega
        | succ fg =>
          simp only [List.length_cons] at hfg
          simp only [entriesGo, hc, if_false, hd, hmax, lineEntries]
          rw [hgo fg _ _ (by omega), advance_noLF _ _ hnoLF, advance_noLF _ _ hnoLF, htk]
          simp [shift, nextLine, Nat.add_assoc]


theorem allEntries_split (value : Bytes) (a b : Pos) (hv : validUtf8 value = true) :
    allEntries (splitLF value) a b = (positionsOf value).map (entryOf value a b) := by
  obtain ⟨l, ls, hsp⟩ := splitLF_exists value
  obtain ⟨hsum, hgo⟩ := main_aux value.length value (Nat.le_refl _) value.length (Nat.le_refl _) hv l ls hsp
    l.length (Nat.le_refl _)
  have h1 := go_entries value a b (value.length + 1) [] value rfl
  simp only [List.length_nil, advance] at h1
  rw [positionsOf, h1, hgo _ a b (Nat.lt_succ_self _), hsp, allEntries, runeWidths, hsum]

theorem add_eq (sm : SM) (value : Bytes) (sf tf : Pos) (hv : validUtf8 value = true) :
    add sm value sf tf = ⟨sm.s2t ++ (positionsOf value).map (entryOf value sf tf),
      sm.t2s ++ (positionsOf value).map (entryOf value tf sf)⟩ := by
  have hs : startPos sf 0 sf.index = sf := by simp [startPos]
  have ht : startPos tf 0 tf.index = tf := by simp [startPos]
  rw [add, addLines_eq, hs, ht, allEntries_split _ _ _ hv, allEntries_split _ _ _ hv]


theorem go_le (fuel off : Nat) (s : Bytes) : ∀ k ∈ positionsOf.go fuel off s, k ≤ off + s.length := by
  induction fuel generalizing off s with
  | zero => intro k hk; simp [positionsOf.go] at hk; omega
  | succ fuel ih =>
    cases s with
    | nil => intro k hk; simp [positionsOf.go] at hk; omega
    | cons c rest =>
      intro k hk
      simp only [positionsOf.go] at hk
      split at hk
      · rcases List.mem_cons.mp hk with h | h
        · omega
        · have := ih _ _ k h; simp at this ⊢; omega
      · have hw := decodeRune_width_le (c :: rest)
        rcases List.mem_cons.mp hk with h | h
        · omega
        · have := ih _ _ k h
          simp only [List.length_drop, List.length_cons] at this hw ⊢
          omega

theorem positionsOf_le (value : Bytes) : ∀ k ∈ positionsOf value, k ≤ value.length := by
  intro k hk
  have := go_le _ _ _ k hk
  omega

theorem advance_line_col (p : Pos) (m : Bytes) :
    p.line ≤ (advance p m).line ∧ ((advance p m).line = p.line → (advance p m).col = p.col + m.length) := by
  induction m generalizing p with
  | nil => simp [advance]
  | cons c rest ih =>
    simp only [advance]
    split
    · have := ih { index := p.index + 1, line := p.line + 1, col := 0 }
      simp only at this
      constructor
      · omega
      · intro h; omega
    · have := ih { index := p.index + 1, line := p.line, col := p.col + 1 }
      simp only at this
      constructor
      · omega
      · intro h; have := this.2 h; simp only [List.length_cons]; omega

theorem advance_same_key (p : Pos) (m : Bytes) (hl : (advance p m).line = p.line) (hc : (advance p m).col = p.col) :
    m = [] := by
  have := (advance_line_col p m).2 hl
  exact List.length_eq_zero_iff.mp (by omega)

theorem key_inj_le (value : Bytes) (a : Pos) (k k' : Nat) (hkk : k ≤ k') (hk' : k' ≤ value.length)
    (hl : (advance a (value.take k')).line = (advance a (value.take k)).line)
    (hc : (advance a (value.take k')).col = (advance a (value.take k)).col) : k = k' := by
  have e : value.take k' = value.take k ++ (value.drop k).take (k' - k) := by
    have : k' = k + (k' - k) := by omega
    rw [this, List.take_add]; simp
  rw [e, advance_append] at hl hc
  have := advance_same_key _ _ hl hc
  have := congrArg List.length this
  simp at this
  omega

theorem key_inj (value : Bytes) (a : Pos) (k k' : Nat) (hk : k ≤ value.length) (hk' : k' ≤ value.length)
    (hl : (advance a (value.take k')).line = (advance a (value.take k)).line)
    (hc : (advance a (value.take k')).col = (advance a (value.take k)).col) : k = k' := by
  by_cases h : k ≤ k'
  · exact key_inj_le value a k k' h hk' hl hc
  · exact (key_inj_le value a k' k (by omega) hk hl.symm hc.symm).symm

theorem lookup_append_new (pre new : List Entry) (l c : Nat) (p : Pos)
    (hex : ∃ e ∈ new, e.line = l ∧ e.col = c)
    (hall : ∀ e ∈ new, e.line = l → e.col = c → e.pos = p) :
    lookup (pre ++ new) l c = some p := by
  simp only [lookup, List.reverse_append, List.find?_append]
  obtain ⟨e, he, hl, hc⟩ := hex
  cases hf : new.reverse.find? (fun e => e.line == l && e.col == c) with
  | none =>
    have := List.find?_eq_none.mp hf e (by simpa using he)
    simp [hl, hc] at this
  | some e' =>
    have hm := List.mem_of_find?_eq_some hf
    have hp := List.find?_some hf
    simp only [Bool.and_eq_true, beq_iff_eq] at hp
    simp [hall e' (by simpa using hm) hp.1 hp.2]

theorem lookup_append_skip (pre new : List Entry) (l c : Nat)
    (hno : ∀ e ∈ new, ¬ (e.line = l ∧ e.col = c)) :
    lookup (pre ++ new) l c = lookup pre l c := by
  simp only [lookup, List.reverse_append, List.find?_append]
  have : new.reverse.find? (fun e => e.line == l && e.col == c) = none := by
    apply List.find?_eq_none.mpr
    intro e he
    have := hno e (by simpa using he)
    simpa using this
  simp [this]

theorem lookup_some_hasLine (es : List Entry) (l c : Nat) (p : Pos) (h : lookup es l c = some p) :
    hasLine es l = true := by
  simp only [lookup, Option.map_eq_some_iff] at h
  obtain ⟨e, hf, _⟩ := h
  have hm := List.mem_of_find?_eq_some hf
  have hp := List.find?_some hf
  simp only [Bool.and_eq_true, beq_iff_eq] at hp
  simp only [hasLine, List.any_eq_true, beq_iff_eq]
  exact ⟨e, by simpa using hm, hp.1⟩

theorem sourceOfAux_some (es : List Entry) (l c : Nat) (p : Pos) (h : lookup es l c = some p) :
    sourceOfAux es l c = some p := by
  cases c with
  | zero => simpa [sourceOfAux] using h
  | succ c => simp [sourceOfAux, h]

theorem lookup_map_entryOf (pre : List Entry) (value : Bytes) (a b : Pos) (k : Nat) (hk : k ∈ positionsOf value) :
    lookup (pre ++ (positionsOf value).map (entryOf value a b))
      (advance a (value.take k)).line (advance a (value.take k)).col = some (advance b (value.take k)) := by
  apply lookup_append_new
  · exact ⟨entryOf value a b k, List.mem_map.mpr ⟨k, hk, rfl⟩, rfl, rfl⟩
  · intro e he hl hc
    obtain ⟨k', hk', rfl⟩ := List.mem_map.mp he
    simp only [entryOf, mkE] at hl hc ⊢
    have := key_inj value a k k' (positionsOf_le value k hk) (positionsOf_le value k' hk') hl hc
    rw [this]

/-- The heart of C07: after `add`, every rune-start / line-end position of the expression maps to the target
    position reached by advancing over the same bytes, and back. -/
theorem add_maps (sm : SM) (value : Bytes) (sf tf : Pos) (hv : validUtf8 value = true)
    (k : Nat) (hk : k ∈ positionsOf value) :
    targetOf (add sm value sf tf) (advance sf (value.take k)).line (advance sf (value.take k)).col
      = some (advance tf (value.take k)) ∧
    sourceOf (add sm value sf tf) (advance tf (value.take k)).line (advance tf (value.take k)).col
      = some (advance sf (value.take k)) := by
  rw [add_eq sm value sf tf hv]
  have h1 := lookup_map_entryOf sm.s2t value sf tf k hk
  have h2 := lookup_map_entryOf sm.t2s value tf sf k hk
  refine ⟨h1, ?_⟩
  simp only [sourceOf, lookup_some_hasLine _ _ _ _ h2, if_true]
  exact sourceOfAux_some _ _ _ _ h2

/-- Keys (line, col) an `add` writes into the source→target table. -/
def srcKeys (value : Bytes) (sf : Pos) : List (Nat × Nat) :=
  (positionsOf value).map fun k => ((advance sf (value.take k)).line, (advance sf (value.take k)).col)

/-- A later `add` whose source positions are all different leaves earlier source→target lookups alone. -/
theorem add_no_clobber (sm : SM) (v1 v2 : Bytes) (s1 t1 s2 t2 : Pos) (hv2 : validUtf8 v2 = true)
    (line col : Nat) (hdis : (line, col) ∉ srcKeys v2 s2) :
    targetOf (add (add sm v1 s1 t1) v2 s2 t2) line col = targetOf (add sm v1 s1 t1) line col := by
  rw [add_eq (add sm v1 s1 t1) v2 s2 t2 hv2]
  simp only [targetOf]
  apply lookup_append_skip
  intro e he hkey
  obtain ⟨k, hk, rfl⟩ := List.mem_map.mp he
  apply hdis
  simp only [srcKeys, List.mem_map]
  refine ⟨k, hk, ?_⟩
  simp only [entryOf, mkE] at hkey
  rw [hkey.1, hkey.2]

end TemplVerif.Proofs.Pos
