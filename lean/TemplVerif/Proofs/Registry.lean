import TemplVerif.Model.Registry
import TemplVerif.Proofs.RegistryAux
/- Helper lemmas for C12. -/
namespace TemplVerif.Proofs.Registry
open TemplVerif.Registry TemplVerif.Proofs.RegistryAux

def isScriptDefOf (n : Nat) : Event → Bool
  | .scriptDef ns => ns.contains n
  | _ => false

def isStyleDefOf (id : Nat) : Event → Bool
  | .styleDef ids => ids.contains id
  | _ => false

def sf (acc : Ctx × List Nat) (n : Nat) : Ctx × List Nat :=
  if acc.1.scripts.contains n then acc else ({ acc.1 with scripts := acc.1.scripts ++ [n] }, acc.2 ++ [n])

theorem renderScriptItems_eq (c : Ctx) (names : List Nat) :
    renderScriptItems c names = ((names.foldl sf (c, [])).1,
      if (names.foldl sf (c, [])).2.isEmpty then [] else [.scriptDef (names.foldl sf (c, [])).2]) := rfl

theorem sf_fold (names : List Nat) : ∀ acc : Ctx × List Nat,
    (∀ x, x ∈ (names.foldl sf acc).1.scripts ↔ x ∈ acc.1.scripts ∨ x ∈ names) ∧
    (∀ x, x ∈ (names.foldl sf acc).2 ↔ x ∈ acc.2 ∨ (x ∈ names ∧ x ∉ acc.1.scripts)) ∧
    (names.foldl sf acc).1.classes = acc.1.classes ∧ (names.foldl sf acc).1.onces = acc.1.onces := by
  induction names with
  | nil => intro acc; simp
  | cons n rest ih =>
    intro acc
    rw [List.foldl_cons]
    obtain ⟨i1, i2, i3, i4⟩ := ih (sf acc n)
    have s1 : ∀ x, x ∈ (sf acc n).1.scripts ↔ x ∈ acc.1.scripts ∨ x = n := by
      intro x; unfold sf; split <;> simp_all
    have s2 : ∀ x, x ∈ (sf acc n).2 ↔ x ∈ acc.2 ∨ (x = n ∧ n ∉ acc.1.scripts) := by
      intro x; unfold sf; split <;> simp_all
    have s3 : (sf acc n).1.classes = acc.1.classes := by unfold sf; split <;> simp
    have s4 : (sf acc n).1.onces = acc.1.onces := by unfold sf; split <;> simp
    refine ⟨?_, ?_, by rw [i3, s3], by rw [i4, s4]⟩
    · intro x; rw [i1, s1]; simp [or_assoc]
    · intro x; rw [i2, s2, s1]
      simp only [List.mem_cons]
      by_cases hx : x = n
      · subst hx; simp only [true_and, true_or, or_true, not_true, and_false, or_false]
      · simp [hx]

def cf (a : Ctx × List Nat) (id : Nat) : Ctx × List Nat := cssComp id a

theorem cf_fold (names : List Nat) : ∀ acc : Ctx × List Nat,
    (∀ x, x ∈ (names.foldl cf acc).1.classes ↔ x ∈ acc.1.classes ∨ x ∈ names) ∧
    (∀ x, x ∈ (names.foldl cf acc).2 ↔ x ∈ acc.2 ∨ (x ∈ names ∧ x ∉ acc.1.classes)) ∧
    (names.foldl cf acc).1.scripts = acc.1.scripts ∧ (names.foldl cf acc).1.onces = acc.1.onces := by
  induction names with
  | nil => intro acc; simp
  | cons n rest ih =>
    intro acc
    rw [List.foldl_cons]
    obtain ⟨i1, i2, i3, i4⟩ := ih (cf acc n)
    have s1 : ∀ x, x ∈ (cf acc n).1.classes ↔ x ∈ acc.1.classes ∨ x = n := by
      intro x; unfold cf cssComp; split <;> simp_all
    have s2 : ∀ x, x ∈ (cf acc n).2 ↔ x ∈ acc.2 ∨ (x = n ∧ n ∉ acc.1.classes) := by
      intro x; unfold cf cssComp; split <;> simp_all
    have s3 : (cf acc n).1.scripts = acc.1.scripts := by unfold cf cssComp; split <;> simp
    have s4 : (cf acc n).1.onces = acc.1.onces := by unfold cf cssComp; split <;> simp
    refine ⟨?_, ?_, by rw [i3, s3], by rw [i4, s4]⟩
    · intro x; rw [i1, s1]; simp [or_assoc]
    · intro x; rw [i2, s2, s1]
      simp only [List.mem_cons]
      by_cases hx : x = n
      · subst hx; simp only [true_and, true_or, or_true, not_true, and_false, or_false]
      · simp [hx]

mutual
  def compIds : ClassItem → List Nat
    | .comp id => [id]
    | .kvComp id on => if on then [id] else []
    | .kvIface id on => if on then [id] else []
    | .classes items => compIdsList items
    | .slice ids => ids
    | .kvSlice id on id2 => (if on then [id] else []) ++ [id2]
    | .fn id => [id]
    | .const _ => []
  def compIdsList : List ClassItem → List Nat
    | [] => []
    | i :: rest => compIds i ++ compIdsList rest
end

mutual
  theorem cssItem_eq : ∀ (i : ClassItem) (acc : Ctx × List Nat), cssItem i acc = (compIds i).foldl cf acc
    | .comp id, acc => by simp [cssItem, compIds, cf]
    | .kvComp id on, acc => by cases on <;> simp [cssItem, compIds, cf]
    | .kvIface id on, acc => by cases on <;> simp [cssItem, compIds, cf]
    | .classes items, acc => by simp [cssItem, compIds, cssItems_eq items acc]
    | .slice ids, acc => by simp [cssItem, compIds]; rfl
    | .kvSlice id on id2, acc => by cases on <;> simp [cssItem, compIds, cf]
    | .fn id, acc => by simp [cssItem, compIds, cf]
    | .const _, acc => by simp [cssItem, compIds]
  theorem cssItems_eq : ∀ (l : List ClassItem) (acc : Ctx × List Nat), cssItems l acc = (compIdsList l).foldl cf acc
    | [], acc => by simp [cssItems, compIdsList]
    | i :: rest, acc => by simp [cssItems, compIdsList, List.foldl_append, cssItem_eq i acc, cssItems_eq rest]
end

mutual
  theorem namesOf_sub : ∀ (i : ClassItem) (id : Nat), id < 1000 → (id, true) ∈ namesOf i → id ∈ compIds i
    | .comp id', id, _, h => by simp_all [namesOf, compIds]
    | .kvComp id' on, id, _, h => by simp_all [namesOf, compIds]
    | .kvIface id' on, id, _, h => by simp_all [namesOf, compIds]
    | .classes items, id, hlt, h => by
        simp only [namesOf] at h; simp only [compIds]; exact namesOfList_sub items id hlt h
    | .slice ids, id, _, h => by simp_all [namesOf, compIds]
    | .kvSlice id' on id2, id, _, h => by
        simp [namesOf] at h; simp [compIds]; rcases h with ⟨h1, h2⟩ | h <;> simp_all
    | .fn id', id, _, h => by simp_all [namesOf, compIds]
    | .const n, id, hlt, h => by simp [namesOf] at h; omega
  theorem namesOfList_sub : ∀ (l : List ClassItem) (id : Nat), id < 1000 → (id, true) ∈ namesOfList l → id ∈ compIdsList l
    | [], id, _, h => by simp [namesOfList] at h
    | i :: rest, id, hlt, h => by
        simp only [namesOfList, List.mem_append] at h
        simp only [compIdsList, List.mem_append]
        rcases h with h | h
        · exact Or.inl (namesOf_sub i id hlt h)
        · exact Or.inr (namesOfList_sub rest id hlt h)
end

theorem classNames_sub (items : List ClassItem) (id : Nat) (hlt : id < 1000) (h : id ∈ classNames items) :
    id ∈ compIdsList items := by
  apply namesOfList_sub items id hlt
  unfold classNames at h
  simp only [List.mem_filter] at h
  obtain ⟨_, h2⟩ := h
  cases hf : (namesOfList items).reverse.find? (·.1 == id) with
  | none => simp [hf] at h2
  | some pr =>
    simp [hf] at h2
    have hm := List.mem_of_find?_eq_some hf
    have hp := List.find?_some hf
    simp at hp hm
    obtain ⟨a, b⟩ := pr
    simp_all

def Shape (D : List Nat → Event) (P : Nat → Event → Bool) (old new : List Nat) (ev : List Event) : Prop :=
  ∃ fresh tail, ev = (if fresh.isEmpty then [] else [D fresh]) ++ tail ∧ (∀ e ∈ tail, ∀ n, P n e = false) ∧
    (∀ x, x ∈ new ↔ x ∈ old ∨ x ∈ fresh) ∧ (∀ x ∈ fresh, x ∉ old)

theorem shape_facts {D : List Nat → Event} {P : Nat → Event → Bool} {old new : List Nat} {ev : List Event}
    (hPD : ∀ n ns, P n (D ns) = ns.contains n) (hs : Shape D P old new ev) (n : Nat) :
    (ev.filter (P n)).length ≤ 1 ∧ (n ∈ old → (ev.filter (P n)).length = 0) ∧ (n ∈ old → n ∈ new) ∧
    ((ev.filter (P n)).length ≠ 0 → n ∈ new) ∧
    (n ∈ new → n ∈ old ∨ ∃ d rest, ev = d :: rest ∧ P n d = true) := by
  obtain ⟨fresh, tail, hev, ht, hnew, hfr⟩ := hs
  have htail : tail.filter (P n) = [] := by
    rw [List.filter_eq_nil_iff]; intro e he; simp [ht e he n]
  subst hev
  rw [List.filter_append, htail, List.append_nil]
  by_cases hemp : fresh.isEmpty
  · have hf : fresh = [] := by simpa using hemp
    subst hf
    simp at hnew
    simp [hnew]
    intro ho; exact Or.inl ho
  · simp only [hemp, Bool.false_eq_true, if_false]
    by_cases hc : n ∈ fresh
    · have hp : P n (D fresh) = true := by rw [hPD]; simpa using hc
      simp [hp, hnew, hc]
      intro ho; exact absurd ho (hfr n hc)
    · have hp : P n (D fresh) = false := by rw [hPD]; simpa using hc
      simp [hp, hnew, hc]

theorem shape_of_fold {D : List Nat → Event} {P : Nat → Event → Bool} {old new fresh names : List Nat}
    (h1 : ∀ x, x ∈ new ↔ x ∈ old ∨ x ∈ names)
    (h2 : ∀ x, x ∈ fresh ↔ x ∈ ([] : List Nat) ∨ (x ∈ names ∧ x ∉ old)) (tail : List Event)
    (ht : ∀ e ∈ tail, ∀ n, P n e = false) :
    Shape D P old new ((if fresh.isEmpty then [] else [D fresh]) ++ tail) := by
  refine ⟨fresh, tail, rfl, ht, ?_, ?_⟩
  · intro x; rw [h1, h2]
    by_cases hx : x ∈ old <;> simp [hx]
  · intro x hx; rw [h2] at hx; simp at hx; exact hx.2

theorem shape_empty {D : List Nat → Event} {P : Nat → Event → Bool} {old : List Nat} {ev : List Event}
    (ht : ∀ e ∈ ev, ∀ n, P n e = false) : Shape D P old old ev :=
  ⟨[], ev, by simp, ht, by simp, by simp⟩

/-! explicit forms of `step` -/
theorem step_sc (c : Ctx) (m : Nat) (hc : Bool) : step c (.scriptComponent m hc) =
    (([m].foldl sf (c, [])).1,
      (if ([m].foldl sf (c, [])).2.isEmpty then [] else [.scriptDef ([m].foldl sf (c, [])).2]) ++
        (if hc then [.scriptCall m] else [])) := rfl

theorem step_sa (c : Ctx) (names : List Nat) : step c (.scriptAttrs names) =
    ((names.foldl sf (c, [])).1,
      (if (names.foldl sf (c, [])).2.isEmpty then [] else [.scriptDef (names.foldl sf (c, [])).2]) ++
        names.map .scriptCall) := rfl

theorem step_ca (c : Ctx) (items : List ClassItem) : step c (.classAttr items) =
    (((compIdsList items).foldl cf (c, [])).1,
      (if ((compIdsList items).foldl cf (c, [])).2.isEmpty then []
        else [.styleDef ((compIdsList items).foldl cf (c, [])).2]) ++
        (classNames items).map .className) := by
  rw [← cssItems_eq]; rfl

theorem step_once (c : Ctx) (h : Nat) : step c (.once h) =
    if c.onces.contains h then (c, []) else ({ c with onces := c.onces ++ [h] }, [.onceContent h]) := rfl

theorem step_script_shape (c : Ctx) (u : Use) :
    Shape .scriptDef isScriptDefOf c.scripts (step c u).1.scripts (step c u).2 := by
  cases u with
  | scriptComponent m hc =>
    rw [step_sc]
    obtain ⟨f1, f2, _, _⟩ := sf_fold [m] (c, [])
    apply shape_of_fold f1 f2
    intro e he n; cases hc <;> simp at he; subst he; rfl
  | scriptAttrs names =>
    rw [step_sa]
    obtain ⟨f1, f2, _, _⟩ := sf_fold names (c, [])
    apply shape_of_fold f1 f2
    intro e he n; simp at he; obtain ⟨a, _, rfl⟩ := he; rfl
  | classAttr items =>
    rw [step_ca]
    obtain ⟨_, _, f3, _⟩ := cf_fold (compIdsList items) (c, [])
    simp only [f3]
    apply shape_empty
    intro e he n
    simp at he
    rcases he with ⟨_, rfl⟩ | ⟨a, _, rfl⟩
    · rfl
    · rfl
  | once h =>
    rw [step_once]
    split
    · apply shape_empty; simp
    · apply shape_empty; intro e he n; simp at he; subst he; rfl

theorem step_class_shape (c : Ctx) (u : Use) :
    Shape .styleDef isStyleDefOf c.classes (step c u).1.classes (step c u).2 := by
  cases u with
  | scriptComponent m hc =>
    rw [step_sc]
    obtain ⟨_, _, f3, _⟩ := sf_fold [m] (c, [])
    simp only [f3]
    apply shape_empty
    intro e he n
    simp only [List.mem_append] at he
    rcases he with he | he
    · split at he <;> simp at he; subst he; rfl
    · cases hc <;> simp at he; subst he; rfl
  | scriptAttrs names =>
    rw [step_sa]
    obtain ⟨_, _, f3, _⟩ := sf_fold names (c, [])
    simp only [f3]
    apply shape_empty
    intro e he n
    simp only [List.mem_append] at he
    rcases he with he | he
    · split at he <;> simp at he; subst he; rfl
    · simp at he; obtain ⟨a, _, rfl⟩ := he; rfl
  | classAttr items =>
    rw [step_ca]
    obtain ⟨f1, f2, _, _⟩ := cf_fold (compIdsList items) (c, [])
    apply shape_of_fold f1 f2
    intro e he n; simp at he; obtain ⟨a, _, rfl⟩ := he; rfl
  | once h =>
    rw [step_once]
    split
    · apply shape_empty; simp
    · apply shape_empty; intro e he n; simp at he; subst he; rfl

theorem hPD_script (n : Nat) (ns : List Nat) : isScriptDefOf n (.scriptDef ns) = ns.contains n := rfl
theorem hPD_style (n : Nat) (ns : List Nat) : isStyleDefOf n (.styleDef ns) = ns.contains n := rfl

theorem defsOfScript_eq (n : Nat) (es : List Event) :
    defsOfScript n es = (es.filter (isScriptDefOf n)).length := by
  unfold defsOfScript; congr 1

theorem defsOfClass_eq (n : Nat) (es : List Event) :
    defsOfClass n es = (es.filter (isStyleDefOf n)).length := by
  unfold defsOfClass; congr 1

/-- Each script's definition is emitted at most once per context, and not at all if the context already has it. -/
theorem script_def_once (uses : List Use) (c : Ctx) (n : Nat) :
    defsOfScript n (run c uses).2 ≤ 1 ∧ (n ∈ c.scripts → defsOfScript n (run c uses).2 = 0) := by
  rw [defsOfScript_eq]
  exact once_generic (isScriptDefOf n) (fun c => n ∈ c.scripts)
    (fun c u => (shape_facts hPD_script (step_script_shape c u) n).1)
    (fun c u => (shape_facts hPD_script (step_script_shape c u) n).2.1)
    (fun c u => (shape_facts hPD_script (step_script_shape c u) n).2.2.1)
    (fun c u => (shape_facts hPD_script (step_script_shape c u) n).2.2.2.1) uses c

/-- Each CSS rule is emitted at most once per context, and never for a class the context already holds
    (in particular: classes pre-registered by the middleware are never inlined). -/
theorem class_def_once (uses : List Use) (c : Ctx) (id : Nat) :
    defsOfClass id (run c uses).2 ≤ 1 ∧ (id ∈ c.classes → defsOfClass id (run c uses).2 = 0) := by
  rw [defsOfClass_eq]
  exact once_generic (isStyleDefOf id) (fun c => id ∈ c.classes)
    (fun c u => (shape_facts hPD_style (step_class_shape c u) id).1)
    (fun c u => (shape_facts hPD_style (step_class_shape c u) id).2.1)
    (fun c u => (shape_facts hPD_style (step_class_shape c u) id).2.2.1)
    (fun c u => (shape_facts hPD_style (step_class_shape c u) id).2.2.2.1) uses c

theorem filter_len_zero {p : Event → Bool} {ev : List Event} (h : ∀ e ∈ ev, p e = false) :
    (ev.filter p).length = 0 := by
  have : ev.filter p = [] := by
    rw [List.filter_eq_nil_iff]; intro e he; simp [h e he]
  simp [this]

theorem step_once_facts (c : Ctx) (u : Use) (h : Nat) :
    (((step c u).2.filter (fun e => e == .onceContent h)).length ≤ 1) ∧
    (h ∈ c.onces → ((step c u).2.filter (fun e => e == .onceContent h)).length = 0) ∧
    (h ∈ c.onces → h ∈ (step c u).1.onces) ∧
    (((step c u).2.filter (fun e => e == .onceContent h)).length ≠ 0 → h ∈ (step c u).1.onces) := by
  cases u with
  | scriptComponent m hc =>
    rw [step_sc]
    obtain ⟨_, _, _, f4⟩ := sf_fold [m] (c, [])
    simp only [f4]
    have hz : ∀ e ∈ (if ([m].foldl sf (c, [])).2.isEmpty then [] else [Event.scriptDef ([m].foldl sf (c, [])).2]) ++
        (if hc then [Event.scriptCall m] else []), (fun e => e == Event.onceContent h) e = false := by
      intro e he
      simp only [List.mem_append] at he
      rcases he with he | he
      · split at he <;> simp at he; subst he; rfl
      · cases hc <;> simp at he; subst he; rfl
    rw [filter_len_zero hz]; simp
  | scriptAttrs names =>
    rw [step_sa]
    obtain ⟨_, _, _, f4⟩ := sf_fold names (c, [])
    simp only [f4]
    have hz : ∀ e ∈ (if (names.foldl sf (c, [])).2.isEmpty then [] else [Event.scriptDef (names.foldl sf (c, [])).2]) ++
        names.map Event.scriptCall, (fun e => e == Event.onceContent h) e = false := by
      intro e he
      simp only [List.mem_append] at he
      rcases he with he | he
      · split at he <;> simp at he; subst he; rfl
      · simp at he; obtain ⟨a, _, rfl⟩ := he; rfl
    rw [filter_len_zero hz]; simp
  | classAttr items =>
    rw [step_ca]
    obtain ⟨_, _, _, f4⟩ := cf_fold (compIdsList items) (c, [])
    simp only [f4]
    have hz : ∀ e ∈ (if ((compIdsList items).foldl cf (c, [])).2.isEmpty then []
          else [Event.styleDef ((compIdsList items).foldl cf (c, [])).2]) ++
        (classNames items).map Event.className, (fun e => e == Event.onceContent h) e = false := by
      intro e he
      simp only [List.mem_append] at he
      rcases he with he | he
      · split at he <;> simp at he; subst he; rfl
      · simp at he; obtain ⟨a, _, rfl⟩ := he; rfl
    rw [filter_len_zero hz]; simp
  | once h' =>
    rw [step_once]
    by_cases hc : c.onces.contains h' = true
    · simp only [hc, if_true]; simp
    · simp only [hc]
      by_cases hh : h' = h
      · subst hh
        simp at hc
        simp [hc]
      · have : (Event.onceContent h' == Event.onceContent h) = false := by simp [hh]
        simp [this]
        intro hm; exact Or.inl hm

/-- Each once handle's content is emitted at most once per context. -/
theorem once_content_once (uses : List Use) (c : Ctx) (h : Nat) :
    oncesOf h (run c uses).2 ≤ 1 ∧ (h ∈ c.onces → oncesOf h (run c uses).2 = 0) := by
  unfold oncesOf
  exact once_generic (fun e => e == .onceContent h) (fun c => h ∈ c.onces)
    (fun c u => (step_once_facts c u h).1)
    (fun c u => (step_once_facts c u h).2.1)
    (fun c u => (step_once_facts c u h).2.2.1)
    (fun c u => (step_once_facts c u h).2.2.2) uses c

theorem script_call_in_new (c : Ctx) (u : Use) (n : Nat) (h : Event.scriptCall n ∈ (step c u).2) :
    n ∈ (step c u).1.scripts := by
  cases u with
  | scriptComponent m hc =>
    rw [step_sc] at h ⊢
    obtain ⟨f1, _, _, _⟩ := sf_fold [m] (c, [])
    rw [f1]
    simp only [List.mem_append] at h
    rcases h with h | h
    · split at h <;> simp at h
    · cases hc <;> simp at h
      subst h; simp
  | scriptAttrs names =>
    rw [step_sa] at h ⊢
    obtain ⟨f1, _, _, _⟩ := sf_fold names (c, [])
    rw [f1]
    simp only [List.mem_append] at h
    rcases h with h | h
    · split at h <;> simp at h
    · simp at h; exact Or.inr h
  | classAttr items =>
    rw [step_ca] at h
    simp only [List.mem_append] at h
    rcases h with h | h
    · split at h <;> simp at h
    · simp at h
  | once h' =>
    rw [step_once] at h
    split at h <;> simp at h

theorem class_name_in_new (c : Ctx) (u : Use) (id : Nat) (hlt : id < 1000)
    (h : Event.className id ∈ (step c u).2) : id ∈ (step c u).1.classes := by
  cases u with
  | scriptComponent m hc =>
    rw [step_sc] at h
    simp only [List.mem_append] at h
    rcases h with h | h
    · split at h <;> simp at h
    · cases hc <;> simp at h
  | scriptAttrs names =>
    rw [step_sa] at h
    simp only [List.mem_append] at h
    rcases h with h | h
    · split at h <;> simp at h
    · simp at h
  | classAttr items =>
    rw [step_ca] at h ⊢
    obtain ⟨f1, _, _, _⟩ := cf_fold (compIdsList items) (c, [])
    rw [f1]
    simp only [List.mem_append] at h
    rcases h with h | h
    · split at h <;> simp at h
    · simp at h; exact Or.inr (classNames_sub items id hlt h)
  | once h' =>
    rw [step_once] at h
    split at h <;> simp at h

/-- Definition before use: wherever a call of script n appears, its definition appeared earlier in this context's
    output, unless the context had it already. -/
theorem script_def_before_call (uses : List Use) (c : Ctx) (n : Nat) (hn : n ∉ c.scripts) (i : Nat)
    (hi : (run c uses).2[i]? = some (.scriptCall n)) :
    ∃ j, j < i ∧ ∃ e, (run c uses).2[j]? = some e ∧ isScriptDefOf n e = true := by
  have key := before_generic (.scriptCall n) (isScriptDefOf n) (fun c => n ∈ c.scripts) rfl
    (fun c u hq => (shape_facts hPD_script (step_script_shape c u) n).2.2.2.2 (script_call_in_new c u n hq))
    (fun c u hm => by
      rcases (shape_facts hPD_script (step_script_shape c u) n).2.2.2.2 hm with ho | ⟨d, rest, hev, hp⟩
      · exact Or.inl ho
      · exact Or.inr ⟨d, by rw [hev]; simp, hp⟩)
    uses c i hi
  rcases key with hm | hk
  · exact absurd hm hn
  · exact hk

/-- Rule before class name, for component classes (ids below 1000; names of constant classes carry no rule). -/
theorem class_def_before_name (uses : List Use) (c : Ctx) (id : Nat) (hid : id ∉ c.classes) (hlt : id < 1000) (i : Nat)
    (hi : (run c uses).2[i]? = some (.className id)) :
    ∃ j, j < i ∧ ∃ e, (run c uses).2[j]? = some e ∧ isStyleDefOf id e = true := by
  have key := before_generic (.className id) (isStyleDefOf id) (fun c => id ∈ c.classes) rfl
    (fun c u hq => (shape_facts hPD_style (step_class_shape c u) id).2.2.2.2 (class_name_in_new c u id hlt hq))
    (fun c u hm => by
      rcases (shape_facts hPD_style (step_class_shape c u) id).2.2.2.2 hm with ho | ⟨d, rest, hev, hp⟩
      · exact Or.inl ho
      · exact Or.inr ⟨d, by rw [hev]; simp, hp⟩)
    uses c i hi
  rcases key with hm | hk
  · exact absurd hm hid
  · exact hk

end TemplVerif.Proofs.Registry
