import TemplVerif.Model.Registry
/- Helper lemmas for C12. -/
namespace TemplVerif.Proofs.Registry
open TemplVerif.Registry

def isScriptDefOf (n : Nat) : Event → Bool
  | .scriptDef ns => ns.contains n
  | _ => false

def isStyleDefOf (id : Nat) : Event → Bool
  | .styleDef ids => ids.contains id
  | _ => false

/-- Each script's definition is emitted at most once per context, and not at all if the context already has it. -/
theorem script_def_once (uses : List Use) (c : Ctx) (n : Nat) :
    defsOfScript n (run c uses).2 ≤ 1 ∧ (n ∈ c.scripts → defsOfScript n (run c uses).2 = 0) := by
  sorry

/-- Each CSS rule is emitted at most once per context, and never for a class the context already holds
    (in particular: classes pre-registered by the middleware are never inlined). -/
theorem class_def_once (uses : List Use) (c : Ctx) (id : Nat) :
    defsOfClass id (run c uses).2 ≤ 1 ∧ (id ∈ c.classes → defsOfClass id (run c uses).2 = 0) := by
  sorry

/-- Each once handle's content is emitted at most once per context. -/
theorem once_content_once (uses : List Use) (c : Ctx) (h : Nat) :
    oncesOf h (run c uses).2 ≤ 1 ∧ (h ∈ c.onces → oncesOf h (run c uses).2 = 0) := by
  sorry

/-- Definition before use: wherever a call of script n appears, its definition appeared earlier in this context's
    output, unless the context had it already. -/
theorem script_def_before_call (uses : List Use) (c : Ctx) (n : Nat) (hn : n ∉ c.scripts) (i : Nat)
    (hi : (run c uses).2[i]? = some (.scriptCall n)) :
    ∃ j, j < i ∧ ∃ e, (run c uses).2[j]? = some e ∧ isScriptDefOf n e = true := by
  sorry

/-- Rule before class name, for component classes (ids below 1000; names of constant classes carry no rule). -/
theorem class_def_before_name (uses : List Use) (c : Ctx) (id : Nat) (hid : id ∉ c.classes) (hlt : id < 1000) (i : Nat)
    (hi : (run c uses).2[i]? = some (.className id)) :
    ∃ j, j < i ∧ ∃ e, (run c uses).2[j]? = some e ∧ isStyleDefOf id e = true := by
  sorry

end TemplVerif.Proofs.Registry
