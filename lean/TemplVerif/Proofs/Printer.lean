import TemplVerif.Model.Reparse
namespace TemplVerif.Proofs.Printer
open TemplVerif TemplVerif.Ast TemplVerif.Printer TemplVerif.Reparse

/-! ### what `reNode` keeps, node by node (no recursion needed) -/

theorem reNode_isWs (n : Node) (tr : Trail) (l : Nat) : (reNode n tr l).isWs = n.isWs := by
  cases n <;> simp only [reNode, Node.isWs]

theorem reNode_isTrailer (n : Node) (tr : Trail) (l : Nat) : isTrailer (reNode n tr l) = isTrailer n := by
  cases n <;> simp only [reNode, isTrailer]

theorem reNode_alwaysBreak (n : Node) (tr : Trail) (l : Nat) : alwaysBreak (reNode n tr l) = alwaysBreak n := by
  cases n <;> simp only [reNode, alwaysBreak]

theorem reNode_eats (n : Node) (tr : Trail) (l : Nat) : eatsLeadingWs (reNode n tr l) = eatsLeadingWs n := by
  cases n <;> simp only [reNode, eatsLeadingWs]

/-- the trailing space of a re-parsed trailer node is the separator it was given -/
theorem reNode_ownTrail (n : Node) (tr : Trail) (l : Nat) (hf : nodeInFragment n = true) :
    ownTrail (reNode n tr l) = if isTrailer n then tr else .vert := by
  cases n <;> simp_all [reNode, ownTrail, isTrailer, nodeInFragment]

theorem ownTrail_nonTrailer (n : Node) (h : isTrailer n = false) : ownTrail n = .vert := by
  cases n <;> simp_all [ownTrail, isTrailer]

theorem wsN_isWs : wsN.isWs = true := rfl

theorem reNodes_nil (s : Nat) (i : Bool) (l : Nat) (p : Bool) (cl : Nat) (ce : Bool) (last : Option Node) :
    reNodes s i l p cl ce last .nil = .nil ∨ reNodes s i l p cl ce last .nil = .cons wsN .nil := by
  simp only [reNodes]
  generalize (p && !ce && !(cl == 0 && (match last with | some l => isLineComment l | none => true))) = c
  cases c <;> simp

/-- all-whitespace lists stay all-whitespace and conversely -/
theorem reNodes_allWs (s : Nat) (i : Bool) (cl : Nat) (ce : Bool) :
    (ns : Nodes) → (l : Nat) → (p : Bool) → (last : Option Node) →
      (reNodes s i l p cl ce last ns).allWs = ns.allWs
  | .nil, l, p, last => by
    rcases reNodes_nil s i l p cl ce last with h | h <;> rw [h] <;> rfl
  | .cons n rest, l, p, last => by
    simp only [reNodes]
    by_cases hn : n.isWs = true
    · simp only [hn, if_true, Nodes.allWs, Bool.true_and]
      exact reNodes_allWs s i cl ce rest l p last
    · have hn' : n.isWs = false := by simpa using hn
      simp only [hn', Bool.false_eq_true, if_false, Nodes.allWs, Bool.false_and]
      split <;> simp [Nodes.allWs, reNode_isWs, hn', wsN_isWs]

theorem reNodes_cons_ws (s : Nat) (i : Bool) (l : Nat) (p : Bool) (cl : Nat) (ce : Bool) (last : Option Node)
    (n : Node) (rest : Nodes) (hn : n.isWs = true) :
    reNodes s i l p cl ce last (.cons n rest) = reNodes s i l p cl ce last rest := by
  simp only [reNodes, hn, if_true]

/-- the indentation of the next node: `start` after a line break, 0 on a line that has begun -/
def nextLevel (s : Nat) (tr : Trail) : Nat := match tr with | .vert => s | _ => 0

theorem reNodes_cons (s : Nat) (i : Bool) (l : Nat) (p : Bool) (cl : Nat) (ce : Bool) (last : Option Node)
    (n : Node) (rest : Nodes) (hn : n.isWs = false) :
    reNodes s i l p cl ce last (.cons n rest) =
      if (p && !eatsLeadingWs n) = true then
        .cons wsN (.cons (reNode n (sepAfter i n rest) l)
          (reNodes s i (nextLevel s (sepAfter i n rest)) (!isTrailer n) cl ce (some n) rest))
      else .cons (reNode n (sepAfter i n rest) l)
          (reNodes s i (nextLevel s (sepAfter i n rest)) (!isTrailer n) cl ce (some n) rest) := by
  simp only [reNodes, hn, Bool.false_eq_true, if_false]
  rfl

/-- the children of a re-parsed element -/
def reChildren (cs : Nodes) (ic : Bool) (l : Nat) : Nodes :=
  if cs.allWs then .nil else if (!cs.allWs && (ic || requireOwnLine cs)) then reNodes (l + 1) true (l + 1) true l false none cs
  else reNodes 0 false 0 false 0 false none cs

theorem reNode_element (n : Bytes) (as : Attrs) (cs : Nodes) (t : Trail) (ia ic : Bool) (tr : Trail) (l : Nat) :
    reNode (.element n as cs t ia ic) tr l =
      .element n as (reChildren cs ic l) tr (ia || hasCond as)
        ((!cs.allWs && (ic || requireOwnLine cs)) || (!cs.allWs && inlineBreaks cs)) := by
  simp only [reNode, reChildren]

theorem reChildren_allWs (cs : Nodes) (ic : Bool) (l : Nat) : (reChildren cs ic l).allWs = cs.allWs := by
  unfold reChildren
  split
  · next h => rw [h]; rfl
  · split <;> exact reNodes_allWs ..

mutual
theorem reNode_spans : (n : Node) → (tr : Trail) → (l : Nat) → wfNode n = true →
    indentsChildren (reNode n tr l) = indentsChildren n ∧ spansLines (reNode n tr l) = spansLines n
  | .element n as cs t ia ic, tr, l, hw => by
    rw [reNode_element]
    simp only [wfNode, Bool.and_eq_true, Bool.or_eq_true] at hw
    have hro : ∀ s i l p cl ce last, requireOwnLine (reNodes s i l p cl ce last cs) = requireOwnLine cs :=
      fun s i l p cl ce last => reNodes_requireOwnLine cs s i l p cl ce last hw.1
    have key : (!(reChildren cs ic l).allWs &&
        (((!cs.allWs && (ic || requireOwnLine cs)) || (!cs.allWs && inlineBreaks cs)) || requireOwnLine (reChildren cs ic l)))
        = (!cs.allWs && (ic || requireOwnLine cs)) := by
      rw [reChildren_allWs]
      cases ha : cs.allWs
      · cases hi : (ic || requireOwnLine cs)
        · have hi' := hi
          rw [Bool.or_eq_false_iff] at hi'
          have : inlineBreaks cs = false := by
            rcases hw.2 with h | h
            · simp [ha, hi'.1, hi'.2] at h
            · simpa using h
          simp [reChildren, ha, hi'.1, hi'.2, this, hro]
        · simp
      · simp
    simp only [indentsChildren, spansLines, key]
    cases ia <;> cases hasCond as <;> simp
  | .doctype _, _, _, _ => by simp [reNode, indentsChildren, spansLines]
  | .htmlComment _, _, _, _ => by simp [reNode, indentsChildren, spansLines]
  | .children, _, _, _ => by simp [reNode, indentsChildren, spansLines]
  | .raw _ _ _, _, _, _ => by simp [reNode, indentsChildren, spansLines]
  | .script _ _, _, _, _ => by simp [reNode, indentsChildren, spansLines]
  | .forE _ _, _, _, _ => by simp [reNode, indentsChildren, spansLines]
  | .call _, _, _, _ => by simp [reNode, indentsChildren, spansLines]
  | .templEl _ _, _, _, _ => by simp [reNode, indentsChildren, spansLines]
  | .ifE _ _ _ _, _, _, _ => by simp [reNode, indentsChildren, spansLines]
  | .switchE _ _, _, _, _ => by simp [reNode, indentsChildren, spansLines]
  | .strExpr _ _, _, _, _ => by simp [reNode, indentsChildren, spansLines]
  | .goCode _ _ _, _, _, _ => by simp [reNode, indentsChildren, spansLines]
  | .ws _, _, _, _ => by simp [reNode, indentsChildren, spansLines]
  | .text _ _, _, _, _ => by simp [reNode, indentsChildren, spansLines]
  | .goComment _ _, _, _, _ => by simp [reNode, indentsChildren, spansLines]
theorem reNodes_requireOwnLine : (ns : Nodes) → (s : Nat) → (i : Bool) → (l : Nat) → (p : Bool) → (cl : Nat) → (ce : Bool) →
    (last : Option Node) → wfNodes ns = true → requireOwnLine (reNodes s i l p cl ce last ns) = requireOwnLine ns
  | .nil, s, i, l, p, cl, ce, last, _ => by
    rcases reNodes_nil s i l p cl ce last with h | h <;> rw [h] <;> simp [requireOwnLine, wsN_isWs]
  | .cons n rest, s, i, l, p, cl, ce, last, hw => by
    simp only [wfNodes, Bool.and_eq_true] at hw
    by_cases hn : n.isWs = true
    · rw [reNodes_cons_ws _ _ _ _ _ _ _ _ _ hn, reNodes_requireOwnLine rest s i l p cl ce last hw.2]
      simp [requireOwnLine, hn]
    · have hn' : n.isWs = false := by simpa using hn
      rw [reNodes_cons _ _ _ _ _ _ _ _ _ hn']
      have h1 := (reNode_spans n (sepAfter i n rest) l hw.1.1).2
      have h2 := reNodes_requireOwnLine rest s i (nextLevel s (sepAfter i n rest)) (!isTrailer n) cl ce (some n) hw.2
      split <;> simp only [requireOwnLine, wsN_isWs, reNode_isWs, reNode_isTrailer, h1, h2, Bool.not_true, Bool.false_and, Bool.false_or]
end

theorem reNode_isBlockNode (n : Node) (tr : Trail) (l : Nat) (hw : wfNode n = true) :
    isBlockNode (reNode n tr l) = isBlockNode n := by
  cases n with
  | element n as cs t ia ic =>
    have h := (reNode_spans (.element n as cs t ia ic) tr l hw).1
    rw [reNode_element] at h ⊢
    simp only [isBlockNode, h]
  | _ => simp only [reNode, isBlockNode]

/-- the flag the printer reads off a re-parsed element is the one it read off the original -/
theorem reElement_ind (cs : Nodes) (ic : Bool) (l : Nat) (n : Bytes) (as : Attrs) (t : Trail) (ia : Bool)
    (hw : wfNode (.element n as cs t ia ic) = true) :
    (!(reChildren cs ic l).allWs &&
        (((!cs.allWs && (ic || requireOwnLine cs)) || (!cs.allWs && inlineBreaks cs)) || requireOwnLine (reChildren cs ic l)))
        = (!cs.allWs && (ic || requireOwnLine cs)) := by
  have h := (reNode_spans (.element n as cs t ia ic) t l hw).1
  rw [reNode_element] at h
  simpa only [indentsChildren] using h

/-! ### separators -/

def headWs : Nodes → Bool
  | .cons m _ => m.isWs
  | .nil => false

theorem wf_cons (n : Node) (rest : Nodes) (hw : wfNodes (.cons n rest) = true) :
    wfNode n = true ∧ (isTrailer n = true → headWs rest = false) ∧ wfNodes rest = true := by
  simp only [wfNodes, Bool.and_eq_true] at hw
  refine ⟨hw.1.1, ?_, hw.2⟩
  intro ht
  have h := hw.1.2
  cases rest with
  | nil => rfl
  | cons m r => simpa [ht, headWs] using h

/-- after a node that takes the white space as its trailing space the re-parsed rest starts like the original rest -/
theorem tail_agree (s : Nat) (i : Bool) (l : Nat) (cl : Nat) (ce : Bool) (last : Option Node) (rest : Nodes)
    (hh : headWs rest = false) (hw : wfNodes rest = true) :
    nextIsBlock (reNodes s i l false cl ce last rest) = nextIsBlock rest ∧
      (reNodes s i l false cl ce last rest).isNil = rest.isNil ∧ headWs (reNodes s i l false cl ce last rest) = false := by
  cases rest with
  | nil => simp [reNodes, nextIsBlock, Nodes.isNil, headWs]
  | cons m r =>
    have hm : m.isWs = false := hh
    rw [reNodes_cons _ _ _ _ _ _ _ _ _ hm]
    simp only [Bool.false_and, Bool.false_eq_true, if_false, nextIsBlock, Nodes.isNil, headWs, reNode_isWs, hm,
      reNode_isBlockNode _ _ _ (wf_cons m r hw).1, and_self]

theorem sep_agree (s : Nat) (i : Bool) (l l' : Nat) (cl : Nat) (ce : Bool) (last : Option Node) (n : Node) (rest : Nodes)
    (hw : wfNodes (.cons n rest) = true) (hf : nodeInFragment n = true) :
    sepAfter i (reNode n (sepAfter i n rest) l) (reNodes s i l' (!isTrailer n) cl ce last rest) = sepAfter i n rest := by
  obtain ⟨_, hh, hwr⟩ := wf_cons n rest hw
  cases ht : isTrailer n
  · have h1 : ownTrail n = .vert := ownTrail_nonTrailer n ht
    have h2 : ∀ T, ownTrail (reNode n T l) = .vert := by intro T; rw [reNode_ownTrail _ _ _ hf, ht]; rfl
    have h3 : sepAfter i n rest = .vert := by unfold sepAfter; rw [h1]; simp only [ite_self]
    rw [h3]
    unfold sepAfter
    rw [h2]
    simp only [ite_self]
  · obtain ⟨a1, a2, _⟩ := tail_agree s i l' cl ce last rest (hh ht) hwr
    have h2 : ∀ T, ownTrail (reNode n T l) = T := by intro T; rw [reNode_ownTrail _ _ _ hf, ht]; rfl
    simp only [Bool.not_true]
    generalize hT : sepAfter i n rest = T
    unfold sepAfter
    rw [h2, a1, a2, reNode_alwaysBreak, ← hT]
    unfold sepAfter
    split <;> rfl

/-! ### the indentation at which a `@component { … }` block can stand -/

def isTemplEl : Node → Bool
  | .templEl .. => true
  | _ => false

/-- the first non-whitespace node is a `@component { … }` block -/
def headT : Nodes → Bool
  | .nil => false
  | .cons m r => if m.isWs then headT r else isTemplEl m

/-- Where the printer can be writing a list: one node per line inside an indented block (then a `@component` block only ever
    starts a line, at indentation ≥ 1), or a list kept on its element's line (then there is no `@component` block in it). -/
def LvlOk (s : Nat) (i : Bool) (l : Nat) (ns : Nodes) : Prop :=
  (i = true ∧ 1 ≤ s ∧ (1 ≤ l ∨ headT ns = false)) ∨ requireOwnLine ns = false

/-- Why `LvlOk` is needed: the list statement is false at indentation 0 for a `@c { }` block whose body is only white
    space (in fragment, satisfies `wfNodes`): printed `@c {⏎}`, re-parsed at closing level 0 as `@c` with no body.
    This cannot happen inside a template body: the printer only writes such a block at the start of a line of an
    indented list, i.e. at indentation ≥ 1. -/
example :
    let t : Nodes := .cons (.templEl [99] (.cons (.ws [32]) .nil)) .nil
    nodesInFragment t = true ∧ wfNodes t = true ∧
      printNodes 0 true 0 (reNodes 0 true 0 false 0 false none t) ≠ printNodes 0 true 0 t := by
  decide

theorem isTemplEl_of_trailer (n : Node) (h : isTrailer n = true) : isTemplEl n = false := by
  cases n <;> simp_all [isTrailer, isTemplEl]

theorem isTemplEl_of_notBlock (n : Node) (h : isBlockNode n = false) : isTemplEl n = false := by
  cases n <;> simp_all [isBlockNode, isTemplEl]

theorem lvlOk_ws (s : Nat) (i : Bool) (l : Nat) (n : Node) (rest : Nodes) (hn : n.isWs = true)
    (h : LvlOk s i l (.cons n rest)) : LvlOk s i l rest := by
  rcases h with ⟨h1, h2, h3⟩ | h
  · left
    refine ⟨h1, h2, ?_⟩
    simpa only [headT, hn, if_true] using h3
  · right
    simp only [requireOwnLine, Bool.or_eq_false_iff] at h
    exact h.2

theorem lvlOk_step (s : Nat) (i : Bool) (l : Nat) (n : Node) (rest : Nodes) (hn : n.isWs = false)
    (hw : wfNodes (.cons n rest) = true) (h : LvlOk s i l (.cons n rest)) :
    (1 ≤ l ∨ isTemplEl n = false) ∧ LvlOk s i (nextLevel s (sepAfter i n rest)) rest := by
  obtain ⟨_, hh, _⟩ := wf_cons n rest hw
  rcases h with ⟨h1, h2, h3⟩ | h
  · constructor
    · simpa only [headT, hn, Bool.false_eq_true, if_false] using h3
    · left
      refine ⟨h1, h2, ?_⟩
      subst h1
      cases hs : sepAfter true n rest with
      | vert => left; exact h2
      | _ =>
        right
        have hs' : sepAfter true n rest ≠ .vert := by rw [hs]; decide
        unfold sepAfter at hs'
        have hc : (true && (nextIsBlock rest || rest.isNil || alwaysBreak n)) = false := by
          cases hc : (true && (nextIsBlock rest || rest.isNil || alwaysBreak n))
          · rfl
          · rw [hc] at hs'; exact absurd rfl hs'
        rw [hc] at hs'
        simp only [Bool.false_eq_true, if_false] at hs'
        have ht : isTrailer n = true := by
          cases ht : isTrailer n
          · exact absurd (ownTrail_nonTrailer n ht) hs'
          · rfl
        have hh' := hh ht
        simp only [Bool.true_and, Bool.or_eq_false_iff] at hc
        cases rest with
        | nil => rfl
        | cons m r =>
          have hm : m.isWs = false := hh'
          simp only [headT, hm, Bool.false_eq_true, if_false]
          exact isTemplEl_of_notBlock m hc.1.1
  · simp only [requireOwnLine, Bool.or_eq_false_iff, hn, Bool.not_false, Bool.true_and, Bool.not_eq_false'] at h
    refine ⟨Or.inr (isTemplEl_of_trailer n h.1.1), Or.inr h.2⟩

/-! ### printing -/

theorem printNodes_cons_ws (s : Nat) (i : Bool) (l : Nat) (n : Node) (rest : Nodes) (hn : n.isWs = true) :
    printNodes s i l (.cons n rest) = printNodes s i l rest := by
  simp only [printNodes, hn, if_true]

theorem printNodes_cons (s : Nat) (i : Bool) (l : Nat) (n : Node) (rest : Nodes) (hn : n.isWs = false) :
    printNodes s i l (.cons n rest) =
      printNode n l ++ Trail.bytes (sepAfter i n rest) ++ printNodes s i (nextLevel s (sepAfter i n rest)) rest := by
  simp only [printNodes, hn, Bool.false_eq_true, if_false]
  rfl

theorem printNodes_wsN (s : Nat) (i : Bool) (l : Nat) (rest : Nodes) :
    printNodes s i l (.cons wsN rest) = printNodes s i l rest := printNodes_cons_ws s i l wsN rest rfl

/-- a list that still has white space pending in front of a closing token that is indented does not come out empty -/
theorem reNodes_nonNil (s : Nat) (i : Bool) (cl : Nat) (hcl : 1 ≤ cl) :
    (ns : Nodes) → (l : Nat) → (last : Option Node) → (reNodes s i l true cl false last ns).isNil = false
  | .nil, l, last => by
    have : (cl == 0) = false := by
      cases h : cl == 0
      · rfl
      · have := eq_of_beq h; omega
    simp [reNodes, this, Nodes.isNil]
  | .cons n rest, l, last => by
    by_cases hn : n.isWs = true
    · rw [reNodes_cons_ws _ _ _ _ _ _ _ _ _ hn]; exact reNodes_nonNil s i cl hcl rest l last
    · have hn' : n.isWs = false := by simpa using hn
      rw [reNodes_cons _ _ _ _ _ _ _ _ _ hn']
      split <;> rfl

theorem isNil_of_allWs_false (ns : Nodes) (h : ns.allWs = false) : ns.isNil = false := by
  cases ns with
  | nil => simp [Nodes.allWs] at h
  | cons _ _ => rfl

theorem printNode_templEl (e : Bytes) (b : Nodes) (l : Nat) :
    printNode (.templEl e b) l =
      tabs l ++ [64] ++ e ++ (if b.isNil then [] else openBrace ++ printNodes (l + 1) true (l + 1) b ++ tabs l ++ [125]) := by
  cases b <;> simp [printNode, Nodes.isNil]

theorem reNode_templEl (e : Bytes) (b : Nodes) (tr : Trail) (l : Nat) :
    reNode (.templEl e b) tr l =
      .templEl e (if b.isNil then .nil else reNodes (l + 1) true (l + 1) true l false none b) := by
  cases b <;> simp [reNode, Nodes.isNil]

theorem printNode_ifE (e : Bytes) (thn : Nodes) (elifs : ElseIfs) (els : Nodes) (l : Nat) :
    printNode (.ifE e thn elifs els) l =
      tabs l ++ kwIf ++ e ++ openBrace ++ printNodes (l + 1) true (l + 1) thn ++ printElifs elifs l ++
        (if els.isNil then [] else tabs l ++ elseKw ++ printNodes (l + 1) true (l + 1) els) ++ tabs l ++ [125] := by
  cases els <;> simp [printNode, Nodes.isNil]

theorem reNode_ifE (e : Bytes) (thn : Nodes) (elifs : ElseIfs) (els : Nodes) (tr : Trail) (l : Nat) :
    ∃ more, reNode (.ifE e thn elifs els) tr l =
      .ifE e (reNodes (l + 1) true (l + 1) true l more none thn) (reElifs elifs l)
        (if els.isNil then .nil else reNodes (l + 1) true (l + 1) false l false none els) := by
  cases els
  · exact ⟨_, by simp only [reNode, Nodes.isNil, if_true]; rfl⟩
  · exact ⟨_, by simp only [reNode, Nodes.isNil, Bool.false_eq_true, if_false]; rfl⟩

theorem lvlOk_block (l : Nat) (ns : Nodes) : LvlOk (l + 1) true (l + 1) ns :=
  Or.inl ⟨rfl, Nat.le_add_left 1 l, Or.inl (Nat.le_add_left 1 l)⟩

/-- the element case, given the statement for the children -/
theorem print_element (n : Bytes) (as : Attrs) (cs : Nodes) (t : Trail) (ia ic : Bool) (tr : Trail) (l : Nat)
    (hw : wfNode (.element n as cs t ia ic) = true)
    (ih1 : printNodes (l + 1) true (l + 1) (reNodes (l + 1) true (l + 1) true l false none cs) = printNodes (l + 1) true (l + 1) cs)
    (ih2 : requireOwnLine cs = false →
      printNodes 0 false 0 (reNodes 0 false 0 false 0 false none cs) = printNodes 0 false 0 cs) :
    printNode (reNode (.element n as cs t ia ic) tr l) l = printNode (.element n as cs t ia ic) l := by
  have key := reElement_ind cs ic l n as t ia hw
  have hA := reChildren_allWs cs ic l
  rw [reNode_element]
  simp only [printNode]
  have hia : (ia || hasCond as || hasCond as) = (ia || hasCond as) := by cases ia <;> cases hasCond as <;> rfl
  rw [hia, hA]
  cases ha : cs.allWs
  · rw [hA, ha] at key
    simp only [Bool.not_false, Bool.true_and] at key
    simp only [Bool.not_false, if_true, Bool.true_and]
    rw [key]
    cases hi : (ic || requireOwnLine cs)
    · have hro : requireOwnLine cs = false := by rw [Bool.or_eq_false_iff] at hi; exact hi.2
      simp only [Bool.false_eq_true, if_false]
      simp only [reChildren, ha, hi, Bool.false_eq_true, if_false, Bool.and_false]
      rw [ih2 hro]
    · simp only [if_true]
      simp only [reChildren, ha, hi, Bool.false_eq_true, if_false, Bool.not_false, Bool.and_true, if_true]
      rw [ih1]
  · simp only [Bool.not_true, Bool.false_eq_true, if_false]

mutual
theorem print_reNode : (n : Node) → (tr : Trail) → (l : Nat) → wfNode n = true → nodeInFragment n = true →
    (1 ≤ l ∨ isTemplEl n = false) → printNode (reNode n tr l) l = printNode n l
  | .element n as cs t ia ic, tr, l, hw, hf, _ => by
    have hw' := hw
    simp only [wfNode, Bool.and_eq_true] at hw'
    simp only [nodeInFragment, Bool.and_eq_true] at hf
    exact print_element n as cs t ia ic tr l hw
      (print_reNodes cs (l + 1) true (l + 1) true l false none hw'.1 hf.2 (lvlOk_block l cs))
      (fun h => print_reNodes cs 0 false 0 false 0 false none hw'.1 hf.2 (Or.inr h))
  | .doctype _, _, _, _, _, _ => by simp only [reNode]
  | .htmlComment _, _, _, _, _, _ => by simp only [reNode]
  | .children, _, _, _, _, _ => by simp only [reNode]
  | .raw _ _ _, _, _, _, _, _ => by simp only [reNode]
  | .script _ _, _, _, _, _, _ => by simp only [reNode]
  | .forE e b, _, l, hw, hf, _ => by
    simp only [wfNode] at hw
    simp only [nodeInFragment, Bool.and_eq_true] at hf
    simp only [reNode, printNode]
    rw [print_reNodes b (l + 1) true (l + 1) true l false none hw hf.2 (lvlOk_block l b)]
  | .call e, _, l, _, _, _ => by simp [reNode, printNode]
  | .templEl e b, tr, l, hw, hf, hl => by
    simp only [wfNode] at hw
    simp only [nodeInFragment, Bool.and_eq_true] at hf
    have hl' : 1 ≤ l := by
      rcases hl with h | h
      · exact h
      · simp [isTemplEl] at h
    rw [reNode_templEl, printNode_templEl, printNode_templEl]
    cases hb : b.isNil
    · simp only [Bool.false_eq_true, if_false]
      rw [reNodes_nonNil (l + 1) true l hl' b (l + 1) none]
      simp only [Bool.false_eq_true, if_false]
      rw [print_reNodes b (l + 1) true (l + 1) true l false none hw hf.2 (lvlOk_block l b)]
    · simp only [if_true, Nodes.isNil]
  | .ifE e thn elifs els, tr, l, hw, hf, _ => by
    simp only [wfNode, Bool.and_eq_true, Bool.or_eq_true] at hw
    simp only [nodeInFragment, Bool.and_eq_true] at hf
    obtain ⟨more, hre⟩ := reNode_ifE e thn elifs els tr l
    rw [hre, printNode_ifE, printNode_ifE]
    rw [print_reNodes thn (l + 1) true (l + 1) true l more none hw.1.1.1 hf.1.1.2 (lvlOk_block l thn),
      print_reElifs elifs l hw.1.1.2 hf.1.2]
    cases hb : els.isNil
    · have ha : els.allWs = false := by
        rcases hw.2 with h | h
        · rw [hb] at h; exact absurd h (by decide)
        · simpa using h
      simp only [Bool.false_eq_true, if_false]
      have : (reNodes (l + 1) true (l + 1) false l false none els).isNil = false :=
        isNil_of_allWs_false _ (by rw [reNodes_allWs]; exact ha)
      rw [this]
      simp only [Bool.false_eq_true, if_false]
      rw [print_reNodes els (l + 1) true (l + 1) false l false none hw.1.2 hf.2 (lvlOk_block l els)]
    · simp only [if_true, Nodes.isNil]
  | .switchE e cs, _, l, hw, hf, _ => by
    simp only [wfNode] at hw
    simp only [nodeInFragment, Bool.and_eq_true] at hf
    simp only [reNode, printNode]
    rw [print_reCases cs l hw hf.2]
  | .strExpr _ _, _, _, _, _, _ => by simp only [reNode, printNode]
  | .goCode _ _ _, _, _, _, _, _ => by simp only [reNode]
  | .ws _, _, _, _, _, _ => by simp only [reNode]
  | .text _ _, _, _, _, _, _ => by simp only [reNode, printNode]
  | .goComment _ _, _, _, _, _, _ => by simp only [reNode]
theorem print_reNodes : (ns : Nodes) → (s : Nat) → (i : Bool) → (l : Nat) → (p : Bool) → (cl : Nat) → (ce : Bool) →
    (last : Option Node) → wfNodes ns = true → nodesInFragment ns = true → LvlOk s i l ns →
    printNodes s i l (reNodes s i l p cl ce last ns) = printNodes s i l ns
  | .nil, s, i, l, p, cl, ce, last, _, _, _ => by
    rcases reNodes_nil s i l p cl ce last with h | h <;> rw [h]
    rw [printNodes_wsN]
  | .cons n rest, s, i, l, p, cl, ce, last, hw, hf, hl => by
    obtain ⟨hwn, _, hwr⟩ := wf_cons n rest hw
    simp only [nodesInFragment, Bool.and_eq_true] at hf
    by_cases hn : n.isWs = true
    · rw [reNodes_cons_ws _ _ _ _ _ _ _ _ _ hn, printNodes_cons_ws _ _ _ _ _ hn]
      exact print_reNodes rest s i l p cl ce last hwr hf.2 (lvlOk_ws s i l n rest hn hl)
    · have hn' : n.isWs = false := by simpa using hn
      obtain ⟨hl1, hl2⟩ := lvlOk_step s i l n rest hn' hw hl
      have hsep := sep_agree s i l (nextLevel s (sepAfter i n rest)) cl ce (some n) n rest hw hf.1
      have hnode := print_reNode n (sepAfter i n rest) l hwn hf.1 hl1
      have htail := print_reNodes rest s i (nextLevel s (sepAfter i n rest)) (!isTrailer n) cl ce (some n) hwr hf.2 hl2
      have hn'' : (reNode n (sepAfter i n rest) l).isWs = false := by rw [reNode_isWs]; exact hn'
      rw [reNodes_cons _ _ _ _ _ _ _ _ _ hn']
      have : printNodes s i l (.cons (reNode n (sepAfter i n rest) l)
          (reNodes s i (nextLevel s (sepAfter i n rest)) (!isTrailer n) cl ce (some n) rest)) = printNodes s i l (.cons n rest) := by
        rw [printNodes_cons _ _ _ _ _ hn'', printNodes_cons _ _ _ _ _ hn', hsep, hnode, htail]
      split
      · rw [printNodes_wsN, this]
      · exact this
theorem print_reElifs : (es : ElseIfs) → (l : Nat) → wfElifs es = true → elifsInFragment es = true →
    printElifs (reElifs es l) l = printElifs es l
  | .nil, _, _, _ => by simp only [reElifs]
  | .cons e thn rest, l, hw, hf => by
    simp only [wfElifs, Bool.and_eq_true] at hw
    simp only [elifsInFragment, Bool.and_eq_true] at hf
    simp only [reElifs, printElifs]
    rw [print_reNodes thn (l + 1) true (l + 1) true l _ none hw.1 hf.1.2 (lvlOk_block l thn), print_reElifs rest l hw.2 hf.2]
theorem print_reCases : (cs : Cases) → (l : Nat) → wfCases cs = true → casesInFragment cs = true →
    printCases (reCases cs l) (l + 1) = printCases cs (l + 1)
  | .nil, _, _, _ => by simp only [reCases]
  | .cons e b rest, l, hw, hf => by
    simp only [wfCases, Bool.and_eq_true] at hw
    simp only [casesInFragment, Bool.and_eq_true] at hf
    simp only [reCases, printCases]
    have h := fun ce => print_reNodes b (l + 1 + 1) true (l + 1 + 1) true l ce none hw.1 hf.1.2 (lvlOk_block (l + 1) b)
    rw [show l + 2 = l + 1 + 1 from rfl, h, print_reCases rest l hw.2 hf.2]
end

/-- Printing the tree the parser builds from the printer's output prints the same text again. -/
theorem print_reparse (b : Nodes) (hf : nodesInFragment b = true) (hw : wfNodes b = true) :
    Printer.body (Reparse.body b) = Printer.body b :=
  print_reNodes b 1 true 1 true 0 false none hw hf (lvlOk_block 0 b)

/-! ### the invariants hold again -/

theorem wfNodes_cons_eq (n : Node) (rest : Nodes) :
    wfNodes (.cons n rest) = (wfNode n && !(isTrailer n && headWs rest) && wfNodes rest) := by
  cases rest <;> simp [wfNodes, headWs]

theorem headWs_reNodes (s : Nat) (i : Bool) (cl : Nat) (ce : Bool) :
    (ns : Nodes) → (l : Nat) → (last : Option Node) → headWs (reNodes s i l false cl ce last ns) = false
  | .nil, l, last => by simp [reNodes, headWs]
  | .cons n rest, l, last => by
    by_cases hn : n.isWs = true
    · rw [reNodes_cons_ws _ _ _ _ _ _ _ _ _ hn]; exact headWs_reNodes s i cl ce rest l last
    · have hn' : n.isWs = false := by simpa using hn
      rw [reNodes_cons _ _ _ _ _ _ _ _ _ hn']
      simp only [Bool.false_and, Bool.false_eq_true, if_false, headWs, reNode_isWs, hn']

/-- children kept on the element's line: no line break appears after any of them -/
theorem inlineBreaks_reNodes (s : Nat) (cl : Nat) (ce : Bool) :
    (ns : Nodes) → (l : Nat) → (p : Bool) → (last : Option Node) → requireOwnLine ns = false → inlineBreaks ns = false →
      nodesInFragment ns = true → inlineBreaks (reNodes s false l p cl ce last ns) = false
  | .nil, l, p, last, _, _, _ => by
    rcases reNodes_nil s false l p cl ce last with h | h <;> rw [h] <;> rfl
  | .cons n rest, l, p, last, h1, h2, hf => by
    simp only [requireOwnLine, Bool.or_eq_false_iff] at h1
    simp only [inlineBreaks, Bool.or_eq_false_iff] at h2
    simp only [nodesInFragment, Bool.and_eq_true] at hf
    by_cases hn : n.isWs = true
    · rw [reNodes_cons_ws _ _ _ _ _ _ _ _ _ hn]; exact inlineBreaks_reNodes s cl ce rest l p last h1.2 h2.2 hf.2
    · have hn' : n.isWs = false := by simpa using hn
      have ht : isTrailer n = true := by
        have := h1.1
        simp only [hn', Bool.not_false, Bool.true_and, Bool.or_eq_false_iff, Bool.not_eq_false'] at this
        exact this.1
      have ho : (ownTrail n == Trail.vert) = false := by simpa [hn'] using h2.1
      have ih := inlineBreaks_reNodes s cl ce rest (nextLevel s (sepAfter false n rest)) (!isTrailer n) (some n) h1.2 h2.2 hf.2
      have hsep : sepAfter false n rest = ownTrail n := by simp [sepAfter]
      have hown : ownTrail (reNode n (sepAfter false n rest) l) = ownTrail n := by
        rw [reNode_ownTrail _ _ _ hf.1, ht, hsep]; rfl
      rw [reNodes_cons _ _ _ _ _ _ _ _ _ hn']
      split <;> simp only [inlineBreaks, wsN_isWs, hown, ho, ih, Bool.not_true, Bool.false_and, Bool.and_false, Bool.or_false]

mutual
theorem wf_reNode : (n : Node) → (tr : Trail) → (l : Nat) → wfNode n = true → nodeInFragment n = true →
    wfNode (reNode n tr l) = true ∧ nodeInFragment (reNode n tr l) = true
  | .element n as cs t ia ic, tr, l, hw, hf => by
    have key := reElement_ind cs ic l n as t ia hw
    have hw' := hw
    simp only [wfNode, Bool.and_eq_true, Bool.or_eq_true] at hw'
    simp only [nodeInFragment, Bool.and_eq_true] at hf
    have h1 := wf_reNodes cs (l + 1) true (l + 1) true l false none hw'.1 hf.2
    have h2 := wf_reNodes cs 0 false 0 false 0 false none hw'.1 hf.2
    have hc : wfNodes (reChildren cs ic l) = true ∧ nodesInFragment (reChildren cs ic l) = true := by
      unfold reChildren
      split
      · exact ⟨rfl, rfl⟩
      · split
        · exact h1
        · exact h2
    have hb : (!cs.allWs && (ic || requireOwnLine cs)) = true ∨ inlineBreaks (reChildren cs ic l) = false := by
      cases ha : cs.allWs
      · cases hi : (ic || requireOwnLine cs)
        · right
          have hro : requireOwnLine cs = false := by rw [Bool.or_eq_false_iff] at hi; exact hi.2
          have hib : inlineBreaks cs = false := by
            rcases hw'.2 with h | h
            · rw [Bool.or_eq_false_iff] at hi
              rcases h.2 with h | h
              · rw [hi.1] at h; exact absurd h (by decide)
              · rw [hi.2] at h; exact absurd h (by decide)
            · simpa using h
          simp only [reChildren, ha, hi, Bool.false_eq_true, if_false, Bool.and_false]
          exact inlineBreaks_reNodes 0 0 false cs 0 false none hro hib hf.2
        · left; rfl
      · right
        simp only [reChildren, ha, if_true]
        rfl
    rw [reNode_element]
    simp only [wfNode, nodeInFragment, key, hc.1, hc.2, hf.1, Bool.true_and, Bool.and_true, Bool.or_eq_true,
      Bool.not_eq_true', and_true]
    exact hb
  | .doctype _, _, _, _, hf => by simp only [reNode, wfNode, hf, and_self]
  | .htmlComment _, _, _, _, hf => by simp only [reNode, wfNode, hf, and_self]
  | .children, _, _, _, hf => by simp only [reNode, wfNode, hf, and_self]
  | .raw _ _ _, _, _, _, hf => by simp only [reNode, wfNode, hf, and_self]
  | .script _ _, _, _, _, hf => by simp only [reNode, wfNode, hf, and_self]
  | .forE e b, _, l, hw, hf => by
    simp only [wfNode] at hw
    simp only [nodeInFragment, Bool.and_eq_true] at hf
    have h := wf_reNodes b (l + 1) true (l + 1) true l false none hw hf.2
    simp only [reNode, wfNode, nodeInFragment, h.1, h.2, hf.1, Bool.and_self, and_self]
  | .call e, _, l, _, hf => by
    simp only [nodeInFragment] at hf
    simp only [reNode, wfNode, wfNodes, nodeInFragment, nodesInFragment, hf, Bool.and_self, and_self]
  | .templEl e b, tr, l, hw, hf => by
    simp only [wfNode] at hw
    simp only [nodeInFragment, Bool.and_eq_true] at hf
    have h := wf_reNodes b (l + 1) true (l + 1) true l false none hw hf.2
    rw [reNode_templEl]
    cases hb : b.isNil
    · simp only [Bool.false_eq_true, if_false, wfNode, nodeInFragment, h.1, h.2, hf.1, Bool.and_self, and_self]
    · simp only [if_true, wfNode, wfNodes, nodeInFragment, nodesInFragment, hf.1, Bool.and_self, and_self]
  | .ifE e thn elifs els, tr, l, hw, hf => by
    simp only [wfNode, Bool.and_eq_true, Bool.or_eq_true] at hw
    simp only [nodeInFragment, Bool.and_eq_true] at hf
    obtain ⟨more, hre⟩ := reNode_ifE e thn elifs els tr l
    have h1 := wf_reNodes thn (l + 1) true (l + 1) true l more none hw.1.1.1 hf.1.1.2
    have h2 := wf_reElifs elifs l hw.1.1.2 hf.1.2
    have h3 := wf_reNodes els (l + 1) true (l + 1) false l false none hw.1.2 hf.2
    rw [hre]
    cases hb : els.isNil
    · have ha : els.allWs = false := by
        rcases hw.2 with h | h
        · rw [hb] at h; exact absurd h (by decide)
        · simpa using h
      have : (reNodes (l + 1) true (l + 1) false l false none els).allWs = false := by rw [reNodes_allWs]; exact ha
      simp only [Bool.false_eq_true, if_false, wfNode, nodeInFragment, h1.1, h1.2, h2.1, h2.2, h3.1, h3.2, hf.1.1.1, this,
        Bool.and_self, and_self, Bool.not_false, Bool.or_true]
    · simp only [if_true, wfNode, wfNodes, nodeInFragment, nodesInFragment, h1.1, h1.2, h2.1, h2.2, hf.1.1.1, Nodes.isNil,
        Bool.and_self, and_self, Bool.true_or]
  | .switchE e cs, _, l, hw, hf => by
    simp only [wfNode] at hw
    simp only [nodeInFragment, Bool.and_eq_true] at hf
    have h := wf_reCases cs l hw hf.2
    simp only [reNode, wfNode, nodeInFragment, h.1, h.2, hf.1, Bool.and_self, and_self]
  | .strExpr _ _, _, _, _, hf => by
    simp only [nodeInFragment] at hf
    simp only [reNode, wfNode, nodeInFragment, hf, and_self]
  | .goCode _ _ _, _, _, _, hf => by simp only [reNode, wfNode, hf, and_self]
  | .ws _, _, _, _, hf => by simp only [reNode, wfNode, hf, and_self]
  | .text _ _, _, _, _, _ => by simp only [reNode, wfNode, nodeInFragment, and_self]
  | .goComment _ _, _, _, _, hf => by simp only [reNode, wfNode, hf, and_self]
theorem wf_reNodes : (ns : Nodes) → (s : Nat) → (i : Bool) → (l : Nat) → (p : Bool) → (cl : Nat) → (ce : Bool) →
    (last : Option Node) → wfNodes ns = true → nodesInFragment ns = true →
    wfNodes (reNodes s i l p cl ce last ns) = true ∧ nodesInFragment (reNodes s i l p cl ce last ns) = true
  | .nil, s, i, l, p, cl, ce, last, _, _ => by
    rcases reNodes_nil s i l p cl ce last with h | h <;> rw [h] <;> exact ⟨rfl, rfl⟩
  | .cons n rest, s, i, l, p, cl, ce, last, hw, hf => by
    obtain ⟨hwn, _, hwr⟩ := wf_cons n rest hw
    simp only [nodesInFragment, Bool.and_eq_true] at hf
    by_cases hn : n.isWs = true
    · rw [reNodes_cons_ws _ _ _ _ _ _ _ _ _ hn]
      exact wf_reNodes rest s i l p cl ce last hwr hf.2
    · have hn' : n.isWs = false := by simpa using hn
      have hnode := wf_reNode n (sepAfter i n rest) l hwn hf.1
      have htail := wf_reNodes rest s i (nextLevel s (sepAfter i n rest)) (!isTrailer n) cl ce (some n) hwr hf.2
      have hh : (isTrailer n && headWs (reNodes s i (nextLevel s (sepAfter i n rest)) (!isTrailer n) cl ce (some n) rest)) = false := by
        cases ht : isTrailer n
        · rfl
        · simp only [Bool.not_true, Bool.true_and]; exact headWs_reNodes ..
      have : wfNodes (.cons (reNode n (sepAfter i n rest) l)
            (reNodes s i (nextLevel s (sepAfter i n rest)) (!isTrailer n) cl ce (some n) rest)) = true ∧
          nodesInFragment (.cons (reNode n (sepAfter i n rest) l)
            (reNodes s i (nextLevel s (sepAfter i n rest)) (!isTrailer n) cl ce (some n) rest)) = true := by
        rw [wfNodes_cons_eq, reNode_isTrailer, hh]
        simp only [nodesInFragment, hnode.1, hnode.2, htail.1, htail.2, Bool.not_false, Bool.and_self, and_self]
      rw [reNodes_cons _ _ _ _ _ _ _ _ _ hn']
      split
      · have h2 := this.2
        simp only [nodesInFragment] at h2
        rw [wfNodes_cons_eq]
        simp only [nodesInFragment, this.1, h2, Bool.and_true]
        exact ⟨rfl, rfl⟩
      · exact this
theorem wf_reElifs : (es : ElseIfs) → (l : Nat) → wfElifs es = true → elifsInFragment es = true →
    wfElifs (reElifs es l) = true ∧ elifsInFragment (reElifs es l) = true
  | .nil, _, _, _ => by simp only [reElifs, wfElifs, elifsInFragment, and_self]
  | .cons e thn rest, l, hw, hf => by
    simp only [wfElifs, Bool.and_eq_true] at hw
    simp only [elifsInFragment, Bool.and_eq_true] at hf
    have h1 := fun ce => wf_reNodes thn (l + 1) true (l + 1) true l ce none hw.1 hf.1.2
    have h2 := wf_reElifs rest l hw.2 hf.2
    simp only [reElifs, wfElifs, elifsInFragment, h1, h2.1, h2.2, hf.1.1, Bool.and_self, and_self]
theorem wf_reCases : (cs : Cases) → (l : Nat) → wfCases cs = true → casesInFragment cs = true →
    wfCases (reCases cs l) = true ∧ casesInFragment (reCases cs l) = true
  | .nil, _, _, _ => by simp only [reCases, wfCases, casesInFragment, and_self]
  | .cons e b rest, l, hw, hf => by
    simp only [wfCases, Bool.and_eq_true] at hw
    simp only [casesInFragment, Bool.and_eq_true] at hf
    have h1 := fun ce => wf_reNodes b (l + 2) true (l + 2) true l ce none hw.1 hf.1.2
    have h2 := wf_reCases rest l hw.2 hf.2
    simp only [reCases, wfCases, casesInFragment, h1, h2.1, h2.2, hf.1.1, Bool.and_self, and_self]
end

/-- The tree the parser builds from the printer's output satisfies the parser invariants again (so the hypothesis of
    `print_reparse` is available for every later pass too). -/
theorem wf_reparse (b : Nodes) (hf : nodesInFragment b = true) (hw : wfNodes b = true) :
    wfNodes (Reparse.body b) = true ∧ nodesInFragment (Reparse.body b) = true :=
  wf_reNodes b 1 true 1 true 0 false none hw hf

end TemplVerif.Proofs.Printer
