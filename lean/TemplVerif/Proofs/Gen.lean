import TemplVerif.Model.Gen
import TemplVerif.Model.Denote
import TemplVerif.Proofs.GenBase
set_option linter.unusedSimpArgs false
namespace TemplVerif.Proofs.Gen
open TemplVerif TemplVerif.Ast TemplVerif.Sem

theorem script_open_eq : lt ++ Html.escape scriptOpen.tail = scriptOpen := by decide

theorem genNode_script_eq (as : Attrs) (parts : List ScriptPart) (next : Bool) :
    Gen.genNode (.script as parts) next =
      Gen.openTag false scriptOpen.tail as ++ Gen.genScriptParts parts ++ Gen.lits scriptClose := by
  cases as with
  | nil => simp only [Gen.genNode, Gen.openTag, ← List.append_assoc, script_open_eq]
  | cons a as => simp [Gen.genNode, Gen.openTag, script_open_eq]

theorem caseTexts_genCases : (cs : Cases) → (next : Bool) → Gen.caseTexts (Gen.genCases cs next) = Denote.caseTexts cs
  | .nil, next => by simp [Gen.genCases, Gen.caseTexts, Denote.caseTexts]
  | .cons c body rest, next => by simp [Gen.genCases, Gen.caseTexts, Denote.caseTexts, caseTexts_genCases rest next]

mutual
theorem execs_genNode : (n : Node) → (next : Bool) → (env : Env) → (st : St) →
    Gen.execs (Gen.genNode n next) env st = Denote.node false n next env st
  | .doctype v, next, env, st => by simp [Gen.genNode, Denote.node]
  | .element name as children t ia ic, next, env, st => by
    simp only [Gen.genNode, Denote.node, execs_append, execs_openTag, execs_trailing]
    congr 1
    split
    · simp [Gen.execs]
    · simp [execs_append, execs_genNodes' true true children]
  | .htmlComment c, next, env, st => by
    simp only [Gen.genNode, Denote.node, execs_append, execs_lits]
    by_cases h : st.err = true <;> simp [h]
  | .children, next, env, st => by simp only [Gen.genNode, Denote.node, execs_one, Gen.exec]; rfl
  | .raw name as contents, next, env, st => by
    simp only [Gen.genNode, Denote.node, execs_append, execs_openTag, execs_lits]
    generalize Denote.openTag false false name as env st = st1
    by_cases h : st1.err = true <;> simp [h]
  | .script as parts, next, env, st => by
    simp only [genNode_script_eq, Denote.node, execs_append, execs_openTag, execs_lits,
      execs_genScriptParts]
  | .forE e body, next, env, st => by
    have : (fun env st => Gen.execs (Gen.genNodes false true body next) env st) =
        (fun env st => Denote.nodes false false true body next env st) := by
      funext env st; exact execs_genNodes' false true body next env st
    simp only [Gen.genNode, Denote.node, execs_one, Gen.exec, this]; rfl
  | .call e, next, env, st => by simp only [Gen.genNode, Denote.node, execs_one, Gen.exec]; rfl
  | .templEl e body, next, env, st => by
    cases body with
    | nil =>
      simp only [Gen.genNode, Denote.node, Nodes.isNil, if_true, execs_one, Gen.exec, Denote.nodes]; rfl
    | cons n ns =>
      have : (fun st => Gen.execs (Gen.genNodes false true (.cons n ns) false) env st) =
          (fun st => Denote.nodes false false true (.cons n ns) false env st) := by
        funext st; exact execs_genNodes' false true (.cons n ns) false env st
      simp only [Gen.genNode, Denote.node, Nodes.isNil, Bool.false_eq_true, if_false, execs_one, Gen.exec, this]; rfl
  | .ifE e thn elifs els, next, env, st => by
    simp only [Gen.genNode, Denote.node, execs_one, Gen.exec, Gen.execBranches, eval]
    by_cases h : st.err = true
    · simp [h]
    · simp only [h]
      cases hl : env.lookup e with
      | none => simp
      | some en =>
        rcases en with ⟨ks, v⟩
        cases v <;> simp
        rename_i b
        cases b <;> simp [execs_genNodes' false true thn, execs_genNodes' false true els,
          execBranches_genElifs elifs]
        rfl
  | .switchE e cases, next, env, st => by
    simp only [Gen.genNode, Denote.node, execs_one, Gen.exec, caseTexts_genCases, eval]
    by_cases h : st.err = true
    · simp [h]
    · simp only [h]
      cases hl : env.lookup e with
      | none => simp
      | some en =>
        rcases en with ⟨ks, v⟩
        cases v <;> simp
        rename_i s er
        cases er <;> simp
        cases caseIndex env s (Denote.caseTexts cases) with
        | none => simp
        | some i => simp [execCase_genCases cases i]
  | .strExpr e t, next, env, st => by
    simp only [Gen.genNode, Denote.node, execs_append, execs_trailing]
    split <;> simp [Gen.execs, Gen.exec]
  | .goCode e _ _, next, env, st => by
    simp only [Gen.genNode, Denote.node]
    by_cases hb : isBlank e = true
    · simp [hb, Gen.execs]
    · by_cases h : st.err = true
      · simp [hb, h, Gen.exec]
      · simp [hb, h, Gen.exec]; rfl
  | .ws v, next, env, st => by
    simp only [Gen.genNode, Denote.node]
    by_cases hv : v.isEmpty = true
    · simp [hv, Gen.execs]
    · by_cases h : st.err = true <;> simp [hv, h]
  | .text v t, next, env, st => by
    simp only [Gen.genNode, Denote.node, execs_append, execs_trailing, execs_lits]
  | .goComment _ _, next, env, st => by simp [Gen.genNode, Denote.node, Gen.execs]
theorem execs_genNodes' : (all atStart : Bool) → (ns : Nodes) → (next : Bool) → (env : Env) → (st : St) →
    Gen.execs (Gen.genNodes all atStart ns next) env st = Denote.nodes false all atStart ns next env st
  | all, atStart, .nil, next, env, st => by simp [Gen.genNodes, Denote.nodes, Gen.execs]
  | all, atStart, .cons n rest, next, env, st => by
    simp only [Gen.genNodes, Denote.nodes]
    split
    · exact execs_genNodes' all atStart rest next env st
    · simp only [execs_append, execs_genNode n, execs_genNodes' all false rest]; rfl
theorem execBranches_genElifs : (es : ElseIfs) → (next : Bool) → (env : Env) → (st : St) →
    Gen.execBranches (Gen.genElifs es next) env st = Denote.elseIfs false es next env st
  | .nil, next, env, st => by simp [Gen.genElifs, Denote.elseIfs, Gen.execBranches]
  | .cons e thn rest, next, env, st => by
    simp only [Gen.genElifs, Denote.elseIfs, Gen.execBranches, eval]
    cases hl : env.lookup e with
    | none => simp
    | some en =>
      rcases en with ⟨ks, v⟩
      cases v <;> simp
      rename_i b
      cases b <;> simp [execs_genNodes' false true thn, execBranches_genElifs rest]
theorem execCase_genCases : (cs : Cases) → (i : Nat) → (next : Bool) → (env : Env) → (st : St) →
    Gen.execCase (Gen.genCases cs next) i env st = Denote.case false cs i next env st
  | .nil, i, next, env, st => by simp [Gen.genCases, Denote.case, Gen.execCase]
  | .cons c body rest, 0, next, env, st => by
    simp [Gen.genCases, Denote.case, Gen.execCase, execs_genNodes' false true body]
  | .cons c body rest, i + 1, next, env, st => by
    simp [Gen.genCases, Denote.case, Gen.execCase, execCase_genCases rest i]
end


mutual
theorem reachedClasses_noHoisted (s : Bool) (env : Env) : (as : Attrs) → Denote.noHoisted as = true →
    Denote.reachedClasses s env as = []
  | .nil, _ => by simp [Denote.reachedClasses]
  | .cons a as, h => by
    simp only [Denote.noHoisted, Bool.and_eq_true] at h
    simp [Denote.reachedClasses, reachedClassesOne_noHoisted s env a h.1, reachedClasses_noHoisted s env as h.2]
theorem reachedClassesOne_noHoisted (s : Bool) (env : Env) : (a : Attr) → Denote.noHoistedOne a = true →
    Denote.reachedClassesOne s env a = []
  | .boolConst _, _ => by simp [Denote.reachedClassesOne]
  | .const _ _ _, _ => by simp [Denote.reachedClassesOne]
  | .boolExpr _ _, _ => by simp [Denote.reachedClassesOne]
  | .expr name e, h => by
    simp only [Denote.noHoistedOne, Bool.and_eq_true, Bool.not_eq_true'] at h
    simp [Denote.reachedClassesOne, h.1]
  | .spread _, _ => by simp [Denote.reachedClassesOne]
  | .cond c thn els, h => by
    simp only [Denote.noHoistedOne, Bool.and_eq_true] at h
    simp only [Denote.reachedClassesOne, reachedClasses_noHoisted s env thn h.1, reachedClasses_noHoisted s env els h.2]
    cases s <;> simp
    split <;> rfl
end

mutual
theorem reachedScripts_noHoisted (s : Bool) (env : Env) : (as : Attrs) → Denote.noHoisted as = true →
    Denote.reachedScripts s env as = []
  | .nil, _ => by simp [Denote.reachedScripts]
  | .cons a as, h => by
    simp only [Denote.noHoisted, Bool.and_eq_true] at h
    simp [Denote.reachedScripts, reachedScriptsOne_noHoisted s env a h.1, reachedScripts_noHoisted s env as h.2]
theorem reachedScriptsOne_noHoisted (s : Bool) (env : Env) : (a : Attr) → Denote.noHoistedOne a = true →
    Denote.reachedScriptsOne s env a = []
  | .boolConst _, _ => by simp [Denote.reachedScriptsOne]
  | .const _ _ _, _ => by simp [Denote.reachedScriptsOne]
  | .boolExpr _ _, _ => by simp [Denote.reachedScriptsOne]
  | .expr name e, h => by
    simp only [Denote.noHoistedOne, Bool.and_eq_true, Bool.not_eq_true'] at h
    simp [Denote.reachedScriptsOne, h.2]
  | .spread _, _ => by simp [Denote.reachedScriptsOne]
  | .cond c thn els, h => by
    simp only [Denote.noHoistedOne, Bool.and_eq_true] at h
    simp only [Denote.reachedScriptsOne, reachedScripts_noHoisted s env thn h.1, reachedScripts_noHoisted s env els h.2]
    cases s <;> simp
    split <;> rfl
end

theorem reachedClasses_strict (env : Env) : (as : Attrs) → Denote.condHoistFree as = true →
    Denote.reachedClasses true env as = Denote.reachedClasses false env as
  | .nil, _ => by simp [Denote.reachedClasses]
  | .cons a as, h => by
    simp only [Denote.condHoistFree, Bool.and_eq_true] at h
    simp only [Denote.reachedClasses, reachedClasses_strict env as h.2]
    congr 1
    cases a <;> simp [Denote.reachedClassesOne]
    rename_i c thn els
    simp only [Denote.condHoistFreeOne, Bool.and_eq_true] at h
    simp [reachedClasses_noHoisted _ env thn h.1.1, reachedClasses_noHoisted _ env els h.1.2]
    split <;> rfl

theorem reachedScripts_strict (env : Env) : (as : Attrs) → Denote.condHoistFree as = true →
    Denote.reachedScripts true env as = Denote.reachedScripts false env as
  | .nil, _ => by simp [Denote.reachedScripts]
  | .cons a as, h => by
    simp only [Denote.condHoistFree, Bool.and_eq_true] at h
    simp only [Denote.reachedScripts, reachedScripts_strict env as h.2]
    congr 1
    cases a <;> simp [Denote.reachedScriptsOne]
    rename_i c thn els
    simp only [Denote.condHoistFreeOne, Bool.and_eq_true] at h
    simp [reachedScripts_noHoisted _ env thn h.1.1, reachedScripts_noHoisted _ env els h.1.2]
    split <;> rfl

theorem openTag_strict (css : Bool) (name : Bytes) (as : Attrs) (env : Env) (st : St)
    (h : Denote.condHoistFree as = true) :
    Denote.openTag true css name as env st = Denote.openTag false css name as env st := by
  simp only [Denote.openTag, reachedClasses_strict env as h, reachedScripts_strict env as h]


mutual
theorem node_strict : (n : Node) → (next : Bool) → (env : Env) → (st : St) → Denote.Node.hoistFree n = true →
    Denote.node true n next env st = Denote.node false n next env st
  | .doctype v, next, env, st, _ => by simp [Denote.node]
  | .element name as children t ia ic, next, env, st, h => by
    simp only [Denote.Node.hoistFree, Bool.and_eq_true] at h
    simp only [Denote.node, openTag_strict _ _ _ _ _ h.1, nodes_strict true true children false env _ h.2]
  | .htmlComment c, next, env, st, _ => by simp [Denote.node]
  | .children, next, env, st, _ => by simp only [Denote.node]
  | .raw name as contents, next, env, st, h => by
    simp only [Denote.Node.hoistFree] at h
    simp only [Denote.node, openTag_strict _ _ _ _ _ h]
  | .script as parts, next, env, st, h => by
    simp only [Denote.Node.hoistFree] at h
    simp only [Denote.node, openTag_strict _ _ _ _ _ h]
  | .forE e body, next, env, st, h => by
    simp only [Denote.Node.hoistFree] at h
    have : (fun env st => Denote.nodes true false true body next env st) =
        (fun env st => Denote.nodes false false true body next env st) := by
      funext env st; exact nodes_strict false true body next env st h
    simp only [Denote.node, this]
  | .call e, next, env, st, _ => by simp only [Denote.node]
  | .templEl e body, next, env, st, h => by
    simp only [Denote.Node.hoistFree] at h
    have : (fun st => Denote.nodes true false true body false env st) =
        (fun st => Denote.nodes false false true body false env st) := by
      funext st; exact nodes_strict false true body false env st h
    simp only [Denote.node, this]
  | .ifE e thn elifs els, next, env, st, h => by
    simp only [Denote.Node.hoistFree, Bool.and_eq_true] at h
    have h1 : ∀ st, Denote.nodes true false true thn next env st = Denote.nodes false false true thn next env st :=
      fun st => nodes_strict false true thn next env st h.1.1
    have h2 : ∀ st, Denote.elseIfs true elifs next env st = Denote.elseIfs false elifs next env st :=
      fun st => elseIfs_strict elifs next env st h.1.2
    have h3 : ∀ st, Denote.nodes true false true els next env st = Denote.nodes false false true els next env st :=
      fun st => nodes_strict false true els next env st h.2
    simp only [Denote.node, h1, h2, h3]
  | .switchE e cs, next, env, st, h => by
    simp only [Denote.Node.hoistFree] at h
    have h1 : ∀ i st, Denote.case true cs i next env st = Denote.case false cs i next env st :=
      fun i st => case_strict cs i next env st h
    simp only [Denote.node, h1]
  | .strExpr e t, next, env, st, _ => by simp only [Denote.node]
  | .goCode e _ _, next, env, st, _ => by simp only [Denote.node]
  | .ws v, next, env, st, _ => by simp only [Denote.node]
  | .text v t, next, env, st, _ => by simp only [Denote.node]
  | .goComment _ _, next, env, st, _ => by simp only [Denote.node]
theorem nodes_strict : (all atStart : Bool) → (ns : Nodes) → (next : Bool) → (env : Env) → (st : St) →
    Denote.Nodes.hoistFree ns = true →
    Denote.nodes true all atStart ns next env st = Denote.nodes false all atStart ns next env st
  | all, atStart, .nil, next, env, st, _ => by simp [Denote.nodes]
  | all, atStart, .cons n rest, next, env, st, h => by
    simp only [Denote.Nodes.hoistFree, Bool.and_eq_true] at h
    simp only [Denote.nodes]
    split
    · exact nodes_strict all atStart rest next env st h.2
    · rw [node_strict n _ env st h.1, nodes_strict all false rest next env _ h.2]
theorem elseIfs_strict : (es : ElseIfs) → (next : Bool) → (env : Env) → (st : St) →
    Denote.ElseIfs.hoistFree es = true →
    Denote.elseIfs true es next env st = Denote.elseIfs false es next env st
  | .nil, next, env, st, _ => by simp [Denote.elseIfs]
  | .cons e thn rest, next, env, st, h => by
    simp only [Denote.ElseIfs.hoistFree, Bool.and_eq_true] at h
    have h1 : ∀ st, Denote.nodes true false true thn next env st = Denote.nodes false false true thn next env st :=
      fun st => nodes_strict false true thn next env st h.1
    have h2 : ∀ st, Denote.elseIfs true rest next env st = Denote.elseIfs false rest next env st :=
      fun st => elseIfs_strict rest next env st h.2
    simp only [Denote.elseIfs, h1, h2]
theorem case_strict : (cs : Cases) → (i : Nat) → (next : Bool) → (env : Env) → (st : St) →
    Denote.Cases.hoistFree cs = true →
    Denote.case true cs i next env st = Denote.case false cs i next env st
  | .nil, i, next, env, st, _ => by simp [Denote.case]
  | .cons c body rest, 0, next, env, st, h => by
    simp only [Denote.Cases.hoistFree, Bool.and_eq_true] at h
    simp only [Denote.case, nodes_strict false true body next env st h.1]
  | .cons c body rest, i + 1, next, env, st, h => by
    simp only [Denote.Cases.hoistFree, Bool.and_eq_true] at h
    simp only [Denote.case, case_strict rest i next env st h.2]
end


/-- Running the generated statements = reading the tree directly, with today's unconditional announcing of class /
    script-handler expressions (`strict := false`). For every template body, environment and start state. -/
theorem execs_genNodes (all atStart : Bool) (ns : Nodes) (next : Bool) (env : Env) (st : St) :
    Gen.execs (Gen.genNodes all atStart ns next) env st = Denote.nodes false all atStart ns next env st :=
  execs_genNodes' all atStart ns next env st

/-- Where no class / script-handler expression stands below a conditional attribute, announcing only what is reached
    and announcing everything are the same reading. -/
theorem strict_irrelevant (all atStart : Bool) (ns : Nodes) (next : Bool) (env : Env) (st : St)
    (h : Denote.Nodes.hoistFree ns = true) :
    Denote.nodes true all atStart ns next env st = Denote.nodes false all atStart ns next env st :=
  nodes_strict all atStart ns next env st h

/-- The source had no space after `a`: none is written, whatever follows. -/
theorem space_not_invented (strict : Bool) (a : Node) (env : Env) (st : St)
    (hk : (∃ v t, a = .text v t) ∨ (∃ e t, a = .strExpr e t) ∨ (∃ n as cs t ia ic, a = .element n as cs t ia ic))
    (ht : Node.trail a = .none) :
    Denote.node strict a true env st = Denote.node strict a false env st := by
  rcases hk with ⟨v, t, rfl⟩ | ⟨e, t, rfl⟩ | ⟨n, as, cs, t, ia, ic, rfl⟩ <;>
    simp only [Node.trail] at ht <;> subst ht <;> simp [Denote.node, Denote.space, Node.trail]

theorem space_true_false (a : Node) (x : St) (hi : Node.inline a = true) (ht : Node.trail a ≠ .none)
    (hok : (Denote.space a false x).err = false) :
    Denote.space a true x = (Denote.space a false x).write [32] := by
  by_cases h : x.err = true
  · simp [Denote.space, h] at hok
  · simp [Denote.space, h, hi, ht, sp]

/-- The source had a space after inline content `a` and inline content follows: exactly one space separates them. -/
theorem space_kept (strict : Bool) (a : Node) (env : Env) (st : St)
    (hk : (∃ v t, a = .text v t) ∨ (∃ e t, a = .strExpr e t) ∨ (∃ n as cs t ia ic, a = .element n as cs t ia ic))
    (hi : Node.inline a = true) (ht : Node.trail a ≠ .none)
    (hok : (Denote.node strict a false env st).err = false) :
    Denote.node strict a true env st = (Denote.node strict a false env st).write [32] := by
  rcases hk with ⟨v, t, rfl⟩ | ⟨e, t, rfl⟩ | ⟨n, as, cs, t, ia, ic, rfl⟩ <;>
    simp only [Denote.node] at hok ⊢ <;> exact space_true_false _ _ hi ht hok

/-- In an element or template body the successor that decides is the next node that is not a whitespace node. -/
theorem successor_skips_whitespace (strict : Bool) (a b : Node) (rest : Nodes) (next : Bool) (env : Env) (st : St)
    (ha : a.isWs = false) (hb : b.isWs = false) :
    Denote.nodes strict true false (.cons a (.cons b rest)) next env st =
      Denote.nodes strict true false (.cons b rest) next env (Denote.node strict a (Node.inline b) env st) ∧
    ∀ w, Denote.nodes strict true false (.cons a (.cons (.ws w) (.cons b rest))) next env st =
      Denote.nodes strict true false (.cons b rest) next env (Denote.node strict a (Node.inline b) env st) := by
  constructor
  · simp [Denote.nodes, ha, hb, Nodes.firstNonWs]
  · intro w
    have hw : (Node.ws w).isWs = true := rfl
    simp [Denote.nodes, ha, hb, hw, Nodes.firstNonWs]

end TemplVerif.Proofs.Gen
