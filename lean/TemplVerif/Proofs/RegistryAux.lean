import TemplVerif.Model.Registry
/- Helper lemmas for C12 (generic run invariants, fold characterisations). -/
namespace TemplVerif.Proofs.RegistryAux
open TemplVerif.Registry

theorem run_cons (c : Ctx) (u : Use) (rest : List Use) :
    run c (u :: rest) = ((run (step c u).1 rest).1, (step c u).2 ++ (run (step c u).1 rest).2) := rfl

/-- Generic "at most once" invariant of `run`. -/
theorem once_generic (p : Event → Bool) (mem : Ctx → Prop)
    (h1 : ∀ c u, ((step c u).2.filter p).length ≤ 1)
    (h2 : ∀ c u, mem c → ((step c u).2.filter p).length = 0)
    (h3 : ∀ c u, mem c → mem (step c u).1)
    (h4 : ∀ c u, ((step c u).2.filter p).length ≠ 0 → mem (step c u).1) :
    ∀ (uses : List Use) (c : Ctx),
      ((run c uses).2.filter p).length ≤ 1 ∧ (mem c → ((run c uses).2.filter p).length = 0) := by
  intro uses
  induction uses with
  | nil => intro c; simp [run]
  | cons u rest ih =>
    intro c
    rw [run_cons]
    simp only [List.filter_append, List.length_append]
    have a1 := h1 c u
    have a2 := h2 c u
    have a3 := h3 c u
    have a4 := h4 c u
    have ⟨i1, i2⟩ := ih (step c u).1
    constructor
    · by_cases hz : ((step c u).2.filter p).length = 0
      · omega
      · have := i2 (a4 hz); omega
    · intro hm
      have := a2 hm
      have := i2 (a3 hm)
      omega

/-- Generic "definition before use" invariant of `run`. -/
theorem before_generic (q : Event) (p : Event → Bool) (mem : Ctx → Prop) (hq : p q = false)
    (b1 : ∀ c u, q ∈ (step c u).2 → mem c ∨ ∃ d rest, (step c u).2 = d :: rest ∧ p d = true)
    (b2 : ∀ c u, mem (step c u).1 → mem c ∨ ∃ e, e ∈ (step c u).2 ∧ p e = true) :
    ∀ (uses : List Use) (c : Ctx) (i : Nat), (run c uses).2[i]? = some q →
      mem c ∨ ∃ j, j < i ∧ ∃ e, (run c uses).2[j]? = some e ∧ p e = true := by
  intro uses
  induction uses with
  | nil => intro c i hi; simp [run] at hi
  | cons u rest ih =>
    intro c i hi
    rw [run_cons] at hi ⊢
    simp only at hi ⊢
    by_cases hlt : i < (step c u).2.length
    · rw [List.getElem?_append_left hlt] at hi
      have hmem : q ∈ (step c u).2 := List.mem_of_getElem? hi
      rcases b1 c u hmem with hm | ⟨d, rs, hev, hpd⟩
      · exact Or.inl hm
      · right
        refine ⟨0, ?_, d, ?_, hpd⟩
        · cases i with
          | zero =>
            rw [hev] at hi
            simp at hi
            rw [hi] at hpd
            rw [hq] at hpd
            cases hpd
          | succ k => omega
        · rw [hev]; simp
    · have hge : (step c u).2.length ≤ i := Nat.le_of_not_lt hlt
      rw [List.getElem?_append_right hge] at hi
      rcases ih (step c u).1 _ hi with hm | ⟨j, hj, e, hje, hpe⟩
      · rcases b2 c u hm with hm' | ⟨e, hemem, hpe⟩
        · exact Or.inl hm'
        · right
          obtain ⟨j, hjlt, hje⟩ := List.getElem_of_mem hemem
          refine ⟨j, by omega, e, ?_, hpe⟩
          rw [List.getElem?_append_left hjlt]
          rw [List.getElem?_eq_getElem hjlt, hje]
      · right
        refine ⟨(step c u).2.length + j, by omega, e, ?_, hpe⟩
        rw [List.getElem?_append_right (by omega)]
        simpa using hje

end TemplVerif.Proofs.RegistryAux
