import TemplVerif.Model.Spaced
import TemplVerif.Proofs.Printer
import TemplVerif.Proofs.Norm
namespace TemplVerif.Proofs.Spaced
open TemplVerif TemplVerif.Ast TemplVerif.Printer TemplVerif.Reparse
open TemplVerif.Proofs.Printer
open TemplVerif.Proofs.Norm (nxOf norm_nodes_cons nodes_of_allWs nonNil_congr)
open TemplVerif.Spaced (wsNonEmpty realNonFor parsedWs parsedWsNode parsedWsElifs parsedWsCases)

/-! ### small facts about `reNode` -/

theorem reNode_inline (n : Node) (tr : Trail) (l : Nat) : Sem.Node.inline (reNode n tr l) = Sem.Node.inline n := by
  cases n <;> simp only [reNode, Sem.Node.inline]

theorem inline_of_isWs (n : Node) (h : n.isWs = true) : Sem.Node.inline n = false := by
  cases n <;> simp_all [Node.isWs, Sem.Node.inline]

theorem isFor_eq (n : Node) : TemplVerif.Spaced.isFor (some n) = eatsLeadingWs n := by
  cases n <;> rfl

/-- the trailing space that `Norm.keep` sees is the same before and after, when the source is spaced -/
theorem keep_agree (i : Bool) (n : Node) (rest : Nodes) (l : Nat) (nx : Bool)
    (hs : (!(i && isTrailer n && Sem.Node.inline n && (sepAfter true n rest == .vert)) || (ownTrail n != .none)) = true) :
    Norm.keep (reNode n (sepAfter i n rest) l) nx = Norm.keep n nx := by
  rcases Bool.eq_false_or_eq_true (nextIsBlock rest || rest.isNil || alwaysBreak n) with hc | hc
  all_goals
    cases n with
    | element nm as cs t ia ic =>
      simp only [reNode, Norm.keep, Sem.Node.inline, Sem.Node.trail, sepAfter, isTrailer, ownTrail, hc] at hs ⊢
      rcases Bool.eq_false_or_eq_true (Sem.isBlock nm) with hb | hb <;> cases i <;> cases nx <;> cases t <;> simp_all
    | text v t =>
      simp only [reNode, Norm.keep, Sem.Node.inline, Sem.Node.trail, sepAfter, isTrailer, ownTrail, hc] at hs ⊢
      cases i <;> cases nx <;> cases t <;> simp_all
    | strExpr v t =>
      simp only [reNode, Norm.keep, Sem.Node.inline, Sem.Node.trail, sepAfter, isTrailer, ownTrail, hc] at hs ⊢
      cases i <;> cases nx <;> cases t <;> simp_all
    | _ => simp [reNode, Norm.keep, Sem.Node.inline, Sem.Node.trail]

/-- white space pending in front of the list is accounted for in the source: nothing real follows, or a `for` (which eats
    it), or the list starts with a whitespace node -/
def sepOK (ns : Nodes) : Bool :=
  (TemplVerif.Spaced.firstReal ns).isNone || TemplVerif.Spaced.isFor (TemplVerif.Spaced.firstReal ns) ||
    (match ns with | .cons m _ => m.isWs | .nil => true)

/-- how `pending` of the re-parse and the position in the list fit together -/
def cond (all a p : Bool) (ns : Nodes) : Bool := all || a || (if p then sepOK ns else !headWs ns)

theorem sepOK_real (n : Node) (rest : Nodes) (hn : n.isWs = false) : sepOK (.cons n rest) = eatsLeadingWs n := by
  simp [sepOK, TemplVerif.Spaced.firstReal, hn, isFor_eq]

theorem reNodes_pending (s : Nat) (i : Bool) (l : Nat) (cl : Nat) (ce : Bool) (last : Option Node)
    (m : Node) (r : Nodes) (hm : m.isWs = false) :
    reNodes s i l true cl ce last (.cons m r) =
      if eatsLeadingWs m = true then reNodes s i l false cl ce last (.cons m r)
      else .cons wsN (reNodes s i l false cl ce last (.cons m r)) := by
  rw [reNodes_cons _ _ _ _ _ _ _ _ _ hm, reNodes_cons _ _ _ _ _ _ _ _ _ hm]
  cases eatsLeadingWs m <;> simp

/-! ### the successor's inline-ness -/

theorem nxOf_true_reNodes (s : Nat) (i : Bool) (cl : Nat) (ce : Bool) (next : Bool) :
    (ns : Nodes) → (l : Nat) → (p : Bool) → (last : Option Node) →
      nxOf true (reNodes s i l p cl ce last ns) next = nxOf true ns next
  | .nil, l, p, last => by
    rcases reNodes_nil s i l p cl ce last with h | h <;> rw [h] <;> simp [nxOf, Nodes.firstNonWs, wsN_isWs]
  | .cons n rest, l, p, last => by
    by_cases hn : n.isWs = true
    · rw [reNodes_cons_ws _ _ _ _ _ _ _ _ _ hn, nxOf_true_reNodes s i cl ce next rest l p last]
      simp [nxOf, Nodes.firstNonWs, hn]
    · have hn' : n.isWs = false := by simpa using hn
      rw [reNodes_cons _ _ _ _ _ _ _ _ _ hn']
      split <;> simp [nxOf, Nodes.firstNonWs, wsN_isWs, reNode_isWs, hn', reNode_inline]

theorem norm_reNodes_allWs (all a : Bool) (s : Nat) (i : Bool) (l : Nat) (p : Bool) (cl : Nat) (ce : Bool)
    (last : Option Node) (ns : Nodes) (next : Bool) (h : ns.allWs = true) :
    Norm.nodes all a (reNodes s i l p cl ce last ns) next = .nil :=
  nodes_of_allWs all a _ next (by rw [reNodes_allWs]; exact h)

theorem head_agree (s : Nat) (i : Bool) (l : Nat) (p : Bool) (cl : Nat) (ce : Bool) (last : Option Node)
    (rest : Nodes) (hA : rest.allWs = false) (hp : parsedWs false false rest = true) (hc : cond false false p rest = true) :
    Sem.optInline (reNodes s i l p cl ce last rest).head? = Sem.optInline rest.head? := by
  cases rest with
  | nil => simp [Nodes.allWs] at hA
  | cons h t =>
    by_cases hh : h.isWs = true
    · have hp1 : p = true := by
        cases p
        · simp [cond, headWs, hh] at hc
        · rfl
      subst hp1
      simp only [Nodes.allWs, hh, Bool.true_and] at hA
      simp only [parsedWs, hh, if_true, hA, Bool.false_or, Bool.and_eq_true] at hp
      cases t with
      | nil => simp [Nodes.allWs] at hA
      | cons m t' =>
        have hr := hp.1.2
        simp only [realNonFor, Bool.and_eq_true, Bool.not_eq_true'] at hr
        rw [reNodes_cons_ws _ _ _ _ _ _ _ _ _ hh, reNodes_pending _ _ _ _ _ _ _ _ hr.1, hr.2]
        simp [Nodes.head?, Sem.optInline, inline_of_isWs h hh, inline_of_isWs wsN wsN_isWs]
    · have hh' : h.isWs = false := by simpa using hh
      rw [reNodes_cons _ _ _ _ _ _ _ _ _ hh']
      have : (p && !eatsLeadingWs h) = false := by
        cases p
        · rfl
        · simp only [cond, Bool.false_or, if_true, sepOK_real h t hh'] at hc
          simp [hc]
      rw [this]
      simp [Nodes.head?, Sem.optInline, reNode_inline]

theorem nxOf_reNodes (all : Bool) (s : Nat) (i : Bool) (l : Nat) (p : Bool) (cl : Nat) (ce : Bool) (last : Option Node)
    (rest : Nodes) (next : Bool) (hp : parsedWs all false rest = true) (hc : cond all false p rest = true) :
    nxOf all (reNodes s i l p cl ce last rest) next = nxOf all rest next := by
  cases all with
  | true => exact nxOf_true_reNodes s i cl ce next rest l p last
  | false =>
    unfold nxOf
    simp only [Bool.false_eq_true, if_false, reNodes_allWs]
    cases hA : rest.allWs with
    | true => rfl
    | false =>
      simp only [Bool.false_eq_true, if_false]
      exact head_agree s i l p cl ce last rest hA hp hc

/-- one kept node and the rest -/
theorem cons_step (all a : Bool) (m m' : Node) (rest tail' : Nodes) (next : Bool)
    (hm : m.isWs = false) (hm' : m'.isWs = false)
    (hnx : nxOf all tail' next = nxOf all rest next)
    (hnode : Norm.node m' (nxOf all rest next) = Norm.node m (nxOf all rest next))
    (htail : Norm.nodes all false tail' next = Norm.nodes all false rest next) :
    Norm.nodes all a (.cons m' tail') next = Norm.nodes all a (.cons m rest) next := by
  rw [norm_nodes_cons, norm_nodes_cons, hm, hm', hnx, hnode, htail]
  simp only [Bool.false_and, Bool.false_eq_true, if_false]

theorem spaced_cons (all i : Bool) (n : Node) (rest : Nodes) (hn : n.isWs = false)
    (hh : isTrailer n = true → headWs rest = false)
    (h : TemplVerif.Spaced.spacedNodes all i (.cons n rest) = true) :
    TemplVerif.Spaced.spacedNode n = true ∧
    ((!(i && isTrailer n && Sem.Node.inline n && (sepAfter true n rest == .vert)) || (ownTrail n != .none)) = true) ∧
    cond all false (!isTrailer n) rest = true ∧ TemplVerif.Spaced.spacedNodes all i rest = true := by
  simp only [TemplVerif.Spaced.spacedNodes, hn, Bool.false_eq_true, if_false, Bool.and_eq_true] at h
  obtain ⟨⟨⟨h1, h2⟩, h3⟩, h4⟩ := h
  refine ⟨h1, h2, ?_, h4⟩
  unfold cond sepOK
  cases all
  · cases ht : isTrailer n
    · cases rest <;> simp_all
    · simp [hh ht]
  · rfl

/-! ### the main induction -/

mutual
theorem node_kept : (n : Node) → (tr : Trail) → (l : Nat) → (nx : Bool) → wfNode n = true → nodeInFragment n = true →
    TemplVerif.Spaced.spacedNode n = true → parsedWsNode n = true → (1 ≤ l ∨ isTemplEl n = false) →
    Norm.keep (reNode n tr l) nx = Norm.keep n nx → Norm.node (reNode n tr l) nx = Norm.node n nx
  | .element n as cs t ia ic, tr, l, nx, hw, hf, hs, hp, _, hk => by
    simp only [wfNode, Bool.and_eq_true] at hw
    simp only [nodeInFragment, Bool.and_eq_true] at hf
    simp only [TemplVerif.Spaced.spacedNode, Bool.and_eq_true] at hs
    simp only [parsedWsNode] at hp
    have hc : Norm.nodes true true (reChildren cs ic l) false = Norm.nodes true true cs false := by
      unfold reChildren
      cases hA : cs.allWs with
      | true => simp only [if_true]; rw [nodes_of_allWs true true cs false hA]; simp only [Norm.nodes]
      | false =>
        simp only [Bool.false_eq_true, if_false, Bool.not_false, Bool.true_and]
        have hs2 := hs.2
        rw [hA] at hs2
        simp only [Bool.not_false, Bool.true_and] at hs2
        cases hi : (ic || requireOwnLine cs) with
        | true =>
          rw [hi] at hs2
          simp only [if_true]
          exact nodes_kept cs true (l+1) true (l+1) true l false none true false hw.1 hf.2 hs2 hp (lvlOk_block l cs) rfl
        | false =>
          rw [hi] at hs2
          simp only [Bool.false_eq_true, if_false]
          have hro : requireOwnLine cs = false := by rw [Bool.or_eq_false_iff] at hi; exact hi.2
          exact nodes_kept cs true 0 false 0 false 0 false none true false hw.1 hf.2 hs2 hp (Or.inr hro) rfl
    rw [reNode_element] at hk ⊢
    simp only [Norm.node]
    simp only [Norm.keep, Sem.Node.inline, Sem.Node.trail] at hk ⊢
    rw [hk, hc]
    cases hv : Sem.isVoid n with
    | false => simp only [Bool.false_eq_true, if_false]
    | true =>
      have hnil : cs.isNil = true := by simpa [hv] using hs.1
      cases cs with
      | nil => simp [reChildren, Nodes.allWs]
      | cons _ _ => simp [Nodes.isNil] at hnil
  | .doctype _, _, _, _, _, _, _, _, _, _ => by simp only [reNode]
  | .htmlComment _, _, _, _, _, _, _, _, _, _ => by simp only [reNode]
  | .children, _, _, _, _, _, _, _, _, _ => by simp only [reNode]
  | .raw _ _ _, _, _, _, _, _, _, _, _, _ => by simp only [reNode]
  | .script _ _, _, _, _, _, _, _, _, _, _ => by simp only [reNode]
  | .forE e b, _, l, nx, hw, hf, hs, hp, _, _ => by
    simp only [wfNode] at hw
    simp only [nodeInFragment, Bool.and_eq_true] at hf
    simp only [TemplVerif.Spaced.spacedNode] at hs
    simp only [parsedWsNode] at hp
    simp only [reNode, Norm.node]
    rw [nodes_kept b false (l+1) true (l+1) true l false none true nx hw hf.2 hs hp (lvlOk_block l b) rfl]
  | .call e, _, _, _, _, _, _, _, _, _ => by simp [reNode, Norm.node, Norm.nodes, Norm.nonNil, Nodes.isNil]
  | .templEl e b, tr, l, nx, hw, hf, hs, hp, hl, _ => by
    simp only [wfNode] at hw
    simp only [nodeInFragment, Bool.and_eq_true] at hf
    simp only [TemplVerif.Spaced.spacedNode] at hs
    simp only [parsedWsNode] at hp
    have hl' : 1 ≤ l := by
      rcases hl with h | h
      · exact h
      · simp [isTemplEl] at h
    rw [reNode_templEl]
    cases hb : b.isNil with
    | false =>
      simp only [Bool.false_eq_true, if_false, Norm.node]
      rw [nodes_kept b false (l+1) true (l+1) true l false none true false hw hf.2 hs hp (lvlOk_block l b) rfl]
      rw [nonNil_congr b _ _ (by rw [reNodes_nonNil (l + 1) true l hl' b (l + 1) none, hb])]
    | true =>
      cases b with
      | nil => simp only [if_true]
      | cons _ _ => simp [Nodes.isNil] at hb
  | .ifE e thn elifs els, tr, l, nx, hw, hf, hs, hp, _, _ => by
    simp only [wfNode, Bool.and_eq_true, Bool.or_eq_true] at hw
    simp only [nodeInFragment, Bool.and_eq_true] at hf
    simp only [TemplVerif.Spaced.spacedNode, Bool.and_eq_true] at hs
    simp only [parsedWsNode, Bool.and_eq_true] at hp
    obtain ⟨more, hre⟩ := reNode_ifE e thn elifs els tr l
    rw [hre]
    simp only [Norm.node]
    rw [nodes_kept thn false (l+1) true (l+1) true l more none true nx hw.1.1.1 hf.1.1.2 hs.1.1 hp.1.1 (lvlOk_block l thn) rfl,
      elifs_kept elifs l nx hw.1.1.2 hf.1.2 hs.1.2 hp.1.2]
    cases hb : els.isNil with
    | false =>
      simp only [Bool.false_eq_true, if_false]
      rw [nodes_kept els false (l+1) true (l+1) false l false none true nx hw.1.2 hf.2 hs.2 hp.2 (lvlOk_block l els) rfl]
    | true =>
      cases els with
      | nil => simp only [if_true]
      | cons _ _ => simp [Nodes.isNil] at hb
  | .switchE e cs, _, l, nx, hw, hf, hs, hp, _, _ => by
    simp only [wfNode] at hw
    simp only [nodeInFragment, Bool.and_eq_true] at hf
    simp only [TemplVerif.Spaced.spacedNode] at hs
    simp only [parsedWsNode] at hp
    simp only [reNode, Norm.node]
    rw [cases_kept cs l nx hw hf.2 hs hp]
  | .strExpr e t, tr, _, nx, _, _, _, _, _, hk => by
    simp only [reNode] at hk ⊢
    simp only [Norm.node]
    rw [hk]
  | .goCode _ _ _, _, _, _, _, _, _, _, _, _ => by simp only [reNode]
  | .ws _, _, _, _, _, _, _, _, _, _ => by simp only [reNode]
  | .text v t, tr, _, nx, _, _, _, _, _, hk => by
    simp only [reNode] at hk ⊢
    simp only [Norm.node]
    rw [hk]
  | .goComment _ _, _, _, _, _, _, _, _, _, _ => by simp only [reNode]
theorem nodes_kept : (ns : Nodes) → (all : Bool) → (s : Nat) → (i : Bool) → (l : Nat) → (p : Bool) → (cl : Nat) → (ce : Bool) →
    (last : Option Node) → (a : Bool) → (next : Bool) → wfNodes ns = true → nodesInFragment ns = true →
    TemplVerif.Spaced.spacedNodes all i ns = true → parsedWs all a ns = true → LvlOk s i l ns → cond all a p ns = true →
    Norm.nodes all a (reNodes s i l p cl ce last ns) next = Norm.nodes all a ns next
  | .nil, all, s, i, l, p, cl, ce, last, a, next, _, _, _, _, _, _ => by
    rw [norm_reNodes_allWs all a s i l p cl ce last .nil next rfl]
    simp only [Norm.nodes]
  | .cons n rest, all, s, i, l, p, cl, ce, last, a, next, hw, hf, hs, hp, hl, hc => by
    obtain ⟨hwn, hh, hwr⟩ := wf_cons n rest hw
    simp only [nodesInFragment, Bool.and_eq_true] at hf
    by_cases hn : n.isWs = true
    · simp only [TemplVerif.Spaced.spacedNodes, hn, if_true] at hs
      simp only [parsedWs, hn, if_true, Bool.and_eq_true] at hp
      rw [reNodes_cons_ws _ _ _ _ _ _ _ _ _ hn, norm_nodes_cons, hn]
      cases hA : rest.allWs with
      | true =>
        simp only [Bool.or_true, Bool.and_true, if_true]
        rw [norm_reNodes_allWs all a s i l p cl ce last rest next hA, nodes_of_allWs all a rest next hA]
      | false =>
        cases hall : (all || a) with
        | true =>
          simp only [Bool.or_false, Bool.true_and, if_true]
          exact nodes_kept rest all s i l p cl ce last a next hwr hf.2 hs hp.2 (lvlOk_ws s i l n rest hn hl)
            (by simp [cond, hall])
        | false =>
          rw [Bool.or_eq_false_iff] at hall
          obtain ⟨h1, h2⟩ := hall
          subst h1; subst h2
          have hp1 : p = true := by
            cases p
            · simp [cond, headWs, hn] at hc
            · rfl
          subst hp1
          have hp' := hp.1
          rw [hA] at hp'
          simp only [Bool.false_or, Bool.and_eq_true] at hp'
          cases rest with
          | nil => simp [Nodes.allWs] at hA
          | cons m r =>
            have hr := hp'.2
            simp only [realNonFor, Bool.and_eq_true, Bool.not_eq_true'] at hr
            have ih := nodes_kept (.cons m r) false s i l false cl ce last false next hwr hf.2 hs hp.2
              (lvlOk_ws s i l n (.cons m r) hn hl) (by simp [cond, headWs, hr.1])
            rw [reNodes_pending _ _ _ _ _ _ _ _ hr.1, hr.2]
            simp only [Bool.false_eq_true, if_false]
            rw [norm_nodes_cons false false wsN, ih]
            simp only [wsN_isWs, reNodes_allWs, hA, Bool.or_false, Bool.and_false, Bool.false_eq_true, if_false]
            cases n with
            | ws v =>
              have : v.isEmpty = false := by simpa [wsNonEmpty] using hp'.1
              simp [Norm.node, wsN, this]
            | _ => simp [Node.isWs] at hn
    · have hn' : n.isWs = false := by simpa using hn
      obtain ⟨hs1, hs2, hs3, hs4⟩ := spaced_cons all i n rest hn' hh hs
      simp only [parsedWs, hn', Bool.false_eq_true, if_false, Bool.and_eq_true] at hp
      obtain ⟨hl1, hl2⟩ := lvlOk_step s i l n rest hn' hw hl
      have hnode := fun nx => node_kept n (sepAfter i n rest) l nx hwn hf.1 hs1 hp.1 hl1 (keep_agree i n rest l nx hs2)
      have htail := nodes_kept rest all s i (nextLevel s (sepAfter i n rest)) (!isTrailer n) cl ce (some n) false next
        hwr hf.2 hs4 hp.2 hl2 hs3
      have hnx := nxOf_reNodes all s i (nextLevel s (sepAfter i n rest)) (!isTrailer n) cl ce (some n) rest next hp.2 hs3
      have hX := fun a' => cons_step all a' n (reNode n (sepAfter i n rest) l) rest _ next hn'
        (by rw [reNode_isWs]; exact hn') hnx (hnode _) htail
      rw [reNodes_cons _ _ _ _ _ _ _ _ _ hn']
      split
      · next hpe =>
        simp only [Bool.and_eq_true, Bool.not_eq_true'] at hpe
        have hall : (all || a) = true := by
          have := hc
          simp only [cond, hpe.1, if_true, sepOK_real n rest hn', hpe.2, Bool.or_false] at this
          exact this
        rw [norm_nodes_cons all a wsN]
        simp only [wsN_isWs, hall, Bool.true_and, Bool.true_or, if_true]
        exact hX a
      · exact hX a
theorem elifs_kept : (es : ElseIfs) → (l : Nat) → (nx : Bool) → wfElifs es = true → elifsInFragment es = true →
    TemplVerif.Spaced.spacedElifs es = true → parsedWsElifs es = true →
    Norm.elseIfs (reElifs es l) nx = Norm.elseIfs es nx
  | .nil, _, _, _, _, _, _ => by simp only [reElifs]
  | .cons e thn rest, l, nx, hw, hf, hs, hp => by
    simp only [wfElifs, Bool.and_eq_true] at hw
    simp only [elifsInFragment, Bool.and_eq_true] at hf
    simp only [TemplVerif.Spaced.spacedElifs, Bool.and_eq_true] at hs
    simp only [parsedWsElifs, Bool.and_eq_true] at hp
    simp only [reElifs, Norm.elseIfs]
    rw [nodes_kept thn false (l+1) true (l+1) true l _ none true nx hw.1 hf.1.2 hs.1 hp.1 (lvlOk_block l thn) rfl,
      elifs_kept rest l nx hw.2 hf.2 hs.2 hp.2]
theorem cases_kept : (cs : Cases) → (l : Nat) → (nx : Bool) → wfCases cs = true → casesInFragment cs = true →
    TemplVerif.Spaced.spacedCases cs = true → parsedWsCases cs = true →
    Norm.cases (reCases cs l) nx = Norm.cases cs nx
  | .nil, _, _, _, _, _, _ => by simp only [reCases]
  | .cons e b rest, l, nx, hw, hf, hs, hp => by
    simp only [wfCases, Bool.and_eq_true] at hw
    simp only [casesInFragment, Bool.and_eq_true] at hf
    simp only [TemplVerif.Spaced.spacedCases, Bool.and_eq_true] at hs
    simp only [parsedWsCases, Bool.and_eq_true] at hp
    simp only [reCases, Norm.cases]
    rw [show l + 2 = l + 1 + 1 from rfl,
      nodes_kept b false (l+1+1) true (l+1+1) true l _ none true nx hw.1 hf.1.2 hs.1 hp.1 (lvlOk_block (l+1) b) rfl,
      cases_kept rest l nx hw.2 hf.2 hs.2 hp.2]
end

/-- `class_kept` with the parser facts about whitespace nodes that `wfNodes` does not record. -/
theorem class_kept_partial (b : Nodes) (hf : nodesInFragment b = true) (hw : wfNodes b = true)
    (hs : TemplVerif.Spaced.spacedBody b = true) (hp : parsedWs true true b = true) :
    Norm.body (Reparse.body b) = Norm.body b :=
  nodes_kept b true 1 true 1 true 0 false none true false hw hf hs hp (lvlOk_block 0 b) rfl

/-! ### without `parsedWs` the statement is FALSE: `wfNodes` / `Spaced.spacedBody` do not record three parser facts about the whitespace nodes
that `Norm` keeps (those in the middle of a control-flow / block body). Each example satisfies all three hypotheses. -/

/-- 1. an EMPTY whitespace node between two nodes of a `for` body: `Norm` keeps it as `ws []`, the re-parse has `ws [32]` -/
example :
    let c : Node := .htmlComment [99]
    let t : Nodes := .cons (.forE [120] (.cons c (.cons (.ws []) (.cons c .nil)))) .nil
    nodesInFragment t = true ∧ wfNodes t = true ∧ TemplVerif.Spaced.spacedBody t = true ∧
      Norm.body (Reparse.body t) ≠ Norm.body t := by decide

/-- 2. a whitespace node directly in front of a `for`: `Norm` keeps it, the re-parsed `for` has eaten it -/
example :
    let c : Node := .htmlComment [99]
    let t : Nodes := .cons (.forE [120] (.cons c (.cons (.ws [32]) (.cons (.forE [121] .nil) .nil)))) .nil
    nodesInFragment t = true ∧ wfNodes t = true ∧ TemplVerif.Spaced.spacedBody t = true ∧
      Norm.body (Reparse.body t) ≠ Norm.body t := by decide

/-- 3. two consecutive whitespace nodes: `Norm` keeps both, the re-parse has one -/
example :
    let c : Node := .htmlComment [99]
    let t : Nodes := .cons (.forE [120] (.cons c (.cons (.ws [32]) (.cons (.ws [32]) (.cons c .nil))))) .nil
    nodesInFragment t = true ∧ wfNodes t = true ∧ TemplVerif.Spaced.spacedBody t = true ∧
      Norm.body (Reparse.body t) ≠ Norm.body t := by decide

/-- the hypothesis of `class_kept_partial` is satisfiable together with the others on a tree with kept whitespace -/
example :
    let c : Node := .htmlComment [99]
    let t : Nodes := .cons (.forE [120] (.cons c (.cons (.ws [10, 9]) (.cons (.text [97] .horiz) (.cons (.forE [121] .nil) .nil))))) .nil
    nodesInFragment t = true ∧ wfNodes t = true ∧ TemplVerif.Spaced.spacedBody t = true ∧ parsedWs true true t = true ∧
      Norm.body (Reparse.body t) = Norm.body t := by decide

/-- A template of the printer fragment whose source already has white space wherever the printer breaks a line next to
    inline content (and whose whitespace nodes are as the parser makes them) stays in its layout class when it is formatted. -/
theorem class_kept (b : Nodes) (hf : nodesInFragment b = true) (hw : wfNodes b = true) (hs : Spaced.body b = true) :
    Norm.body (Reparse.body b) = Norm.body b := by
  simp only [TemplVerif.Spaced.body, Bool.and_eq_true] at hs
  exact class_kept_partial b hf hw hs.1 hs.2

end TemplVerif.Proofs.Spaced
