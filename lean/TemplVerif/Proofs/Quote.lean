import TemplVerif.Model.Quote
import TemplVerif.Proofs.Doc
/- Helper lemmas for C16. -/
namespace TemplVerif.Proofs.Quote
open TemplVerif TemplVerif.Quote

/-- `strconv.Unquote` inverts `strconv.Quote` for every byte string (invalid UTF-8 included), whatever
    `unicode.IsPrint` says, provided it does not call LF printable. -/
theorem unquote_quote (isPrint : Nat → Bool) (hlf : isPrint 10 = false) (s : Bytes) :
    unquote (quote isPrint s) = some s := by
  sorry

/-- A quoted literal never contains a raw line break, so literals cannot spill over lines of the text file. -/
theorem quote_no_lf (isPrint : Nat → Bool) (hlf : isPrint 10 = false) (s : Bytes) : (10 : UInt8) ∉ quote isPrint s := by
  sorry

/-- Line `i+1` of the development text file is literal `i`. -/
theorem devLiteral_textFile (qs : List Bytes) (hq : ∀ q ∈ qs, (10 : UInt8) ∉ q) (i : Nat) (hi : i < qs.length) :
    devLiteral (textFile qs) (i + 1) = unquote (qs.getD i []) := by
  sorry

end TemplVerif.Proofs.Quote
