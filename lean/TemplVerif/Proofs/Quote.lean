import TemplVerif.Model.Quote
import TemplVerif.Proofs.Doc
/- Helper lemmas for C16. -/
namespace TemplVerif.Proofs.Quote
open TemplVerif TemplVerif.Quote

theorem hexVal_hexLower : ∀ d, d < 16 → hexVal (hexLower d) = some d := by decide

theorem hexLower_ne_lf : ∀ d, d < 16 → hexLower d ≠ 10 := by decide

theorem hexN_succ (n v : Nat) : hexN (n + 1) v = hexLower ((v / 16 ^ n) % 16) :: hexN n v := by
  simp [hexN, List.range_succ]

theorem hexDigits_hexN (n : Nat) : ∀ (acc v : Nat) (t : Bytes),
    hexDigits n acc (hexN n v ++ t) = some (acc * 16 ^ n + v % 16 ^ n, t) := by
  induction n with
  | zero => intro acc v t; simp [hexN, hexDigits, Nat.mod_one]
  | succ n ih =>
    intro acc v t
    rw [hexN_succ, List.cons_append, hexDigits, hexVal_hexLower _ (Nat.mod_lt _ (by omega))]
    simp only [Option.bind_some]
    rw [ih, Nat.mod_pow_succ]
    congr 2
    grind

theorem hexN_no_lf (n v : Nat) : (10 : UInt8) ∉ hexN n v := by
  induction n with
  | zero => simp [hexN]
  | succ n ih =>
    rw [hexN_succ]
    simp only [List.mem_cons, not_or]
    exact ⟨fun h => hexLower_ne_lf _ (Nat.mod_lt _ (by omega)) h.symm, ih⟩

theorem hexDigits_length : ∀ (n acc : Nat) (s : Bytes) (v : Nat) (r : Bytes),
    hexDigits n acc s = some (v, r) → r.length ≤ s.length := by
  intro n
  induction n with
  | zero => intro acc s v r h; simp [hexDigits] at h; simp [h.2]
  | succ n ih =>
    intro acc s v r h
    cases s with
    | nil => simp [hexDigits] at h
    | cons b rest =>
      simp only [hexDigits] at h
      cases hv : hexVal b with
      | none => simp [hv] at h
      | some d =>
        simp only [hv, Option.bind_some] at h
        have := ih _ _ _ _ h
        simp; omega


theorem unquoteAux_nil (f : Nat) : unquoteAux f [] = some [] := by
  cases f <;> rfl

/-- One escape step of `unquoteAux`, abstracted over the recursive call. -/
def escStep (U : Bytes → Option Bytes) (e : UInt8) (rest' : Bytes) : Option Bytes :=
  let simple (c : UInt8) := (U rest').map (c :: ·)
  if e == 97 then simple 7 else if e == 98 then simple 8 else if e == 102 then simple 12
  else if e == 110 then simple 10 else if e == 114 then simple 13 else if e == 116 then simple 9
  else if e == 118 then simple 11 else if e == 92 then simple 92 else if e == 34 then simple 34
  else if e == 120 then
    (hexDigits 2 0 rest').bind fun (v, r) => (U r).map (v.toUInt8 :: ·)
  else if e == 117 then
    (hexDigits 4 0 rest').bind fun (v, r) =>
      if 0xD800 ≤ v && v < 0xE000 then none else (U r).map (Utf8.encodeRune v ++ ·)
  else if e == 85 then
    (hexDigits 8 0 rest').bind fun (v, r) =>
      if v > 0x10FFFF || (0xD800 ≤ v && v < 0xE000) then none else (U r).map (Utf8.encodeRune v ++ ·)
  else none

theorem unquoteAux_esc (f : Nat) (e : UInt8) (rest' : Bytes) :
    unquoteAux (f + 1) (92 :: e :: rest') = escStep (unquoteAux f) e rest' := by
  rw [unquoteAux.eq_def]
  simp only [escStep]
  rfl

theorem unquoteAux_raw (f : Nat) (b : UInt8) (rest : Bytes) (h1 : b ≠ 34) (h2 : b ≠ 10) (h3 : b ≠ 92) :
    unquoteAux (f + 1) (b :: rest) = (unquoteAux f rest).map (b :: ·) := by
  rw [unquoteAux.eq_def]
  simp [h1, h2, h3]

theorem bind_congr_hex (n : Nat) (rest' : Bytes) (F G : Nat × Bytes → Option Bytes)
    (h : ∀ v r, r.length ≤ rest'.length → F (v, r) = G (v, r)) :
    (hexDigits n 0 rest').bind F = (hexDigits n 0 rest').bind G := by
  cases hh : hexDigits n 0 rest' with
  | none => rfl
  | some p =>
    obtain ⟨v, r⟩ := p
    simp only [Option.bind_some]
    exact h v r (hexDigits_length _ _ _ _ _ hh)

theorem escStep_congr (U V : Bytes → Option Bytes) (e : UInt8) (rest' : Bytes)
    (h : ∀ x : Bytes, x.length ≤ rest'.length → U x = V x) : escStep U e rest' = escStep V e rest' := by
  unfold escStep
  simp only [h rest' (Nat.le_refl _)]
  rw [bind_congr_hex 2 rest' _ (fun (p : Nat × Bytes) => (V p.2).map (p.1.toUInt8 :: ·))
        (fun v r hr => by simp only [h r hr]),
      bind_congr_hex 4 rest' _ (fun (p : Nat × Bytes) =>
        if 0xD800 ≤ p.1 && p.1 < 0xE000 then none else (V p.2).map (Utf8.encodeRune p.1 ++ ·))
        (fun v r hr => by simp only [h r hr]),
      bind_congr_hex 8 rest' _ (fun (p : Nat × Bytes) =>
        if p.1 > 0x10FFFF || (0xD800 ≤ p.1 && p.1 < 0xE000) then none else (V p.2).map (Utf8.encodeRune p.1 ++ ·))
        (fun v r hr => by simp only [h r hr])]

theorem unquoteAux_fuel : ∀ (f : Nat) (s : Bytes), s.length ≤ f → unquoteAux f s = unquoteAux s.length s := by
  intro f
  induction f using Nat.strongRecOn with
  | _ f ih =>
    intro s hs
    cases s with
    | nil => simp [unquoteAux_nil]
    | cons b rest =>
      cases f with
      | zero => simp at hs
      | succ f =>
        simp only [List.length_cons] at hs ⊢
        have key : ∀ x : Bytes, x.length ≤ rest.length → unquoteAux f x = unquoteAux rest.length x := by
          intro x hx
          rw [ih f (by omega) x (by omega), ih rest.length (by omega) x hx]
        by_cases hb : b = 34 ∨ b = 10
        · rw [unquoteAux.eq_def, unquoteAux.eq_def]; rcases hb with rfl | rfl <;> simp
        by_cases h3 : b = 92
        · subst h3
          cases rest with
          | nil => rfl
          | cons e rest' =>
            rw [unquoteAux_esc, unquoteAux_esc]
            exact escStep_congr _ _ _ _ (fun x hx => key x (by simp; omega))
        · rw [unquoteAux_raw _ _ _ (fun h => hb (Or.inl h)) (fun h => hb (Or.inr h)) h3,
            unquoteAux_raw _ _ _ (fun h => hb (Or.inl h)) (fun h => hb (Or.inr h)) h3, key rest (Nat.le_refl _)]

theorem unquote_nil : unquote [] = some [] := rfl

theorem unquote_raw (b : UInt8) (rest : Bytes) (h1 : b ≠ 34) (h2 : b ≠ 10) (h3 : b ≠ 92) :
    unquote (b :: rest) = (unquote rest).map (b :: ·) := by
  simp only [unquote, List.length_cons]
  rw [unquoteAux_raw _ _ _ h1 h2 h3]

theorem unquote_esc (e : UInt8) (rest' : Bytes) : unquote (92 :: e :: rest') = escStep unquote e rest' := by
  simp only [unquote, List.length_cons]
  rw [unquoteAux_esc]
  exact escStep_congr _ _ _ _ (fun x hx => unquoteAux_fuel _ _ (by omega))


theorem unquote_rawlist (xs X : Bytes) (h : ∀ b ∈ xs, b ≠ 34 ∧ b ≠ 10 ∧ b ≠ 92) :
    unquote (xs ++ X) = (unquote X).map (xs ++ ·) := by
  induction xs with
  | nil => simp
  | cons b xs ih =>
    have hb := h b (by simp)
    rw [List.cons_append, unquote_raw _ _ hb.1 hb.2.1 hb.2.2, ih (fun x hx => h x (by simp [hx])), Option.map_map]
    rfl

theorem unquote_x (v : Nat) (X : Bytes) :
    unquote (92 :: 120 :: (hexN 2 v ++ X)) = (unquote X).map ((v % 256).toUInt8 :: ·) := by
  rw [unquote_esc]
  simp [escStep, hexDigits_hexN]

theorem unquote_u (v : Nat) (X : Bytes) (hv : v < 0x10000) (hs : ¬ (0xD800 ≤ v ∧ v < 0xE000)) :
    unquote (92 :: 117 :: (hexN 4 v ++ X)) = (unquote X).map (Utf8.encodeRune v ++ ·) := by
  rw [unquote_esc]
  have : v % 65536 = v := Nat.mod_eq_of_lt hv
  simp [escStep, hexDigits_hexN, this]
  omega

theorem unquote_U (v : Nat) (X : Bytes) (hv : v < 0x110000) (hs : ¬ (0xD800 ≤ v ∧ v < 0xE000)) :
    unquote (92 :: 85 :: (hexN 8 v ++ X)) = (unquote X).map (Utf8.encodeRune v ++ ·) := by
  rw [unquote_esc]
  have : v % 4294967296 = v := Nat.mod_eq_of_lt (by omega)
  simp [escStep, hexDigits_hexN, this]
  omega

theorem unquote_simple (e c : UInt8) (X : Bytes)
    (h : (e, c) ∈ [((97 : UInt8), (7 : UInt8)), (98, 8), (102, 12), (110, 10), (114, 13), (116, 9), (118, 11), (92, 92), (34, 34)]) :
    unquote (92 :: e :: X) = (unquote X).map (c :: ·) := by
  rw [unquote_esc]
  simp only [List.mem_cons, Prod.mk.injEq, List.not_mem_nil, or_false] at h
  rcases h with h | h | h | h | h | h | h | h | h <;> obtain ⟨rfl, rfl⟩ := h <;> simp [escStep]

theorem encodeRune_high (r : Nat) (h1 : 0x80 ≤ r) (h2 : r < 0x110000) :
    ∀ b ∈ Utf8.encodeRune r, 128 ≤ b.toNat := by
  unfold Utf8.encodeRune
  split
  · omega
  split
  · simp; omega
  split
  · simp; omega
  · simp; omega


theorem encodeRune_ascii (r : Nat) (h : r < 0x80) : Utf8.encodeRune r = [r.toUInt8] := by
  simp [Utf8.encodeRune, h]

theorem toUInt8_ne (r c : Nat) (hr : r < 256) (hc : c < 256) (h : r ≠ c) : r.toUInt8 ≠ c.toUInt8 := by
  intro e
  have := congrArg UInt8.toNat e
  simp at this
  omega

theorem raw_ok (isPrint : Nat → Bool) (hlf : isPrint 10 = false) (r : Nat) (hr : r < 0x110000)
    (h34 : r ≠ 34) (h92 : r ≠ 92) (hp : isPrint r = true) :
    ∀ b ∈ Utf8.encodeRune r, b ≠ 34 ∧ b ≠ 10 ∧ b ≠ 92 := by
  have h10 : r ≠ 10 := by intro h; subst h; simp [hlf] at hp
  by_cases hlt : r < 0x80
  · rw [encodeRune_ascii r hlt]
    intro b hb
    simp only [List.mem_singleton] at hb
    subst hb
    exact ⟨toUInt8_ne r 34 (by omega) (by omega) h34, toUInt8_ne r 10 (by omega) (by omega) h10,
      toUInt8_ne r 92 (by omega) (by omega) h92⟩
  · intro b hb
    have := encodeRune_high r (by omega) hr b hb
    refine ⟨?_, ?_, ?_⟩ <;> (intro e; subst e; simp at this)

theorem escaped_ok (isPrint : Nat → Bool) (hlf : isPrint 10 = false) (r : Nat) (hr : r < 0x110000)
    (hs : ¬ (0xD800 ≤ r ∧ r < 0xE000)) (X : Bytes) :
    unquote (escapedRune isPrint r (Utf8.encodeRune r) ++ X) = (unquote X).map (Utf8.encodeRune r ++ ·) := by
  by_cases h34 : r = 34
  · subst h34
    show unquote (92 :: 34 :: X) = _
    rw [unquote_simple 34 34 X (by simp)]; rfl
  by_cases h92 : r = 92
  · subst h92
    show unquote (92 :: 92 :: X) = _
    rw [unquote_simple 92 92 X (by simp)]; rfl
  have e1 : (r == 34 || r == 92) = false := by simp [h34, h92]
  unfold escapedRune
  rw [e1]
  simp only [Bool.false_eq_true, if_false]
  by_cases hp : isPrint r = true
  · rw [if_pos hp]
    exact unquote_rawlist _ _ (raw_ok isPrint hlf r hr h34 h92 hp)
  rw [if_neg hp]
  by_cases h7 : r = 7
  · subst h7; exact unquote_simple 97 7 X (by simp)
  by_cases h8 : r = 8
  · subst h8; exact unquote_simple 98 8 X (by simp)
  by_cases h12 : r = 12
  · subst h12; exact unquote_simple 102 12 X (by simp)
  by_cases h10 : r = 10
  · subst h10; exact unquote_simple 110 10 X (by simp)
  by_cases h13 : r = 13
  · subst h13; exact unquote_simple 114 13 X (by simp)
  by_cases h9 : r = 9
  · subst h9; exact unquote_simple 116 9 X (by simp)
  by_cases h11 : r = 11
  · subst h11; exact unquote_simple 118 11 X (by simp)
  have e2 : (r == 7) = false ∧ (r == 8) = false ∧ (r == 12) = false ∧ (r == 10) = false ∧ (r == 13) = false ∧
      (r == 9) = false ∧ (r == 11) = false := by simp [*]
  simp only [e2, Bool.false_eq_true, if_false]
  by_cases hx : r < 32 ∨ r = 127
  · have : (decide (r < 32) || r == 127) = true := by simpa using hx
    rw [if_pos this, encodeRune_ascii r (by omega)]
    show unquote (92 :: 120 :: (hexN 2 r ++ X)) = _
    rw [unquote_x, Nat.mod_eq_of_lt (by omega)]
    rfl
  have : (decide (r < 32) || r == 127) = false := by simpa using hx
  rw [this]
  simp only [Bool.false_eq_true, if_false]
  by_cases hu : r < 0x10000
  · rw [if_pos hu]
    exact unquote_u r X hu hs
  · rw [if_neg hu]
    exact unquote_U r X hr hs

theorem escaped_no_lf (isPrint : Nat → Bool) (hlf : isPrint 10 = false) (r : Nat) (hr : r < 0x110000) :
    (10 : UInt8) ∉ escapedRune isPrint r (Utf8.encodeRune r) := by
  unfold escapedRune
  split
  · rename_i h
    simp only [Bool.or_eq_true, beq_iff_eq] at h
    rcases h with rfl | rfl <;> decide
  split
  · rename_i h hp
    simp only [Bool.or_eq_true, beq_iff_eq, not_or] at h
    intro hm
    exact (raw_ok isPrint hlf r hr h.1 h.2 hp _ hm).2.1 rfl
  repeat' split
  all_goals first
    | decide
    | (simp only [List.cons_append, List.nil_append, List.mem_cons, not_or]
       exact ⟨by decide, by decide, hexN_no_lf _ _⟩)


theorem u8_eq (n : Nat) (b : UInt8) (h : n = b.toNat) : n.toUInt8 = b := by
  subst h; simp

theorem enc2 (b0 b1 : UInt8) (r : Nat) (h0 : 0xC2 ≤ b0.toNat) (h0' : b0.toNat < 0xE0)
    (h1 : 0x80 ≤ b1.toNat) (h1' : b1.toNat ≤ 0xBF) (hr : r = (b0.toNat - 0xC0) * 64 + (b1.toNat - 0x80)) :
    Utf8.encodeRune r = [b0, b1] ∧ 0x80 ≤ r ∧ r < 0x800 := by
  have hb : 0x80 ≤ r ∧ r < 0x800 := by omega
  refine ⟨?_, hb⟩
  unfold Utf8.encodeRune
  rw [if_neg (by omega), if_pos (by omega), u8_eq _ b0 (by omega), u8_eq _ b1 (by omega)]

theorem enc3 (b0 b1 b2 : UInt8) (r : Nat) (h0 : 0xE0 ≤ b0.toNat) (h0' : b0.toNat < 0xF0)
    (h1 : (if b0.toNat = 0xE0 then 0xA0 else 0x80) ≤ b1.toNat) (h1' : b1.toNat ≤ (if b0.toNat = 0xED then 0x9F else 0xBF))
    (h2 : 0x80 ≤ b2.toNat) (h2' : b2.toNat ≤ 0xBF)
    (hr : r = (b0.toNat - 0xE0) * 4096 + (b1.toNat - 0x80) * 64 + (b2.toNat - 0x80)) :
    Utf8.encodeRune r = [b0, b1, b2] ∧ 0x800 ≤ r ∧ r < 0x10000 ∧ ¬ (0xD800 ≤ r ∧ r < 0xE000) := by
  have hb : 0x800 ≤ r ∧ r < 0x10000 ∧ ¬ (0xD800 ≤ r ∧ r < 0xE000) := by
    split at h1 <;> split at h1' <;> omega
  have h1a : 0x80 ≤ b1.toNat := by split at h1 <;> omega
  have h1b : b1.toNat ≤ 0xBF := by split at h1' <;> omega
  refine ⟨?_, hb⟩
  unfold Utf8.encodeRune
  rw [if_neg (by omega), if_neg (by omega), if_pos (by omega), u8_eq _ b0 (by omega), u8_eq _ b1 (by omega),
    u8_eq _ b2 (by omega)]

theorem enc4 (b0 b1 b2 b3 : UInt8) (r : Nat) (h0 : 0xF0 ≤ b0.toNat) (h0' : b0.toNat < 0xF5)
    (h1 : (if b0.toNat = 0xF0 then 0x90 else 0x80) ≤ b1.toNat) (h1' : b1.toNat ≤ (if b0.toNat = 0xF4 then 0x8F else 0xBF))
    (h2 : 0x80 ≤ b2.toNat) (h2' : b2.toNat ≤ 0xBF) (h3 : 0x80 ≤ b3.toNat) (h3' : b3.toNat ≤ 0xBF)
    (hr : r = (b0.toNat - 0xF0) * 262144 + (b1.toNat - 0x80) * 4096 + (b2.toNat - 0x80) * 64 + (b3.toNat - 0x80)) :
    Utf8.encodeRune r = [b0, b1, b2, b3] ∧ 0x10000 ≤ r ∧ r < 0x110000 := by
  have hb : 0x10000 ≤ r ∧ r < 0x110000 := by
    split at h1 <;> split at h1' <;> omega
  have h1a : 0x80 ≤ b1.toNat := by split at h1 <;> omega
  have h1b : b1.toNat ≤ 0xBF := by split at h1' <;> omega
  refine ⟨?_, hb⟩
  unfold Utf8.encodeRune
  rw [if_neg (by omega), if_neg (by omega), if_neg (by omega), u8_eq _ b0 (by omega), u8_eq _ b1 (by omega),
    u8_eq _ b2 (by omega), u8_eq _ b3 (by omega)]


theorem dr3 (b0 b1 b2 : UInt8) (t2 : Bytes) (c1 : ¬ b0 < 0x80) (c2 : ¬ b0 < 0xC2) (c3 : ¬ b0 < 0xE0) (c4 : b0 < 0xF0) :
  Utf8.decodeRune (b0 :: b1 :: b2 :: t2) =
        if ((if b0 == 0xE0 then 0xA0 else 0x80) ≤ b1 && b1 ≤ (if b0 == 0xED then 0x9F else 0xBF) && Utf8.isCont b2) = true then
          ((b0.toNat - 0xE0) * 4096 + (b1.toNat - 0x80) * 64 + (b2.toNat - 0x80), 3)
        else (Utf8.runeError, 1) := by
  simp only [Utf8.decodeRune, c1, c2, c3, c4, if_true, if_false]

theorem dr4 (b0 b1 b2 b3 : UInt8) (t3 : Bytes) (c1 : ¬ b0 < 0x80) (c2 : ¬ b0 < 0xC2) (c3 : ¬ b0 < 0xE0) (c4 : ¬ b0 < 0xF0)
    (c5 : b0 < 0xF5) :
  Utf8.decodeRune (b0 :: b1 :: b2 :: b3 :: t3) =
        if ((if b0 == 0xF0 then 0x90 else 0x80) ≤ b1 && b1 ≤ (if b0 == 0xF4 then 0x8F else 0xBF) && Utf8.isCont b2 && Utf8.isCont b3) = true then
          ((b0.toNat - 0xF0) * 262144 + (b1.toNat - 0x80) * 4096 + (b2.toNat - 0x80) * 64 + (b3.toNat - 0x80), 4)
        else (Utf8.runeError, 1) := by
  simp only [Utf8.decodeRune, c1, c2, c3, c4, c5, if_true, if_false]

def Valid (s : Bytes) (r w : Nat) : Prop :=
  1 ≤ w ∧ Utf8.encodeRune r = s.take w ∧ r < 0x110000 ∧ ¬ (0xD800 ≤ r ∧ r < 0xE000) ∧ ¬ (r = 0xFFFD ∧ w = 1)

theorem isCont_nat (b : UInt8) (h : Utf8.isCont b = true) : 0x80 ≤ b.toNat ∧ b.toNat ≤ 0xBF := by
  simpa [Utf8.isCont, UInt8.le_iff_toNat_le] using h

theorem decode_cases (b0 : UInt8) (t : Bytes) :
    Utf8.decodeRune (b0 :: t) = (Utf8.runeError, 1) ∨
      Valid (b0 :: t) (Utf8.decodeRune (b0 :: t)).1 (Utf8.decodeRune (b0 :: t)).2 := by
  by_cases c1 : b0 < 0x80
  · right
    have c1' : b0.toNat < 0x80 := by simpa [UInt8.lt_iff_toNat_lt] using c1
    simp only [Utf8.decodeRune, c1, if_true]
    refine ⟨Nat.le_refl _, ?_, by omega, by omega, by omega⟩
    simp [Utf8.encodeRune, c1']
  by_cases c2 : b0 < 0xC2
  · left; simp only [Utf8.decodeRune, c1, c2, if_true, if_false]
  by_cases c3 : b0 < 0xE0
  · rcases t with _ | ⟨b1, t1⟩
    · left; simp only [Utf8.decodeRune, c1, c2, c3, if_true, if_false]
    · simp only [Utf8.decodeRune, c1, c2, c3, if_true, if_false]
      by_cases hc : Utf8.isCont b1 = true
      · right
        simp only [hc, if_true]
        have := isCont_nat b1 hc
        simp only [UInt8.lt_iff_toNat_lt, Nat.not_lt] at c2 c3
        obtain ⟨e, h1, h2⟩ := enc2 b0 b1 _ c2 c3 this.1 this.2 rfl
        exact ⟨by omega, by simpa using e, by omega, by omega, by omega⟩
      · left; simp only [hc]; rfl
  by_cases c4 : b0 < 0xF0
  · rcases t with _ | ⟨b1, _ | ⟨b2, t2⟩⟩
    · left; simp only [Utf8.decodeRune, c1, c2, c3, c4, if_true, if_false]
    · left; simp only [Utf8.decodeRune, c1, c2, c3, c4, if_true, if_false]
    · rw [dr3 b0 b1 b2 t2 c1 c2 c3 c4]
      by_cases hc : ((if b0 == 0xE0 then 0xA0 else 0x80) ≤ b1 && b1 ≤ (if b0 == 0xED then 0x9F else 0xBF) && Utf8.isCont b2) = true
      · right
        rw [if_pos hc]
        simp only [Bool.and_eq_true, decide_eq_true_eq] at hc
        obtain ⟨⟨hlo, hhi⟩, hc2⟩ := hc
        have k2 := isCont_nat b2 hc2
        simp only [UInt8.lt_iff_toNat_lt, Nat.not_lt] at c3 c4
        have hlo' : (if b0.toNat = 0xE0 then 0xA0 else 0x80) ≤ b1.toNat := by
          by_cases e : b0 = 0xE0
          · subst e; simpa [UInt8.le_iff_toNat_le] using hlo
          · have : b0.toNat ≠ 0xE0 := fun h => e (UInt8.toNat_inj.mp h)
            simpa [UInt8.le_iff_toNat_le, e, this] using hlo
        have hhi' : b1.toNat ≤ (if b0.toNat = 0xED then 0x9F else 0xBF) := by
          by_cases e : b0 = 0xED
          · subst e; simpa [UInt8.le_iff_toNat_le] using hhi
          · have : b0.toNat ≠ 0xED := fun h => e (UInt8.toNat_inj.mp h)
            simpa [UInt8.le_iff_toNat_le, e, this] using hhi
        obtain ⟨e, h1, h2, h3⟩ := enc3 b0 b1 b2 _ c3 c4 hlo' hhi' k2.1 k2.2 rfl
        exact ⟨by omega, by simpa using e, by omega, h3, by omega⟩
      · left; rw [if_neg hc]
  by_cases c5 : b0 < 0xF5
  · rcases t with _ | ⟨b1, _ | ⟨b2, _ | ⟨b3, t3⟩⟩⟩
    · left; simp only [Utf8.decodeRune, c1, c2, c3, c4, c5, if_true, if_false]
    · left; simp only [Utf8.decodeRune, c1, c2, c3, c4, c5, if_true, if_false]
    · left; simp only [Utf8.decodeRune, c1, c2, c3, c4, c5, if_true, if_false]
    · rw [dr4 b0 b1 b2 b3 t3 c1 c2 c3 c4 c5]
      by_cases hc : ((if b0 == 0xF0 then 0x90 else 0x80) ≤ b1 && b1 ≤ (if b0 == 0xF4 then 0x8F else 0xBF) && Utf8.isCont b2 && Utf8.isCont b3) = true
      · right
        rw [if_pos hc]
        simp only [Bool.and_eq_true, decide_eq_true_eq] at hc
        obtain ⟨⟨⟨hlo, hhi⟩, hc2⟩, hc3⟩ := hc
        have k2 := isCont_nat b2 hc2
        have k3 := isCont_nat b3 hc3
        simp only [UInt8.lt_iff_toNat_lt, Nat.not_lt] at c4 c5
        have hlo' : (if b0.toNat = 0xF0 then 0x90 else 0x80) ≤ b1.toNat := by
          by_cases e : b0 = 0xF0
          · subst e; simpa [UInt8.le_iff_toNat_le] using hlo
          · have : b0.toNat ≠ 0xF0 := fun h => e (UInt8.toNat_inj.mp h)
            simpa [UInt8.le_iff_toNat_le, e, this] using hlo
        have hhi' : b1.toNat ≤ (if b0.toNat = 0xF4 then 0x8F else 0xBF) := by
          by_cases e : b0 = 0xF4
          · subst e; simpa [UInt8.le_iff_toNat_le] using hhi
          · have : b0.toNat ≠ 0xF4 := fun h => e (UInt8.toNat_inj.mp h)
            simpa [UInt8.le_iff_toNat_le, e, this] using hhi
        obtain ⟨e, h1, h2⟩ := enc4 b0 b1 b2 b3 _ c4 c5 hlo' hhi' k2.1 k2.2 k3.1 k3.2 rfl
        exact ⟨by omega, by simpa using e, by omega, by omega, by omega⟩
      · left; rw [if_neg hc]
  · left; simp only [Utf8.decodeRune, c1, c2, c3, c4, c5, if_false]


/-- The bytes `quoteAux` emits for the first rune of `s`. -/
def chunk (isPrint : Nat → Bool) (s : Bytes) : Bytes :=
  if (Utf8.decodeRune s).1 == Utf8.runeError && max (Utf8.decodeRune s).2 1 == 1 then
    [92, 120] ++ hexN 2 (s.headD 0).toNat
  else escapedRune isPrint (Utf8.decodeRune s).1 (s.take (max (Utf8.decodeRune s).2 1))

theorem quoteAux_succ (isPrint : Nat → Bool) (fuel : Nat) (b : UInt8) (t : Bytes) :
    quoteAux isPrint (fuel + 1) (b :: t) =
      chunk isPrint (b :: t) ++ quoteAux isPrint fuel ((b :: t).drop (max (Utf8.decodeRune (b :: t)).2 1)) := by
  rw [quoteAux]
  rfl

theorem chunk_ok (isPrint : Nat → Bool) (hlf : isPrint 10 = false) (b : UInt8) (t : Bytes) :
    (∀ X, unquote (chunk isPrint (b :: t) ++ X) =
      (unquote X).map ((b :: t).take (max (Utf8.decodeRune (b :: t)).2 1) ++ ·)) ∧
    (10 : UInt8) ∉ chunk isPrint (b :: t) := by
  rcases decode_cases b t with h | h
  · have hc : chunk isPrint (b :: t) = 92 :: 120 :: hexN 2 b.toNat := by
      simp [chunk, h]
    rw [hc, h]
    constructor
    · intro X
      show unquote (92 :: 120 :: (hexN 2 b.toNat ++ X)) = _
      rw [unquote_x, Nat.mod_eq_of_lt (UInt8.toNat_lt b)]
      simp
    · simp only [List.mem_cons, not_or]
      exact ⟨by decide, by decide, hexN_no_lf _ _⟩
  · obtain ⟨hw, henc, hr, hs, hne⟩ := h
    have hmax : max (Utf8.decodeRune (b :: t)).2 1 = (Utf8.decodeRune (b :: t)).2 := by omega
    have hc : chunk isPrint (b :: t) =
        escapedRune isPrint (Utf8.decodeRune (b :: t)).1 (Utf8.encodeRune (Utf8.decodeRune (b :: t)).1) := by
      unfold chunk
      rw [hmax, henc]
      have : ((Utf8.decodeRune (b :: t)).1 == Utf8.runeError && (Utf8.decodeRune (b :: t)).2 == 1) = false := by
        simp only [Bool.and_eq_false_iff, beq_eq_false_iff_ne, Utf8.runeError]
        by_cases e : (Utf8.decodeRune (b :: t)).1 = 0xFFFD
        · right; intro e2; exact hne ⟨e, e2⟩
        · left; exact e
      rw [this]
      simp
    rw [hc, hmax, ← henc]
    exact ⟨fun X => escaped_ok isPrint hlf _ hr hs X, escaped_no_lf isPrint hlf _ hr⟩

theorem quoteAux_ok (isPrint : Nat → Bool) (hlf : isPrint 10 = false) :
    ∀ (fuel : Nat) (s : Bytes), s.length ≤ fuel →
      unquote (quoteAux isPrint fuel s) = some s ∧ (10 : UInt8) ∉ quoteAux isPrint fuel s := by
  intro fuel
  induction fuel with
  | zero =>
    intro s hs
    have : s = [] := List.eq_nil_of_length_eq_zero (by omega)
    subst this
    exact ⟨rfl, by simp [quoteAux]⟩
  | succ fuel ih =>
    intro s hs
    cases s with
    | nil => exact ⟨rfl, by simp [quoteAux]⟩
    | cons b t =>
      rw [quoteAux_succ]
      obtain ⟨h1, h2⟩ := chunk_ok isPrint hlf b t
      have hlen : ((b :: t).drop (max (Utf8.decodeRune (b :: t)).2 1)).length ≤ fuel := by
        simp only [List.length_drop, List.length_cons] at hs ⊢
        omega
      obtain ⟨i1, i2⟩ := ih _ hlen
      constructor
      · rw [h1, i1]
        simp
      · simp only [List.mem_append, not_or]
        exact ⟨h2, i2⟩

/-- `strconv.Unquote` inverts `strconv.Quote` for every byte string (invalid UTF-8 included), whatever
    `unicode.IsPrint` says, provided it does not call LF printable. -/
theorem unquote_quote (isPrint : Nat → Bool) (hlf : isPrint 10 = false) (s : Bytes) :
    unquote (quote isPrint s) = some s :=
  (quoteAux_ok isPrint hlf s.length s (Nat.le_refl _)).1

/-- A quoted literal never contains a raw line break, so literals cannot spill over lines of the text file. -/
theorem quote_no_lf (isPrint : Nat → Bool) (hlf : isPrint 10 = false) (s : Bytes) : (10 : UInt8) ∉ quote isPrint s :=
  (quoteAux_ok isPrint hlf s.length s (Nat.le_refl _)).2

/-- Line `i+1` of the development text file is literal `i`. -/
theorem devLiteral_textFile (qs : List Bytes) (hq : ∀ q ∈ qs, (10 : UInt8) ∉ q) (i : Nat) (hi : i < qs.length) :
    devLiteral (textFile qs) (i + 1) = unquote (qs.getD i []) := by
  have hne : qs ≠ [] := by intro h; subst h; simp at hi
  have hs : splitLF (joinLF qs) = qs := Doc.splitLF_joinLF qs ⟨hne, hq⟩
  simp [devLiteral, textFile, hs, List.getD, hi]

end TemplVerif.Proofs.Quote
