import TemplVerif.Model.Denote
import TemplVerif.Proofs.ComposeErr
/-
Helper lemmas for Prefix.lean, part 1: the order `Le` (document and trace only grow, script names stay pairwise
different) and the fact that every function of the denotation moves forward in that order.
-/
namespace TemplVerif.Proofs.PrefixBase
open TemplVerif TemplVerif.Ast TemplVerif.Sem
open TemplVerif.Proofs.Gen TemplVerif.Proofs.Compose

/-- `b` continues `a` -/
def Le (a b : St) : Prop := a.out <+: b.out ∧ a.trace <+: b.trace ∧ (a.scripts.Nodup → b.scripts.Nodup)

theorem Le.refl (a : St) : Le a a := ⟨List.prefix_refl _, List.prefix_refl _, id⟩

theorem Le.trans {a b c : St} (h1 : Le a b) (h2 : Le b c) : Le a c :=
  ⟨h1.1.trans h2.1, h1.2.1.trans h2.2.1, fun h => h2.2.2 (h1.2.2 h)⟩

theorem Le.write {a s : St} (x : Bytes) (h : Le a s) : Le a (s.write x) :=
  ⟨h.1.trans (List.prefix_append _ _), h.2.1, h.2.2⟩

theorem Le.fail {a s : St} (h : Le a s) : Le a s.fail := h
theorem Le.stick {a s : St} (h : Le a s) : Le a s.stick := h

theorem Le.of_fail {a s : St} (h : Le a s) : Le a.fail s := h
theorem Le.of_stick {a s : St} (h : Le a s) : Le a.stick s := h

theorem eval_le (env : Env) (e : Bytes) {a s : St} (h : Le a s) : Le a (eval env e s).2 := by
  unfold eval
  split
  · exact h
  · exact ⟨h.1, h.2.1.trans (List.prefix_append _ _), h.2.2⟩

theorem writeEscaped_le (env : Env) (e : Bytes) {a s : St} (h : Le a s) : Le a (writeEscaped env e s) := by
  unfold writeEscaped
  split
  · exact h
  · have he := eval_le env e h
    generalize eval env e s = r at he ⊢
    split <;> first | exact he | exact he.write _

theorem fresh_fold (items : List (Bytes × Bytes)) : ∀ (acc : List Bytes × Bytes), acc.1.Nodup →
    (items.foldl (fun (acc : List Bytes × Bytes) it =>
      if acc.1.contains it.1 then acc else (acc.1 ++ [it.1], acc.2 ++ it.2)) acc).1.Nodup ∧
    acc.1 <+: (items.foldl (fun (acc : List Bytes × Bytes) it =>
      if acc.1.contains it.1 then acc else (acc.1 ++ [it.1], acc.2 ++ it.2)) acc).1 ∧
    ∀ n ∈ (items.foldl (fun (acc : List Bytes × Bytes) it =>
      if acc.1.contains it.1 then acc else (acc.1 ++ [it.1], acc.2 ++ it.2)) acc).1, n ∈ acc.1 ∨ n ∈ items.map (·.1) := by
  induction items with
  | nil => intro acc h; simp [h]
  | cons it items ih =>
    intro acc h
    simp only [List.foldl_cons]
    by_cases hc : acc.1.contains it.1 = true
    · simp only [hc, if_true]
      obtain ⟨h1, h2, h3⟩ := ih acc h
      refine ⟨h1, h2, fun n hn => ?_⟩
      rcases h3 n hn with h | h
      · exact Or.inl h
      · exact Or.inr (by simp only [List.map_cons, List.mem_cons]; exact Or.inr h)
    · simp only [hc]
      have hnot : it.1 ∉ acc.1 := by simpa using hc
      have hnd : (acc.1 ++ [it.1]).Nodup := by
        rw [List.nodup_append]
        refine ⟨h, by simp, ?_⟩
        intro a ha b hb
        simp only [List.mem_singleton] at hb
        subst hb
        intro hab; subst hab; exact hnot ha
      obtain ⟨h1, h2, h3⟩ := ih (acc.1 ++ [it.1], acc.2 ++ it.2) hnd
      refine ⟨h1, (List.prefix_append _ _).trans h2, fun n hn => ?_⟩
      rcases h3 n hn with h | h
      · simp only [List.mem_append, List.mem_singleton] at h
        rcases h with h | h
        · exact Or.inl h
        · exact Or.inr (by simp [h])
      · exact Or.inr (by simp only [List.map_cons, List.mem_cons]; exact Or.inr h)

theorem emitScripts_scripts (items : List (Bytes × Bytes)) (st : St) :
    (emitScripts items st).scripts = (items.foldl (fun (acc : List Bytes × Bytes) it =>
      if acc.1.contains it.1 then acc else (acc.1 ++ [it.1], acc.2 ++ it.2)) (st.scripts, [])).1 := by
  unfold emitScripts
  simp only
  split <;> rfl

theorem emitScripts_le (items : List (Bytes × Bytes)) {a s : St} (h : Le a s) : Le a (emitScripts items s) := by
  refine h.trans ⟨?_, ?_, ?_⟩
  · unfold emitScripts
    simp only
    split
    · exact List.prefix_refl _
    · simp only [List.append_assoc]; exact List.prefix_append _ _
  · unfold emitScripts
    simp only
    split <;> exact List.prefix_refl _
  · intro hn
    rw [emitScripts_scripts]
    exact (fresh_fold items (s.scripts, []) hn).1

theorem evalScripts_le (env : Env) : (es : List Bytes) → {a s : St} → Le a s → Le a (evalScripts env es s).2
  | [], a, s, h => by simpa [evalScripts] using h
  | e :: es, a, s, h => by
    unfold evalScripts
    split
    · exact h
    · have he := eval_le env e h
      generalize eval env e s = r at he ⊢
      split
      · exact evalScripts_le env es he
      · exact he
      · exact he

theorem announceClasses_le (env : Env) : (es : List Bytes) → {a s : St} → Le a s →
    Le a (Denote.announceClasses env es s)
  | [], a, s, h => by simpa [Denote.announceClasses] using h
  | e :: es, a, s, h => by
    unfold Denote.announceClasses
    split
    · exact h
    · have he := eval_le env e h
      generalize eval env e s = r at he ⊢
      split
      · exact announceClasses_le env es he
      · exact he
      · exact he

theorem announceScripts_le (env : Env) (es : List Bytes) {a s : St} (h : Le a s) :
    Le a (Denote.announceScripts env es s) := by
  unfold Denote.announceScripts
  split
  · exact h
  · have he := evalScripts_le env es h
    generalize evalScripts env es s = r at he ⊢
    obtain ⟨items, s'⟩ := r
    simp only
    split
    · exact he
    · exact emitScripts_le items he

theorem Le.gwrite {a s : St} (x : Bytes) (h : Le a s) : Le a (if s.err = true then s else s.write x) := by
  split
  · exact h
  · exact h.write x

mutual
theorem attrs_le (css : Bool) (el : Bytes) : (as : Attrs) → (env : Env) → {a s : St} → Le a s →
    Le a (Denote.attrs css el as env s)
  | .nil, env, a, s, h => by simpa [Denote.attrs] using h
  | .cons x as, env, a, s, h => by
    rw [Denote.attrs]
    exact attrs_le css el as env (attr_le css el x env h)
theorem attr_le (css : Bool) (el : Bytes) : (x : Attr) → (env : Env) → {a s : St} → Le a s →
    Le a (Denote.attr css el x env s)
  | .boolConst _, env, a, s, h => by rw [Denote.attr]; exact h.gwrite _
  | .const _ _ _, env, a, s, h => by rw [Denote.attr]; exact h.gwrite _
  | .boolExpr _ e, env, a, s, h => by
    rw [Denote.attr]
    split
    · exact h
    · have he := eval_le env e h
      generalize eval env e s = r at he ⊢
      split <;> first | exact he | exact he.write _
  | .expr name e, env, a, s, h => by
    rw [Denote.attr]
    split
    · exact h
    · apply Le.gwrite
      split
      · split
        · exact (h.write _).write _
        · exact (h.write _).stick
      · split
        · exact writeEscaped_le env e (h.write _)
        · split
          · have he := eval_le env e (h.write (sp ++ Html.escape name ++ eqDq))
            generalize eval env e (s.write (sp ++ Html.escape name ++ eqDq)) = r at he ⊢
            split <;> first | exact he | exact he.write _
          · exact writeEscaped_le env e (h.write _)
  | .spread e, env, a, s, h => by
    rw [Denote.attr]
    split
    · exact h
    · have he := eval_le env e h
      generalize eval env e s = r at he ⊢
      split <;> first | exact he | exact he.write _
  | .cond e thn els, env, a, s, h => by
    rw [Denote.attr]
    split
    · exact h
    · have he := eval_le env e h
      generalize eval env e s = r at he ⊢
      split
      · exact attrs_le css el thn env he
      · exact attrs_le css el els env he
      · exact he
      · exact he
end

theorem openTag_le (strict css : Bool) (name : Bytes) (as : Attrs) (env : Env) {a s : St} (h : Le a s) :
    Le a (Denote.openTag strict css name as env s) := by
  unfold Denote.openTag
  split
  · exact h
  · split
    · exact h.write _
    · simp only
      have h1 : Le a (if css = true then Denote.announceClasses env (Denote.reachedClasses strict env as) s else s) := by
        split
        · exact announceClasses_le env _ h
        · exact h
      generalize (if css = true then Denote.announceClasses env (Denote.reachedClasses strict env as) s else s) = s1 at h1 ⊢
      have h2 := announceScripts_le env (Denote.reachedScripts strict env as) h1
      generalize Denote.announceScripts env (Denote.reachedScripts strict env as) s1 = s2 at h2 ⊢
      split
      · exact h2
      · exact Le.gwrite _ (attrs_le css name as env (h2.write _))

theorem scriptParts_le : (ps : List ScriptPart) → (env : Env) → {a s : St} → Le a s →
    Le a (Denote.scriptParts ps env s)
  | [], env, a, s, h => by simpa [Denote.scriptParts] using h
  | .js v :: rest, env, a, s, h => by
    rw [Denote.scriptParts]
    exact scriptParts_le rest env (h.gwrite v)
  | .go e inside trail :: rest, env, a, s, h => by
    rw [Denote.scriptParts]
    split
    · exact h
    · have he := eval_le env e h
      generalize eval env e s = r at he ⊢
      split
      · exact scriptParts_le rest env (he.write _)
      · exact he
      · exact he
      · exact he

theorem space_le (cur : Node) (next : Bool) {a s : St} (h : Le a s) : Le a (Denote.space cur next s) := by
  unfold Denote.space
  split
  · exact h
  · split
    · exact h.write _
    · exact h

theorem renderSegs_le (c : St → St) (hc : ∀ {a s : St}, Le a s → Le a (c s)) :
    (segs : List Bytes) → {a s : St} → Le a s → Le a (renderSegs c segs s)
  | [], a, s, h => by simpa [renderSegs] using h
  | [x], a, s, h => by rw [renderSegs]; exact h.gwrite x
  | x :: y :: rest, a, s, h => by
    rw [renderSegs]
    · split
      · exact h
      · exact renderSegs_le c hc (y :: rest) (hc (h.write x))
    · simp

theorem iterate_le (f : Env → St → St) (hf : ∀ env {a s : St}, Le a s → Le a (f env s)) (env : Env) :
    (bs : List (List (Bytes × Bytes))) → {a s : St} → Le a s → Le a (iterate bs f env s)
  | [], a, s, h => by simpa [iterate] using h
  | b :: bs, a, s, h => by
    simp only [iterate, List.foldl_cons]
    exact iterate_le f hf env bs (hf _ h)

mutual
theorem node_le (strict : Bool) : (n : Node) → (next : Bool) → (env : Env) → {a s : St} → Le a s →
    Le a (Denote.node strict n next env s)
  | .doctype v, next, env, a, s, h => by rw [Denote.node]; exact h.gwrite _
  | .element name as children t ia ic, next, env, a, s, h => by
    rw [Denote.node]
    apply space_le
    have h1 := openTag_le strict true name as env h
    generalize Denote.openTag strict true name as env s = s1 at h1 ⊢
    simp only
    split
    · exact h1
    · exact Le.gwrite _ (nodes_le strict true true children false env h1)
  | .htmlComment c, next, env, a, s, h => by rw [Denote.node]; exact h.gwrite _
  | .children, next, env, a, s, h => by
    rw [Denote.node]
    split
    · exact h
    · split <;> first | exact h | exact h.write _
  | .raw name as contents, next, env, a, s, h => by
    rw [Denote.node]
    exact Le.gwrite _ (openTag_le strict false name as env h)
  | .script as parts, next, env, a, s, h => by
    rw [Denote.node]
    exact Le.gwrite _ (scriptParts_le parts env (openTag_le strict false _ as env h))
  | .forE e body, next, env, a, s, h => by
    rw [Denote.node]
    split
    · exact h
    · have he := eval_le env e h
      generalize eval env e s = r at he ⊢
      split
      · exact iterate_le _ (fun env _ _ h => nodes_le strict false true body next env h) env _ he
      · exact he
      · exact he
  | .call e, next, env, a, s, h => by
    rw [Denote.node]
    split
    · exact h
    · have he := eval_le env e h
      generalize eval env e s = r at he ⊢
      split
      · exact renderSegs_le _ (fun h => h) _ he
      · exact he
      · exact he
      · exact he
  | .templEl e body, next, env, a, s, h => by
    rw [Denote.node]
    split
    · exact h
    · have he := eval_le env e h
      generalize eval env e s = r at he ⊢
      split
      · exact renderSegs_le _ (fun h => nodes_le strict false true body false env h) _ he
      · exact he
      · exact he
      · exact he
  | .ifE e thn elifs els, next, env, a, s, h => by
    rw [Denote.node]
    split
    · exact h
    · have he := eval_le env e h
      generalize eval env e s = r at he ⊢
      split
      · exact nodes_le strict false true thn next env he
      · have h2 := elseIfs_le strict elifs next env he
        rename_i s1
        generalize Denote.elseIfs strict elifs next env s1 = r2 at h2 ⊢
        split
        · exact h2
        · exact nodes_le strict false true els next env h2
      · exact he
      · exact he
  | .switchE e cs, next, env, a, s, h => by
    rw [Denote.node]
    split
    · exact h
    · have he := eval_le env e h
      generalize eval env e s = r at he ⊢
      split
      · split
        · exact case_le strict cs _ next env he
        · exact he
      · exact he
      · exact he
  | .strExpr e t, next, env, a, s, h => by
    rw [Denote.node]
    apply space_le
    split
    · exact h
    · exact writeEscaped_le env e h
  | .goCode e _ _, next, env, a, s, h => by
    rw [Denote.node]
    split
    · exact h
    · have he := eval_le env e h
      generalize eval env e s = r at he ⊢
      split <;> exact he
  | .ws v, next, env, a, s, h => by
    rw [Denote.node]
    split
    · exact h
    · exact h.write _
  | .text v t, next, env, a, s, h => by
    rw [Denote.node]
    exact space_le _ _ (h.gwrite v)
  | .goComment _ _, next, env, a, s, h => by rw [Denote.node]; exact h
theorem nodes_le (strict : Bool) : (all atStart : Bool) → (ns : Nodes) → (next : Bool) → (env : Env) → {a s : St} →
    Le a s → Le a (Denote.nodes strict all atStart ns next env s)
  | all, atStart, .nil, next, env, a, s, h => by rw [Denote.nodes]; exact h
  | all, atStart, .cons n rest, next, env, a, s, h => by
    rw [Denote.nodes]
    split
    · exact nodes_le strict all atStart rest next env h
    · exact nodes_le strict all false rest next env (node_le strict n _ env h)
theorem elseIfs_le (strict : Bool) : (es : ElseIfs) → (next : Bool) → (env : Env) → {a s : St} → Le a s →
    Le a (Denote.elseIfs strict es next env s).2
  | .nil, next, env, a, s, h => by rw [Denote.elseIfs]; exact h
  | .cons e thn rest, next, env, a, s, h => by
    rw [Denote.elseIfs]
    have he := eval_le env e h
    generalize eval env e s = r at he ⊢
    split
    · exact nodes_le strict false true thn next env he
    · exact elseIfs_le strict rest next env he
    · exact he
    · exact he
theorem case_le (strict : Bool) : (cs : Cases) → (i : Nat) → (next : Bool) → (env : Env) → {a s : St} → Le a s →
    Le a (Denote.case strict cs i next env s)
  | .nil, i, next, env, a, s, h => by rw [Denote.case]; exact h
  | .cons _ body _, 0, next, env, a, s, h => by rw [Denote.case]; exact nodes_le strict false true body next env h
  | .cons _ _ rest, i + 1, next, env, a, s, h => by rw [Denote.case]; exact case_le strict rest i next env h
end

/-! Once the error flag is set, nothing changes any more. -/
mutual
theorem node_frozen (strict : Bool) : (n : Node) → (next : Bool) → (env : Env) → (st : St) → st.err = true →
    Denote.node strict n next env st = st
  | .doctype v, next, env, st, h => by simp [Denote.node, h]
  | .element name as children t ia ic, next, env, st, h => by
    simp [Denote.node, openTag_err _ _ _ _ _ _ h, nodes_frozen strict true true children false env st h, h,
      Denote.space]
  | .htmlComment c, next, env, st, h => by simp [Denote.node, h]
  | .children, next, env, st, h => by simp [Denote.node, h]
  | .raw name as contents, next, env, st, h => by simp [Denote.node, openTag_err _ _ _ _ _ _ h, h]
  | .script as parts, next, env, st, h => by
    simp [Denote.node, openTag_err _ _ _ _ _ _ h, scriptParts_err _ _ _ h, h]
  | .forE e body, next, env, st, h => by simp [Denote.node, h]
  | .call e, next, env, st, h => by simp [Denote.node, h]
  | .templEl e body, next, env, st, h => by simp [Denote.node, h]
  | .ifE e thn elifs els, next, env, st, h => by simp [Denote.node, h]
  | .switchE e cs, next, env, st, h => by simp [Denote.node, h]
  | .strExpr e t, next, env, st, h => by
    simp [Denote.node, writeEscaped_err _ _ _ h, h, Denote.space]
  | .goCode e _ _, next, env, st, h => by simp [Denote.node, h]
  | .ws v, next, env, st, h => by simp [Denote.node, h]
  | .text v t, next, env, st, h => by simp [Denote.node, Denote.space, h]
  | .goComment _ _, next, env, st, h => by simp [Denote.node]
theorem nodes_frozen (strict : Bool) : (all atStart : Bool) → (ns : Nodes) → (next : Bool) → (env : Env) → (st : St) →
    st.err = true → Denote.nodes strict all atStart ns next env st = st
  | all, atStart, .nil, next, env, st, h => by simp [Denote.nodes]
  | all, atStart, .cons n rest, next, env, st, h => by
    simp only [Denote.nodes]
    split
    · exact nodes_frozen strict all atStart rest next env st h
    · rw [node_frozen strict n _ env st h]
      exact nodes_frozen strict all false rest next env st h
end

theorem space_frozen (cur : Node) (next : Bool) (st : St) (h : st.err = true) : Denote.space cur next st = st := by
  simp [Denote.space, h]

theorem announceScripts_frozen (env : Env) (es : List Bytes) (st : St) (h : st.err = true) :
    Denote.announceScripts env es st = st := by
  simp [Denote.announceScripts, h]

/-! The relation between a failing render (left) and the same render without the failure (right). -/

/-- the two renders are at the same point, or the left one has stopped and the right one continues it -/
def R (a b : St) : Prop := a = b ∨ (a.err = true ∧ Le a b)

theorem R.refl (a : St) : R a a := Or.inl rfl

theorem R.le {a b : St} (h : R a b) : Le a b := by
  rcases h with h | h
  · subst h; exact Le.refl _
  · exact h.2

theorem R.fail_left {s b : St} (h : Le s b) : R s.fail b := Or.inr ⟨rfl, h⟩
theorem R.stick_left {s b : St} (h : Le s b) : R s.stick b := Or.inr ⟨rfl, h⟩

/-- the two sides run `f` and `g`: enough to compare them from one and the same state without error -/
theorem R.of_same {f g : St → St} (hf : ∀ s, s.err = true → f s = s) (hg : ∀ s, Le s (g s))
    (hfg : ∀ s, s.err = false → R (f s) (g s)) {a b : St} (h : R a b) : R (f a) (g b) := by
  rcases h with h | ⟨he, hl⟩
  · subst h
    cases he : a.err with
    | false => exact hfg a he
    | true => rw [hf a he]; exact Or.inr ⟨he, hg a⟩
  · rw [hf a he]; exact Or.inr ⟨he, hl.trans (hg b)⟩

theorem R.gwrite (x : Bytes) {a b : St} (h : R a b) :
    R (if a.err = true then a else a.write x) (if b.err = true then b else b.write x) := by
  refine R.of_same (f := fun s => if s.err = true then s else s.write x) (g := fun s => if s.err = true then s else s.write x)
    (fun s hs => by simp [hs]) (fun s => (Le.refl s).gwrite x) (fun s _ => R.refl _) h

theorem space_R (cur : Node) (next : Bool) {a b : St} (h : R a b) :
    R (Denote.space cur next a) (Denote.space cur next b) :=
  R.of_same (space_frozen cur next) (fun s => space_le cur next (Le.refl s)) (fun _ _ => R.refl _) h

/-- the same for a pair (the result of an else-if chain) -/
def R2 (p q : Bool × St) : Prop := p = q ∨ (p.2.err = true ∧ Le p.2 q.2)

theorem renderSegs_cons2 (c : St → St) (x y : Bytes) (rest : List Bytes) (s : St) :
    renderSegs c (x :: y :: rest) s = if s.err = true then s else renderSegs c (y :: rest) (c (s.write x)) := rfl

theorem renderSegs_R (c c' : St → St) (hc' : ∀ {a s : St}, Le a s → Le a (c' s)) (hR : ∀ {a b : St}, R a b → R (c a) (c' b)) :
    (segs : List Bytes) → {a b : St} → R a b → R (renderSegs c segs a) (renderSegs c' segs b)
  | [], a, b, h => by simpa [renderSegs] using h
  | [x], a, b, h => by rw [renderSegs, renderSegs]; exact h.gwrite x
  | x :: y :: rest, a, b, h => by
    refine R.of_same (f := renderSegs c (x :: y :: rest)) (g := renderSegs c' (x :: y :: rest))
      (fun s hs => by rw [renderSegs_cons2]; simp [hs]) (fun s => renderSegs_le c' hc' _ (Le.refl s)) (fun s hs => ?_) h
    rw [renderSegs_cons2, renderSegs_cons2]
    simp only [hs, Bool.false_eq_true, if_false]
    exact renderSegs_R c c' hc' hR (y :: rest) (hR (R.refl _))

end TemplVerif.Proofs.PrefixBase
