import TemplVerif.Drive.Common
import TemplVerif.Model.Css
import TemplVerif.Spec.CssScan
import TemplVerif.Spec.HtmlTok
namespace TemplVerif.Drive.C05
open TemplVerif TemplVerif.Drive TemplVerif.CssModel

def parseOracle (s : String) : Option (List (Bytes × Bool)) :=
  if s == "-" then some [] else
  (s.splitOn ",").mapM fun item =>
    match item.splitOn "=" with
    | [h, b] => (hexField h).map fun k => (k, b == "1")
    | _ => none

/-- Continuations used for the executable form of `DeclSafe` (the theorem quantifies over all). -/
def posts : List Bytes :=
  [[], Bytes.ofString "x:y;}", [34], [39], Bytes.ofString "*/", [41], [125], Bytes.ofString "\"}</style>", [92]]

def pairSafe (p v : Bytes) : Bool :=
  posts.all (fun post => Css.declSafeWith p v post) && !v.contains 60 && !p.contains 60

def classOf (p : Bytes) : String :=
  let p' := sanitizeProperty p
  if p' == Generated.cssInnocuousPropertyName then "invalid-name" else
  match Generated.cssSanitizers.lookup p' with
  | some fn => String.ofList (fn.map fun c => Char.ofNat c.toNat)
  | none => "unlisted"

def handle : List String → Verdict
  | ["css", pH, vH, ipH, ivH, tcH, mH, kvH, orS] =>
    match hexField pH, hexField vH, hexField ipH, hexField ivH, hexField tcH, parseOracle orS with
    | some p, some v, some ip, some iv, some tc, some orc =>
      let oracleMiss : Bool := false
      let parseOk : Bytes → Bool := fun u => (orc.lookup u).getD false
      -- monitored law of the parameter: whatever url.Parse accepts passes the modelled checks
      let lawBroken := orc.any fun (u, ok) => ok && !parseChecks u
      let (mp, mv) := sanitize parseOk p v
      let mtc := templSanitizeCSS parseOk p v
      let mitem := styleItem parseOk p v
      let m? := if mH == "ERR" then none else hexField mH
      let kv? := if kvH == "ERR" then none else hexField kvH
      let itemsOk := m? == some mitem && kv? == some mitem
      let cls := classOf p
      let kept := iv == v && ip != Generated.cssInnocuousPropertyName
      { mismatch :=
          if lawBroken then some "oracle law violated: url.Parse accepted a body that fails the modelled checks"
          else if oracleMiss then some "oracle miss"
          else if mp == ip && mv == iv && mtc == tc && itemsOk then none
          else some s!"impl=({Bytes.toHex ip},{Bytes.toHex iv}) model=({Bytes.toHex mp},{Bytes.toHex mv}) templ.SanitizeCSS impl={Bytes.toHex tc} model={Bytes.toHex mtc} styleItemsAgree={itemsOk}",
        predfail :=
          if !pairSafe ip iv then some s!"sanitised pair is not safely one declaration: {Bytes.toHex ip}:{Bytes.toHex iv}"
          -- templ.SanitizeCSS given the plain string (whatever it was given before): the declaration of a safely sanitised pair
          else if !(tc == ip ++ [58] ++ iv ++ [59]) then some s!"templ.SanitizeCSS returned {Bytes.toHex tc} for a plain string; the sanitised declaration is {Bytes.toHex (ip ++ [58] ++ iv ++ [59])}"
          else
            -- the style-attribute item as the implementation wrote it (map form and key/value form): inside style="…" it
            -- must not be able to end the attribute, and the browser must read back exactly name:value;
            let badItem := [m?, kv?].find? fun it => match it with
              | some item => item.contains 34 || item.contains 60 || item.contains 62 || item.contains 39 ||
                             Html.decodeRefs item != ip ++ [58] ++ iv ++ [59]
              | none => false
            match badItem with
            | some (some item) => some s!"style attribute item can end the attribute or does not decode to its declaration: {Bytes.toHex item}"
            | _ => none,
        nontrivial := kept && v.any (fun b => !(isAlpha b)),
        tags := ["class:" ++ cls, if kept then "kept" else "replaced"],
        sig := s!"css;{cls}" }
    | _, _, _, _, _, _ => .badOp
  | ["cssform", form, pH, vH, ipH, ivH, outS] =>
    -- the pair in another container form: sanitised like the plain map, or refused - never passed through
    match hexField pH, hexField vH, hexField ipH, hexField ivH with
    | some p, some _v, some ip, some iv =>
      let want := ip ++ [58] ++ iv ++ [59]
      let refused := Bytes.ofString "zTemplUnsupportedStyleAttributeValue:Invalid;"
      let cls := classOf p
      match (if outS == "ERR" then none else hexField outS) with
      | none => { nontrivial := false, tags := ["form:" ++ form ++ ":error"], sig := "cssform" }
      | some out =>
        { predfail := if out == refused || Html.decodeRefs out == want then none else
            some s!"style attribute value of form {form}: got {Bytes.toHex out}, neither the sanitised declaration {Bytes.toHex want} nor the refusal",
          nontrivial := out != refused, tags := ["form:" ++ form ++ (if out == refused then ":refused" else ":accepted")], sig := s!"cssform;{form};{cls}" }
    | _, _, _, _ => .badOp
  | ["cssattr", pH, vH, ipH, ivH, docH] =>
    -- `<p style={ map[string]string{p: v} }>` rendered by generated code: what a browser reads as the attribute's value
    -- (character references decoded once) is exactly `name:value;` of the sanitised pair
    match hexField pH, hexField vH, hexField ipH, hexField ivH, hexField docH with
    | some p, some _v, some ip, some iv, some doc =>
      let want := ip ++ [58] ++ iv ++ [59]
      let cls := classOf p
      match HtmlTok.tokenize doc with
      | .startTag [112] attrs false :: _ =>
        match attrs.lookup [115, 116, 121, 108, 101] with
        | some val =>
          if val == want then { nontrivial := Html.escape want != want, tags := ["style-attribute-end-to-end"], sig := s!"cssattr;{cls}" }
          else if Html.decodeRefs val == want then
            { predfail := some s!"style attribute escaped twice: the browser reads {Bytes.toHex val} where the sanitised declaration is {Bytes.toHex want} (every `;` of a character reference ends a declaration)",
              nontrivial := true, tags := ["style-attribute-end-to-end"], sig := "cssattr;escaped-twice" }
          else
            { predfail := some s!"style attribute read by the browser {Bytes.toHex val} is not the sanitised declaration {Bytes.toHex want}",
              nontrivial := true, tags := ["style-attribute-end-to-end"], sig := s!"cssattr;wrong;{cls}" }
        | none => { predfail := some "no style attribute in the rendered element", nontrivial := true, sig := "cssattr;missing" }
      | _ => { predfail := some "the rendered document does not start with the <p> element", nontrivial := true, sig := "cssattr;structure" }
    | _, _, _, _, _ => .badOp
  | ["cssc", pH, vH, docH, orS] =>
    match hexField pH, hexField vH, hexField docH, parseOracle orS with
    | some p, some v, some doc, some orc =>
      let parseOk : Bytes → Bool := fun u => (orc.lookup u).getD false
      let toks := HtmlTok.tokenize doc
      let want := templSanitizeCSS parseOk p v
      let cls := classOf p
      match toks with
      | .startTag [115, 116, 121, 108, 101] _ false :: .text t :: .endTag [115, 116, 121, 108, 101] :: .startTag [100, 105, 118] _ false :: _ =>
        -- t = ".cls_xxxx{" ++ item ++ "}"
        let body := (t.dropWhile (· != 123)).drop 1
        let item := body.take (body.length - 1)
        let (ip, iv) :=
          let name := item.takeWhile (· != 58)
          (name, ((item.drop (name.length + 1)).take (item.length - name.length - 2)))
        { mismatch := if item == want && body.getLast? == some 125 then none else
            some s!"style text item={Bytes.toHex item} model={Bytes.toHex want}",
          predfail := if pairSafe ip iv then none else some s!"css component rule text is not safely one declaration: {Bytes.toHex item}",
          nontrivial := iv == v, tags := ["cssc:" ++ cls], sig := s!"cssc;{cls}" }
      | _ => { predfail := some s!"rendered css component is not <style>…</style><div …>: the value broke out of the style element",
               nontrivial := true, tags := ["cssc:" ++ cls], sig := s!"cssc;{cls};structure" }
    | _, _, _, _ => .badOp
  | _ => .badOp

end TemplVerif.Drive.C05
