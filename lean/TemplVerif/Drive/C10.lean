import TemplVerif.Drive.Common
import TemplVerif.Model.Buf
namespace TemplVerif.Drive.C10
open TemplVerif TemplVerif.Drive TemplVerif.Buf

def isPrefix (a b : Bytes) : Bool := List.isPrefixOf a b

def handle : List String → Verdict
  | ["buf", capS, limS, zeroS, swS, silentS, opsS, gotH, resS] =>
    match capS.toNat?, hexField gotH with
    | some capN, some got =>
      let limit := if limS == "-" then none else limS.toNat?
      let u : Under := { limit := limit, zeroWrite := zeroS == "true", stringWriter := swS == "true", silent := silentS == "true" }
      let ops := opsS.splitOn ","
      let step := fun (acc : BW × List String × Bytes) (op : String) =>
        let (b, res, doc) := acc
        if op == "f" then
          let b' := b.flush
          (b', res ++ [if b'.err then "1" else "0"], doc)
        else
          match hexField (op.drop 2).toString with
          | some p =>
            let b' := if op.startsWith "w" then b.write p else b.writeString p
            (b', res ++ [if b'.err then "1" else "0"], doc ++ p)
          | none => (b, res ++ ["?"], doc)
      let (bEnd, res, doc) := ops.foldl step (({ cap := capN, u := u } : BW), [], [])
      let implRes := resS.splitOn ","
      let anyErr := implRes.contains "1"
      { mismatch := if bEnd.u.accepted == got && res == implRes then none else
          some s!"received impl={Bytes.toHex got} model={Bytes.toHex bEnd.u.accepted}; per-op errors impl={implRes} model={res}",
        predfail :=
          if !isPrefix got doc then some s!"writer received bytes that are not a prefix of what was written"
          else if !anyErr && got != doc then some s!"no error reported but the writer did not receive everything"
          else if (match limit with | some k => k < doc.length | none => false) && !anyErr then some "writer failed but no operation reported an error"
          else none,
        nontrivial := limit.isSome && doc.length > capN,
        tags := [s!"cap{capN}", if swS == "true" then "stringwriter" else "plainwriter", if zeroS == "true" then "zero-write" else "short-write"] ++ (if silentS == "true" then ["silent-writer"] else []),
        sig := "buf" }
    | _, _ => .badOp
  | ["render", comp, limS, zeroS, docH, gotH, errKind, errLine, wantLines] =>
    match hexField docH, hexField gotH with
    | some doc, some got =>
      let limit := if limS == "-" then none else limS.toNat?
      let faultHits := match limit with | some k => k < doc.length | none => false
      let lineOk := errKind != "expr" || (wantLines.splitOn ",").contains errLine
      let pred : Option String :=
        if errKind == "returned-nil-although-cancelled" then some s!"{comp}: the context was cancelled but Render returned nil ({got.length} bytes written)"
        else if !isPrefix got doc then some s!"{comp}: writer received bytes that are not a prefix of the full document"
        else if errKind == "nil" && got != doc then some s!"{comp}: Render returned nil but the writer holds {got.length} of {doc.length} bytes"
        else if faultHits && errKind == "nil" then some s!"{comp}: writer failed at offset {limS} but Render returned nil"
        else if faultHits && errKind != "writer" && errKind != "expr" && errKind != "component" then some s!"{comp}: writer fault reported as {errKind}, does not wrap the cause"
        else if !lineOk then some s!"{comp}: expression error carries line {errLine}, expression is on line(s) {wantLines}"
        else none
      { predfail := pred, nontrivial := faultHits || errKind != "nil",
        tags := ["render:" ++ comp, "err:" ++ errKind, if zeroS == "true" then "zero-write" else "short-write"], sig := s!"render;{comp};{errKind}" }
    | _, _ => .badOp
  | ["selffail", comp, okDocH, gotH, errKind] =>
    match hexField okDocH, hexField gotH with
    | some okDoc, some got =>
      { predfail :=
          if errKind == "nil" then some s!"{comp}: an expression / nested component failed but Render returned nil ({got.length} bytes written)"
          else if !isPrefix got okDoc || got == okDoc then some s!"{comp}: what was written before the failure is not a proper prefix of the document of the non-failing variant"
          else none,
        nontrivial := true, tags := ["selffail:" ++ comp], sig := s!"selffail;{comp}" }
    | _, _ => .badOp
  | ["silentw", via, sizeS, limS, zeroS, swS, outcome, wholeS] =>
    -- a writer that stops accepting bytes without reporting an error
    { predfail :=
        if outcome == "hang" then some s!"{via}: a {sizeS}-byte document to a writer that silently stops accepting after {limS} bytes (zero={zeroS}, StringWriter={swS}): the render did not return within 2 s"
        else if outcome == "nil" && wholeS != "1" then some s!"{via}: a {sizeS}-byte document to a writer that silently stops accepting after {limS} bytes (zero={zeroS}, StringWriter={swS}): Render returned nil although the writer did not get the whole document"
        else none,
      nontrivial := true, tags := ["silent-writer:" ++ outcome], sig := s!"silentw;{via};{outcome}" }
  | ["after", comp, docH, gotH, errKind] =>
    -- a healthy render right after a failed one, sharing the pools
    match hexField docH, hexField gotH with
    | some doc, some got =>
      { predfail := if errKind == "nil" && got == doc then none else
          some s!"{comp}: render after a failed render: err={errKind}, {got.length} of {doc.length} bytes",
        nontrivial := true, tags := ["after-failure:" ++ comp], sig := s!"after;{comp}" }
    | _, _ => .badOp
  | _ => .badOp

end TemplVerif.Drive.C10
