import TemplVerif.Base.Bytes
/-
Line protocol, model side. A handler gets the space-separated fields of one request and returns
a verdict: the model's view (`mismatch` when the implementation's output differs from the model's)
and the property's executable predicate evaluated on the implementation's output (`predfail`).
-/
namespace TemplVerif.Drive

structure Verdict where
  mismatch : Option String := none   -- model ≠ implementation (detail)
  predfail : Option String := none   -- property predicate false on the implementation's output (detail)
  bad : Bool := false                -- request not understood
  skipped : Bool := false            -- outside the property's quantifier (counted, not compared)
  nontrivial : Bool := false
  tags : List String := []
  sig : String := ""                 -- structural signature of a failing case (known-finding matching)

def Verdict.badOp : Verdict := { bad := true }

def hexField (s : String) : Option Bytes := Bytes.ofHex s

def natField (s : String) : Option Nat := s.toNat?

def natList (s : String) : Option (List Nat) :=
  if s == "-" then some [] else (s.splitOn ",").mapM (·.toNat?)

end TemplVerif.Drive
