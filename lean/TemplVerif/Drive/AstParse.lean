import TemplVerif.Drive.Common
import TemplVerif.Model.Ast
import TemplVerif.Model.Sem
import TemplVerif.Model.Attrs
/-
Wire format of a template body (harness/astser.go writes it from the REAL parser's tree): comma-separated tokens,
prefix notation with explicit counts; strings in hex.
-/
namespace TemplVerif.Drive.AstParse
open TemplVerif TemplVerif.Drive TemplVerif.Ast

abbrev P (α : Type) := List String → Option (α × List String)

def tok : P String
  | [] => none
  | t :: rest => some (t, rest)

def hex : P Bytes := fun ts => do
  let (t, rest) ← tok ts
  let b ← hexField t
  pure (b, rest)

def nat : P Nat := fun ts => do
  let (t, rest) ← tok ts
  let n ← t.toNat?
  pure (n, rest)

def flag : P Bool := fun ts => do
  let (n, rest) ← nat ts
  pure (n != 0, rest)

def trail : P Trail := fun ts => do
  let (n, rest) ← nat ts
  pure ((match n with | 0 => Trail.none | 1 => Trail.horiz | _ => Trail.vert), rest)

def many (p : P α) : Nat → P (List α)
  | 0 => fun ts => some ([], ts)
  | n + 1 => fun ts => do
    let (a, ts) ← p ts
    let (as, ts) ← many p n ts
    pure (a :: as, ts)

def counted (p : P α) : P (List α) := fun ts => do
  let (n, ts) ← nat ts
  many p n ts

partial def attr : P Attr := fun ts => do
  let (k, ts) ← tok ts
  match k with
  | "BC" => let (n, ts) ← hex ts; pure (.boolConst n, ts)
  | "CA" => let (n, ts) ← hex ts; let (v, ts) ← hex ts; let (q, ts) ← flag ts; pure (.const n v q, ts)
  | "BE" => let (n, ts) ← hex ts; let (e, ts) ← hex ts; pure (.boolExpr n e, ts)
  | "EA" => let (n, ts) ← hex ts; let (e, ts) ← hex ts; pure (.expr n e, ts)
  | "SP" => let (e, ts) ← hex ts; pure (.spread e, ts)
  | "CO" =>
    let (e, ts) ← hex ts
    let (thn, ts) ← counted attr ts
    let (els, ts) ← counted attr ts
    pure (.cond e (Attrs.ofList thn) (Attrs.ofList els), ts)
  | _ => none

def scriptPart : P ScriptPart := fun ts => do
  let (k, ts) ← tok ts
  match k with
  | "SV" => let (v, ts) ← hex ts; pure (.js v, ts)
  | "SG" => let (e, ts) ← hex ts; let (i, ts) ← flag ts; let (t, ts) ← hex ts; pure (.go e i t, ts)
  | _ => none

def elseIfsOf : List (Bytes × List Node) → ElseIfs
  | [] => .nil
  | (e, ns) :: rest => .cons e (Nodes.ofList ns) (elseIfsOf rest)

def casesOf : List (Bytes × List Node) → Cases
  | [] => .nil
  | (e, ns) :: rest => .cons e (Nodes.ofList ns) (casesOf rest)

partial def node : P Node := fun ts => do
  let (k, ts) ← tok ts
  match k with
  | "DT" => let (v, ts) ← hex ts; pure (.doctype v, ts)
  | "EL" =>
    let (n, ts) ← hex ts
    let (as, ts) ← counted attr ts
    let (cs, ts) ← counted node ts
    let (t, ts) ← trail ts
    let (ia, ts) ← flag ts
    let (ic, ts) ← flag ts
    pure (.element n (Attrs.ofList as) (Nodes.ofList cs) t ia ic, ts)
  | "HC" => let (c, ts) ← hex ts; pure (.htmlComment c, ts)
  | "CH" => pure (.children, ts)
  | "RE" => let (n, ts) ← hex ts; let (as, ts) ← counted attr ts; let (c, ts) ← hex ts; pure (.raw n (Attrs.ofList as) c, ts)
  | "SE" => let (as, ts) ← counted attr ts; let (ps, ts) ← counted scriptPart ts; pure (.script (Attrs.ofList as) ps, ts)
  | "FO" => let (e, ts) ← hex ts; let (cs, ts) ← counted node ts; pure (.forE e (Nodes.ofList cs), ts)
  | "CT" => let (e, ts) ← hex ts; pure (.call e, ts)
  | "TE" => let (e, ts) ← hex ts; let (cs, ts) ← counted node ts; pure (.templEl e (Nodes.ofList cs), ts)
  | "IF" =>
    let (e, ts) ← hex ts
    let (thn, ts) ← counted node ts
    let (elifs, ts) ← counted (fun ts => do let (e, ts) ← hex ts; let (ns, ts) ← counted node ts; pure ((e, ns), ts)) ts
    let (els, ts) ← counted node ts
    pure (.ifE e (Nodes.ofList thn) (elseIfsOf elifs) (Nodes.ofList els), ts)
  | "SW" =>
    let (e, ts) ← hex ts
    let (cs, ts) ← counted (fun ts => do let (e, ts) ← hex ts; let (ns, ts) ← counted node ts; pure ((e, ns), ts)) ts
    pure (.switchE e (casesOf cs), ts)
  | "SX" => let (e, ts) ← hex ts; let (t, ts) ← trail ts; pure (.strExpr e t, ts)
  | "GC" => let (e, ts) ← hex ts; let (t, ts) ← trail ts; let (m, ts) ← flag ts; pure (.goCode e t m, ts)
  | "WS" => let (v, ts) ← hex ts; pure (.ws v, ts)
  | "TX" => let (v, ts) ← hex ts; let (t, ts) ← trail ts; pure (.text v t, ts)
  | "GM" => let (c, ts) ← hex ts; let (m, ts) ← flag ts; pure (.goComment c m, ts)
  | _ => none

/-- A template body: `n,node,…`. -/
def body (s : String) : Option Nodes := do
  let (ns, rest) ← counted node (s.splitOn ",")
  if rest.isEmpty then pure (Nodes.ofList ns) else none

/-! Environment: `hexExpr:keys:val;…` -/
open TemplVerif.Sem

def keysOf (s : String) : Option (List Bytes) :=
  if s == "~" then some [] else (s.splitOn ".").mapM hexField

def bindingOf (s : String) : Option (List (Bytes × Bytes)) :=
  if s == "~" then some [] else
  (s.splitOn "&").mapM fun kv => match kv.splitOn "=" with
    | [k, v] => do let k ← hexField k; let v ← hexField v; pure (k, v)
    | _ => none

/-- spread attributes as the map the oracle built (`key~kind~value` items joined by `+`); what they render is computed
    by the Lean model of templ.RenderAttributes (Model/Attrs.lean), not taken from the implementation -/
def spreadOf (enc : String) : Option (List (Bytes × Attrs.AttrVal)) :=
  if enc == "-" then some [] else
  (enc.splitOn "+").mapM fun item => match item.splitOn "~" with
    | [k, "s", v] => do let k ← hexField k; let v ← hexField v; pure (k, .str v)
    | [k, "sp", v] => do let k ← hexField k; let v ← hexField v; pure (k, .strPtr (some v))
    | [k, "spn"] => do let k ← hexField k; pure (k, .strPtr none)
    | [k, "b", b] => do let k ← hexField k; pure (k, .bool (b == "1"))
    | [k, "bp", b] => do let k ← hexField k; pure (k, .boolPtr (some (b == "1")))
    | [k, "bpn"] => do let k ← hexField k; pure (k, .boolPtr none)
    | _ => none

def valOf (s : String) : Option Val :=
  match s.splitOn "/" with
  | ["S", v, e] => do let v ← hexField v; pure (.str v (e != "0"))
  | ["B", b] => some (.bool (b != "0"))
  | ["I", n, its] => do
    let n ← n.toNat?
    if n == 0 then pure (.iters []) else
    let bs ← (its.splitOn "+").mapM bindingOf
    pure (.iters bs)
  | ["M", ls] => do let ls ← (ls.splitOn "+").mapM hexField; pure (.caseLits ls)
  | ["D"] => some .caseDefault
  | ["C", e, segs] => do let ss ← (segs.splitOn "+").mapM hexField; pure (.comp ss (e != "0"))
  | ["R", v, e] => do let v ← hexField v; pure (.rawOut v (e != "0"))
  | ["RA", enc] => do let as ← spreadOf enc; pure (.rawOut (Attrs.renderAttributes as) false)
  | ["X", n, f, c] => do let n ← hexField n; let f ← hexField f; let c ← hexField c; pure (.script n f c)
  | ["L", c] => do let c ← hexField c; pure (.classes c)
  | ["J", o, i, e] => do let o ← hexField o; let i ← hexField i; pure (.jsVal o i (e != "0"))
  | ["U"] => some .unit
  | _ => none

def env (s : String) : Option Env :=
  if s == "-" then some [] else
  (s.splitOn ";").mapM fun ent => match ent.splitOn ":" with
    | [e, ks, v] => do
      let e ← hexField e
      let ks ← keysOf ks
      let v ← valOf v
      pure (e, { keys := ks, val := v })
    | _ => none

end TemplVerif.Drive.AstParse

namespace TemplVerif.Drive.AstParse
open TemplVerif TemplVerif.Ast

/-! Apply a function to every Go expression text of a tree (used to compare expression texts modulo blanks). -/
mutual
def mapAttr (f : Bytes → Bytes) : Attr → Attr
  | .boolExpr n e => .boolExpr n (f e)
  | .expr n e => .expr n (f e)
  | .spread e => .spread (f e)
  | .cond e thn els => .cond (f e) (mapAttrs f thn) (mapAttrs f els)
  | a => a
def mapAttrs (f : Bytes → Bytes) : Attrs → Attrs
  | .nil => .nil
  | .cons a as => .cons (mapAttr f a) (mapAttrs f as)
end

def mapPart (f : Bytes → Bytes) : ScriptPart → ScriptPart
  | .go e i t => .go (f e) i t
  | p => p

mutual
def mapNode (f : Bytes → Bytes) : Node → Node
  | .element n as cs t ia ic => .element n (mapAttrs f as) (mapNodes f cs) t ia ic
  | .raw n as c => .raw n (mapAttrs f as) c
  | .script as ps => .script (mapAttrs f as) (ps.map (mapPart f))
  | .forE e b => .forE (f e) (mapNodes f b)
  | .call e => .call (f e)
  | .templEl e b => .templEl (f e) (mapNodes f b)
  | .ifE e thn elifs els => .ifE (f e) (mapNodes f thn) (mapElseIfs f elifs) (mapNodes f els)
  | .switchE e cs => .switchE (f e) (mapCases f cs)
  | .strExpr e t => .strExpr (f e) t
  | .goCode e t m => .goCode (f e) t m
  | n => n
def mapNodes (f : Bytes → Bytes) : Nodes → Nodes
  | .nil => .nil
  | .cons n ns => .cons (mapNode f n) (mapNodes f ns)
def mapElseIfs (f : Bytes → Bytes) : ElseIfs → ElseIfs
  | .nil => .nil
  | .cons e thn rest => .cons (f e) (mapNodes f thn) (mapElseIfs f rest)
def mapCases (f : Bytes → Bytes) : Cases → Cases
  | .nil => .nil
  | .cons e b rest => .cons (f e) (mapNodes f b) (mapCases f rest)
end

/-- Go source text without blanks (what gofmt may change inside an expression: spacing and line breaks). -/
def noBlanks (e : Bytes) : Bytes := e.filter fun b => !(b == 32 || b == 9 || b == 10 || b == 13)

end TemplVerif.Drive.AstParse

namespace TemplVerif.Drive.AstParse
open TemplVerif TemplVerif.Ast

/-! Whitespace node values written as one blank (the printer model does not look at them). -/
mutual
def mapWsNode : Node → Node
  | .element n as cs t ia ic => .element n as (mapWs cs) t ia ic
  | .forE e b => .forE e (mapWs b)
  | .templEl e b => .templEl e (mapWs b)
  | .ifE e thn elifs els => .ifE e (mapWs thn) (mapWsElifs elifs) (mapWs els)
  | .switchE e cs => .switchE e (mapWsCases cs)
  | .ws _ => .ws [32]
  | n => n
def mapWs : Nodes → Nodes
  | .nil => .nil
  | .cons n ns => .cons (mapWsNode n) (mapWs ns)
def mapWsElifs : ElseIfs → ElseIfs
  | .nil => .nil
  | .cons e thn rest => .cons e (mapWs thn) (mapWsElifs rest)
def mapWsCases : Cases → Cases
  | .nil => .nil
  | .cons e b rest => .cons e (mapWs b) (mapWsCases rest)
end

end TemplVerif.Drive.AstParse

namespace TemplVerif.Drive.AstParse
open TemplVerif TemplVerif.Ast

/-! Every Go expression text of a tree, in order (to see whether the formatter re-spaced any of them). -/
mutual
def attrExprs : Attr → List Bytes
  | .boolExpr _ e => [e]
  | .expr _ e => [e]
  | .spread e => [e]
  | .cond e thn els => e :: (attrsExprs thn ++ attrsExprs els)
  | _ => []
def attrsExprs : Attrs → List Bytes
  | .nil => []
  | .cons a as => attrExprs a ++ attrsExprs as
end

mutual
def nodeExprs : Node → List Bytes
  | .element _ as cs _ _ _ => attrsExprs as ++ nodesExprs cs
  | .raw _ as _ => attrsExprs as
  | .script as _ => attrsExprs as
  | .forE e b => e :: nodesExprs b
  | .call e => [e]
  | .templEl e b => e :: nodesExprs b
  | .ifE e thn elifs els => e :: (nodesExprs thn ++ elifsExprs elifs ++ nodesExprs els)
  | .switchE e cs => e :: casesExprs cs
  | .strExpr e _ => [e]
  | .goCode e _ _ => [e]
  | _ => []
def nodesExprs : Nodes → List Bytes
  | .nil => []
  | .cons n ns => nodeExprs n ++ nodesExprs ns
def elifsExprs : ElseIfs → List Bytes
  | .nil => []
  | .cons e thn rest => e :: (nodesExprs thn ++ elifsExprs rest)
def casesExprs : Cases → List Bytes
  | .nil => []
  | .cons e b rest => e :: (nodesExprs b ++ casesExprs rest)
end

end TemplVerif.Drive.AstParse
