import TemplVerif.Drive.Common
namespace TemplVerif.Drive.C14
open TemplVerif TemplVerif.Drive

def handle : List String → Verdict
  | ["conc", mode, rendersS, mismS, firstH, racesS, raceH] =>
    let renders := rendersS.toNat?.getD 0
    let mism := mismS.toNat?.getD 1
    let races := racesS.toNat?.getD 1
    let dec := fun (h : String) => match hexField h with | some b => String.ofList (b.map fun (c : UInt8) => Char.ofNat c.toNat) | none => h
    { predfail :=
        if races > 0 then some s!"{mode}: the race detector reported {races} data race(s) / a fatal runtime error: {(dec raceH).take 600}"
        else if mism > 0 then some s!"{mode}: {mism} of {renders} concurrent renders differ from the render alone: {dec firstH}"
        else if renders == 0 then some s!"{mode}: the concurrent run did not complete"
        else none,
      nontrivial := renders > 100, tags := ["conc:" ++ mode], sig := "conc;" ++ mode ++ (if races > 0 then ";race" else if mism > 0 then ";mismatch" else "") }
  | _ => .badOp

end TemplVerif.Drive.C14
