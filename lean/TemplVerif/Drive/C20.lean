import TemplVerif.Drive.Common
import TemplVerif.Model.Proxy
import TemplVerif.Model.Html
namespace TemplVerif.Drive.C20
open TemplVerif TemplVerif.Drive TemplVerif.Proxy

/-- x/net/html attribute-value escaping when rendering: & ' < > " and CR. -/
def renderEscape : Bytes → Bytes
  | [] => []
  | 13 :: rest => [38, 35, 49, 51, 59] ++ renderEscape rest
  | b :: rest => Html.escapeByte b ++ renderEscape rest

def scriptTag : Bytes := Bytes.ofString "<script src=\"/_templ/reload/script.js\"></script>"
def scriptTagNonce (n : Bytes) : Bytes :=
  Bytes.ofString "<script src=\"/_templ/reload/script.js\" nonce=\"" ++ renderEscape n ++ Bytes.ofString "\"></script>"

/-- Replace the LAST occurrence of `pat` in `s`. -/
def replaceLast (pat by_ s : Bytes) : Bytes :=
  let rec go (fuel : Nat) (i : Nat) : Option Nat :=
    match fuel with
    | 0 => none
    | fuel + 1 => if List.isPrefixOf pat (s.drop i) then some i else if i == 0 then none else go fuel (i - 1)
  match go (s.length + 1) (s.length - pat.length) with
  | some i => s.take i ++ by_ ++ s.drop (i + pat.length)
  | none => s

def handle : List String → Verdict
  | ["mod", skipH, ctH, encH, cspH, hxS, wireH, origDecS, insS, statusS, rEncH, rCLH, rWireH, rDecS, rCtH, stableS] =>
    match hexField skipH, hexField ctH, hexField encH, hexField cspH, hexField wireH, hexField rEncH, hexField rCLH, hexField rWireH, hexField rCtH with
    | some skip, some ct, some enc, some csp, some wire, some rEnc, some rCL, some rWire, some rCt =>
      let origDec : Option Bytes := if origDecS == "UNDECODABLE" then none else hexField origDecS
      let insNoNonce : Option Bytes := if insS == "NONE" then none else hexField insS
      let rDec : Option Bytes := if rDecS == "UNDECODABLE" then none else hexField rDecS
      let nonce := parseNonce csp
      let insert : Bytes → Bytes → Option Bytes := fun n _doc =>
        insNoNonce.map fun d => if n.isEmpty then d else replaceLast scriptTag (scriptTagNonce n) d
      -- symbolic codecs: decoding the upstream wire bytes gives the harness-decoded document; encoding is the identity,
      -- so the model's output body is the DECODED document the browser must see
      let dec : Bytes → Option Bytes := fun b => if b == wire then origDec else none
      let env : Env := { insert := insert, gzipDec := dec, gzipEnc := id, brDec := dec, brEnc := id }
      let skipAfter := afterRoundTrip (if hxS == "true" then trueLit else []) skip
      let r : Resp := { skipModify := skipAfter, contentType := ct, contentEncoding := enc, csp := csp, body := wire, contentLength := some wire.length }
      let status := statusS.toNat?.getD 0
      let clOk := rCL == Bytes.ofString (toString rWire.length)
      -- with no upstream Content-Type, net/http's server in front of the proxy sniffs one: not the proxy's doing
      let rCt := if ct.isEmpty then ct else rCt
      match Proxy.modify env r with
      | .error =>
        { mismatch := if status == 502 then none else some s!"model: modifyResponse fails (undecodable body) but status={status}",
          nontrivial := true, tags := ["error"], sig := "mod;error" }
      | .resp r' =>
        let passthrough := r' == r
        if passthrough then
          let same := status == 200 && rWire == wire && rEnc == enc && clOk && rCt == ct
          let why := if skipAfter == trueLit then "skip" else if !isHtml ct then "non-html" else "unsupported-encoding"
          { mismatch := if same then none else some s!"model: pass-through ({why}) but the response differs: status={status} bodySame={rWire == wire} enc={Bytes.toHex rEnc} clOk={clOk}",
            predfail := if same then none else some s!"pass-through response ({why}) was altered",
            nontrivial := why != "non-html" || enc != [], tags := ["passthrough:" ++ why], sig := s!"mod;passthrough;{why}" }
        else
          -- modified: the decoded body must be the model's (identity-encoded) body
          let decodedOk := rDec == some r'.body
          let inserted := (insert nonce (origDec.getD [])).isSome
          let ok := status == 200 && decodedOk && rEnc == enc && clOk && rCt == ct
          { mismatch := if ok then none else
              some s!"model: rewritten (script inserted={inserted}, nonce={Bytes.toHex nonce}) but status={status} decodedOk={decodedOk} encSame={rEnc == enc} clOk={clOk}; want={Bytes.toHex (r'.body.take 400)} got={Bytes.toHex ((rDec.getD []).take 400)}",
            predfail := if ok && stableS == "1" then none else some s!"html response: decoded body / Content-Length / Content-Encoding wrong (decodedOk={decodedOk} clOk={clOk} encSame={rEnc == enc} renderStable={stableS})",
            nontrivial := true,
            tags := ["rewritten:" ++ (if enc.isEmpty then "identity" else String.ofList (enc.map fun c => Char.ofNat c.toNat)),
                     if inserted then "script-inserted" else "no-body", if nonce.isEmpty then "no-nonce" else "nonce"],
            sig := "mod;rewritten" }
    | _, _, _, _, _, _, _, _, _ => .badOp
  | ["overlap", tag, encH, wantLen, wantSum, gotLen, gotSum, statusS, rEncH, rCLH, wireLen] =>
    -- overlapping responses: each must be exactly what it would be alone (bodies compared by length and SHA-256,
    -- computed by the harness)
    match hexField encH, hexField rEncH, hexField rCLH with
    | some enc, some rEnc, some rCL =>
      let ok := statusS == "200" && wantLen == gotLen && wantSum == gotSum && rEnc == enc && rCL == Bytes.ofString wireLen
      { mismatch := if ok then none else some s!"overlapping response differs from the response alone: len {gotLen} vs {wantLen}, digest equal={wantSum == gotSum}, status {statusS}",
        predfail := if ok then none else some s!"{tag}: decoded body is not the document + script (len {gotLen} vs {wantLen}; Content-Length ok={rCL == Bytes.ofString wireLen})",
        nontrivial := true, tags := [tag], sig := "overlap" }
    | _, _, _ => .badOp
  | ["big", encH, sizeS, statusS, encKeptS, clOKS, decOKS, sameS, obsTailH, wantTailH] =>
    match hexField encH, hexField obsTailH, hexField wantTailH with
    | some enc, some obsTail, some wantTail =>
      let show' := fun (b : Bytes) => String.ofList (b.map fun (c : UInt8) => Char.ofNat c.toNat)
      { predfail :=
          if statusS != "200" then some s!"{sizeS}-byte document ({show' enc}): status {statusS}"
          else if encKeptS != "1" then some s!"{sizeS}-byte document: the Content-Encoding header no longer names the encoding of the body"
          else if clOKS != "1" then some s!"{sizeS}-byte document ({show' enc}): Content-Length differs from the bytes sent"
          else if decOKS != "1" then some s!"{sizeS}-byte document ({show' enc}): the body does not decode under its Content-Encoding"
          else if sameS != "1" then some s!"{sizeS}-byte document ({show' enc}): the decoded body is not the document with the reload script appended; it ends …{show' (obsTail.drop (obsTail.length - 120))} instead of …{show' (wantTail.drop (wantTail.length - 120))}"
          else none,
        nontrivial := true, tags := ["big-document"], sig := "big" }
    | _, _, _ => .badOp
  | _ => .badOp

end TemplVerif.Drive.C20
