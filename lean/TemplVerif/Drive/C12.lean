import TemplVerif.Drive.Common
import TemplVerif.Model.Registry
namespace TemplVerif.Drive.C12
open TemplVerif TemplVerif.Drive TemplVerif.Registry

def natsDot (s : String) : Option (List Nat) := if s == "-" || s == "" then some [] else (s.splitOn ".").mapM (·.toNat?)

def takeNat (cs : List Char) : Option (Nat × List Char) :=
  let ds := cs.takeWhile Char.isDigit
  if ds.isEmpty then none else (String.ofList ds).toNat?.map fun n => (n, cs.drop ds.length)

mutual
  def parseItem : Nat → List Char → Option (ClassItem × List Char)
    | 0, _ => none
    | fuel + 1, cs =>
      match cs with
      | 'c' :: r => (takeNat r).map fun (n, r') => (.comp n, r')
      | 'k' :: r => (takeNat r).bind fun (n, r') => match r' with | 't' :: r'' => some (.kvComp n true, r'') | 'f' :: r'' => some (.kvComp n false, r'') | _ => none
      | 'i' :: r => (takeNat r).bind fun (n, r') => match r' with | 't' :: r'' => some (.kvIface n true, r'') | 'f' :: r'' => some (.kvIface n false, r'') | _ => none
      | 'a' :: r => (takeNat r).bind fun (n, r') => match r' with
          | 't' :: '.' :: r'' => (takeNat r'').map fun (b, r3) => (.kvSlice n true b, r3)
          | 'f' :: '.' :: r'' => (takeNat r'').map fun (b, r3) => (.kvSlice n false b, r3)
          | _ => none
      | 'f' :: r => (takeNat r).map fun (n, r') => (.fn n, r')
      | 'n' :: r => (takeNat r).map fun (n, r') => (.const n, r')
      | 's' :: r => (takeNat r).bind fun (a, r') => match r' with
          | '.' :: r'' => (takeNat r'').map fun (b, r3) => (.slice [a, b], r3)
          | _ => none
      | 'L' :: '(' :: r => (parseItems fuel r).bind fun (items, r') => match r' with | ')' :: r'' => some (.classes items, r'') | _ => none
      | _ => none
  def parseItems : Nat → List Char → Option (List ClassItem × List Char)
    | 0, _ => none
    | fuel + 1, cs =>
      (parseItem fuel cs).bind fun (i, r) =>
        match r with
        | '+' :: r' => (parseItems fuel r').map fun (rest, r'') => (i :: rest, r'')
        | _ => some ([i], r)
end

def parseUse (s : String) : Option Use :=
  match s.splitOn ":" with
  | ["sc", n, c] => n.toNat?.map fun n => .scriptComponent n (c == "t")
  | ["sa", ns] => (natsDot ns).map .scriptAttrs
  | ["on", h] => h.toNat?.map .once
  | "ca" :: rest =>
    let body := String.intercalate ":" rest
    match parseItems (body.length + 1) body.toList with
    | some (items, []) => some (.classAttr items)
    | _ => none
  | _ => none

def parseEvent (s : String) : Option Event :=
  match s.splitOn ":" with
  | ["D", ns] => (natsDot ns).map .scriptDef
  | ["C", n] => n.toNat?.map .scriptCall
  | ["S", ns] => (natsDot ns).map .styleDef
  | ["N", n] => n.toNat?.map .className
  | ["O", h] => h.toNat?.map .onceContent
  | _ => none

def showEvent : Event → String
  | .scriptDef ns => "D:" ++ String.intercalate "." (ns.map toString)
  | .scriptCall n => s!"C:{n}"
  | .styleDef ns => "S:" ++ String.intercalate "." (ns.map toString)
  | .className n => s!"N:{n}"
  | .onceContent h => s!"O:{h}"

def showEvents (es : List Event) : String := String.intercalate "," (es.map showEvent)

def parseEvents (s : String) : Option (List Event) := if s == "-" then some [] else (s.splitOn ",").mapM parseEvent

/-- Property, evaluated on the implementation's events: every definition at most once, at or before the first use,
    every use present, registered classes never inlined. -/
def propertyHolds (registered : List Nat) (uses : List Use) (es : List Event) : Option String :=
  let ids := [1, 2, 3, 4]
  let multiScript := ids.filter fun n => defsOfScript n es > 1
  let multiClass := ids.filter fun n => defsOfClass n es > 1
  let multiOnce := [1, 2, 3].filter fun h => oncesOf h es > 1
  -- a once handle that is used gets its content (exactly once: at most once is `multiOnce`)
  let usedOnce := (uses.filterMap fun u => match u with | .once h => some h | _ => none).eraseDups
  let missingOnce := usedOnce.filter fun h => oncesOf h es == 0
  let inlinedRegistered := registered.filter fun id => defsOfClass id es > 0
  let firstIdx := fun (p : Event → Bool) => es.findIdx? p
  let lateScript := ids.filter fun n =>
    match firstIdx (fun e => e == .scriptCall n), firstIdx (fun e => match e with | .scriptDef ns => ns.contains n | _ => false) with
    | some u, some d => d > u
    | some _, none => true
    | none, _ => false
  let lateClass := ids.filter fun id => !registered.contains id &&
    match firstIdx (fun e => e == .className id), firstIdx (fun e => match e with | .styleDef is => is.contains id | _ => false) with
    | some u, some d => d > u
    | some _, none => true
    | none, _ => false
  -- every use emits its call / class names
  let wantCalls := uses.flatMap fun u => match u with | .scriptComponent n true => [n] | .scriptAttrs ns => ns | _ => []
  let gotCalls := es.filterMap fun e => match e with | .scriptCall n => some n | _ => none
  let wantNames := uses.flatMap fun u => match u with | .classAttr items => classNames items | _ => []
  let gotNames := es.filterMap fun e => match e with | .className n => some n | _ => none
  -- the same definition twice inside ONE <script> / <style> element
  let dupWithin := es.any fun e => match e with
    | .scriptDef ns => ns.eraseDups.length != ns.length
    | .styleDef is => is.eraseDups.length != is.length
    | _ => false
  if dupWithin then some "a script / CSS definition is emitted twice within one element"
  else if !multiScript.isEmpty then some s!"script definition emitted more than once: {multiScript}"
  else if !multiClass.isEmpty then some s!"CSS rule emitted more than once: {multiClass}"
  else if !multiOnce.isEmpty then some s!"once content emitted more than once: {multiOnce}"
  else if !missingOnce.isEmpty then some s!"once handle used but its content never emitted: {missingOnce}"
  else if !inlinedRegistered.isEmpty then some s!"class registered with the middleware was inlined: {inlinedRegistered}"
  else if !lateScript.isEmpty then some s!"script used before (or without) its definition: {lateScript}"
  else if !lateClass.isEmpty then some s!"class name used before (or without) its rule: {lateClass}"
  else if wantCalls != gotCalls then some s!"script calls {gotCalls}, expected {wantCalls}"
  else if wantNames != gotNames then some s!"class names {gotNames}, expected {wantNames}"
  else none

def handle : List String → Verdict
  | ["hist", regS, usesS, evS] =>
    match natsDot regS, (usesS.splitOn ";").mapM parseUse, parseEvents evS with
    | some reg, some uses, some es =>
      let model := (run (middlewareCtx reg) uses).2
      { mismatch := if model == es then none else some s!"events impl={evS} model={showEvents model}",
        predfail := propertyHolds reg uses es,
        nontrivial := uses.length > 2, tags := [if reg.isEmpty then "plain-context" else "middleware"], sig := "hist" }
    | _, _, _ => .badOp
  | ["alias", order, outH] =>
    match hexField outH with
    | some out =>
      let fns := Bytes.countInfix (Bytes.ofString "function tooltip(") out
      let rules := Bytes.countInfix (Bytes.ofString ".tooltip{") out
      { predfail := if fns == 1 && rules == 1 then none else
          some s!"a script and a CSS class with the same identifier ({order}): {fns} function definition(s) and {rules} rule(s) emitted, one of each expected",
        nontrivial := true, tags := ["alias"], sig := "alias" }
    | none => .badOp
  | ["scriptname", _aH, _bH, naH, nbH, sameFnS, sameBodyS] =>
    match hexField naH, hexField nbH with
    | some na, some nb =>
      let sameFn := sameFnS == "1"
      -- one name, one function: otherwise the second template's definition is never emitted and its calls run the first's
      { predfail := if na == nb && !sameFn then some "two script templates that are different functions get the same function name"
                    else none,
        nontrivial := na == nb, tags := ["scriptname"],
        sig := "scriptname" ++ (if na == nb && !sameFn && sameBodyS == "1" then ";same-body-different-parameters"
                                else if na == nb && !sameFn then ";digest-collision" else "") }
    | _, _ => .badOp
  | ["stylesheet", regS, servedS] =>
    match natsDot regS, natsDot servedS with
    | some reg, some served =>
      { predfail := if reg == served then none else some s!"stylesheet endpoint serves {served}, registered {reg}",
        nontrivial := !reg.isEmpty, tags := ["stylesheet"], sig := "stylesheet" }
    | _, _ => .badOp
  | ["before", name, tagH, needlesS, docH] =>
    match hexField tagH, (needlesS.splitOn ";").mapM hexField, hexField docH with
    | some tag, some needles, some doc =>
      let idxOf := fun (pat : Bytes) =>
        let rec goB (fuel i : Nat) (b : Bytes) : Option Nat :=
          match fuel, b with
          | 0, _ => none
          | _, [] => none
          | fuel + 1, x :: rest => if List.isPrefixOf pat (x :: rest) then some i else goB fuel (i + 1) rest
        goB (doc.length + 1) 0 doc
      let missing := needles.filter fun n => match idxOf n, idxOf tag with | some a, some t => !(a < t) | _, _ => true
      { predfail := if missing.isEmpty then none else
          some s!"{name}: the element is rendered without its definitions in front of it: {missing.map fun m => String.ofList (m.map fun c => Char.ofNat c.toNat)} not found before the tag",
        nontrivial := true, tags := ["before:" ++ name], sig := "before;" ++ name }
    | _, _, _ => .badOp
  | ["hoist", cS, dS, docH] =>
    match hexField docH with
    | some doc =>
      let c := cS == "t"
      let d := dS == "t"
      let has := fun (s : String) => Bytes.hasInfix (Bytes.ofString s) doc
      let idx := fun (s : String) =>
        let pat := Bytes.ofString s
        let rec go (fuel i : Nat) (b : Bytes) : Option Nat :=
          match fuel, b with
          | 0, _ => none
          | _, [] => none
          | fuel + 1, x :: rest => if List.isPrefixOf pat (x :: rest) then some i else go fuel (i + 1) rest
        go (doc.length + 1) 0 doc
      -- the function used by the branch taken must be defined before the <button / <span that calls it
      let fnA := "function __templ_fixA"
      let fnB := "function __templ_fixB"
      let fnC := "function __templ_fixC"
      let needC := !c
      let okA := match idx fnA, idx "<span" with | some a, some s => a < s | _, _ => false
      let okB := !needC || (match idx fnC, idx "<button" with | some b, some t => b < t | _, _ => false)
      let okNested := !(c && d) || (match idx fnB, idx "<button" with | some b, some t => b < t | _, _ => false)
      let styleBefore := match idx "<style", idx "<button" with | some s, some t => s < t | _, _ => false
      let _ := has
      { predfail := if okA && okB && okNested && styleBefore then none else
          some s!"hoisting: fixA defined before use={okA} fixC (only in an else branch)={okB} nested={okNested} style before element={styleBefore}",
        nontrivial := true, tags := ["hoist"], sig := "hoist" }
    | none => .badOp
  | _ => .badOp

end TemplVerif.Drive.C12
