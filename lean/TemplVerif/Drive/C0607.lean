import TemplVerif.Drive.Common
import TemplVerif.Model.SourceMap
namespace TemplVerif.Drive.C0607
open TemplVerif TemplVerif.Drive TemplVerif.Pos TemplVerif.SourceMap

def parsePos (s : String) : Option Pos :=
  match (s.splitOn ",").mapM (·.toNat?) with
  | some [i, l, c] => some ⟨i, l, c⟩
  | _ => none

structure ExprRec where
  path : String
  value : Bytes
  from_ : Pos
  to : Pos

def parseExprs (s : String) : Option (List ExprRec) :=
  if s == "-" then some [] else
  (s.splitOn ";").mapM fun item =>
    match item.splitOn "|" with
    | [ph, vh, f, t] => do
      let p ← hexField ph
      let v ← hexField vh
      let f ← parsePos f
      let t ← parsePos t
      pure { path := String.ofList (p.map fun c => Char.ofNat c.toNat), value := v, from_ := f, to := t }
    | _ => none

def parseEntries (s : String) : Option (List Entry) :=
  if s == "-" then some [] else
  (s.splitOn ";").mapM fun item =>
    match item.splitOn "=" with
    | [k, v] =>
      match (k.splitOn ":").mapM (·.toNat?), parsePos v with
      | some [l, c], some p => some ⟨l, c, p⟩
      | _, _ => none
    | _ => none

/-- Parser error texts end in "line N, col M" (1-based line in some messages; checked loosely: the numbers must
    not exceed the input's line count + 1 / longest line + 1). -/
def errPosInBounds (src : Bytes) (err : Bytes) : Bool :=
  let txt := String.ofList (err.map fun c => Char.ofNat c.toNat)
  -- the structured position, when the error is a parse error: inside the input, line and column agreeing with the index
  let structured : Bool :=
    match (txt.splitOn " @@").getLast?.bind (fun t => if (txt.splitOn " @@").length < 2 then none else parsePos t) with
    | some p => p.index ≤ src.length && decide (positionAt src p.index = p)
    | none => true
  structured &&
  match (txt.splitOn "line ").getLast? with
  | none => true
  | some tail =>
    if (txt.splitOn "line ").length < 2 then true else
    let num := (tail.toList.takeWhile Char.isDigit)
    match (String.ofList num).toNat? with
    | none => true
    | some n => n ≤ (src.count 10) + 2

def handleC06 : List String → Verdict
  | ["pos", sH, iS, pS] =>
    match hexField sH, iS.toNat?, parsePos pS with
    | some s, some i, some p =>
      let m := positionAt s i
      let spec : Pos := ⟨i, lineOf s i, i - lineStart s i⟩
      { mismatch := if m == p then none else some s!"impl={pS} model={m.index},{m.line},{m.col}",
        predfail := if p == spec then none else some s!"PositionAt({i}) = {pS}, want line {spec.line} col {spec.col}",
        nontrivial := s.contains 10, tags := ["pos"], sig := "pos" }
    | _, _, _ => .badOp
  | ["file", origin, srcH, outcome, errH, slow, accepted, exS, nmS] =>
    match hexField srcH, hexField errH, parseExprs exS, parseExprs nmS with
    | some src, some err, some exprs, some names =>
      if outcome == "panic" then { predfail := some s!"parser panicked: {String.ofList (err.map fun c => Char.ofNat c.toNat)}", nontrivial := true, tags := [origin, "panic"], sig := "file;panic" }
      else if outcome == "timeout" || slow == "1" then { predfail := some "parser did not return promptly", nontrivial := true, tags := [origin, "slow"], sig := "file;timeout" }
      else if outcome == "err" then
        { predfail := if errPosInBounds src err then none else some "error position outside the input",
          nontrivial := true, tags := [origin, "parse-error"], sig := "file;errpos" }
      else
        -- position faithfulness is claimed for files that templ generate accepts
        let badExprs := if accepted == "1" then exprs.filter fun e => !(rangeFaithful src e.value e.from_ e.to) else []
        let badNames := if accepted == "1" then names.filter fun n =>
            !(rangeFaithful src n.value n.from_ n.to && n.to.index == n.from_.index + n.value.length) else []
        let firstBad := match badExprs.head?, badNames.head? with
          | some e, _ => s!"expression at {e.path}: value={Bytes.toHex (e.value.take 40)} from={e.from_.index},{e.from_.line},{e.from_.col} to={e.to.index},{e.to.line},{e.to.col}"
          | none, some n => s!"name range of {n.path}: name={Bytes.toHex n.value} from={n.from_.index},{n.from_.line},{n.from_.col} to={n.to.index},{n.to.line},{n.to.col}"
          | none, none => ""
        { predfail := if badExprs.isEmpty && badNames.isEmpty then none else some s!"recorded range not faithful to the source: {firstBad}",
          nontrivial := accepted == "1" && exprs.length > 2,
          tags := [origin, if accepted == "1" then "accepted" else "parsed-only"],
          sig := "file;range;" ++ (match badExprs.head?, badNames.head? with | some e, _ => e.path | none, some n => "name:" ++ n.path | _, _ => "") }
    | _, _, _, _ => .badOp
  | _ => .badOp

def dumpEntries (es : List Entry) : List (Nat × Nat × Pos) :=
  -- unique keys, later wins, sorted
  let keys := (es.map fun e => (e.line, e.col)).eraseDups
  (keys.filterMap fun (l, c) => (lookup es l c).map fun p => (l, c, p)).mergeSort
    (fun a b => a.1 < b.1 || (a.1 == b.1 && a.2.1 ≤ b.2.1))

def sortEntries (es : List Entry) : List (Nat × Nat × Pos) :=
  (es.map fun e => (e.line, e.col, e.pos)).mergeSort (fun a b => a.1 < b.1 || (a.1 == b.1 && a.2.1 ≤ b.2.1))

def handleC07 : List String → Verdict
  | ["smadd", addsS, s2tS, t2sS] =>
    let adds? := (addsS.splitOn ";").mapM fun item =>
      match item.splitOn "|" with
      | [vh, f, t] => do
        let v ← hexField vh
        let f ← parsePos f
        let t ← parsePos t
        pure (v, f, t)
      | _ => none
    match adds?, parseEntries s2tS, parseEntries t2sS with
    | some adds, some s2t, some t2s =>
      let sm := adds.foldl (fun sm (v, f, t) => add sm v f t) {}
      let ok := dumpEntries sm.s2t == sortEntries s2t && dumpEntries sm.t2s == sortEntries t2s
      { mismatch := if ok then none else some s!"source map tables differ from the model after {adds.length} add(s)",
        nontrivial := adds.any (fun (v, _, _) => v.contains 10 || v.any (· ≥ 128)), tags := ["smadd"], sig := "smadd" }
    | _, _, _ => .badOp
  | ["lsphover", stepS, name, wantH, gotH] =>
    -- the language server after step `name` of an editor session: for every templ position asked about, gopls was asked
    -- about the Go position a fresh generation of the current text maps it to (or not at all where nothing is mapped)
    match hexField wantH, hexField gotH with
    | some want, some got =>
      let show_ := fun (b : Bytes) => String.ofList (b.map fun c => Char.ofNat c.toNat)
      let ws := (show_ want).splitOn " "
      let gs := (show_ got).splitOn " "
      let firstDiff := ((ws.zip gs).find? fun p => p.1 != p.2).map fun p => s!"templ>go expected {p.1}, gopls was asked {p.2}"
      { predfail := if want == got then none else
          some s!"language server after step {stepS} ({name}): positions are translated with another source map than that of the current text: {firstDiff.getD "different number of positions"}",
        nontrivial := ws.any (fun w => !w.endsWith "none"), tags := ["lsp-hover:" ++ name], sig := "lsphover" }
    | _, _ => .badOp
  | ["symadd", addsS, resS] =>
    let rng4 : List String → Option (Rng × Rng) := fun fs =>
      match fs.mapM parsePos with
      | some [a, b, c, d] => some (⟨a, b⟩, ⟨c, d⟩)
      | _ => none
    match (addsS.splitOn ";").mapM (fun item => rng4 (item.splitOn "|")) with
    | some adds =>
      let m := addSymbols adds
      let show_ : Option Rng → String := fun r => match r with
        | some r => s!"{r.from_.index},{r.from_.line},{r.from_.col}|{r.to.index},{r.to.line},{r.to.col}"
        | none => "0"
      let want := adds.map fun a => show_ (symTarget m a.1.from_.line a.1.from_.col) ++ "/" ++ show_ (symSource m a.2.from_.line a.2.from_.col)
      { mismatch := if ";".intercalate want == resS then none else
          some s!"symbol range lookups differ from the model after {adds.length} AddSymbolRange call(s): impl={resS} model={";".intercalate want}",
        nontrivial := adds.length > 1, tags := ["symadd"], sig := "symadd" }
    | none => .badOp
  | ["syms", origin, srcH, genH, symsS] =>
    match hexField srcH, hexField genH with
    | some _src, some gen =>
      let trim : Bytes → Bytes := fun b =>
        let ws := fun (c : UInt8) => c == 32 || c == 9 || c == 10 || c == 13
        ((b.dropWhile ws).reverse.dropWhile ws).reverse
      let rng2 : String → Option Rng := fun s => match (s.splitOn "|").mapM parsePos with
        | some [a, b] => some ⟨a, b⟩
        | _ => none
      let bad := (symsS.splitOn ";").filterMap fun item =>
        match item.splitOn "/" with
        | [kind, nameH, valH, srcR, foundS, backS] =>
          match hexField nameH, hexField valH, rng2 srcR with
          | some name, some val, some sr =>
            if foundS == "0" then some s!"{kind} at line {sr.from_.line}, col {sr.from_.col}: no symbol range recorded" else
            match rng2 foundS with
            | none => some "unreadable range"
            | some t =>
              let text := slice gen t
              let inBounds := t.from_.index ≤ t.to.index && t.to.index ≤ gen.length &&
                decide (positionAt gen t.from_.index = t.from_) && decide (positionAt gen t.to.index = t.to)
              let encloses :=
                if kind == "go" then trim text == trim val
                else if kind == "script" then List.isPrefixOf ([102, 117, 110, 99, 32] ++ name ++ [40]) text && (trim text).getLast? == some 125
                else List.isPrefixOf ([102, 117, 110, 99, 32] ++ val) text && (trim text).getLast? == some 125
              let back := rng2 backS == some sr
              if inBounds && encloses && back then none
              else some s!"{kind} at line {sr.from_.line}, col {sr.from_.col}: range in bounds and consistent={inBounds}, encloses the generated declaration={encloses}, maps back={back}"
          | _, _, _ => some "unreadable symbol record"
        | _ => some "unreadable symbol record"
      { predfail := match bad.head? with
          | none => none
          | some b => some s!"{bad.length} top-level declaration(s) without a faithful symbol range; first: {b}",
        nontrivial := (symsS.splitOn ";").length > 1, tags := [origin, "syms"], sig := "syms" }
    | _, _ => .badOp
  | ["rw", insS, outsS, textH] =>
    match (insS.splitOn ";").mapM hexField, hexField textH with
    | some ins, some text =>
      let outs := outsS.splitOn ";"
      let (_, ranges) := ins.foldl (fun (acc : Pos × List String) s =>
        let p := acc.1
        let q := advance p s
        (q, acc.2 ++ [s!"{p.index},{p.line},{p.col}|{q.index},{q.line},{q.col}"])) (⟨0, 0, 0⟩, [])
      { mismatch := if ranges == outs && text == ins.flatten then none else some s!"RangeWriter ranges {outs} model {ranges}",
        nontrivial := true, tags := ["rw"], sig := "rw" }
    | _, _ => .badOp
  | ["map", origin, srcH, genH, exS, s2tS, t2sS] =>
    match hexField srcH, hexField genH, parseExprs exS, parseEntries s2tS, parseEntries t2sS with
    | some src, some gen, some exprs, some s2t, some t2s =>
      let sm : SM := { s2t := s2t, t2s := t2s }
      -- every non-blank expression of the tree is covered and maps byte for byte
      let live := exprs.filter fun e => !(e.value.all fun b => b == 32 || b == 9 || b == 10 || b == 13)
      let bad := live.filter fun e =>
        match targetOf sm e.from_.line e.from_.col with
        | none => true
        | some tp => !(exprMapped src gen sm e.value e.from_ tp)
      { predfail := match bad.head? with
          | none => none
          | some e => some s!"{bad.length} of {live.length} expressions not mapped faithfully; first: {e.path} value={Bytes.toHex (e.value.take 40)} at {e.from_.index},{e.from_.line},{e.from_.col}",
        nontrivial := live.length > 2, tags := [origin, "map"],
        sig := "map;" ++ (match bad.head? with | some e => e.path | none => "") }
    | _, _, _, _, _ => .badOp
  | _ => .badOp

end TemplVerif.Drive.C0607
