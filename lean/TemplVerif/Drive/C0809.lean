import TemplVerif.Drive.Common
namespace TemplVerif.Drive.C0809
open TemplVerif TemplVerif.Drive

/-- First line on which two texts differ (for the report). -/
def firstDiff (a b : Bytes) : String :=
  let la := splitLF a
  let lb := splitLF b
  let rec go (i : Nat) : List Bytes → List Bytes → String
    | x :: xs, y :: ys => if x == y then go (i + 1) xs ys else s!"line {i + 1}: {Bytes.toHex (x.take 120)} vs {Bytes.toHex (y.take 120)}"
    | [], y :: _ => s!"line {i + 1}: <end> vs {Bytes.toHex (y.take 120)}"
    | x :: _, [] => s!"line {i + 1}: {Bytes.toHex (x.take 120)} vs <end>"
    | [], [] => "equal"
  go 0 la lb

def handleC09 : List String → Verdict
  | ["fmt", origin, _srcH, f1S, f2S] =>
    if f1S == "ERR" then { predfail := some "accepted template could not be formatted", nontrivial := true, tags := [origin], sig := "fmt;format-error" }
    else if f2S == "ERR" then { predfail := some "formatter output does not re-parse / re-format", nontrivial := true, tags := [origin], sig := "fmt;reparse-error" }
    else
      match hexField f1S, hexField f2S with
      | some f1, some f2 =>
        { predfail := if f1 == f2 then none else some s!"formatting is not idempotent: {firstDiff f1 f2}",
          nontrivial := true, tags := [origin], sig := "fmt;idempotence" }
      | _, _ => .badOp
  | _ => .badOp

def handleC08 : List String → Verdict
  | ["gen", origin, _srcH, f1S, g0H, g1S] =>
    if f1S == "ERR" then { predfail := some "accepted template could not be formatted", nontrivial := true, tags := [origin], sig := "gen;format-error" }
    else if g1S.startsWith "ERR" then { predfail := some s!"formatted template is not accepted by parse + generate + gofmt: {g1S}", nontrivial := true, tags := [origin], sig := "gen;formatted-rejected" }
    else
      match hexField g0H, hexField g1S with
      | some g0, some g1 =>
        { predfail := if g0 == g1 then none else some s!"generated code changed by formatting: {firstDiff g0 g1}",
          nontrivial := true, tags := [origin], sig := "gen;code-changed" }
      | _, _ => .badOp
  | _ => .badOp

end TemplVerif.Drive.C0809
