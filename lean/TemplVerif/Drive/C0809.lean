import TemplVerif.Drive.Common
import TemplVerif.Drive.AstParse
import TemplVerif.Model.Norm
import TemplVerif.Model.Printer
import TemplVerif.Model.Reparse
import TemplVerif.Model.Spaced
namespace TemplVerif.Drive.C0809
open TemplVerif TemplVerif.Drive

/-- First line on which two texts differ (for the report). -/
def firstDiff (a b : Bytes) : String :=
  let la := splitLF a
  let lb := splitLF b
  let rec go (i : Nat) : List Bytes → List Bytes → String
    | x :: xs, y :: ys => if x == y then go (i + 1) xs ys else s!"line {i + 1}: {Bytes.toHex (x.take 120)} vs {Bytes.toHex (y.take 120)}"
    | [], y :: _ => s!"line {i + 1}: <end> vs {Bytes.toHex (y.take 120)}"
    | x :: _, [] => s!"line {i + 1}: {Bytes.toHex (x.take 120)} vs <end>"
    | [], [] => "equal"
  go 0 la lb

def handleC09 : List String → Verdict
  | ["fmt", origin, _srcH, f1S, f2S] =>
    if f1S == "ERR" then { predfail := some "accepted template could not be formatted", nontrivial := true, tags := [origin], sig := "fmt;format-error" }
    else if f2S == "ERR" then { predfail := some "formatter output does not re-parse / re-format", nontrivial := true, tags := [origin], sig := "fmt;reparse-error" }
    else
      match hexField f1S, hexField f2S with
      | some f1, some f2 =>
        { predfail := if f1 == f2 then none else some s!"formatting is not idempotent: {firstDiff f1 f2}",
          nontrivial := true, tags := [origin], sig := "fmt;idempotence" }
      | _, _ => .badOp
  | ["prt", origin, _srcH, a0S, a1S, textsS] =>
    -- the printer model on the real parser's tree of x against what the real formatter wrote, and the re-parse
    -- specification against the real parser's tree of the formatted text
    match (a0S.splitOn "|").mapM AstParse.body, (a1S.splitOn "|").mapM AstParse.body, (textsS.splitOn "|").mapM hexField with
    | some t0, some t1, some texts =>
      let wsNorm := fun (t : Ast.Nodes) => AstParse.mapWs t
      let rows := (List.zip t0 (List.zip t1 texts)).map fun p =>
        -- in the fragment: the syntactic conditions, and the formatter left every Go expression text as it was
        -- (gofmt-stable expressions; gofmt is not modelled)
        if Printer.nodesInFragment p.1 && AstParse.nodesExprs p.1 == AstParse.nodesExprs p.2.1 then
          (if Printer.body p.1 != p.2.2 then 1
           else if !decide (wsNorm (Reparse.body p.1) = wsNorm p.2.1) then 3
           else if !Reparse.wfNodes p.1 then 4
           else if Printer.body (Reparse.body p.1) != Printer.body p.1 then 5 else 0, (p.1, p.2.2)) else (2, (p.1, p.2.2))
      let bad := rows.find? (·.1 == 1)
      let badR := rows.findIdx? (·.1 == 3)
      { mismatch := match bad with
          | some r => some s!"printer model differs from the real formatter: {firstDiff r.2.2 (Printer.body r.2.1)} (real vs model)"
          | none => match badR with
            | some i => some s!"template #{i}: the re-parse specification differs from the real parser's tree of the formatted text"
            | none => match rows.findIdx? (·.1 == 4) with
              | some i => some s!"template #{i}: the parser built a tree that violates the invariant the idempotence theorem assumes (whitespace node after a trailing-space node, or a line break after a child kept on its parent's line)"
              | none => (rows.findIdx? (·.1 == 5)).map fun i => s!"template #{i}: printing the re-parsed tree differs from printing the tree (the theorem C09_print_reparse fails on this tree)",
        nontrivial := rows.any (·.1 == 0),
        tags := [origin, "prt", if rows.all (·.1 == 2) then "outside-fragment" else if rows.all (·.1 != 2) then "all-in-fragment" else "some-in-fragment"],
        sig := "prt" }
    | _, _, _ => .badOp
  | ["inplace2", _srcH, firstH, secondH] =>
    match hexField firstH, hexField secondH with
    | some first, some second =>
      { predfail := if first == second then none else
          some s!"`templ fmt <file>` run a second time on the same file changed it again: {first.length} bytes after the first run, {second.length} after the second",
        nontrivial := true, tags := ["inplace-twice"], sig := "inplace2" }
    | _, _ => .badOp
  | ["inplace", wantH, gotH] =>
    match hexField wantH, hexField gotH with
    | some want, some got =>
      { predfail := if want == got then none else
          some s!"after `templ fmt <file>` the file does not hold the formatted text: {got.length} bytes on disk, the formatted text has {want.length}",
        nontrivial := true, tags := ["inplace"], sig := "inplace" }
    | _, _ => .badOp
  | _ => .badOp

def wsMarker : Bytes := Bytes.ofString "templruntime.WriteString(templ_7745c5c3_Buffer, "

/-- Split generated code into (concatenated static literal texts, the remaining code with every literal-writing
    statement — the call and its three-line error check — removed). -/
def litsAndSkeleton (g : Bytes) : List Bytes × List Bytes :=
  let rec go (fuel : Nat) (ls : List Bytes) (lits : List Bytes) (skel : List Bytes) : List Bytes × List Bytes :=
    match fuel, ls with
    | 0, _ => (lits.reverse, skel.reverse)
    | _, [] => (lits.reverse, skel.reverse)
    | fuel + 1, l :: rest =>
      if Bytes.hasInfix wsMarker l then
        -- literal = text between the first `"` after the marker's index argument and the final `")`
        let afterQuote := (l.dropWhile (· != 34)).drop 1
        let lit := afterQuote.take (afterQuote.length - 2)
        go fuel (rest.drop 3) (lit :: lits) skel
      else go fuel rest lits (l :: skel)
  go (g.length + 1) (splitLF g) [] []

/-- `b` is `a` with extra spaces inserted; every inserted space touches a tag boundary: the previous byte is `>`
    or the next non-space byte is `<`, or it is at the very start / end (the edge of a static literal). -/
def spacesOnlyAtBoundaries : Nat → Option UInt8 → Bytes → Bytes → Bool
  | 0, _, _, _ => false
  | _, _, [], [] => true
  | fuel + 1, prev, a, 32 :: b' =>
    match a with
    | 32 :: a' => spacesOnlyAtBoundaries fuel (some 32) a' b'          -- a space that was already there
    | _ =>
      let nextNonSpace := (b'.dropWhile (· == 32)).head?
      (prev == some 62 || prev == none || prev == some 32 || nextNonSpace == some 60 || nextNonSpace == none) &&
        spacesOnlyAtBoundaries fuel (some 32) a b'
  | fuel + 1, _, x :: a', y :: b' => x == y && spacesOnlyAtBoundaries fuel (some y) a' b'
  | _, _, _, _ => false

/-- Classify how formatting changed the generated code. -/
def changeKind (g0 g1 : Bytes) : String :=
  let (l0, s0) := litsAndSkeleton g0
  let (l1, s1) := litsAndSkeleton g1
  let strip := fun (b : Bytes) => b.filter (· != 32)
  let trim := fun (b : Bytes) => ((b.dropWhile (· == 32)).reverse.dropWhile (· == 32)).reverse
  let edges := fun (ls : List Bytes) => (ls.map trim).filter (!·.isEmpty)
  let n0 := l0.flatten.length
  let n1 := l1.flatten.length
  if s0 == s1 && edges l0 == edges l1 && n1 > n0 then "space-added"          -- only at the edges of literals: between nodes
  else if s0 == s1 && n1 > n0 && spacesOnlyAtBoundaries (n0 + n1 + 2) none l0.flatten l1.flatten then "space-added"
  else if s0 == s1 && strip l0.flatten == strip l1.flatten then
    (if n1 > n0 then "space-added-inside-text" else if n1 < n0 then "space-lost" else "space-moved")
  else "other"

def handleC08 : List String → Verdict
  | ["fmtimports", _srcH, _firstH, missingH] =>
    match (if missingH == "-" then some [] else hexField missingH) with
    | some missing =>
      { predfail := if missing.isEmpty then none else
          some s!"after `templ fmt <file>` the template's code no longer has an import it uses: {String.ofList (missing.map fun c => Char.ofNat c.toNat)}",
        nontrivial := true, tags := ["imports-kept"], sig := "fmtimports" }
    | none => .badOp
  | ["gen", origin, _srcH, f1S, g0H, g1S] =>
    if f1S == "ERR" then { predfail := some "accepted template could not be formatted", nontrivial := true, tags := [origin], sig := "gen;format-error" }
    else if g1S.startsWith "ERR" then { predfail := some s!"formatted template is not accepted by parse + generate + gofmt: {g1S}", nontrivial := true, tags := [origin], sig := "gen;formatted-rejected" }
    else
      match hexField g0H, hexField g1S with
      | some g0, some g1 =>
        let kind := if g0 == g1 then "" else changeKind g0 g1
        { predfail := if g0 == g1 then none else some s!"generated code changed by formatting ({kind}): {firstDiff g0 g1}",
          nontrivial := true, tags := [origin], sig := "gen;code-changed;" ++ kind }
      | _, _ => .badOp
  | ["cls", origin, _srcH, a0S, a1S, bits] =>
    -- layout classes of the original and the formatted template, on the trees the real parser built
    let a0 := a0S.splitOn "|"
    let a1 := a1S.splitOn "|"
    let eqs := bits.toList.map (· == '1')
    match a0.mapM AstParse.body, a1.mapM AstParse.body with
    | some t0, some t1 =>
      let cls := fun (t : Ast.Nodes) => Norm.body (AstParse.mapNodes AstParse.noBlanks t)
      let same := (List.zip t0 t1).map fun p => decide (cls p.1 = cls p.2)
      let rows := List.zip same eqs
      -- the theorem (C08_same_class_same_program) says: same class => same program
      let broken := rows.findIdx? fun r => r.1 && !r.2
      -- C08_fragment_class_kept: a fragment template that is parser-well-formed and already spaced stays in its class
      let spacedRows := (List.zip t0 t1).map fun p =>
        Printer.nodesInFragment p.1 && AstParse.nodesExprs p.1 == AstParse.nodesExprs p.2 && Reparse.wfNodes p.1 && Spaced.body p.1
      let leftAlthoughSpaced := (List.zip spacedRows same).findIdx? fun r => r.1 && !r.2
      { predfail := broken.map fun i =>
          s!"template #{i}: the formatted template is in the same layout class as the original (nothing but layout differs), yet the generator emits different code for the two: formatting changed the program",
        mismatch := match broken with
          | some _ => none
          | none => leftAlthoughSpaced.map fun i => s!"template #{i}: in the printer fragment, parser-well-formed and spaced, yet the real formatter moved it out of its layout class (C08_fragment_class_kept's model disagrees with the implementation)",
        nontrivial := rows.any (·.1),
        tags := [origin, "cls"] ++ (if rows.all (·.1) then ["class-kept"] else ["class-left"]) ++
                (if spacedRows.any id then ["has-spaced-fragment-template"] else []) ++
                (if rows.any (fun r => !r.1 && r.2) then ["class-left-but-same-code"] else []),
        sig := if broken.isSome then "cls;same-class-different-code" else "cls" }
    | _, _ => .badOp
  | _ => .badOp

end TemplVerif.Drive.C0809
