import TemplVerif.Drive.Common
import TemplVerif.Model.Sse
import TemplVerif.Generated.Sse
namespace TemplVerif.Drive.C19
open TemplVerif TemplVerif.Drive TemplVerif.Sse

def parseAction (s : String) : Option Action :=
  match s.toList with
  | 's' :: r => (String.ofList r).toNat?.map .subscribe
  | 'b' :: [] => some .broadcast
  | 'c' :: r => (String.ofList r).toNat?.map .cancel
  | 'e' :: r => (String.ofList r).toNat?.map .exit
  | k :: r =>
    if k == 'd' || k == 'x' then
      match (String.ofList r).splitOn "." with
      | [a, b] => do
        let c ← a.toNat?
        let e ← b.toNat?
        pure (if k == 'd' then .deliver c e else .drop c e)
      | _ => none
    else none
  | [] => none

/-- `1:0,1;2:` → [(1,[0,1]),(2,[])] -/
def parseLogs (s : String) : Option (List (Nat × List Nat)) :=
  if s == "-" then some [] else
  (s.splitOn ";").mapM fun item =>
    match item.splitOn ":" with
    | [c, evs] => do
      let c ← c.toNat?
      let es ← if evs == "" then some [] else (evs.splitOn ",").mapM (·.toNat?)
      pure (c, es)
    | _ => none

def codeCfg : Cfg := ⟨Generated.sseClosesChannelOnExit, Generated.sseDeliverySelectsDone⟩

def logsOf (s : State) : List (Nat × List Nat) :=
  (s.clients.map fun c => (c.id, c.received)).mergeSort (fun a b => a.1 ≤ b.1)

def handle : List String → Verdict
  | ["sched", actsS, snapS, panicS, leakedS, snapLogsS, finalLogsS, note] =>
    match (actsS.splitOn ",").mapM parseAction, snapS.toNat?, leakedS.toNat?, parseLogs snapLogsS, parseLogs finalLogsS with
    | some acts, some snapAt, some leakedN, some snapLogs, some finalLogs =>
      let implPanic := panicS == "true"
      let sortL := fun (l : List (Nat × List Nat)) => l.mergeSort (fun a b => a.1 ≤ b.1)
      let modelFinal := run codeCfg {} acts
      let modelSnap := run codeCfg {} (acts.take snapAt)
      -- correspondence: same panic verdict, same per-client logs at the end, same number of stuck goroutines
      let mism : Option String :=
        match modelFinal with
        | none => if implPanic then none else some "model: schedule panics (send on closed channel), implementation did not"
        | some sf =>
          if implPanic then some "implementation panicked (send on closed channel), model does not"
          else if sortL finalLogs != logsOf sf then some s!"received logs differ: impl={finalLogsS} model={logsOf sf}"
          else if leakedN != (leaked codeCfg sf).length then some s!"stuck delivery goroutines: impl={leakedN} model={(leaked codeCfg sf).length}"
          else none
      -- property, evaluated on the implementation's observations with the schedule's own bookkeeping
      -- (the safe configuration's model tells who was registered at each broadcast and who was cancelled)
      let ref := run ⟨false, true⟩ {} (acts.take snapAt)
      let dropped : List (Nat × Nat) :=
        match ref with
        | none => []
        | some s => s.registeredAt.filter fun (c, e) =>
            match findClient s c with
            | some cl => !cl.cancelled && !((snapLogs.lookup c).getD []).contains e
            | none => true
      let pred : Option String :=
        if implPanic then some "watch process panicked: send on closed channel"
        else if leakedN > 0 then some s!"{leakedN} delivery goroutine(s) still blocked after every client left"
        else if !dropped.isEmpty then some s!"events not delivered to connected clients: {dropped}"
        else if note != "-" then some s!"harness observed: {note}"
        else none
      let _ := modelSnap
      { mismatch := mism, predfail := pred,
        nontrivial := acts.any (fun a => match a with | .cancel _ => true | _ => false) && acts.any (fun a => a == .broadcast),
        tags := [s!"len{min acts.length 16}", if implPanic then "panic" else "no-panic"],
        sig := if implPanic then "sched;panic" else if leakedN > 0 then "sched;leak" else "sched" }
    | _, _, _, _, _ => .badOp
  | ["slow", nS, slowGotS, fastGotS, fastOKS, slowOKS, fastMsS] =>
    let n := nS.toNat?.getD 0
    { predfail :=
        if fastOKS != "1" then some s!"a prompt client received {fastGotS} of {n} events within 1.5 s while another client was stalled ({fastMsS} ms)"
        else if slowOKS != "1" then some s!"a client whose connection was backed up for 3.6 s received {slowGotS} of {n} events: deliveries pending meanwhile were dropped"
        else none,
      nontrivial := true, tags := ["slow-reader"], sig := "slow" }
  | ["burst", sentS, gotS] =>
    { predfail := if (gotS.splitOn ",").all (· == sentS) then none else
        some s!"{sentS} identical reload events were broadcast to connected, promptly reading clients; they received {gotS}",
      nontrivial := true, tags := ["burst"], sig := "burst" }
  | ["viaproxy", level, headersS, sentS, gotS] =>
    { predfail :=
        if headersS != "1" then some s!"through the development proxy (logger at {level} level) the event stream's response headers did not reach the client within 2 s"
        else if gotS != sentS then some s!"through the development proxy (logger at {level} level) a connected client received {gotS} of {sentS} reload events within 2 s each"
        else none,
      nontrivial := true, tags := ["via-proxy"], sig := "viaproxy" }
  | ["stress", statusH, sentS, missingS] =>
    match hexField statusH with
    | some status =>
      let st := String.ofList (status.map fun c => Char.ofNat c.toNat)
      { predfail :=
          if st != "ok" then some s!"clients subscribing and leaving in parallel with back-to-back broadcasts: {st}"
          else if missingS != "0" then some s!"{missingS} resident client(s) missed events out of {sentS} broadcast while other clients came and went"
          else none,
        nontrivial := true, tags := ["stress"], sig := "stress" }
    | none => .badOp
  | _ => .badOp

end TemplVerif.Drive.C19
