import TemplVerif.Drive.Common
import TemplVerif.Model.Fs
import TemplVerif.Generated.Walk
namespace TemplVerif.Drive.C15
open TemplVerif TemplVerif.Drive TemplVerif.Fs

def str (b : Bytes) : String := String.ofList (b.map fun (c : UInt8) => Char.ofNat c.toNat)

/-- `hexpath=hexcontent;…` -/
def listing (s : String) : Option Fs :=
  if s == "-" then some [] else
  (s.splitOn ";").mapM fun kv =>
    match kv.splitOn "=" with
    | [k, v] => do let k ← hexField k; let v ← hexField v; pure (k, v)
    | _ => none

/-- `hexpath=hexcode|ERR;…` -/
def genTable (s : String) : Option (List (Path × Option Bytes)) :=
  if s == "-" then some [] else
  (s.splitOn ";").mapM fun kv =>
    match kv.splitOn "=" with
    | [k, v] => do
      let k ← hexField k
      if v == "ERR" then pure (k, none) else do let v ← hexField v; pure (k, some v)
    | _ => none

def pathList (s : String) : Option (List Path) :=
  if s == "-" then some [] else (s.splitOn ";").mapM hexField

def handle : List String → Verdict
  | ["gen", flags, workers, beforeS, genS, afterS, touchedS, exit1S, after2S, exit2S, racesS, detailH] =>
    match listing beforeS, genTable genS, listing afterS, pathList touchedS, listing after2S with
    | some before, some table, some after, some touched, some after2 =>
      let cfg : Cfg := { keepOrphaned := flags.contains 'k', skipExact := Generated.skipExact, skipPrefixes := Generated.skipPrefixes }
      -- "the generation of that file alone", as computed by the library outside the CLI; a file missing from the table is a
      -- template the harness did not see: treat as failing so that any write to its sibling is reported
      let genOf : Path → Bytes → Option Bytes := fun p _ => (table.lookup p).join
      let paths := ((before.map (·.1)) ++ (after.map (·.1)) ++ (after2.map (·.1))).eraseDups
      let wrong := paths.filter fun p => get after p != spec cfg genOf before p
      let wrong2 := paths.filter fun p => get after2 p != get after p
      let nfail := failures cfg genOf before
      let exit1 := exit1S != "0"
      let exit2 := exit2S != "0"
      -- a path may have a new modification time only if the specification writes or removes it
      let written := (eventsOf cfg before).filterMap fun e => match action cfg genOf before e with
        | .write q _ => some q | .remove q => some q | _ => none
      let stray := touched.filter fun p => !written.contains p
      let races := racesS.toNat?.getD 1
      let detail := (hexField detailH).map str |>.getD ""
      let describe := fun (p : Path) (got : Option Bytes) =>
        s!"{str p}: " ++ (match got with | none => "absent" | some c => s!"{c.length} bytes") ++ " but the specification says " ++
          (match spec cfg genOf before p with | none => "absent" | some c => s!"{c.length} bytes" ++
            (if some c == get before p then " (unchanged)" else if (table.any fun e => e.2 == some c) then " (generation of its template alone)" else ""))
      { predfail :=
          if races > 0 then some s!"-w {workers} flags {flags}: race detector / runtime failure in templ generate: {detail.take 700}"
          else match wrong with
          | p :: _ => some s!"-w {workers} flags {flags}: after templ generate, {describe p (get after p)}"
          | [] =>
            if exit1 != (nfail > 0) then some s!"-w {workers} flags {flags}: exit status {exit1S} with {nfail} file(s) that cannot be generated"
            else match wrong2 with
            | p :: _ => some s!"-w {workers} flags {flags}: a second run changed {str p}"
            | [] =>
              if exit2 != exit1 then some s!"-w {workers} flags {flags}: second run exits {exit2S}, first {exit1S}"
              else match stray with
              | p :: _ => some s!"-w {workers} flags {flags}: {str p} was touched (new modification time) although nothing is to be generated or removed there"
              | [] => none,
        nontrivial := written.length > 0,
        tags := ["gen", "flags:" ++ flags, if nfail > 0 then "with-failing-file" else "all-ok",
                 if (before.any fun e => inSkippedDir cfg e.1 && matchesWatch e.1) then "has-skipped" else "no-skipped",
                 if (written.any fun q => !hasSuffix q sufTemplGo || (get before q).isSome && (get before (templOf q)).isNone) then "has-orphan" else "no-orphan"],
        sig := "gen;" ++ flags }
    | _, _, _, _, _ => .badOp
  | _ => .badOp

end TemplVerif.Drive.C15
