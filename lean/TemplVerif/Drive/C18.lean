import TemplVerif.Drive.Common
import TemplVerif.Model.Frame
namespace TemplVerif.Drive.C18
open TemplVerif TemplVerif.Drive TemplVerif.Frame

def hexList (s : String) : Option (List Bytes) :=
  if s == "-" then some [] else (s.splitOn ";").mapM hexField

def errName : Err → String
  | .eofInHeader => "eofInHeader" | .invalidHeaderLine => "invalidHeaderLine" | .badLength => "badLength"
  | .nonPositiveLength => "nonPositiveLength" | .missingLength => "missingLength" | .shortBody => "shortBody"

def handle : List String → Verdict
  | ["stream", tag, wireH, _sizes, wantS, gotS, kind] =>
    match hexField wireH, hexList wantS, hexList gotS with
    | some wire, some want, some got =>
      let (mBodies, mErr) := readAll wire
      let mKind := match mErr with | none => "eof" | some e => errName e
      -- the implementation decodes JSON after framing: a frame the model reads whose body is not a JSON-RPC
      -- message ends the implementation's run with a decode error at that frame
      let isDecode := kind.startsWith "decode:"
      let framesAgree :=
        if isDecode then got.length < mBodies.length
        else got.length == mBodies.length && kind == mKind
      let roundtrip := tag.startsWith "roundtrip"
      let bodiesOk := !roundtrip || (mBodies == want && got == want && kind == "eof" && want.flatMap encode == wire)
      { mismatch := if framesAgree && bodiesOk then none else
          some s!"impl read {got.length} message(s) then {kind}; model read {mBodies.length} frame(s) then {mKind}; writeFramingMatches={want.flatMap encode == wire}",
        predfail :=
          if kind == "hang" || kind == "panic" then some s!"reader did not return promptly: {kind}"
          else if roundtrip && !(got == want && kind == "eof") then some s!"messages written were not read back identically: got {got.length} of {want.length}, then {kind}"
          else none,
        nontrivial := wire.length > 0, tags := [tag, "end:" ++ (if isDecode then "decode-error" else kind)],
        sig := s!"stream;{tag};{if isDecode then "decode" else kind}" }
    | _, _, _ => .badOp
  | ["trailing", bodyH, tailH, outcome] =>
    match hexField bodyH, hexField tailH with
    | some _body, some tail =>
      let blank := tail.all fun b => b == 32 || b == 9 || b == 10 || b == 13
      { predfail :=
          if outcome == "hang" || outcome == "panic" then some s!"a frame with {tail.length} byte(s) after the message: reader {outcome}"
          else if blank && outcome != "message" then some s!"a frame whose message is followed by white space only was not read as the message: {outcome}"
          else if !blank && outcome != "error" then some s!"a malformed frame (a complete message followed by {tail.length} more byte(s) that are not white space) was read as a message without an error"
          else none,
        nontrivial := true, tags := [if blank then "trailing-blank" else "trailing-data"], sig := s!"trailing;{if blank then "blank" else "data"};{outcome}" }
    | _, _ => .badOp
  | ["handlererr", statusH] =>
    match hexField statusH with
    | some status =>
      let st := String.ofList (status.map fun c => Char.ofNat c.toNat)
      { predfail := if st == "ok" then none else some s!"a connection whose handler returns an error: {st}",
        nontrivial := true, tags := ["handler-error"], sig := "handlererr" }
    | none => .badOp
  | ["pcall", nS, wrongS, dupsS] =>
    { predfail := if wrongS == "0" && dupsS == "0" then none else
        some s!"{nS} callers released together: {wrongS} did not get the response to their own request (or timed out), {dupsS} call id(s) were handed out twice",
      nontrivial := true, tags := ["parallel-calls"], sig := "pcall" }
  | ["mux", nS, wireH] =>
    match nS.toNat?, hexField wireH with
    | some n, some wire =>
      let (frames, err) := readAll wire
      -- every frame is one JSON object: no header text of another frame inside a body
      let whole := frames.all fun b => b.head? == some 123 && b.getLast? == some 125 && !Bytes.hasInfix [67, 111, 110, 116, 101, 110, 116, 45, 76] b
      { predfail := if err.isNone && frames.length == n && whole then none else
          some s!"a connection answering calls while sending notifications wrote {frames.length} readable frame(s) of {n}, reader error={err.map errName}, every frame a whole message={whole}",
        nontrivial := true, tags := ["mux"], sig := "mux" }
    | _, _ => .badOp
  | ["wcancel", kS, wireH, b1H, b2H, err1S, err2S] =>
    match hexField wireH, hexField b1H, hexField b2H with
    | some wire, some b1, some b2 =>
      let (frames, err) := readAll wire
      -- the cancelled write is all or nothing; the write after it is complete
      let ok := err.isNone && err2S == "0" && (frames == [b1, b2] || (frames == [b2] && err1S == "1"))
      { predfail := if ok then none else
          some s!"a write cancelled during transport write #{kS} left the stream in pieces: {frames.length} frame(s) readable, reader error={err.map errName}, first write failed={err1S}, second write failed={err2S}",
        nontrivial := true, tags := ["write-cancel"], sig := "wcancel" }
    | _, _, _ => .badOp
  | ["rpc", modesS, outsS, sentS] =>
    -- outs: thread:id:res ; res = r<payload id> | cancelled | err:…
    let outs := (outsS.splitOn ";").filterMap fun o =>
      match o.splitOn ":" with
      | t :: id :: res :: _ => some (t.toNat?.getD 0, id.toNat?.getD 0, res)
      | _ => none
    let modes := (modesS.splitOn ",").filterMap (·.toNat?)
    let sent := if sentS == "-" then [] else (sentS.splitOn ",").filterMap (·.toNat?)
    -- replay on the model: calls in id order, then the peer's responses in the order sent, then cancellations and
    -- the select outcomes the implementation reported
    let byId := outs.mergeSort (fun a b => a.2.1 ≤ b.2.1)
    let sched : List Rpc.Action :=
      byId.map (fun o => Rpc.Action.call o.1) ++
      sent.map (fun i => Rpc.Action.recv ⟨i, i⟩) ++
      (byId.filter (fun o => o.2.2 == "cancelled")).flatMap (fun o => [Rpc.Action.cancel o.1, Rpc.Action.finishCancel o.1]) ++
      (byId.filter (fun o => o.2.2 != "cancelled")).map (fun o => Rpc.Action.finishRecv o.1)
    let model := Rpc.run {} sched
    let modelCompleted : List (Nat × Nat × String) :=
      match model with
      | none => []
      | some s => s.completed.map fun (t, id, res) =>
          (t, id, match res with | .cancelled => "cancelled" | .response r => s!"r{r.payload}")
    let implSorted := outs.mergeSort (fun a b => a.1 ≤ b.1)
    let modelSorted := modelCompleted.mergeSort (fun a b => a.1 ≤ b.1)
    -- property: every call returned the response carrying its own id, or its own cancellation; ids are 1..n, distinct
    let bad := outs.filter fun (_, id, res) => !(res == "cancelled" || res == s!"r{id}")
    let ids := (outs.map (·.2.1)).mergeSort (· ≤ ·)
    let idsOk := ids == (List.range outs.length).map (· + 1)
    -- a call in mode 0/1/4/5 (answered, not cancelled by the peer) must get its response
    let starved := outs.filter fun (t, _, res) => (modes.getD t 9) ∈ [0, 1, 4, 5] && res == "cancelled"
    { mismatch := if model.isSome && implSorted == modelSorted then none else
        some s!"replayed schedule gives {modelSorted} but the implementation reported {implSorted}",
      predfail := if bad.isEmpty && idsOk && starved.isEmpty then none else
        some s!"call/response mismatch: wrong-or-foreign responses {bad}; idsOk={idsOk}; answered calls that timed out {starved}",
      nontrivial := outs.length > 1, tags := ["rpc", s!"callers{outs.length}"], sig := "rpc" }
  | _ => .badOp

end TemplVerif.Drive.C18
