import TemplVerif.Drive.Common
import TemplVerif.Model.Handler
namespace TemplVerif.Drive.C11
open TemplVerif TemplVerif.Drive TemplVerif.Handler

def parseEH (s : String) : Option (Option ErrHandler) :=
  if s == "-" then some none else
  match s.splitOn ":" with
  | [ctH, st, bodyH] => do
    let ct ← hexField ctH
    let st ← st.toNat?
    let body ← hexField bodyH
    pure (some { setContentType := if ct.isEmpty then none else some ct, status := if st == 0 then none else some st, body := body })
  | _ => none

def handle : List String → Verdict
  | ["serve", stS, ctH, ehS, streamS, writtenH, failedS, kind, rStS, rCtH, rBodyH, clH] =>
    match stS.toNat?, hexField ctH, parseEH ehS, hexField writtenH, rStS.toNat?, hexField rCtH, hexField rBodyH, hexField clH with
    | some st, some ct, some eh, some written, some rSt, some rCt, some rBody, some cl =>
      -- a Content-Length header, when the handler sets one, must be the length of the body that is sent: a stale one
      -- makes a real connection drop or truncate the response
      let clOk := cl.isEmpty || (String.ofList (cl.map fun c => Char.ofNat c.toNat)).toNat? == some rBody.length
      let cfg : Cfg := { status := st, contentType := ct, errorHandler := eh, stream := streamS == "1" }
      let failed := failedS == "1"
      let m := serve cfg ⟨written, failed⟩
      let mStatus := m.status.getD 200
      let agree := mStatus == rSt && m.body == rBody && m.contentType == rCt
      -- property (buffered only): complete document with configured status/type, or the error response, which
      -- contains no document byte beyond what the error handler itself writes
      let okStatus := if st != 0 then st else 200
      let errResp := errorPath cfg {}
      -- a component that panics with a non-error value: the panic reaches the server and nothing is sent (status 0 here)
      if kind == "panic-string" && rSt == 0 then { nontrivial := true, tags := ["panic-propagated"], sig := "serve;panic" } else
      let pred : Option String :=
        if !clOk then some s!"Content-Length header {String.ofList (cl.map fun c => Char.ofNat c.toNat)} but the body sent has {rBody.length} bytes (failed={failed}, {kind})"
        else if cfg.stream then none
        else if !failed then
          (if rSt == okStatus && rBody == written && rCt == ct then none else some s!"successful render: status={rSt} (want {okStatus}) bodyIsDocument={rBody == written}")
        else
          (if rSt == errResp.status.getD 200 && rBody == errResp.body && rCt == errResp.contentType then none
           else some s!"failed render ({kind}) after {written.length} bytes: status={rSt} body={Bytes.toHex (rBody.take 80)} — not the error response (status {errResp.status.getD 200})")
      { mismatch := if agree then none else
          some s!"impl=({rSt},{Bytes.toHex rCt},{Bytes.toHex (rBody.take 60)}) model=({mStatus},{Bytes.toHex m.contentType},{Bytes.toHex (m.body.take 60)})",
        predfail := pred,
        nontrivial := failed && !written.isEmpty,
        tags := [if cfg.stream then "streamed" else "buffered", if failed then "fail:" ++ kind else "ok", if eh.isSome then "errorhandler" else "default-error"],
        sig := s!"serve;{if cfg.stream then "streamed" else "buffered"};{if failed then "fail" else "ok"}" }
    | _, _, _, _, _, _, _, _ => .badOp
  | _ => .badOp

end TemplVerif.Drive.C11
