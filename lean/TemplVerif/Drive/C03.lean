import TemplVerif.Drive.Common
import TemplVerif.Model.Js
import TemplVerif.Spec.JsLex
import TemplVerif.Spec.HtmlTok
namespace TemplVerif.Drive.C03
open TemplVerif TemplVerif.Drive TemplVerif.Js TemplVerif.JsLex

/-- Parser for the harness's JVal prefix format. -/
def splitSemi (cs : List Char) : Option (List Char × List Char) :=
  let pre := cs.takeWhile (· != ';')
  match cs.drop pre.length with
  | ';' :: rest => some (pre, rest)
  | _ => none

mutual
  def parseJ : Nat → List Char → Option (JVal × List Char)
    | 0, _ => none
    | _, 'n' :: rest => some (.null, rest)
    | _, 't' :: rest => some (.bool true, rest)
    | _, 'f' :: rest => some (.bool false, rest)
    | _, '#' :: rest => do
      let (h, rest') ← splitSemi rest
      let b ← Bytes.ofHex (String.ofList h)
      pure (.num b, rest')
    | _, 's' :: rest => do
      let (h, rest') ← splitSemi rest
      let b ← Bytes.ofHex (String.ofList h)
      pure (.str b, rest')
    | fuel + 1, 'a' :: rest => do
      let (c, rest') ← splitSemi rest
      let n ← (String.ofList c).toNat?
      let (xs, rest'') ← parseJList fuel n rest'
      pure (.arr xs, rest'')
    | fuel + 1, 'o' :: rest => do
      let (c, rest') ← splitSemi rest
      let n ← (String.ofList c).toNat?
      let (kvs, rest'') ← parseJFields fuel n rest'
      pure (.obj kvs, rest'')
    | _, _ => none
  def parseJList : Nat → Nat → List Char → Option (List JVal × List Char)
    | _, 0, cs => some ([], cs)
    | 0, _, _ => none
    | fuel + 1, n + 1, cs => do
      let (v, rest) ← parseJ fuel cs
      let (vs, rest') ← parseJList fuel n rest
      pure (v :: vs, rest')
  def parseJFields : Nat → Nat → List Char → Option (List (Bytes × JVal) × List Char)
    | _, 0, cs => some ([], cs)
    | 0, _, _ => none
    | fuel + 1, n + 1, cs => do
      let (h, rest) ← splitSemi cs
      let k ← Bytes.ofHex (String.ofList h)
      let (v, rest') ← parseJ fuel rest
      let (kvs, rest'') ← parseJFields fuel n rest'
      pure ((k, v) :: kvs, rest'')
end

def parseJVal (s : String) : Option JVal :=
  match parseJ (s.length + 1) s.toList with
  | some (v, []) => some v
  | _ => none

def parseParams : Nat → Nat → List Char → Option (List Param)
  | _, 0, [] => some []
  | _, 0, _ => none
  | 0, _, _ => none
  | fuel + 1, n + 1, 'e' :: rest => do
    let (h, rest') ← splitSemi rest
    let b ← Bytes.ofHex (String.ofList h)
    let ps ← parseParams fuel n rest'
    pure (.expr b :: ps)
  | fuel + 1, n + 1, 'v' :: rest => do
    let (v, rest') ← parseJ (rest.length + 1) rest
    let ps ← parseParams fuel n rest'
    pure (.val v :: ps)
  | _, _, _ => none

/-- Every string inside a JVal (keys and values). -/
partial def stringsOf : JVal → List Bytes
  | .str s => [s]
  | .arr xs => xs.flatMap stringsOf
  | .obj kvs => kvs.flatMap fun (k, v) => k :: stringsOf v
  | _ => []

def quotes : List Quote := [.single, .double, .backtick]

def stripPrefix (p s : Bytes) : Option Bytes := if List.isPrefixOf p s then some (s.drop p.length) else none

def scriptPrefix : Bytes := Bytes.ofString "<script>const x = "
def scriptSuffix : Bytes := Bytes.ofString ";</script>"

/-- The value a JS engine gets for JSON string text: lex it as a double-quoted literal. -/
def lexJsonString (j : Bytes) : Result :=
  match j with
  | 34 :: rest => lexString .double rest
  | _ => .badEscape

/-- Go-style scrub: what `Utf8.runes` yields (invalid bytes → U+FFFD). -/
def wantRunes (s : Bytes) : List Nat := Utf8.runes s

def showResult : Result → String
  | .ok v rest => s!"ok({v},rest={Bytes.toHex rest})"
  | .interpolation => "interpolation"
  | .lineTerminator => "lineTerminator"
  | .badEscape => "badEscape"
  | .unterminated => "unterminated"

def handle : List String → Verdict
  | ["repl", sH, outS] =>
    match hexField sH, (if outS == "ERR" then none else hexField outS) with
    | some s, some out =>
      let model := replace s
      -- property: in each of the three literal kinds the emitted text is the body of one literal with value s
      let bad := quotes.filter fun q => lexString q (out ++ [q.byte, 59]) != .ok (wantRunes s) [59]
      let safe := scriptDataSafe out
      { mismatch := if model == out then none else some s!"impl={Bytes.toHex out} model={Bytes.toHex model}",
        predfail := if bad.isEmpty && safe then none else
          some s!"not a single literal body in {bad.map (fun q => q.byte)} (scriptDataSafe={safe}): {showResult (lexString (bad.headD .double) (out ++ [(bad.headD .double).byte, 59]))}",
        nontrivial := out != s, tags := ["repl"],
        sig := "repl;" ++ String.intercalate "," (bad.map fun q => match q with | .single => "single" | .double => "double" | .backtick => "backtick") }
    | _, _ => .badOp
  | ["jsonstr", sH, outH] =>
    match hexField sH, hexField outH with
    | some s, some out =>
      let model := jsonString s
      let res := lexJsonString out
      let ok := res == .ok (wantRunes s) [] && scriptDataSafe out && !out.contains 38 && !out.contains 62
      { mismatch := if model == out then none else some s!"impl={Bytes.toHex out} model={Bytes.toHex model}",
        predfail := if ok then none else some s!"JSON string is not one double-quoted JS literal with the original value: {showResult res}",
        nontrivial := out.length != s.length + 2, tags := ["jsonstr"], sig := "jsonstr" }
    | _, _ => .badOp
  | ["sc", vS, inH, outH] =>
    match parseJVal vS, hexField inH, hexField outH with
    | some v, some inn, some out =>
      let (mIn, mOut) := match v with
        | .str s => (scriptContentString s true, scriptContentString s false)
        | v => (scriptContentJson v true, scriptContentJson v false)
      let okOut := scriptDataSafe out && !out.contains 38 && !out.contains 62
      let okIn := quotes.all fun q => match lexString q (inn ++ [q.byte]) with | .ok _ [] => true | _ => false
      { mismatch := if mIn == inn && mOut == out then none else
          some s!"inside impl={Bytes.toHex inn} model={Bytes.toHex mIn}; outside impl={Bytes.toHex out} model={Bytes.toHex mOut}",
        predfail := if okOut && okIn then none else some s!"script content unsafe: outsideSafe={okOut} insideIsLiteralBody={okIn}",
        nontrivial := true, tags := ["sc:" ++ (match v with | .str _ => "str" | .arr _ => "arr" | .obj _ => "obj" | _ => "scalar")], sig := "sc" }
    | _, _, _ => .badOp
  | ["safe", fnH, encS, attrH, inlineH] =>
    match hexField fnH, hexField attrH, hexField inlineH with
    | some fn, some attr, some inl =>
      let ps? : Option (List Param) :=
        match splitSemi encS.toList with
        | some (c, rest) => (String.ofList c).toNat?.bind fun n => parseParams (rest.length + 1) n rest
        | none => none
      match ps? with
      | none => .badOp
      | some ps =>
        let mAttr := safeScript fn ps
        let mInl := safeScriptInline fn ps
        -- (an empty expression writes nothing: it stands for an argument encoding/json could not encode)
        let hasExpr := ps.any fun p => match p with | .expr b => !b.isEmpty | _ => false
        -- property: the attribute form has no double quote and decodes to the inline form; without JSExpression
        -- parameters the inline form cannot end a script element
        let ok := !attr.contains 34 && !attr.contains 60 && Html.decodeRefs attr == inl && (hasExpr || scriptDataSafe inl)
        let nameOk := validFunctionName fn || List.isPrefixOf invalidFunctionName inl
        { mismatch := if mAttr == attr && mInl == inl then none else
            some s!"attr impl={Bytes.toHex attr} model={Bytes.toHex mAttr}; inline impl={Bytes.toHex inl} model={Bytes.toHex mInl}",
          predfail := if ok && nameOk then none else some s!"SafeScript output unsafe (quote/lt free and decodes to inline: {ok}; name handled: {nameOk})",
          nontrivial := true, tags := ["safe", if validFunctionName fn then "fn-valid" else "fn-invalid"], sig := "safe" }
    | _, _, _ => .badOp
  | ["scv", ty, sH, inH, outH] =>
    match hexField sH, hexField inH, hexField outH with
    | some _s, some inn, some out =>
      -- any Go value type: outside a literal the JSON must not be able to end the script element or open a comment,
      -- inside a literal the text must be the body of one literal in all three kinds
      let okOut := scriptDataSafe out && !out.contains 38 && !out.contains 62
      let okIn := quotes.all fun q => match lexString q (inn ++ [q.byte]) with | .ok _ [] => true | _ => false
      { predfail := if okOut && okIn then none else some s!"script content of a {ty} value unsafe: outsideSafe={okOut} insideIsLiteralBody={okIn} out={Bytes.toHex (out.take 200)}",
        nontrivial := true, tags := ["scv:" ++ ty], sig := "scv;" ++ ty }
    | _, _, _ => .badOp
  | ["quote", scriptH, flagsS] =>
    match hexField scriptH with
    | some script =>
      let want := markerFlags (Bytes.ofString "{{ v }}") script
      let got := if flagsS == "-" then [] else flagsS.toList.map (· == '1')
      let feats := scriptFeatures (Bytes.ofString "{{ v }}") script
      -- a backslash outside every literal and comment, or a line break inside a '…' / "…" literal: the generated text is not JavaScript, so "inside a string literal"
      -- has no meaning a browser would act on (outside the property's quantifier)
      if feats.contains "stray-backslash" || feats.contains "broken-string" then { skipped := true, tags := ["quote-not-javascript"] } else
      { predfail := if want == got then none else
          some s!"parser's in-string-literal flags {got} differ from the JS lexer's {want} (constructs in the script: {feats})",
        nontrivial := want.any id, tags := ["quote"] ++ feats.map ("quote:" ++ ·),
        -- a disagreement in a script that contains a construct the parser does not track is the known limitation
        sig := "quote" ++ (if want != got && !feats.isEmpty then ";untracked-construct" else "") }
    | none => .badOp
  | ["postwice", sH, d1H, w1H, d2H, w2H] =>
    -- the same expression text in several positions of one script element: the element is the concatenation of what
    -- the single-position fixtures (each judged by the `pos` cases) render
    match hexField sH, hexField d1H, hexField w1H, hexField d2H, hexField w2H with
    | some _s, some d1, some w1, some d2, some w2 =>
      { predfail :=
          if d1 != w1 then some s!"one script element with the same expression bare, in '…', in \"…\", in a template literal and bare again: rendered {Bytes.toHex d1}; each occurrence encoded for its own position gives {Bytes.toHex w1}"
          else if d2 != w2 then some s!"one script element with the same expression in '…' first and bare afterwards: rendered {Bytes.toHex d2}; each occurrence encoded for its own position gives {Bytes.toHex w2}"
          else none,
        nontrivial := true, tags := ["same-expression-in-several-positions"], sig := "postwice" }
    | _, _, _, _, _ => .badOp
  | ["pos", name, sH, docH] =>
    match hexField sH, hexField docH with
    | some s, some doc =>
      let toks := HtmlTok.tokenize doc
      let quoted (q : Quote) : Option String :=
        match stripPrefix (scriptPrefix ++ [q.byte]) doc with
        | none => some "unexpected document prefix"
        | some body =>
          match lexString q body with
          | .ok v rest => if v == wantRunes s && rest == scriptSuffix then none else some s!"literal value/rest differ: {showResult (.ok v rest)}"
          | r => some (showResult r)
      let scriptShape : Bool := match toks with
        | [.startTag [115, 99, 114, 105, 112, 116] _ false, .text _, .endTag [115, 99, 114, 105, 112, 116]] => true
        | _ => false
      let noComment := !Bytes.hasInfix (Bytes.ofString "<!--") doc
      let fail : Option String :=
        if name == "single" then (quoted .single) <|> (if scriptShape && noComment then none else some "script element broken")
        else if name == "double" then (quoted .double) <|> (if scriptShape && noComment then none else some "script element broken")
        else if name == "backtick" then (quoted .backtick) <|> (if scriptShape && noComment then none else some "script element broken")
        else if name == "backtick-dollar" then
          -- the author wrote `$` directly before the expression: the literal is `$` followed by the string, and the
          -- pair must not open a substitution
          (match stripPrefix (scriptPrefix ++ [96]) doc with
           | none => some "unexpected document prefix"
           | some body =>
             match lexString .backtick body with
             | .ok v rest => if v == 36 :: wantRunes s && rest == scriptSuffix then none else some s!"literal value/rest differ: {showResult (.ok v rest)}"
             | r => some (showResult r)) <|> (if scriptShape && noComment then none else some "script element broken")
        else if name == "bare" then
          (match stripPrefix scriptPrefix doc with
           | none => some "unexpected document prefix"
           | some body =>
             match lexJsonString body with
             | .ok v rest => if v == wantRunes s && rest == scriptSuffix then none else some "bare JSON string value/rest differ"
             | r => some (showResult r)) <|> (if scriptShape && noComment then none else some "script element broken")
        else if name == "onclick" || name == "jsfunc-on" || name == "jsfunc-name-on" || name == "jsfunc-on-after-expr" then
          -- one button start tag with exactly one onclick attribute; (other tokens: optional script definition)
          let buttons := toks.filter fun t => match t with | .startTag [98, 117, 116, 116, 111, 110] _ _ => true | _ => false
          (match buttons with
           | [.startTag _ [(k, v)] false] =>
             if k == Bytes.ofString "onclick" && (name == "jsfunc-name-on" || Bytes.hasInfix (jsonString s) v) then none
             else some s!"onclick attribute does not carry the JSON of the value: {Bytes.toHex v}"
           | _ => some "button tag does not have exactly one attribute")
        else
          -- scriptcall / jsfunc-inline / jsonscript: the document is a sequence of well-formed script elements
          let rec scripts : List HtmlTok.Token → Bool
            | [] => true
            | .startTag [115, 99, 114, 105, 112, 116] _ false :: .text _ :: .endTag [115, 99, 114, 105, 112, 116] :: rest => scripts rest
            | .startTag [115, 99, 114, 105, 112, 116] _ false :: .endTag [115, 99, 114, 105, 112, 116] :: rest => scripts rest
            | _ => false
          if !(scripts toks && noComment) then some "document is not a sequence of intact script elements"
          -- an inline call with a Go string argument: the argument is in the script as its JSON encoding (data), whatever
          -- was rendered before
          else if (name == "jsfunc-inline" || name == "jsfunc-inline-after-expr") && !Bytes.hasInfix (jsonString s) doc then
            some "the string argument of the inline call is not in the script as its JSON encoding"
          else none
      { predfail := fail, nontrivial := true, tags := ["pos:" ++ name], sig := "pos;" ++ name }
    | _, _ => .badOp
  | _ => .badOp

end TemplVerif.Drive.C03
