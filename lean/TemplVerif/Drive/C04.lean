import TemplVerif.Drive.Common
import TemplVerif.Spec.HtmlTok
import TemplVerif.Model.Url
namespace TemplVerif.Drive.C04
open TemplVerif TemplVerif.Drive

/-- `url <s> <impl out>` : templ.URL(s) -/
def handle : List String → Verdict
  | ["url", sH, outH] =>
    match hexField sH, hexField outH with
    | some s, some out =>
      let model := Url.sanitize s
      let sch := Whatwg.scheme s
      let kind := if out != s then "replaced" else
        match sch with
        | none => "kept-relative"
        | some _ => "kept-scheme"
      let disguised := (Whatwg.preprocess s != s) && sch.isSome
      { mismatch := if model == out then none else some s!"impl={Bytes.toHex out} model={Bytes.toHex model}",
        predfail := if Whatwg.okPair s out then none else
          some s!"impl returned input unchanged but browser scheme={(sch.map Bytes.toHex).getD "none"}",
        nontrivial := (Url.indexOf 58 s).isSome,
        tags := [kind] ++ (if disguised then ["ws-disguised-scheme"] else []) ++ (if sch.isSome then ["has-scheme"] else []),
        sig := s!"url;{kind};scheme={(sch.map fun b => String.ofList (b.map fun c => Char.ofNat c.toNat)).getD "none"}" }
    | _, _ => .badOp
  | ["typing", shapeH, exprH, _srcH, codeH] =>
    match hexField shapeH, hexField exprH, hexField codeH with
    | some shape, some expr, some code =>
      -- a spelling the parser / generator rejects is outside the quantifier
      if List.isPrefixOf (Bytes.ofString "GENERATE-ERROR") code then { skipped := true, tags := ["typing-rejected"] } else
      -- " templ.SafeURL = " ++ expr ++ "\n"   and   "WriteString(templ.EscapeString(string("
      let typed := Bytes.countInfix (Bytes.ofString " templ.SafeURL = " ++ expr ++ [10]) code
      let joined := Bytes.countInfix (Bytes.ofString "templ.JoinStringErrs(" ++ expr ++ [41]) code
      let written := Bytes.countInfix (Bytes.ofString "_Buffer.WriteString(templ.EscapeString(string(templ_7745c5c3_Var") code
      let shapeS := String.ofList (shape.map fun c => Char.ofNat c.toNat)
      let expected := if (Bytes.hasInfix (Bytes.ofString "then-else") shape) then 2 else 1
      -- (in the "shared" shapes the same expression text also fills an ordinary string attribute, once)
      let joinedWant := if Bytes.hasInfix (Bytes.ofString "shared") shape then 1 else 0
      let ok := typed == expected && joined == joinedWant && written == expected
      { predfail := if ok then none else
          some s!"href/action expression not routed through templ.SafeURL: typed={typed} (want {expected}) viaJoinStringErrs={joined} escapedWrites={written}",
        nontrivial := true, tags := ["typing:" ++ shapeS], sig := s!"typing;{shapeS}" }
    | _, _, _ => .badOp
  | ["hrefdoc", el, vH, uH, docH] =>
    match hexField vH, hexField uH, hexField docH with
    | some _v, some u, some doc =>
      let want := if el == "a" then Bytes.ofString "href" else Bytes.ofString "action"
      match HtmlTok.tokenize doc with
      | .startTag name attrs _ :: _ =>
        let got := (attrs.find? fun a => a.1 == want).map (·.2)
        { predfail :=
            if name != Bytes.ofString el then some "the rendered document does not start with the element"
            else if attrs.length != 1 then some s!"the element has {attrs.length} attributes instead of one: the URL left its attribute value"
            else if got != some u then some s!"the browser reads the {el} URL as {Bytes.toHex (got.getD [])}, templ.URL returned {Bytes.toHex u}"
            else none,
          nontrivial := Html.escape u != u, tags := ["hrefdoc:" ++ el], sig := "hrefdoc;" ++ el }
      | _ => { predfail := some "the rendered document does not start with a start tag", nontrivial := true, sig := "hrefdoc;structure" }
    | _, _, _ => .badOp
  | ["urlpar", nS, inH, aloneH, gotH] =>
    match hexField inH, hexField aloneH, hexField gotH with
    | some inp, some alone, some got =>
      { predfail := if nS == "0" then none else
          some s!"templ.URL called from 16 goroutines at once: {nS} input(s) got another answer than when called alone, e.g. {Bytes.toHex inp}: alone {Bytes.toHex alone}, concurrently {Bytes.toHex got}",
        nontrivial := true, tags := ["concurrent-url"], sig := "urlpar" }
    | _, _, _ => .badOp
  | ["spread", el, vH, docH] =>
    match hexField vH, hexField docH with
    | some v, some doc =>
      -- the browser's view of the href / action attribute of the rendered element
      let want := if el == "a" then Bytes.ofString "href" else Bytes.ofString "action"
      let got : Option Bytes := match HtmlTok.tokenize doc with
        | .startTag _ attrs _ :: _ => (attrs.find? fun a => a.1 == want).map (·.2)
        | _ => none
      { predfail := match got with
          | none => some "spread attribute did not produce the element / attribute"
          | some u => if Whatwg.okPair v u then none else
              some s!"{el} received the dynamic URL {Bytes.toHex u} through spread attributes: it is neither relative nor allow-listed and was not replaced",
        nontrivial := (Whatwg.scheme v).isSome, tags := ["spread:" ++ el], sig := "spread;" ++ el }
    | _, _ => .badOp
  | _ => .badOp

end TemplVerif.Drive.C04
