import TemplVerif.Drive.Common
import TemplVerif.Model.Quote
import TemplVerif.Drive.C0809
namespace TemplVerif.Drive.C16
open TemplVerif TemplVerif.Drive TemplVerif.Quote

def hexList (s : String) : Option (List Bytes) := if s == "-" then some [] else (s.splitOn ";").mapM hexField

def handle : List String → Verdict
  | ["quote", sH, printS, bodyH, unS] =>
    match hexField sH, natList printS, hexField bodyH with
    | some s, some printable, some body =>
      let isPrint := fun r => printable.contains r
      let model := quote isPrint s
      let back := unquote body
      let implBack := if unS == "ERR" then none else hexField unS
      { mismatch := if model == body && back == implBack then none else
          some s!"Quote impl={Bytes.toHex body} model={Bytes.toHex model}; Unquote impl={unS} model={(back.map Bytes.toHex).getD "ERR"}",
        predfail := if back == some s && !body.contains 10 then none else some "quoted literal does not unquote to the original or contains a raw line break",
        nontrivial := body != s, tags := ["quote"], sig := "quote" }
    | _, _, _ => .badOp
  | ["lits", origin, litsS, fileH, unS] =>
    match hexList litsS, hexField fileH with
    | some lits, some file =>
      let implUn := unS.splitOn ";"
      -- the text file round trip: line i of the file is literal i, unquoting gives what Go's compiler reads in "…"
      let bad := (List.range lits.length).filter fun i =>
        let want := unquote (lits.getD i [])
        want.isNone || devLiteral file (i + 1) != want || (implUn.getD i "ERR") != (want.map Bytes.toHex).getD "ERR" ||
          (lits.getD i []).contains 10
      { predfail := if bad.isEmpty && textFile lits == file then none else
          some s!"literal(s) {bad} do not survive the development text file (raw line break, not unquotable, or shifted)",
        nontrivial := lits.length > 1, tags := [origin, "lits"], sig := "lits" }
    | _, _ => .badOp
  | ["dev", name, normalH, devH] =>
    match hexField normalH, hexField devH with
    | some normal, some dev =>
      { predfail := if normal == dev then none else
          some s!"{name}: development-mode render differs from the normal render: {Bytes.toHex (dev.take 200)}",
        nontrivial := true, tags := ["dev:" ++ name], sig := "dev;" ++ name }
    | _, _ => .badOp
  | ["devlit", lineH, outS] =>
    match hexField lineH with
    | some line =>
      let want := (unquote line).map Bytes.toHex |>.getD "ERR"
      -- a line with a raw LF never reaches here (the file is split on LF); the model decides what the line denotes
      { predfail := if want == outS || (want == "" && outS == "") then none else
          some s!"development-mode WriteString returned {outS.take 120} for text-file line {String.ofList (line.map fun (c : UInt8) => Char.ofNat c.toNat)}; the literal denotes {want.take 120}",
        nontrivial := line.contains 92, tags := ["devlit"], sig := "devlit" }
    | none => .badOp
  | ["session", nS, flagsS, litsS, diskS] =>
    match hexList litsS with
    | some lits =>
      let disk := if diskS == "MISSING" then none else hexField diskS
      { predfail := if disk == some (textFile lits) then none else
          some s!"after {nS} edits (handler verdicts {flagsS}) the development text file is not the one for the last version: on disk {(disk.map Bytes.toHex).getD "nothing"}, expected {Bytes.toHex (textFile lits)}",
        nontrivial := nS != "1", tags := ["session", "session-steps:" ++ nS], sig := "session" }
    | none => .badOp
  | ["txtname", name, realH, linkH] =>
    match hexField realH, hexField linkH with
    | some a, some b =>
      { predfail := if a == b then none else
          some s!"{name}: reached through a symbolic link the development text file has another name than through the real path (generator and running program would use different files)",
        nontrivial := true, tags := ["txtname"], sig := "txtname" }
    | _, _ => .badOp
  | ["live", round, phase, wantH, gotH] =>
    match hexField wantH, hexField gotH with
    | some want, some got =>
      { predfail := if want == got then none else
          some s!"long-running development-mode process, round {round}, {phase}: the text file holds {Bytes.toHex want} but the program rendered {Bytes.toHex got}",
        nontrivial := true, tags := ["live:" ++ phase], sig := "live;" ++ phase }
    | _, _ => .badOp
  | ["pair", changedS, _src1, _src2, code1H, code2H] =>
    match hexField code1H, hexField code2H with
    | some c1, some c2 =>
      let changed := changedS == "true"
      -- the code with the CONTENTS of each static literal blanked; the literal-writing statement itself, its index and
      -- its place among the other statements are part of the compiled program and must agree
      let mask := fun (c : Bytes) => (splitLF c).map fun l =>
        if Bytes.hasInfix C0809.wsMarker l then l.takeWhile (· != 34) else l
      let s1 := mask c1
      let s2 := mask c2
      let sameSkeleton := s1 == s2
      { predfail := if changed || sameSkeleton then none else
          some s!"HasChanged says no recompilation is needed, but the generated code differs outside its literals: {C0809.firstDiff (joinLF s1) (joinLF s2)}",
        nontrivial := !changed, tags := [if changed then "needs-recompile" else "text-only"], sig := "pair" }
    | _, _ => .badOp
  | _ => .badOp

end TemplVerif.Drive.C16
