import TemplVerif.Drive.Common
import TemplVerif.Model.Doc
namespace TemplVerif.Drive.C17
open TemplVerif TemplVerif.Doc TemplVerif.Drive

/-- `apply <doc> <range: - | sl,sc,el,ec> <text> <impl: hex | PANIC>` -/
def handle : List String → Verdict
  | ["apply", docH, rngS, txtH, implS] =>
    match hexField docH, hexField txtH with
    | some doc, some txt =>
      let r? : Option (Option Rng) :=
        if rngS == "-" then some none else
        match natList rngS with
        | some [a, b, c, d] => some (some ⟨⟨a, b⟩, ⟨c, d⟩⟩)
        | _ => none
      match r? with
      | none => .badOp
      | some r =>
        let d := ofText doc
        if !ordered d r then { skipped := true, tags := ["start-after-end"] } else
        let model := text (Doc.apply d r txt)
        let spec := Editor.apply doc r txt
        let kind : String :=
          match r with
          | none => "nil-range"
          | some r0 =>
            let rn := normalize d r0
            if isWhole d rn then "whole" else
            if isEmptyRange rn && !txt.isEmpty then "insert" else
            if !isEmptyRange rn && txt.isEmpty then "delete" else
            if !isEmptyRange rn then "overwrite" else "noop"
        let clamped : Bool := match r with
          | none => false
          | some r0 => decide (normalize d r0 ≠ r0)
        let multi := txt.contains 10
        let tags := [kind] ++ (if clamped then ["clamped"] else []) ++ (if multi then ["multiline-text"] else [])
        let impl? := if implS == "PANIC" then none else hexField implS
        match impl? with
        | none =>
          { mismatch := some s!"impl={implS} model={Bytes.toHex model}",
            predfail := some s!"impl={implS} want={Bytes.toHex spec}",
            tags := tags, nontrivial := true, sig := s!"{kind};panic" }
        | some impl =>
          { mismatch := if impl == model then none else some s!"impl={Bytes.toHex impl} model={Bytes.toHex model}",
            predfail := if impl == spec then none else some s!"impl={Bytes.toHex impl} want={Bytes.toHex spec}",
            tags := tags,
            nontrivial := kind != "nil-range" && kind != "noop",
            sig := kind }
    | _, _ => .badOp
  | _ => .badOp

end TemplVerif.Drive.C17
