import TemplVerif.Drive.Common
import TemplVerif.Model.Doc
namespace TemplVerif.Drive.C17
open TemplVerif TemplVerif.Doc TemplVerif.Drive

/-- `apply <doc> <range: - | sl,sc,el,ec> <text> <impl: hex | PANIC>` -/
def handle : List String → Verdict
  | ["apply", docH, rngS, txtH, implS] =>
    match hexField docH, hexField txtH with
    | some doc, some txt =>
      let r? : Option (Option Rng) :=
        if rngS == "-" then some none else
        match natList rngS with
        | some [a, b, c, d] => some (some ⟨⟨a, b⟩, ⟨c, d⟩⟩)
        | _ => none
      match r? with
      | none => .badOp
      | some r =>
        let d := ofText doc
        if !ordered d r then { skipped := true, tags := ["start-after-end"] } else
        let model := text (Doc.apply d r txt)
        let spec := Editor.apply doc r txt
        let kind : String :=
          match r with
          | none => "nil-range"
          | some r0 =>
            let rn := normalize d r0
            if isWhole d rn then "whole" else
            if isEmptyRange rn && !txt.isEmpty then "insert" else
            if !isEmptyRange rn && txt.isEmpty then "delete" else
            if !isEmptyRange rn then "overwrite" else "noop"
        let clamped : Bool := match r with
          | none => false
          | some r0 => decide (normalize d r0 ≠ r0)
        let multi := txt.contains 10
        let tags := [kind] ++ (if clamped then ["clamped"] else []) ++ (if multi then ["multiline-text"] else [])
        let impl? := if implS == "PANIC" then none else hexField implS
        match impl? with
        | none =>
          { mismatch := some s!"impl={implS} model={Bytes.toHex model}",
            predfail := some s!"impl={implS} want={Bytes.toHex spec}",
            tags := tags, nontrivial := true, sig := s!"{kind};panic" }
        | some impl =>
          { mismatch := if impl == model then none else some s!"impl={Bytes.toHex impl} model={Bytes.toHex model}",
            predfail := if impl == spec then none else some s!"impl={Bytes.toHex impl} want={Bytes.toHex spec}",
            tags := tags,
            nontrivial := kind != "nil-range" && kind != "noop",
            sig := kind }
    | _, _ => .badOp
  | ["hist", docH, csS, implS] =>
    match hexField docH with
    | some doc0 =>
      let cs? : Option (List Change) :=
        if csS == "-" then some [] else
        (csS.splitOn ";").mapM fun part =>
          match part.splitOn "|" with
          | [rs, th] =>
            match hexField th, (if rs == "-" then some none else
                    match natList rs with
                    | some [a, b, c, d] => some (some (⟨⟨a, b⟩, ⟨c, d⟩⟩ : Rng))
                    | _ => none) with
            | some t, some r => some (r, t)
            | _, _ => none
          | _ => none
      match cs? with
      | none => .badOp
      | some cs =>
        if !allOrdered doc0 cs then { skipped := true, tags := ["hist-start-after-end"] } else
        let model := text (cs.foldl (fun d c => Doc.apply d c.1 c.2) (ofText doc0))
        let spec := cs.foldl (fun t c => Editor.apply t c.1 c.2) doc0
        let impl? := if implS == "PANIC" then none else hexField implS
        { mismatch := if impl? == some model then none else some s!"history: impl={implS} model={Bytes.toHex model}",
          predfail := if impl? == some spec then none else some s!"history: impl={implS} want={Bytes.toHex spec}",
          nontrivial := cs.length ≥ 2, tags := ["hist"], sig := "hist" }
    | none => .badOp
  | _ => .badOp

end TemplVerif.Drive.C17
